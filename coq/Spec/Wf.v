(* Spec of property C07: the data-reference rules, read LEXICALLY (DESIGN.md
   Appendix B.3), over the view of the AST defined in Model/RefView.v (a node
   is its kind -- let / call / loop / data reference / function / header param /
   block / other -- and the list of its children in source order).

   * Scope.  The children of a parent are read left to right; a {let $x} among
     them brings x into scope for the children AFTER it (and nowhere else: not
     in its own value, not after the parent ends).  A loop brings its variable
     into scope in its body only (not in the list expression, not in
     {ifempty}).  $ij is always bound and never refers to a param or variable.
   * Every reference $k needs k bound: by an enclosing {let}/loop or a declared
     param.
   * A reference is a USE of the innermost binder of that name: [refs x t]
     holds when t contains a reference to x that no binder of x inside t
     captures.  Every {let $x} must be used by the children after it, before a
     later {let $x} among them re-binds the name; x may not be "ij".
   * Every declared param must be used by the template body, or be passed on
     by a data="all" call to a template that declares it.
   * A call names an existing template, passes only params the callee
     declares, and -- unless it passes data="$expr" -- all the callee's
     required params (explicitly, or through data="all" for the params the
     caller itself declares).
   * index/isFirst/isLast take exactly one argument, a plain variable $x (no
     accesses) of an enclosing loop over x (the renderer reads that loop's
     counters; needed for the "no unbound lookup" clause; any other argument
     list makes the renderer panic and soyjs.Write fail: C14-loopfunc-shape).
   * A {@param} tag anywhere but at the head of the template body is an error;
     a template declares soydoc params or header params, not both.

   Nothing here mentions the checker's stack, its used-flags or its lists of
   used keys.  Definitions only. *)
From Soy Require Import Model.Bytes Model.Values Model.Ast Model.RefView.
Open Scope N_scope.

(* ------------------------------------------------------------------ *)
(* uses *)

Definition binds_let (x : bstr) (c : rt) : bool :=
  match rt_kind c with KLet y => bstr_eqb y x | _ => false end.

(* [refs_seq x ks rs]: one of the siblings [ks] (whose own [refs x] are [rs])
   references x before a {let $x} among them re-binds it *)
Fixpoint refs_seq (x : bstr) (ks : list rt) (rs : list bool) : bool :=
  match ks, rs with
  | c :: ks', r :: rs' => r || (negb (binds_let x c) && refs_seq x ks' rs')
  | _, _ => false
  end.

Definition refs_body (x : bstr) (k : ck) (kids : list rt) (rs : list bool) : bool :=
  match k with
  | KRef key => (bstr_eqb key x && negb (bstr_eqb key s_ij)) || refs_seq x kids rs
  | KFor y =>
      match rs with
      | l :: body :: ifempty => l || (negb (bstr_eqb y x) && body) || existsb (fun r => r) ifempty
      | _ => false
      end
  | _ => refs_seq x kids rs
  end.

Fixpoint refs (x : bstr) (t : rt) : bool :=
  match t with RT k kids => refs_body x k kids (map (refs x) kids) end.

(* ------------------------------------------------------------------ *)
(* well-formedness of a template body *)

Section Template.
Variable templates : list template.     (* the bundle *)
Variable params : list bstr.            (* the params the template declares *)

Definition keys_of (pkeys : list (option bstr)) : list bstr :=
  flat_map (fun o => match o with Some k => [k] | None => [] end) pkeys.

Definition call_ok (name : bstr) (alldata hasdata : bool) (pkeys : list (option bstr)) : bool :=
  match find_template templates name with
  | None => false                                                     (* the callee exists *)
  | Some callee =>
      let declared := map fst (t_params callee) in
      let required := map fst (filter (fun p => negb (snd p)) (t_params callee)) in
      forallb (fun o => match o with Some _ => true | None => false end) pkeys
      && forallb (contains declared) (keys_of pkeys)                   (* only declared params *)
      && (hasdata                                                      (* all required ones, unless data="$e" *)
          || forallb (fun r => contains (keys_of pkeys) r || (alldata && contains params r)) required)
  end.

Definition loopfunc_ok (name : bstr) (arg0 : option bstr) (L : list bstr) : bool :=
  negb (contains loop_func_names name)
  || match arg0 with Some key => contains L key | None => false end.

Definition wfun := list bstr -> list bstr -> bool.   (* G: lets and loop variables in scope; L: enclosing loops *)

(* the children of one parent, in order; [ws] are their own judgments *)
Fixpoint wf_seq (ks : list rt) (ws : list wfun) (G L : list bstr) : bool :=
  match ks, ws with
  | c :: ks', w :: ws' =>
      w G L &&
      match rt_kind c with
      | KLet x => refs_seq x ks' (map (refs x) ks') && wf_seq ks' ws' (x :: G) L
      | _ => wf_seq ks' ws' G L
      end
  | _, _ => true
  end.

Definition wf_body (k : ck) (kids : list rt) (ws : list wfun) (G L : list bstr) : bool :=
  match k with
  | KRef key => (bstr_eqb key s_ij || contains G key || contains params key) && wf_seq kids ws G L
  | KLet x => negb (bstr_eqb x s_ij) && wf_seq kids ws G L       (* its own value: x not yet in scope *)
  | KCall name alldata hasdata pkeys => call_ok name alldata hasdata pkeys && wf_seq kids ws G L
  | KFor x =>
      match ws with
      | l :: body :: ifempty => l G L && body (x :: G) (x :: L) && forallb (fun w => w G L) ifempty
      | _ => false
      end
  | KFunc name arg0 => loopfunc_ok name arg0 L && wf_seq kids ws G L
  | KHeaderParam => false
  | KBlock | KOther => wf_seq kids ws G L
  end.

Fixpoint wf (t : rt) : wfun :=
  match t with RT k kids => wf_body k kids (map wf kids) end.

(* some data="all" call in t goes to a template that declares p *)
Fixpoint forwards (p : bstr) (t : rt) : bool :=
  match t with
  | RT k kids =>
      (match k with
       | KCall name true _ _ =>
           match find_template templates name with
           | Some callee => contains (map fst (t_params callee)) p
           | None => false
           end
       | _ => false
       end) || existsb (forwards p) kids
  end.

Definition wf_template_node (n : node) : bool :=
  wf (view n) [] [] && forallb (fun p => refs p (view n) || forwards p (view n)) params.
End Template.

Definition wf_template (templates : list template) (t : template) : bool :=
  wf_template_node templates (map fst (t_params t)) (t_node t).

Definition wf_templates (ts : list template) : bool := forallb (wf_template ts) ts.
Definition wf_registry (reg : registry) : bool := wf_templates (r_templates reg).

(* ------------------------------------------------------------------ *)
(* bundles: the files as parsed *)

Definition doc_params (prev : option node) : list (bstr * bool) :=
  match prev with
  | Some (NSoyDoc _ ps) => flat_map (fun n => match n with NSoyDocParam _ name opt => [(name, opt)] | _ => [] end) ps
  | _ => []
  end.

(* the {@param} tags at the head of a template body, and the rest of the body *)
Fixpoint head_params (ns : list node) : list (bstr * bool) :=
  match ns with NHeaderParam _ opt name _ _ :: r => (name, opt) :: head_params r | _ => [] end.
Fixpoint after_head (ns : list node) : list node :=
  match ns with NHeaderParam _ _ _ _ _ :: r => after_head r | _ => ns end.

(* the file declares its namespace before anything but soydoc comments *)
Fixpoint namespace_of (body : list node) : option (bstr * N) :=
  match body with
  | NSoyDoc _ _ :: r => namespace_of r
  | NNamespace _ name ae :: _ => Some (name, ae)
  | _ => None
  end.

Definition exclusive_params (pn : option node * node) : bool :=
  match snd pn with
  | NTemplate _ _ (NList _ nodes) _ _ =>
      match doc_params (fst pn), head_params nodes with
      | _ :: _, _ :: _ => false          (* both soydoc and header params *)
      | _, _ => true
      end
  | _ => true
  end.

Definition template_of (fname : bstr) (ns : bstr * N) (pn : option node * node) : list template :=
  match snd pn with
  | NTemplate p name (NList lp nodes) ae priv =>
      [{| t_name := name; t_node := NTemplate p name (NList lp (after_head nodes)) ae priv;
          t_ns_name := fst ns; t_ns_autoescape := snd ns;
          t_params := doc_params (fst pn) ++ head_params nodes; t_file := fname |}]
  | _ => []
  end.

Definition file_templates (f : soyfile) : list template :=
  match namespace_of (sf_body f) with
  | Some ns => flat_map (template_of (sf_name f) ns) (with_prev None (sf_body f))
  | None => []
  end.

Definition bundle_templates (fs : list soyfile) : list template := flat_map file_templates fs.

(* side condition of Registry.Add that is not a data-reference rule: template names are unique *)
Fixpoint distinct (l : list bstr) : bool :=
  match l with [] => true | x :: r => negb (contains r x) && distinct r end.

Definition wf_bundle (fs : list soyfile) : bool :=
  forallb (fun f => match namespace_of (sf_body f) with Some _ => true | None => false end) fs
  && forallb (fun f => forallb exclusive_params (with_prev None (sf_body f))) fs
  && distinct (map t_name (bundle_templates fs))
  && wf_templates (bundle_templates fs).
