(* Concrete syntax of Soy expressions at token level (C01 syntax half, C17).

   [show sty path e] is the Spec printer: the token sequence that writes the expression tree
   [e] with parentheses exactly where the Soy operator table requires them -- precedence, high
   to low:  - not | * / % | + - | < > <= >= | == != | and | or | ?: | ? : ; binary operators
   associate to the left, the ternary operator to the right -- plus [sty q] redundant pairs of
   parentheses around the operand at tree path [q] (any operand, argument, item, branch or
   bracketed expression).  [tokens_of e] is the minimal style; it is the token sequence that
   the text printed by ast/node.go's String methods (Model/AstPrint.v) lexes to.

   Every token carries the position of the node it gives rise to, so that parsing
   [show sty path e] gives back [e] itself; [strip_pos] erases positions.

   [wf_expr] excludes only trees without concrete syntax: command nodes inside expressions,
   access nodes outside a data reference, integers outside int64, negative data-reference
   indices, float literals whose text does not read back as the same float (every float of
   the printing domain does; it is a decidable side condition per literal), string literals
   whose value is not what their quoted text denotes, globals already bound to a value, a
   ternary whose position is not its condition's, and map literals whose item list is not the
   sorted duplicate-free representative of the Go map or whose keys do not survive
   quote/unquote (every valid UTF-8 key does).
   Definitions only. *)
From Soy Require Import Model.Bytes Model.Num Model.Values Model.Ast Model.Token Model.NumLit Model.Quote Model.AstPrint Generated.Tables.
Open Scope N_scope.

(* ---- the Soy operator table ---- *)
Definition op_level (op : binop) : N :=
  match op with
  | OMul | ODiv | OMod => 7
  | OAdd | OSub => 6
  | OLt | OGt | OLte | OGte => 5
  | OEq | ONotEq => 4
  | OAnd => 3
  | OOr => 2
  | OElvis => 1
  end.
Definition lvl_ternary : N := 0.
Definition lvl_unary : N := 8.
Definition lvl_primary : N := 9.

Definition expr_level (n : node) : N :=
  match n with
  | NTern _ _ _ _ => lvl_ternary
  | NBin op _ _ _ => op_level op
  | NNot _ _ | NNeg _ _ => lvl_unary
  | _ => lvl_primary
  end.

(* ---- tokens ---- *)
Definition tk (ty p : N) (v : bstr) : tok := {| t_typ := ty; t_pos := p; t_val := v |}.
Definition T_lparen : tok := tk pk_itemLeftParen 0 [40].
Definition T_rparen : tok := tk pk_itemRightParen 0 [41].
Definition T_comma : tok := tk pk_itemComma 0 [44].
Definition T_colon : tok := tk pk_itemColon 0 [58].
Definition T_rbracket : tok := tk pk_itemRightBracket 0 [93].
Definition T_ternif : tok := tk pk_itemTernIf 0 [63].
Definition T_rdelim : tok := tk pk_itemRightDelim 0 [125].

Definition op_tok_typ (op : binop) : N :=
  match op with
  | OMul => pk_itemMul | ODiv => pk_itemDiv | OMod => pk_itemMod | OAdd => pk_itemAdd | OSub => pk_itemSub
  | OEq => pk_itemEq | ONotEq => pk_itemNotEq | OGt => pk_itemGt | OGte => pk_itemGte | OLt => pk_itemLt | OLte => pk_itemLte
  | OOr => pk_itemOr | OAnd => pk_itemAnd | OElvis => pk_itemElvis
  end.
Definition op_tok (op : binop) (p : N) : tok := tk (op_tok_typ op) p (binop_name op).

Definition s_not := Eval vm_compute in b "not".

(* a name a.b.c is one identifier item followed by one .ident item per dot *)
Fixpoint split_dots (cur : bstr) (s : bstr) : list bstr :=
  match s with
  | [] => [cur]
  | c :: r => if c =? 46 then cur :: split_dots [46] r else split_dots (cur ++ [c]) r
  end.
Definition global_toks (p : N) (name : bstr) : list tok :=
  match split_dots [] name with
  | [] => []
  | first :: rest => tk pk_itemIdent p first :: map (fun s => tk pk_itemDotIdent 0 s) rest
  end.

Fixpoint parens (k : nat) (ts : list tok) : list tok :=
  match k with
  | O => ts
  | S k' => T_lparen :: parens k' ts ++ [T_rparen]
  end.

Definition sep_join (sep : list tok) : list (list tok) -> list tok :=
  fix go (ls : list (list tok)) : list tok :=
    match ls with
    | [] => []
    | [x] => x
    | x :: r => x ++ sep ++ go r
    end.

Definition mapi_from {A B} (f : nat -> A -> B) : nat -> list A -> list B :=
  fix go (i : nat) (l : list A) : list B :=
    match l with
    | [] => []
    | x :: r => f i x :: go (S i) r
    end.

(* "-5" is the literal: the negation of a non-negative numeric literal is written -(5) *)
Definition neg_literal (a : node) : bool :=
  match a with
  | NInt _ z => (0 <=? z)%Z
  | NFloat _ f => match fl_print f with Some s => starts_with_digit s | None => false end
  | _ => false
  end.

Definition b2n (x : bool) : nat := if x then 1%nat else 0%nat.

Section Show.
Variable sty : list nat -> nat.

Fixpoint show (path : list nat) (e : node) {struct e} : list tok :=
  match e with
  | NNull p => [tk pk_itemNull p s_null]
  | NBool p x => [tk pk_itemBool p (if x then s_true else s_false)]
  | NInt p z => [tk pk_itemInteger p (dec_of_Z z)]
  | NFloat p f => [tk pk_itemFloat p (match fl_print f with Some s => s | None => [] end)]
  | NString p q _ => [tk pk_itemString p q]
  | NGlobal p name _ => global_toks p name
  | NFunc p name args =>
      tk pk_itemIdent p name :: T_lparen ::
      sep_join [T_comma] (mapi_from (fun i c => parens (sty (i :: path)) (show (i :: path) c)) 0 args) ++ [T_rparen]
  | NListLit p items =>
      tk pk_itemLeftBracket p [91] ::
      sep_join [T_comma] (mapi_from (fun i c => parens (sty (i :: path)) (show (i :: path) c)) 0 items) ++ [T_rbracket]
  | NMapLit p items =>
      match items with
      | [] => [tk pk_itemLeftBracket p [91]; T_colon; T_rbracket]
      | _ =>
          tk pk_itemLeftBracket p [91] ::
          sep_join [T_comma]
            (mapi_from (fun i kv => tk pk_itemString 0 (quote_key (fst kv)) :: T_colon ::
                                    parens (sty (i :: path)) (show (i :: path) (snd kv))) 0 items) ++ [T_rbracket]
      end
  | NDataRef p key acc =>
      tk pk_itemDollarIdent p (36 :: key) :: concat (mapi_from (fun i a => show (i :: path) a) 0 acc)
  | NAccIndex p ns i =>
      [tk (if ns then pk_itemQuestionDotIndex else pk_itemDotIndex) p ((if ns then [63; 46] else [46]) ++ dec_of_Z i)]
  | NAccKey p ns k =>
      [tk (if ns then pk_itemQuestionDotIdent else pk_itemDotIdent) p ((if ns then [63; 46] else [46]) ++ k)]
  | NAccExpr p ns a =>
      tk (if ns then pk_itemQuestionKey else pk_itemLeftBracket) p (if ns then [63; 91] else [91]) ::
      parens (sty (0%nat :: path)) (show (0%nat :: path) a) ++ [T_rbracket]
  | NNot p a =>
      tk pk_itemNot p s_not ::
      parens (sty (0%nat :: path) + b2n (expr_level a <? lvl_unary)) (show (0%nat :: path) a)
  | NNeg p a =>
      tk pk_itemNegate p [45] ::
      parens (sty (0%nat :: path) + b2n ((expr_level a <? lvl_unary) || neg_literal a)) (show (0%nat :: path) a)
  | NBin op p a1 a2 =>
      parens (sty (0%nat :: path) + b2n (expr_level a1 <? op_level op)) (show (0%nat :: path) a1) ++
      op_tok op p ::
      parens (sty (1%nat :: path) + b2n (expr_level a2 <? op_level op + 1)) (show (1%nat :: path) a2)
  | NTern _ c x y =>
      parens (sty (0%nat :: path) + b2n (expr_level c <? lvl_ternary + 1)) (show (0%nat :: path) c) ++
      T_ternif :: parens (sty (1%nat :: path)) (show (1%nat :: path) x) ++
      T_colon :: parens (sty (2%nat :: path)) (show (2%nat :: path) y)
  | _ => []
  end.

(* a print directive and a print command (after "{" / "{print"): arg |name:arg,arg ... "}" *)
Definition show_directive (path : list nat) (d : node) : list tok :=
  match d with
  | NDirective p name args =>
      tk pk_itemPipe p [124] :: tk pk_itemIdent 0 name ::
      concat (mapi_from (fun i c => (if Nat.eqb i 0 then T_colon else T_comma) ::
                                    parens (sty (i :: path)) (show (i :: path) c)) 0 args)
  | _ => []
  end.

Definition show_print (path : list nat) (n : node) : list tok :=
  match n with
  | NPrint _ arg dirs =>
      parens (sty (0%nat :: path)) (show (0%nat :: path) arg) ++
      concat (mapi_from (fun i d => show_directive (S i :: path) d) 0 dirs) ++ [T_rdelim]
  | _ => []
  end.
End Show.

Definition sty_min : list nat -> nat := fun _ => 0%nat.
Definition tokens_of (e : node) : list tok := show sty_min [] e.
Definition tokens_of_print (n : node) : list tok := show_print sty_min [] n.

(* ---- well-formed trees ---- *)
Definition allP {A} (P : A -> Prop) : list A -> Prop :=
  fix go (l : list A) : Prop := match l with [] => True | x :: r => P x /\ go r end.

Fixpoint keys_sorted (l : list bstr) : Prop :=
  match l with
  | [] => True
  | k :: r => match r with [] => True | k' :: _ => bstr_ltb k k' = true end /\ keys_sorted r
  end.

Definition key_ok (k : bstr) : Prop := unquote_string (quote_key k) = Some k.

(* a float literal: a finite float in normal form that the printer model prints.  That its text reads back
   as the same float is a theorem (Proofs/FloatRtPrint.v fl_print_parse), not a condition. *)
Definition float_ok (f : fl) : Prop := fl_finite_norm f /\ exists s, fl_print f = Some s.

Fixpoint wf_expr (e : node) : Prop :=
  match e with
  | NNull _ | NBool _ _ => True
  | NInt _ z => in_int64 z = true
  | NFloat _ f => float_ok f
  | NString _ q v => unquote_string q = Some v
  | NGlobal _ _ v => v = VUndef
  | NFunc _ _ args => allP wf_expr args
  | NListLit _ items => allP wf_expr items
  | NMapLit _ items =>
      allP (fun kv => key_ok (fst kv) /\ wf_expr (snd kv)) items /\ keys_sorted (map fst items)
  | NDataRef _ _ acc =>
      allP (fun a => match a with
                     | NAccIndex _ _ i => (0 <= i)%Z /\ in_int64 i = true
                     | NAccKey _ _ _ => True
                     | NAccExpr _ _ x => wf_expr x
                     | _ => False
                     end) acc
  | NNot _ a | NNeg _ a => wf_expr a
  | NBin _ _ a1 a2 => wf_expr a1 /\ wf_expr a2
  | NTern p c x y => p = pos_of c /\ wf_expr c /\ wf_expr x /\ wf_expr y
  | _ => False
  end.

Definition wf_directive (d : node) : Prop :=
  match d with NDirective _ _ args => allP wf_expr args | _ => False end.
Definition wf_print (n : node) : Prop :=
  match n with NPrint _ arg dirs => wf_expr arg /\ allP wf_directive dirs | _ => False end.

(* ---- equality up to positions ---- *)
Fixpoint strip_pos (e : node) : node :=
  match e with
  | NNull _ => NNull 0
  | NBool _ x => NBool 0 x
  | NInt _ z => NInt 0 z
  | NFloat _ f => NFloat 0 f
  | NString _ q v => NString 0 q v
  | NGlobal _ name v => NGlobal 0 name v
  | NFunc _ name args => NFunc 0 name (map strip_pos args)
  | NListLit _ items => NListLit 0 (map strip_pos items)
  | NMapLit _ items => NMapLit 0 (map (fun kv => (fst kv, strip_pos (snd kv))) items)
  | NDataRef _ key acc => NDataRef 0 key (map strip_pos acc)
  | NAccIndex _ ns i => NAccIndex 0 ns i
  | NAccKey _ ns k => NAccKey 0 ns k
  | NAccExpr _ ns a => NAccExpr 0 ns (strip_pos a)
  | NNot _ a => NNot 0 (strip_pos a)
  | NNeg _ a => NNeg 0 (strip_pos a)
  | NBin op _ a1 a2 => NBin op 0 (strip_pos a1) (strip_pos a2)
  | NTern _ c x y => NTern 0 (strip_pos c) (strip_pos x) (strip_pos y)
  | NPrint _ arg dirs => NPrint 0 (strip_pos arg) (map strip_pos dirs)
  | NDirective _ name args => NDirective 0 name (map strip_pos args)
  | other => other
  end.

Definition strip_tok (t : tok) : tok := tk (t_typ t) 0 (t_val t).

(* what may follow an expression: an item that no parsing procedure would take as a
   continuation of it (not a binary operator, "?", an access, or "(") *)
Definition closer (t : tok) : bool :=
  let ty := t_typ t in
  negb (is_binary_op ty) && negb (ty =? pk_itemTernIf) &&
  negb ((ty =? pk_itemDotIdent) || (ty =? pk_itemQuestionDotIdent) || (ty =? pk_itemDotIndex) || (ty =? pk_itemQuestionDotIndex) ||
        (ty =? pk_itemLeftBracket) || (ty =? pk_itemQuestionKey) || (ty =? pk_itemLeftParen)).
