(* What C05 demands of the scanner, stated over an arbitrary scanner function: for every byte
   string it returns normally, with work linear in the input, an item list whose last item is EOF or
   an error item. *)
From Soy Require Import Model.Bytes Model.Outcome Model.Token Generated.Tables.

(* the stream ends with EOF or an error item *)
Definition ends_scan (ts : list tok) : Prop :=
  exists pre it, ts = pre ++ [it] /\ (t_typ it = itemEOF \/ t_typ it = itemError).

(* [scan s]: the scanner run on s (with a step budget linear in |s| of its own); [work] is the cost it
   reports: it returns normally and the cost is linear in the input *)
Definition scanner_total_linear (scan : bstr -> outcome (list tok * Z)) (c : nat) : Prop :=
  forall s : bstr, exists ts w, scan s = Ok (ts, w) /\ ends_scan ts /\ (w <= Z.of_nat (c + c * length s)%nat)%Z.
