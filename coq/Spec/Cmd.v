(* C02 -- what the Soy language defines for commands, variable scoping and
   calls: a big-step semantics with LEXICAL environments.

   An environment is an association list name -> value (first match wins).
   Nothing in this file returns an environment:

     * a block executes its commands left to right; [let] extends the
       environment for the REST OF ITS BLOCK only ([block]);
     * a loop variable and its index / last-index helpers are bound in the loop
       body only ([for_spec]);
     * a call builds the callee's environment from exactly
         data="all"  -> [entry], the data the CURRENT template was entered with
                        (passed data plus explicit params),
         data="$e"   -> the entries of that map,
         none        -> nothing,
       then the explicit params (evaluated / rendered in the caller's
       environment) override; the callee body runs under the callee's
       autoescape mode with that environment as its [entry] AND its [env];
       nothing the callee binds is seen by the caller, whose commands after the
       call run in the caller's own environment ([exec_body], case NCall).

   There is no machine state: no scope stack, no [entered] markers, no writer
   swap.  A command denotes (bytes written, outcome); the only thing threaded
   is the identity supply [N] for lists and maps created while rendering (Soy
   == on collections is identity, so two evaluations of [1,2] must differ).

   Expressions ([eval_body]) are specified over the environment through
   [assoc_s] alone.  The operator/function tables on EVALUATED operands
   (arith, compare_op, apply_func, truthy, equals, value_string, list_index,
   map_key, print_writes) are shared definitions of Model/Values.v,
   Model/Interp.v and Model/Print.v (they are the subject of C01/C03/C16/C20);
   what is specified here independently of the walker is the evaluation
   STRUCTURE: operand order, short-circuiting, where undefined is an error,
   null-safe access chains, identity allocation, and the environment.

   Fuel: one unit per node on the path from the entry template's node, exactly
   the nesting bound of the walker ([walk]), so that even [OutOfFuel] outcomes
   can be compared.  Definitions only. *)
From Soy Require Import Model.Bytes Model.Num Model.Values Model.Outcome Model.Ast
  Model.Escape Model.Directives Model.Print Generated.Tables Model.Interp.
Open Scope N_scope.

Definition env := list (bstr * value).
Definition env_lookup (k : bstr) (e : env) : value :=
  match assoc_s k e with Some v => v | None => VUndef end.

(* ------------------------------------------------------------------ *)
(* expressions: identity supply -> outcome (result, identity supply) *)

Definition E (A : Type) := N -> outcome (A * N).
Definition eret {A} (x : A) : E A := fun n => Ok (x, n).
Definition efail {A} (m : bstr) : E A := fun _ => Err m.
Definition elift {A} (o : outcome A) : E A := fun n => x <- o ;; Ok (x, n).
Definition ebind {A B} (e : E A) (k : A -> E B) : E B :=
  fun n => ' p <- e n ;; k (fst p) (snd p).
Notation "x <~ e ;; f" := (ebind e (fun x => f)) (at level 61, e at next level, right associativity).

Definition new_list (l : list value) : E value := fun n =>
  match l with [] => Ok (VList 1 [], n) | _ => Ok (VList n l, n + 1) end.
Definition new_list_or_nil (l : list value) : E value := fun n =>
  match l with [] => Ok (VList 0 [], n) | _ => Ok (VList n l, n + 1) end.
Definition new_map (m : list (bstr * value)) : E value := fun n => Ok (VMap n m, n + 1).

(* ------------------------------------------------------------------ *)
(* commands: identity supply -> (bytes written, outcome (result, identity supply)).
   The bytes are those written BEFORE an error, too. *)

Definition Cm (A : Type) := N -> bstr * outcome (A * N).
Definition sret {A} (x : A) : Cm A := fun n => ([], Ok (x, n)).
Definition sfail {A} (m : bstr) : Cm A := fun _ => ([], Err m).
Definition sE {A} (e : E A) : Cm A := fun n => ([], e n).
Definition slift {A} (o : outcome A) : Cm A := sE (elift o).
Definition semit (w : bstr) : Cm unit := fun n => (w, Ok (tt, n)).
Definition recast {A B} (r : outcome A) : outcome B :=
  match r with
  | Ok _ => Err []          (* never used on Ok *)
  | Err m => Err m | Crash m => Crash m | Diverge => Diverge | OutOfFuel => OutOfFuel | OutOfModel => OutOfModel
  end.
Definition sbind {A B} (s : Cm A) (k : A -> Cm B) : Cm B :=
  fun n => match s n with
           | (o1, Ok (x, n')) => let '(o2, r) := k x n' in (o1 ++ o2, r)
           | (o1, r) => (o1, recast r)
           end.
Notation "x <~~ e ;; f" := (sbind e (fun x => f)) (at level 61, e at next level, right associativity).
(* a block rendered into a string: nothing reaches the output; on an error the partial text is dropped *)
Definition capture (s : Cm unit) : Cm bstr :=
  fun n => match s n with
           | (o, Ok (_, n')) => ([], Ok (o, n'))
           | (_, r) => ([], recast r)
           end.

(* ------------------------------------------------------------------ *)
(* one level of the semantics, given the level below *)

Record level := {
  l_eval : env -> node -> E value;                        (* expression *)
  l_exec : env -> env -> N -> node -> Cm unit;             (* entry, env, autoescape mode, command *)
  l_let : env -> env -> N -> node -> Cm value;             (* the value a let node binds *)
}.

Section Spec.
Variable cf : cfg.

Section Body.
Variable l : level.

(* ---- expressions ---- *)
Section Expr.
Variable en : env.
Definition ev (e : node) : E value := l_eval l en e.
Definition evdef (e : node) : E value :=
  v <~ ev e ;; match v with VUndef => efail e_undefined | _ => eret v end.
Fixpoint ev_list (es : list node) : E (list value) :=
  match es with
  | [] => eret []
  | e :: r => v <~ ev e ;; vs <~ ev_list r ;; eret (v :: vs)
  end.
Fixpoint maplit_spec (its : list (bstr * node)) : E (list (bstr * value)) :=
  match its with
  | [] => eret []
  | (k, e) :: r => v <~ ev e ;; m <~ maplit_spec r ;; eret (map_set m k v)
  end.

(* index / isFirst / isLast of a loop variable: the helpers bound next to it *)
Definition loop_func_spec (name : bstr) (args : list node) : E value :=
  match args with
  | NDataRef _ key _ :: _ =>
      let ix := env_lookup (key ++ s_index) en in
      if fn_is name n_index then eret ix
      else match ix with
           | VInt i =>
               if fn_is name n_isFirst then eret (VBool (i =? 0)%Z)
               else match env_lookup (key ++ s_lastindex) en with
                    | VInt la => eret (VBool (i =? la)%Z)
                    | _ => efail e_type
                    end
           | _ => efail e_type
           end
  | _ => efail e_type
  end.

Definition call_func_spec (name : bstr) (args : list node) : E value :=
  match func_arities name with
  | None => efail e_func
  | Some ar =>
      if negb (mem (N.of_nat (length args)) ar) then efail e_arity
      else
        vs <~ ev_list args ;;
        r <~ elift (apply_func name vs) ;;
        match r with
        | FVal v => eret v
        | FNewList li => new_list_or_nil li
        | FNewMap m => new_map m
        end
  end.

Fixpoint access_spec (acc : list node) (ref : value) : E value :=
  match acc with
  | [] => eret ref
  | a :: rest =>
      ik <~ match a with
            | NAccIndex _ _ i => eret (Some i, @nil N)
            | NAccKey _ _ k => eret (None, k)
            | NAccExpr _ _ e =>
                kv <~ ev e ;;
                match kv with
                | VInt i => eret (Some i, @nil N)
                | _ => s <~ elift (value_string kv) ;; eret (None, s)
                end
            | _ => efail e_unknown
            end ;;
      let '(oi, k) := ik in
      match ref with
      | VUndef | VNull => if is_nullsafe a then eret VNull else efail e_nullref
      | VList _ li =>
          match oi with
          | Some i => access_spec rest (list_index li i)      (* every integer is an index ... *)
          | None => efail e_index
          end
      | VMap _ m =>
          match oi with
          | None => access_spec rest (map_key m k)            (* ... and every string a key *)
          | Some _ => efail e_key
          end
      | _ => efail e_noncollection
      end
  end.

Definition eval_body (n : node) : E value :=
  match n with
  | NNull _ => eret VNull
  | NString _ _ v => eret (VStr v)
  | NInt _ z => eret (VInt z)
  | NFloat _ f => eret (VFloat f)
  | NBool _ x => eret (VBool x)
  | NGlobal _ _ v => eret v
  | NListLit _ items => vs <~ ev_list items ;; new_list vs
  | NMapLit _ items => kvs <~ maplit_spec items ;; new_map kvs
  | NFunc _ name args =>
      if fn_is name n_index || fn_is name n_isFirst || fn_is name n_isLast
      then loop_func_spec name args else call_func_spec name args
  | NDataRef _ key access =>
      ref0 <~ (if bstr_eqb key s_ij
               then match c_ij cf with Some v => eret v | None => efail e_noij end
               else eret (env_lookup key en)) ;;
      access_spec access ref0
  | NNeg _ a =>
      v <~ evdef a ;;
      match v with
      | VInt z => eret (VInt (wrap64 (- z)))
      | VFloat f => eret (VFloat (fl_neg f))
      | _ => efail e_notnumber
      end
  | NNot _ a => v <~ ev a ;; eret (VBool (negb (truthy v)))
  | NBin op _ a1 a2 =>
      match op with
      | OAdd | OSub | OMul | ODiv | OMod =>
          x <~ evdef a1 ;; y <~ evdef a2 ;; elift (arith op x y)
      | OEq => x <~ ev a1 ;; y <~ ev a2 ;; eret (VBool (equals x y))
      | ONotEq => x <~ ev a1 ;; y <~ ev a2 ;; eret (VBool (negb (equals x y)))
      | OLt | OLte | OGt | OGte =>
          x <~ evdef a1 ;; y <~ evdef a2 ;; elift (compare_op op x y)
      | OAnd => x <~ ev a1 ;; if truthy x then (y <~ ev a2 ;; eret (VBool (truthy y))) else eret (VBool false)
      | OOr => x <~ ev a1 ;; if truthy x then eret (VBool true) else (y <~ ev a2 ;; eret (VBool (truthy y)))
      | OElvis => x <~ ev a1 ;; if is_nullish x then ev a2 else eret x
      end
  | NTern _ a1 a2 a3 => c <~ ev a1 ;; if truthy c then ev a2 else ev a3
  | _ => efail e_unknown
  end.

(* print directives, one at a time: name and arity are checked before the arguments are evaluated, and the
   directive is applied to the result so far [v] before the next one is looked at (as [Interp.print_dirs]: the
   application is checked through [print_writes] with autoescape off) *)
Fixpoint dirs_spec (ds : list node) (v : value) : E (list (bstr * list darg)) :=
  match ds with
  | [] => eret (map (fun nm => (nm, @nil darg)) (c_oblig cf))
  | NDirective _ name args :: r =>
      match lookup_directive name with
      | None => efail e_nodirective
      | Some (arglens, _) =>
          if negb (check_num_args arglens (length args)) then efail Interp.e_arity
          else vs <~ ev_list args ;;
               s <~ elift (value_string v) ;;
               ws <~ elift (print_writes 2 [(name, map darg_of vs)] s) ;;
               rest <~ dirs_spec r (VStr (concat_b ws)) ;;
               eret ((name, map darg_of vs) :: rest)
      end
  | _ :: _ => efail e_unknown
  end.

Fixpoint case_hit_spec (sv : value) (vs : list node) : E bool :=
  match vs with
  | [] => eret false
  | x :: xs => cv <~ ev x ;; if equals sv cv then eret true else case_hit_spec sv xs
  end.
End Expr.

(* ---- commands ---- *)
Section Cmd.
Variable entry : env.      (* the data the running template was entered with *)
Variable mode : N.         (* autoescape mode of the running template *)

Definition ex (en : env) (c : node) : Cm unit := l_exec l entry en mode c.

(* a block: [let] extends the environment for the rest of THIS block only *)
Fixpoint block (en : env) (cs : list node) : Cm unit :=
  match cs with
  | [] => sret tt
  | (NLetValue _ x _ as c) :: rest
  | (NLetContent _ x _ as c) :: rest =>
      v <~~ l_let l entry en mode c ;; block ((x, v) :: en) rest
  | c :: rest => _ <~~ ex en c ;; block en rest
  end.

Fixpoint if_spec (en : env) (cs : list node) : Cm unit :=
  match cs with
  | [] => sret tt
  | NIfCond _ None body :: _ => ex en body
  | NIfCond _ (Some c) body :: r =>
      v <~~ sE (ev en c) ;; if truthy v then ex en body else if_spec en r
  | _ :: _ => sfail e_unknown
  end.

(* the loop variable and its helpers are bound in the body only, afresh for every item *)
Fixpoint for_spec (en : env) (var : bstr) (body : node) (last i : Z) (items : list value) : Cm unit :=
  match items with
  | [] => sret tt
  | x :: r =>
      _ <~~ ex ((var ++ s_index, VInt i) :: (var, x) :: (var ++ s_lastindex, VInt last) :: en) body ;;
      for_spec en var body last (i + 1)%Z r
  end.

Fixpoint switch_spec (en : env) (sv : value) (cs : list node) : Cm unit :=
  match cs with
  | [] => sret tt
  | NSwitchCase _ values body :: r =>
      hit <~~ sE (case_hit_spec en sv values) ;;
      if hit || match values with [] => true | _ => false end
      then ex en body else switch_spec en sv r
  | _ :: _ => sfail e_unknown
  end.

(* explicit params, evaluated (rendered) in the CALLER's environment; later ones override *)
Fixpoint params_spec (en : env) (ps : list node) (acc : env) : Cm env :=
  match ps with
  | [] => sret acc
  | NParamValue _ k v :: r => x <~~ sE (ev en v) ;; params_spec en r ((k, x) :: acc)
  | NParamContent _ k c :: r => s <~~ capture (ex en c) ;; params_spec en r ((k, VStr s) :: acc)
  | _ :: _ => sfail e_unknown
  end.

Definition base_spec (en : env) (alldata : bool) (dat : option node) : Cm env :=
  if alldata then sret entry
  else match dat with
       | Some e =>
           dv <~~ sE (ev en e) ;;
           match dv with VMap _ m => sret m | _ => sfail e_notmap end
       | None => sret []
       end.

(* messages without a bundle: the source text; plural by explicit case, else default *)
Fixpoint plural_spec (en : env) (mp : N) (i : Z) (dflt : list node) (cs : list node) : Cm unit :=
  match cs with
  | [] => ex en (NMsg mp 0 [] [] dflt)
  | NMsgPluralCase _ cv cbody :: r2 =>
      if (i =? cv)%Z then ex en (NMsg mp 0 [] [] cbody) else plural_spec en mp i dflt r2
  | _ :: _ => sfail e_unknown
  end.
Fixpoint msg_spec (en : env) (mp : N) (ns : list node) : Cm unit :=
  match ns with
  | [] => sret tt
  | NRawText p t :: r => _ <~~ ex en (NRawText p t) ;; msg_spec en mp r
  | NMsgPlaceholder _ _ ph :: r => _ <~~ ex en ph ;; msg_spec en mp r
  | NMsgPlural _ _ pv cases dflt :: r =>
      v <~~ sE (ev en pv) ;;
      match v with
      | VInt i => _ <~~ plural_spec en mp i dflt cases ;; msg_spec en mp r
      | _ => sfail e_plural
      end
  | _ :: r => msg_spec en mp r
  end.

Definition exec_body (en : env) (n : node) : Cm unit :=
  match n with
  | NList _ nodes => block en nodes
  | NRawText _ text => semit text
  | NMsgHtmlTag _ text => semit text
  | NPrint _ arg dirs =>
      v <~~ sE (ev en arg) ;;
      match v with
      | VUndef => sfail e_undefined
      | _ =>
          ds <~~ sE (dirs_spec en dirs v) ;;
          s <~~ slift (value_string v) ;;
          ws <~~ slift (print_writes mode ds s) ;;
          semit (concat_b ws)
      end
  | NCss _ e suffix =>
      pre <~~ match e with
              | None => sret []
              | Some x => v <~~ sE (ev en x) ;; s <~~ slift (value_string v) ;; sret (s ++ s_dash)
              end ;;
      semit (pre ++ suffix)
  | NDebugger _ => sret tt
  | NHeaderParam _ _ _ _ _ => sret tt
  | NLog _ body => _ <~~ capture (ex en body) ;; sret tt
  | NIf _ conds => if_spec en conds
  | NFor _ var lst body ifempty =>
      lv <~~ sE (ev en lst) ;;
      match lv with
      | VList _ [] =>
          match ifempty with
          | Some ie => ex en ie
          | None => sret tt
          end
      | VList _ items => for_spec en var body (Z.of_nat (length items) - 1) 0%Z items
      | _ => sfail e_notlist
      end
  | NSwitch _ v cases => sv <~~ sE (ev en v) ;; switch_spec en sv cases
  | NCall _ name alldata dat params =>
      match find_template (r_templates (c_reg cf)) name with
      | None => sfail e_notemplate
      | Some callee =>
          base <~~ base_spec en alldata dat ;;
          ps <~~ params_spec en params [] ;;
          let ce := ps ++ base in
          l_exec l ce ce (call_mode (t_ns_autoescape callee)) (t_node callee)
      end
  | NTemplate _ _ body ae _ => l_exec l entry en (template_mode mode ae) body
  | NMsg mp _ _ _ body => msg_spec en mp body
  | _ => sfail e_unknown
  end.

Definition let_body (en : env) (n : node) : Cm value :=
  match n with
  | NLetValue _ _ e => sE (ev en e)
  | NLetContent _ _ body => s <~~ capture (ex en body) ;; sret (VStr s)
  | _ => sfail e_unknown
  end.
End Cmd.
End Body.

Definition level0 : level :=
  {| l_eval := fun _ _ _ => OutOfFuel;
     l_exec := fun _ _ _ _ _ => ([], OutOfFuel);
     l_let := fun _ _ _ _ _ => ([], OutOfFuel) |}.
Definition next_level (l : level) : level :=
  {| l_eval := eval_body l;
     l_exec := fun entry en mode n => exec_body l entry mode en n;
     l_let := fun entry en mode n => let_body l entry mode en n |}.
Fixpoint spec_level (fuel : nat) : level :=
  match fuel with O => level0 | S f => next_level (spec_level f) end.

Definition eval_spec (fuel : nat) : env -> node -> E value := l_eval (spec_level fuel).
Definition exec_spec (fuel : nat) : env -> env -> N -> node -> Cm unit := l_exec (spec_level fuel).

(* ------------------------------------------------------------------ *)
(* rendering an entry template: [entry] = [env] = the data map *)

Record spec_result := { sr_out : bstr; sr_outcome : outcome unit }.

Definition render_spec (fuel : nat) (name : bstr) (data : env) (first_id : N) : spec_result :=
  match find_template (r_templates (c_reg cf)) name with
  | None => {| sr_out := []; sr_outcome := Err e_notemplate |}
  | Some t =>
      let '(o, r) := exec_spec fuel data data (entry_mode (t_ns_autoescape t)) (t_node t) first_id in
      {| sr_out := o; sr_outcome := match r with Ok _ => Ok tt | _ => recast r end |}
  end.
End Spec.

(* ------------------------------------------------------------------ *)
(* shape of the trees the parser produces: expression positions hold
   expressions, command positions hold commands other than let, and a let
   occurs only as an item of a block.  (The theorems assume it; the harness
   evaluates it on every dumped registry.) *)

Inductive shape := KExpr | KCmd | KItem | KIfCond | KCase | KParam | KMsgItem | KPluralCase | KAccess | KDirective | KTemplate.

Definition item_kind (n : node) : shape :=
  match n with NLetValue _ _ _ | NLetContent _ _ _ => KItem | _ => KCmd end.

Fixpoint wf (k : shape) (n : node) {struct n} : bool :=
  match (match k with KItem => item_kind n | _ => k end), n with
  | KExpr, (NNull _ | NBool _ _ | NInt _ _ | NFloat _ _ | NString _ _ _ | NGlobal _ _ _) => true
  | KExpr, NFunc _ _ args => forallb (wf KExpr) args
  | KExpr, NListLit _ items => forallb (wf KExpr) items
  | KExpr, NMapLit _ items => forallb (fun kv => wf KExpr (snd kv)) items
  | KExpr, NDataRef _ _ access => forallb (wf KAccess) access
  | KExpr, (NNot _ a | NNeg _ a) => wf KExpr a
  | KExpr, NBin _ _ a1 a2 => wf KExpr a1 && wf KExpr a2
  | KExpr, NTern _ a1 a2 a3 => wf KExpr a1 && wf KExpr a2 && wf KExpr a3
  | KAccess, NAccExpr _ _ e => wf KExpr e
  | KAccess, _ => true
  | KDirective, NDirective _ _ args => forallb (wf KExpr) args
  | KDirective, _ => true
  | KCmd, NList _ nodes => forallb (wf KItem) nodes
  | KCmd, (NRawText _ _ | NMsgHtmlTag _ _ | NDebugger _ | NHeaderParam _ _ _ _ _) => true
  | KCmd, NPrint _ arg dirs => wf KExpr arg && forallb (wf KDirective) dirs
  | KCmd, NCss _ e _ => match e with Some x => wf KExpr x | None => true end
  | KCmd, NLog _ body => wf KCmd body
  | KCmd, NIf _ conds => forallb (wf KIfCond) conds
  | KCmd, NFor _ _ lst body ifempty =>
      wf KExpr lst && wf KCmd body && match ifempty with Some ie => wf KCmd ie | None => true end
  | KCmd, NSwitch _ v cases => wf KExpr v && forallb (wf KCase) cases
  | KCmd, NCall _ _ _ dat params =>
      match dat with Some e => wf KExpr e | None => true end && forallb (wf KParam) params
  | KCmd, NMsg _ _ _ _ body => forallb (wf KMsgItem) body
  | KItem, NLetValue _ _ e => wf KExpr e
  | KItem, NLetContent _ _ body => wf KCmd body
  | KIfCond, NIfCond _ c body => match c with Some x => wf KExpr x | None => true end && wf KCmd body
  | KIfCond, _ => true
  | KCase, NSwitchCase _ values body => forallb (wf KExpr) values && wf KCmd body
  | KCase, _ => true
  | KParam, NParamValue _ _ v => wf KExpr v
  | KParam, NParamContent _ _ c => wf KCmd c
  | KParam, _ => true
  | KMsgItem, NMsgPlaceholder _ _ ph => wf KCmd ph
  | KMsgItem, NMsgPlural _ _ pv cases dflt =>
      wf KExpr pv && forallb (wf KPluralCase) cases && forallb (wf KMsgItem) dflt
  | KMsgItem, _ => true
  | KPluralCase, NMsgPluralCase _ _ body => forallb (wf KMsgItem) body
  | KPluralCase, _ => true
  | KTemplate, NTemplate _ _ body _ _ => wf KCmd body
  | _, _ => false
  end.

Definition wf_registry (r : registry) : bool := forallb (fun t => wf KTemplate (t_node t)) (r_templates r).
