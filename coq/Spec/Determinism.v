(* What C13 demands, stated over the units of the compile model
   (Model/Compile.v): which key orders are admissible, when two compile results
   are "the same", and which errors are "the independent errors" of a bundle. *)
From Coq Require Import Permutation.
From Soy Require Import Model.Bytes Model.Values Model.Outcome Model.Ast Model.MsgId Model.Compile.
Open Scope N_scope.

(* Go promises nothing about the order of a map range except that every key is
   visited once *)
Definition perm_order (order : korder) : Prop := forall l, Permutation (order l) l.
Definition perm_orders (o : orders) : Prop :=
  perm_order (o_globals o) /\ perm_order (o_children o) /\ perm_order (o_ph o) /\
  perm_order (o_imports o).

(* ---- the same compile result, whatever the insertion order of the files ---- *)
Record same_result (c c' : compiled) : Prop := {
  (* Registry.Template answers alike for every name (so every render starts from the same template) *)
  sr_lookup : forall name, find_template (r_templates (cp_reg c)) name = find_template (r_templates (cp_reg c')) name;
  (* ... and so do Registry.Filename and the source used for line numbers *)
  sr_files : forall name, assoc_s name (r_files (cp_reg c)) = assoc_s name (r_files (cp_reg c'));
  sr_sources : forall name, assoc_s name (r_sources (cp_reg c)) = assoc_s name (r_sources (cp_reg c'));
  (* the same processed files: what soyjs.Write is given, file by file *)
  sr_soyfiles : Permutation (cp_soyfiles c) (cp_soyfiles c');
  sr_globals : cp_globals c = cp_globals c';
  (* the same message ids and placeholder names in every template *)
  sr_msgs : forall name, assoc_s name (cp_msgs c) = assoc_s name (cp_msgs c');
}.

(* ---- the independent errors of a bundle ---- *)

(* the templates a file defines: those whose own processing succeeds *)
Definition unit_names (us : list (add_err + tmpl_unit)) : list bstr :=
  flat_map (fun u => match u with inr u => [t_name (tu_template u)] | inl _ => [] end) us.
Definition file_defines (f : sfile) : list bstr :=
  match find_namespace (sfile_body f) with
  | inr (ns, ae) => unit_names (file_units (sfile_name f) ns ae None (sfile_body f))
  | inl _ => []
  end.
(* every definition of a template name in the bundle, with its file *)
Definition definitions (srcs : list src) : list (sfile * bstr) :=
  flat_map (fun s => match s with SrcOk f => map (pair f) (file_defines f) | SrcParseErr _ _ => [] end) srcs.

Section Errors.
  Variable ko : korder.               (* MapLiteralNode.Children *)
  Variable bg : bundle_globals.       (* the bundle's globals after every AddGlobalsMap *)
  Variable srcs : list src.

  Inductive bundle_error : cerr -> Prop :=
  (* a globals map redefines a name *)
  | BE_globals name v : bg_err bg = Some (name, v) -> bundle_error (EGlobalsRedefined name v)
  (* a file does not parse *)
  | BE_parse name msg : In (SrcParseErr name msg) srcs -> bundle_error (EParse name msg)
  (* a file has no namespace where one is due *)
  | BE_namespace f e : In (SrcOk f) srcs -> find_namespace (sfile_body f) = inl e -> bundle_error (EAdd (sfile_name f) e)
  (* a template of a file is rejected on its own (soydoc and header params) *)
  | BE_unit f ns ae e : In (SrcOk f) srcs -> find_namespace (sfile_body f) = inr (ns, ae) ->
      In (inl e) (file_units (sfile_name f) ns ae None (sfile_body f)) -> bundle_error (EAdd (sfile_name f) e)
  (* a template name has two definitions (in two files, or twice in one) *)
  | BE_duplicate f1 f2 t rest : Permutation (definitions srcs) ((f1, t) :: (f2, t) :: rest) ->
      bundle_error (EAdd (sfile_name f2) (AEDuplicate t (sfile_name f1) (sfile_name f2)))
  (* every file is added, and a template breaks the data-reference rules *)
  | BE_check r t e : add_all_files empty_creg srcs = COk r -> In t (r_templates (cr_reg r)) ->
      check_template ko (find_template (r_templates (cr_reg r))) t = Some e -> bundle_error (ECheck (t_name t) e)
  (* ... or uses a global that is not defined *)
  | BE_global r t e : add_all_files empty_creg srcs = COk r -> In t (r_templates (cr_reg r)) ->
      set_globals_template ko (bg_map bg) t = Some e -> bundle_error (EGlobalErr (t_name t) e).
End Errors.

(* ---- compiling again from trees that Registry.Add has already rewritten ---- *)

(* the {@param} nodes at the head of a template body *)
Definition leading_headers (t : node) : list node :=
  match t with NTemplate _ _ (NList _ nodes) _ _ => fst (span_headers nodes) | _ => [] end.
Definition is_soydoc (n : node) : bool := match n with NSoyDoc _ _ => true | _ => false end.
(* every template with header params has a SoyDoc node directly in front of it
   (the node into which Add moves the params) *)
Fixpoint headers_documented (prev : option node) (body : list node) : bool :=
  match body with
  | [] => true
  | n :: r =>
      (match leading_headers n with
       | [] => true
       | _ :: _ => match prev with Some pv => is_soydoc pv | None => false end
       end) && headers_documented (Some n) r
  end.
Definition src_documented (s : src) : bool :=
  match s with SrcOk f => headers_documented None (sfile_body f) | SrcParseErr _ _ => true end.
(* the second compilation sees the source as it was, or as a successful Add left it *)
Definition readd_variant (s s' : src) : Prop := s' = s \/ s' = rewritten_src s.

(* the trees in which a file can be after Add returned an error on it *)
Inductive interrupted_variant (f : sfile) : sfile -> Prop :=
(* the nodes up to and including a node that is not a SoyDoc (the template whose
   name turned out to be defined already) are rewritten, the others untouched *)
| IV_rewritten_prefix j ns ae :
    find_namespace (firstn (S j) (sfile_body f)) = inr (ns, ae) ->
    (S j <= length (sfile_body f))%nat ->
    (forall m, nth_error (sfile_body f) j = Some m -> is_soydoc m = false) ->
    interrupted_variant f (interrupted_file (S j) (fun l => l) f)
(* the nodes in front of the SoyDoc of the template rejected for having both
   kinds of params are rewritten; that SoyDoc has the header params appended
   (once per failed Add: [extra] is any list); the rest is untouched *)
| IV_params_appended k extra p ps t rest name ns ae :
    find_namespace (firstn k (sfile_body f)) = inr (ns, ae) ->
    skipn k (sfile_body f) = NSoyDoc p ps :: t :: rest ->
    template_local (sfile_name f) ns ae (Some (NSoyDoc p ps)) t = inl (AEBothParamKinds name) ->
    interrupted_variant f (interrupted_file k (params_appended extra) f).
