(* C02 -- what the language defines for the commands that only produce text:
   the special-character commands and {literal}.  Definitions only. *)
From Soy Require Import Model.Bytes.
Open Scope N_scope.

(* command name (between the braces) -> the characters it stands for *)
Definition special_char_commands : list (bstr * bstr) :=
  [ ([115; 112] (* sp *), [32]);  ([110; 105; 108] (* nil *), []);
    ([92; 110] (* \n *), [10]);   ([92; 114] (* \r *), [13]);   ([92; 116] (* \t *), [9]);
    ([108; 98] (* lb *), [123]);  ([114; 98] (* rb *), [125]) ].

(* {literal}body{/literal} stands for exactly [body]: no line joining, no commands, no comments *)
Definition literal_text (body : bstr) : bstr := body.
