(* C17: the keyword clause of lexical well-formedness (Proofs/LexPrintMain.v lex_ok: "identifiers are not
   keywords") as a decidable predicate on trees.  The identifiers the printer writes bare -- function names, the
   first segment of a global's dotted name, directive names -- must not be entries of the scanner's keyword table
   (parse/lexer.go builtinIdents, regenerated into Generated/Tables.v): printed bare, a keyword is read back as its
   own item type, not as an identifier.  Evaluated by the C17 harness on every tree the real parser returns. *)
From Soy Require Import Model.Bytes Model.Ast Generated.Tables Spec.ExprSyntax.
Open Scope N_scope.

Definition c17_not_keyword (w : bstr) : bool := match assoc_s w builtin_idents with None => true | Some _ => false end.
Definition c17_global_head (name : bstr) : bstr := match split_dots [] name with first :: _ => first | [] => [] end.

(* the identifiers of a tree that are printed bare *)
Fixpoint c17_idents (e : node) : list bstr :=
  match e with
  | NGlobal _ name _ => [c17_global_head name]
  | NFunc _ name args => name :: concat (map c17_idents args)
  | NListLit _ items => concat (map c17_idents items)
  | NMapLit _ items => concat (map (fun kv => c17_idents (snd kv)) items)
  | NDataRef _ _ acc => concat (map c17_idents acc)
  | NAccExpr _ _ x => c17_idents x
  | NNot _ a | NNeg _ a => c17_idents a
  | NBin _ _ a1 a2 => c17_idents a1 ++ c17_idents a2
  | NTern _ c x y => c17_idents c ++ c17_idents x ++ c17_idents y
  | NPrint _ a ds => c17_idents a ++ concat (map c17_idents ds)
  | NDirective _ name args => name :: concat (map c17_idents args)
  | _ => []
  end.

Definition c17_kw_clause (e : node) : bool := forallb c17_not_keyword (c17_idents e).
