(* C19 — what "the error points at the offending file and line" means.

   Render half.  [children n] are the immediate sub-nodes of a syntax node,
   [subnode m n]: m occurs syntactically in n, [poss n]: the positions of all
   nodes that occur in n.  A render error must carry the file recorded for the
   ENTRY template and a line computed from the position of a node of the entry
   template (so that the line lies inside that file); the node is the one of
   the entry template that was being executed: [failing_path].

   Parse half.  [line_at s pos] = 1 + number of LF in s[:pos]; [lines s].
   Definitions only. *)
From Soy Require Import Model.Bytes Model.Num Model.Values Model.Outcome Model.Ast Model.Interp.
Open Scope N_scope.

Definition opt_list {A} (o : option A) : list A := match o with Some x => [x] | None => [] end.

(* immediate sub-nodes, in source order *)
Definition children (n : node) : list node :=
  match n with
  | NFunc _ _ args => args
  | NListLit _ items => items
  | NMapLit _ items => map snd items
  | NDataRef _ _ access => access
  | NAccExpr _ _ arg => [arg]
  | NNot _ a | NNeg _ a => [a]
  | NBin _ _ a1 a2 => [a1; a2]
  | NTern _ a1 a2 a3 => [a1; a2; a3]
  | NList _ nodes => nodes
  | NPrint _ arg dirs => arg :: dirs
  | NDirective _ _ args => args
  | NCss _ e _ => opt_list e
  | NLog _ body => [body]
  | NIf _ conds => conds
  | NIfCond _ c body => opt_list c ++ [body]
  | NFor _ _ lst body ie => lst :: body :: opt_list ie
  | NSwitch _ v cases => v :: cases
  | NSwitchCase _ values body => values ++ [body]
  | NCall _ _ _ dat params => opt_list dat ++ params
  | NParamValue _ _ v => [v]
  | NParamContent _ _ c => [c]
  | NLetValue _ _ e => [e]
  | NLetContent _ _ body => [body]
  | NMsg _ _ _ _ body => body
  | NMsgPlaceholder _ _ body => [body]
  | NMsgPlural _ _ v cases dflt => v :: cases ++ dflt
  | NMsgPluralCase _ _ body => body
  | NTemplate _ _ body _ _ => [body]
  | NSoyDoc _ params => params
  | NHeaderParam _ _ _ _ d => opt_list d
  | _ => []
  end.

(* the positions of all nodes occurring in n (n first) *)
Fixpoint poss (n : node) : list N :=
  pos_of n ::
  match n with
  | NFunc _ _ args => flat_map poss args
  | NListLit _ items => flat_map poss items
  | NMapLit _ items => flat_map (fun kv => let '(_, e) := kv in poss e) items
  | NDataRef _ _ access => flat_map poss access
  | NAccExpr _ _ arg => poss arg
  | NNot _ a | NNeg _ a => poss a
  | NBin _ _ a1 a2 => poss a1 ++ poss a2
  | NTern _ a1 a2 a3 => poss a1 ++ poss a2 ++ poss a3
  | NList _ nodes => flat_map poss nodes
  | NPrint _ arg dirs => poss arg ++ flat_map poss dirs
  | NDirective _ _ args => flat_map poss args
  | NCss _ e _ => match e with Some x => poss x | None => [] end
  | NLog _ body => poss body
  | NIf _ conds => flat_map poss conds
  | NIfCond _ c body => (match c with Some x => poss x | None => [] end) ++ poss body
  | NFor _ _ lst body ie => poss lst ++ poss body ++ match ie with Some x => poss x | None => [] end
  | NSwitch _ v cases => poss v ++ flat_map poss cases
  | NSwitchCase _ values body => flat_map poss values ++ poss body
  | NCall _ _ _ dat params => (match dat with Some x => poss x | None => [] end) ++ flat_map poss params
  | NParamValue _ _ v => poss v
  | NParamContent _ _ c => poss c
  | NLetValue _ _ e => poss e
  | NLetContent _ _ body => poss body
  | NMsg _ _ _ _ body => flat_map poss body
  | NMsgPlaceholder _ _ body => poss body
  | NMsgPlural _ _ v cases dflt => poss v ++ flat_map poss cases ++ flat_map poss dflt
  | NMsgPluralCase _ _ body => flat_map poss body
  | NTemplate _ _ body _ _ => poss body
  | NSoyDoc _ params => flat_map poss params
  | NHeaderParam _ _ _ _ d => match d with Some x => poss x | None => [] end
  | _ => []
  end.

(* m occurs in n *)
Inductive subnode : node -> node -> Prop :=
| sub_refl n : subnode n n
| sub_child m c n : subnode m c -> In c (children n) -> subnode m n.

(* Registry.LineNumber / lexer.lineNumber on a position that lies inside the source *)
Definition line_at (src : bstr) (pos : N) : N := 1 + count_nl (take (N.to_nat pos) src).
Definition lines (src : bstr) : N := 1 + count_nl src.

(* every node of the template lies inside the source text recorded for it (decidable; the
   harness checks it on every compiled bundle: node positions are scanner offsets into that text) *)
Definition positions_in_source (src : bstr) (n : node) : Prop :=
  Forall (fun p => p <= N.of_nat (length src)) (poss n).
Definition positions_in_sourceb (src : bstr) (n : node) : bool :=
  forallb (fun p => p <=? N.of_nat (length src)) (poss n).

(* ------------------------------------------------------------------ *)
(* The chain of entry-template nodes whose walk has begun and not finished when
   the error [e] is raised and the machine stops in state [fin]:
   [walk_fails cf fuel n e fin] -- walking n at call depth 0 (in the entry template)
   with this much fuel ends in that error and that state;
   [failing_path cf fuel n e fin path] -- path = n :: ... :: innermost, each one a node walked by
   the walk of the one before it (an immediate sub-node, or for a plural case the
   message node synthesised for the chosen case), all of them failing with the same
   error in the same final state, and the last one failing in its own code: no node
   walked by it (in the entry template) fails that way. *)
Definition walk_fails (cf : cfg) (fuel : nat) (n : node) (e : bstr) (fin : mstate) : Prop :=
  exists st, depth_ st = 0%nat /\ walk cf fuel n st = (Err e, fin).

(* the nodes [walk] may be invoked on while walking n in the entry template *)
Definition walked_from (n c : node) : Prop :=
  In c (children n)
  \/ (exists gc, In gc (children n) /\ In c (children gc) /\
                 match gc with NIfCond _ _ _ | NSwitchCase _ _ _ | NParamValue _ _ _ | NParamContent _ _ _
                             | NMsgPlaceholder _ _ _ | NDirective _ _ _ | NAccExpr _ _ _ | NMsgPlural _ _ _ _ _ => True
                             | _ => False end)
  \/ (exists mp body, c = NMsg mp 0 [] [] body /\ pos_of n = mp /\ forall p, In p (flat_map poss body) -> In p (poss n)).

Inductive failing_path (cf : cfg) (e : bstr) (fin : mstate) : nat -> node -> list node -> Prop :=
| fp_here fuel n :
    walk_fails cf fuel n e fin ->
    (forall fuel' c, walked_from n c -> ~ walk_fails cf fuel' c e fin) ->
    failing_path cf e fin fuel n [n]
| fp_down fuel fuel' n c path :
    walk_fails cf fuel n e fin -> walked_from n c -> (fuel' < fuel)%nat ->
    failing_path cf e fin fuel' c path ->
    failing_path cf e fin fuel n (n :: path).
