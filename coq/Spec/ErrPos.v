(* C19 — what "the error points at the offending file and line" means.

   Render half.  [children n] are the immediate sub-nodes of a syntax node,
   [subnode m n]: m occurs syntactically in n, [poss n]: the positions of all
   nodes that occur in n.  A render error must carry the file recorded for the
   ENTRY template and a line computed from the position of a node of the entry
   template (so that the line lies inside that file); the node is the one of
   the entry template that was being executed: [failing_path].

   Parse half.  [line_at s pos] = 1 + number of LF in s[:pos]; [lines s].
   Definitions only. *)
From Soy Require Import Model.Bytes Model.Num Model.Values Model.Outcome Model.Ast Model.Interp.
Open Scope N_scope.

Definition opt_list {A} (o : option A) : list A := match o with Some x => [x] | None => [] end.

(* immediate sub-nodes, in source order *)
Definition children (n : node) : list node :=
  match n with
  | NFunc _ _ args => args
  | NListLit _ items => items
  | NMapLit _ items => map snd items
  | NDataRef _ _ access => access
  | NAccExpr _ _ arg => [arg]
  | NNot _ a | NNeg _ a => [a]
  | NBin _ _ a1 a2 => [a1; a2]
  | NTern _ a1 a2 a3 => [a1; a2; a3]
  | NList _ nodes => nodes
  | NPrint _ arg dirs => arg :: dirs
  | NDirective _ _ args => args
  | NCss _ e _ => opt_list e
  | NLog _ body => [body]
  | NIf _ conds => conds
  | NIfCond _ c body => opt_list c ++ [body]
  | NFor _ _ lst body ie => lst :: body :: opt_list ie
  | NSwitch _ v cases => v :: cases
  | NSwitchCase _ values body => values ++ [body]
  | NCall _ _ _ dat params => opt_list dat ++ params
  | NParamValue _ _ v => [v]
  | NParamContent _ _ c => [c]
  | NLetValue _ _ e => [e]
  | NLetContent _ _ body => [body]
  | NMsg _ _ _ _ body => body
  | NMsgPlaceholder _ _ body => [body]
  | NMsgPlural _ _ v cases dflt => v :: cases ++ dflt
  | NMsgPluralCase _ _ body => body
  | NTemplate _ _ body _ _ => [body]
  | NSoyDoc _ params => params
  | NHeaderParam _ _ _ _ d => opt_list d
  | _ => []
  end.

(* the positions of all nodes occurring in n (n first) *)
Fixpoint poss (n : node) : list N :=
  pos_of n ::
  match n with
  | NFunc _ _ args => flat_map poss args
  | NListLit _ items => flat_map poss items
  | NMapLit _ items => flat_map (fun kv => let '(_, e) := kv in poss e) items
  | NDataRef _ _ access => flat_map poss access
  | NAccExpr _ _ arg => poss arg
  | NNot _ a | NNeg _ a => poss a
  | NBin _ _ a1 a2 => poss a1 ++ poss a2
  | NTern _ a1 a2 a3 => poss a1 ++ poss a2 ++ poss a3
  | NList _ nodes => flat_map poss nodes
  | NPrint _ arg dirs => poss arg ++ flat_map poss dirs
  | NDirective _ _ args => flat_map poss args
  | NCss _ e _ => match e with Some x => poss x | None => [] end
  | NLog _ body => poss body
  | NIf _ conds => flat_map poss conds
  | NIfCond _ c body => (match c with Some x => poss x | None => [] end) ++ poss body
  | NFor _ _ lst body ie => poss lst ++ poss body ++ match ie with Some x => poss x | None => [] end
  | NSwitch _ v cases => poss v ++ flat_map poss cases
  | NSwitchCase _ values body => flat_map poss values ++ poss body
  | NCall _ _ _ dat params => (match dat with Some x => poss x | None => [] end) ++ flat_map poss params
  | NParamValue _ _ v => poss v
  | NParamContent _ _ c => poss c
  | NLetValue _ _ e => poss e
  | NLetContent _ _ body => poss body
  | NMsg _ _ _ _ body => flat_map poss body
  | NMsgPlaceholder _ _ body => poss body
  | NMsgPlural _ _ v cases dflt => poss v ++ flat_map poss cases ++ flat_map poss dflt
  | NMsgPluralCase _ _ body => flat_map poss body
  | NTemplate _ _ body _ _ => poss body
  | NSoyDoc _ params => flat_map poss params
  | NHeaderParam _ _ _ _ d => match d with Some x => poss x | None => [] end
  | _ => []
  end.

(* m occurs in n *)
Inductive subnode : node -> node -> Prop :=
| sub_refl n : subnode n n
| sub_child m c n : subnode m c -> In c (children n) -> subnode m n.

(* Registry.LineNumber / lexer.lineNumber on a position that lies inside the source *)
Definition line_at (src : bstr) (pos : N) : N := 1 + count_nl (take (N.to_nat pos) src).
Definition lines (src : bstr) : N := 1 + count_nl src.

(* every node of the template lies inside the source text recorded for it (decidable; the
   harness checks it on every compiled bundle: node positions are scanner offsets into that text) *)
Definition positions_in_source (src : bstr) (n : node) : Prop :=
  Forall (fun p => p <= N.of_nat (length src)) (poss n).
Definition positions_in_sourceb (src : bstr) (n : node) : bool :=
  forallb (fun p => p <=? N.of_nat (length src)) (poss n).

(* ------------------------------------------------------------------ *)
(* Which node of the entry template was executing when the error was raised.

   [mask w]: the walker w with every failure of a walk in the entry template (call depth 0)
   turned into an outcome that is not an error.  Running ONE unfolding of the walker on n with
   the masked walker for its sub-walks ([walk_body cf (mask w) n]) therefore ends in [Err e]
   exactly when the error is raised by n's own code -- or inside a template n calls (sub-walks
   at depth > 0 are not masked) -- and not inside a sub-walk of n in the entry template:
   [fails_in_own_code].

   [failing_path cf e fin fuel n path]: path = n :: ... :: innermost is the chain of entry-template
   nodes whose walk has begun and not finished when the error e is raised and the machine stops in
   state fin: each of them fails with that error in that state ([walk_fails]), each lies within
   the one before it ([within]: a sub-node, or the message node synthesised for a plural case),
   and the innermost fails in its own code. *)
Definition mask (w : node -> M value) : node -> M value :=
  fun c st =>
    if Nat.eqb (depth_ st) 0
    then match w c st with
         | (Ok v, s) => (Ok v, s)
         | (_, s) => (Diverge, s)
         end
    else w c st.

Definition walk_fails (cf : cfg) (fuel : nat) (n : node) (e : bstr) (fin : mstate) : Prop :=
  exists st, depth_ st = 0%nat /\ walk cf fuel n st = (Err e, fin).

Definition fails_in_own_code (cf : cfg) (fuel : nat) (n : node) (e : bstr) (fin : mstate) : Prop :=
  exists st, depth_ st = 0%nat /\ walk_body cf (mask (walk cf fuel)) n st = (Err e, fin).

Definition within (c n : node) : Prop := forall p, In p (poss c) -> In p (poss n).

Inductive failing_path (cf : cfg) (e : bstr) (fin : mstate) : nat -> node -> list node -> Prop :=
| fp_here fuel n :
    fails_in_own_code cf fuel n e fin ->
    failing_path cf e fin (S fuel) n [n]
| fp_down fuel n c path :
    walk_fails cf (S fuel) n e fin -> within c n ->
    failing_path cf e fin fuel c path ->
    failing_path cf e fin (S fuel) n (n :: path).

(* errors that the model can raise but that a compiled tree and a well-formed scope stack never do:
   a set on an empty scope stack, a lost capture buffer, a node of the wrong kind in a param / case list *)
Definition internal_error (n : node) (e : bstr) : Prop :=
  match n with
  | NLetContent _ _ _ | NFor _ _ _ _ _ => e = e_index \/ e = e_impossible
  | NCall _ _ _ _ _ | NLog _ _ => e = e_impossible \/ e = e_unknown
  | _ => False
  end.

(* where the position register stands when node n fails in its own code:
   at n -- except that evalPrint walks its argument without restoring s.node (the position is then
   that of a node of the argument: the same tag), and that a message leaves it at the part rendered last *)
Definition reported_at (n : node) (e : bstr) (p : N) : Prop :=
  match n with
  | NPrint _ arg _ => In p (poss arg)
  | NMsg _ _ _ _ _ => In p (poss n)
  | _ => p = pos_of n \/ internal_error n e
  end.
