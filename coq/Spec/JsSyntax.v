(* C14: a token-level syntax for the subset of JavaScript that soyjs emits.

   1. Tokens ([jstoken]) and two lexers that produce them:
        [lex_bytes]   over the bytes of a file (the real generated file);
        [lex_chunks]  over the chunk list of Model/JsGen.v: a CText is scanned
                      with the same byte scanner, a CStrLit is ONE string token,
                      a CName is a dotted identifier, a CNum a (signed) numeric
                      literal, a CFile only occurs inside a line comment.
      Both drop white space and // comments; a token may carry a 'line break before' flag ([TNL t]); the
      lexers set it where a production of the subset is restricted by it (a postfix ++ after a line terminator,
      also one that ends a comment), and the recogniser refuses a flagged token.  Tokens never span chunk
      boundaries except a string (the path of an ES6 import) and a comment (the
      header line): those are lexer modes carried from chunk to chunk.

   2. [js_parse]: a deterministic one-token-at-a-time pushdown recogniser
      ([js_step], folded over the token list) for the following grammar.  It
      returns the top-level declarations it saw ([jsprog]).

        (notation: X.. = zero or more X; [X] = optional X; terminals between quotes)
        Program   ::= Top..
        Top       ::= Import | FunDef | Stmt
        Import    ::= 'import' '{' Ident '}' 'from' STRING ';'                      (module only)
        FunDef    ::= Name '=' 'function' Params '{' Stmt.. '}' ';'                 (top level only)
                    | 'export' 'function' Ident Params '{' Stmt.. '}' ';'           (module, top level)
        Params    ::= '(' 'opt_data' ',' 'opt_sb' ',' 'opt_ijData' ')'
        Stmt      ::= 'var' Ident '=' Expr ';'
                    | Name '=' Expr ';'  |  Name '+=' Expr ';'
                    | Expr ';'                          (Expr starting with an Ident)
                    | 'return' Expr ';'                 (inside a function)
                    | 'break' ';'                       (inside a switch or for)
                    | 'debugger' ';'
                    | 'if' '(' Expr ')' Block ElseIf.. ['else' Block]
                    | 'for' '(' 'var' Ident '=' Expr ';' Expr ';' Ident '++' ')' Block
                    | 'switch' '(' Expr ')' '{' Clause.. '}'                 (one default at most)
        ElseIf    ::= 'else' 'if' '(' Expr ')' Block
        Clause    ::= 'case' Expr ':' Stmt..  |  'default' ':' Stmt..
        Block     ::= '{' Stmt.. '}'
        Name      ::= Ident DotName..
        DotName   ::= '.' IdentName
        Expr      ::= Unary BinTail.. ['?' Expr ':' Expr]
        BinTail   ::= BINOP Unary              BINOP: one of  *  /  %  +  -  ==  !=  <  >  <=  >=  &&  ||
        Unary     ::= Prefix.. Postfix         Prefix: '!' | '-' | 'typeof'
        Postfix   ::= Primary Suffix..
        Suffix    ::= '.' IdentName | '[' Expr ']' | '(' [Expr CommaExpr..] ')'
                      -- no '.' directly after an integer literal (5.length is a lexical error in JavaScript)
        CommaExpr ::= ',' Expr
        Primary   ::= Ident | 'null' | 'true' | 'false' | 'this' | NUMBER | STRING | '(' Expr ')'
                    | '[' [Expr CommaExpr..] ']' | '{' [Key ':' Expr CommaKey..] '}'
        CommaKey  ::= ',' Key ':' Expr
        Key       ::= IdentName | STRING
        Ident     ::= an IdentifierName that is not a reserved word (strict-mode and module words, eval,
                      arguments included)

      The grammar is meant to be a SUBSET of ECMAScript 2015+ (Script for ES5
      output, Module for ES6 output): everything [js_parse] accepts is
      syntactically valid JavaScript.  That inclusion is not proved (no
      formal ECMAScript grammar); it is tested against V8 by the harness.  Early errors
      that depend on names (duplicate lexical declarations, duplicate
      __proto__ keys) are outside a token grammar.

   3. [bracket_balanced]: the usual stack check of ( ) [ ] { }.

   Definitions only. *)
From Soy Require Import Model.Bytes Model.Num Model.Values Model.Outcome Model.Ast Model.JsGen.
Open Scope N_scope.

(* ------------------------------------------------------------------ *)
(* tokens *)

Inductive kw :=
| KwIf | KwElse | KwFor | KwSwitch | KwCase | KwDefault | KwVar | KwReturn | KwBreak | KwDebugger
| KwImport | KwExport | KwFunction | KwTypeof
| KwLit            (* null true false this *)
| KwReserved.      (* any other reserved word: only after '.' or as an object key *)

Inductive punct :=
| PLPar | PRPar | PLBrk | PRBrk | PLBrc | PRBrc
| PDot | PSemi | PComma | PColon | PQuest | PAssign | PPlusEq | PPlusPlus | PBang | PMinus
| PBin (sym : bstr).          (* * / % + == != < > <= >= && || *)

Inductive jstoken :=
| TId (s : bstr)
| TKw (k : kw) (s : bstr)
| TNum (s : bstr)
| TStr
| TP (p : punct)
| TNL (t : jstoken).          (* the token t with its 'line break before' flag set *)

Definition kw_table : list (bstr * kw) := Eval vm_compute in
  [ (b "if", KwIf); (b "else", KwElse); (b "for", KwFor); (b "switch", KwSwitch); (b "case", KwCase);
    (b "default", KwDefault); (b "var", KwVar); (b "return", KwReturn); (b "break", KwBreak);
    (b "debugger", KwDebugger); (b "import", KwImport); (b "export", KwExport); (b "function", KwFunction);
    (b "typeof", KwTypeof); (b "null", KwLit); (b "true", KwLit); (b "false", KwLit); (b "this", KwLit);
    (b "catch", KwReserved); (b "class", KwReserved); (b "const", KwReserved); (b "continue", KwReserved);
    (b "delete", KwReserved); (b "do", KwReserved); (b "enum", KwReserved); (b "extends", KwReserved);
    (b "finally", KwReserved); (b "in", KwReserved); (b "instanceof", KwReserved); (b "new", KwReserved);
    (b "super", KwReserved); (b "throw", KwReserved); (b "try", KwReserved); (b "void", KwReserved);
    (b "while", KwReserved); (b "with", KwReserved); (b "yield", KwReserved); (b "let", KwReserved);
    (b "static", KwReserved); (b "implements", KwReserved); (b "interface", KwReserved); (b "package", KwReserved);
    (b "private", KwReserved); (b "protected", KwReserved); (b "public", KwReserved); (b "await", KwReserved);
    (b "eval", KwReserved); (b "arguments", KwReserved) ].

Definition tok_of_ident (s : bstr) : jstoken :=
  match assoc_s s kw_table with Some k => TKw k s | None => TId s end.

Definition is_digit (c : N) : bool := (48 <=? c) && (c <=? 57).
Definition is_ident_start (c : N) : bool :=
  ((65 <=? c) && (c <=? 90)) || ((97 <=? c) && (c <=? 122)) || (c =? 95) || (c =? 36).
Definition is_ident_part (c : N) : bool := is_ident_start c || is_digit c.
Definition is_hex (c : N) : bool := is_digit c || ((65 <=? c) && (c <=? 70)) || ((97 <=? c) && (c <=? 102)).
Definition is_space (c : N) : bool := (c =? 32) || (c =? 9) || (c =? 10) || (c =? 13).

(* an IdentifierName of the ASCII subset *)
Definition ident_ok (s : bstr) : bool :=
  match s with
  | c :: r => is_ident_start c && forallb is_ident_part r
  | [] => false
  end.

Fixpoint span (p : N -> bool) (s : bstr) : nat :=
  match s with
  | c :: r => if p c then S (span p r) else O
  | [] => O
  end.

(* ------------------------------------------------------------------ *)
(* the byte scanner *)

Inductive lexmode :=
| LNormal
| LComment
| LStr (q : N)                (* inside a string literal opened by q *)
| LEsc (q : N)                (* after a backslash *)
| LHex (q : N) (k : nat).     (* k more hex digits of a \u escape *)

(* JavaScript punctuators, longest first; Some p = in the subset *)
Definition punct_table : list (bstr * option punct) := Eval vm_compute in
  [ (b ">>>=", None); (b "...", None); (b "===", None); (b "!==", None); (b "**=", None); (b "<<=", None);
    (b ">>=", None); (b ">>>", None); (b "&&=", None); (b "||=", None); (b "??=", None);
    (b "=>", None); (b "==", Some (PBin (b "=="))); (b "!=", Some (PBin (b "!="))); (b "<=", Some (PBin (b "<=")));
    (b ">=", Some (PBin (b ">="))); (b "&&", Some (PBin (b "&&"))); (b "||", Some (PBin (b "||")));
    (b "??", None); (b "?.", None); (b "++", Some PPlusPlus); (b "--", None); (b "+=", Some PPlusEq);
    (b "-=", None); (b "*=", None); (b "/=", None); (b "%=", None); (b "&=", None); (b "|=", None); (b "^=", None);
    (b "<<", None); (b ">>", None); (b "**", None); (b "//", None); (b "/*", None);
    (b "{", Some PLBrc); (b "}", Some PRBrc); (b "(", Some PLPar); (b ")", Some PRPar); (b "[", Some PLBrk);
    (b "]", Some PRBrk); (b ".", Some PDot); (b ";", Some PSemi); (b ",", Some PComma);
    (b "<", Some (PBin (b "<"))); (b ">", Some (PBin (b ">"))); (b "+", Some (PBin (b "+"))); (b "-", Some PMinus);
    (b "*", Some (PBin (b "*"))); (b "/", Some (PBin (b "/"))); (b "%", Some (PBin (b "%")));
    (b "!", Some PBang); (b "?", Some PQuest); (b ":", Some PColon); (b "=", Some PAssign) ].

Fixpoint find_punct (tbl : list (bstr * option punct)) (s : bstr) : option (nat * option punct) :=
  match tbl with
  | [] => None
  | (p, r) :: rest => if is_prefix p s then Some (List.length p, r) else find_punct rest s
  end.

(* the numeric literal at the head of s (s starts with a digit): its length.
   digits+ ('.' digits+)? ([eE] [+-]? digits+)?; None: a shape outside the subset
   (leading zero, hex, a letter or digit glued to the literal) *)
Definition num_span (s : bstr) : option nat :=
  let n1 := span is_digit s in
  let r1 := drop n1 s in
  let lead_ok := match s with 48 :: d :: _ => negb (is_digit d) | _ => true end in
  let '(n2, r2) :=
    match r1 with
    | 46 :: r => let k := span is_digit r in if Nat.eqb k 0 then (n1, r1) else (n1 + 1 + k, drop k r)%nat
    | _ => (n1, r1)
    end in
  let '(n3, r3) :=
    match r2 with
    | e :: r =>
        if (e =? 101) || (e =? 69) then
          let '(sg, r') := match r with c :: r' => if (c =? 43) || (c =? 45) then (1%nat, r') else (0%nat, r) | [] => (0%nat, r) end in
          let k := span is_digit r' in
          if Nat.eqb k 0 then (n2, r2) else (n2 + 1 + sg + k, drop k r')%nat
        else (n2, r2)
    | [] => (n2, r2)
    end in
  match r3 with
  | c :: _ => if is_ident_part c || negb lead_ok then None else Some n3
  | [] => if lead_ok then Some n3 else None
  end.

(* a line terminator sequence of 3 bytes (U+2028 / U+2029) starts at c :: r *)
Definition ls_at (c : N) (r : bstr) : bool :=
  match r with c1 :: c2 :: _ => (c =? 226) && (c1 =? 128) && ((c2 =? 168) || (c2 =? 169)) | _ => false end.

(* a line terminator may not stand between an operand and a postfix ++ (a restricted production of ECMAScript:
   the ++ would start a new statement).  The lexer does not refuse such a text: the ++ token gets the flag
   'line break before' ([TNL (TP PPlusPlus)]: decided at the line terminator, by looking over the white space that
   follows it) and it is the recogniser that has no transition on a flagged token.  No other production of the
   subset depends on a line break, so no other token is ever flagged. *)
Fixpoint skip_spaces (s : bstr) : bstr :=
  match s with
  | c :: r => if is_space c then skip_spaces r else s
  | [] => []
  end.
Definition incr_next (s : bstr) : bool := is_prefix [43; 43] (skip_spaces s).
(* the bytes up to and including that ++ *)
Definition incr_skip (s : bstr) : nat := (span is_space s + 2)%nat.
Definition tok_incr_nl : jstoken := TNL (TP PPlusPlus).
Definition cons_tok (t : jstoken) (r : option (list jstoken * lexmode)) : option (list jstoken * lexmode) :=
  option_map (fun '(ts, m') => (t :: ts, m')) r.

(* [skip]: bytes of a token already emitted *)
Fixpoint lex_text (skip : nat) (m : lexmode) (s : bstr) : option (list jstoken * lexmode) :=
  match s with
  | [] => match skip with O => Some ([], m) | S _ => None end
  | c :: r =>
      match skip with
      | S k => lex_text k m r
      | O =>
          match m with
          | LComment =>
              if (c =? 10) || (c =? 13) then
                (if incr_next r then cons_tok tok_incr_nl (lex_text (incr_skip r) LNormal r) else lex_text 0 LNormal r)
              else if ls_at c r then
                (if incr_next (drop 2 r) then cons_tok tok_incr_nl (lex_text (2 + incr_skip (drop 2 r)) LNormal r)
                 else lex_text 2 LNormal r)
              else lex_text 0 LComment r
          | LStr q =>
              if c =? q then option_map (fun '(ts, m') => (TStr :: ts, m')) (lex_text 0 LNormal r)
              else if c =? 92 then lex_text 0 (LEsc q) r
              else if c <? 32 then None
              else lex_text 0 (LStr q) r
          | LEsc q =>
              if (c =? 92) || (c =? 39) || (c =? 34) then lex_text 0 (LStr q) r
              else if c =? 117 then lex_text 0 (LHex q 4) r
              else None
          | LHex q k =>
              if is_hex c then match k with
                               | S (S k') => lex_text 0 (LHex q (S k')) r
                               | _ => lex_text 0 (LStr q) r
                               end
              else None
          | LNormal =>
              if is_space c then
                (if ((c =? 10) || (c =? 13)) && incr_next r then cons_tok tok_incr_nl (lex_text (incr_skip r) LNormal r)
                 else lex_text 0 LNormal r)
              else if (c =? 39) || (c =? 34) then lex_text 0 (LStr c) r
              else if is_ident_start c then
                let n := span is_ident_part r in
                option_map (fun '(ts, m') => (tok_of_ident (c :: take n r) :: ts, m')) (lex_text n LNormal r)
              else if is_digit c then
                match num_span s with
                | Some (S n) => option_map (fun '(ts, m') => (TNum (take (S n) s) :: ts, m')) (lex_text n LNormal r)
                | _ => None
                end
              else if (c =? 47) && (match r with 47 :: _ => true | _ => false end) then lex_text 1 LComment r
              else match find_punct punct_table s with
                   | Some (S n, Some p) => option_map (fun '(ts, m') => (TP p :: ts, m')) (lex_text n LNormal r)
                   | _ => None
                   end
          end
      end
  end.

(* a whole file: it must end outside a string; a trailing line comment is fine *)
Definition lex_bytes (s : bstr) : option (list jstoken) :=
  match lex_text 0 LNormal s with
  | Some (ts, LNormal) | Some (ts, LComment) => Some ts
  | _ => None
  end.

(* ------------------------------------------------------------------ *)
(* the chunk lexer *)

(* a dotted identifier: a.b.c *)
Fixpoint split_dots (cur : bstr) (s : bstr) : list bstr :=
  match s with
  | [] => [rev cur]
  | c :: r => if c =? 46 then rev cur :: split_dots [] r else split_dots (c :: cur) r
  end.
Fixpoint name_tokens (parts : list bstr) : list jstoken :=
  match parts with
  | [] => []
  | [p] => [tok_of_ident p]
  | p :: r => tok_of_ident p :: TP PDot :: name_tokens r
  end.
Definition lex_name (s : bstr) : option (list jstoken) :=
  let parts := split_dots [] s in
  if forallb ident_ok parts then Some (name_tokens parts) else None.

(* digits+ ('.' digits+)? ('e' [+-]? digits+)? exactly *)
Definition unsigned_num_ok (s : bstr) : bool :=
  match s with
  | c :: _ => is_digit c && match num_span s with Some n => Nat.eqb n (List.length s) | None => false end
  | [] => false
  end.
Definition lex_num (s : bstr) : option (list jstoken) :=
  match s with
  | 45 :: r => if unsigned_num_ok r then Some [TP PMinus; TNum r] else None
  | _ => if unsigned_num_ok s then Some [TNum s] else None
  end.

Definition lt_at' (s : bstr) : bool :=
  match s with
  | c :: r => (c =? 10) || (c =? 13) || ls_at c r
  | [] => false
  end.
Fixpoint has_lt' (s : bstr) : bool :=
  match s with
  | [] => false
  | _ :: r => lt_at' s || has_lt' r
  end.
(* bytes that may stand raw inside a quoted string *)
Definition str_safe (c : N) : bool := negb ((c <? 32) || (c =? 39) || (c =? 34) || (c =? 92)).

Definition lex_chunk (m : lexmode) (c : chunk) : option (list jstoken * lexmode) :=
  match c with
  | CText t => lex_text 0 m t
  | CStrLit q _ =>
      match m with
      | LNormal => if (q =? 39) || (q =? 34) then Some ([TStr], LNormal) else None
      | _ => None
      end
  | CName s =>
      match m with
      | LNormal => option_map (fun ts => (ts, LNormal)) (lex_name s)
      | LStr q => if forallb str_safe s then Some ([], LStr q) else None
      | _ => None
      end
  | CNum s =>
      match m with
      | LNormal => option_map (fun ts => (ts, LNormal)) (lex_num s)
      | _ => None
      end
  | CFile s =>
      match m with
      | LComment => if has_lt' s then None else Some ([], LComment)
      | _ => None
      end
  end.

Fixpoint lex_chunks_from (m : lexmode) (cs : list chunk) : option (list jstoken * lexmode) :=
  match cs with
  | [] => Some ([], m)
  | c :: r =>
      match lex_chunk m c with
      | Some (ts, m') => option_map (fun '(ts', m'') => (ts ++ ts', m'')) (lex_chunks_from m' r)
      | None => None
      end
  end.
Definition lex_chunks (cs : list chunk) : option (list jstoken) :=
  match lex_chunks_from LNormal cs with
  | Some (ts, LNormal) | Some (ts, LComment) => Some ts
  | _ => None
  end.

(* ------------------------------------------------------------------ *)
(* the recogniser *)

Inductive blockkind := BIf | BElse | BFor | BFun | BSwitch (default_seen : bool).

Inductive frame :=
| KParen | KCall | KIdx | KArr | KObj | KTern
| KStmtE                      (* an expression that ends a statement at ';' *)
| KIfCond | KSwCond | KCase
| KFor1 | KFor2 | KFor3       (* for ( var x = E1 ; E2 ; x++ ) *)
| KParams | KImport
| KBlock (k : blockkind).

Inductive pat :=
| PT (t : jstoken)            (* this token *)
| PIdent                      (* an identifier that is not a reserved word *)
| PStr.

Inductive mode :=
| MStmt (els : bool)          (* at the start of a statement; els: an 'else' may follow *)
| MSwStart                    (* after 'switch (e) {': a label or '}' *)
| MElse
| MWant (closable : bool)     (* an operand is expected; closable: or the closing bracket of an empty list *)
| MHave (isint : bool)        (* after an operand; isint: it was an integer literal *)
| MDot
| MKey (closable : bool)
| MName (acc : list bstr)     (* inside Name at the start of a statement (parts reversed) *)
| MNameDot (acc : list bstr)
| MAssign (acc : list bstr)   (* after Name '=' *)
| MFunName                    (* after 'export function' *)
| MImportName
| MImportClose
| MParamsClose
| MForClose
| MSeq (ps : list pat) (push : option frame) (next : mode).

Inductive jsdecl :=
| DFun (name : bstr)
| DImport (name : bstr).
Definition jsprog := list jsdecl.

(* the result of a step: the next mode, the stack, and the declarations this step recognised *)
Definition sres := (mode * list frame * list jsdecl)%type.
Definition cfg (m : mode) (stk : list frame) (d : list jsdecl) : sres := (m, stk, d).

Definition kw_eqb (a c : kw) : bool :=
  match a, c with
  | KwIf, KwIf | KwElse, KwElse | KwFor, KwFor | KwSwitch, KwSwitch | KwCase, KwCase | KwDefault, KwDefault
  | KwVar, KwVar | KwReturn, KwReturn | KwBreak, KwBreak | KwDebugger, KwDebugger | KwImport, KwImport
  | KwExport, KwExport | KwFunction, KwFunction | KwTypeof, KwTypeof | KwLit, KwLit | KwReserved, KwReserved => true
  | _, _ => false
  end.
Definition punct_eqb (a c : punct) : bool :=
  match a, c with
  | PLPar, PLPar | PRPar, PRPar | PLBrk, PLBrk | PRBrk, PRBrk | PLBrc, PLBrc | PRBrc, PRBrc | PDot, PDot
  | PSemi, PSemi | PComma, PComma | PColon, PColon | PQuest, PQuest | PAssign, PAssign | PPlusEq, PPlusEq
  | PPlusPlus, PPlusPlus | PBang, PBang | PMinus, PMinus => true
  | PBin x, PBin y => bstr_eqb x y
  | _, _ => false
  end.
Fixpoint tok_eqb (a c : jstoken) : bool :=
  match a, c with
  | TId x, TId y => bstr_eqb x y
  | TKw k x, TKw k' y => kw_eqb k k' && bstr_eqb x y
  | TNum x, TNum y => bstr_eqb x y
  | TStr, TStr => true
  | TP p, TP q => punct_eqb p q
  | TNL x, TNL y => tok_eqb x y
  | _, _ => false
  end.
(* a token with the flag 'line break before': the grammar has no production that allows the tokens the lexers flag *)
Definition tok_flagged (t : jstoken) : bool := match t with TNL _ => true | _ => false end.
Definition pat_match (p : pat) (t : jstoken) : bool :=
  match p with
  | PT t' => tok_eqb t' t
  | PIdent => match t with TId _ => true | _ => false end
  | PStr => match t with TStr => true | _ => false end
  end.

Definition n_opt_data := Eval vm_compute in b "opt_data".
Definition n_opt_sb := Eval vm_compute in b "opt_sb".
Definition n_opt_ijData := Eval vm_compute in b "opt_ijData".
Definition n_from := Eval vm_compute in b "from".
Definition kw_var := Eval vm_compute in b "var".
Definition kw_function := Eval vm_compute in b "function".

Definition seq1 (p : punct) (push : option frame) (next : mode) : mode := MSeq [PT (TP p)] push next.
(* after 'function' / the exported name: the parameter list and the body *)
Definition m_params : mode :=
  seq1 PLPar (Some KParams)
    (MSeq [PT (TId n_opt_data); PT (TP PComma); PT (TId n_opt_sb); PT (TP PComma); PT (TId n_opt_ijData)] None MParamsClose).

Definition is_fun_frame (f : frame) : bool := match f with KBlock BFun => true | _ => false end.
Definition is_breakable (f : frame) : bool := match f with KBlock (BSwitch _) | KBlock BFor => true | _ => false end.
Definition is_int_text (s : bstr) : bool := forallb is_digit s.

Fixpoint join_dots (parts : list bstr) : bstr :=
  match parts with
  | [] => []
  | [p] => p
  | p :: r => p ++ [46] ++ join_dots r
  end.

(* an operand is expected *)
Definition step_want (closable : bool) (stk : list frame) (t : jstoken) : option sres :=
  match t with
  | TId _ => Some (cfg (MHave false) stk [])
  | TKw KwLit _ => Some (cfg (MHave false) stk [])
  | TKw KwTypeof _ => Some (cfg (MWant false) stk [])
  | TKw _ _ => None
  | TNum s => Some (cfg (MHave (is_int_text s)) stk [])
  | TStr => Some (cfg (MHave false) stk [])
  | TP PBang | TP PMinus => Some (cfg (MWant false) stk [])
  | TP PLPar => Some (cfg (MWant false) (KParen :: stk) [])
  | TP PLBrk => Some (cfg (MWant true) (KArr :: stk) [])
  | TP PLBrc => Some (cfg (MKey true) (KObj :: stk) [])
  | TP PRPar => if closable then match stk with KCall :: r => Some (cfg (MHave false) r []) | _ => None end else None
  | TP PRBrk => if closable then match stk with KArr :: r => Some (cfg (MHave false) r []) | _ => None end else None
  | TP _ => None
  | TNL _ => None
  end.

(* after an operand *)
Definition step_have (isint : bool) (stk : list frame) (t : jstoken) : option sres :=
  match t with
  | TP (PBin _) | TP PMinus => Some (cfg (MWant false) stk [])
  | TP PDot => if isint then None else Some (cfg MDot stk [])
  | TP PLPar => Some (cfg (MWant true) (KCall :: stk) [])
  | TP PLBrk => Some (cfg (MWant false) (KIdx :: stk) [])
  | TP PQuest => Some (cfg (MWant false) (KTern :: stk) [])
  | TP PColon =>
      match stk with
      | KTern :: r => Some (cfg (MWant false) r [])
      | KCase :: r => Some (cfg (MStmt false) r [])
      | _ => None
      end
  | TP PComma =>
      match stk with
      | KCall :: _ | KArr :: _ => Some (cfg (MWant false) stk [])
      | KObj :: _ => Some (cfg (MKey false) stk [])
      | _ => None
      end
  | TP PRPar =>
      match stk with
      | KParen :: r | KCall :: r => Some (cfg (MHave false) r [])
      | KIfCond :: r => Some (cfg (seq1 PLBrc (Some (KBlock BIf)) (MStmt false)) r [])
      | KSwCond :: r => Some (cfg (seq1 PLBrc (Some (KBlock (BSwitch false))) MSwStart) r [])
      | _ => None
      end
  | TP PRBrk => match stk with KIdx :: r | KArr :: r => Some (cfg (MHave false) r []) | _ => None end
  | TP PRBrc => match stk with KObj :: r => Some (cfg (MHave false) r []) | _ => None end
  | TP PSemi =>
      match stk with
      | KStmtE :: r => Some (cfg (MStmt false) r [])
      | KFor1 :: r => Some (cfg (MWant false) (KFor2 :: r) [])
      | KFor2 :: r => Some (cfg (MSeq [PIdent; PT (TP PPlusPlus)] None MForClose) (KFor3 :: r) [])
      | _ => None
      end
  | _ => None
  end.

(* at the start of a statement *)
Definition step_stmt (module els : bool) (stk : list frame) (t : jstoken) : option sres :=
  match t with
  | TId s => Some (cfg (MName [s]) stk [])
  | TKw KwIf _ => Some (cfg (seq1 PLPar (Some KIfCond) (MWant false)) stk [])
  | TKw KwElse _ => if els then Some (cfg MElse stk []) else None
  | TKw KwFor _ =>
      Some (cfg (seq1 PLPar (Some KFor1) (MSeq [PT (TKw KwVar kw_var); PIdent; PT (TP PAssign)] None (MWant false))) stk [])
  | TKw KwSwitch _ => Some (cfg (seq1 PLPar (Some KSwCond) (MWant false)) stk [])
  | TKw KwCase _ => match stk with KBlock (BSwitch _) :: _ => Some (cfg (MWant false) (KCase :: stk) []) | _ => None end
  | TKw KwDefault _ =>
      match stk with
      | KBlock (BSwitch false) :: r => Some (cfg (seq1 PColon None (MStmt false)) (KBlock (BSwitch true) :: r) [])
      | _ => None
      end
  | TKw KwVar _ => Some (cfg (MSeq [PIdent; PT (TP PAssign)] (Some KStmtE) (MWant false)) stk [])
  | TKw KwReturn _ => if existsb is_fun_frame stk then Some (cfg (MWant false) (KStmtE :: stk) []) else None
  | TKw KwBreak _ => if existsb is_breakable stk then Some (cfg (seq1 PSemi None (MStmt false)) stk []) else None
  | TKw KwDebugger _ => Some (cfg (seq1 PSemi None (MStmt false)) stk [])
  | TKw KwImport _ =>
      match stk with
      | [] => if module then Some (cfg (seq1 PLBrc (Some KImport) MImportName) stk []) else None
      | _ => None
      end
  | TKw KwExport _ =>
      match stk with
      | [] => if module then Some (cfg (MSeq [PT (TKw KwFunction kw_function)] None MFunName) stk []) else None
      | _ => None
      end
  | TP PRBrc =>
      match stk with
      | KBlock BIf :: r => Some (cfg (MStmt true) r [])
      | KBlock BFun :: r => Some (cfg (seq1 PSemi None (MStmt false)) r [])
      | KBlock _ :: r => Some (cfg (MStmt false) r [])
      | _ => None
      end
  | _ => None
  end.

Definition js_step (module : bool) (m : mode) (stk : list frame) (t : jstoken) : option sres :=
  match m with
  | MStmt els => step_stmt module els stk t
  | MSwStart =>
      match t with
      | TKw KwCase _ | TKw KwDefault _ | TP PRBrc => step_stmt module false stk t
      | _ => None
      end
  | MElse =>
      match t with
      | TKw KwIf _ => Some (cfg (seq1 PLPar (Some KIfCond) (MWant false)) stk [])
      | TP PLBrc => Some (cfg (MStmt false) (KBlock BElse :: stk) [])
      | _ => None
      end
  | MWant cl => step_want cl stk t
  | MHave i => step_have i stk t
  | MDot => match t with TId _ | TKw _ _ => Some (cfg (MHave false) stk []) | _ => None end
  | MKey cl =>
      match t with
      | TId _ | TKw _ _ | TStr => Some (cfg (seq1 PColon None (MWant false)) stk [])
      | TP PRBrc => if cl then match stk with KObj :: r => Some (cfg (MHave false) r []) | _ => None end else None
      | _ => None
      end
  | MName acc =>
      match t with
      | TP PDot => Some (cfg (MNameDot acc) stk [])
      | TP PAssign => Some (cfg (MAssign acc) stk [])
      | TP PPlusEq => Some (cfg (MWant false) (KStmtE :: stk) [])
      | _ => step_have false (KStmtE :: stk) t
      end
  | MNameDot acc => match t with TId s | TKw _ s => Some (cfg (MName (s :: acc)) stk []) | _ => None end
  | MAssign acc =>
      match t, stk with
      | TKw KwFunction _, [] => Some (cfg m_params stk (DFun (join_dots (rev acc)) :: []))
      | _, _ => step_want false (KStmtE :: stk) t
      end
  | MFunName => match t with TId s => Some (cfg m_params stk (DFun s :: [])) | _ => None end
  | MImportName => match t with TId s => Some (cfg MImportClose stk (DImport s :: [])) | _ => None end
  | MImportClose =>
      match t, stk with
      | TP PRBrc, KImport :: r => Some (cfg (MSeq [PT (TId n_from); PStr; PT (TP PSemi)] None (MStmt false)) r [])
      | _, _ => None
      end
  | MParamsClose =>
      match t, stk with
      | TP PRPar, KParams :: r => Some (cfg (seq1 PLBrc (Some (KBlock BFun)) (MStmt false)) r [])
      | _, _ => None
      end
  | MForClose =>
      match t, stk with
      | TP PRPar, KFor3 :: r => Some (cfg (seq1 PLBrc (Some (KBlock BFor)) (MStmt false)) r [])
      | _, _ => None
      end
  | MSeq [] _ _ => None
  | MSeq (p :: ps) push next =>
      if pat_match p t then
        match ps with
        | [] => Some (cfg next (match push with Some f => f :: stk | None => stk end) [])
        | _ => Some (cfg (MSeq ps push next) stk [])
        end
      else None
  end.

Fixpoint js_run (module : bool) (ts : list jstoken) (m : mode) (stk : list frame) : option sres :=
  match ts with
  | [] => Some (m, stk, [])
  | t :: r =>
      match js_step module m stk t with
      | Some (m', stk', d) =>
          match js_run module r m' stk' with
          | Some (m'', stk'', d') => Some (m'', stk'', d ++ d')
          | None => None
          end
      | None => None
      end
  end.

Definition js_parse (module : bool) (ts : list jstoken) : option jsprog :=
  match js_run module ts (MStmt false) [] with
  | Some (MStmt _, [], d) => Some d
  | _ => None
  end.

Definition prog_funs (p : jsprog) : list bstr :=
  flat_map (fun d => match d with DFun n => [n] | DImport _ => [] end) p.

(* ------------------------------------------------------------------ *)
(* bracket balance *)

Definition bal_step (stk : list punct) (t : jstoken) : option (list punct) :=
  match t with
  | TP PLPar => Some (PLPar :: stk)
  | TP PLBrk => Some (PLBrk :: stk)
  | TP PLBrc => Some (PLBrc :: stk)
  | TP PRPar => match stk with PLPar :: r => Some r | _ => None end
  | TP PRBrk => match stk with PLBrk :: r => Some r | _ => None end
  | TP PRBrc => match stk with PLBrc :: r => Some r | _ => None end
  | _ => Some stk
  end.
Fixpoint bal_run (ts : list jstoken) (stk : list punct) : option (list punct) :=
  match ts with
  | [] => Some stk
  | t :: r => match bal_step stk t with Some s' => bal_run r s' | None => None end
  end.
(* every closing bracket closes the innermost open bracket, of its own kind, and nothing stays open *)
Definition bracket_balanced (ts : list jstoken) : bool :=
  match bal_run ts [] with Some [] => true | _ => false end.
