(* The body of an ECMAScript (5.1) string literal as a sequence of UTF-16 code
   units -- what a JavaScript engine works with: an escape denotes one code unit,
   any other source unit denotes itself; the delimiter, a backslash and the four
   LineTerminators (LF CR U+2028 U+2029) cannot appear raw.  Stricter than the
   grammar on two points (never laxer): octal / backslash-digit escapes and line
   continuations are rejected.  Written from the standard, not from the encoders. *)
From Soy Require Import Model.Bytes Model.Utf8 Spec.Codec.
Open Scope N_scope.

Definition jsu_line_terminator (c : N) : bool := (c =? 10) || (c =? 13) || (c =? 8232) || (c =? 8233).

(* one token at the head of [s]: the code unit it denotes and the number of source units it occupies *)
Definition jsu_tok (q : N) (s : list N) : option (N * nat) :=
  match s with
  | [] => None
  | c :: r =>
      if c =? q then None
      else if jsu_line_terminator c then None
      else if c =? 92 then
        match r with
        | [] => None
        | e :: r1 =>
            if e =? 120 then
              match r1 with
              | h1 :: h2 :: _ => option_map (fun v => (v, 4%nat)) (hexval2 h1 h2)
              | _ => None
              end
            else if e =? 117 then
              match r1 with
              | h1 :: h2 :: h3 :: h4 :: _ => option_map (fun v => (v, 6%nat)) (hexval4 h1 h2 h3 h4)
              | _ => None
              end
            else match js_single_escape e with
                 | Some v => Some (v, 2%nat)
                 | None => if js_non_escape e then Some (e, 2%nat) else None
                 end
        end
      else Some (c, 1%nat)
  end.

Fixpoint jsu_read_aux (q : N) (skip : nat) (s : list N) : option (list N) :=
  match s with
  | [] => match skip with O => Some [] | S _ => None end
  | _ :: r =>
      match skip with
      | S k => jsu_read_aux q k r
      | O =>
          match jsu_tok q s with
          | None => None
          | Some (v, n) => option_map (cons v) (jsu_read_aux q (pred n) r)
          end
      end
  end.

(* the string value of the literal  q body q *)
Definition jsu_read (q : N) (body : list N) : option (list N) := jsu_read_aux q 0 body.

(* well-formed UTF-16: every high surrogate is followed by a low one, no other low surrogate *)
Fixpoint utf16_wf_aux (pending : bool) (s : list N) : bool :=
  match s with
  | [] => negb pending
  | c :: r =>
      if pending then in_range 56320 57343 c && utf16_wf_aux false r
      else if in_range 56320 57343 c then false
      else utf16_wf_aux (in_range 55296 56319 c) r
  end.
Definition utf16_wf (s : list N) : bool := utf16_wf_aux false s.
