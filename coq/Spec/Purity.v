(* C08: what "rendering is pure" demands of the history machine of Model/History.v. *)
From Soy Require Import Model.Bytes Model.Outcome Model.Ast Model.Interp Model.History.
Open Scope N_scope.

(* one render leaves everything it shares with other renders as it found it *)
Definition preserves_shared (wd : world) : Prop :=
  forall sh rq, snd (step wd sh rq) = sh.

(* the result of the last render of any history is the result of that render alone *)
Definition history_independent_at (wd : world) : Prop :=
  forall sh h rq d, last (fst (run_history wd sh (h ++ [rq]))) d = render_in wd sh rq.
