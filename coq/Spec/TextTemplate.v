(* C15, template level: a whole minimal file -- one template whose body is text, comments, special-character
   commands and literal blocks:   {template .name} T0 {c1} T1 ... {cn} Tn {/template}
   The first stretch follows the "}" of the template tag (a leading "//" is text, as after every tag), and every
   stretch, the last included, is followed by a tag: no "//" comment may be open at its end. *)
From Soy Require Import Model.Bytes Spec.Text Spec.TextBody Spec.TextMix.
Open Scope N_scope.

Definition tpl_open_head : bstr := Eval vm_compute in b "{template .".
Definition tpl_open_src (name : bstr) : bstr := tpl_open_head ++ name ++ [125].
Definition tpl_close_src : bstr := Eval vm_compute in b "{/template}".
Definition tpl_file (name : bstr) (T0 : bstr) (r : list seg) : bstr := tpl_open_src name ++ body_src T0 r ++ tpl_close_src.

(* the name after the dot: ASCII letters, digits and '_', not starting with a digit *)
Definition tpl_name_wf (name : bstr) : Prop :=
  forallb (fun c => ((65 <=? c) && (c <=? 90)) || ((97 <=? c) && (c <=? 122)) || (c =? 95) || ((48 <=? c) && (c <=? 57))) name = true /\
  match name with c :: _ => negb ((48 <=? c) && (c <=? 57)) | [] => true end = true.

Definition mix_tpl_ok (T0 : bstr) (r : list seg) : Prop :=
  mix_stretch_ok false false T0 /\ Forall (fun sg : seg => cmd_ok (fst sg) /\ mix_stretch_ok false false (snd sg)) r.

Definition mix_tpl_out (T0 : bstr) (r : list seg) : option bstr :=
  match body_text false T0 with
  | Some t => app_opt t (mix_rest_out r)
  | None => None
  end.
