(* C15: what "normalised by the line-joining rule and nothing else" means.

   White space is the four bytes space, tab, CR, LF; a line break is CR or LF.
   [normalize tb ta s] cuts s into maximal runs of white space and of other
   bytes and maps each run:
     - a run of other bytes is copied;
     - a white-space run without a line break is copied, except at an end of s
       that is flagged (tb at the start, ta at the end: a comment is the
       neighbour there), where it is dropped;
     - a white-space run with a line break is dropped at either end of s, and
       in the interior becomes one space unless the byte before or the byte
       after it is a joiner, i.e. < or >.
   The joiner predicate is a parameter of the auxiliary definitions only so that
   Proofs/RawTextProofs.v can state precisely what the code does on inputs with
   a NUL byte; the Spec is the instance [angle]. *)
From Soy Require Import Model.Bytes.
Open Scope N_scope.

Definition ws (c : N) : bool := (c =? 32) || (c =? 9) || (c =? 13) || (c =? 10).
Definition line_break (c : N) : bool := (c =? 13) || (c =? 10).
Definition angle (c : N) : bool := (c =? 60) || (c =? 62).

(* maximal runs, tagged with "is white space" *)
Fixpoint runs (s : bstr) : list (bool * bstr) :=
  match s with
  | [] => []
  | c :: r =>
      match runs r with
      | (k, run) :: rest =>
          if Bool.eqb k (ws c) then (k, c :: run) :: rest
          else (ws c, [c]) :: (k, run) :: rest
      | [] => [(ws c, [c])]
      end
  end.

Definition first_byte (l : list (bool * bstr)) : option N :=
  match l with (_, c :: _) :: _ => Some c | _ => None end.

Fixpoint last_byte (d : option N) (run : bstr) : option N :=
  match run with [] => d | c :: r => last_byte (Some c) r end.

Definition is_none {A} (o : option A) : bool := match o with None => true | Some _ => false end.

(* image of one white-space run; [prev]/[next] are the neighbouring bytes, None
   at the ends of s *)
Definition ws_run_image (joiner : N -> bool) (tb ta : bool) (prev next : option N) (run : bstr) : bstr :=
  if existsb line_break run then
    match prev, next with
    | Some p, Some n => if joiner p || joiner n then [] else [32]
    | _, _ => []
    end
  else if (is_none prev && tb) || (is_none next && ta) then [] else run.

Fixpoint norm_runs (joiner : N -> bool) (tb ta : bool) (prev : option N) (l : list (bool * bstr)) : bstr :=
  match l with
  | [] => []
  | (true, run) :: rest => ws_run_image joiner tb ta prev (first_byte rest) run ++ norm_runs joiner tb ta prev rest
  | (false, run) :: rest => run ++ norm_runs joiner tb ta (last_byte prev run) rest
  end.

Definition normalize_with (joiner : N -> bool) (tb ta : bool) (s : bstr) : bstr :=
  norm_runs joiner tb ta None (runs s).

Definition normalize (tb ta : bool) (s : bstr) : bstr := normalize_with angle tb ta s.

(* the subsequence of bytes that are not white space *)
Definition nonspace (s : bstr) : bstr := filter (fun c => negb (ws c)) s.

(* ---- template level: a stretch of template text T without braces ----
   Comments are removed: "/*" up to the first following "*/", and "//" up to and
   including the first CR or LF (or the end of T) when the byte before it is
   white space -- or when it is at the very start of the input ([start]).  The
   pieces between comments are normalised separately, each comment acting as a
   flagged end (tb / ta) of its neighbours; a piece that is only white space
   with a line break contributes nothing, as [normalize] drops such a run at
   either end.  None: an unclosed block comment (the template is rejected) or
   the soydoc opener "/**" (a different construct, not a comment; "/**/" however
   is "/*" immediately followed by "*/", an empty comment). *)
Inductive cmode := MText | MOpenLine | MOpenBlock | MLine | MBlock (star : bool).

Definition cons_opt (x : bstr) (o : option (list bstr)) : option (list bstr) :=
  match o with Some l => Some (x :: l) | None => None end.

(* [prev_ws]: the byte before is white space (or we are at the very start of
   the input); [cur]: the current piece, reversed *)
Fixpoint pieces (m : cmode) (prev_ws : bool) (cur : bstr) (T : bstr) : option (list bstr) :=
  match T with
  | [] => match m with
          | MText | MLine => Some [rev cur]
          | _ => None
          end
  | c :: r =>
      match m with
      | MText =>
          let continue := pieces MText (ws c) (c :: cur) r in
          if c =? 47 then
            match r with
            | d :: r2 =>
                if d =? 42 then
                  match r2 with
                  | e :: r3 =>
                      if (e =? 42) && negb (match r3 with f :: _ => f =? 47 | [] => false end)
                      then None                       (* the soydoc opener; but "/**/" is an empty comment *)
                      else cons_opt (rev cur) (pieces MOpenBlock false [] r)
                  | [] => None
                  end
                else if (d =? 47) && prev_ws then cons_opt (rev cur) (pieces MOpenLine false [] r)
                else continue
            | [] => continue
            end
          else continue
      | MOpenLine => pieces MLine false [] r
      | MOpenBlock => pieces (MBlock false) false [] r
      | MLine => if line_break c then pieces MText true [] r else pieces MLine false [] r
      | MBlock star =>
          if c =? 42 then pieces (MBlock true) false [] r
          else if (c =? 47) && star then pieces MText false [] r
          else pieces (MBlock false) false [] r
      end
  end.

Fixpoint norm_pieces (tb : bool) (l : list bstr) : bstr :=
  match l with
  | [] => []
  | [x] => normalize tb false x
  | x :: rest => normalize tb true x ++ norm_pieces true rest
  end.

Definition body_text (start : bool) (T : bstr) : option bstr :=
  match pieces MText start [] T with
  | Some l => Some (norm_pieces false l)
  | None => None
  end.

(* names under which the model runner reaches these definitions: unique across
   the development, so that a [normalize] of another module can never be the one
   the extraction list picks up *)
Definition text_normalize := normalize.
Definition text_normalize_with := normalize_with.
Definition text_body_text := body_text.
