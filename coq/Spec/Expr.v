(* C01 -- the Soy expression language, as a declarative evaluator over its own small syntax.
   This file is the SPEC side of C01: it is written against the language description
   (operator table, value semantics, data references, documented meaning of the built-in
   functions), not against soyhtml/exec.go; Model/Interp.v is the other description and
   Proofs/EvalProofs.v proves that the two agree on every expression tree.

   Shared with the model on purpose: the value type, truthy / equals / value_string
   (Model/Values.v -- their laws are the subject of C20: truthiness table, equality by kind,
   Int/Float numerically, collections by identity) and the numeric model (Model/Num.v: floats
   are dyadic rationals m * 2^e; the operators + - * / give the IEEE 754 result, i.e. the exact
   result rounded to the nearest binary64, ties to even (fl_add_r ... fl_div_r); an integer
   result outside int64, a float result beyond the exponent range of the model, an int beyond
   2^53 used as a float, and the functions round/floor/ceiling/min/max on a value where their
   exact computation is not a binary64 are [OutOfModel]: the Spec does not say what the
   language does there and the theorem excludes it).

   Identity.  Soy == on lists and maps is identity, so evaluation threads a counter [n]:
   every evaluation of a non-empty list literal, of any map literal, and every collection
   built by a function takes a fresh identity.  The empty list has no identity of its own:
   every empty list literal denotes the one empty list (identity 1) and a function that
   produces no elements returns the nil list (identity 0).  (Adjudicated, DESIGN ledger I12:
   the statement says "strict equality" and nothing about the identity of an empty list;
   the oracle never compares two empty fresh lists.)

   Definitions only. *)
From Soy Require Import Model.Bytes Model.Num Model.Values Model.Outcome.
Open Scope N_scope.

(* ------------------------------------------------------------------ *)
(* syntax *)

Inductive bop :=
| BMul | BDiv | BMod | BAdd | BSub          (* arithmetic *)
| BLt | BGt | BLe | BGe                      (* ordering *)
| BEq | BNe                                  (* equality *)
| BAnd | BOr.                                (* boolean, short-circuit *)

Inductive fn :=
| FIsNonnull | FLength | FKeys | FAugmentMap | FRound | FFloor | FCeiling
| FMin | FMax | FRandomInt | FStrContains | FRange | FHasData.

Inductive expr :=
| ENull
| EBool (x : bool)
| EInt (z : Z)
| EFloat (f : fl)
| EStr (s : bstr)                            (* the denoted bytes, after unescaping *)
| EList (items : list expr)
| EMap (items : list (bstr * expr))          (* keys are string literals *)
| EGlobal (name : bstr)                      (* compile-time global *)
| ERef (key : bstr) (accs : list access)     (* $key followed by accesses *)
| EIj (accs : list access)                   (* $ij followed by accesses *)
| ECall (f : fn) (args : list expr)
| ENeg (a : expr)
| ENot (a : expr)
| EBin (op : bop) (a c : expr)
| EElvis (a c : expr)                        (* a ?: c *)
| ETern (c a d : expr)                       (* c ? a : d *)
with access :=
| AKey (nullsafe : bool) (k : bstr)          (* .k   ?.k *)
| AIdx (nullsafe : bool) (i : Z)             (* .N   ?.N *)
| AExpr (nullsafe : bool) (e : expr).        (* [e]  ?[e] *)

Definition acc_nullsafe (a : access) : bool :=
  match a with AKey ns _ | AIdx ns _ | AExpr ns _ => ns end.

(* ------------------------------------------------------------------ *)
(* results: a value and the next unused identity *)

Definition e_novalue := Eval vm_compute in b "the language gives this expression no value".

Definition R (A : Type) := N -> outcome (A * N).
Definition rret {A} (x : A) : R A := fun n => Ok (x, n).
Definition rerr {A} : R A := fun _ => Err e_novalue.
Definition rbind {A B} (m : R A) (f : A -> R B) : R B :=
  fun n => match m n with
           | Ok (x, n') => f x n'
           | Err e => Err e
           | Crash e => Crash e
           | Diverge => Diverge
           | OutOfFuel => OutOfFuel
           | OutOfModel => OutOfModel
           end.
Definition rlift {A} (o : outcome A) : R A :=
  fun n => match o with
           | Ok x => Ok (x, n)
           | Err e => Err e
           | Crash e => Crash e
           | Diverge => Diverge
           | OutOfFuel => OutOfFuel
           | OutOfModel => OutOfModel
           end.
Notation "x <~ e ;; f" := (rbind e (fun x => f)) (at level 61, e at next level, right associativity).

Definition no_value {A} : outcome A := Err e_novalue.

(* fresh identities *)
Definition new_list_literal (l : list value) : R value :=
  fun n => match l with [] => Ok (VList 1 [], n) | _ => Ok (VList n l, n + 1) end.
Definition new_list_result (l : list value) : R value :=
  fun n => match l with [] => Ok (VList 0 [], n) | _ => Ok (VList n l, n + 1) end.
Definition new_map (m : list (bstr * value)) : R value := fun n => Ok (VMap n m, n + 1).

(* ------------------------------------------------------------------ *)
(* numbers *)

Definition int_result (z : Z) : outcome value := if in_int64 z then Ok (VInt z) else OutOfModel.
Definition float_result (o : option fl) : outcome value :=
  match o with Some f => Ok (VFloat f) | None => OutOfModel end.
(* the number a value denotes, as a float; not a number: no value *)
Definition number_of (v : value) : outcome fl :=
  match v with
  | VInt z => match fl_of_int z with Some f => Ok f | None => OutOfModel end
  | VFloat f => Ok f
  | _ => no_value
  end.

Definition is_undef (v : value) : bool := match v with VUndef => true | _ => false end.
Definition null_or_undef (v : value) : bool := match v with VNull | VUndef => true | _ => false end.

(* ------------------------------------------------------------------ *)
(* the strict binary operators on two defined operand values *)

Definition sem_add (a c : value) : outcome value :=
  match a, c with
  | VInt x, VInt y => int_result (x + y)
  | VStr _, _ | _, VStr _ => s1 <- value_string a ;; s2 <- value_string c ;; Ok (VStr (s1 ++ s2))
  | _, _ => x <- number_of a ;; y <- number_of c ;; float_result (fl_add_r x y)
  end.

Definition sem_int_or_float (fi : Z -> Z -> Z) (ff : fl -> fl -> option fl) (a c : value) : outcome value :=
  match a, c with
  | VInt x, VInt y => int_result (fi x y)
  | _, _ => x <- number_of a ;; y <- number_of c ;; float_result (ff x y)
  end.

Definition sem_div (a c : value) : outcome value :=
  x <- number_of a ;; y <- number_of c ;; float_result (fl_div_r x y).

(* remainder of integers only, sign of the dividend; no value for a zero divisor *)
Definition sem_mod (a c : value) : outcome value :=
  match a, c with
  | VInt x, VInt y => if (y =? 0)%Z then no_value else int_result (Z.rem x y)
  | _, _ => no_value
  end.

(* ordering: numbers only; an unordered pair (NaN) satisfies none of the four *)
Definition sem_order (op : bop) (a c : value) : outcome value :=
  x <- number_of a ;; y <- number_of c ;;
  Ok (VBool (match op, fl_cmp x y with
             | BLt, Some Lt => true
             | BLe, Some Lt | BLe, Some Eq => true
             | BGt, Some Gt => true
             | BGe, Some Gt | BGe, Some Eq => true
             | _, _ => false
             end)).

Definition sem_strict (op : bop) (a c : value) : outcome value :=
  match op with
  | BAdd => sem_add a c
  | BSub => sem_int_or_float Z.sub fl_sub_r a c
  | BMul => sem_int_or_float Z.mul fl_mul_r a c
  | BDiv => sem_div a c
  | BMod => sem_mod a c
  | BLt | BGt | BLe | BGe => sem_order op a c
  | _ => no_value
  end.

Definition sem_neg (v : value) : outcome value :=
  match v with
  | VInt z => int_result (- z)
  | VFloat f => Ok (VFloat (fl_neg f))
  | _ => no_value
  end.

(* ------------------------------------------------------------------ *)
(* data references: one access step on an evaluated index *)

Inductive index := IKey (k : bstr) | IPos (i : Z).

(* a bracket index: an integer selects by position, anything else by its string image *)
Definition index_of (v : value) : outcome index :=
  match v with
  | VInt i => Ok (IPos i)
  | _ => s <- value_string v ;; Ok (IKey s)
  end.

Definition element (l : list value) (i : Z) : value :=
  if (0 <=? i)%Z && (i <? Z.of_nat (length l))%Z then nth (Z.to_nat i) l VUndef else VUndef.
Definition entry (m : list (bstr * value)) (k : bstr) : value :=
  match assoc_s k m with Some v => v | None => VUndef end.

Inductive step := Stop (v : value) | Go (v : value).
Definition access_step (ref : value) (nullsafe : bool) (ix : index) : outcome step :=
  match ref with
  | VNull | VUndef => if nullsafe then Ok (Stop VNull) else no_value
  | VList _ l => match ix with IPos i => Ok (Go (element l i)) | IKey _ => no_value end
  | VMap _ m => match ix with IKey k => Ok (Go (entry m k)) | IPos _ => no_value end
  | _ => no_value
  end.

(* ------------------------------------------------------------------ *)
(* built-in functions, on evaluated arguments *)

Definition fn_name : fn -> bstr := Eval vm_compute in
  (fun f => match f with
  | FIsNonnull => b "isNonnull"
  | FLength => b "length"
  | FKeys => b "keys"
  | FAugmentMap => b "augmentMap"
  | FRound => b "round"
  | FFloor => b "floor"
  | FCeiling => b "ceiling"
  | FMin => b "min"
  | FMax => b "max"
  | FRandomInt => b "randomInt"
  | FStrContains => b "strContains"
  | FRange => b "range"
  | FHasData => b "hasData"
  end).

Definition fn_arities (f : fn) : list nat :=
  match f with
  | FHasData => [0]
  | FAugmentMap | FMin | FMax | FStrContains => [2]
  | FRound => [1; 2]
  | FRange => [1; 2; 3]
  | _ => [1]
  end%nat.

(* the Spec's inventory of functions, and the function a name denotes (None: the Spec knows no such
   function; C01_function_table_complete shows that the table regenerated from soyhtml.Funcs holds
   no such name) *)
Definition all_fns : list fn :=
  [FIsNonnull; FLength; FKeys; FAugmentMap; FRound; FFloor; FCeiling; FMin; FMax; FRandomInt; FStrContains; FRange; FHasData].
Definition fn_of_name (name : bstr) : option fn := find (fun f => bstr_eqb name (fn_name f)) all_fns.

Inductive fresult := RValue (v : value) | RList (l : list value) | RMap (m : list (bstr * value)).

(* smaller / larger of two finite floats (equal ones: the first); NaN and infinities are outside the model *)
Definition fl_finite (x : fl) : bool := match x with FZero _ | FFin _ _ => true | _ => false end.
Definition fl_smaller (x y : fl) : option fl :=
  if fl_finite x && fl_finite y then
    match fl_cmp x y with
    | Some Lt => Some x
    | Some Gt => Some y
    | _ => Some (if fl_is_zero x && fl_isneg y then y else x)          (* of +0 and -0: -0 *)
    end
  else None.
Definition fl_larger (x y : fl) : option fl :=
  if fl_finite x && fl_finite y then
    match fl_cmp x y with
    | Some Lt => Some y
    | Some Gt => Some x
    | _ => Some (if fl_is_zero x && negb (fl_isneg y) then y else x)   (* of -0 and +0: +0 *)
    end
  else None.

(* nearest integer, ties away from zero (the documentation does not fix the ties) *)
Definition half_up : fl := FFin 1 (-1).
Definition round_half_away (x : fl) : outcome value :=
  if fl_isneg x && negb (fl_is_zero x) then
    match fl_sub x half_up with
    | Some y => match fl_ceil_Z y with Some z => int_result z | None => OutOfModel end
    | None => OutOfModel
    end
  else
    match fl_add x half_up with
    | Some y => match fl_floor_Z y with Some z => int_result z | None => OutOfModel end
    | None => OutOfModel
    end.

(* t occurs in s *)
Fixpoint suffixes (s : bstr) : list bstr :=
  match s with [] => [[]] | _ :: r => s :: suffixes r end.
Definition contains (s t : bstr) : bool := existsb (is_prefix t) (suffixes s).

(* i, i+step, i+2 step, ... as long as below limit: ceil((limit - i) / step) elements (step > 0) *)
Definition range_count (i limit step : Z) : nat :=
  if (i <? limit)%Z then Z.to_nat ((limit - i + step - 1) / step) else 0%nat.
Definition range_values (i limit step : Z) : list value :=
  map (fun k => VInt (i + Z.of_nat k * step)%Z) (seq 0 (range_count i limit step)).

Definition merge_maps (m1 m2 : list (bstr * value)) : list (bstr * value) :=
  fold_left (fun acc kv => map_set acc (fst kv) (snd kv)) m2 m1.

Definition apply_fn_spec (f : fn) (args : list value) : outcome fresult :=
  match f, args with
  | FIsNonnull, [v] => Ok (RValue (VBool (negb (null_or_undef v))))
  | FLength, [VList _ l] => Ok (RValue (VInt (Z.of_nat (length l))))
  | FKeys, [VMap _ m] => Ok (RList (map (fun kv => VStr (fst kv)) m))       (* maps are kept sorted by key *)
  | FAugmentMap, [VMap _ m1; VMap _ m2] => Ok (RMap (merge_maps m1 m2))
  | FRound, [v] => x <- number_of v ;; r <- round_half_away x ;; Ok (RValue r)
  | FRound, [v; VInt d] =>
      x <- number_of v ;;
      if (d =? 0)%Z then r <- round_half_away x ;; Ok (RValue r)
      else OutOfModel                                                        (* decimal rounding is not exact *)
  | FFloor, [VInt z] => Ok (RValue (VInt z))
  | FFloor, [VFloat x] => match fl_floor_Z x with Some z => r <- int_result z ;; Ok (RValue r) | None => OutOfModel end
  | FCeiling, [VInt z] => Ok (RValue (VInt z))
  | FCeiling, [VFloat x] => match fl_ceil_Z x with Some z => r <- int_result z ;; Ok (RValue r) | None => OutOfModel end
  | FMin, [VInt x; VInt y] => Ok (RValue (VInt (Z.min x y)))
  | FMin, [a; c] => x <- number_of a ;; y <- number_of c ;; r <- float_result (fl_smaller x y) ;; Ok (RValue r)
  | FMax, [VInt x; VInt y] => Ok (RValue (VInt (Z.max x y)))
  | FMax, [a; c] => x <- number_of a ;; y <- number_of c ;; r <- float_result (fl_larger x y) ;; Ok (RValue r)
  | FRandomInt, [VInt n] => if (n <=? 0)%Z then no_value else OutOfModel      (* some integer in [0, n): checked by range only *)
  | FStrContains, [VStr s; VStr t] => Ok (RValue (VBool (contains s t)))
  | FRange, [VInt limit] => Ok (RList (range_values 0 limit 1))
  | FRange, [VInt i; VInt limit] => Ok (RList (range_values i limit 1))
  | FRange, [VInt i; VInt limit; VInt step] =>
      if (step <=? 0)%Z then no_value else Ok (RList (range_values i limit step))
  | FHasData, _ => Ok (RValue (VBool true))                                   (* the arity is checked by the caller *)
  | _, _ => no_value
  end.

(* ------------------------------------------------------------------ *)
(* the evaluator *)

Section Eval.
Variable G : list (bstr * value).         (* compile-time globals *)
Variable env : list (bstr * value).       (* data bindings visible at the expression, innermost first *)
Variable ij : option value.               (* injected data, when supplied *)

Definition lookup (k : bstr) : value :=
  match assoc_s k env with Some v => v | None => VUndef end.

(* helpers over the recursive evaluator [ev] *)
Section Open.
Variable ev : expr -> R value.

Definition ev_defined (e : expr) : R value :=
  v <~ ev e ;; if is_undef v then rerr else rret v.

Fixpoint ev_items (es : list expr) : R (list value) :=
  match es with
  | [] => rret []
  | e :: r => v <~ ev e ;; vs <~ ev_items r ;; rret (v :: vs)
  end.

(* keys of a literal are distinct (wf); each entry goes to its sorted place *)
Fixpoint ev_entries (kvs : list (bstr * expr)) : R (list (bstr * value)) :=
  match kvs with
  | [] => rret []
  | (k, e) :: r => v <~ ev e ;; m <~ ev_entries r ;; rret (map_set m k v)
  end.

(* accesses left to right; a bracket index is evaluated before it is applied;
   a null-safe access on null/undefined makes the whole reference null *)
Fixpoint ev_accesses (accs : list access) (ref : value) : R value :=
  match accs with
  | [] => rret ref
  | a :: rest =>
      ix <~ match a with
            | AKey _ k => rret (IKey k)
            | AIdx _ i => rret (IPos i)
            | AExpr _ e => v <~ ev e ;; rlift (index_of v)
            end ;;
      s <~ rlift (access_step ref (acc_nullsafe a) ix) ;;
      match s with
      | Stop v => rret v
      | Go v => ev_accesses rest v
      end
  end.
End Open.

Fixpoint eval_spec (e : expr) {struct e} : R value :=
  match e with
  | ENull => rret VNull
  | EBool x => rret (VBool x)
  | EInt z => rret (VInt z)
  | EFloat f => rret (VFloat f)
  | EStr s => rret (VStr s)
  | EList es => vs <~ ev_items eval_spec es ;; new_list_literal vs
  | EMap kvs => m <~ ev_entries eval_spec kvs ;; new_map m
  | EGlobal name => match assoc_s name G with Some v => rret v | None => rerr end
  | ERef key accs => ev_accesses eval_spec accs (lookup key)
  | EIj accs => match ij with Some v => ev_accesses eval_spec accs v | None => rerr end
  | ECall f args =>
      if existsb (Nat.eqb (length args)) (fn_arities f) then
        vs <~ ev_items eval_spec args ;;
        r <~ rlift (apply_fn_spec f vs) ;;
        match r with
        | RValue v => rret v
        | RList l => new_list_result l
        | RMap m => new_map m
        end
      else rerr
  | ENeg a => v <~ ev_defined eval_spec a ;; rlift (sem_neg v)
  | ENot a => v <~ eval_spec a ;; rret (VBool (negb (truthy v)))
  | EBin op a c =>
      match op with
      | BEq => x <~ eval_spec a ;; y <~ eval_spec c ;; rret (VBool (equals x y))
      | BNe => x <~ eval_spec a ;; y <~ eval_spec c ;; rret (VBool (negb (equals x y)))
      | BAnd => x <~ eval_spec a ;;
                if truthy x then (y <~ eval_spec c ;; rret (VBool (truthy y))) else rret (VBool false)
      | BOr => x <~ eval_spec a ;;
               if truthy x then rret (VBool true) else (y <~ eval_spec c ;; rret (VBool (truthy y)))
      | _ => x <~ ev_defined eval_spec a ;; y <~ ev_defined eval_spec c ;; rlift (sem_strict op x y)
      end
  | EElvis a c => x <~ eval_spec a ;; if null_or_undef x then eval_spec c else rret x
  | ETern c a d => x <~ eval_spec c ;; if truthy x then eval_spec a else eval_spec d
  end.

(* what a print of the expression writes, before directives and escaping (C03):
   an undefined value is not printable *)
Definition print_spec (e : expr) (n : N) : outcome bstr :=
  match eval_spec e n with
  | Ok (v, _) => if is_undef v then no_value else value_string v
  | Err m => Err m
  | Crash m => Crash m
  | Diverge => Diverge
  | OutOfFuel => OutOfFuel
  | OutOfModel => OutOfModel
  end.
End Eval.
