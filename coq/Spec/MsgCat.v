(* What C11 demands of rendering with a message catalogue, stated without
   reference to how the code finds placeholders: a translation is a sequence of
   text segments and of occurrences of the source message's placeholders, and
   rendering it writes every text segment and renders every placeholder where
   the translation puts it. *)
From Soy Require Import Model.Bytes Model.Outcome Model.Values Model.Ast Model.MsgId Model.Interp Model.MsgParts.
Open Scope N_scope.

(* one item of a translation: text, or a placeholder node of the source message
   (position, name, the node it stands for) *)
Inductive titem :=
| TText (t : bstr)
| TPh (p : N) (name : bstr) (body : node).

(* how a translator writes it *)
Definition item_part (i : titem) : part :=
  match i with TText t => PText t | TPh _ n _ => PPh n end.
Definition msgstr_of (tr : list titem) : bstr := print_parts (map item_part tr).

(* what rendering it must do, for a walker [w] *)
Fixpoint run_items (w : node -> M value) (tr : list titem) : M unit :=
  match tr with
  | [] => ret tt
  | TText t :: r => _ <-- write t ;;; run_items w r
  | TPh _ _ body :: r => _ <-- w body ;;; run_items w r
  end.

(* the source message's own items, in source order *)
Definition item_of_node (n : node) : list titem :=
  match n with
  | NRawText _ t => [TText t]
  | NMsgPlaceholder p name body => [TPh p name body]
  | _ => []
  end.
Definition source_items (body : list node) : list titem := flat_map item_of_node body.

(* adjacent text segments read as one, empty ones vanish: the normal form that
   Parts produces.  [raw] is the text collected since the last placeholder. *)
Fixpoint merge_go (l : list part) (raw : bstr) : list part :=
  match l with
  | [] => flush raw []
  | PText t :: r => merge_go r (raw ++ t)
  | PPh n :: r => flush raw (PPh n :: merge_go r [])
  end.
Definition merge_texts (l : list part) : list part := merge_go l [].

Fixpoint merge_items_go (l : list titem) (raw : bstr) : list titem :=
  match l with
  | [] => match raw with [] => [] | _ => [TText raw] end
  | TText t :: r => merge_items_go r (raw ++ t)
  | TPh p n b :: r => match raw with [] => TPh p n b :: merge_items_go r [] | _ => TText raw :: TPh p n b :: merge_items_go r [] end
  end.
Definition merge_items (l : list titem) : list titem := merge_items_go l [].

(* a placeholder name that the PO representation can carry: [A-Z0-9_]+ *)
Definition name_ok (n : bstr) : Prop := n <> [] /\ forallb ph_char n = true.

(* some '{' of the text starts a {[A-Z0-9_]+} token *)
Fixpoint has_match (t : bstr) : bool :=
  match t with
  | [] => false
  | c :: r => ((c =? 123) && match scan_name false r with Some _ => true | None => false end) || has_match r
  end.

Definition no_brace (t : bstr) : Prop := forall c, In c t -> c <> 123 /\ c <> 125.

(* a part list in the normal form whose texts do not look like placeholders *)
Fixpoint parts_clean (l : list part) : Prop :=
  match l with
  | [] => True
  | PText t :: r => t <> [] /\ has_match t = false /\ match r with PText _ :: _ => False | _ => True end /\ parts_clean r
  | PPh n :: r => name_ok n /\ parts_clean r
  end.

(* a node with every position erased: what is left is the code *)
Fixpoint pstrip (n : node) : node :=
  match n with
  | NNull _ => NNull 0
  | NBool _ x => NBool 0 x
  | NInt _ z => NInt 0 z
  | NFloat _ f => NFloat 0 f
  | NString _ q v => NString 0 q v
  | NGlobal _ name v => NGlobal 0 name v
  | NFunc _ name args => NFunc 0 name (map pstrip args)
  | NListLit _ items => NListLit 0 (map pstrip items)
  | NMapLit _ items => NMapLit 0 (map (fun kv => (fst kv, pstrip (snd kv))) items)
  | NDataRef _ key acc => NDataRef 0 key (map pstrip acc)
  | NAccIndex _ ns i => NAccIndex 0 ns i
  | NAccKey _ ns k => NAccKey 0 ns k
  | NAccExpr _ ns a => NAccExpr 0 ns (pstrip a)
  | NNot _ a => NNot 0 (pstrip a)
  | NNeg _ a => NNeg 0 (pstrip a)
  | NBin op _ a1 a2 => NBin op 0 (pstrip a1) (pstrip a2)
  | NTern _ c x y => NTern 0 (pstrip c) (pstrip x) (pstrip y)
  | NList _ nodes => NList 0 (map pstrip nodes)
  | NRawText _ t => NRawText 0 t
  | NPrint _ arg dirs => NPrint 0 (pstrip arg) (map pstrip dirs)
  | NDirective _ name args => NDirective 0 name (map pstrip args)
  | NCss _ e suffix => NCss 0 (option_map pstrip e) suffix
  | NLog _ body => NLog 0 (pstrip body)
  | NDebugger _ => NDebugger 0
  | NIf _ conds => NIf 0 (map pstrip conds)
  | NIfCond _ cond body => NIfCond 0 (option_map pstrip cond) (pstrip body)
  | NFor _ var lst body ifempty => NFor 0 var (pstrip lst) (pstrip body) (option_map pstrip ifempty)
  | NSwitch _ v cases => NSwitch 0 (pstrip v) (map pstrip cases)
  | NSwitchCase _ values body => NSwitchCase 0 (map pstrip values) (pstrip body)
  | NCall _ name alldata dat params => NCall 0 name alldata (option_map pstrip dat) (map pstrip params)
  | NParamValue _ k v => NParamValue 0 k (pstrip v)
  | NParamContent _ k c => NParamContent 0 k (pstrip c)
  | NLetValue _ name e => NLetValue 0 name (pstrip e)
  | NLetContent _ name body => NLetContent 0 name (pstrip body)
  | NMsg _ id mn ds body => NMsg 0 id mn ds (map pstrip body)
  | NMsgPlaceholder _ name body => NMsgPlaceholder 0 name (pstrip body)
  | NMsgHtmlTag _ t => NMsgHtmlTag 0 t
  | NMsgPlural _ vn v cases dflt => NMsgPlural 0 vn (pstrip v) (map pstrip cases) (map pstrip dflt)
  | NMsgPluralCase _ v body => NMsgPluralCase 0 v (map pstrip body)
  | NTemplate _ name body ae pv => NTemplate 0 name (pstrip body) ae pv
  | NNamespace _ name ae => NNamespace 0 name ae
  | NSoyDoc _ params => NSoyDoc 0 (map pstrip params)
  | NSoyDocParam _ name opt => NSoyDocParam 0 name opt
  | NHeaderParam _ opt name typ dflt => NHeaderParam 0 opt name typ (option_map pstrip dflt)
  | NLiteral _ body => NLiteral 0 body
  | NIdent _ i => NIdent 0 i
  | NOther _ what => NOther 0 what
  end.

(* placeholders carrying one name stand for one piece of code: the same node up
   to positions (two occurrences of {$name} are two nodes at two positions) *)
Definition coherent (phs : list node) : Prop :=
  forall p1 p2 n b1 b2, In (NMsgPlaceholder p1 n b1) phs -> In (NMsgPlaceholder p2 n b2) phs -> pstrip b1 = pstrip b2.

(* the first placeholder of a list with a given name *)
Fixpoint find_ph (l : list node) (name : bstr) : option node :=
  match l with
  | [] => None
  | NMsgPlaceholder _ nm body :: r => if bstr_eqb nm name then Some body else find_ph r name
  | _ :: r => find_ph r name
  end.

(* every item of the translation is text or one of the given placeholder nodes *)
Definition items_from (phs : list node) (tr : list titem) : Prop :=
  forall p n b, In (TPh p n b) tr -> In (NMsgPlaceholder p n b) phs.

(* the node a name is resolved to at render time: the first placeholder carrying it *)
Definition resolve (phs : list node) (i : titem) : titem :=
  match i with
  | TText t => TText t
  | TPh p n b => match find_ph phs n with Some b' => TPh p n b' | None => TPh p n b end
  end.

(* every placeholder name of the translation is the name of a placeholder *)
Definition items_named (phs : list node) (tr : list titem) : Prop :=
  forall p n b, In (TPh p n b) tr -> exists p' b', In (NMsgPlaceholder p' n b') phs.

(* item lists that say the same: same texts, same names, same code at every placeholder *)
Definition same_items (tr1 tr2 : list titem) : Prop :=
  Forall2 (fun i j => match i, j with
                      | TText s, TText t => s = t
                      | TPh _ m b1, TPh _ n b2 => m = n /\ pstrip b1 = pstrip b2
                      | _, _ => False
                      end) tr1 tr2.
