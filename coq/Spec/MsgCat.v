(* What C11 demands of rendering with a message catalogue, stated without
   reference to how the code finds placeholders: a translation is a sequence of
   text segments and of occurrences of the source message's placeholders, and
   rendering it writes every text segment and renders every placeholder where
   the translation puts it. *)
From Soy Require Import Model.Bytes Model.Outcome Model.Values Model.Ast Model.MsgId Model.Interp Model.MsgParts.
Open Scope N_scope.

(* one item of a translation: text, or a placeholder node of the source message
   (position, name, the node it stands for) *)
Inductive titem :=
| TText (t : bstr)
| TPh (p : N) (name : bstr) (body : node).

(* how a translator writes it *)
Definition item_part (i : titem) : part :=
  match i with TText t => PText t | TPh _ n _ => PPh n end.
Definition msgstr_of (tr : list titem) : bstr := print_parts (map item_part tr).

(* what rendering it must do, for a walker [w] *)
Fixpoint run_items (w : node -> M value) (tr : list titem) : M unit :=
  match tr with
  | [] => ret tt
  | TText t :: r => _ <-- write t ;;; run_items w r
  | TPh _ _ body :: r => _ <-- w body ;;; run_items w r
  end.

(* the source message's own items, in source order *)
Definition item_of_node (n : node) : list titem :=
  match n with
  | NRawText _ t => [TText t]
  | NMsgPlaceholder p name body => [TPh p name body]
  | _ => []
  end.
Definition source_items (body : list node) : list titem := flat_map item_of_node body.

(* adjacent text segments read as one, empty ones vanish: the normal form that
   Parts produces.  [raw] is the text collected since the last placeholder. *)
Fixpoint merge_go (l : list part) (raw : bstr) : list part :=
  match l with
  | [] => flush raw []
  | PText t :: r => merge_go r (raw ++ t)
  | PPh n :: r => flush raw (PPh n :: merge_go r [])
  end.
Definition merge_texts (l : list part) : list part := merge_go l [].

Fixpoint merge_items_go (l : list titem) (raw : bstr) : list titem :=
  match l with
  | [] => match raw with [] => [] | _ => [TText raw] end
  | TText t :: r => merge_items_go r (raw ++ t)
  | TPh p n b :: r => match raw with [] => TPh p n b :: merge_items_go r [] | _ => TText raw :: TPh p n b :: merge_items_go r [] end
  end.
Definition merge_items (l : list titem) : list titem := merge_items_go l [].

(* a placeholder name that the PO representation can carry: [A-Z0-9_]+ *)
Definition name_ok (n : bstr) : Prop := n <> [] /\ forallb ph_char n = true.

(* some '{' of the text starts a {[A-Z0-9_]+} token *)
Fixpoint has_match (t : bstr) : bool :=
  match t with
  | [] => false
  | c :: r => ((c =? 123) && match scan_name false r with Some _ => true | None => false end) || has_match r
  end.

Definition no_brace (t : bstr) : Prop := forall c, In c t -> c <> 123 /\ c <> 125.

(* a part list in the normal form whose texts do not look like placeholders *)
Fixpoint parts_clean (l : list part) : Prop :=
  match l with
  | [] => True
  | PText t :: r => t <> [] /\ has_match t = false /\ match r with PText _ :: _ => False | _ => True end /\ parts_clean r
  | PPh n :: r => name_ok n /\ parts_clean r
  end.

(* placeholders carrying one name stand for one node *)
Definition coherent (phs : list node) : Prop :=
  forall p1 p2 n b1 b2, In (NMsgPlaceholder p1 n b1) phs -> In (NMsgPlaceholder p2 n b2) phs -> b1 = b2.

(* the first placeholder of a list with a given name *)
Fixpoint find_ph (l : list node) (name : bstr) : option node :=
  match l with
  | [] => None
  | NMsgPlaceholder _ nm body :: r => if bstr_eqb nm name then Some body else find_ph r name
  | _ :: r => find_ph r name
  end.

(* every item of the translation is text or one of the given placeholder nodes *)
Definition items_from (phs : list node) (tr : list titem) : Prop :=
  forall p n b, In (TPh p n b) tr -> In (NMsgPlaceholder p n b) phs.
