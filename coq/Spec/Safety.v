(* C06: what the property demands, and the decidable well-formedness of a
   compiled registry under which it is proved.  Definitions only. *)
From Soy Require Import Model.Bytes Model.Num Model.Values Model.Outcome Model.Ast.
Open Scope N_scope.

(* "returns normally with a result or an error value": the outcome is not a
   panic that reaches the caller and not a loop that never exits.  [OutOfFuel]
   (the model's recursion budget) and [OutOfModel] (floats outside the dyadic
   domain, randomInt, the two unmodelled directives) are not escapes; the
   theorems say separately when they can occur. *)
Definition no_escape {A} (o : outcome A) : Prop :=
  match o with Crash _ | Diverge => False | _ => True end.
Definition no_escapeb {A} (o : outcome A) : bool :=
  match o with Crash _ | Diverge => false | _ => true end.

(* ------------------------------------------------------------------ *)
(* a predicate on every node of a tree (the nodes the walker can reach) *)

Definition opt_all (f : node -> bool) (o : option node) : bool :=
  match o with Some x => f x | None => true end.

Fixpoint node_all (P : node -> bool) (n : node) {struct n} : bool :=
  P n &&
  match n with
  | NFunc _ _ args => forallb (node_all P) args
  | NListLit _ items => forallb (node_all P) items
  | NMapLit _ items => forallb (fun kv => node_all P (snd kv)) items
  | NDataRef _ _ acc => forallb (node_all P) acc
  | NAccExpr _ _ e => node_all P e
  | NNot _ a | NNeg _ a => node_all P a
  | NBin _ _ a1 a2 => node_all P a1 && node_all P a2
  | NTern _ a1 a2 a3 => node_all P a1 && node_all P a2 && node_all P a3
  | NList _ ns => forallb (node_all P) ns
  | NPrint _ arg dirs => node_all P arg && forallb (node_all P) dirs
  | NDirective _ _ args => forallb (node_all P) args
  | NCss _ e _ => match e with Some x => node_all P x | None => true end
  | NLog _ body => node_all P body
  | NIf _ conds => forallb (node_all P) conds
  | NIfCond _ c body => match c with Some x => node_all P x | None => true end && node_all P body
  | NFor _ _ lst body ie =>
      node_all P lst && node_all P body && match ie with Some x => node_all P x | None => true end
  | NSwitch _ v cases => node_all P v && forallb (node_all P) cases
  | NSwitchCase _ vs body => forallb (node_all P) vs && node_all P body
  | NCall _ _ _ dat params =>
      match dat with Some x => node_all P x | None => true end && forallb (node_all P) params
  | NParamValue _ _ v => node_all P v
  | NParamContent _ _ c => node_all P c
  | NLetValue _ _ e => node_all P e
  | NLetContent _ _ body => node_all P body
  | NMsg _ _ _ _ body => forallb (node_all P) body
  | NMsgPlaceholder _ _ body => node_all P body
  | NMsgPlural _ _ v cases dflt => node_all P v && forallb (node_all P) cases && forallb (node_all P) dflt
  | NMsgPluralCase _ _ body => forallb (node_all P) body
  | NTemplate _ _ body _ _ => node_all P body
  | _ => true
  end.

(* nesting depth of a tree: the recursion budget one template needs *)
Fixpoint tree_height (n : node) {struct n} : nat :=
  let hmax := fold_right (fun x acc => Nat.max (tree_height x) acc) 0%nat in
  let hopt := fun o : option node => match o with Some x => tree_height x | None => 0%nat end in
  S match n with
    | NFunc _ _ args => hmax args
    | NListLit _ items => hmax items
    | NMapLit _ items => fold_right (fun kv acc => Nat.max (tree_height (snd kv)) acc) 0%nat items
    | NDataRef _ _ acc => hmax acc
    | NAccExpr _ _ e => tree_height e
    | NNot _ a | NNeg _ a => tree_height a
    | NBin _ _ a1 a2 => Nat.max (tree_height a1) (tree_height a2)
    | NTern _ a1 a2 a3 => Nat.max (tree_height a1) (Nat.max (tree_height a2) (tree_height a3))
    | NList _ ns => hmax ns
    | NPrint _ arg dirs => Nat.max (tree_height arg) (hmax dirs)
    | NDirective _ _ args => hmax args
    | NCss _ e _ => match e with Some x => tree_height x | None => 0%nat end
    | NLog _ body => tree_height body
    | NIf _ conds => hmax conds
    | NIfCond _ c body => Nat.max (match c with Some x => tree_height x | None => 0%nat end) (tree_height body)
    | NFor _ _ lst body ie =>
        Nat.max (tree_height lst) (Nat.max (tree_height body) (match ie with Some x => tree_height x | None => 0%nat end))
    | NSwitch _ v cases => Nat.max (tree_height v) (hmax cases)
    | NSwitchCase _ vs body => Nat.max (hmax vs) (tree_height body)
    | NCall _ _ _ dat params => Nat.max (match dat with Some x => tree_height x | None => 0%nat end) (hmax params)
    | NParamValue _ _ v => tree_height v
    | NParamContent _ _ c => tree_height c
    | NLetValue _ _ e => tree_height e
    | NLetContent _ _ body => tree_height body
    | NMsg _ _ _ _ body => hmax body
    | NMsgPlaceholder _ _ body => tree_height body
    | NMsgPlural _ _ v cases dflt => Nat.max (tree_height v) (Nat.max (hmax cases) (hmax dflt))
    | NMsgPluralCase _ _ body => hmax body
    | NTemplate _ _ body _ _ => tree_height body
    | _ => 0%nat
    end.
Definition hmax (l : list node) : nat := fold_right (fun x acc => Nat.max (tree_height x) acc) 0%nat l.

(* ------------------------------------------------------------------ *)
(* what compilation guarantees about a registry (after the repairs: Registry.Add
   rejects a template name that is already registered; the parser numbers every
   node inside the text of its file) *)

Definition pos_le (B : N) (n : node) : bool := pos_of n <=? B.

(* the positions of a template's nodes lie inside the source recorded under its name *)
Definition template_pos_ok (reg : registry) (t : template) : bool :=
  match assoc_s (t_name t) (r_sources reg) with
  | Some src => node_all (pos_le (N.of_nat (length src))) (t_node t)
  | None => true
  end.
Definition reg_pos_ok (reg : registry) : bool := forallb (template_pos_ok reg) (r_templates reg).

Fixpoint names_unique (l : list bstr) : bool :=
  match l with
  | [] => true
  | x :: r => negb (existsb (bstr_eqb x) r) && names_unique r
  end.

(* every template has its source and its file name recorded *)
Definition template_recorded (reg : registry) (t : template) : bool :=
  match assoc_s (t_name t) (r_sources reg), assoc_s (t_name t) (r_files reg) with
  | Some _, Some _ => true
  | _, _ => false
  end.

(* [reg_ok] assumes NOTHING about file names: the source text is recorded per TEMPLATE name
   (sourceByTemplateName), so two inputs may carry the same file name -- Bundle.AddTemplateString's
   name is optional and the empty name twice is usual -- without one input's text standing in for the
   other's.  A registry that kept the text per file name would need distinct file names in addition;
   the correspondence renders bundles whose inputs share a name to notice such a change. *)
Definition reg_ok (reg : registry) : bool :=
  names_unique (map t_name (r_templates reg))
  && forallb (template_recorded reg) (r_templates reg)
  && reg_pos_ok reg.

(* ------------------------------------------------------------------ *)
(* bundles whose call graph is acyclic: [rank] maps template names to numbers
   that strictly decrease along every {call}; for those a recursion budget
   computed from the syntax alone suffices *)

Definition calls_below (rank : bstr -> nat) (r : nat) (n : node) : bool :=
  match n with NCall _ name _ _ _ => Nat.ltb (rank name) r | _ => true end.

Definition template_ranked (rank : bstr -> nat) (t : template) : bool :=
  node_all (calls_below rank (rank (t_name t))) (t_node t).
Definition reg_ranked (rank : bstr -> nat) (reg : registry) : bool :=
  forallb (template_ranked rank) (r_templates reg).
Definition reg_height (reg : registry) : nat :=
  fold_right (fun t acc => Nat.max (tree_height (t_node t)) acc) 0%nat (r_templates reg).

(* ------------------------------------------------------------------ *)
(* recursive bundles: "recursion restricted to data-bounded depth".
   [run_depth_le cf d n st]: the run of the walker on [n] from [st] never nests
   {call}s more than [d] deep below its start -- stated with the capped walker of
   Model/InterpSafety.v: under SOME budget the walker that refuses call depth
   d+1 finishes with an answer that is neither "budget exhausted" nor "cap hit".
   (The choice of the budget does not matter: Proofs/SafetyDepth.v
   walk_cap_fuel_monotone.)  The quantitative statement of C06 is then:
   run_depth_le cf d n st  ->  fuel >= reg_height * (d + 1)  ->  walk answers. *)
From Soy Require Import Model.Escape Model.Directives Model.Print Model.Interp Model.InterpSafety.

Definition is_answer {A} (o : outcome A) : Prop :=
  o <> OutOfFuel /\ o <> Err e_capped.

Definition run_depth_le (cf : cfg) (d : nat) (n : node) (st : mstate) : Prop :=
  exists f, is_answer (fst (walk_cap cf d f n st)).
