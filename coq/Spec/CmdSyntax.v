(* Concrete syntax of Soy commands at token level: the extension of C17 from expressions and
   print commands to template bodies.

   [cmd_toks n] is the item sequence that the text ast/node.go's String() prints for the
   command [n] lexes to, for the command forms whose String() prints source syntax that the
   parser accepts again (established on the real code by the C17 harness, section "re-parse
   census"):
       raw text, print, {log}, {debugger}, {let $x: e /}, {let $x}..{/let},
       {if}/{elseif}/{else}, {for $x in e}..{ifempty}..{/for}.
       {switch}/{case a, b}/{default} (the default case is the item "default": what the parser
       accepts; SwitchCaseNode.String of the pinned tree writes "{case }", W1), {call} with data= and
       both parameter forms, {css}, {msg} with text / html-tag runs, placeholders and {plural}.
   NOT covered here (see notes/astprint-reparse.md): templates, soydoc, namespaces, header
   parameters (String() is not the source syntax).

   As in Spec/ExprSyntax.v every item carries the position of the node it gives rise to; the
   items that give rise to no node ("{", "}", "/}", the closing tags, "in", ...) are at
   position 0.  [wf_cmd] / [wf_body] exclude only trees the parser cannot build:
     - a ListNode whose position is not that of the first item read for it;
     - the IfCondNodes of an {if} carry the {if}'s own position; {else} comes last;
     - an (implicit) print command is positioned at the first item of its expression;
     - raw text is non-empty, already in the form the parser's line joining leaves it in
       ([rawtext_run t false false = Ok t]), and not adjacent to other raw text.
   Definitions only. *)
From Soy Require Import Model.Bytes Model.Outcome Model.Num Model.Values Model.Ast Model.Token Model.RawText
  Model.AstPrint Model.AstPrintCmd Model.ExprParser Model.Parser Generated.Tables Spec.ExprSyntax.
Open Scope N_scope.

Definition T_ldelim : tok := tk pit_LeftDelim 0 [123].
Definition T_rdelim_end : tok := tk pit_RightDelimEnd 0 [47; 125].
(* a keyword item: its text is the command name as the scanner sends it ("if", "/if", "css", ...),
   looked up in the scanner's own table (Generated/Tables.v builtin_idents) *)
Definition kw_text (ty : N) : bstr :=
  match find (fun e : bstr * N => snd e =? ty) builtin_idents with Some e => fst e | None => [] end.
Definition kw (ty p : N) : tok := tk ty p (kw_text ty).
Definition close_tag (ty : N) : list tok := [T_ldelim; kw ty 0; T_rdelim].

Definition v_in := Eval vm_compute in b "in".
Definition v_data := Eval vm_compute in b "data".
Definition v_all := Eval vm_compute in b "all".
Definition v_eq := Eval vm_compute in b "=".

(* the text String() prints for an expression ("" where the printer model has none: excluded by wf) *)
Definition printed (e : node) : bstr := match print_node e with Some s => s | None => [] end.
(* the printed text of e does not start with "-".  Demanded of the list expression of {for $x in e}: behind the identifier
   item "in", which ends a term, the scanner reads a leading "-" as the BINARY minus (lexNegative looks at the last item
   sent), so ForNode.String() of {for $x in (-$a)} = "{for $x in -$a}" is not source syntax (W4, notes/astprint-reparse.md) *)
Definition c17_no_lead_minus (e : node) : Prop := match printed e with 45 :: _ => False | _ => True end.
(* "..." as CallNode.String writes an attribute value: the text between two double quotes, NOT escaped *)
Definition dq (s : bstr) : bstr := 34 :: s ++ [34].
(* name="value" inside a tag *)
Definition attr_toks (name value : bstr) : list tok :=
  [tk pit_Ident 0 name; tk pit_Equals 0 v_eq; tk pit_String 0 value].
(* a.b.c after {call: one identifier item and one .ident item per dot *)
Definition call_name_toks (name : bstr) : list tok := global_toks 0 name.
(* the text item of a {css} command *)
Definition css_text (e : option node) (suffix : bstr) : bstr :=
  match e with Some x => printed x ++ [44; 32] ++ suffix | None => suffix end.

(* ---- the children of a {msg}: raw text and html tags (as the parser splits a text item), and
   placeholders of commands.  A maximal run of text and html-tag children is ONE text item; the
   item's position is the end of the text (lexer.emit), the parts are positioned from its start
   (/repo 1453953) ---- *)
Definition v_desc := Eval vm_compute in b "desc".
Definition v_meaning := Eval vm_compute in b "meaning".
Definition text_of (n : node) : bstr :=
  match n with
  | NRawText _ t => t
  | NMsgPlaceholder _ _ (NMsgHtmlTag _ t) => t
  | _ => []
  end.
Definition run_text (run : list node) : bstr := concat_b (map text_of run).
Definition run_pos (run : list node) : N :=
  match run with f :: _ => pos_of f + N.of_nat (length (run_text run)) | [] => 0 end.
Definition run_tok (run : list node) : list tok :=
  match run with [] => [] | _ :: _ => [tk pit_Text (run_pos run) (run_text run)] end.
(* %q of MsgNode.String ("" outside the printer model's domain: excluded by wf) *)
Definition quoted_attr (s : bstr) : bstr := match go_quote s with Some q => q | None => [] end.

(* ---- {plural $n}{case 1}...{case 2}...{default}...{/plural} (inside a {msg}).  The case values are
   integer literals; their items, and the {default} tag, give rise to no positioned node (position 0).
   [f] gives the items of a case body.  A {plural} occurs in two forms: as the child of a {msg} (or of
   a case of such a {plural}) its case bodies are placeholderized children (parseMsg's placeholderize
   recurses into exactly these); as a command of a body nested in a {msg} ({msg}{log}{plural}..) its
   case bodies stay lists of commands. ---- *)
Definition plural_case_head (cp : N) (cv : Z) : list tok :=
  [T_ldelim; kw pit_Case cp] ++ tokens_of (NInt 0 cv) ++ [T_rdelim].
Definition plural_default_head : list tok := [T_ldelim; kw pit_Default 0; T_rdelim].
Definition pcases_toks (f : list node -> list tok) : list node -> list tok :=
  fix goc (cs : list node) : list tok :=
    match cs with
    | [] => []
    | NMsgPluralCase cp cv b :: r => plural_case_head cp cv ++ f b ++ goc r
    | _ :: r => goc r
    end.
Definition plural_toks (p : N) (v : node) (cases_toks dflt_toks : list tok) : list tok :=
  [T_ldelim; kw pit_Plural p] ++ tokens_of v ++ [T_rdelim] ++ cases_toks ++
  plural_default_head ++ dflt_toks ++ close_tag pit_PluralEnd.

(* the children of a {msg} (or of a case of its {plural}): [run] collects the text and html-tag
   children seen since the last command; [ct] gives the items of a command, [mt] those of a
   {plural} child *)
Definition children_toks (ct mt : node -> list tok) : list node -> list node -> list tok :=
  fix go (run : list node) (l : list node) {struct l} : list tok :=
    match l with
    | [] => run_tok run
    | x :: r =>
        match x with
        | NRawText _ _ => go (run ++ [x]) r
        | NMsgPlaceholder _ _ (NMsgHtmlTag _ _) => go (run ++ [x]) r
        | NMsgPlaceholder _ _ c => run_tok run ++ ct c ++ go [] r
        | NMsgPlural _ _ _ _ _ => run_tok run ++ mt x ++ go [] r
        | _ => run_tok run ++ go [] r
        end
    end.

Fixpoint cmd_toks (n : node) : list tok :=
  let body (x : node) : list tok := match x with NList _ ns => concat (map cmd_toks ns) | _ => [] end in
  match n with
  | NRawText p t => [tk pit_Text p t]
  | NPrint _ _ _ => T_ldelim :: tokens_of_print n
  | NDebugger p => [T_ldelim; kw pit_Debugger p; T_rdelim]
  | NLog p x => [T_ldelim; kw pit_Log p; T_rdelim] ++ body x ++ close_tag pit_LogEnd
  | NLetValue p name e =>
      [T_ldelim; kw pit_Let p; tk pit_DollarIdent 0 (36 :: name); T_colon] ++ tokens_of e ++ [T_rdelim_end]
  | NLetContent p name x =>
      [T_ldelim; kw pit_Let p; tk pit_DollarIdent 0 (36 :: name); T_rdelim] ++ body x ++ close_tag pit_LetEnd
  | NIf p conds =>
      let fix go (first : bool) (l : list node) : list tok :=
        match l with
        | [] => []
        | NIfCond _ (Some c) x :: r =>
            [T_ldelim; kw (if first then pit_If else pit_Elseif) (if first then p else 0)] ++ tokens_of c ++ [T_rdelim] ++ body x ++ go false r
        | NIfCond _ None x :: r => [T_ldelim; kw pit_Else 0; T_rdelim] ++ body x ++ go false r
        | _ :: r => go false r
        end in
      go true conds ++ close_tag pit_IfEnd
  | NFor p var lst x ie =>
      [T_ldelim; kw pit_For p; tk pit_DollarIdent 0 (36 :: var); tk pit_Ident 0 v_in] ++ tokens_of lst ++ [T_rdelim] ++ body x ++
      (match ie with Some y => [T_ldelim; kw pit_Ifempty 0; T_rdelim] ++ body y | None => [] end) ++ close_tag pit_ForEnd
  (* {switch e}{case a, b}...{default}...{/switch}: a case without values is the default case; its
     item is "default" (what the parser accepts; SwitchCaseNode.String of the pinned tree writes
     "{case }" there, see notes/astprint-reparse.md W1 and notes/pending/C17-switch-default-string.diff) *)
  | NSwitch p v cases =>
      let fix go (l : list node) : list tok :=
        match l with
        | [] => []
        | NSwitchCase q vals x :: r =>
            (match vals with
             | [] => [T_ldelim; kw pit_Default q; T_rdelim]
             | _ => [T_ldelim; kw pit_Case q] ++ sep_join [T_comma] (map tokens_of vals) ++ [T_rdelim]
             end) ++ body x ++ go r
        | _ :: r => go r
        end in
      [T_ldelim; kw pit_Switch p] ++ tokens_of v ++ [T_rdelim] ++ go cases ++ close_tag pit_SwitchEnd
  (* {call a.b data="all"|data="e" /}  or  ...}{param k: e/}{param k}...{/param}{/call}; a parameter
     is positioned at its "{" *)
  | NCall p name alldata data params =>
      let fix go (l : list node) : list tok :=
        match l with
        | [] => []
        | NParamValue q key v :: r =>
            [tk pit_LeftDelim q [123]; kw pit_Param 0; tk pit_Ident 0 key; T_colon] ++ tokens_of v ++ [T_rdelim_end] ++ go r
        | NParamContent q key x :: r =>
            [tk pit_LeftDelim q [123]; kw pit_Param 0; tk pit_Ident 0 key; T_rdelim] ++ body x ++ close_tag pit_ParamEnd ++ go r
        | _ :: r => go r
        end in
      [T_ldelim; kw pit_Call p] ++ call_name_toks name ++
      (if alldata then attr_toks v_data (dq v_all)
       else match data with Some d => attr_toks v_data (dq (printed d)) | None => [] end) ++
      (match params with
       | [] => [T_rdelim_end]
       | _ => [T_rdelim] ++ go params ++ close_tag pit_CallEnd
       end)
  (* {css e, suffix}: the scanner sends everything up to "}" as one text item *)
  | NCss p e suffix => [T_ldelim; kw pit_Css p; tk pit_Text 0 (css_text e suffix); T_rdelim]
  (* {msg meaning="m" desc="d"}...{/msg} *)
  | NMsg p _ meaning desc children =>
      [T_ldelim; kw pit_Msg p] ++
      (match meaning with [] => [] | _ => attr_toks v_meaning (quoted_attr meaning) end) ++
      attr_toks v_desc (quoted_attr desc) ++ [T_rdelim] ++ children_toks cmd_toks mtoks [] children ++ close_tag pit_MsgEnd
  (* a {plural} that is a command of a body nested in a {msg}: its case bodies are bodies *)
  | NMsgPlural p _ v cases dflt =>
      plural_toks p v (pcases_toks (fun l => concat (map cmd_toks l)) cases) (concat (map cmd_toks dflt))
  | _ => []
  end
(* a {plural} that is the child of a {msg} or of a case of such a {plural}, and its cases *)
with mtoks (n : node) : list tok :=
  match n with
  | NMsgPlural p _ v cases dflt =>
      plural_toks p v (concat (map mtoks cases)) (children_toks cmd_toks mtoks [] dflt)
  | NMsgPluralCase cp cv b => plural_case_head cp cv ++ children_toks cmd_toks mtoks [] b
  | _ => []
  end.

Definition body_toks (x : node) : list tok :=
  match x with NList _ ns => concat (map cmd_toks ns) | _ => [] end.

Definition is_rawtext (n : node) : bool := match n with NRawText _ _ => true | _ => false end.

(* no two adjacent raw texts *)
Fixpoint no_adjacent_text (ns : list node) : Prop :=
  match ns with
  | [] => True
  | x :: r => match r with y :: _ => is_rawtext x && is_rawtext y = false | [] => True end /\ no_adjacent_text r
  end.

Definition first_pos (ts : list tok) : N := match ts with t :: _ => t_pos t | [] => 0 end.

(* the bytes an attribute value may hold for `"` ++ s ++ `"` to be its own strconv.Quote form:
   printable ASCII other than the double quote and the backslash *)
Definition plain_b (c : N) : bool := (32 <=? c) && (c <? 127) && negb (c =? 34) && negb (c =? 92).
Definition plain (s : bstr) : Prop := forallb plain_b s = true.

Definition no_byte (c : N) (s : bstr) : Prop := forallb (fun x => negb (x =? c)) s = true.

(* a template name as {call} reads it back: at least one dot, not at the front *)
Definition call_name_ok (name : bstr) : Prop :=
  exists first r1 rest, split_dots [] name = first :: r1 :: rest /\ first <> [].

(* a run of text / html-tag children is what parseMsgRawText makes of its text item *)
Definition run_ok (run : list node) : Prop :=
  match run with
  | [] => True
  | _ :: _ => run_text run <> [] /\ rawtext_run (run_text run) false false = Ok (run_text run) /\
              msg_raw_text (run_pos run) (run_text run) = run
  end.

(* the cases of a {plural}: non-negative integer values (a negative one prints as "-" "n", which
   parsePlural refuses), bodies satisfying P *)
Definition wf_pcases (P : list node -> Prop) : list node -> Prop :=
  fix goc (cs : list node) : Prop :=
    match cs with
    | [] => True
    | NMsgPluralCase _ cv b :: r => (0 <= cv)%Z /\ in_int64 cv = true /\ P b /\ goc r
    | _ :: _ => False
    end.

Definition is_pcase (n : node) : bool := match n with NMsgPluralCase _ _ _ => true | _ => false end.

(* the children of a {msg} / of a case of its {plural}: runs of text / html tags as parseMsgRawText
   splits them, unnamed placeholders positioned at their command ([wc]), {plural} children ([wm]) *)
Definition wf_children_gen (wc wm : node -> Prop) : list node -> list node -> Prop :=
  fix go (run : list node) (l : list node) {struct l} : Prop :=
    match l with
    | [] => run_ok run
    | x :: r =>
        match x with
        | NRawText _ _ => go (run ++ [x]) r
        | NMsgPlaceholder _ _ (NMsgHtmlTag _ _) => go (run ++ [x]) r
        | NMsgPlaceholder q nm c => run_ok run /\ nm = [] /\ q = pos_of c /\ is_rawtext c = false /\ is_plural c = false /\ wc c /\ go [] r
        | NMsgPlural _ _ _ _ _ => run_ok run /\ wm x /\ go [] r
        | _ => False
        end
    end.

Section Wf.
(* the scanner run on an attribute value / the expression part of {css} (lexExpr) *)
Variable lexq : bstr -> list tok.
(* the names {call} resolves to themselves in the file's namespace and aliases *)
Variable nameok : bstr -> Prop.

(* an expression the parser reads through a nested scanner (data="e", {css e, x}): the nested
   scanner sends the items of e followed by one item that ends an expression (lexExpr sends the
   error item "unclosed tag" at the end of input); e is positioned by offsets into its own text *)
Definition quoted_ok (e : node) : Prop :=
  wf_expr e /\ exists s t, print_node e = Some s /\ lexq s = tokens_of e ++ [t] /\ closer t = true.

(* [m] = inside a {msg}: {if}, {for}, {switch} are refused there (parse.go notmsg) *)
Fixpoint wf_cmd (m : bool) (n : node) : Prop :=
  let wf_body (x : node) : Prop :=
    match x with
    | NList p ns => p = first_pos (concat (map cmd_toks ns)) /\ allP (wf_cmd m) ns /\ no_adjacent_text ns
    | _ => False
    end in
  match n with
  | NRawText _ t => t <> [] /\ rawtext_run t false false = Ok t
  | NPrint p arg dirs => wf_print n /\ p = first_pos (tokens_of_print n)
  | NDebugger _ => True
  | NLog _ x => wf_body x
  | NLetValue _ _ e => wf_expr e
  | NLetContent _ _ x => wf_body x
  | NIf p conds =>
      let fix go (first : bool) (l : list node) : Prop :=
        match l with
        | [] => first = false                                  (* at least one condition *)
        | NIfCond q (Some c) x :: r => q = p /\ wf_expr c /\ wf_body x /\ go false r
        | NIfCond q None x :: r => first = false /\ q = p /\ wf_body x /\ r = []
        | _ :: _ => False
        end in
      m = false /\ go true conds
  | NFor _ _ lst x ie =>
      m = false /\ (wf_expr lst /\ c17_no_lead_minus lst) /\ wf_body x /\ match ie with Some y => wf_body y | None => True end
  | NSwitch _ v cases =>
      let fix go (l : list node) : Prop :=
        match l with
        | [] => True
        | NSwitchCase _ vals x :: r => allP wf_expr vals /\ (vals = [] -> r = []) /\ wf_body x /\ go r   (* {default} last *)
        | _ :: _ => False
        end in
      m = false /\ wf_expr v /\ go cases
  | NCall _ name alldata data params =>
      let fix go (l : list node) : Prop :=
        match l with
        | [] => True
        | NParamValue _ _ v :: r => wf_expr v /\ go r
        | NParamContent _ _ x :: r => wf_body x /\ go r
        | _ :: _ => False
        end in
      call_name_ok name /\ nameok name /\
      match data with
      | Some d => alldata = false /\ quoted_ok d /\ plain (printed d) /\ printed d <> v_all
      | None => True
      end /\ go params
  | NCss _ e suffix =>
      no_byte 44 suffix /\ trim_space suffix = suffix /\
      match e with
      | Some x => quoted_ok x /\ trim_space (printed x) = printed x
      | None => True
      end
  (* {msg}: not inside a {msg}; the id is assigned later (0 from the parser); the children are runs
     of text / html tags as parseMsgRawText splits them, unnamed placeholders positioned at
     their command, which is well-formed inside a {msg}, or a {plural}, which is then the only
     child (parseMsg) *)
  | NMsg _ id meaning desc children =>
      m = false /\ id = 0 /\ go_quote meaning <> None /\ go_quote desc <> None /\
      wf_children_gen (wf_cmd true) wf_mnode [] children /\
      (existsb is_plural children = true -> length children = 1%nat)
  (* a {plural} as a command of a body nested in a {msg} (the variable name is assigned later) *)
  | NMsgPlural _ nm v cases dflt =>
      let wf_blist (l : list node) : Prop := allP (wf_cmd m) l /\ no_adjacent_text l in
      m = true /\ nm = [] /\ wf_expr v /\ wf_pcases wf_blist cases /\ wf_blist dflt
  | _ => False
  end
(* a {plural} as the child of a {msg} / of a case of such a {plural}, and its cases *)
with wf_mnode (n : node) : Prop :=
  match n with
  | NMsgPlural _ nm v cases dflt =>
      nm = [] /\ wf_expr v /\ forallb is_pcase cases = true /\ allP wf_mnode cases /\
      wf_children_gen (wf_cmd true) wf_mnode [] dflt
  | NMsgPluralCase _ cv b =>
      (0 <= cv)%Z /\ in_int64 cv = true /\ wf_children_gen (wf_cmd true) wf_mnode [] b
  | _ => False
  end.

Definition wf_body (m : bool) (x : node) : Prop :=
  match x with
  | NList p ns => p = first_pos (concat (map cmd_toks ns)) /\ allP (wf_cmd m) ns /\ no_adjacent_text ns
  | _ => False
  end.
End Wf.
