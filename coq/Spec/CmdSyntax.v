(* Concrete syntax of Soy commands at token level: the extension of C17 from expressions and
   print commands to template bodies.

   [cmd_toks n] is the item sequence that the text ast/node.go's String() prints for the
   command [n] lexes to, for the command forms whose String() prints source syntax that the
   parser accepts again (established on the real code by the C17 harness, section "re-parse
   census"):
       raw text, print, {log}, {debugger}, {let $x: e /}, {let $x}..{/let},
       {if}/{elseif}/{else}, {for $x in e}..{ifempty}..{/for}.
   NOT covered here (see notes/astprint-reparse.md): {switch} (String() prints the default case
   as "{case }", which the parser rejects; the {case a, b} form re-parses on the real code but is
   not part of this token-level statement), {call}, {msg}, {css} (re-parse on the real code,
   census of the C17 harness; not part of this statement), templates, soydoc, namespaces
   (String() is not the source syntax).

   As in Spec/ExprSyntax.v every item carries the position of the node it gives rise to; the
   items that give rise to no node ("{", "}", "/}", the closing tags, "in", ...) are at
   position 0.  [wf_cmd] / [wf_body] exclude only trees the parser cannot build:
     - a ListNode whose position is not that of the first item read for it;
     - the IfCondNodes of an {if} carry the {if}'s own position; {else} comes last;
     - an (implicit) print command is positioned at the first item of its expression;
     - raw text is non-empty, already in the form the parser's line joining leaves it in
       ([rawtext_run t false false = Ok t]), and not adjacent to other raw text.
   Definitions only. *)
From Soy Require Import Model.Bytes Model.Outcome Model.Num Model.Values Model.Ast Model.Token Model.RawText
  Model.AstPrint Generated.Tables Spec.ExprSyntax.
Open Scope N_scope.

Definition T_ldelim : tok := tk pit_LeftDelim 0 [123].
Definition T_rdelim_end : tok := tk pit_RightDelimEnd 0 [47; 125].
Definition kw (ty p : N) : tok := tk ty p [].
Definition close_tag (ty : N) : list tok := [T_ldelim; kw ty 0; T_rdelim].

Definition v_in := Eval vm_compute in b "in".

Fixpoint cmd_toks (n : node) : list tok :=
  let body (x : node) : list tok := match x with NList _ ns => concat (map cmd_toks ns) | _ => [] end in
  match n with
  | NRawText p t => [tk pit_Text p t]
  | NPrint _ _ _ => T_ldelim :: tokens_of_print n
  | NDebugger p => [T_ldelim; kw pit_Debugger p; T_rdelim]
  | NLog p x => [T_ldelim; kw pit_Log p; T_rdelim] ++ body x ++ close_tag pit_LogEnd
  | NLetValue p name e =>
      [T_ldelim; kw pit_Let p; tk pit_DollarIdent 0 (36 :: name); T_colon] ++ tokens_of e ++ [T_rdelim_end]
  | NLetContent p name x =>
      [T_ldelim; kw pit_Let p; tk pit_DollarIdent 0 (36 :: name); T_rdelim] ++ body x ++ close_tag pit_LetEnd
  | NIf p conds =>
      let fix go (first : bool) (l : list node) : list tok :=
        match l with
        | [] => []
        | NIfCond _ (Some c) x :: r =>
            [T_ldelim; kw (if first then pit_If else pit_Elseif) (if first then p else 0)] ++ tokens_of c ++ [T_rdelim] ++ body x ++ go false r
        | NIfCond _ None x :: r => [T_ldelim; kw pit_Else 0; T_rdelim] ++ body x ++ go false r
        | _ :: r => go false r
        end in
      go true conds ++ close_tag pit_IfEnd
  | NFor p var lst x ie =>
      [T_ldelim; kw pit_For p; tk pit_DollarIdent 0 (36 :: var); tk pit_Ident 0 v_in] ++ tokens_of lst ++ [T_rdelim] ++ body x ++
      (match ie with Some y => [T_ldelim; kw pit_Ifempty 0; T_rdelim] ++ body y | None => [] end) ++ close_tag pit_ForEnd
  | _ => []
  end.

Definition body_toks (x : node) : list tok :=
  match x with NList _ ns => concat (map cmd_toks ns) | _ => [] end.

Definition is_rawtext (n : node) : bool := match n with NRawText _ _ => true | _ => false end.

(* no two adjacent raw texts *)
Fixpoint no_adjacent_text (ns : list node) : Prop :=
  match ns with
  | [] => True
  | x :: r => match r with y :: _ => is_rawtext x && is_rawtext y = false | [] => True end /\ no_adjacent_text r
  end.

Definition first_pos (ts : list tok) : N := match ts with t :: _ => t_pos t | [] => 0 end.

Fixpoint wf_cmd (n : node) : Prop :=
  let wf_body (x : node) : Prop :=
    match x with
    | NList p ns => p = first_pos (concat (map cmd_toks ns)) /\ allP wf_cmd ns /\ no_adjacent_text ns
    | _ => False
    end in
  match n with
  | NRawText _ t => t <> [] /\ rawtext_run t false false = Ok t
  | NPrint p arg dirs => wf_print n /\ p = first_pos (tokens_of_print n)
  | NDebugger _ => True
  | NLog _ x => wf_body x
  | NLetValue _ _ e => wf_expr e
  | NLetContent _ _ x => wf_body x
  | NIf p conds =>
      let fix go (first : bool) (l : list node) : Prop :=
        match l with
        | [] => first = false                                  (* at least one condition *)
        | NIfCond q (Some c) x :: r => q = p /\ wf_expr c /\ wf_body x /\ go false r
        | NIfCond q None x :: r => first = false /\ q = p /\ wf_body x /\ r = []
        | _ :: _ => False
        end in
      go true conds
  | NFor _ _ lst x ie =>
      wf_expr lst /\ wf_body x /\ match ie with Some y => wf_body y | None => True end
  | _ => False
  end.

Definition wf_body (x : node) : Prop :=
  match x with
  | NList p ns => p = first_pos (concat (map cmd_toks ns)) /\ allP wf_cmd ns /\ no_adjacent_text ns
  | _ => False
  end.
