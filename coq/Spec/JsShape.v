(* C14: the files the theorem gen_output_parses talks about, as a decidable
   check on the AST ([file_chk]).  It asks for what the Soy parser and checker
   guarantee of an accepted file, as far as the JavaScript generator depends on
   it: expressions stand where expressions are expected and commands where
   commands are, names are identifiers (the first segment of a namespace not a
   JavaScript reserved word), floats are finite, every function and directive is
   one soyjs knows, with enough arguments, a switch has one default at most.
   The texts that come from soyjs's tables (functions, directives, formatters)
   are not assumed to be well formed: the check runs the recogniser of
   Spec/JsSyntax.v over them, with a hole for every argument ([pieces_run]),
   so a table entry that splices an argument where it cannot stand -- 5.length
   -- makes the check fail for exactly the files that use it.
   The harness evaluates file_chk on every accepted file it generates.
   Definitions only. *)
From Soy Require Import Model.Bytes Model.Num Model.Values Model.Outcome Model.Ast Model.JsGen Generated.Tables
  Spec.JsOut Spec.JsSyntax.
Open Scope N_scope.

Definition text_toks (t : bstr) : option (list jstoken) :=
  match lex_text 0 LNormal t with Some (ts, LNormal) => Some ts | _ => None end.

Definition eframe (f : frame) : bool := match f with KParen | KCall | KIdx | KArr | KObj | KTern => true | _ => false end.
Definition emode (m : mode) : bool :=
  match m with
  | MWant _ | MHave _ | MDot | MKey _ => true
  | MSeq [PT (TP PColon)] None (MWant false) => true
  | _ => false
  end.

(* ---- the end of a piece of generated text, against the mode the recogniser is in after it.  A piece that passes
   [tail_okb] cannot share a token with whatever the grammar accepts next (Proofs/JsWfTail.v: sep_from_tail), so the
   byte lexer reads the rendered chunks as the chunk lexer reads the chunks. ---- *)
Definition lastint (ts : list jstoken) : bool := match last ts TStr with TNum x => is_int_text x | _ => false end.
(* the next token is no identifier, keyword or number *)
Definition word_free (m : mode) : bool :=
  match m with
  | MHave _ | MName _ | MImportClose | MParamsClose | MForClose => true
  | MSeq (PT (TP _) :: _) _ _ | MSeq (PStr :: _) _ _ => true
  | _ => false
  end.
(* the next token is not '.' *)
Definition dot_free (m : mode) : bool :=
  match m with
  | MHave true | MImportClose | MParamsClose | MForClose => true
  | MSeq (PT (TP p) :: _) _ _ => negb (punct_eqb p PDot)
  | MSeq (PStr :: _) _ _ => true
  | _ => false
  end.
Definition dot_mode (m : mode) : bool := match m with MDot | MNameDot _ => true | _ => false end.
Definition want_mode (m : mode) : bool := match m with MWant _ => true | _ => false end.
(* the next token is not ++, flagged or not *)
Definition incr_free (m : mode) : bool :=
  match m with
  | MSeq (PT (TP PPlusPlus) :: _) _ _ | MSeq (PT (TNL _) :: _) _ _ => false
  | _ => true
  end.
(* bytes that are a proper prefix of a longer punctuator *)
Definition open_punct (a : N) : bool := existsb (N.eqb a) [33;37;38;42;43;45;46;47;60;61;62;63;94;124].
Definition tail_okb (a : N) (li : bool) (m' : mode) : bool :=
  (negb (is_ident_part a) || (word_free m' && (negb li || dot_free m')))
  && (negb (open_punct a) || ((a =? 46) && dot_mode m') || ((a =? 63) && want_mode m'))
  && (negb (is_space a || (a =? 168) || (a =? 169)) || incr_free m').
Definition text_okb (t : bstr) (ts : list jstoken) (m' : mode) : bool :=
  match t with [] => true | _ => tail_okb (last t 0) (lastint ts) m' end.
Fixpoint toks_eqb (a c : list jstoken) : bool :=
  match a, c with
  | [], [] => true
  | x :: a', y :: c' => tok_eqb x y && toks_eqb a' c'
  | _, _ => false
  end.

Section Chk.
Variable fmt : jsfmt.
Definition is_module : bool := match fmt with ES6 => true | ES5 => false end.

(* the pieces of a function of soyjs/funcs.go: texts and argument holes; flags: which arguments may end in an
   integer literal.  Every text runs inside the expression, every hole stands where an operand is expected. *)
Fixpoint pieces_run (ps : list (bstr + nat)) (flags : list bool) (m : mode) (s : list frame) : option (mode * list frame) :=
  match ps with
  | [] => Some (m, s)
  | inl t :: r =>
      match text_toks t with
      | Some ts =>
          match js_run is_module ts m s with
          | Some (m', s', []) => if emode m' && forallb eframe s' && text_okb t ts m' then pieces_run r flags m' s' else None
          | _ => None
          end
      | None => None
      end
  | inr i :: r =>
      match m, nth_error flags i with
      | MWant _, Some f => pieces_run r flags (MHave f) s
      | _, _ => None
      end
  end.

(* an import line of the ES6 formatter (nothing for ES5) *)
Definition imp_ok (imp : list chunk) : bool :=
  match imp with
  | [] => true
  | _ =>
      match lex_chunks_from LNormal imp with
      | Some (ts, LNormal) =>
          match js_run is_module ts (MStmt false) [] with
          | Some (MStmt false, [], [DImport _]) =>
              (* and the bytes of the line lex to the same tokens, the line ending in ';' or a line feed *)
              forallb (fun c => match c with CStrLit _ _ => false | _ => true end) imp
              && match lex_text 0 LNormal (render_chunks (fun _ => true) imp) with
                 | Some (ts', LNormal) => toks_eqb ts' ts
                 | _ => false
                 end
              && (let a := last (render_chunks (fun _ => true) imp) 0 in (a =? 59) || (a =? 10))
          | _ => false
          end
      | _ => false
      end
  end.

(* a text that is an operand by itself (a directive's function: soy.$$escapeHtml) *)
Definition operand_text (t : bstr) : bool :=
  match text_toks t with
  | Some ts => match js_run is_module ts (MWant false) [] with Some (MHave false, [], []) => text_okb t ts (MHave false) | _ => false end
  | None => false
  end.
(* a text that opens a call: soy.$$getMapKeys( *)
Definition call_open_text (t : bstr) : bool :=
  match text_toks t with
  | Some ts => match js_run is_module ts (MWant false) [] with Some (MWant true, [KCall], []) => text_okb t ts (MWant true) | _ => false end
  | None => false
  end.

(* a dotted name whose first segment is an identifier that is not reserved *)
Definition dname_okb (s : bstr) : bool :=
  match lex_name s with Some (TId _ :: _) => true | _ => false end.
(* one identifier that is not reserved *)
Definition name_okb (s : bstr) : bool :=
  match lex_name s with Some [TId _] => true | _ => false end.

Fixpoint expr_chk (fuel : nat) (n : node) : option bool :=
  match fuel with
  | O => None
  | S f =>
      let all := forallb (fun x => match expr_chk f x with Some _ => true | None => false end) in
      let flag := fun a => match expr_chk f a with Some i => i | None => false end in
      match n with
      | NNull _ | NBool _ _ | NString _ _ _ => Some false
      | NInt _ _ => Some true
      | NFloat _ x =>
          match float_node_string x with
          | Some s =>
              match lex_num s with
              | Some ts =>
                  match js_run is_module ts (MWant false) [] with
                  | Some (MHave i, [], []) => if text_okb s ts (MHave i) then Some i else None
                  | _ => None
                  end
              | None => None
              end
          | None => None
          end
      | NGlobal p _ v => match node_of_value p v with Some n' => expr_chk f n' | None => None end
      | NListLit _ items => if all items then Some false else None
      | NMapLit _ items => if all (map snd items) then Some false else None
      | NDataRef _ key acc =>
          if ident_ok key &&
             forallb (fun a => match a with
                               | NAccIndex _ _ _ => true
                               | NAccKey _ _ k => ident_ok k
                               | NAccExpr _ _ e => match expr_chk f e with Some _ => true | None => false end
                               | _ => false
                               end) acc
          then Some false else None
      | NNot _ a | NNeg _ a => match expr_chk f a with Some _ => Some false | None => None end
      | NBin _ _ a c => match expr_chk f a, expr_chk f c with Some _, Some _ => Some false | _, _ => None end
      | NTern _ a c d => match expr_chk f a, expr_chk f c, expr_chk f d with Some _, Some _, Some _ => Some false | _, _, _ => None end
      | NFunc _ name args =>
          if all args && imp_ok (fmt_chunks (fmt_function fmt) name) then
            match assoc_s name js_builtin_funcs with
            | Some jn => if call_open_text (t_soy_dd ++ jn ++ t_lpar) then Some false else None
            | None =>
                match assoc_s name js_funcs with
                | Some (_, alts) =>
                    match pick_alt alts (List.length args) with
                    | Some ps =>
                        match pieces_run ps (map flag args) (MWant false) [] with
                        | Some (MHave r, []) => Some r
                        | _ => None
                        end
                    | None => None
                    end
                | None =>
                    if bstr_eqb name jn_isFirst || bstr_eqb name jn_isLast || bstr_eqb name jn_index then Some false else None
                end
            end
          else None
      | _ => None
      end
  end.

Definition expr_okb (fuel : nat) (n : node) : bool := match expr_chk fuel n with Some _ => true | None => false end.

Definition dir_chk (fuel : nat) (d : node) : bool :=
  match d with
  | NDirective _ name args =>
      match assoc_s name js_directives with
      | Some (jn, _) =>
          forallb (expr_okb fuel) args
          && (bstr_eqb name n_id || bstr_eqb name n_noAutoescape
              || (operand_text jn && imp_ok (fmt_chunks (fmt_directive fmt) jn)))
      | None => false
      end
  | _ => false
  end.

(* the shapes of the command lists, over the checks of their parts *)
Section Shapes.
Variable ek sk : node -> bool.
Fixpoint if_shape (cs : list node) : bool :=
  match cs with
  | [] => true
  | NIfCond _ c bd :: r =>
      match c with
      | Some x => ek x
      | None => match r with [] => true | _ => false end
      end && sk bd && if_shape r
  | _ :: _ => false
  end.
Definition if_head (cs : list node) : bool := match cs with NIfCond _ (Some _) _ :: _ => true | _ => false end.
Definition case_shape (c : node) : bool :=
  match c with
  | NSwitchCase _ vs bd => forallb ek vs && sk bd
  | _ => false
  end.
Definition is_default_case (c : node) : bool := match c with NSwitchCase _ [] _ => true | _ => false end.
Definition param_shape (p : node) : bool :=
  match p with
  | NParamValue _ key v => ident_ok key && ek v
  | NParamContent _ key c => ident_ok key && sk c
  | _ => false
  end.
(* the children of a {msg}: raw text, placeholders (a command each), plurals (a number expression and the cases) *)
Fixpoint mq_chk (fuel : nat) (n : node) : bool :=
  match fuel with
  | O => false
  | S f =>
      match n with
      | NRawText _ _ => sk n
      | NMsgPlaceholder _ _ b => sk b
      | NMsgPlural _ _ v cases dflt => ek v && forallb (mq_chk f) cases && forallb (mq_chk f) dflt
      | NMsgPluralCase _ _ body => forallb (mq_chk f) body
      | NList _ l => forallb (mq_chk f) l
      | _ => true
      end
  end.
Definition for_list_shape (lst : node) : bool :=
  match lst with
  | NFunc _ fname args =>
      if bstr_eqb fname jn_range
      then match args with [_] | [_; _] | [_; _; _] => forallb ek args | _ => false end
      else ek lst
  | _ => ek lst
  end.
End Shapes.

Fixpoint stmt_chk (fuel : nat) (n : node) : bool :=
  match fuel with
  | O => false
  | S f =>
      match n with
      | NList _ ns => forallb (stmt_chk f) ns
      | NRawText _ _ | NMsgHtmlTag _ _ | NDebugger _ => true
      | NPrint _ arg dirs => expr_okb f arg && forallb (dir_chk f) dirs && operand_text (directive_js n_escapeHtml)
      | NCss _ e _ => match e with Some x => expr_okb f x | None => true end
      | NLog _ bd => stmt_chk f bd
      | NIf _ conds => if_head conds && if_shape (expr_okb f) (stmt_chk f) conds
      | NFor _ var lst body ie =>
          ident_ok var && for_list_shape (expr_okb f) lst && stmt_chk f body
          && match ie with Some x => stmt_chk f x | None => true end
      | NSwitch _ v cases =>
          expr_okb f v && forallb (case_shape (expr_okb f) (stmt_chk f)) cases
          && (List.length (filter is_default_case cases) <=? 1)%nat
      | NCall _ name _ data params =>
          dname_okb (fmt_bytes (fmt_call_name fmt) name)
          && imp_ok (fmt_chunks (fmt_call_text fmt) name)
          && match data with Some d => expr_okb f d | None => true end
          && forallb (param_shape (expr_okb f) (stmt_chk f)) params
      | NMsg _ _ _ _ body => forallb (mq_chk (expr_okb f) (stmt_chk f) f) body
      | NLetValue _ name e => ident_ok name && expr_okb f e
      | NLetContent _ name bd => ident_ok name && stmt_chk f bd
      | _ => false
      end
  end.

(* the declaration of one namespace prefix: if (typeof a.b == 'undefined') { a.b = {}; } *)
Definition nsdecl_okb (pre : bstr) : bool := dname_okb pre.

Definition tname_okb (name : bstr) : bool :=
  match fmt with
  | ES5 => dname_okb name
  | ES6 => name_okb (es6_ident name)
  end.

Definition top_chk (fuel : nat) (n : node) : bool :=
  match n with
  | NNamespace _ name _ => forallb nsdecl_okb (ns_prefix_list name)
  | NSoyDoc _ _ => true
  | NTemplate _ name body _ _ => tname_okb name && stmt_chk fuel body
  | _ => false
  end.

Definition file_chk (fuel : nat) (body : list node) : bool := forallb (top_chk fuel) body.
End Chk.
