(* RFC 8259 JSON texts, read into a small value type.  Written from the grammar
   of the RFC, not from the encoder:
     ws      = *( space / HT / LF / CR )
     value   = false / null / true / object / array / number / string
     number  = [ minus ] int [ frac ] [ exp ]      int = zero / ( digit1-9 *DIGIT )
     string  = quotation-mark *char quotation-mark   (Spec/Codec.v json_parse_string)
   A number is kept as the exact decimal it denotes, sign * m * 10^e, normalised
   so that m has no trailing decimal zero (so 1, 1.0 and 10e-1 are the same
   number, and -0 keeps its sign).  Object members are kept in source order.
   Then: what the JSON text of a Soy value must parse to ([jv_of_value]).
   Definitions only. *)
From Soy Require Import Model.Bytes Model.Utf8 Model.Num Model.Values Spec.Codec.
Open Scope N_scope.

Inductive jvalue :=
| JvNull
| JvBool (x : bool)
| JvNum (neg : bool) (m : N) (e : Z)
| JvStr (s : bstr)
| JvArr (l : list jvalue)
| JvObj (m : list (bstr * jvalue)).

(* ---- lexical helpers ---- *)
Definition is_ws (c : N) : bool := (c =? 32) || (c =? 9) || (c =? 10) || (c =? 13).
Fixpoint skip_ws (s : bstr) : bstr :=
  match s with
  | c :: r => if is_ws c then skip_ws r else s
  | [] => []
  end.

Definition is_digit (c : N) : bool := in_range 48 57 c.

(* the maximal run of digits at the head of [s]: value (Horner, continuing from
   [acc]), number of digits, rest *)
Fixpoint scan_digits (s : bstr) (acc : N) (cnt : nat) : N * nat * bstr :=
  match s with
  | c :: r => if is_digit c then scan_digits r (acc * 10 + (c - 48)) (S cnt) else (acc, cnt, s)
  | [] => (acc, cnt, [])
  end.

(* m * 10^e without trailing decimal zeros in m; zero is (0, 0) *)
Fixpoint dec_norm_aux (fuel : nat) (m : N) (e : Z) : N * Z :=
  match fuel with
  | O => (m, e)
  | S f => if m mod 10 =? 0 then dec_norm_aux f (m / 10) (e + 1)%Z else (m, e)
  end.
Definition dec_norm (m : N) (e : Z) : N * Z :=
  if m =? 0 then (0, 0%Z) else dec_norm_aux (N.to_nat (N.size m)) m e.

(* ---- number ---- *)
(* [eat c s]: the rest of [s] after its first byte, when that byte is [c] *)
Definition eat (c : N) (s : bstr) : option bstr :=
  match s with
  | x :: r => if x =? c then Some r else None
  | [] => None
  end.

Definition num_sign (s : bstr) : bool * bstr :=
  match eat 45 s with Some r => (true, r) | None => (false, s) end.

(* frac = "." 1*DIGIT, continuing the mantissa [ip]: mantissa, number of fraction digits, rest *)
Definition num_frac (ip : N) (s : bstr) : option (N * nat * bstr) :=
  match eat 46 s with
  | Some r => let '(m, k, s') := scan_digits r ip 0 in if Nat.eqb k 0 then None else Some (m, k, s')
  | None => Some (ip, 0%nat, s)
  end.

(* exp = e [ minus / plus ] 1*DIGIT *)
Definition num_exp (s : bstr) : option (Z * bstr) :=
  match s with
  | c :: r =>
      if (c =? 101) || (c =? 69) then
        let '(eneg, r') := match eat 43 r, eat 45 r with
                           | Some r', _ => (false, r')
                           | None, Some r' => (true, r')
                           | None, None => (false, r)
                           end in
        let '(ev, k, s') := scan_digits r' 0 0 in
        if Nat.eqb k 0 then None else Some ((if eneg then - Z.of_N ev else Z.of_N ev)%Z, s')
      else Some (0%Z, s)
  | [] => Some (0%Z, [])
  end.

Definition json_number (s : bstr) : option (jvalue * bstr) :=
  let '(neg, s1) := num_sign s in
  match s1 with
  | [] => None
  | c :: _ =>
      if negb (is_digit c) then None else
      let '(ip, n_ip, s2) := scan_digits s1 0 0 in
      if (c =? 48) && negb (Nat.eqb n_ip 1) then None else     (* int = zero / digit1-9 *DIGIT *)
      match num_frac ip s2 with
      | None => None
      | Some (m, nfrac, s3) =>
          match num_exp s3 with
          | None => None
          | Some (ex, s4) => let '(m', e') := dec_norm m (ex - Z.of_nat nfrac)%Z in Some (JvNum neg m' e', s4)
          end
      end
  end.

(* ---- string: the body ends at the first quotation mark that is not escaped ---- *)
Fixpoint str_body (esc : bool) (s : bstr) : option (bstr * bstr) :=
  match s with
  | [] => None
  | c :: r =>
      if esc then option_map (fun p => (c :: fst p, snd p)) (str_body false r)
      else if c =? 34 then Some ([], r)
      else option_map (fun p => (c :: fst p, snd p)) (str_body (c =? 92) r)
  end.

(* [s] starts after the opening quotation mark *)
Definition json_string_at (s : bstr) : option (bstr * bstr) :=
  match str_body false s with
  | Some (body, rest) =>
      match json_parse_string (34 :: body ++ [34]) with
      | Some v => Some (v, rest)
      | None => None
      end
  | None => None
  end.

Definition lit_null := Eval vm_compute in b "null".
Definition lit_true := Eval vm_compute in b "true".
Definition lit_false := Eval vm_compute in b "false".

(* ---- values; [pv] parses one value (the recursive call), [g] bounds the loops ---- *)
Section Loops.
  Variable pv : bstr -> option (jvalue * bstr).

  (* after "[" and a first look that excluded "]":  value *( ws "," value ) ws "]" *)
  Fixpoint jv_elems (g : nat) (s : bstr) : option (list jvalue * bstr) :=
    match g with
    | O => None
    | S g' =>
        match pv s with
        | None => None
        | Some (x, r) =>
            match eat 44 (skip_ws r), eat 93 (skip_ws r) with
            | Some r', _ => match jv_elems g' r' with Some (xs, r'') => Some (x :: xs, r'') | None => None end
            | None, Some r' => Some ([x], r')
            | None, None => None
            end
        end
    end.

  (* member = ws string ws ":" value *)
  Definition jv_member (s : bstr) : option ((bstr * jvalue) * bstr) :=
    match eat 34 (skip_ws s) with
    | Some r =>
        match json_string_at r with
        | Some (k, r1) =>
            match eat 58 (skip_ws r1) with
            | Some r2 => match pv r2 with Some (x, r3) => Some ((k, x), r3) | None => None end
            | None => None
            end
        | None => None
        end
    | None => None
    end.

  Fixpoint jv_members (g : nat) (s : bstr) : option (list (bstr * jvalue) * bstr) :=
    match g with
    | O => None
    | S g' =>
        match jv_member s with
        | None => None
        | Some (kx, r) =>
            match eat 44 (skip_ws r), eat 125 (skip_ws r) with
            | Some r', _ => match jv_members g' r' with Some (ms, r'') => Some (kx :: ms, r'') | None => None end
            | None, Some r' => Some ([kx], r')
            | None, None => None
            end
        end
    end.

  Definition jv_body (g : nat) (s : bstr) : option (jvalue * bstr) :=
    match skip_ws s with
    | [] => None
    | c :: r =>
        if c =? 110 then (if is_prefix lit_null (c :: r) then Some (JvNull, drop 4 (c :: r)) else None)
        else if c =? 116 then (if is_prefix lit_true (c :: r) then Some (JvBool true, drop 4 (c :: r)) else None)
        else if c =? 102 then (if is_prefix lit_false (c :: r) then Some (JvBool false, drop 5 (c :: r)) else None)
        else if c =? 34 then match json_string_at r with Some (v, r') => Some (JvStr v, r') | None => None end
        else if c =? 91 then
          match eat 93 (skip_ws r) with
          | Some r' => Some (JvArr [], r')
          | None => match jv_elems g (skip_ws r) with Some (xs, r') => Some (JvArr xs, r') | None => None end
          end
        else if c =? 123 then
          match eat 125 (skip_ws r) with
          | Some r' => Some (JvObj [], r')
          | None => match jv_members g (skip_ws r) with Some (ms, r') => Some (JvObj ms, r') | None => None end
          end
        else json_number (c :: r)
    end.
End Loops.

(* [fuel] bounds the nesting depth and the number of elements of one array / object *)
Fixpoint jv_parse (fuel : nat) (s : bstr) : option (jvalue * bstr) :=
  match fuel with
  | O => None
  | S f => jv_body (jv_parse f) f s
  end.

(* JSON-text = ws value ws; no text nests deeper or has more members than it has bytes *)
Definition json_parse (s : bstr) : option jvalue :=
  match jv_parse (S (length s)) s with
  | Some (v, r) => match skip_ws r with [] => Some v | _ => None end
  | None => None
  end.

(* ---- the JSON value a Soy value must be read back as ("structurally equal"):
   undefined and null are null; an integer and a float are the exact number they
   denote (JSON has one number type); lists and maps keep their elements; the
   identity of a collection is not part of its structure.  NaN and the infinities
   have no JSON text. ---- *)
Definition num_of_Z (z : Z) : jvalue :=
  let '(m, e) := dec_norm (Z.abs_N z) 0 in JvNum (z <? 0)%Z m e.

Definition num_of_fl (x : fl) : option jvalue :=
  match x with
  | FZero n => Some (JvNum n 0 0%Z)
  | FFin m e =>
      let a := Z.abs_N m in
      let '(m', e') := if (0 <=? e)%Z then dec_norm (a * 2 ^ Z.to_N e) 0
                       else dec_norm (a * 5 ^ Z.to_N (- e)) e in      (* a * 2^e = a * 5^(-e) * 10^e *)
      Some (JvNum (m <? 0)%Z m' e')
  | FNaN | FInf _ => None
  end.

Fixpoint jv_of_value (v : value) : option jvalue :=
  match v with
  | VUndef | VNull => Some JvNull
  | VBool x => Some (JvBool x)
  | VInt z => Some (num_of_Z z)
  | VFloat x => num_of_fl x
  | VStr s => Some (JvStr s)
  | VList _ l =>
      option_map JvArr
        ((fix go (l : list value) : option (list jvalue) :=
            match l with
            | [] => Some []
            | x :: r => match jv_of_value x, go r with Some j, Some js => Some (j :: js) | _, _ => None end
            end) l)
  | VMap _ m =>
      option_map JvObj
        ((fix go (m : list (bstr * value)) : option (list (bstr * jvalue)) :=
            match m with
            | [] => Some []
            | (k, x) :: r => match jv_of_value x, go r with Some j, Some js => Some ((k, j) :: js) | _, _ => None end
            end) m)
  end.
