(* C19 -- "the same numbers appear in the message text": the text of a parse error.

   parse.go, errorAt(tok, format, args...):
       format = fmt.Sprintf("template %s:%d:%d: %s", t.name, lineNumber(tok.pos), columnNumber(tok.pos), format)
       panic(errortypes.NewErrFilePosf(t.name, lineNumber(tok.pos), columnNumber(tok.pos), format, args...))
   and NewErrFilePosf keeps file / line / col and builds the text with fmt.Errorf(format, args...).
   The format literal is re-read from the source on every run ([parser_error_prefix_format],
   tablegen 48-parser-error-sites, which also checks that the three values spliced into the text
   are the three handed to NewErrFilePosf).

   [sprintf] is fmt.Sprintf restricted to what that literal uses: %s with a string, %d with a
   non-negative integer, %%, ordinary bytes; anything else is outside the model ([None]).
   The second formatting pass (fmt.Errorf over the spliced format and the caller's arguments) is
   not modelled verb by verb: it enters the theorems as a function of the format that copies the
   text before the first '%' unchanged, which is what package fmt does.  Definitions only. *)
From Soy Require Import Model.Bytes Generated.Tables.
Open Scope N_scope.

Inductive farg := FStr (s : bstr) | FNum (n : N).

Fixpoint sprintf (fmt : bstr) (args : list farg) : option bstr :=
  match fmt with
  | [] => match args with [] => Some [] | _ => None end
  | 37 :: 115 :: r => match args with FStr s :: a => option_map (app s) (sprintf r a) | _ => None end
  | 37 :: 100 :: r => match args with FNum n :: a => option_map (app (dec_of_N n)) (sprintf r a) | _ => None end
  | 37 :: 37 :: r => option_map (cons 37) (sprintf r args)
  | 37 :: _ => None
  | c :: r => option_map (cons c) (sprintf r args)
  end.

(* the format errorAt hands to NewErrFilePosf: the prefix followed by the caller's format *)
Definition error_format (name : bstr) (line col : N) (body : bstr) : option bstr :=
  sprintf parser_error_prefix_format [FStr name; FNum line; FNum col; FStr body].
(* the prefix alone *)
Definition error_prefix (name : bstr) (line col : N) : option bstr := error_format name line col [].

(* what the property asks of the text: it shows file:line:col *)
Definition mentions (text file : bstr) (line col : N) : Prop :=
  exists pre post, text = pre ++ file ++ [58] ++ dec_of_N line ++ [58] ++ dec_of_N col ++ post.

(* a parse error as the caller sees it (errortypes.ErrFilePos: File(), Line(), Col(), Error()) *)
Record parse_error := { pe_file : bstr; pe_line : N; pe_col : N; pe_text : option bstr }.
(* [fmt2]: fmt.Errorf(format, args...) as a function of the format, for the call's arguments *)
Definition error_at (fmt2 : bstr -> bstr) (name : bstr) (line col : N) (body : bstr) : parse_error :=
  {| pe_file := name; pe_line := line; pe_col := col;
     pe_text := option_map fmt2 (error_format name line col body) |}.
