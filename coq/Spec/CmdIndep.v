(* C02 composed with C01: the command semantics of Spec/Cmd.v (blocks, lets,
   loops, calls, lexical environments) with EXPRESSIONS evaluated by the
   independent expression Spec, Spec/Expr.v ([eval_spec], written from the
   language description over its own syntax [expr]).

   An expression node of the template tree is read back as a Spec expression by
   [of_node] (the inverse of Model/ExprTrans.v [to_node] up to the byte
   positions and the quoted source text of string literals, which carry no
   meaning).  [of_node] is defined on every expression node built from:
   literals, list and map literals (distinct keys), data references with all
   access forms and $ij, the thirteen built-in functions, unary minus, not, the
   thirteen binary operators, ?: and the ternary.  It is undefined on an
   expression that mentions the loop helpers index/isFirst/isLast (Spec/Expr.v
   has no syntax for them) or a compile-time global (its value is already in
   the node); such an expression -- as a whole -- keeps the evaluation clauses
   of Spec/Cmd.v ([fallback]).

   Expression evaluation is not fuelled here ([eval_spec] is structural); the
   fuel counts nested commands and calls only.  Definitions only. *)
From Soy Require Import Model.Bytes Model.Num Model.Values Model.Outcome Model.Ast
  Model.Escape Model.Interp Spec.Expr Spec.Cmd.
Open Scope N_scope.

Section MapM.
Context {A B : Type} (f : A -> option B).
Fixpoint mapM (l : list A) : option (list B) :=
  match l with
  | [] => Some []
  | a :: r => match f a with
              | Some x => match mapM r with Some xs => Some (x :: xs) | None => None end
              | None => None
              end
  end.
End MapM.

Definition all_fns : list fn :=
  [FIsNonnull; FLength; FKeys; FAugmentMap; FRound; FFloor; FCeiling; FMin; FMax; FRandomInt; FStrContains; FRange; FHasData].
Definition fn_of_name (name : bstr) : option fn := find (fun f => bstr_eqb (fn_name f) name) all_fns.

Definition bop_of (op : binop) : option bop :=
  match op with
  | OMul => Some BMul | ODiv => Some BDiv | OMod => Some BMod | OAdd => Some BAdd | OSub => Some BSub
  | OLt => Some BLt | OGt => Some BGt | OLte => Some BLe | OGte => Some BGe
  | OEq => Some BEq | ONotEq => Some BNe | OAnd => Some BAnd | OOr => Some BOr
  | OElvis => None
  end.

Fixpoint distinct_keys (ks : list bstr) : bool :=
  match ks with
  | [] => true
  | k :: r => negb (existsb (bstr_eqb k) r) && distinct_keys r
  end.

Fixpoint of_node (n : node) : option expr :=
  match n with
  | NNull _ => Some ENull
  | NBool _ x => Some (EBool x)
  | NInt _ z => Some (EInt z)
  | NFloat _ f => Some (EFloat f)
  | NString _ _ v => Some (EStr v)
  | NListLit _ items => option_map EList (mapM of_node items)
  | NMapLit _ items =>
      if distinct_keys (map fst items)
      then option_map EMap (mapM (fun kv => option_map (pair (fst kv)) (of_node (snd kv))) items)
      else None
  | NFunc _ name args =>
      match fn_of_name name with
      | Some f => option_map (ECall f) (mapM of_node args)
      | None => None
      end
  | NDataRef _ key accs =>
      option_map (fun l => if bstr_eqb key s_ij then EIj l else ERef key l)
        (mapM (fun a => match a with
                        | NAccIndex _ ns i => Some (AIdx ns i)
                        | NAccKey _ ns k => Some (AKey ns k)
                        | NAccExpr _ ns e => option_map (AExpr ns) (of_node e)
                        | _ => None
                        end) accs)
  | NNot _ a => option_map ENot (of_node a)
  | NNeg _ a => option_map ENeg (of_node a)
  | NBin op _ a c =>
      match of_node a, of_node c with
      | Some x, Some y => match bop_of op with Some o => Some (EBin o x y) | None => Some (EElvis x y) end
      | _, _ => None
      end
  | NTern _ c a d =>
      match of_node c, of_node a, of_node d with
      | Some x, Some y, Some z => Some (ETern x y z)
      | _, _, _ => None
      end
  | _ => None
  end.

Section Indep.
Variable cf : cfg.

(* expressions: the independent Spec wherever it has a syntax for the expression *)
Definition eval_indep (fallback : env -> node -> E value) (en : env) (e : node) : E value :=
  match of_node e with
  | Some x => Expr.eval_spec [] en (c_ij cf) x
  | None => fallback en e
  end.

(* commands: exactly the clauses of Spec/Cmd.v ([exec_body], [let_body]) over that evaluator.
   [s] is the level of Spec/Cmd.v below (for the fall-back clause), [i] the composed level below.
   Both sequences of levels are built in one pass, so that the extracted function does not
   rebuild Spec/Cmd.v's levels at every command. *)
Definition indep0 : level :=
  {| l_eval := eval_indep (l_eval level0); l_exec := l_exec level0; l_let := l_let level0 |}.
Definition indep_next (s i : level) : level :=
  {| l_eval := eval_indep (l_eval (next_level cf s));
     l_exec := fun entry en mode n => exec_body cf i entry mode en n;
     l_let := fun entry en mode n => let_body i entry mode en n |}.
Fixpoint both_levels (fuel : nat) : level * level :=
  match fuel with
  | O => (level0, indep0)
  | S f => let p := both_levels f in (next_level cf (fst p), indep_next (fst p) (snd p))
  end.
Definition indep_level (fuel : nat) : level := snd (both_levels fuel).

Definition exec_spec_indep (fuel : nat) : env -> env -> N -> node -> Cm unit := l_exec (indep_level fuel).

Definition render_spec_indep (fuel : nat) (name : bstr) (data : env) (first_id : N) : spec_result :=
  match find_template (r_templates (c_reg cf)) name with
  | None => {| sr_out := []; sr_outcome := Err e_notemplate |}
  | Some t =>
      let '(o, r) := exec_spec_indep fuel data data (entry_mode (t_ns_autoescape t)) (t_node t) first_id in
      {| sr_out := o; sr_outcome := match r with Ok _ => Ok tt | _ => recast r end |}
  end.
End Indep.

(* how much of a registry the independent expression Spec reads: the expression
   roots (the expressions commands hold) of every template, and those among
   them [of_node] is defined on.  Reported by the harness for every bundle. *)
Definition olist (o : option node) : list node := match o with Some n => [n] | None => [] end.
Fixpoint expr_roots (n : node) : list node :=
  match n with
  | NList _ ns => flat_map expr_roots ns
  | NPrint _ a ds => a :: flat_map expr_roots ds
  | NDirective _ _ args => args
  | NCss _ e _ => olist e
  | NLog _ body => expr_roots body
  | NIf _ cs => flat_map expr_roots cs
  | NIfCond _ c body => olist c ++ expr_roots body
  | NFor _ _ l body ie => l :: expr_roots body ++ match ie with Some x => expr_roots x | None => [] end
  | NSwitch _ v cs => v :: flat_map expr_roots cs
  | NSwitchCase _ vs body => vs ++ expr_roots body
  | NCall _ _ _ d ps => olist d ++ flat_map expr_roots ps
  | NParamValue _ _ v => [v]
  | NParamContent _ _ c => expr_roots c
  | NLetValue _ _ e => [e]
  | NLetContent _ _ body => expr_roots body
  | NMsg _ _ _ _ body => flat_map expr_roots body
  | NMsgPlaceholder _ _ body => expr_roots body
  | NMsgPlural _ _ v cs d => v :: flat_map expr_roots cs ++ flat_map expr_roots d
  | NMsgPluralCase _ _ body => flat_map expr_roots body
  | NTemplate _ _ body _ _ => expr_roots body
  | _ => []
  end.
Definition indep_coverage (r : registry) : N * N :=
  let roots := flat_map (fun t => expr_roots (t_node t)) (r_templates r) in
  (N.of_nat (length (filter (fun e => match of_node e with Some _ => true | None => false end) roots)),
   N.of_nat (length roots)).
