(* The official Soy rule for placeholder names (MsgNode.genSubstUnitInfo of the
   Java compiler), stated declaratively, and what it means for the braced
   placeholder string to determine a message. *)
From Soy Require Import Model.Bytes.
(* scopes *) Open Scope N_scope.

(* source texts in order of first appearance, without repetition *)
Fixpoint dedup_from (seen l : list bstr) : list bstr :=
  match l with
  | [] => seen
  | s :: r => dedup_from (if existsb (bstr_eqb s) seen then seen else seen ++ [s]) r
  end.

(* base_n *)
Definition suffixed (base : bstr) (n : N) : bstr := base ++ 95 :: dec_of_N n.

(* the positive numbers below n *)
Definition below (n : N) : list N := map N.of_nat (seq 1 (N.to_nat n - 1)).

Section Official.
  (* The placeholders (and plural nodes) of one message in the order of first
     appearance -- breadth first: the children of the message, then the
     children of the plural cases -- each with its base name and its source text. *)
  Variable es : list (bstr * bstr).

  Definition spec_bases : list bstr := map fst es.

  (* the distinct placeholders sharing a base name *)
  Definition variants (base : bstr) : list bstr :=
    dedup_from [] (map snd (filter (fun e => bstr_eqb (fst e) base) es)).

  (* base_n may be handed out: it is not itself the base name of a placeholder *)
  Definition available (base : bstr) (n : N) : bool :=
    negb (existsb (bstr_eqb (suffixed base n)) spec_bases).

  (* n is the (j+1)-th available positive number for base *)
  Definition nth_available (base : bstr) (j : nat) (n : N) : Prop :=
    1 <= n /\ available base n = true /\ length (filter (available base) (below n)) = j.

  (* A base name with a single variant is the name.  Otherwise the variants are
     numbered in first-appearance order with the available numbers in
     increasing order: suffixes appear only among distinct placeholders sharing a
     base name, and a number is passed over exactly when the suffixed name
     belongs to another placeholder as its base name. *)
  Definition official_name (base : bstr) (j : nat) (name : bstr) : Prop :=
    match variants base with
    | [_] => name = base
    | _ => exists n, nth_available base j n /\ name = suffixed base n
    end.

  Definition follows_official (name_of : bstr -> bstr -> bstr) : Prop :=
    forall base s j, nth_error (variants base) j = Some s -> official_name base j (name_of base s).
End Official.
