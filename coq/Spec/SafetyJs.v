(* C06 for the JavaScript generator: the recursion budget one file needs.  [jw_height n] is the nesting depth of the
   tree as soyjs's walker descends it: one level per node, the children being the nodes the case of that node hands
   to s.walk / s.block (Spec/Safety.v [tree_height] counts the same children), except that a GLOBAL is replaced by
   the nodes nodeFromValue builds from its value (a list or map literal per level of the value), so it counts the
   depth of its value.  Definitions only. *)
From Soy Require Import Model.Bytes Model.Num Model.Values Model.Ast.
Open Scope N_scope.

Fixpoint jw_vdepth (v : value) {struct v} : nat :=
  match v with
  | VList _ l => S (fold_right (fun x acc => Nat.max (jw_vdepth x) acc) 0%nat l)
  | VMap _ m => S (fold_right (fun kx acc => Nat.max (jw_vdepth (snd kx)) acc) 0%nat m)
  | _ => 1%nat
  end.

Fixpoint jw_height (n : node) {struct n} : nat :=
  let hmax := fold_right (fun x acc => Nat.max (jw_height x) acc) 0%nat in
  let hopt := fun o : option node => match o with Some x => jw_height x | None => 0%nat end in
  S match n with
    | NGlobal _ _ v => jw_vdepth v
    | NFunc _ _ args => hmax args
    | NListLit _ items => hmax items
    | NMapLit _ items => fold_right (fun kv acc => Nat.max (jw_height (snd kv)) acc) 0%nat items
    | NDataRef _ _ acc => hmax acc
    | NAccExpr _ _ e => jw_height e
    | NNot _ a | NNeg _ a => jw_height a
    | NBin _ _ a1 a2 => Nat.max (jw_height a1) (jw_height a2)
    | NTern _ a1 a2 a3 => Nat.max (jw_height a1) (Nat.max (jw_height a2) (jw_height a3))
    | NList _ ns => hmax ns
    | NPrint _ arg dirs => Nat.max (jw_height arg) (hmax dirs)
    | NDirective _ _ args => hmax args
    | NCss _ e _ => hopt e
    | NLog _ body => jw_height body
    | NIf _ conds => hmax conds
    | NIfCond _ c body => Nat.max (hopt c) (jw_height body)
    | NFor _ _ lst body ie => Nat.max (jw_height lst) (Nat.max (jw_height body) (hopt ie))
    | NSwitch _ v cases => Nat.max (jw_height v) (hmax cases)
    | NSwitchCase _ vs body => Nat.max (hmax vs) (jw_height body)
    | NCall _ _ _ dat params => Nat.max (hopt dat) (hmax params)
    | NParamValue _ _ v => jw_height v
    | NParamContent _ _ c => jw_height c
    | NLetValue _ _ e => jw_height e
    | NLetContent _ _ body => jw_height body
    | NMsg _ _ _ _ body => hmax body
    | NMsgPlaceholder _ _ body => jw_height body
    | NMsgPlural _ _ v cases dflt => Nat.max (jw_height v) (Nat.max (hmax cases) (hmax dflt))
    | NMsgPluralCase _ _ body => hmax body
    | NTemplate _ _ body _ _ => jw_height body
    | _ => 0%nat
    end.
Definition jw_hmax (l : list node) : nat := fold_right (fun x acc => Nat.max (jw_height x) acc) 0%nat l.
Definition jw_hopt (o : option node) : nat := match o with Some x => jw_height x | None => 0%nat end.
Definition jw_hmap (l : list (bstr * node)) : nat := fold_right (fun kv acc => Nat.max (jw_height (snd kv)) acc) 0%nat l.

(* A message body as the generator's own loops can traverse it within their budget [JsGen.msg_size]: the children lists
   of a message (its body, the bodies of the cases and the default of its plurals, recursively) hold no bare ListNode.
   (MsgNode.Placeholder descends into a ListNode; [nmsg_size] counts a ListNode as one step whatever it contains, so a
   tree with a ListNode among a message's children -- which the parser never builds: the children of a message are raw
   text, placeholders, HTML tags and plurals -- can make the MODEL's search run out of its budget where the Go code
   just goes on.) *)
Fixpoint jw_msg_child_ok (n : node) {struct n} : bool :=
  match n with
  | NList _ _ => false
  | NMsgPlural _ _ _ cases dflt => forallb jw_msg_child_ok cases && forallb jw_msg_child_ok dflt
  | NMsgPluralCase _ _ body => forallb jw_msg_child_ok body
  | _ => true
  end.
