(* C15, template level with tags: a body that is stretches of text separated by special-character commands.
   {sp} is a space, {nil} nothing, {\t} {\r} {\n} tab, CR, LF, {lb} {rb} the braces.  The text of the body is
   the normalised stretches and the commands' characters, in order; a stretch is normalised as a whole, with
   no flagged end (its neighbours are tags), and here is a stretch in which the Spec finds no comment. *)
From Soy Require Import Model.Bytes Spec.Text.
Open Scope N_scope.

(* command name (between the braces), the text it stands for *)
Definition special_cmds : list (bstr * bstr) :=
  [([115; 112], [32]); ([110; 105; 108], []); ([92; 116], [9]); ([92; 114], [13]); ([92; 110], [10]);
   ([108; 98], [123]); ([114; 98], [125])].

(* {literal}s{/literal}: the text s, verbatim.  It is treated as a command whose "name" is everything between
   the outer braces and whose text is s; s must not contain the closing tag before its end.  Blanks before the
   brace of the opening tag are allowed ([lit_name_sp] below). *)
Definition lit_close : bstr := Eval vm_compute in b "{/literal}".
Definition lit_open_tail : bstr := Eval vm_compute in b "literal}".
Definition lit_close_head : bstr := Eval vm_compute in b "{/literal".
Definition lit_name (s : bstr) : bstr := lit_open_tail ++ s ++ lit_close_head.
Fixpoint first_close (s : bstr) : option nat :=
  if is_prefix lit_close s then Some 0%nat
  else match s with [] => None | _ :: r => match first_close r with Some k => Some (S k) | None => None end end.
Definition lit_closed (s : bstr) : Prop := forall r, first_close (s ++ lit_close ++ r) = Some (length s).

(* the opening tag may be written with blanks before its brace -- {literal  } -- (lexLiteral skips spaces and
   tabs after the word): [lit_name_sp sp s] with sp a run of spaces and tabs; [lit_name s] is the case sp = [] *)
Definition lit_word : bstr := Eval vm_compute in b "literal".
Definition lit_blank (c : N) : Prop := c = 32 \/ c = 9.
Definition lit_name_sp (sp s : bstr) : bstr := lit_word ++ sp ++ [125] ++ s ++ lit_close_head.

Definition seg := ((bstr * bstr) * bstr)%type.       (* a command, then the stretch of text after it *)
Definition cmd_ok (c : bstr * bstr) : Prop :=
  In c special_cmds \/ (exists sp, Forall lit_blank sp /\ fst c = lit_name_sp sp (snd c) /\ lit_closed (snd c)).

Fixpoint rest_src (r : list seg) : bstr :=
  match r with [] => [] | ((n, _), T) :: r' => [123] ++ n ++ [125] ++ T ++ rest_src r' end.
Fixpoint rest_out (r : list seg) : bstr :=
  match r with [] => [] | ((_, o), T) :: r' => o ++ normalize false false T ++ rest_out r' end.

Definition body_src (T0 : bstr) (r : list seg) : bstr := T0 ++ rest_src r.
Definition body_out (T0 : bstr) (r : list seg) : bstr := normalize false false T0 ++ rest_out r.

(* a stretch: no NUL, no brace, and no comment in the Spec's sense ([start]: it begins the input) *)
Definition stretch_ok (start : bool) (T : bstr) : Prop :=
  Forall (fun c => c <> 0 /\ c <> 123 /\ c <> 125) T /\ pieces MText start [] T = Some [T].
Definition seg_ok (s : seg) : Prop := cmd_ok (fst s) /\ stretch_ok false (snd s).
