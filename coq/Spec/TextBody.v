(* C15, template level with tags: a body that is stretches of text separated by special-character commands.
   {sp} is a space, {nil} nothing, {\t} {\r} {\n} tab, CR, LF, {lb} {rb} the braces.  The text of the body is
   the normalised stretches and the commands' characters, in order; a stretch is normalised as a whole, with
   no flagged end (its neighbours are tags), and here is a stretch in which the Spec finds no comment. *)
From Soy Require Import Model.Bytes Spec.Text.
Open Scope N_scope.

(* command name (between the braces), the text it stands for *)
Definition special_cmds : list (bstr * bstr) :=
  [([115; 112], [32]); ([110; 105; 108], []); ([92; 116], [9]); ([92; 114], [13]); ([92; 110], [10]);
   ([108; 98], [123]); ([114; 98], [125])].

Definition seg := ((bstr * bstr) * bstr)%type.       (* a command, then the stretch of text after it *)

Fixpoint rest_src (r : list seg) : bstr :=
  match r with [] => [] | ((n, _), T) :: r' => [123] ++ n ++ [125] ++ T ++ rest_src r' end.
Fixpoint rest_out (r : list seg) : bstr :=
  match r with [] => [] | ((_, o), T) :: r' => o ++ normalize false false T ++ rest_out r' end.

Definition body_src (T0 : bstr) (r : list seg) : bstr := T0 ++ rest_src r.
Definition body_out (T0 : bstr) (r : list seg) : bstr := normalize false false T0 ++ rest_out r.

(* a stretch: no NUL, no brace, and no comment in the Spec's sense ([start]: it begins the input) *)
Definition stretch_ok (start : bool) (T : bstr) : Prop :=
  Forall (fun c => c <> 0 /\ c <> 123 /\ c <> 125) T /\ pieces MText start [] T = Some [T].
Definition seg_ok (s : seg) : Prop := In (fst s) special_cmds /\ stretch_ok false (snd s).
