(* What "escaped for HTML" means: a decoder for character references and the
   language of safely escaped text. *)
From Soy Require Import Model.Bytes.
Open Scope N_scope.

Definition html_specials : list N := [34; 38; 39; 60; 62].   (* quote, ampersand, apostrophe, less-than, greater-than *)
Definition is_special (c : N) : bool := mem c html_specials.

(* The references a browser decodes to the five special characters. *)
Definition known_entities : list (bstr * N) := Eval vm_compute in
  [ (b "&amp;", 38); (b "&lt;", 60); (b "&gt;", 62);
    (b "&#34;", 34); (b "&quot;", 34); (b "&#39;", 39); (b "&apos;", 39) ].

Fixpoint match_entity (l : list (bstr * N)) (s : bstr) : option (N * nat) :=
  match l with
  | [] => None
  | (e, c) :: r => if is_prefix e s then Some (c, length e) else match_entity r s
  end.

(* structural decoder: [skip] bytes of an already recognised reference are
   dropped *)
Fixpoint html_decode_aux (skip : nat) (s : bstr) : bstr :=
  match s with
  | [] => []
  | c :: r =>
      match skip with
      | S k => html_decode_aux k r
      | O => match match_entity known_entities s with
             | Some (ch, len) => ch :: html_decode_aux (pred len) r
             | None => c :: html_decode_aux 0 r
             end
      end
  end.
Definition html_decode (s : bstr) : bstr := html_decode_aux 0 s.

(* text in which no special character occurs outside a character reference *)
Inductive escaped : bstr -> Prop :=
| escaped_nil : escaped []
| escaped_char c r : is_special c = false -> escaped r -> escaped (c :: r)
| escaped_ent e c r : In (e, c) known_entities -> escaped r -> escaped (e ++ r).

Definition no_raw_special (s : bstr) : Prop :=
  Forall (fun c => mem c [34; 39; 60; 62] = false) s.

(* remove every occurrence of a markup token such as <br> or <wbr> *)
Fixpoint remove_tok_aux (tok : bstr) (skip : nat) (s : bstr) : bstr :=
  match s with
  | [] => []
  | c :: r =>
      match skip with
      | S k => remove_tok_aux tok k r
      | O => if is_prefix tok s then remove_tok_aux tok (pred (length tok)) r
             else c :: remove_tok_aux tok 0 r
      end
  end.
Definition remove_tok (tok s : bstr) : bstr := remove_tok_aux tok 0 s.
