(* C12: what "a failing output writer always surfaces" demands of a render.
   The writer is an automaton with two budgets: [cl = Some k] makes the
   (k+1)-th Write call fail outright; [bl = Some b] accepts b bytes in total and
   answers the Write call that exceeds it with a short write and an error. *)
From Soy Require Import Model.Bytes Model.Outcome Model.Interp.
Open Scope N_scope.

(* the bytes the caller's writer accepted *)
Definition accepted (r : render_result) : bstr := concat_b (rr_writes r).

Definition prefix_of (p s : bstr) : Prop := exists rest, s = p ++ rest.

(* the automaton refuses something when faced with the Write calls [writes] of the fault-free render *)
Definition refuses (cl : option nat) (bl : option N) (writes : list bstr) : Prop :=
  (exists k, cl = Some k /\ (k < length writes)%nat) \/
  (exists k, bl = Some k /\ k < N.of_nat (length (concat_b writes))).

(* where a refused render stopped: after exactly [cl] whole Write calls of the fault-free render,
   or with the byte budget exactly filled *)
Definition stopped_at (cl : option nat) (bl : option N) (ws ws0 : list bstr) : Prop :=
  (cl = Some (length ws) /\ exists later, ws0 = ws ++ later) \/
  bl = Some (N.of_nat (length (concat_b ws))).

(* the render reports the failure: it returns the write error.  ([Crash e_index]
   is the panic of Registry.LineNumber inside errRecover when the position of
   the failing node lies outside the recorded source -- defect I9 and the message-part
   positions of notes/applied/C12-msg-part-positions.diff, excluded by C06's registry
   well-formedness; it is not a nil error either.) *)
Definition surfaced (o : outcome unit) : Prop := o = Err e_write \/ o = Crash e_index.
