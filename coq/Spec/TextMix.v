(* C15, template level: bodies in which comments and tags mix (extends Spec/TextBody.v). *)
From Soy Require Import Model.Bytes Spec.Text Spec.TextBody.
Open Scope N_scope.

(* ---- bodies in which comments and tags mix ----
   T0 {c1} T1 {c2} ... {cn} Tn with comments allowed in every stretch.  Each stretch is cut at its comments as
   in Spec/Text.v and its pieces are normalised separately ([body_text]; a tag is an unflagged end, a comment a
   flagged one); T0 begins the input (a leading "//" is a comment), a stretch after a tag follows '}' (a leading
   "//" is text).  A line comment that is still open where a tag begins would swallow the tag ("// x {sp}" is
   all comment up to the end of the line): the Spec demands that no stretch but the last ends inside one. *)

(* [line_open m pw T]: the comment automaton of [pieces], started in mode [m], is inside a "//" comment at the
   end of T *)
Fixpoint line_open (m : cmode) (prev_ws : bool) (T : bstr) : bool :=
  match T with
  | [] => match m with MLine | MOpenLine => true | _ => false end
  | c :: r =>
      match m with
      | MText =>
          if c =? 47 then
            match r with
            | d :: _ =>
                if d =? 42 then line_open MOpenBlock false r
                else if (d =? 47) && prev_ws then line_open MOpenLine false r
                else line_open MText (ws c) r
            | [] => false
            end
          else line_open MText (ws c) r
      | MOpenLine => line_open MLine false r
      | MOpenBlock => line_open (MBlock false) false r
      | MLine => if line_break c then line_open MText true r else line_open MLine false r
      | MBlock star =>
          if c =? 42 then line_open (MBlock true) false r
          else if (c =? 47) && star then line_open MText false r
          else line_open (MBlock false) false r
      end
  end.

(* a stretch with comments: no NUL, no brace; [last = false]: a tag follows, no line comment may be open *)
Definition mix_stretch_ok (start last : bool) (T : bstr) : Prop :=
  Forall (fun c => c <> 0 /\ c <> 123 /\ c <> 125) T /\ (last = false -> line_open MText start T = false).

Fixpoint mix_rest_ok (r : list seg) : Prop :=
  match r with
  | [] => True
  | (c, T) :: r' => cmd_ok c /\ mix_stretch_ok false (match r' with [] => true | _ => false end) T /\ mix_rest_ok r'
  end.
Definition mix_body_ok (T0 : bstr) (r : list seg) : Prop :=
  mix_stretch_ok true (match r with [] => true | _ => false end) T0 /\ mix_rest_ok r.

Definition app_opt (x : bstr) (o : option bstr) : option bstr := match o with Some y => Some (x ++ y) | None => None end.
Fixpoint mix_rest_out (r : list seg) : option bstr :=
  match r with
  | [] => Some []
  | ((_, o), T) :: r' =>
      match body_text false T with
      | Some t => app_opt (o ++ t) (mix_rest_out r')
      | None => None
      end
  end.
(* None: some stretch has an unclosed block comment or a soydoc opener *)
Definition mix_body_out (T0 : bstr) (r : list seg) : option bstr :=
  match body_text true T0 with
  | Some t => app_opt t (mix_rest_out r)
  | None => None
  end.
