(* C14: what a generated chunk list defines, and which files the structural
   theorem talks about.  Declarative definitions only. *)
From Soy Require Import Model.Bytes Model.Num Model.Values Model.Outcome Model.Ast Model.JsGen.
Open Scope N_scope.

(* the nodes the walker may reach from a node in one step *)
Definition opt_list {A} (x : option A) : list A := match x with Some y => [y] | None => [] end.
Definition children (n : node) : list node :=
  match n with
  | NFunc _ _ args => args
  | NListLit _ items => items
  | NMapLit _ items => map snd items
  | NDataRef _ _ acc => acc
  | NAccExpr _ _ a => [a]
  | NNot _ a | NNeg _ a => [a]
  | NBin _ _ a c => [a; c]
  | NTern _ a c d => [a; c; d]
  | NList _ ns => ns
  | NPrint _ a dirs => a :: dirs
  | NDirective _ _ args => args
  | NCss _ e _ => opt_list e
  | NLog _ bd => [bd]
  | NIf _ conds => conds
  | NIfCond _ c bd => opt_list c ++ [bd]
  | NFor _ _ l bd ie => l :: bd :: opt_list ie
  | NSwitch _ v cases => v :: cases
  | NSwitchCase _ vs bd => vs ++ [bd]
  | NCall _ _ _ d ps => opt_list d ++ ps
  | NParamValue _ _ v => [v]
  | NParamContent _ _ c => [c]
  | NLetValue _ _ e => [e]
  | NLetContent _ _ bd => [bd]
  | NMsg _ _ _ _ body => body
  | NMsgPlaceholder _ _ bd => [bd]
  | NMsgPlural _ _ v cases dflt => v :: cases ++ dflt
  | NMsgPluralCase _ _ body => body
  | NTemplate _ _ bd _ _ => [bd]
  | NGlobal p _ v => opt_list (node_of_value p v)
  | _ => []
  end.


(* m is n or a descendant of n *)
Inductive reach : node -> node -> Prop :=
| reach_refl n : reach n n
| reach_step n m k : In m (children n) -> reach m k -> reach n k.

(* no template or namespace node at or below n *)
Definition no_tmpl_ns (n : node) : Prop :=
  forall m, reach n m -> match m with NTemplate _ _ _ _ _ | NNamespace _ _ _ => False | _ => True end.

(* a top-level node of a Soy file: a namespace, a template whose body nests no
   template or namespace, or anything else (soydoc) that nests none *)
Definition top_ok (n : node) : Prop :=
  match n with
  | NTemplate _ _ body _ _ => no_tmpl_ns body
  | NNamespace _ _ _ => True
  | _ => no_tmpl_ns n
  end.

Fixpoint template_names (body : list node) : list bstr :=
  match body with
  | [] => []
  | NTemplate _ name _ _ _ :: r => name :: template_names r
  | _ :: r => template_names r
  end.
Fixpoint namespace_names (body : list node) : list bstr :=
  match body with
  | [] => []
  | NNamespace _ name _ :: r => name :: namespace_names r
  | _ :: r => namespace_names r
  end.

(* function headers of a chunk list: the name chunk that precedes the
   parameter list "(opt_data, opt_sb, opt_ijData) {" *)
Fixpoint dn (last : option bstr) (cs : list chunk) : list bstr :=
  match cs with
  | [] => []
  | CName x :: r => dn (Some x) r
  | CText t :: r => if bstr_eqb t t_fn_params then (match last with Some x => [x] | None => [] end) ++ dn last r else dn last r
  | _ :: r => dn last r
  end.
Definition defined_names (cs : list chunk) : list bstr := dn None cs.

(* namespace-object declarations: the name chunk that follows "if (typeof " *)
Fixpoint declared_objects (cs : list chunk) : list bstr :=
  match cs with
  | [] => []
  | CText t :: r =>
      match r with
      | CName x :: r' => if bstr_eqb t t_ns1 then x :: declared_objects r' else declared_objects r
      | _ => declared_objects r
      end
  | _ :: r => declared_objects r
  end.

(* the dotted prefixes visitNamespace declares (the loop of ns_decls, as a list) *)
Fixpoint ns_prefixes (fuel : nat) (name : bstr) (i : nat) : list bstr :=
  match fuel with
  | O => []
  | S f =>
      if Nat.ltb i (length name) then
        let i' := match find_dot (drop (S i) name) (S i) with Some j => j | None => length name end in
        take i' name :: ns_prefixes f name i'
      else []
  end.
Definition ns_prefix_list (name : bstr) : list bstr := ns_prefixes (S (length name)) name 0.
