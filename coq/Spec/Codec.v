(* Decoders the encoding directives are measured against (DESIGN B.5).
   They are written from the standards, not from the encoders:
     pct_decode         URL query-component decoding (application/x-www-form-urlencoded)
     js_read_literal    the body of an ECMAScript (5.1) string literal
     json_parse_string  an RFC 8259 string
   Source text and results are UTF-8 byte strings; escapes denote UTF-16 code
   units which are re-encoded to UTF-8 (surrogate pairs combined, a lone
   surrogate becomes U+FFFD, as every UTF-16 -> UTF-8 conversion does). *)
From Soy Require Import Model.Bytes Model.Utf8.
Open Scope N_scope.

Definition hexval (c : N) : option N :=
  if in_range 48 57 c then Some (c - 48)
  else if in_range 65 70 c then Some (c - 55)
  else if in_range 97 102 c then Some (c - 87)
  else None.

Definition hexval2 (h1 h2 : N) : option N :=
  match hexval h1, hexval h2 with
  | Some a, Some c => Some (a * 16 + c)
  | _, _ => None
  end.

Definition hexval4 (h1 h2 h3 h4 : N) : option N :=
  match hexval2 h1 h2, hexval2 h3 h4 with
  | Some a, Some c => Some (a * 256 + c)
  | _, _ => None
  end.

(* ---- URL query decoding ---- *)
Fixpoint pct_decode (s : bstr) : option bstr :=
  match s with
  | [] => Some []
  | c :: r =>
      if c =? 37 then
        match r with
        | h1 :: h2 :: r2 =>
            match hexval2 h1 h2 with
            | Some v => option_map (cons v) (pct_decode r2)
            | None => None
            end
        | _ => None
        end
      else if c =? 43 then option_map (cons 32) (pct_decode r)
      else option_map (cons c) (pct_decode r)
  end.

Definition uri_safe_byte (c : N) : bool :=
  in_range 65 90 c || in_range 97 122 c || in_range 48 57 c || mem c [45; 95; 46; 126; 43; 37].

(* ---- UTF-16 code units -> UTF-8 ---- *)
Inductive jtok := TByte (c : N)    (* a source byte that stands for itself *)
                | TUnit (u : N).   (* a code unit denoted by an escape *)

Definition is_high (u : N) : bool := in_range 55296 56319 u.
Definition is_low (u : N) : bool := in_range 56320 57343 u.
Definition fffd : bstr := [239; 191; 189].
Definition flush_hi (hi : option N) : bstr := match hi with Some _ => fffd | None => [] end.

(* [hi] = a pending high surrogate.  Returns the bytes to output now and the
   new pending state. *)
Definition emit_tok (hi : option N) (t : jtok) : bstr * option N :=
  match t with
  | TByte c => (flush_hi hi ++ [c], None)
  | TUnit u =>
      match hi with
      | Some h =>
          if is_low u then (encode_rune (65536 + (h - 55296) * 1024 + (u - 56320)), None)
          else if is_high u then (fffd, Some u)
          else (fffd ++ encode_rune u, None)
      | None => if is_high u then ([], Some u) else (encode_rune u, None)   (* a lone low surrogate encodes as U+FFFD *)
      end
  end.

(* ---- ECMAScript string literal body (the text between the quotes) ---- *)

(* SingleEscapeCharacter *)
Definition js_single_escape (e : N) : option N :=
  if e =? 92 then Some 92 else if e =? 39 then Some 39 else if e =? 34 then Some 34
  else if e =? 110 then Some 10 else if e =? 114 then Some 13 else if e =? 116 then Some 9
  else if e =? 98 then Some 8 else if e =? 102 then Some 12 else if e =? 118 then Some 11
  else None.

(* NonEscapeCharacter, restricted to ASCII: backslash followed by a character
   that is not a SingleEscapeCharacter, a DecimalDigit, x, u or a
   LineTerminator denotes that character (for example backslash-slash). *)
Definition js_non_escape (e : N) : bool :=
  (e <? 128) && negb (in_range 48 57 e) && negb (e =? 120) && negb (e =? 117)
  && negb (e =? 10) && negb (e =? 13).

(* one token at the head of [s] and the number of source bytes it occupies;
   [q] is the quote character delimiting the literal.  None = not a legal
   literal body.  (Octal / backslash-zero escapes, line continuations and
   backslash before a non-ASCII character are rejected: stricter than the
   grammar, never laxer.) *)
Definition js_tok (q : N) (s : bstr) : option (jtok * nat) :=
  match s with
  | [] => None
  | c :: r =>
      if c =? q then None                          (* raw delimiter *)
      else if (c =? 10) || (c =? 13) then None     (* LineTerminator *)
      else if c =? 226 then                        (* U+2028 / U+2029 are LineTerminators too *)
        match r with
        | c1 :: c2 :: _ => if (c1 =? 128) && ((c2 =? 168) || (c2 =? 169)) then None else Some (TByte c, 1%nat)
        | _ => Some (TByte c, 1%nat)
        end
      else if c =? 92 then
        match r with
        | [] => None
        | e :: r1 =>
            if e =? 120 then                       (* \xHH *)
              match r1 with
              | h1 :: h2 :: _ => option_map (fun v => (TUnit v, 4%nat)) (hexval2 h1 h2)
              | _ => None
              end
            else if e =? 117 then                  (* \uHHHH *)
              match r1 with
              | h1 :: h2 :: h3 :: h4 :: _ => option_map (fun v => (TUnit v, 6%nat)) (hexval4 h1 h2 h3 h4)
              | _ => None
              end
            else match js_single_escape e with
                 | Some v => Some (TUnit v, 2%nat)
                 | None => if js_non_escape e then Some (TUnit e, 2%nat) else None
                 end
        end
      else Some (TByte c, 1%nat)
  end.

Fixpoint js_read_aux (q : N) (skip : nat) (hi : option N) (s : bstr) : option bstr :=
  match s with
  | [] => match skip with O => Some (flush_hi hi) | S _ => None end
  | _ :: r =>
      match skip with
      | S k => js_read_aux q k hi r
      | O =>
          match js_tok q s with
          | None => None
          | Some (t, n) =>
              let '(out, hi') := emit_tok hi t in
              option_map (app out) (js_read_aux q (pred n) hi' r)
          end
      end
  end.

(* the value of the literal  q body q *)
Definition js_read_literal_q (q : N) (body : bstr) : option bstr := js_read_aux q 0 None body.
Definition js_read_literal (body : bstr) : option bstr := js_read_literal_q 39 body.   (* '...' *)

(* ---- RFC 8259 string ---- *)
Definition json_single_escape (e : N) : option N :=
  if e =? 34 then Some 34 else if e =? 92 then Some 92 else if e =? 47 then Some 47
  else if e =? 98 then Some 8 else if e =? 102 then Some 12 else if e =? 110 then Some 10
  else if e =? 114 then Some 13 else if e =? 116 then Some 9
  else None.

Definition json_tok (s : bstr) : option (jtok * nat) :=
  match s with
  | [] => None
  | c :: r =>
      if c <? 32 then None                         (* control characters must be escaped *)
      else if c =? 92 then
        match r with
        | [] => None
        | e :: r1 =>
            if e =? 117 then
              match r1 with
              | h1 :: h2 :: h3 :: h4 :: _ => option_map (fun v => (TUnit v, 6%nat)) (hexval4 h1 h2 h3 h4)
              | _ => None
              end
            else option_map (fun v => (TUnit v, 2%nat)) (json_single_escape e)
        end
      else Some (TByte c, 1%nat)
  end.

(* after the opening quote; the closing quote must be the last byte *)
Fixpoint json_read_aux (skip : nat) (hi : option N) (s : bstr) : option bstr :=
  match s with
  | [] => None                                     (* unterminated *)
  | c :: r =>
      match skip with
      | S k => json_read_aux k hi r
      | O =>
          if c =? 34 then match r with [] => Some (flush_hi hi) | _ => None end
          else
            match json_tok s with
            | None => None
            | Some (t, n) =>
                let '(out, hi') := emit_tok hi t in
                option_map (app out) (json_read_aux (pred n) hi' r)
            end
      end
  end.

Definition json_parse_string (s : bstr) : option bstr :=
  match s with
  | c :: r => if c =? 34 then json_read_aux 0 None r else None
  | [] => None
  end.

(* ---- text transformations used in the statements ---- *)
Fixpoint remove_newlines (s : bstr) : bstr :=
  match s with
  | [] => []
  | c :: r => if (c =? 10) || (c =? 13) then remove_newlines r else c :: remove_newlines r
  end.
