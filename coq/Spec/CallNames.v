(* C02 -- which template a call denotes: what the language defines for the three
   ways of writing a template name in {call ...}, for {alias ...}, and for the
   name a {template .x} declares.  Declarative; nothing here mentions the parser
   state or the registry's data structures.  Definitions only. *)
From Soy Require Import Model.Bytes Model.Values Model.Ast.
Open Scope N_scope.

Definition dot : N := 46.
Definition no_dot (k : bstr) : Prop := ~ In dot k.

(* [resolves ns al written full]: in a file whose namespace is [ns] and whose
   aliases are [al] (alias -> namespace, latest declaration first), a call that
   writes [written] denotes the template [full]:
     .x            the file's own namespace:          ns.x
     k.rest        k an alias of the file:            (namespace of k).rest
     k.rest        k not an alias:                    as written (fully qualified)
     name          without any dot:                   as written *)
Inductive resolves (ns : bstr) (al : list (bstr * bstr)) : bstr -> bstr -> Prop :=
| RRelative x : resolves ns al (dot :: x) (ns ++ dot :: x)
| RAliased k rest full : k <> [] -> no_dot k -> assoc_s k al = Some full ->
    resolves ns al (k ++ dot :: rest) (full ++ dot :: rest)
| RQualified k rest : k <> [] -> no_dot k -> assoc_s k al = None ->
    resolves ns al (k ++ dot :: rest) (k ++ dot :: rest)
| RPlain name : no_dot name -> resolves ns al name name.

(* {alias a.b.c}: [first] = "a", [segs] = [".b"; ".c"]; the alias is the last
   segment without its dot, and it stands for the whole dotted name *)
Definition alias_key (first : bstr) (segs : list bstr) : bstr :=
  match rev segs with [] => first | s :: _ => tl s end.
Definition alias_target (first : bstr) (segs : list bstr) : bstr := first ++ concat segs.

(* {template .x} in a file of namespace [ns] declares ns.x *)
Definition declared_name (ns id : bstr) : bstr := ns ++ id.
