(* C20: what "Go values convert faithfully to Soy data" means, written as a relation and
   independently of the functions of Model/Convert.v (only the [goval] type, the [value] type
   and the utf8 library model are shared).

   [converts g v]: v has the same structure and the same scalar values as g.
     - nil (interface, pointer) is null; pointers and interfaces are transparent;
     - every integer kind gives the Int with the same mathematical value, every float kind the
       Float with the same value, strings the same bytes, time values their formatted text;
     - a slice gives a list of the same length whose elements correspond pointwise;
     - a string-keyed map gives a map with exactly the same keys, values corresponding;
     - a struct gives a map with one key per exported field, named by the field name with its
       first letter lowered (when the LowerCamel option is set), values corresponding;
       unexported fields do not appear; embedded fields are ordinary fields named by their type;
     - a Marshaler gives what MarshalValue returns; an existing data.Value is itself.
   Identities (ids) of the produced lists and maps are not constrained here ("modulo ids");
   they are the subject of the freshness theorems. *)
From Soy Require Import Model.Bytes Model.Num Model.Utf8 Model.Values Model.Convert.
Open Scope N_scope.

(* the binding of k that a sequence of assignments m[k] = x leaves behind *)
Fixpoint last_binding {A} (k : bstr) (l : list (bstr * A)) : option A :=
  match l with
  | [] => None
  | (k', x) :: r =>
      match last_binding k r with
      | Some y => Some y
      | None => if bstr_eqb k k' then Some x else None
      end
  end.

Section Spec.
  Variable lower_camel : bool.
  Variable to_lower_hi : N -> N.     (* unicode.ToLower above ASCII *)

  Definition spec_lower (r : N) : N :=
    if r <? 65 then r else if r <=? 90 then r + 32 else if r <? 128 then r else to_lower_hi r.

  (* first rune lowered, the remaining bytes unchanged *)
  Definition lowered_name (name : bstr) : bstr :=
    encode_rune (spec_lower (fst (decode_rune name))) ++ skipn (snd (decode_rune name)) name.

  Definition spec_key (name : bstr) : bstr := if lower_camel then lowered_name name else name.

  (* the (key, field value) pairs a struct shows: exported fields only, in declaration order *)
  Definition struct_entries (fs : list (bstr * (bool * (bool * goval)))) : list (bstr * goval) :=
    map (fun fd => (spec_key (fst fd), snd (snd (snd fd)))) (filter (fun fd => fst (snd fd)) fs).

  Inductive converts : goval -> value -> Prop :=
  | cv_nil : converts GNil VNull
  | cv_bool x : converts (GBool x) (VBool x)
  | cv_int w z : converts (GInt w z) (VInt z)
  | cv_uint w z : converts (GUint w z) (VInt z)
  | cv_float w f : converts (GFloat w f) (VFloat f)
  | cv_str s : converts (GStr s) (VStr s)
  | cv_time s : converts (GTime s) (VStr s)
  | cv_slice_nil i : converts (GSlice None) (VList i [])
  | cv_slice l vs i : Forall2 converts l vs -> converts (GSlice (Some l)) (VList i vs)
  | cv_map_nil i : converts (GMap None) (VMap i [])
  | cv_map m vm i :
      (forall k g, last_binding k m = Some g -> exists v, assoc_s k vm = Some v /\ converts g v) ->
      (forall k, last_binding k m = None -> assoc_s k vm = None) ->
      converts (GMap (Some m)) (VMap i vm)
  | cv_map_otherkey_empty i : converts (GMapBadKey 0) (VMap i [])
  | cv_struct fs vm i :
      (forall k g, last_binding k (struct_entries fs) = Some g -> exists v, assoc_s k vm = Some v /\ converts g v) ->
      (forall k, last_binding k (struct_entries fs) = None -> assoc_s k vm = None) ->
      converts (GStruct fs) (VMap i vm)
  | cv_ptr_nil : converts (GPtr None) VNull
  | cv_ptr g v : converts g v -> converts (GPtr (Some g)) v
  | cv_iface_nil : converts (GIface None) VNull
  | cv_iface g v : converts g v -> converts (GIface (Some g)) v
  | cv_marshal v : converts (GMarshal v) v
  | cv_value v : converts (GValue v) v.
End Spec.

(* A Go unsigned integer of at least 2^63 has no Int with the same value (Int is int64).
   [uints_fit g]: no such value occurs in g. *)
Fixpoint uints_fit (g : goval) : bool :=
  match g with
  | GUint _ z => (0 <=? z)%Z && (z <? two63)%Z
  | GSlice (Some l) => forallb uints_fit l
  | GMap (Some m) => forallb (fun kx => uints_fit (snd kx)) m
  | GStruct fs => forallb (fun fd => uints_fit (snd (snd (snd fd)))) fs
  | GPtr (Some g') | GIface (Some g') => uints_fit g'
  | _ => true
  end.

(* values reflect can actually produce: integers within the range of their kind *)
Fixpoint ints_in_range (g : goval) : bool :=
  match g with
  | GInt _ z => in_int64 z
  | GUint _ z => (0 <=? z)%Z && (z <? two64)%Z
  | GSlice (Some l) => forallb ints_in_range l
  | GMap (Some m) => forallb (fun kx => ints_in_range (snd kx)) m
  | GStruct fs => forallb (fun fd => ints_in_range (snd (snd (snd fd)))) fs
  | GPtr (Some g') | GIface (Some g') => ints_in_range g'
  | _ => true
  end.
