(* C20: what "Go values convert faithfully to Soy data" means, written as a relation and
   independently of the functions of Model/Convert.v (only the [goval] type, the [value] type
   and the utf8 library model are shared).

   [converts g v]: v has the same structure and the same scalar values as g.
     - nil (interface, pointer) is null; pointers and interfaces are transparent;
     - every integer kind gives the Int with the same mathematical value, every float kind the
       Float with the same value, strings the same bytes, time values their formatted text;
     - a slice gives a list of the same length whose elements correspond pointwise;
     - a string-keyed map gives a map with exactly the same keys, values corresponding;
     - a struct gives a map with one key per exported field, named by the field name with its
       first letter lowered (when the LowerCamel option is set), values corresponding;
       unexported fields do not appear; embedded fields are ordinary fields named by their type;
     - an unsigned integer that no Int can hold (>= 2^63) gives the Float nearest to it: relative
       error at most 2^-53 (REPAIR notes/pending/C20-uint64-float.diff; the pinned tree wraps it
       to a negative Int);
     - a Marshaler gives what MarshalValue returns; an existing data.Value is itself.
       Go's method sets make both depend on how the value is reached: behind two or more pointers
       (or a pointer to an interface) neither method set is consulted and the value converts as the
       plain Go value it is -- a Marshaler like its underlying struct/slice/..., a data.Value like
       its underlying type (Int int64, ..., Null and Undefined are empty structs, List a slice of
       Values, Map a string-keyed map).  The relation allows both readings; WHICH one the converter
       takes at which pointer depth is stated by the theorems conv_marshal_direct / conv_marshal_deep /
       conv_value_direct / conv_value_deep of Proofs/ConvertProofs.v;
     - a nil pointer is null whatever it points to.
   Identities (ids) of the produced lists and maps are not constrained here ("modulo ids");
   they are the subject of the freshness theorems. *)
From Soy Require Import Model.Bytes Model.Num Model.Utf8 Model.Values Model.Convert.
Open Scope N_scope.

(* the binding of k that a sequence of assignments m[k] = x leaves behind *)
Fixpoint last_binding {A} (k : bstr) (l : list (bstr * A)) : option A :=
  match l with
  | [] => None
  | (k', x) :: r =>
      match last_binding k r with
      | Some y => Some y
      | None => if bstr_eqb k k' then Some x else None
      end
  end.

(* a data.Value seen as the plain Go value it is (its underlying type) *)
Inductive plain_of : value -> value -> Prop :=
| po_bool x : plain_of (VBool x) (VBool x)
| po_int z : plain_of (VInt z) (VInt z)
| po_float f : plain_of (VFloat f) (VFloat f)
| po_str s : plain_of (VStr s) (VStr s)
| po_null i : plain_of VNull (VMap i [])          (* type Null struct{}: a struct without fields *)
| po_undef i : plain_of VUndef (VMap i [])        (* type Undefined struct{} *)
| po_list i j l : plain_of (VList i l) (VList j l) (* type List []Value: the elements are Values and stay *)
| po_map i j m : plain_of (VMap i m) (VMap j m).   (* type Map map[string]Value *)

Section Spec.
  Variable lower_camel : bool.
  Variable to_lower_hi : N -> N.     (* unicode.ToLower above ASCII *)

  Definition spec_lower (r : N) : N :=
    if r <? 65 then r else if r <=? 90 then r + 32 else if r <? 128 then r else to_lower_hi r.

  (* first rune lowered, the remaining bytes unchanged *)
  Definition lowered_name (name : bstr) : bstr :=
    encode_rune (spec_lower (fst (decode_rune name))) ++ skipn (snd (decode_rune name)) name.

  Definition spec_key (name : bstr) : bstr := if lower_camel then lowered_name name else name.

  (* the (key, field value) pairs a struct shows: exported fields only, in declaration order *)
  Definition struct_entries (fs : list (bstr * (bool * (bool * goval)))) : list (bstr * goval) :=
    map (fun fd => (spec_key (fst fd), snd (snd (snd fd)))) (filter (fun fd => fst (snd fd)) fs).

  Inductive converts : goval -> value -> Prop :=
  | cv_nil : converts GNil VNull
  | cv_bool x : converts (GBool x) (VBool x)
  | cv_int w z : converts (GInt w z) (VInt z)
  | cv_uint w z : (z < two63)%Z -> converts (GUint w z) (VInt z)
  | cv_uint_big w z m e :
      (two63 <= z)%Z -> (0 <= e)%Z -> (Z.abs (m * 2 ^ e - z) * two53 <= z)%Z ->
      converts (GUint w z) (VFloat (FFin m e))
  | cv_float w f : converts (GFloat w f) (VFloat f)
  | cv_str s : converts (GStr s) (VStr s)
  | cv_time s : converts (GTime s) (VStr s)
  | cv_slice_nil i : converts (GSlice None) (VList i [])
  | cv_slice l vs i : Forall2 converts l vs -> converts (GSlice (Some l)) (VList i vs)
  | cv_map_nil i : converts (GMap None) (VMap i [])
  | cv_map m vm i :
      (forall k g, last_binding k m = Some g -> exists v, assoc_s k vm = Some v /\ converts g v) ->
      (forall k, last_binding k m = None -> assoc_s k vm = None) ->
      converts (GMap (Some m)) (VMap i vm)
  | cv_map_otherkey_empty i : converts (GMapBadKey 0) (VMap i [])
  | cv_struct fs vm i :
      (forall k g, last_binding k (struct_entries fs) = Some g -> exists v, assoc_s k vm = Some v /\ converts g v) ->
      (forall k, last_binding k (struct_entries fs) = None -> assoc_s k vm = None) ->
      converts (GStruct fs) (VMap i vm)
  | cv_ptr_nil : converts (GPtr None) VNull
  | cv_ptr g v : converts g v -> converts (GPtr (Some g)) v
  | cv_iface_nil : converts (GIface None) VNull
  | cv_iface g v : converts g v -> converts (GIface (Some g)) v
  | cv_nilptr m : converts (GNilPtrTo m) VNull
  | cv_marshal v u : converts (GMarshal v u) v
  | cv_marshal_plain v u r : converts u r -> converts (GMarshal v u) r
  | cv_value v : converts (GValue v) v
  | cv_value_plain v r : plain_of v r -> converts (GValue v) r.
End Spec.

(* values reflect can actually produce: integers within the range of their kind *)
Fixpoint ints_in_range (g : goval) : bool :=
  match g with
  | GInt _ z => in_int64 z
  | GUint _ z => (0 <=? z)%Z && (z <? two64)%Z
  | GSlice (Some l) => forallb ints_in_range l
  | GMap (Some m) => forallb (fun kx => ints_in_range (snd kx)) m
  | GStruct fs => forallb (fun fd => ints_in_range (snd (snd (snd fd)))) fs
  | GPtr (Some g') | GIface (Some g') => ints_in_range g'
  | GMarshal _ u => ints_in_range u
  | _ => true
  end.

(* The one thing NewWith does that is not a conversion: where it inspects the DYNAMIC TYPE of its
   argument (the argument itself, an element, a map value, a field -- not below a pointer) a pointer
   to one of the eight data.Value types, nil or not, satisfies the data.Value interface through Go's
   method sets and is returned as it is: a data.Value that is none of the eight value types.  The
   model has no such value (OutOfModel); [ptr_to_value CSlot g] says that g contains such a position. *)
Fixpoint ptr_to_value (ctx : cctx) (g : goval) : bool :=
  match g with
  | GValue _ => match ctx with CPtr => true | _ => false end
  | GNilPtrTo false => match ctx with CSlot => true | _ => false end
  | GPtr (Some g') => ptr_to_value (match ctx with CSlot => CPtr | _ => CDeep end) g'
  | GIface (Some g') => ptr_to_value (match ctx with CSlot => CSlot | _ => CDeep end) g'
  | GMarshal _ u => match ctx with CDeep => ptr_to_value CDeep u | _ => false end
  | GSlice (Some l) => existsb (ptr_to_value CSlot) l
  | GMap (Some m) => existsb (fun kx => ptr_to_value CSlot (snd kx)) m
  | GStruct fs => existsb (fun fd => fst (snd fd) && ptr_to_value CSlot (snd (snd (snd fd)))) fs
  | _ => false
  end.
