(* C15, template level: bodies in which the tags between the stretches of text are special-character commands,
   literal blocks (Spec/TextBody.v) AND print commands:   T0 tag1 T1 tag2 ... tagn Tn
   A print command stands in the source as the text its PrintNode.String() writes ({$x|d:1}); it contributes a
   print node to the body, and is a neighbour of text like every tag: an unflagged end of the stretch before it,
   "}" in front of the stretch after it.  The Spec's reading of such a body: the text before the first print
   command, then per print command its tree (up to positions) and the text up to the next one; "text" is the
   concatenation of body_text of the stretches and the characters of the text tags in between. *)
From Soy Require Import Model.Bytes Model.Ast Spec.Text Spec.TextBody Spec.TextMix Spec.ExprSyntax.
Open Scope N_scope.

Inductive c15_tag : Type :=
| C15Text (c : bstr * bstr)            (* a special-character command or a literal block: name, text *)
| C15Print (n : node) (txt : bstr).    (* a print command and its printed text *)
Definition c15_tseg := (c15_tag * bstr)%type.      (* a tag, then the stretch of text after it *)

Definition c15_tag_src (t : c15_tag) : bstr :=
  match t with C15Text (n, _) => [123] ++ n ++ [125] | C15Print _ txt => txt end.
Fixpoint c15_rest_src (r : list c15_tseg) : bstr :=
  match r with [] => [] | (t, T) :: r' => c15_tag_src t ++ T ++ c15_rest_src r' end.
Definition c15_body_src (T0 : bstr) (r : list c15_tseg) : bstr := T0 ++ c15_rest_src r.

(* the print function enters as a parameter (Model/AstPrint.v print_node in the theorems) *)
Definition c15_tag_ok (pr : node -> option bstr) (t : c15_tag) : Prop :=
  match t with C15Text c => cmd_ok c | C15Print n txt => wf_print n /\ pr n = Some txt end.
Fixpoint c15_rest_ok (pr : node -> option bstr) (r : list c15_tseg) : Prop :=
  match r with
  | [] => True
  | (t, T) :: r' => c15_tag_ok pr t /\ mix_stretch_ok false (match r' with [] => true | _ => false end) T /\ c15_rest_ok pr r'
  end.
Definition c15_body_ok (pr : node -> option bstr) (T0 : bstr) (r : list c15_tseg) : Prop :=
  mix_stretch_ok true (match r with [] => true | _ => false end) T0 /\ c15_rest_ok pr r.

(* what a body reads as: the text before the first print command, then each print command with the text after it *)
Definition c15_reading := (bstr * list (node * bstr))%type.
Fixpoint c15_rest_out (r : list c15_tseg) : option c15_reading :=
  match r with
  | [] => Some ([], [])
  | (tg, T) :: r' =>
      match body_text false T, c15_rest_out r' with
      | Some t, Some o =>
          match tg with
          | C15Text (_, tx) => Some (tx ++ t ++ fst o, snd o)
          | C15Print n _ => Some ([], (strip_pos n, t ++ fst o) :: snd o)
          end
      | _, _ => None
      end
  end.
Definition c15_body_out (T0 : bstr) (r : list c15_tseg) : option c15_reading :=
  match body_text true T0, c15_rest_out r with
  | Some t, Some o => Some (t ++ fst o, snd o)
  | _, _ => None
  end.

(* the same reading of a list of nodes: raw-text nodes are text, every other node stands for itself *)
Fixpoint c15_view0 (ns : list node) : c15_reading :=
  match ns with
  | [] => ([], [])
  | n :: r =>
      match n with
      | NRawText _ x => (x ++ fst (c15_view0 r), snd (c15_view0 r))
      | _ => ([], (n, fst (c15_view0 r)) :: snd (c15_view0 r))
      end
  end.
