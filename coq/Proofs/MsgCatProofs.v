(* C11, whole program: rendering with a catalogue whose entries are identity
   translations (or absent) against rendering without a catalogue, through the
   relational reading of the walker (Proofs/InterpRelProofs.v). *)
From Soy Require Import Model.Bytes Model.Outcome Model.Num Model.Values Model.Ast Model.MsgId
  Model.Escape Model.Interp Model.MsgParts Spec.MsgCat Proofs.MsgPartsProofs Proofs.InterpRelProofs Proofs.InterpPosProofs.
Open Scope N_scope.

Section Whole.
Variable cf : cfg.
Variable plural_index : Z -> nat.
Variable bd : bundle.

(* the catalogue entry of a message, if there is one, is its identity
   translation: msgstr = msgid for a message without plural; for a PO plural,
   msgstr[plural_index n] is the msgid of the case the source selects for n *)
Definition ident_ok (id : N) (body : list node) : Prop :=
  match bundle_message bd id with
  | None => True
  | Some m =>
      (reads_back body = true /\ coherent body /\ m = new_message [] [write_body body]) \/
      (exists p vn pv pc cb dflt strs,
          body = [NMsgPlural p vn pv [NMsgPluralCase pc 1%Z cb] dflt] /\ vn <> [] /\
          m = new_message vn strs /\ reads_back cb = true /\ reads_back dflt = true /\ coherent (dflt ++ cb) /\
          forall i, nth_error strs (plural_index i) = Some (write_body (if (i =? 1)%Z then cb else dflt)))
  end.

Lemma ident_ok_0 body : ident_ok 0 body.
Proof. unfold ident_ok, bundle_message. cbn. exact I. Qed.

Notation okP := (okP ident_ok).

Hypothesis Hreg : Forall (fun t => okP (t_node t)) (r_templates (c_reg cf)).

Lemma flat_okP_items body p n b : Forall okP body -> In (NMsgPlaceholder p n b) body -> okP b.
Proof. intros H Hin. rewrite Forall_forall in H. apply (H _ Hin). Qed.

(* ---- a flat message body against its own items, each placeholder resolved to the
        first placeholder of [phs] carrying its name ---- *)

Definition pos_insensitive (w : node -> M value) : Prop :=
  forall b1 b2, okP b1 -> okP b2 -> pstrip b1 = pstrip b2 -> mrel (w b1) (w b2).

Lemma okP_placeholder phs p n b : Forall okP phs -> In (NMsgPlaceholder p n b) phs -> okP b.
Proof. intros H Hin. rewrite Forall_forall in H. apply (H _ Hin). Qed.

Section Flat.
Variables w1 w2 : node -> M value.
Hypothesis Hw : forall n, okP n -> mrel (w1 n) (w2 n).
Hypothesis Hpos1 : pos_insensitive w1.

(* direction A: the source walker refines the items (raw text through w1) *)
Hypothesis Hraw1 : forall p t, mrel (w1 (NRawText p t)) (_ <-- write t ;;; ret VUndef).

Lemma flatA mp phs body : coherent phs -> Forall okP phs -> (forall x, In x body -> In x phs) ->
  forallb flat_node body = true ->
  forall raw (m1 : M unit), mrel m1 (write raw) ->
  mrel (_ <-- m1 ;;; msg_body w1 mp body) (run_items w2 (map (resolve phs) (merge_items_go (source_items body) raw))).
Proof.
  intros Hco Hokp. induction body as [|n r IH]; intros Hsub Hf raw m1 Hm1.
  - cbn [source_items flat_map merge_items_go msg_body]. destruct raw as [|c raw].
    + cbn [map run_items]. apply mrel_bind_l_unit; [|intros _; apply mrel_ret].
      intros s1 s2 He. specialize (Hm1 s1 s2 He). unfold res_rel in Hm1.
      destruct (eqv_faultfree _ _ He) as [_ [_ [H3 H4]]]. rewrite (write_wr s2 [] H3 H4) in Hm1. cbn [fst snd] in Hm1.
      destruct Hm1 as [Hf1 | [Ho Hs]]; [left; exact Hf1 | right].
      split; [exists tt; exact Ho|]. eapply st_equiv_trans; [exact Hs|]. apply eqv_wr_nil. apply st_equiv_sym, (st_equiv_refl_l _ _ (st_equiv_sym _ _ He)).
    + cbn [map resolve run_items]. apply mrel_bind; [exact Hm1 | intros _; apply mrel_ret].
  - cbn [forallb] in Hf. apply Bool.andb_true_iff in Hf as [Hn Hr].
    assert (forall x, In x r -> In x phs) as Hsub' by (intros x Hx; apply Hsub; right; exact Hx).
    destruct n; cbn [flat_node] in Hn; try discriminate.
    + (* raw text *)
      change (source_items (NRawText p text :: r)) with (TText text :: source_items r).
      cbn [merge_items_go msg_body].
      apply (mrel_ext_l _ (_ <-- (_ <-- m1 ;;; _ <-- w1 (NRawText p text) ;;; ret tt) ;;; msg_body w1 mp r)).
      { intros s. rewrite mbind_assoc_pt. unfold mbind at 1 3. destruct (m1 s) as [[[]| | | | |] s']; try reflexivity.
        rewrite mbind_assoc_pt. reflexivity. }
      apply (IH Hsub' Hr (raw ++ text)).
      eapply mrel_trans; [|apply mrel_write_app].
      apply mrel_bind; [exact Hm1|]. intros _.
      eapply mrel_trans; [apply mrel_bind; [apply Hraw1 | intros v; apply mrel_ret]|].
      apply mrel_ext_l with (m1' := write text); [|apply mrel_write].
      intros s. rewrite mbind_assoc_pt. unfold mbind, ret. destruct (write text s) as [[[]| | | | |] s']; reflexivity.
    + (* placeholder: this occurrence against the first one with the same name *)
      change (source_items (NMsgPlaceholder p name n :: r)) with (TPh p name n :: source_items r).
      cbn [msg_body merge_items_go].
      assert (In (NMsgPlaceholder p name n) phs) as Hin by (apply Hsub; left; reflexivity).
      destruct (find_ph_same phs p name n Hco Hin) as [p' [b' [Hfind [Hin' Hsame]]]].
      assert (mrel (msg_body w1 mp r) (run_items w2 (map (resolve phs) (merge_items_go (source_items r) [])))) as Hrest.
      { apply mrel_ext_l with (m1' := _ <-- ret tt ;;; msg_body w1 mp r); [intros s; reflexivity|].
        apply (IH Hsub' Hr [] (ret tt)). apply mrel_write_nil_r. }
      assert (mrel (w1 n) (w2 b')) as Hnb.
      { eapply mrel_trans; [apply (Hpos1 n b' (okP_placeholder _ _ _ _ Hokp Hin) (okP_placeholder _ _ _ _ Hokp Hin')); symmetry; exact Hsame|].
        apply Hw, (okP_placeholder _ _ _ _ Hokp Hin'). }
      assert (mrel (_ <-- w1 n ;;; msg_body w1 mp r) (_ <-- w2 b' ;;; run_items w2 (map (resolve phs) (merge_items_go (source_items r) [])))) as Hph.
      { apply mrel_bind; [exact Hnb | intros _; exact Hrest]. }
      destruct raw as [|c raw]; cbn [map resolve run_items]; rewrite Hfind; cbn [run_items].
      * apply mrel_bind_l_unit; [|intros _; exact Hph].
        intros s1 s2 He. specialize (Hm1 s1 s2 He). unfold res_rel in Hm1.
        destruct (eqv_faultfree _ _ He) as [_ [_ [H3 H4]]]. rewrite (write_wr s2 [] H3 H4) in Hm1. cbn [fst snd] in Hm1.
        destruct Hm1 as [Hf1 | [Ho Hs]]; [left; exact Hf1 | right].
        split; [exists tt; exact Ho|]. eapply st_equiv_trans; [exact Hs|]. apply eqv_wr_nil.
        apply st_equiv_sym, (st_equiv_refl_l _ _ (st_equiv_sym _ _ He)).
      * apply mrel_bind; [exact Hm1 | intros _; exact Hph].
Qed.
End Flat.

(* direction B: the items refine the source walker *)
Section FlatB.
Variables w1 w2 : node -> M value.
Hypothesis Hw : forall n, okP n -> mrel (w1 n) (w2 n).
Hypothesis Hraw2 : forall p t, mrel (_ <-- write t ;;; ret VUndef) (w2 (NRawText p t)).
Hypothesis Hpos2 : pos_insensitive w2.

Lemma unit_of_write_nil (m2 : M unit) : mrel (write []) m2 ->
  forall s1 s2, st_equiv s1 s2 -> (exists x, fst (m2 s2) = Ok x) /\ st_equiv s1 (snd (m2 s2)).
Proof.
  intros Hm2 s1 s2 He. specialize (Hm2 s1 s2 He). unfold res_rel in Hm2.
  destruct (eqv_faultfree _ _ He) as [H1 [H2 _]]. rewrite (write_wr s1 [] H1 H2) in Hm2. cbn [fst snd] in Hm2.
  destruct Hm2 as [Hf | [Ho Hs]]; [discriminate|].
  split; [exists tt; symmetry; exact Ho|]. eapply st_equiv_trans; [|exact Hs].
  apply st_equiv_sym, eqv_wr_nil, (st_equiv_refl_l _ _ He).
Qed.

Lemma flatB mp phs body : coherent phs -> Forall okP phs -> (forall x, In x body -> In x phs) ->
  forallb flat_node body = true ->
  forall raw (m2 : M unit), mrel (write raw) m2 ->
  mrel (run_items w1 (map (resolve phs) (merge_items_go (source_items body) raw))) (_ <-- m2 ;;; msg_body w2 mp body).
Proof.
  intros Hco Hokp. induction body as [|n r IH]; intros Hsub Hf raw m2 Hm2.
  - cbn [source_items flat_map merge_items_go msg_body]. destruct raw as [|c raw].
    + cbn [map run_items]. apply mrel_bind_r_unit; [apply unit_of_write_nil, Hm2 | intros _; apply mrel_ret].
    + cbn [map resolve run_items]. apply mrel_bind; [exact Hm2 | intros _; apply mrel_ret].
  - cbn [forallb] in Hf. apply Bool.andb_true_iff in Hf as [Hn Hr].
    assert (forall x, In x r -> In x phs) as Hsub' by (intros x Hx; apply Hsub; right; exact Hx).
    destruct n; cbn [flat_node] in Hn; try discriminate.
    + change (source_items (NRawText p text :: r)) with (TText text :: source_items r).
      cbn [merge_items_go msg_body].
      apply (mrel_ext_r _ _ (_ <-- (_ <-- m2 ;;; _ <-- w2 (NRawText p text) ;;; ret tt) ;;; msg_body w2 mp r)).
      { intros s. rewrite mbind_assoc_pt. unfold mbind at 1 3. destruct (m2 s) as [[[]| | | | |] s']; try reflexivity.
        rewrite mbind_assoc_pt. reflexivity. }
      apply (IH Hsub' Hr (raw ++ text)).
      eapply mrel_trans; [apply mrel_app_write|].
      apply mrel_bind; [exact Hm2|]. intros _.
      eapply mrel_trans; [|apply mrel_bind; [apply Hraw2 | intros v; apply mrel_ret]].
      apply mrel_ext_r with (m2' := write text); [|apply mrel_write].
      intros s. rewrite mbind_assoc_pt. unfold mbind, ret. destruct (write text s) as [[[]| | | | |] s']; reflexivity.
    + change (source_items (NMsgPlaceholder p name n :: r)) with (TPh p name n :: source_items r).
      cbn [msg_body merge_items_go].
      assert (In (NMsgPlaceholder p name n) phs) as Hin by (apply Hsub; left; reflexivity).
      destruct (find_ph_same phs p name n Hco Hin) as [p' [b' [Hfind [Hin' Hsame]]]].
      assert (mrel (run_items w1 (map (resolve phs) (merge_items_go (source_items r) []))) (msg_body w2 mp r)) as Hrest.
      { apply mrel_ext_r with (m2' := _ <-- ret tt ;;; msg_body w2 mp r); [intros s; reflexivity|].
        apply (IH Hsub' Hr [] (ret tt)). apply mrel_write_nil_l. }
      assert (mrel (w1 b') (w2 n)) as Hnb.
      { eapply mrel_trans; [apply Hw, (okP_placeholder _ _ _ _ Hokp Hin')|].
        apply (Hpos2 b' n (okP_placeholder _ _ _ _ Hokp Hin') (okP_placeholder _ _ _ _ Hokp Hin)); exact Hsame. }
      assert (mrel (_ <-- w1 b' ;;; run_items w1 (map (resolve phs) (merge_items_go (source_items r) []))) (_ <-- w2 n ;;; msg_body w2 mp r)) as Hph.
      { apply mrel_bind; [exact Hnb | intros _; exact Hrest]. }
      destruct raw as [|c raw]; cbn [map resolve run_items]; rewrite Hfind; cbn [run_items].
      * apply mrel_bind_r_unit; [apply unit_of_write_nil, Hm2 | intros _; exact Hph].
      * apply mrel_bind; [exact Hm2 | intros _; exact Hph].
Qed.
End FlatB.


Lemma okP_plural_parts p vn pv pc cv cb dflt :
  Forall okP [NMsgPlural p vn pv [NMsgPluralCase pc cv cb] dflt] -> okP pv /\ Forall okP cb /\ Forall okP dflt.
Proof.
  intros H. inversion H as [|? ? Hp _]; subst. cbn [InterpRelProofs.okP fold_right] in Hp.
  destruct Hp as [Hv [[Hc _] Hd]]. repeat split; [exact Hv | apply okP_all, Hc | apply okP_all, Hd].
Qed.

Lemma Forall_app_okP l1 l2 : Forall okP l1 -> Forall okP l2 -> Forall okP (l1 ++ l2).
Proof. intros H1 H2. apply Forall_app. split; assumption. Qed.

Lemma src_sub (src cb dflt : list node) : src = cb \/ src = dflt -> forall x, In x src -> In x (dflt ++ cb).
Proof. intros [-> | ->] x Hx; apply in_or_app; [right | left]; exact Hx. Qed.

(* ---- one message: source rendering against rendering with the catalogue ---- *)

Section MsgA.
Variables w1 w1' w2 : node -> M value.
Hypothesis Hw : forall n, okP n -> mrel (w1 n) (w2 n).
Hypothesis Hw' : forall n, okP n -> mrel (w1' n) (w2 n).
Hypothesis Hraw1 : forall p t, mrel (w1 (NRawText p t)) (_ <-- write t ;;; ret VUndef).
Hypothesis Hraw1' : forall p t, mrel (w1' (NRawText p t)) (_ <-- write t ;;; ret VUndef).
Hypothesis Hpos1 : pos_insensitive w1.
Hypothesis Hpos1' : pos_insensitive w1'.
Hypothesis Hsyn1 : forall mp b, Forall okP b -> mrel (w1 (NMsg mp 0 [] [] b)) (_ <-- msg_body w1' mp b ;;; ret VUndef).

Lemma msgA mp id body : ident_ok id body -> Forall okP body ->
  mrel (msg_body w1 mp body) (eval_msg plural_index bd w2 mp id body).
Proof.
  unfold ident_ok. intros Hid Hok. destruct (bundle_message bd id) as [m|] eqn:E.
  - destruct Hid as [[Hrb [Hco ->]] | [p [vn [pv [pc [cb [dflt [strs [-> [Hvn [-> [Hrc [Hrd [Hco Hstrs]]]]]]]]]]]]]].
    + rewrite (identity_flat plural_index bd w2 mp id body Hrb E).
      destruct (reads_back_sound body Hrb) as [Hf _].
      apply mrel_ext_l with (m1' := _ <-- ret tt ;;; msg_body w1 mp body); [intros s; reflexivity|].
      apply (flatA w1 w2 Hw Hpos1 Hraw1 mp body body Hco Hok (fun x H => H) Hf [] (ret tt)). apply mrel_write_nil_r.
    + destruct (okP_plural_parts _ _ _ _ _ _ _ Hok) as [Hv [Hokc Hokd]].
      destruct (reads_back_sound cb Hrc) as [Hfc _]. destruct (reads_back_sound dflt Hrd) as [Hfd _].
      eapply mrel_ext_r; [intros s; apply (plural_selects plural_index bd w2 mp id p vn pv _ dflt strs s (or_introl Hvn) E)|].
      cbn [msg_body]. apply mrel_bind; [apply (eval_rel ident_ok w1 w2 Hw pv Hv)|].
      intros v. destruct v; try apply mrel_fail.
      assert (forall src, (src = cb \/ src = dflt) -> Forall okP src -> forallb flat_node src = true ->
                nth_error strs (plural_index z) = Some (write_body src) ->
                mrel (_ <-- (_ <-- w1 (NMsg mp 0 [] [] src) ;;; ret tt) ;;; ret tt)
                     (eval_form w2 [NMsgPlural p vn pv [NMsgPluralCase pc 1%Z cb] dflt] strs (plural_index z))) as Hsrc.
      { intros src Hs Hoks Hfs Hk.
        rewrite (identity_form w2 p vn pv pc 1%Z cb dflt strs (plural_index z) src Hrc Hrd Hs Hk).
        eapply mrel_trans.
        - apply mrel_bind; [apply mrel_bind; [apply Hsyn1, Hoks | intros x; apply mrel_ret] | intros x; apply mrel_ret].
        - apply mrel_ext_l with (m1' := _ <-- ret tt ;;; msg_body w1' mp src).
          { intros s. rewrite !mbind_assoc_pt. cbn [mbind_ret_l_pt]. unfold mbind, ret.
            destruct (msg_body w1' mp src s) as [[[]| | | | |] s']; reflexivity. }
          apply (flatA w1' w2 Hw' Hpos1' Hraw1' mp (dflt ++ cb) src Hco (Forall_app_okP _ _ Hokd Hokc) (src_sub _ _ _ Hs) Hfs [] (ret tt)).
          apply mrel_write_nil_r. }
      cbn [plural_pick]. specialize (Hstrs z). destruct (z =? 1)%Z.
      * apply (Hsrc cb (or_introl eq_refl) Hokc Hfc Hstrs).
      * apply (Hsrc dflt (or_intror eq_refl) Hokd Hfd Hstrs).
  - rewrite (missing_msg plural_index bd w2 mp id body E).
    apply (msg_body_rel ident_ok ident_ok_0 w1 w2 Hw mp body Hok).
Qed.
End MsgA.

Section MsgB.
Variables w1 w2 w2' : node -> M value.
Hypothesis Hw : forall n, okP n -> mrel (w1 n) (w2 n).
Hypothesis Hw' : forall n, okP n -> mrel (w1 n) (w2' n).
Hypothesis Hraw2 : forall p t, mrel (_ <-- write t ;;; ret VUndef) (w2 (NRawText p t)).
Hypothesis Hraw2' : forall p t, mrel (_ <-- write t ;;; ret VUndef) (w2' (NRawText p t)).
Hypothesis Hpos2 : pos_insensitive w2.
Hypothesis Hpos2' : pos_insensitive w2'.
Hypothesis Hsyn2 : forall mp b, Forall okP b -> mrel (_ <-- msg_body w2' mp b ;;; ret VUndef) (w2 (NMsg mp 0 [] [] b)).

Lemma msgB mp id body : ident_ok id body -> Forall okP body ->
  mrel (eval_msg plural_index bd w1 mp id body) (msg_body w2 mp body).
Proof.
  unfold ident_ok. intros Hid Hok. destruct (bundle_message bd id) as [m|] eqn:E.
  - destruct Hid as [[Hrb [Hco ->]] | [p [vn [pv [pc [cb [dflt [strs [-> [Hvn [-> [Hrc [Hrd [Hco Hstrs]]]]]]]]]]]]]].
    + rewrite (identity_flat plural_index bd w1 mp id body Hrb E).
      destruct (reads_back_sound body Hrb) as [Hf _].
      apply mrel_ext_r with (m2' := _ <-- ret tt ;;; msg_body w2 mp body); [intros s; reflexivity|].
      apply (flatB w1 w2 Hw Hraw2 Hpos2 mp body body Hco Hok (fun x H => H) Hf [] (ret tt)). apply mrel_write_nil_l.
    + destruct (okP_plural_parts _ _ _ _ _ _ _ Hok) as [Hv [Hokc Hokd]].
      destruct (reads_back_sound cb Hrc) as [Hfc _]. destruct (reads_back_sound dflt Hrd) as [Hfd _].
      eapply mrel_ext_l; [intros s; apply (plural_selects plural_index bd w1 mp id p vn pv _ dflt strs s (or_introl Hvn) E)|].
      cbn [msg_body]. apply mrel_bind; [apply (eval_rel ident_ok w1 w2 Hw pv Hv)|].
      intros v. destruct v; try apply mrel_fail.
      assert (forall src, (src = cb \/ src = dflt) -> Forall okP src -> forallb flat_node src = true ->
                nth_error strs (plural_index z) = Some (write_body src) ->
                mrel (eval_form w1 [NMsgPlural p vn pv [NMsgPluralCase pc 1%Z cb] dflt] strs (plural_index z))
                     (_ <-- (_ <-- w2 (NMsg mp 0 [] [] src) ;;; ret tt) ;;; ret tt)) as Hsrc.
      { intros src Hs Hoks Hfs Hk.
        rewrite (identity_form w1 p vn pv pc 1%Z cb dflt strs (plural_index z) src Hrc Hrd Hs Hk).
        eapply mrel_trans.
        2:{ apply mrel_bind; [apply mrel_bind; [apply Hsyn2, Hoks | intros x; apply mrel_ret] | intros x; apply mrel_ret]. }
        apply mrel_ext_r with (m2' := _ <-- ret tt ;;; msg_body w2' mp src).
        { intros s. rewrite !mbind_assoc_pt. unfold mbind, ret.
          destruct (msg_body w2' mp src s) as [[[]| | | | |] s']; reflexivity. }
        apply (flatB w1 w2' Hw' Hraw2' Hpos2' mp (dflt ++ cb) src Hco (Forall_app_okP _ _ Hokd Hokc) (src_sub _ _ _ Hs) Hfs [] (ret tt)).
        apply mrel_write_nil_l. }
      cbn [plural_pick]. specialize (Hstrs z). destruct (z =? 1)%Z.
      * apply (Hsrc cb (or_introl eq_refl) Hokc Hfc Hstrs).
      * apply (Hsrc dflt (or_intror eq_refl) Hokd Hfd Hstrs).
  - rewrite (missing_msg plural_index bd w1 mp id body E).
    apply (msg_body_rel ident_ok ident_ok_0 w1 w2 Hw mp body Hok).
Qed.
End MsgB.


(* ---- the walker respects the equivalence, and more fuel refines less ---- *)

Lemma walk_refl f : forall n, okP n -> mrel (walk cf f n) (walk cf f n).
Proof.
  induction f as [|f IH]; intros n Hn; [apply mrel_fuel|].
  cbn [walk]. apply (walk_body_rel cf ident_ok ident_ok_0 Hreg _ _ IH n Hn).
Qed.

Lemma walk_mono f : forall n, okP n -> mrel (walk cf f n) (walk cf (S f) n).
Proof.
  induction f as [|f IH]; intros n Hn; [apply mrel_fuel|].
  change (mrel (walk_body cf (walk cf f) n) (walk_body cf (walk cf (S f)) n)).
  apply (walk_body_rel cf ident_ok ident_ok_0 Hreg _ _ IH n Hn).
Qed.

Lemma walk_mono_le f g : (f <= g)%nat -> forall n, okP n -> mrel (walk cf f n) (walk cf g n).
Proof.
  induction 1 as [|g Hle IH]; intros n Hn; [apply walk_refl, Hn|].
  eapply mrel_trans; [apply IH, Hn | apply walk_mono, Hn].
Qed.

Lemma walk_raw f p t : mrel (walk cf f (NRawText p t)) (_ <-- write t ;;; ret VUndef).
Proof.
  destruct f as [|f]; [apply mrel_fuel|].
  change (walk cf (S f) (NRawText p t)) with (_ <-- modify (fun st => set_cur st p) ;;; (_ <-- write t ;;; ret VUndef)).
  apply mrel_set_cur_l. apply mrel_bind; [apply mrel_write | intros _; apply mrel_ret].
Qed.

Lemma raw_walk f p t : mrel (_ <-- write t ;;; ret VUndef) (walk cf (S f) (NRawText p t)).
Proof.
  change (walk cf (S f) (NRawText p t)) with (_ <-- modify (fun st => set_cur st p) ;;; (_ <-- write t ;;; ret VUndef)).
  apply mrel_set_cur_r. apply mrel_bind; [apply mrel_write | intros _; apply mrel_ret].
Qed.

Lemma walk_syn f mp b : Forall okP b ->
  mrel (walk cf (S f) (NMsg mp 0 [] [] b)) (_ <-- msg_body (walk cf f) mp b ;;; ret VUndef).
Proof.
  intros Hb.
  change (walk cf (S f) (NMsg mp 0 [] [] b)) with
    (_ <-- modify (fun st => set_cur st mp) ;;; (_ <-- msg_body (walk cf f) mp b ;;; ret VUndef)).
  apply mrel_set_cur_l. apply mrel_bind; [|intros _; apply mrel_ret].
  apply (msg_body_rel ident_ok ident_ok_0 _ _ (walk_refl f) mp b Hb).
Qed.

Lemma syn_walk f mp b : Forall okP b ->
  mrel (_ <-- msg_body (walk cf f) mp b ;;; ret VUndef) (walk cf (S f) (NMsg mp 0 [] [] b)).
Proof.
  intros Hb.
  change (walk cf (S f) (NMsg mp 0 [] [] b)) with
    (_ <-- modify (fun st => set_cur st mp) ;;; (_ <-- msg_body (walk cf f) mp b ;;; ret VUndef)).
  apply mrel_set_cur_r. apply mrel_bind; [|intros _; apply mrel_ret].
  apply (msg_body_rel ident_ok ident_ok_0 _ _ (walk_refl f) mp b Hb).
Qed.

(* ---- rendering without the catalogue is refined by rendering with it ---- *)

Theorem nocat_refines_cat f : forall n, okP n -> mrel (walk cf f n) (walk_b cf plural_index bd f n).
Proof.
  induction f as [|f IH]; intros n Hn; [apply mrel_fuel|].
  cbn [walk walk_b].
  destruct n; try (apply (walk_body_rel cf ident_ok ident_ok_0 Hreg _ _ IH _ Hn)).
  cbn [InterpRelProofs.okP] in Hn. destruct Hn as [Hid Hb]. apply okP_all in Hb.
  change (walk_body cf (walk cf f) (NMsg p id meaning desc body)) with
    (_ <-- modify (fun st => set_cur st p) ;;; (_ <-- msg_body (walk cf f) p body ;;; ret VUndef)).
  unfold walk_body_b.
  apply mrel_bind; [apply mrel_set_cur|]. intros _. apply mrel_bind; [|intros _; apply mrel_ret].
  apply (msgA (walk cf f) (walk cf (pred f)) (walk_b cf plural_index bd f)); try assumption.
  - intros n Hn. eapply mrel_trans; [apply (walk_mono_le (pred f) f (Nat.le_pred_l f) n Hn) | apply IH, Hn].
  - apply walk_raw.
  - apply walk_raw.
  - intros b1 b2. apply (walk_pos cf ident_ok ident_ok_0 Hreg f).
  - intros b1 b2. apply (walk_pos cf ident_ok ident_ok_0 Hreg (pred f)).
  - intros mp b Hokb. destruct f as [|f']; [apply mrel_fuel | apply walk_syn, Hokb].
Qed.

(* ---- and rendering with the catalogue is refined by rendering without it ---- *)

Theorem cat_refines_nocat f : forall n, okP n -> mrel (walk_b cf plural_index bd f n) (walk cf (2 * f + 1) n).
Proof.
  induction f as [|f IH]; intros n Hn; [apply mrel_fuel|].
  replace (2 * S f + 1)%nat with (S (S (2 * f + 1))) by lia.
  set (g := (2 * f + 1)%nat) in *.
  assert (forall k, okP k -> mrel (walk_b cf plural_index bd f k) (walk cf (S g) k)) as Hw.
  { intros k Hk. eapply mrel_trans; [apply IH, Hk | apply walk_mono, Hk]. }
  cbn [walk_b]. change (walk cf (S (S g)) n) with (walk_body cf (walk cf (S g)) n).
  destruct n; try (apply (walk_body_rel cf ident_ok ident_ok_0 Hreg _ _ Hw _ Hn)).
  cbn [InterpRelProofs.okP] in Hn. destruct Hn as [Hid Hb]. apply okP_all in Hb.
  change (walk_body cf (walk cf (S g)) (NMsg p id meaning desc body)) with
    (_ <-- modify (fun st => set_cur st p) ;;; (_ <-- msg_body (walk cf (S g)) p body ;;; ret VUndef)).
  unfold walk_body_b.
  apply mrel_bind; [apply mrel_set_cur|]. intros _. apply mrel_bind; [|intros _; apply mrel_ret].
  apply (msgB (walk_b cf plural_index bd f) (walk cf (S g)) (walk cf g)); try assumption.
  - apply raw_walk.
  - unfold g. replace (2 * f + 1)%nat with (S (2 * f)) by lia. apply raw_walk.
  - intros b1 b2. apply (walk_pos cf ident_ok ident_ok_0 Hreg (S g)).
  - intros b1 b2. apply (walk_pos cf ident_ok ident_ok_0 Hreg g).
  - intros mp b Hokb. apply syn_walk, Hokb.
Qed.


(* ---- at the level of Renderer.Execute: a successful render writes the same bytes ---- *)

Lemma find_template_okP name t : find_template (r_templates (c_reg cf)) name = Some t -> okP (t_node t).
Proof.
  intros E. induction (r_templates (c_reg cf)) as [|x r IH]; cbn [find_template] in E; [discriminate|].
  inversion Hreg; subst. destruct (bstr_eqb (t_name x) name); [injection E as <-; assumption | auto].
Qed.

Lemma init_state_equiv c m name fid : st_equiv (init_state c m name None None fid) (init_state c m name None None fid).
Proof. unfold st_equiv, init_state. cbn. repeat split; auto. Qed.

Theorem render_nocat_to_cat f name did data fid :
  rr_outcome (render cf f name did data None None fid) = Ok tt ->
  rr_outcome (render_b cf plural_index bd f name did data None None fid) = Ok tt /\
  concat_b (rr_writes (render_b cf plural_index bd f name did data None None fid)) =
  concat_b (rr_writes (render cf f name did data None None fid)).
Proof.
  unfold render, render_b. destruct (find_template (r_templates (c_reg cf)) name) as [t|] eqn:E; [|cbn; discriminate].
  pose proof (nocat_refines_cat f (t_node t) (find_template_okP name t E) _ _
                (init_state_equiv (sc_enter (new_scope did data)) (entry_mode (t_ns_autoescape t)) name fid)) as H.
  unfold res_rel in H.
  destruct (walk cf f (t_node t) _) as [r1 s1]. destruct (walk_b cf plural_index bd f (t_node t) _) as [r2 s2].
  cbn [fst snd] in H. intros Ho.
  destruct H as [-> | [<- Hs]]; [cbn in Ho; discriminate|].
  destruct r1; cbn [rr_outcome rr_writes] in *;
    try (destruct (assoc_s name (r_sources (c_reg cf))), (assoc_s name (r_files (c_reg cf))); try destruct (line_number _ _); cbn in Ho; discriminate).
  split; [reflexivity|]. unfold st_equiv in Hs. decompose [and] Hs. symmetry. assumption.
Qed.

Theorem render_cat_to_nocat f name did data fid :
  rr_outcome (render_b cf plural_index bd f name did data None None fid) = Ok tt ->
  rr_outcome (render cf (2 * f + 1) name did data None None fid) = Ok tt /\
  concat_b (rr_writes (render cf (2 * f + 1) name did data None None fid)) =
  concat_b (rr_writes (render_b cf plural_index bd f name did data None None fid)).
Proof.
  unfold render, render_b. destruct (find_template (r_templates (c_reg cf)) name) as [t|] eqn:E; [|cbn; discriminate].
  pose proof (cat_refines_nocat f (t_node t) (find_template_okP name t E) _ _
                (init_state_equiv (sc_enter (new_scope did data)) (entry_mode (t_ns_autoescape t)) name fid)) as H.
  unfold res_rel in H.
  destruct (walk_b cf plural_index bd f (t_node t) _) as [r1 s1]. destruct (walk cf (2 * f + 1) (t_node t) _) as [r2 s2].
  cbn [fst snd] in H. intros Ho.
  destruct H as [-> | [<- Hs]]; [cbn in Ho; discriminate|].
  destruct r1; cbn [rr_outcome rr_writes] in *;
    try (destruct (assoc_s name (r_sources (c_reg cf))), (assoc_s name (r_files (c_reg cf))); try destruct (line_number _ _); cbn in Ho; discriminate).
  split; [reflexivity|]. unfold st_equiv in Hs. decompose [and] Hs. symmetry. assumption.
Qed.

(* a failed render fails both ways (error texts and positions are not compared) *)
Theorem render_error_agrees f name did data fid :
  rr_outcome (render cf f name did data None None fid) <> OutOfFuel ->
  is_ok (rr_outcome (render_b cf plural_index bd f name did data None None fid)) =
  is_ok (rr_outcome (render cf f name did data None None fid)) /\
  concat_b (rr_writes (render_b cf plural_index bd f name did data None None fid)) =
  concat_b (rr_writes (render cf f name did data None None fid)).
Proof.
  unfold render, render_b. destruct (find_template (r_templates (c_reg cf)) name) as [t|] eqn:E; [|cbn; auto].
  pose proof (nocat_refines_cat f (t_node t) (find_template_okP name t E) _ _
                (init_state_equiv (sc_enter (new_scope did data)) (entry_mode (t_ns_autoescape t)) name fid)) as H.
  unfold res_rel in H.
  destruct (walk cf f (t_node t) _) as [r1 s1]. destruct (walk_b cf plural_index bd f (t_node t) _) as [r2 s2].
  cbn [fst snd] in H. intros Ho.
  destruct H as [-> | [<- Hs]]; [cbn in Ho; congruence|].
  assert (chunks (out s2) = chunks (out s1)) as Hc by (unfold st_equiv in Hs; decompose [and] Hs; symmetry; assumption).
  destruct r1; cbn [rr_outcome rr_writes is_ok] in *; try (split; [reflexivity | exact Hc]).
  destruct (assoc_s name (r_sources (c_reg cf))), (assoc_s name (r_files (c_reg cf)));
    try (destruct (line_number _ (cur s1)), (line_number _ (cur s2))); cbn; split; try reflexivity; exact Hc.
Qed.

End Whole.

(* ------------------------------------------------------------------ *)
(* where [coherent] comes from                                         *)
(* ------------------------------------------------------------------ *)

(* The placeholder nodes of a message carry the names that Model/MsgId.v
   (SetPlaceholdersAndID) gives them: [phs] lists, for every placeholder, its
   position, base name, String() text and node.  By C10 (names_distinct) equal
   names mean equal (base name, String()) pairs; if String() is injective up to
   positions on these nodes -- C17_print_injective's conclusion for print
   commands; for an HTML tag String() is its text; an explicit hypothesis here --
   equal names mean the same code. *)
From Soy Require Import Proofs.MsgIdProofs.

Definition ph_of (nm : namemap) (x : N * bstr * bstr * node) : node :=
  let '(p, base, str, n) := x in NMsgPlaceholder p (name_of nm base str) n.

Theorem coherent_of_naming order mbody es nm (phs : list (N * bstr * bstr * node)) :
  is_perm order -> msg_entries mbody = Ok es -> msg_names order mbody = Ok nm ->
  (forall p base str n, In (p, base, str, n) phs -> In (base, str) es) ->
  (forall p base str n p' base' str' n',
      In (p, base, str, n) phs -> In (p', base', str', n') phs -> str = str' -> pstrip n = pstrip n') ->
  coherent (map (ph_of nm) phs).
Proof.
  intros Hperm Hes Hnm Hin Hinj p1 p2 name b1 b2 H1 H2.
  apply in_map_iff in H1 as [[[[q1 base1] str1] n1] [E1 I1]].
  apply in_map_iff in H2 as [[[[q2 base2] str2] n2] [E2 I2]].
  cbn [ph_of] in E1, E2. injection E1 as _ En1 ->. injection E2 as _ En2 ->.
  assert ((base1, str1) = (base2, str2)) as Heq.
  { apply (names_distinct order mbody es nm Hperm Hes Hnm); [apply (Hin _ _ _ _ I1) | apply (Hin _ _ _ _ I2) | congruence]. }
  injection Heq as _ Hs. apply (Hinj _ _ _ _ _ _ _ _ I1 I2 Hs).
Qed.
