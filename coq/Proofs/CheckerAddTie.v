(* Two Gallina models of template.Registry.Add exist as well: Model/Compile.v (C13:
   [registry_add] over [creg], with the sourceByTemplateName / fileByTemplateName maps and the
   processed file bodies) and Model/Checker.v (C07: [add_file], the template list only).  On
   parsed files (files_shaped: a template body is a ListNode, soydoc params are
   SoyDocParamNodes) they build the same template list and fail for the same class of reason;
   with Proofs/CheckerCompileTie.v: [compile_check] of C07 is the Add + CheckDataRefs part of
   C13's [compile_gen]. *)
From Coq Require Import Lia Permutation.
From Soy Require Import Model.Bytes Model.Num Model.Values Model.Outcome Model.Ast Model.MsgId Model.RefView Model.Checker
  Model.Compile Model.CheckerRun Generated.Tables Spec.Wf Proofs.ValueProofs Proofs.CheckerProofs Proofs.CheckerCompileTie.
Open Scope N_scope.

(* the registry of C13 and the template list of C07 *)
Definition inv (reg : registry) (acc : list template) : Prop :=
  r_templates reg = acc /\
  forall name, (assoc_s name (r_files reg) <> None) <-> existsb (fun t => bstr_eqb (t_name t) name) acc = true.

Lemma find_namespace_tie body :
  match find_namespace body with
  | inr x => file_namespace body = Some x
  | inl e => file_namespace body = None /\ cls_add e = RNoNamespace
  end.
Proof.
  induction body as [|n r IH]; cbn [find_namespace file_namespace]; [split; reflexivity|].
  destruct n; first [exact IH | split; reflexivity | reflexivity].
Qed.

Lemma find_namespace_head body x : find_namespace body = inr x -> match body with n :: _ => is_template n = false | [] => True end.
Proof. destruct body as [|n r]; [trivial|]. destruct n; cbn; intros H; try discriminate; reflexivity. Qed.

Lemma assoc_s_put {A} k k' (v : A) m : assoc_s k (put m k' v) = if bstr_eqb k k' then Some v else assoc_s k m.
Proof.
  induction m as [|[k2 v2] r IH]; cbn [put assoc_s]; [destruct (bstr_eqb k k'); reflexivity|].
  destruct (bstr_eqb_spec k' k2) as [->|Hne]; cbn [assoc_s].
  - destruct (bstr_eqb k k2); reflexivity.
  - rewrite IH. destruct (bstr_eqb_spec k k2) as [->|]; [|reflexivity].
    destruct (bstr_eqb_spec k2 k'); [congruence | reflexivity].
Qed.

Lemma inv_append reg acc t text : inv reg acc -> inv (reg_append reg t text) (acc ++ [t]).
Proof.
  intros [Ht Hf]. split; [cbn; rewrite Ht; reflexivity|]. intros name. cbn [reg_append r_files].
  rewrite assoc_s_put, existsb_app. cbn [existsb]. rewrite orb_false_r, (bstr_eqb_sym (t_name t) name).
  destruct (bstr_eqb name (t_name t)).
  - rewrite orb_true_r. split; [reflexivity | discriminate].
  - rewrite orb_false_r. apply Hf.
Qed.

Lemma span_split nodes :
  split_header nodes = (flat_map docparam_sig (map header_to_docparam (fst (span_headers nodes))), snd (span_headers nodes)).
Proof.
  induction nodes as [|x r IH]; [reflexivity|].
  destruct x; cbn [split_header span_headers is_header_param]; try reflexivity.
  rewrite IH, header_param_optional_spec. destruct (span_headers r) as [hs rest]. reflexivity.
Qed.

Lemma span_headers_nil nodes : fst (span_headers nodes) = [] <->
  flat_map docparam_sig (map header_to_docparam (fst (span_headers nodes))) = [].
Proof.
  destruct nodes as [|x r]; [split; reflexivity|]. destruct x; cbn [span_headers is_header_param]; try (split; reflexivity).
  destruct (span_headers r) as [hs rest]. cbn. split; discriminate.
Qed.

Lemma docparams_typed ps :
  forallb (fun n => match n with NSoyDocParam _ _ _ => true | _ => false end) ps = true ->
  soydoc_params ps = Some (flat_map docparam_sig ps) /\ (flat_map docparam_sig ps = [] <-> ps = []).
Proof.
  intros H. split.
  - rewrite (soydoc_params_spec ps H). reflexivity.
  - destruct ps as [|x r]; [split; reflexivity|]. cbn [forallb] in H. apply andb_true_iff in H as [Hx _].
    destruct x; try discriminate. cbn. split; discriminate.
Qed.

Lemma is_nil_true {A} (l : list A) : is_nil l = true -> l = [].
Proof. destruct l; [reflexivity | discriminate]. Qed.

Section Units.
Variables (fname ftext nsn : bstr) (nsae : N).

Lemma units_tie body : forall prev reg acc,
  inv reg acc ->
  forallb template_typed (with_prev prev body) = true ->
  (prev = None -> match body with n :: _ => is_template n = false | [] => True end) ->
  match add_units fname ftext (file_units fname nsn nsae prev body) reg with
  | inr reg' => exists acc', add_templates fname (nsn, nsae) prev body acc = AddOk acc' /\ inv reg' acc'
  | inl e => add_templates fname (nsn, nsae) prev body acc = AddRej (cls_add e)
  end.
Proof.
  induction body as [|n r IH]; intros prev reg acc Hinv Hty Hfirst.
  - cbn. exists acc. split; [reflexivity | exact Hinv].
  - cbn [with_prev forallb] in Hty. apply andb_true_iff in Hty as [Hn Hr].
    assert (Hrest : forall reg' acc', inv reg' acc' ->
              match add_units fname ftext (file_units fname nsn nsae (Some n) r) reg' with
              | inr reg2 => exists acc2, add_templates fname (nsn, nsae) (Some n) r acc' = AddOk acc2 /\ inv reg2 acc2
              | inl e => add_templates fname (nsn, nsae) (Some n) r acc' = AddRej (cls_add e)
              end).
    { intros reg' acc' Hi. apply IH; [exact Hi | exact Hr | discriminate]. }
    cbn [file_units].
    destruct (is_template n) eqn:Ht.
    + destruct n; try discriminate Ht. cbn [app].
      unfold template_typed in Hn. cbn [snd fst] in Hn.
      apply andb_true_iff in Hn as [Hn Hdoc]. apply andb_true_iff in Hn as [Hb _].
      destruct n; try discriminate Hb. rename nodes into bnodes.
      destruct prev as [pv|]; [|specialize (Hfirst eq_refl); discriminate Hfirst].
      cbn [add_templates template_local add_units].
      set (docparams := match pv with NSoyDoc _ ps => ps | _ => [] end).
      assert (Hsd : (match pv with NSoyDoc _ ps => soydoc_params ps | _ => Some [] end) = Some (flat_map docparam_sig docparams)
                    /\ (flat_map docparam_sig docparams = [] <-> docparams = [])).
      { subst docparams. destruct pv; try (split; [reflexivity | split; reflexivity]). apply docparams_typed. exact Hdoc. }
      destruct Hsd as [Hsd Hsdnil].
      replace (match Some pv with Some (NSoyDoc _ ps) => soydoc_params ps | _ => Some [] end)
        with (Some (flat_map docparam_sig docparams)) by (rewrite <- Hsd; destruct pv; reflexivity).
      rewrite span_split. pose proof (span_headers_nil bnodes) as Hhnil.
      destruct (span_headers bnodes) as [hs rest]. cbn [fst snd] in *.
      destruct hs as [|h hs'].
      * (* no header params *)
        cbn [map flat_map is_nil negb andb]. rewrite app_nil_r.
        cbn [add_units tu_template t_name].
        destruct Hinv as [Htl Hfl]. pose proof (Hfl name) as Hdup.
        destruct (assoc_s name (r_files reg)) as [other|] eqn:Ha.
        -- assert (He : existsb (fun t => bstr_eqb (t_name t) name) acc = true) by (apply Hdup; discriminate).
           destruct docparams; cbn [add_units tu_template t_name]; rewrite ?Ha, He; reflexivity.
        -- assert (He : existsb (fun t => bstr_eqb (t_name t) name) acc = false).
           { apply not_true_is_false. intros H. apply Hdup in H. congruence. }
           destruct docparams as [|d ds]; cbn [add_units tu_template t_name]; rewrite ?Ha, He; rewrite ?app_nil_r;
             (match goal with |- context [reg_append reg ?t ?x] =>
                apply (Hrest (reg_append reg t x) (acc ++ [t])); apply inv_append; split; assumption end).
      * (* header params *)
        destruct docparams as [|d ds] eqn:Hdp.
        -- cbn [app flat_map].
           assert (Hne : is_nil (flat_map docparam_sig (map header_to_docparam (h :: hs'))) = false).
           { destruct (is_nil (flat_map docparam_sig (map header_to_docparam (h :: hs')))) eqn:E; [|reflexivity].
             apply is_nil_true in E. apply Hhnil in E. discriminate. }
           rewrite Hne. cbn [negb andb is_nil add_units tu_template t_name].
           destruct Hinv as [Htl Hfl]. pose proof (Hfl name) as Hdup.
           destruct (assoc_s name (r_files reg)) as [other|] eqn:Ha.
           ++ assert (He : existsb (fun t => bstr_eqb (t_name t) name) acc = true) by (apply Hdup; discriminate).
              rewrite He. reflexivity.
           ++ assert (He : existsb (fun t => bstr_eqb (t_name t) name) acc = false).
              { apply not_true_is_false. intros H. apply Hdup in H. congruence. }
              rewrite He.
              match goal with |- context [reg_append reg ?t ?x] =>
                apply (Hrest (reg_append reg t x) (acc ++ [t])); apply inv_append; split; assumption end.
        -- (* both kinds *)
           cbn [add_units].
           assert (Hne : is_nil (flat_map docparam_sig (map header_to_docparam (h :: hs'))) = false).
           { destruct (is_nil (flat_map docparam_sig (map header_to_docparam (h :: hs')))) eqn:E; [|reflexivity].
             apply is_nil_true in E. apply Hhnil in E. discriminate. }
           assert (Hne2 : is_nil (flat_map docparam_sig (d :: ds)) = false).
           { destruct (is_nil (flat_map docparam_sig (d :: ds))) eqn:E; [|reflexivity].
             apply is_nil_true in E. apply Hsdnil in E. discriminate. }
           rewrite Hne, Hne2. reflexivity.
    + cbn [app]. replace (add_templates fname (nsn, nsae) prev (n :: r) acc) with (add_templates fname (nsn, nsae) (Some n) r acc)
        by (destruct n; try reflexivity; discriminate Ht).
      apply Hrest. exact Hinv.
Qed.
End Units.

Lemma file_tie (r : creg) acc f :
  inv (cr_reg r) acc -> forallb template_typed (with_prev None (sf_body f)) = true ->
  match registry_add r (conv_file f) with
  | inr r' => exists acc', add_file acc f = AddOk acc' /\ inv (cr_reg r') acc'
  | inl e => add_file acc f = AddRej (cls_add e)
  end.
Proof.
  intros Hinv Hty. unfold registry_add, add_file. cbn [conv_file sfile_body sfile_name sfile_text].
  pose proof (find_namespace_tie (sf_body f)) as Hns. pose proof (find_namespace_head (sf_body f)) as Hhead.
  destruct (find_namespace (sf_body f)) as [e|[nsn nsae]].
  - destruct Hns as [-> He]. rewrite He. reflexivity.
  - rewrite Hns.
    pose proof (units_tie (sf_name f) (sf_text f) nsn nsae (sf_body f) None (cr_reg r) acc Hinv Hty
                  (fun _ => Hhead _ eq_refl)) as H.
    destruct (add_units _ _ _ _) as [e|reg']; [exact H|]. exact H.
Qed.

Lemma files_tie fs : forall (r : creg) acc,
  inv (cr_reg r) acc -> files_shaped fs = true ->
  match add_all_files r (map (fun f => SrcOk (conv_file f)) fs) with
  | COk r' => add_files acc fs = AddOk (r_templates (cr_reg r'))
  | CErr (EAdd _ e) => add_files acc fs = AddRej (cls_add e)
  | CErr _ => False
  end.
Proof.
  induction fs as [|f rest IH]; intros r acc Hinv Hsh.
  - cbn. destruct Hinv as [-> _]. reflexivity.
  - unfold files_shaped in Hsh. cbn [forallb] in Hsh. apply andb_true_iff in Hsh as [Hf Hrest].
    cbn [map add_all_files add_files].
    pose proof (file_tie r acc f Hinv Hf) as H.
    destruct (registry_add r (conv_file f)) as [e|r'].
    + rewrite H. reflexivity.
    + destruct H as (acc' & -> & Hinv'). apply IH; assumption.
Qed.

Lemma inv_empty : inv (cr_reg empty_creg) [].
Proof. split; [reflexivity|]. intros name. cbn. split; [congruence | discriminate]. Qed.

Theorem compile_check_models_agree ko0 fs :
  (forall ks, Permutation (ko0 ks) ks) ->
  files_shaped fs = true ->
  (forall ts, add_files [] fs = AddOk ts -> registry_maps_sorted (registry_of ts fs) = true) ->
  compile_check_c13 ko0 fs = compile_check fs.
Proof.
  intros Hp Hsh Hms. unfold compile_check_c13, compile_check.
  pose proof (files_tie fs empty_creg [] inv_empty Hsh) as H.
  destruct (add_all_files empty_creg _) as [r|e].
  - rewrite H. specialize (Hms _ H).
    exact (check_data_refs_models_agree ko0 (registry_of (r_templates (cr_reg r)) fs) Hp Hms).
  - destruct e; try contradiction. rewrite H. reflexivity.
Qed.
