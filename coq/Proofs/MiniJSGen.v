(* C04, the statement stages, the generator: walking a statement in Model/JsGen.v emits the chunks of the MiniJS printer (sgen_print_all) *)
From Soy Require Import Model.Bytes Model.Num Model.Values Model.Outcome Model.Ast Model.JsGen Model.MiniJS
  Model.Escape Model.Directives Model.Print Generated.Tables Model.Interp
  Proofs.EscapeProofs Proofs.MiniJSProofs Proofs.MiniJSPrint Proofs.MiniJSStmt Model.MsgId Proofs.MsgIdProofs Proofs.MiniJSCtl Proofs.MiniJSGo.
Open Scope N_scope.

(* ================================================================== *)
(* the generator: the chunks of statements *)

Lemma sprint_var ind g e : sprint ind (JSVar g e) = sp_ind ind ++ ([CText t_var; CName g; CText t_eq] ++ jprint e ++ [CText t_semi]) ++ [CText t_nl].
Proof. reflexivity. Qed.
Lemma sprint_varblock ind g body : sprint ind (JSVarBlock g body) = sp_ind ind ++ [CText t_var; CName g; CText t_eq_empty] ++ [CText t_nl] ++ bprint ind body.
Proof. reflexivity. Qed.
Lemma sprint_if ind c th rest : sprint ind (JSIf c th rest)
  = sp_ind ind ++ [CText t_if_open] ++ jprint c ++ [CText t_op_mid1; CText t_brace_nl] ++ bprint (S ind) th
    ++ sp_ind ind ++ [CText t_rbrace] ++ lprint ind rest ++ [CText t_nl].
Proof. reflexivity. Qed.
Lemma sprint_switch ind v cs : sprint ind (JSSwitch v cs)
  = sp_ind ind ++ [CText t_switch_open] ++ jprint v ++ [CText t_for_close; CText t_nl] ++ kprint (S ind) cs
    ++ sp_ind ind ++ [CText t_rbrace; CText t_nl].
Proof. reflexivity. Qed.
Lemma sprint_foreach ind vd vlist vlen vidx e body hasie ie : sprint ind (JSForeach vd vlist vlen vidx e body hasie ie)
  = let ind1 := if hasie then S ind else ind in
    (sp_ind ind ++ ([CText t_var; CName vlist; CText t_eq] ++ jprint e ++ [CText t_semi]) ++ [CText t_nl])
    ++ (sp_ind ind ++ [CText t_var; CName vlen; CText t_eq; CName vlist; CText t_length] ++ [CText t_nl])
    ++ (if hasie then sp_ind ind ++ [CText t_if_open; CName vlen; CText t_gt0] ++ [CText t_nl] else [])
    ++ (sp_ind ind1 ++ [CText t_for_open; CName vidx; CText t_eq0_semi; CName vidx; CText t_lt; CName vlen; CText t_semi_sp; CName vidx; CText t_plusplus] ++ [CText t_nl])
    ++ (sp_ind (S ind1) ++ ([CText t_var; CName vd; CText t_eq] ++ [CName vlist; CText t_lbrack; CName vidx; CText t_rbrack] ++ [CText t_semi]) ++ [CText t_nl])
    ++ bprint (S ind1) body
    ++ (sp_ind ind1 ++ [CText t_rbrace] ++ [CText t_nl])
    ++ (if hasie then (sp_ind ind ++ [CText t_else_block] ++ [CText t_nl]) ++ bprint (S ind) ie ++ (sp_ind ind ++ [CText t_rbrace] ++ [CText t_nl]) else []).
Proof. reflexivity. Qed.
Lemma sprint_forrange ind vd vinit vstep vlen vidx ei es el body hasie ie : sprint ind (JSForRange vd vinit vstep vlen vidx ei es el body hasie ie)
  = let ind1 := if hasie then S ind else ind in
    (sp_ind ind ++ ([CText t_var; CName vinit; CText t_eq] ++ jprint ei ++ [CText t_semi]) ++ [CText t_nl])
    ++ (sp_ind ind ++ ([CText t_var; CName vstep; CText t_eq] ++ jprint es ++ [CText t_semi]) ++ [CText t_nl])
    ++ (sp_ind ind ++ ([CText t_var; CName vlen; CText t_count1] ++ jprint el ++ [CText t_minus; CName vinit; CText t_count2; CName vstep; CText t_count3]) ++ [CText t_nl])
    ++ (if hasie then sp_ind ind ++ [CText t_if_open; CName vlen; CText t_gt0] ++ [CText t_nl] else [])
    ++ (sp_ind ind1 ++ [CText t_for_open; CName vidx; CText t_eq0_semi; CName vidx; CText t_lt; CName vlen; CText t_semi_sp; CName vidx; CText t_plusplus] ++ [CText t_nl])
    ++ (sp_ind (S ind1) ++ ([CText t_var; CName vd; CText t_eq] ++ [CName vinit; CText t_plus; CName vidx; CText t_times; CName vstep] ++ [CText t_semi]) ++ [CText t_nl])
    ++ bprint (S ind1) body
    ++ (sp_ind ind1 ++ [CText t_rbrace] ++ [CText t_nl])
    ++ (if hasie then (sp_ind ind ++ [CText t_else_block] ++ [CText t_nl]) ++ bprint (S ind) ie ++ (sp_ind ind ++ [CText t_rbrace] ++ [CText t_nl]) else []).
Proof. reflexivity. Qed.
Lemma sprint_css ind buf e sfx : sprint ind (JSCss buf e sfx)
  = (match e with
     | Some x => [CText (indent_text ind); CName buf; CText t_pluseq] ++ jprint x ++ [CText t_css_tail; CText t_nl]
     | None => []
     end) ++ [CText (indent_text ind); CName buf; CText t_pluseq; CStrLit 39 sfx; CText t_semi_nl].
Proof. reflexivity. Qed.
Lemma sprint_call ind buf name d ps : sprint ind (JSCall buf name d ps)
  = pprint ind ps ++ sp_ind ind ++ ([CName buf; CText t_pluseq; CName name; CText t_lpar] ++ jcall_arg d (jp_args ps) ++ [CText t_call_tail]) ++ [CText t_nl].
Proof. reflexivity. Qed.
Lemma pprint_cont ind k g body r : pprint ind (JPCont k g body r)
  = (sp_ind ind ++ [CText t_var; CName g; CText t_eq_empty] ++ [CText t_nl]) ++ bprint ind body ++ pprint ind r.
Proof. reflexivity. Qed.
Lemma bprint_cons ind s r : bprint ind (JBCons s r) = sprint ind s ++ bprint ind r. Proof. reflexivity. Qed.
Lemma lprint_else ind b : lprint ind (JLElse b) = [CText t_else; CText t_brace_nl] ++ bprint (S ind) b ++ sp_ind ind ++ [CText t_rbrace].
Proof. reflexivity. Qed.
Lemma lprint_elif ind c th rest : lprint ind (JLElif c th rest)
  = [CText t_else; CText t_if_open] ++ jprint c ++ [CText t_op_mid1; CText t_brace_nl] ++ bprint (S ind) th
    ++ sp_ind ind ++ [CText t_rbrace] ++ lprint ind rest.
Proof. reflexivity. Qed.
Lemma sprint_plural ind v cs : sprint ind (JSPlural v cs)
  = sp_ind ind ++ [CText t_switch_open] ++ jprint v ++ [CText t_for_close; CText t_nl] ++ kprint_nb (S ind) cs
    ++ sp_ind ind ++ [CText t_rbrace; CText t_nl].
Proof. reflexivity. Qed.
Lemma kprint_nb_default ind b : kprint_nb ind (JKDefault b) = sp_ind ind ++ [CText t_default; CText t_nl] ++ bprint (S ind) b.
Proof. reflexivity. Qed.
Lemma kprint_nb_case ind v vs b rest : kprint_nb ind (JKCase v vs b rest)
  = jk_values ind (v :: vs) ++ bprint (S ind) b ++ sp_ind (S ind) ++ [CText t_break; CText t_nl] ++ kprint_nb ind rest.
Proof. reflexivity. Qed.
Lemma kprint_default ind b : kprint ind (JKDefault b)
  = sp_ind ind ++ [CText t_default; CText t_nl] ++ bprint (S ind) b ++ sp_ind (S ind) ++ [CText t_break; CText t_nl].
Proof. reflexivity. Qed.
Lemma kprint_case ind v vs b rest : kprint ind (JKCase v vs b rest)
  = jk_values ind (v :: vs) ++ bprint (S ind) b ++ sp_ind (S ind) ++ [CText t_break; CText t_nl] ++ kprint ind rest.
Proof. reflexivity. Qed.

Lemma swf_let lv name e : swf lv (SLet name e) = is_ident name && cwf lv e. Proof. reflexivity. Qed.
Lemma swf_letc lv name body : swf lv (SLetC name body) = is_ident name && bwf lv body. Proof. reflexivity. Qed.
Lemma swf_if lv c th rest : swf lv (SIf c th rest) = cwf lv c && bwf lv th && ewf lv rest. Proof. reflexivity. Qed.
Lemma swf_switch lv v cs : swf lv (SSwitch v cs) = cwf lv v && kwf lv cs. Proof. reflexivity. Qed.
Lemma swf_for lv x e body hasie ie : swf lv (SFor x e body hasie ie) = is_ident x && cwf lv e && bwf (x :: lv) body && bwf lv ie. Proof. reflexivity. Qed.
Lemma swf_forrange lv x a1 rest body hasie ie : swf lv (SForRange x a1 rest body hasie ie)
  = is_ident x && (Nat.leb (length rest) 2) && cwf lv a1 && forallb (cwf lv) rest && bwf (x :: lv) body && bwf lv ie. Proof. reflexivity. Qed.
Lemma swf_call lv name d ps : swf lv (SCall name d ps)
  = (match d with DExpr e => cwf lv e | _ => true end) && pwf lv ps. Proof. reflexivity. Qed.
Lemma pwf_val lv k e r : pwf lv (PVal k e r) = cwf lv e && pwf lv r. Proof. reflexivity. Qed.
Lemma pwf_cont lv k body r : pwf lv (PCont k body r) = bwf lv body && pwf lv r. Proof. reflexivity. Qed.
Lemma bwf_cons lv s r : bwf lv (BCons s r) = swf lv s && bwf lv r. Proof. reflexivity. Qed.
Lemma ewf_else lv b : ewf lv (EElse b) = bwf lv b. Proof. reflexivity. Qed.
Lemma ewf_elif lv c th rest : ewf lv (EElif c th rest) = cwf lv c && bwf lv th && ewf lv rest. Proof. reflexivity. Qed.
Lemma kwf_default lv b : kwf lv (KDefault b) = bwf lv b. Proof. reflexivity. Qed.
Lemma swf_msgpl lv pn v q : swf lv (SMsgPl pn v q) = cwf lv v && qwf lv q. Proof. reflexivity. Qed.
Lemma qwf_dflt lv b : qwf lv (QDflt b) = msg_ok b && bwf lv b. Proof. reflexivity. Qed.
Lemma qwf_case lv z b r : qwf lv (QCase z b r) = msg_ok b && bwf lv b && qwf lv r. Proof. reflexivity. Qed.
Lemma kwf_case lv v vs b rest : kwf lv (KCase v vs b rest) = cwf lv v && forallb (cwf lv) vs && bwf lv b && kwf lv rest. Proof. reflexivity. Qed.

Lemma lvok_push lv sc : lvok lv sc -> lvok lv ([] :: sc).
Proof. intros H x Hx. rewrite jsc_loop_push. apply H; exact Hx. Qed.
Lemma lvok_bind lv sc name g : is_ident name = true -> lvok lv sc -> lvok lv (jsc_bind_pure sc name g).
Proof. intros Hid H x Hx. rewrite jsc_loop_bind by exact Hid. apply H; exact Hx. Qed.
Lemma lvok_frame lv sc x n : is_ident x = true -> lvok lv sc -> lvok (x :: lv) (loop_frame x n :: sc).
Proof.
  intros Hid H y Hy. rewrite jsc_loop_frame by exact Hid. cbn [existsb] in Hy. rewrite (bstr_eqb_sym y x) in Hy.
  destruct (bstr_eqb x y); cbn [fst].
  - destruct (jsc_name_cons (x ++ t_index) n) as (c0 & r0 & Hc). rewrite Hc. discriminate.
  - apply H. exact Hy.
Qed.
Lemma lvok_after lv mode buf sc n s j sc' n' : binder_ok s -> sgen mode buf sc n s = (j, (sc', n')) -> lvok lv sc -> lvok lv sc'.
Proof.
  intros Hb H Hlv. destruct (sgen_after_ident _ _ _ _ _ _ _ _ Hb H) as [->|(name & Hid & -> & _)]; [exact Hlv|].
  apply lvok_bind; assumption.
Qed.

(* the list of a foreach is not a call of range() *)
Lemma push_for_each_eq x st :
  jsc_push_for_each x st
  = Ok ((jsc_name x (j_n st + 1), jsc_name (x ++ t_list) (j_n st + 1), jsc_name (x ++ t_limit) (j_n st + 1), jsc_name (x ++ t_index) (j_n st + 1)),
        set_scope (loop_frame x (j_n st + 1) :: j_scope st) (j_n st + 1) st).
Proof.
  unfold jsc_push_for_each, jbind, jget, jmod, jret, loop_frame, jsc_name. rewrite <- !app_assoc. reflexivity.
Qed.

Lemma push_for_range_eq x st :
  jsc_push_for_range x st
  = Ok ((jsc_name x (j_n st + 1), jsc_name (x ++ t_init) (j_n st + 1), jsc_name (x ++ t_step) (j_n st + 1), jsc_name (x ++ t_limit) (j_n st + 1),
         jsc_name (x ++ t_index) (j_n st + 1)),
        set_scope (loop_frame x (j_n st + 1) :: j_scope st) (j_n st + 1) st).
Proof.
  unfold jsc_push_for_range, jbind, jget, jmod, jret, loop_frame, jsc_name. rewrite <- !app_assoc. reflexivity.
Qed.

(* the arguments of range() as the generator orders them, on nodes and on MiniJS expressions *)
Lemma range_args_nodes lv sc a1 rest F : (length rest <= 2)%nat -> cwf lv a1 = true -> forallb (cwf lv) rest = true ->
  (Nat.max (cdepth a1) (cdepths rest) < F)%nat ->
  exists ci cl cs,
    match cnode a1 :: map cnode rest with
    | [l] => Some (NInt 0 0, l, NInt 0 1) | [i; l] => Some (i, l, NInt 0 1) | [i; l; s] => Some (i, l, s) | _ => None
    end = Some (cnode ci, cnode cl, cnode cs)
    /\ range_args (JENum 0) (JENum 1) (map (cgen sc) (a1 :: rest)) = Some (cgen sc ci, cgen sc cl, cgen sc cs)
    /\ cwf lv ci = true /\ cwf lv cl = true /\ cwf lv cs = true
    /\ (cdepth ci < F)%nat /\ (cdepth cl < F)%nat /\ (cdepth cs < F)%nat.
Proof.
  intros Hlen W1 Wr Hd. assert (Hp : (1 <= cdepth a1)%nat) by (destruct a1; cbn [cdepth]; lia).
  destruct rest as [|e2 [|e3 [|e4 r]]]; cbn [length] in Hlen; try lia; cbn [forallb cdepths fold_right] in *.
  - exists (CInt 0), a1, (CInt 1). cbn. repeat split; auto; lia.
  - apply andb_prop in Wr. destruct Wr as [W2 _]. exists a1, e2, (CInt 1). cbn. repeat split; auto; lia.
  - apply andb_prop in Wr. destruct Wr as [W2 Wr]. apply andb_prop in Wr. destruct Wr as [W3 _]. exists a1, e2, e3. cbn. repeat split; auto; lia.
Qed.

Section StmtChunks.
Variable o : jopts.

(* the list of a {foreach} of the subset is not a call of range(): visitFor takes the foreach branch *)
Lemma for_dispatch (w : node -> J unit) x e body ifempty :
  match cnode e with
  | NFunc _ fname args => if bstr_eqb fname jn_range then visit_for_range w x args body ifempty else visit_foreach w x (cnode e) body ifempty
  | _ => visit_foreach w x (cnode e) body ifempty
  end = visit_foreach w x (cnode e) body ifempty.
Proof. destruct e; try reflexivity. destruct k; reflexivity. Qed.

(* the part of the generator's state a statement depends on: indentation, buffer variable, autoescape mode, scope, counter *)
Definition shape (st : jstate) (i : nat) (bf : bstr) (a : N) (sc : list (list (bstr * bstr))) (n : N) : Prop :=
  j_indent st = i /\ j_buf st = bf /\ j_auto st = a /\ j_scope st = sc /\ j_n st = n.
Lemma shape_refl st : shape st (j_indent st) (j_buf st) (j_auto st) (j_scope st) (j_n st).
Proof. repeat split. Qed.
(* what walking a statement does to the generator's state: the chunks appended and the shape afterwards; with a
   formatter that writes no import lines (c04_imp_free: ES5) the table of imports stays what it was *)
Definition gres (m : J unit) (st : jstate) (cs : list chunk) (i : nat) (bf : bstr) (a : N) (sc : list (list (bstr * bstr))) (n : N) : Prop :=
  exists stf, m st = Ok (tt, stf) /\ j_out stf = rev cs ++ j_out st /\ shape stf i bf a sc n
              /\ (c04_imp_free o -> j_called stf = j_called st).

Lemma gres_bind m f st c1 c2 i1 b1 a1 s1 n1 i2 b2 a2 s2 n2 :
  gres m st c1 i1 b1 a1 s1 n1 ->
  (forall x, shape x i1 b1 a1 s1 n1 -> gres (f tt) x c2 i2 b2 a2 s2 n2) ->
  gres (jbind m f) st (c1 ++ c2) i2 b2 a2 s2 n2.
Proof.
  intros (x & E1 & O1 & H1 & C1) Hf. destruct (Hf x H1) as (y & E2 & O2 & R & C2).
  exists y. rewrite (jbind_ok _ _ _ _ _ E1). split; [exact E2|]. split; [rewrite O2, O1, rev_app_distr, app_assoc; reflexivity|].
  split; [exact R|intro HF; rewrite (C2 HF); exact (C1 HF)].
Qed.
Lemma gres_eq m st cs cs' i b a s n : gres m st cs i b a s n -> cs = cs' -> gres m st cs' i b a s n.
Proof. intros H <-. exact H. Qed.
Lemma gres_ret st i b a s n : shape st i b a s n -> gres (jret tt) st [] i b a s n.
Proof. intro H. exists st. split; [reflexivity|]. split; [reflexivity|]. split; [exact H|reflexivity]. Qed.
Lemma gres_emit cs st i b a s n : shape st i b a s n -> gres (jemit cs) st cs i b a s n.
Proof. intro H. exists (st_out st cs). rewrite jemit_out. split; [reflexivity|]. destruct st; cbn in *. split; [reflexivity|]. split; [exact H|reflexivity]. Qed.
Lemma gres_txt t st i b a s n : shape st i b a s n -> gres (jtxt t) st [CText t] i b a s n.
Proof. apply gres_emit. Qed.
Lemma gres_indent st i b a s n : shape st i b a s n -> gres jindent st (sp_ind i) i b a s n.
Proof.
  intro H. unfold jindent, sp_ind. exists (st_out st [CText (indent_text (j_indent st))]). split; [unfold jbind, jget; apply jtxt_out|].
  destruct H as (<- & H). destruct st; cbn in *. split; [reflexivity|]. split; [split; [reflexivity|exact H]|reflexivity].
Qed.
Tactic Notation "gbind" ident(x) ident(H) := eapply gres_bind; [ | intros x H ].
Lemma gres_sln cs st i b a s n : shape st i b a s n -> gres (jsln cs) st (sp_ind i ++ cs ++ [CText t_nl]) i b a s n.
Proof.
  intro H. unfold jsln. gbind x Hx. apply gres_indent; exact H. gbind y Hy. apply gres_emit; exact Hx. apply gres_txt; exact Hy.
Qed.
Lemma gres_inc st i b a s n : shape st i b a s n -> gres indent_inc st [] (S i) b a s n.
Proof. intros (<- & H). exists (set_indent (S (j_indent st)) st). destruct st; cbn in *. split; [reflexivity|]. split; [reflexivity|]. split; [split; [reflexivity|exact H]|reflexivity]. Qed.
Lemma gres_dec st i b a s n : shape st (S i) b a s n -> gres indent_dec st [] i b a s n.
Proof. intros (Hi & H). exists (set_indent (pred (j_indent st)) st). destruct st; cbn in *. subst. split; [reflexivity|]. split; [reflexivity|]. split; [split; [reflexivity|exact H]|reflexivity]. Qed.
Lemma gres_step {A} (m : J A) (f : A -> J unit) st x st2 cs i b a s n :
  m st = Ok (x, st2) -> j_out st2 = j_out st /\ j_called st2 = j_called st -> gres (f x) st2 cs i b a s n -> gres (jbind m f) st cs i b a s n.
Proof. intros E (O & C) (stf & E2 & O2 & R & C2). exists stf. rewrite (jbind_ok _ _ _ _ _ E). split; [exact E2|]. split; [congruence|]. split; [exact R|intro HF; rewrite (C2 HF); exact C]. Qed.
Lemma gres_pop st i b a f s n : shape st i b a (f :: s) n -> gres jsc_pop st [] i b a s n.
Proof.
  intros (I1 & B1 & A1 & S1 & N1). exists (set_scope (tl (j_scope st)) (j_n st) st). split; [reflexivity|].
  split; [destruct st; reflexivity|]. split; [|destruct st; reflexivity]. unfold shape. cbn [j_indent j_buf j_auto j_scope j_n set_scope]. rewrite S1. cbn [tl]. repeat split; assumption.
Qed.
Lemma jblock_expr e lv F st1 : (cdepth e < F)%nat -> cwf lv e = true -> lvok lv (j_scope st1) ->
  jblock (jwalk o F) (cnode e) st1 = Ok (jprint (cgen (j_scope st1) e), st1).
Proof.
  intros Hf Hwf Hlv. unfold jblock, jbind, jget. rewrite (cgen_print o e lv F _ Hf Hwf).
  - unfold st_after, st_out. cbn [j_out j_called jset_cur upd_out j_scope].
    rewrite app_nil_r, rev_involutive. destruct st1; reflexivity.
  - exact Hlv.
Qed.
Lemma gres_expr e lv F st i b a s n : (cdepth e < F)%nat -> cwf lv e = true -> lvok lv s -> shape st i b a s n -> gres (jwalk o F (cnode e)) st (jprint (cgen s e)) i b a s n.
Proof.
  intros Hf Hwf Hlv H. exists (st_after st (jprint (cgen (j_scope st) e))).
  rewrite (cgen_print o e lv F st Hf Hwf) by (replace (j_scope st) with s by (symmetry; apply H); exact Hlv). split; [reflexivity|].
  rewrite j_out_st_after. destruct H as (H1 & H2 & H3 & H4 & H5). rewrite H4. split; [reflexivity|].
  unfold st_after, st_out. destruct st; cbn in *. repeat split; assumption.
Qed.
Lemma gres_walk F nd st cs i b a s k i' b' a' s' k' : soydoc_flags nd = None -> shape st i b a s k ->
  (forall st1, shape st1 i b a s k -> gres (jwalk_node o (jwalk o F) (j_cur st) nd) st1 cs i' b' a' s' k') ->
  gres (jwalk o (S F) nd) st cs i' b' a' s' k'.
Proof.
  intros Hfl Hs H. destruct (H (jset_cur None st)) as (stf & E & O & R & C). { destruct st; exact Hs. }
  exists stf. rewrite jwalk_S, Hfl. split; [exact E|]. split; [exact O|]. split; [exact R|intro HF; rewrite (C HF); destruct st; reflexivity].
Qed.

Ltac chunks_eq := repeat rewrite <- app_assoc; cbn [app]; rewrite ?app_nil_r; reflexivity.

(* ---- calls ---- *)
(* the JavaScript name a call uses is the template's name (the ES5 formatter; the ES6 formatter renames and imports) *)
Definition cn_ok : Prop := forall name, fmt_bytes (fmt_call_name (o_fmt o)) name = name.
Lemma gres_note key name st i b a s n : shape st i b a s n -> gres (note_called key (fmt_chunks (fmt_call_text (o_fmt o)) name)) st [] i b a s n.
Proof.
  intro H. destruct (fmt_chunks (fmt_call_text (o_fmt o)) name) as [|c r] eqn:Ef; [apply gres_ret; exact H|].
  exists (set_called (aset (j_called st) key (c :: r)) st). split; [reflexivity|]. split; [destruct st; reflexivity|].
  split; [destruct st; exact H|]. intro HF. rewrite (proj1 (HF name)) in Ef. discriminate Ef.
Qed.
(* visitCall's loop over the parameters, one step *)
Lemma jcall_params_val w first k e r acc st :
  jcall_params w first (NParamValue 0 k e :: r) acc st
  = (bl <~ jblock w e ;; jcall_params w false r ((if first then acc else acc ++ [CText t_comma_sp]) ++ [CName k; CText t_colon_sp] ++ bl)) st.
Proof. reflexivity. Qed.
Lemma jcall_params_cont w first k content r acc st :
  jcall_params w first (NParamContent 0 k content :: r) acc st
  = (jsln [CText t_var; CName (jsc_name t_param (j_n st + 1)); CText t_eq_empty] ;;; w content ;;; jmod (set_buf (j_buf st)) ;;;
     jcall_params w false r ((if first then acc else acc ++ [CText t_comma_sp]) ++ [CName k; CText t_colon_sp; CName (jsc_name t_param (j_n st + 1))]))
      (set_buf (jsc_name t_param (j_n st + 1)) (set_scope (j_scope st) (j_n st + 1) st)).
Proof. destruct first; reflexivity. Qed.

Definition GQ_s (s : cstmt) : Prop := forall lv f st j sc' n' i bf a sc n,
  (sdepth s < f)%nat -> sc <> [] -> lvok lv sc -> swf lv s = true -> shape st i bf a sc n -> sgen a bf sc n s = (j, (sc', n')) ->
  gres (jwalk o f (snode s)) st (sprint i j) i bf a sc' n'.
Definition GQ_b (b : cblk) : Prop := forall lv f st jb n' i bf a sc n,
  (bdepth b <= f)%nat -> sc <> [] -> lvok lv sc -> bwf lv b = true -> shape st i bf a sc n -> bgen a bf sc n b = (jb, n') ->
  exists sc', tl sc' = tl sc /\ (msg_ok b = true -> sc' = sc) /\ gres (jwalk_list (jwalk o f) (bnodes b)) st (bprint i jb) i bf a sc' n'.
Definition GQ_e (e : celse) : Prop := forall lv F st jl n' i bf a sc n,
  (edepth e < F)%nat -> sc <> [] -> lvok lv sc -> ewf lv e = true -> shape st i bf a sc n -> egen a bf sc n e = (jl, n') ->
  gres (jif_conds (jwalk o F) false (enodes e)) st (lprint i jl) i bf a sc n'.
Definition GQ_k (k : ccases) : Prop := forall lv F st jk n' i bf a sc n,
  (kdepth k < F)%nat -> sc <> [] -> lvok lv sc -> kwf lv k = true -> shape st i bf a sc n -> kgen a bf sc n k = (jk, n') ->
  gres (jswitch_cases (jwalk o F) (knodes k)) st (kprint i jk) i bf a sc n'.
Definition GQ_p (ps : cparams) : Prop := forall lv F st jps n' i bf a sc n first acc,
  (pdepth ps < F)%nat -> sc <> [] -> lvok lv sc -> pwf lv ps = true -> shape st i bf a sc n -> pgen a sc n ps = (jps, n') ->
  exists stf, jcall_params (jwalk o F) first (pnodes ps) acc st = Ok (acc ++ jps_print first (jp_args jps), stf)
              /\ j_out stf = rev (pprint i jps) ++ j_out st /\ shape stf i bf a sc n'
              /\ (c04_imp_free o -> j_called stf = j_called st).
(* the clauses of a plural: visitMsgNode's loop over the cases, then the default clause, in front of any rest *)
Definition c04_plgo (W : list node -> J unit) : list node -> J unit :=
  fix go (cs : list node) : J unit := match cs with [] => jret tt | c :: cr => plural_case_body W c ;;; go cr end.
Fixpoint c04_qlen (q : cplur) : nat :=
  match q with QDflt b => length (mnodes b) | QCase _ b r => Nat.max (length (mnodes b)) (c04_qlen r) end.
Definition GQ_q (q : cplur) : Prop := forall lv f F st jk n' i bf a sc n (rest : J unit) crest i2 b2 a2 s2 k2,
  (qdepth q <= F)%nat -> (c04_qlen q < f)%nat -> sc <> [] -> lvok lv sc -> qwf lv q = true -> shape st i bf a sc n -> qgen a bf sc n q = (jk, n') ->
  (forall y, shape y i bf a sc n' -> gres rest y crest i2 b2 a2 s2 k2) ->
  gres (c04_plgo (jmsg_children (jwalk o F) f) (qcnodes q) ;;;
        jsln [CText t_default] ;;; indent_inc ;;; jmsg_children (jwalk o F) f (qdnodes q) ;;; indent_dec ;;; rest)
       st (kprint_nb i jk ++ crest) i2 b2 a2 s2 k2.
Lemma gres_assoc (m k r : J unit) st cs i b a s n :
  gres (m ;;; (k ;;; r)) st cs i b a s n -> gres ((m ;;; k) ;;; r) st cs i b a s n.
Proof.
  intros (stf & E & R). exists stf. split; [|exact R]. rewrite <- E. unfold jbind. destruct (m st) as [[u st1]| | | | |]; reflexivity.
Qed.

(* the budget visitMsgNode's loop gets covers every case body *)
Definition c04_gosum : list node -> nat :=
  fix go (l : list node) : nat := match l with [] => 0%nat | x :: r => (nmsg_size x + go r)%nat end.
Lemma c04_gosum_cons x r : c04_gosum (x :: r) = (nmsg_size x + c04_gosum r)%nat. Proof. reflexivity. Qed.
Lemma c04_nmsg_plural p vn v cases dflt : nmsg_size (NMsgPlural p vn v cases dflt) = (4 + c04_gosum cases + c04_gosum dflt)%nat.
Proof. reflexivity. Qed.
Lemma c04_nmsg_case p z bd : nmsg_size (NMsgPluralCase p z bd) = (3 + c04_gosum bd)%nat.
Proof. reflexivity. Qed.
Lemma c04_gosum_mnodes b : c04_gosum (mnodes b) = length (mnodes b).
Proof. induction b as [|s r IH]; [reflexivity|]. cbn [mnodes c04_gosum length]. fold c04_gosum. rewrite IH. destruct s; reflexivity. Qed.
Lemma c04_qlen_gosum q : (c04_qlen q < 4 + c04_gosum (qcnodes q) + c04_gosum (qdnodes q) + 0)%nat.
Proof.
  induction q as [b|z b r IH].
  - rewrite qcnodes_dflt, qdnodes_dflt, c04_gosum_mnodes. cbn [c04_qlen]. lia.
  - rewrite qcnodes_case, qdnodes_case, c04_gosum_cons, c04_nmsg_case, c04_gosum_mnodes. cbn [c04_qlen]. lia.
Qed.

Lemma sgen_scope mode buf sc n s j sc' n' : sgen mode buf sc n s = (j, (sc', n')) -> sc <> [] -> tl sc' = tl sc /\ sc' <> [].
Proof.
  intros H Hn. destruct (sgen_after _ _ _ _ _ _ _ _ H) as [->|(name & -> & _)]; [auto|].
  destruct sc as [|f r]; [congruence|]. cbn. split; [reflexivity|discriminate].
Qed.

(* a block: s.at, push a frame, the statements, pop *)
Lemma gen_nlist b lv F y jb n' i bf a sc n : GQ_b b -> (bdepth b < F)%nat -> lvok lv sc -> bwf lv b = true -> shape y i bf a sc n ->
  bgen a bf ([] :: sc) n b = (jb, n') ->
  gres (jwalk o F (NList 0 (bnodes b))) y (bprint i jb) i bf a sc n'.
Proof.
  intros Hb Hd Hlv Hwf Hy Eg. destruct F as [|f]; [lia|]. eapply gres_walk; [reflexivity|exact Hy|]. intros x1 H1. cbn [jwalk_node].
  set (x2 := set_scope ([] :: j_scope x1) (j_n x1) x1).
  assert (E2 : jsc_push x1 = Ok (tt, x2)) by reflexivity.
  assert (H2 : shape x2 i bf a ([] :: sc) n /\ j_out x2 = j_out x1).
  { subst x2. destruct H1 as (? & ? & ? & ? & ?). destruct x1; cbn in *. subst. repeat split. }
  destruct H2 as (H2 & O2).
  destruct (Hb lv f x2 jb n' i bf a ([] :: sc) n ltac:(lia) ltac:(discriminate) (lvok_push _ _ Hlv) Hwf H2 Eg) as (sc' & Htl & _ & (x3 & E3 & O3 & (I3 & B3 & A3 & S3 & N3) & C3)).
  unfold gres. erewrite jbind_ok; [|exact E2]. erewrite jbind_ok; [|exact E3].
  exists (set_scope (tl (j_scope x3)) (j_n x3) x3). split; [reflexivity|].
  split; [cbn; rewrite O3, O2; reflexivity|]. split; [|intro HF; exact (C3 HF)].
  unfold shape. cbn [j_indent j_buf j_auto j_scope j_n set_scope]. rewrite S3, Htl. cbn [tl]. repeat split; assumption.
Qed.

(* "{" newline, the block one level deeper, "}" at the statement's level, then the rest *)
Lemma gen_body_tail b lv F st jb n' rest crest i bf a sc n i2 b2 a2 s2 k2 : GQ_b b -> (bdepth b < F)%nat -> lvok lv sc -> bwf lv b = true -> shape st i bf a sc n ->
  bgen a bf ([] :: sc) n b = (jb, n') ->
  (forall y, shape y i bf a sc n' -> gres rest y crest i2 b2 a2 s2 k2) ->
  gres (jtxt t_brace_nl ;;; indent_inc ;;; jwalk o F (NList 0 (bnodes b)) ;;; indent_dec ;;; jindent ;;; jtxt t_rbrace ;;; rest) st
       ([CText t_brace_nl] ++ bprint (S i) jb ++ sp_ind i ++ [CText t_rbrace] ++ crest) i2 b2 a2 s2 k2.
Proof.
  intros Hb Hd Hlv Hwf Hs Eg Hrest. eapply gres_eq.
  - gbind x0 H0. apply gres_txt; exact Hs.
    gbind x1 H1. apply gres_inc; exact H0.
    gbind x2 H2. apply (gen_nlist b lv F x1 jb n' (S i) bf a sc n Hb Hd Hlv Hwf H1 Eg).
    gbind x3 H3. apply gres_dec; exact H2.
    gbind x4 H4. apply gres_indent; exact H3.
    gbind x5 H5. apply gres_txt; exact H4.
    apply Hrest; exact H5.
  - chunks_eq.
Qed.

Lemma gen_case_values lv F vs : (forall x, In x vs -> (cdepth x < F)%nat) -> forallb (cwf lv) vs = true -> forall st i b a s n, lvok lv s -> shape st i b a s n ->
  gres (case_values (jwalk o F) (map cnode vs)) st (jk_values i (map (cgen s) vs)) i b a s n.
Proof.
  induction vs as [|v r IH]; intros Hd Hwf st i b a s n Hlv Hs; cbn [map case_values jk_values].
  - apply gres_ret; exact Hs.
  - eapply gres_eq.
    + gbind x1 H1. apply gres_indent; exact Hs. gbind x2 H2. apply gres_txt; exact H1.
      cbn [forallb] in Hwf. apply andb_prop in Hwf. destruct Hwf as [Hwv Hwr].
      gbind x3 H3. apply (gres_expr v lv F x2); [apply Hd; left; reflexivity|exact Hwv|exact Hlv|exact H2].
      gbind x4 H4. apply gres_emit; exact H3. apply IH; [intros y Hy; apply Hd; right; exact Hy|exact Hwr|exact Hlv|exact H4].
    + chunks_eq.
Qed.

(* the body of a case: the block one level deeper, then break; at that level *)
Lemma gen_case_body b lv F st jb n' rest crest i bf a sc n i2 b2 a2 s2 k2 : GQ_b b -> (bdepth b < F)%nat -> lvok lv sc -> bwf lv b = true -> shape st i bf a sc n ->
  bgen a bf ([] :: sc) n b = (jb, n') ->
  (forall y, shape y i bf a sc n' -> gres rest y crest i2 b2 a2 s2 k2) ->
  gres (indent_inc ;;; jwalk o F (NList 0 (bnodes b)) ;;; jsln [CText t_break] ;;; indent_dec ;;; rest) st
       (bprint (S i) jb ++ sp_ind (S i) ++ [CText t_break; CText t_nl] ++ crest) i2 b2 a2 s2 k2.
Proof.
  intros Hb Hd Hlv Hwf Hs Eg Hrest. eapply gres_eq.
  - gbind x1 H1. apply gres_inc; exact Hs.
    gbind x2 H2. apply (gen_nlist b lv F x1 jb n' (S i) bf a sc n Hb Hd Hlv Hwf H1 Eg).
    gbind x3 H3. apply gres_sln; exact H2.
    gbind x4 H4. apply gres_dec; exact H3.
    apply Hrest; exact H4.
  - chunks_eq.
Qed.

(* raw text and print need nothing of the generator's options (no call name, no message bundle): usable with any jopts,
   e.g. for the resolved items of a translated message (Proofs/MsgThreeSided.v) *)
Lemma sgen_print_raw t : GQ_s (SRaw t).
Proof.
  intros lv f st j sc' n' i bf a sc n Hf Hn Hlv Hwf Hs Eg. rewrite sgen_raw in Eg. inversion Eg; subst. clear Eg.
  destruct f as [|f]; [cbn in Hf; lia|]. rewrite snode_raw. eapply gres_walk; [reflexivity|exact Hs|]. intros st1 H1. cbn [jwalk_node sprint].
  unfold write_raw_text. eapply gres_eq.
  + gbind x Hx. apply gres_indent; exact H1.
    unfold bufname. unfold gres. erewrite jbind_ok; [|erewrite jbind_ok; [reflexivity|reflexivity]].
    replace (j_buf x) with bf by (symmetry; apply Hx). apply gres_emit. exact Hx.
  + reflexivity.
Qed.
Lemma sgen_print_print e ds : GQ_s (SPrint e ds).
Proof.
  intros lv f st j sc' n' i bf a sc n Hf Hn Hlv Hwf Hs Eg. rewrite sgen_print_eq in Eg. inversion Eg; subst. clear Eg.
  rewrite snode_print. cbn [sprint]. cbn [sdepth] in Hf. destruct Hs as (<- & <- & <- & <- & <-). cbn [swf] in Hwf.
  destruct (cgen_print_dirs_fr o e ds lv f st ltac:(lia) Hwf Hlv) as (stf & E & O & I & B & S & A & N & C). exists stf. repeat split; auto.
Qed.

Hypothesis HCN : cn_ok.
(* no translation bundle: a message is rendered from its source *)
Hypothesis HNB : o_msgs o = None.

Lemma sprint_seq ind jb : sprint ind (JSSeq jb) = bprint ind jb. Proof. reflexivity. Qed.
Lemma swf_msg lv body : swf lv (SMsg body) = msg_ok body && bwf lv body. Proof. reflexivity. Qed.
Lemma msg_size_mnodes body : msg_ok body = true -> msg_size (mnodes body) = S (length (mnodes body)).
Proof.
  unfold msg_size. intro Hm. f_equal. induction body as [|s r IH]; [reflexivity|]. cbn [msg_ok] in Hm. apply andb_prop in Hm. destruct Hm as [Hs Hr].
  cbn [mnodes fold_right length]. rewrite (IH Hr). destruct s; try discriminate Hs; reflexivity.
Qed.
(* visitMsgNode's loop over the children of a message without plural: the statements, one after the other *)
Lemma gen_msg_children w body : msg_ok body = true -> forall fuel st, (length (mnodes body) < fuel)%nat ->
  jmsg_children w fuel (mnodes body) st = jwalk_list w (bnodes body) st.
Proof.
  induction body as [|s r IH]; intros Hm fuel st Hf; (destruct fuel as [|f]; [cbn [length] in Hf; lia|]); [reflexivity|].
  cbn [msg_ok] in Hm. apply andb_prop in Hm. destruct Hm as [Hs Hr]. cbn [mnodes bnodes length] in *. fold bnodes.
  assert (Hstep : forall x, jmsg_children w (S f) (x :: mnodes r) st = (w (snode s) ;;; jmsg_children w f (mnodes r)) st ->
                  jmsg_children w (S f) (x :: mnodes r) st = jwalk_list w (snode s :: bnodes r) st).
  { intros x Hx. rewrite Hx. cbn [jwalk_list]. unfold jbind. destruct (w (snode s) st) as [[u st1]| | | | |]; try reflexivity. apply IH; [exact Hr|lia]. }
  destruct s; try discriminate Hs; apply Hstep; reflexivity.
Qed.

(* one body of a plural: visitMsgNode's loop over raw text and placeholders = the statements, one after the other *)
Lemma gen_qbody b lv f F st i bf a sc n jb n1 : GQ_b b ->
  msg_ok b = true -> bwf lv b = true -> (bdepth b <= F)%nat -> (length (mnodes b) < f)%nat ->
  sc <> [] -> lvok lv sc -> shape st i bf a sc n -> bgen a bf sc n b = (jb, n1) ->
  gres (jmsg_children (jwalk o F) f (mnodes b)) st (bprint i jb) i bf a sc n1.
Proof.
  intros Hb Hm Hw Hd Hl Hn Hlv Hs Eb.
  destruct (Hb lv F st jb n1 i bf a sc n Hd Hn Hlv Hw Hs Eb) as (sc' & _ & Hsame & G).
  rewrite (Hsame Hm) in G. destruct G as (z3 & E3 & R3). exists z3. rewrite (gen_msg_children (jwalk o F) b Hm f st Hl). split; [exact E3|exact R3].
Qed.

Theorem sgen_print_all : (forall s, GQ_s s) /\ (forall b, GQ_b b) /\ (forall e, GQ_e e) /\ (forall k, GQ_k k) /\ (forall ps, GQ_p ps) /\ (forall q, GQ_q q).
Proof.
  apply cstmt_mutind.
  - (* raw *) intros t lv f st j sc' n' i bf a sc n Hf Hn Hlv Hwf Hs Eg. rewrite sgen_raw in Eg. inversion Eg; subst. clear Eg.
    destruct f as [|f]; [cbn in Hf; lia|]. rewrite snode_raw. eapply gres_walk; [reflexivity|exact Hs|]. intros st1 H1. cbn [jwalk_node sprint].
    unfold write_raw_text. eapply gres_eq.
    + gbind x Hx. apply gres_indent; exact H1.
      unfold bufname. unfold gres. erewrite jbind_ok; [|erewrite jbind_ok; [reflexivity|reflexivity]].
      replace (j_buf x) with bf by (symmetry; apply Hx). apply gres_emit. exact Hx.
    + reflexivity.
  - (* print *) intros e ds lv f st j sc' n' i bf a sc n Hf Hn Hlv Hwf Hs Eg. rewrite sgen_print_eq in Eg. inversion Eg; subst. clear Eg.
    rewrite snode_print. cbn [sprint]. cbn [sdepth] in Hf. destruct Hs as (<- & <- & <- & <- & <-). cbn [swf] in Hwf.
    destruct (cgen_print_dirs_fr o e ds lv f st ltac:(lia) Hwf Hlv) as (stf & E & O & I & B & S & A & N & C). exists stf. repeat split; auto.
  - (* let *) intros name e lv f st j sc' n' i bf a sc n Hf Hn Hlv Hwf Hs Eg. rewrite sgen_let in Eg. inversion Eg; subst. clear Eg.
    cbn [sdepth] in Hf. destruct f as [|f]; [lia|]. rewrite snode_let, sprint_var.
    eapply gres_walk; [reflexivity|exact Hs|]. intros st1 (I1 & B1 & A1 & S1 & N1). cbn [jwalk_node].
    (* the value in a block of its own *)
    rewrite swf_let in Hwf. apply andb_prop in Hwf. destruct Hwf as [Hid Hwe].
    assert (Eb : jblock (jwalk o f) (cnode e) st1 = Ok (jprint (cgen sc e), st1)).
    { rewrite <- S1. apply (jblock_expr e lv); [lia|exact Hwe|rewrite S1; exact Hlv]. }
    unfold gres. erewrite jbind_ok; [|exact Eb].
    destruct sc as [|fr rs]; [congruence|].
    set (g := jsc_name name (n + 1)).
    set (st2 := set_scope (aset fr name g :: rs) (n + 1) st1).
    assert (Em : jsc_makevar name st1 = Ok (g, st2)).
    { unfold jsc_makevar, jsc_genname, jsc_bind, jbind, jget, jmod, jret. cbn [j_n j_scope set_scope]. rewrite S1, N1. reflexivity. }
    erewrite jbind_ok; [|exact Em].
    assert (H2 : shape st2 i bf a (aset fr name g :: rs) (n + 1)) by (subst st2; destruct st1; cbn in *; repeat split; assumption).
    destruct (gres_sln ([CText t_var; CName g; CText t_eq] ++ jprint (cgen (fr :: rs) e) ++ [CText t_semi]) st2 _ _ _ _ _ H2) as (stf & E & O & R).
    exists stf. split; [exact E|]. split; [exact O|exact R].
  - (* let, content form *) intros name body IHb lv f st j sc' n' i bf a sc n Hf Hn Hlv Hwf Hs Eg. rewrite sgen_letc in Eg.
    set (g := jsc_name name (n + 1)) in *.
    destruct (bgen a g ([] :: sc) (n + 1) body) as [jb n1] eqn:E1. inversion Eg; subst. clear Eg.
    rewrite swf_letc in Hwf. apply andb_prop in Hwf. destruct Hwf as [Hid Hwb].
    rewrite sdepth_letc in Hf. destruct f as [|F]; [lia|]. rewrite snode_letc, sprint_varblock.
    eapply gres_walk; [reflexivity|exact Hs|]. intros st1 (I1 & B1 & A1 & S1 & N1). cbn [jwalk_node].
    (* the new name (not yet bound) becomes the buffer variable *)
    set (st2 := set_buf g (set_scope sc (n + 1) st1)).
    assert (E2 : (st0 <~ jget ;;
                   g0 <~ jsc_genname name ;; jmod (set_buf g0) ;;; jsln [CText t_var; CName g0; CText t_eq_empty] ;;;
                   jwalk o F (NList 0 (bnodes body)) ;;; jsc_bind name g0 ;;; jmod (set_buf (j_buf st0))) st1
                 = (jsln [CText t_var; CName g; CText t_eq_empty] ;;; jwalk o F (NList 0 (bnodes body)) ;;; jsc_bind name g ;;; jmod (set_buf bf)) st2).
    { unfold jbind at 1. unfold jget. unfold jbind at 1. unfold jsc_genname, jbind, jget, jmod, jret. cbn [j_n j_scope set_scope].
      rewrite S1, N1, B1. reflexivity. }
    unfold gres. rewrite E2.
    assert (H2 : shape st2 i g a sc (n + 1)) by (subst st2; destruct st1; cbn in *; repeat split; assumption).
    assert (Hmain : gres (jsln [CText t_var; CName g; CText t_eq_empty] ;;; jwalk o F (NList 0 (bnodes body)) ;;; jsc_bind name g ;;; jmod (set_buf bf)) st2
                         ((sp_ind i ++ [CText t_var; CName g; CText t_eq_empty] ++ [CText t_nl]) ++ (bprint i jb ++ []))
                         i bf a (jsc_bind_pure sc name g) n').
    { eapply gres_bind. apply gres_sln; exact H2. intros x1 Hx1.
      eapply gres_bind. apply (gen_nlist body lv F x1 jb n' i g a sc (n + 1) IHb ltac:(lia) Hlv Hwb Hx1 E1). intros x2 (I2 & B2 & A2 & S2 & N2).
      destruct sc as [|fr rs]; [congruence|].
      exists (set_buf bf (set_scope (aset fr name g :: rs) (j_n x2) x2)). split.
      - unfold jbind at 1. unfold jsc_bind. unfold jbind at 1. unfold jget. rewrite S2. reflexivity.
      - split; [destruct x2; reflexivity|]. destruct x2; cbn in *. repeat split; try assumption; intros _; reflexivity. }
    destruct Hmain as (stf & E & O & R). exists stf. split; [exact E|]. split; [|exact R].
    rewrite O. subst st2. destruct st1; cbn. f_equal. f_equal. rewrite app_nil_r. rewrite <- !app_assoc. reflexivity.
  - (* if *) intros c th IHt rest IHr lv f st j sc' n' i bf a sc n Hf Hn Hlv Hwf Hs Eg. rewrite sgen_if in Eg.
    destruct (bgen a bf ([] :: sc) n th) as [jt n1] eqn:E1.
    destruct (egen a bf sc n1 rest) as [jr n2] eqn:E2. inversion Eg; subst. clear Eg.
    rewrite swf_if in Hwf. apply andb_prop in Hwf. destruct Hwf as [Hwf Hwr]. apply andb_prop in Hwf. destruct Hwf as [Hwc Hwt].
    rewrite sdepth_if in Hf. destruct f as [|F]; [lia|]. rewrite snode_if, sprint_if.
    eapply gres_walk; [reflexivity|exact Hs|]. intros st1 H1. cbn [jwalk_node jif_conds].
    eapply gres_eq.
    + gbind x Hx. apply gres_indent; exact H1.
      gbind y Hy; [|apply gres_txt; exact Hy].
      gbind x0 H0. apply gres_ret; exact Hx.
      gbind x2 H2.
      { gbind z Hz. apply gres_txt; exact H0. gbind z2 Hz2. apply (gres_expr c lv F z); [lia|exact Hwc|exact Hlv|exact Hz]. apply gres_txt; exact Hz2. }
      eapply (gen_body_tail th lv F x2 jt n1); [exact IHt|lia|exact Hlv|exact Hwt|exact H2|exact E1|].
      intros y0 Hy0. apply (IHr lv F y0 jr n' i bf a sc' n1); [lia|exact Hn|exact Hlv|exact Hwr|exact Hy0|exact E2].
    + chunks_eq.
  - (* switch *) intros v cs IHk lv f st j sc' n' i bf a sc n Hf Hn Hlv Hwf Hs Eg. rewrite sgen_switch in Eg.
    destruct (kgen a bf sc n cs) as [jc n1] eqn:E1. inversion Eg; subst. clear Eg.
    rewrite swf_switch in Hwf. apply andb_prop in Hwf. destruct Hwf as [Hwv Hwk].
    rewrite sdepth_switch in Hf. destruct f as [|F]; [lia|]. rewrite snode_switch, sprint_switch.
    eapply gres_walk; [reflexivity|exact Hs|]. intros st1 H1. cbn [jwalk_node].
    eapply gres_eq.
    + gbind x1 Hx1. apply gres_indent; exact H1. gbind x2 Hx2. apply gres_txt; exact Hx1.
      gbind x3 Hx3. apply (gres_expr v lv F x2); [lia|exact Hwv|exact Hlv|exact Hx2]. gbind x4 Hx4. apply gres_emit; exact Hx3.
      gbind x5 Hx5. apply gres_inc; exact Hx4.
      gbind x6 Hx6. apply (IHk lv F x5 jc n' (S i) bf a sc' n); [lia|exact Hn|exact Hlv|exact Hwk|exact Hx5|exact E1].
      gbind x7 Hx7. apply gres_dec; exact Hx6. apply gres_sln; exact Hx7.
    + chunks_eq.
  - (* foreach *) intros x e body IHb hasie ie IHi lv f st j sc' n' i bf a sc n Hf Hn Hlv Hwf Hs Eg. rewrite sgen_for in Eg.
    destruct (bgen a bf ([] :: loop_frame x (n + 1) :: sc) (n + 1) body) as [jb n1] eqn:E1.
    rewrite swf_for in Hwf. apply andb_prop in Hwf. destruct Hwf as [Hwf Hwi]. apply andb_prop in Hwf. destruct Hwf as [Hwf Hwb].
    apply andb_prop in Hwf. destruct Hwf as [Hid Hwe].
    rewrite sdepth_for in Hf. destruct f as [|F]; [lia|]. rewrite snode_for.
    eapply gres_walk; [reflexivity|exact Hs|]. intros st1 H1. cbn [jwalk_node]. rewrite for_dispatch. unfold visit_foreach.
    pose proof H1 as (I1 & B1 & A1 & S1 & N1).
    eapply gres_step; [apply (jblock_expr e lv F st1); [lia|exact Hwe|rewrite S1; exact Hlv]|split; reflexivity|]. rewrite S1.
    eapply gres_step; [apply push_for_each_eq|destruct st1; split; reflexivity|]. rewrite S1, N1. cbn iota beta.
    set (vd := jsc_name x (n + 1)). set (vlist := jsc_name (x ++ t_list) (n + 1)).
    set (vlen := jsc_name (x ++ t_limit) (n + 1)). set (vidx := jsc_name (x ++ t_index) (n + 1)).
    set (st2 := set_scope (loop_frame x (n + 1) :: sc) (n + 1) st1).
    assert (H2 : shape st2 i bf a (loop_frame x (n + 1) :: sc) (n + 1)) by (subst st2; destruct st1; cbn in *; repeat split; assumption).
    clearbody st2.
    pose proof (lvok_frame lv sc x (n + 1) Hid Hlv) as Hlv2.
    unfold visit_loop.
    destruct hasie.
    + (* with ifempty *)
      destruct (bgen a bf ([] :: sc) n1 ie) as [ji n2] eqn:E2. inversion Eg; subst j sc' n'. clear Eg. rewrite sprint_foreach. cbn zeta iota.
      fold vd vlist vlen vidx. eapply gres_eq.
      * gbind y1 Y1. apply gres_sln; exact H2.
        gbind y2 Y2. apply gres_sln; exact Y1.
        gbind y3 Y3. { gbind z1 Z1. apply gres_sln; exact Y2. apply gres_inc; exact Z1. }
        gbind y4 Y4. apply gres_sln; exact Y3.
        gbind y5 Y5. apply gres_inc; exact Y4.
        gbind y6 Y6. apply gres_sln; exact Y5.
        gbind y7 Y7. apply (gen_nlist body (x :: lv) F y6 jb n1 (S (S i)) bf a (loop_frame x (n + 1) :: sc) (n + 1) IHb ltac:(lia) Hlv2 Hwb Y6 E1).
        gbind y8 Y8. apply gres_dec; exact Y7.
        gbind y9 Y9. apply gres_sln; exact Y8.
        gbind y10 Y10. apply (gres_pop y9 (S i) bf a _ sc n1 Y9).
        gbind y11 Y11. apply gres_dec; exact Y10.
        gbind y12 Y12. apply gres_sln; exact Y11.
        gbind y13 Y13. apply gres_inc; exact Y12.
        gbind y14 Y14. apply (gen_nlist ie lv F y13 ji n2 (S i) bf a sc n1 IHi ltac:(lia) Hlv Hwi Y13 E2).
        gbind y15 Y15. apply gres_dec; exact Y14.
        apply gres_sln; exact Y15.
      * chunks_eq.
    + (* without *)
      inversion Eg; subst j sc' n'. clear Eg. rewrite sprint_foreach. cbn zeta iota.
      fold vd vlist vlen vidx. eapply gres_eq.
      * gbind y1 Y1. apply gres_sln; exact H2.
        gbind y2 Y2. apply gres_sln; exact Y1.
        gbind y3 Y3. apply gres_ret; exact Y2.
        gbind y4 Y4. apply gres_sln; exact Y3.
        gbind y5 Y5. apply gres_inc; exact Y4.
        gbind y6 Y6. apply gres_sln; exact Y5.
        gbind y7 Y7. apply (gen_nlist body (x :: lv) F y6 jb n1 (S i) bf a (loop_frame x (n + 1) :: sc) (n + 1) IHb ltac:(lia) Hlv2 Hwb Y6 E1).
        gbind y8 Y8. apply gres_dec; exact Y7.
        gbind y9 Y9. apply gres_sln; exact Y8.
        gbind y10 Y10. apply (gres_pop y9 i bf a _ sc n1 Y9).
        apply gres_ret; exact Y10.
      * chunks_eq.
  - (* for over range() *) intros x a1 rest body IHb hasie ie IHi lv f st j sc' n' i bf a sc n Hf Hn Hlv Hwf Hs Eg. rewrite sgen_forrange in Eg.
    destruct (bgen a bf ([] :: loop_frame x (n + 1) :: sc) (n + 1) body) as [jb n1] eqn:E1.
    rewrite swf_forrange in Hwf. apply andb_prop in Hwf. destruct Hwf as [Hwf Hwi]. apply andb_prop in Hwf. destruct Hwf as [Hwf Hwb].
    apply andb_prop in Hwf. destruct Hwf as [Hwf Hwr]. apply andb_prop in Hwf. destruct Hwf as [Hwf Hw1]. apply andb_prop in Hwf. destruct Hwf as [Hid Hlen].
    apply Nat.leb_le in Hlen.
    rewrite sdepth_forrange in Hf. destruct f as [|F]; [lia|]. rewrite snode_forrange.
    destruct (range_args_nodes lv sc a1 rest F Hlen Hw1 Hwr ltac:(lia)) as (ci & cl & cs & Hnodes & Hra & Wi & Wl & Ws & Di & Dl & Ds).
    rewrite Hra in Eg.
    eapply gres_walk; [reflexivity|exact Hs|]. intros st1 H1. cbn [jwalk_node].
    replace (bstr_eqb jn_range jn_range) with true by reflexivity. unfold visit_for_range. rewrite Hnodes.
    pose proof H1 as (I1 & B1 & A1 & S1 & N1).
    eapply gres_step; [apply (jblock_expr ci lv F st1); [exact Di|exact Wi|rewrite S1; exact Hlv]|split; reflexivity|].
    eapply gres_step; [apply (jblock_expr cs lv F st1); [exact Ds|exact Ws|rewrite S1; exact Hlv]|split; reflexivity|].
    eapply gres_step; [apply (jblock_expr cl lv F st1); [exact Dl|exact Wl|rewrite S1; exact Hlv]|split; reflexivity|]. rewrite S1.
    eapply gres_step; [apply push_for_range_eq|destruct st1; split; reflexivity|]. rewrite S1, N1. cbn iota beta.
    set (vd := jsc_name x (n + 1)). set (vinit := jsc_name (x ++ t_init) (n + 1)). set (vstep := jsc_name (x ++ t_step) (n + 1)).
    set (vlen := jsc_name (x ++ t_limit) (n + 1)). set (vidx := jsc_name (x ++ t_index) (n + 1)).
    set (st2 := set_scope (loop_frame x (n + 1) :: sc) (n + 1) st1).
    assert (H2 : shape st2 i bf a (loop_frame x (n + 1) :: sc) (n + 1)) by (subst st2; destruct st1; cbn in *; repeat split; assumption).
    clearbody st2.
    pose proof (lvok_frame lv sc x (n + 1) Hid Hlv) as Hlv2.
    unfold visit_loop.
    destruct hasie.
    + destruct (bgen a bf ([] :: sc) n1 ie) as [ji n2] eqn:E2. inversion Eg; subst j sc' n'. clear Eg. rewrite sprint_forrange. cbn zeta iota.
      fold vd vinit vstep vlen vidx. eapply gres_eq.
      * gbind y1 Y1. apply gres_sln; exact H2.
        gbind y1b Y1b. apply gres_sln; exact Y1.
        gbind y2 Y2. apply gres_sln; exact Y1b.
        gbind y3 Y3. { gbind z1 Z1. apply gres_sln; exact Y2. apply gres_inc; exact Z1. }
        gbind y4 Y4. apply gres_sln; exact Y3.
        gbind y5 Y5. apply gres_inc; exact Y4.
        gbind y6 Y6. apply gres_sln; exact Y5.
        gbind y7 Y7. apply (gen_nlist body (x :: lv) F y6 jb n1 (S (S i)) bf a (loop_frame x (n + 1) :: sc) (n + 1) IHb ltac:(lia) Hlv2 Hwb Y6 E1).
        gbind y8 Y8. apply gres_dec; exact Y7.
        gbind y9 Y9. apply gres_sln; exact Y8.
        gbind y10 Y10. apply (gres_pop y9 (S i) bf a _ sc n1 Y9).
        gbind y11 Y11. apply gres_dec; exact Y10.
        gbind y12 Y12. apply gres_sln; exact Y11.
        gbind y13 Y13. apply gres_inc; exact Y12.
        gbind y14 Y14. apply (gen_nlist ie lv F y13 ji n2 (S i) bf a sc n1 IHi ltac:(lia) Hlv Hwi Y13 E2).
        gbind y15 Y15. apply gres_dec; exact Y14.
        apply gres_sln; exact Y15.
      * chunks_eq.
    + inversion Eg; subst j sc' n'. clear Eg. rewrite sprint_forrange. cbn zeta iota.
      fold vd vinit vstep vlen vidx. eapply gres_eq.
      * gbind y1 Y1. apply gres_sln; exact H2.
        gbind y1b Y1b. apply gres_sln; exact Y1.
        gbind y2 Y2. apply gres_sln; exact Y1b.
        gbind y3 Y3. apply gres_ret; exact Y2.
        gbind y4 Y4. apply gres_sln; exact Y3.
        gbind y5 Y5. apply gres_inc; exact Y4.
        gbind y6 Y6. apply gres_sln; exact Y5.
        gbind y7 Y7. apply (gen_nlist body (x :: lv) F y6 jb n1 (S i) bf a (loop_frame x (n + 1) :: sc) (n + 1) IHb ltac:(lia) Hlv2 Hwb Y6 E1).
        gbind y8 Y8. apply gres_dec; exact Y7.
        gbind y9 Y9. apply gres_sln; exact Y8.
        gbind y10 Y10. apply (gres_pop y9 i bf a _ sc n1 Y9).
        apply gres_ret; exact Y10.
      * chunks_eq.
  - (* css *) intros e sfx lv f st j sc' n' i bf a sc n Hf Hn Hlv Hwf Hs Eg. rewrite sgen_css in Eg. inversion Eg; subst. clear Eg.
    rewrite sdepth_css in Hf. destruct f as [|F]; [lia|]. rewrite snode_css, sprint_css.
    eapply gres_walk; [reflexivity|exact Hs|]. intros st1 H1. cbn [jwalk_node].
    assert (Hraw : forall x0, shape x0 i bf a sc' n' ->
              gres (write_raw_text sfx) x0 [CText (indent_text i); CName bf; CText t_pluseq; CStrLit 39 sfx; CText t_semi_nl] i bf a sc' n').
    { intros x0 Hx0. unfold write_raw_text. eapply gres_eq.
      - gbind x Hx. apply gres_indent; exact Hx0.
        unfold bufname. unfold gres. erewrite jbind_ok; [|erewrite jbind_ok; [reflexivity|reflexivity]].
        replace (j_buf x) with bf by (symmetry; apply Hx). apply gres_emit. exact Hx.
      - reflexivity. }
    destruct e as [x|]; cbn [swf] in Hwf.
    + eapply gres_bind; [|intros y Hy; apply Hraw; exact Hy].
      eapply gres_eq.
      * gbind x1 Hx1. apply gres_indent; exact H1.
        unfold bufname. eapply gres_step; [erewrite jbind_ok; [reflexivity|reflexivity]|split; reflexivity|].
        replace (j_buf x1) with bf by (symmetry; apply Hx1).
        gbind x2 Hx2. apply gres_emit; exact Hx1.
        gbind x3 Hx3. apply (gres_expr x lv F x2); [lia|exact Hwf|exact Hlv|exact Hx2].
        apply gres_emit; exact Hx3.
      * unfold sp_ind. chunks_eq.
    + eapply gres_eq; [eapply gres_bind; [apply gres_ret; exact H1|intros y Hy; apply Hraw; exact Hy]|reflexivity].
  - (* call *) intros name d ps IHp lv f st j sc' n' i bf a sc n Hf Hn Hlv Hwf Hs Eg. rewrite sgen_call in Eg.
    destruct (pgen a sc n ps) as [jps n1] eqn:Ep. inversion Eg; subst. clear Eg.
    rewrite sdepth_call in Hf. destruct f as [|F]; [lia|]. rewrite snode_call, sprint_call.
    eapply gres_walk; [reflexivity|exact Hs|]. intros st1 H1. pose proof H1 as (I1 & B1 & A1 & S1 & N1). cbn [jwalk_node].
    rewrite swf_call in Hwf. apply andb_prop in Hwf. destruct Hwf as [Hwd Hwp].
    unfold visit_call.
    assert (Hlv1 : lvok lv (j_scope st1)) by (rewrite S1; exact Hlv).
    assert (E0 : (match cdata_node d with
                  | Some dn => jblock (jwalk o F) dn
                  | None => jret (if cdata_all d then [CText t_opt_data] else [CText t_empty_obj])
                  end) st1 = Ok (jd_print (dgen sc' d), st1)).
    { destruct d as [| |e]; cbn [cdata_node cdata_all dgen jd_print]; try reflexivity.
      rewrite <- S1. apply (jblock_expr e lv); [cbn [ddepth] in Hf; lia|exact Hwd|exact Hlv1]. }
    eapply gres_step; [exact E0|split; reflexivity|].
    (* the parameters: the content blocks are written now, the object literal is kept for the call line *)
    assert (E1 : exists st2, (match pnodes ps with
                  | [] => jret (jd_print (dgen sc' d))
                  | _ => ps0 <~ jcall_params (jwalk o F) true (pnodes ps) ([CText t_augment] ++ jd_print (dgen sc' d) ++ [CText t_augment_mid]) ;;
                         jret (ps0 ++ [CText t_augment_end])
                  end) st1 = Ok (jcall_arg (dgen sc' d) (jp_args jps), st2)
                 /\ j_out st2 = rev (pprint i jps) ++ j_out st1 /\ shape st2 i bf a sc' n'
                 /\ (c04_imp_free o -> j_called st2 = j_called st1)).
    { destruct (IHp lv F st1 jps n' i bf a sc' n true ([CText t_augment] ++ jd_print (dgen sc' d) ++ [CText t_augment_mid]) ltac:(lia) Hn Hlv Hwp H1 Ep)
        as (st2 & E2 & O2 & H2 & C2).
      destruct ps as [|k e r|k body r].
      - rewrite pgen_nil in Ep. inversion Ep; subst. exists st1. split; [reflexivity|]. split; [reflexivity|]. split; [exact H1|reflexivity].
      - exists st2. rewrite pnodes_val. cbn iota. rewrite <- (pnodes_val k e r). erewrite jbind_ok; [|exact E2]. split; [|split; [assumption|split; assumption]].
        cbn [jret]. f_equal. f_equal. rewrite pgen_val in Ep. destruct (pgen a sc' n r) as [jr n2]. inversion Ep; subst.
        cbn [jp_args jcall_arg]. repeat rewrite <- app_assoc. reflexivity.
      - exists st2. rewrite pnodes_cont. cbn iota. rewrite <- (pnodes_cont k body r). erewrite jbind_ok; [|exact E2]. split; [|split; [assumption|split; assumption]].
        cbn [jret]. f_equal. f_equal. rewrite pgen_cont in Ep. destruct (bgen a (jsc_name t_param (n + 1)) ([] :: sc') (n + 1) body) as [jb n2].
        destruct (pgen a sc' n2 r) as [jr n3]. inversion Ep; subst. cbn [jp_args jcall_arg]. repeat rewrite <- app_assoc. reflexivity. }
    destruct E1 as (st2 & E1 & O2 & H2 & C2).
    rewrite (HCN name).
    assert (Hfin : gres (bn <~ bufname ;; jsln (bn ++ [CText t_pluseq; CName name; CText t_lpar] ++ jcall_arg (dgen sc' d) (jp_args jps) ++ [CText t_call_tail]) ;;;
                         note_called name (fmt_chunks (fmt_call_text (o_fmt o)) name)) st2
                        (sp_ind i ++ ([CName bf; CText t_pluseq; CName name; CText t_lpar] ++ jcall_arg (dgen sc' d) (jp_args jps) ++ [CText t_call_tail]) ++ [CText t_nl])
                        i bf a sc' n').
    { unfold bufname. eapply gres_step; [erewrite jbind_ok; [reflexivity|reflexivity]|split; reflexivity|].
      replace (j_buf st2) with bf by (symmetry; apply H2).
      eapply gres_eq; [gbind x2 Hx2; [apply gres_sln; exact H2|apply gres_note; exact Hx2]|rewrite app_nil_r; reflexivity]. }
    destruct Hfin as (stf & Ef & Of & Hf' & Cf).
    exists stf. erewrite jbind_ok; [|exact E1]. split; [exact Ef|]. split; [|split; [exact Hf'|intro HF; rewrite (Cf HF); exact (C2 HF)]].
    rewrite Of, O2. rewrite (rev_app_distr (pprint i jps)). apply app_assoc.
  - (* msg *) intros body IHb lv f st j sc' n' i bf a sc n Hf Hn Hlv Hwf Hs Eg. rewrite sgen_msg in Eg.
    destruct (bgen a bf sc n body) as [jb n1] eqn:E1. inversion Eg; subst. clear Eg.
    rewrite swf_msg in Hwf. apply andb_prop in Hwf. destruct Hwf as [Hm Hwb].
    rewrite sdepth_msg in Hf. destruct f as [|F]; [lia|]. rewrite snode_msg, sprint_seq.
    eapply gres_walk; [reflexivity|exact Hs|]. intros st1 H1. cbn [jwalk_node]. unfold visit_msg. rewrite HNB.
    destruct (IHb lv F st1 jb n' i bf a sc' n ltac:(lia) Hn Hlv Hwb H1 E1) as (sc2 & _ & Hsame & (stf & Ef & Of & Hf' & Cf)).
    exists stf. rewrite (gen_msg_children (jwalk o F) body Hm) by (rewrite (msg_size_mnodes body Hm); lia).
    split; [exact Ef|]. split; [exact Of|]. rewrite <- (Hsame Hm). split; [exact Hf'|exact Cf].
  - (* msg with a plural *) intros pn v q IHq lv f st j sc' n' i bf a sc n Hf Hn Hlv Hwf Hs Eg. rewrite sgen_msgpl in Eg.
    destruct (qgen a bf sc n q) as [jk n1] eqn:E1. inversion Eg; subst. clear Eg.
    rewrite swf_msgpl in Hwf. apply andb_prop in Hwf. destruct Hwf as [Hwv Hwq].
    rewrite sdepth_msgpl in Hf. destruct f as [|F]; [lia|]. rewrite snode_msgpl, sprint_plural.
    eapply gres_walk; [reflexivity|exact Hs|]. intros st1 H1. cbn [jwalk_node]. unfold visit_msg. rewrite HNB.
    set (k := (4 + c04_gosum (qcnodes q) + c04_gosum (qdnodes q) + 0)%nat).
    assert (Hsz : msg_size [NMsgPlural 0 pn (cnode v) (qcnodes q) (qdnodes q)] = S k) by reflexivity.
    assert (Hk : (c04_qlen q < k)%nat) by (subst k; apply c04_qlen_gosum).
    rewrite Hsz. clearbody k. cbn [jmsg_children].
    eapply gres_eq.
    + gbind z0 Z0.
      { gbind x1 X1. apply gres_indent; exact H1. gbind x2 X2. apply gres_txt; exact X1.
        gbind x3 X3. apply (gres_expr v lv F x2); [lia|exact Hwv|exact Hlv|exact X2].
        gbind x4 X4. apply gres_emit; exact X3. gbind x5 X5. apply gres_inc; exact X4.
        apply (IHq lv k F x5 jk n' (S i) bf a sc' n (indent_dec ;;; jsln [CText t_rbrace]) (sp_ind i ++ [CText t_rbrace] ++ [CText t_nl]) i bf a sc' n');
          [lia|exact Hk|exact Hn|exact Hlv|exact Hwq|exact X5|exact E1|].
        intros y Hy. eapply gres_eq; [gbind y1 Y1; [apply gres_dec; exact Hy|apply gres_sln; exact Y1]|reflexivity]. }
      destruct k as [|k']; [lia|]. cbn [jmsg_children]. apply gres_ret; exact Z0.
    + chunks_eq.
  - (* BNil *) intros lv f st jb n' i bf a sc n Hf Hn Hlv Hwf Hs Eg. rewrite bgen_nil in Eg. inversion Eg; subst.
    exists sc. split; [reflexivity|]. split; [reflexivity|]. apply gres_ret; exact Hs.
  - (* BCons *) intros s IHs r IHr lv f st jb n' i bf a sc n Hf Hn Hlv Hwf Hs Eg. rewrite bgen_cons in Eg. rewrite bdepth_cons in Hf.
    destruct (sgen a bf sc n s) as [j [sc1 n1]] eqn:E1. destruct (bgen a bf sc1 n1 r) as [jr n2] eqn:E2. inversion Eg; subst. clear Eg.
    rewrite bwf_cons in Hwf. apply andb_prop in Hwf. destruct Hwf as [Hws Hwr].
    destruct (sgen_scope _ _ _ _ _ _ _ _ E1 Hn) as [Htl1 Hn1].
    pose proof (lvok_after lv _ _ _ _ _ _ _ _ (swf_binder lv s Hws) E1 Hlv) as Hlv1.
    rewrite bnodes_cons, bprint_cons. cbn [jwalk_list].
    assert (Hex : forall x, shape x i bf a sc1 n1 -> exists sc', tl sc' = tl sc1 /\ (msg_ok r = true -> sc' = sc1)
                   /\ gres (jwalk_list (jwalk o f) (bnodes r)) x (bprint i jr) i bf a sc' n').
    { intros x Hx. apply (IHr lv f x jr n' i bf a sc1 n1); [lia|exact Hn1|exact Hlv1|exact Hwr|exact Hx|exact E2]. }
    destruct (IHs lv f st j sc1 n1 i bf a sc n ltac:(lia) Hn Hlv Hws Hs E1) as (x & Ex & Ox & Hx & Cx).
    destruct (Hex x Hx) as (sc' & Htl & Hsm & (y & Ey & Oy & Hy & Cy)).
    exists sc'. split; [congruence|]. split.
    { intro Hm. cbn [msg_ok] in Hm. apply andb_prop in Hm. destruct Hm as [Hms Hmr]. rewrite (Hsm Hmr).
      destruct s; try discriminate Hms.
      - rewrite sgen_raw in E1. inversion E1; reflexivity.
      - rewrite sgen_print_eq in E1. inversion E1; reflexivity.
      - rewrite sgen_call in E1. destruct (pgen a sc n ps) as [jps np]. inversion E1; reflexivity. }
    exists y. rewrite (jbind_ok _ _ _ _ _ Ex). split; [exact Ey|].
    split; [rewrite Oy, Ox, rev_app_distr, app_assoc; reflexivity|]. split; [exact Hy|intro HF; rewrite (Cy HF); exact (Cx HF)].
  - (* ENone *) intros lv F st jl n' i bf a sc n Hf Hn Hlv Hwf Hs Eg. rewrite egen_none in Eg. inversion Eg; subst. cbn [enodes jif_conds lprint]. apply gres_ret; exact Hs.
  - (* EElse *) intros b IHb lv F st jl n' i bf a sc n Hf Hn Hlv Hwf Hs Eg. rewrite egen_else in Eg. rewrite edepth_else in Hf.
    destruct (bgen a bf ([] :: sc) n b) as [jb n1] eqn:E1. inversion Eg; subst. clear Eg.
    rewrite enodes_else, lprint_else. cbn [jif_conds]. eapply gres_eq.
    + gbind x1 H1. apply gres_txt; exact Hs. gbind x2 H2. apply gres_ret; exact H1.
      eapply (gen_body_tail b lv F x2 jb n'); [exact IHb|lia|exact Hlv|exact Hwf|exact H2|exact E1|]. intros y Hy. apply gres_ret; exact Hy.
    + chunks_eq.
  - (* EElif *) intros c th IHt rest IHr lv F st jl n' i bf a sc n Hf Hn Hlv Hwf Hs Eg. rewrite egen_elif in Eg. rewrite edepth_elif in Hf.
    destruct (bgen a bf ([] :: sc) n th) as [jt n1] eqn:E1. destruct (egen a bf sc n1 rest) as [jr n2] eqn:E2. inversion Eg; subst. clear Eg.
    rewrite ewf_elif in Hwf. apply andb_prop in Hwf. destruct Hwf as [Hwf Hwr]. apply andb_prop in Hwf. destruct Hwf as [Hwc Hwt].
    rewrite enodes_elif, lprint_elif. cbn [jif_conds]. eapply gres_eq.
    + gbind x1 H1. apply gres_txt; exact Hs.
      gbind x2 H2.
      { gbind z Hz. apply gres_txt; exact H1. gbind z2 Hz2. apply (gres_expr c lv F z); [lia|exact Hwc|exact Hlv|exact Hz]. apply gres_txt; exact Hz2. }
      eapply (gen_body_tail th lv F x2 jt n1); [exact IHt|lia|exact Hlv|exact Hwt|exact H2|exact E1|].
      intros y Hy. apply (IHr lv F y jr n' i bf a sc n1); [lia|exact Hn|exact Hlv|exact Hwr|exact Hy|exact E2].
    + chunks_eq.
  - (* KNone *) intros lv F st jk n' i bf a sc n Hf Hn Hlv Hwf Hs Eg. rewrite kgen_none in Eg. inversion Eg; subst. cbn [knodes jswitch_cases kprint]. apply gres_ret; exact Hs.
  - (* KDefault *) intros b IHb lv F st jk n' i bf a sc n Hf Hn Hlv Hwf Hs Eg. rewrite kgen_default in Eg. rewrite kdepth_default in Hf.
    destruct (bgen a bf ([] :: sc) n b) as [jb n1] eqn:E1. inversion Eg; subst. clear Eg.
    rewrite knodes_default, kprint_default. cbn [jswitch_cases case_values]. eapply gres_eq.
    + gbind x1 H1. apply gres_ret; exact Hs. gbind x2 H2. apply gres_sln; exact H1.
      eapply (gen_case_body b lv F x2 jb n'); [exact IHb|lia|exact Hlv|exact Hwf|exact H2|exact E1|]. intros y Hy. apply gres_ret; exact Hy.
    + chunks_eq.
  - (* KCase *) intros v vs b IHb rest IHr lv F st jk n' i bf a sc n Hf Hn Hlv Hwf Hs Eg. rewrite kgen_case in Eg. rewrite kdepth_case in Hf.
    destruct (bgen a bf ([] :: sc) n b) as [jb n1] eqn:E1. destruct (kgen a bf sc n1 rest) as [jr n2] eqn:E2. inversion Eg; subst. clear Eg.
    rewrite kwf_case in Hwf. apply andb_prop in Hwf. destruct Hwf as [Hwf Hwr]. apply andb_prop in Hwf. destruct Hwf as [Hwf Hwb].
    rewrite knodes_case, kprint_case. cbn [jswitch_cases].
    change (cnode v :: map cnode vs) with (map cnode (v :: vs)). change (cgen sc v :: map (cgen sc) vs) with (map (cgen sc) (v :: vs)).
    eapply gres_eq.
    + gbind x1 H1. apply (gen_case_values lv F (v :: vs)); [|exact Hwf|exact Hlv|exact Hs].
      { intros x [<-|Hx]; [lia|]. pose proof (cdepths_le x vs Hx). lia. }
      gbind x2 H2. cbn [map]. apply gres_ret; exact H1.
      eapply (gen_case_body b lv F x2 jb n1); [exact IHb|lia|exact Hlv|exact Hwb|exact H2|exact E1|].
      intros y Hy. apply (IHr lv F y jr n' i bf a sc n1); [lia|exact Hn|exact Hlv|exact Hwr|exact Hy|exact E2].
    + chunks_eq.
  - (* PNil *) intros lv F st jps n' i bf a sc n first acc Hf Hn Hlv Hwf Hs Eg. rewrite pgen_nil in Eg. inversion Eg; subst.
    exists st. cbn [pnodes jcall_params jp_args jps_print pprint rev app]. rewrite app_nil_r. split; [reflexivity|]. split; [reflexivity|]. split; [exact Hs|reflexivity].
  - (* PVal *) intros k e r IHr lv F st jps n' i bf a sc n first acc Hf Hn Hlv Hwf Hs Eg. rewrite pgen_val in Eg.
    destruct (pgen a sc n r) as [jr n1] eqn:E1. inversion Eg; subst. clear Eg.
    rewrite pwf_val in Hwf. apply andb_prop in Hwf. destruct Hwf as [Hwe Hwr]. rewrite pdepth_val in Hf. rewrite pnodes_val, jcall_params_val.
    pose proof Hs as (I1 & B1 & A1 & S1 & N1).
    erewrite jbind_ok; [|apply (jblock_expr e lv); [lia|exact Hwe|rewrite S1; exact Hlv]]. rewrite S1.
    destruct (IHr lv F st jr n' i bf a sc n false ((if first then acc else acc ++ [CText t_comma_sp]) ++ [CName k; CText t_colon_sp] ++ jprint (cgen sc e))
                ltac:(lia) Hn Hlv Hwr Hs E1) as (stf & Ef & Of & Hf' & Cf).
    exists stf. split; [|split; [exact Of|split; [exact Hf'|exact Cf]]]. rewrite Ef. f_equal. f_equal.
    cbn [jp_args jps_print]. destruct first; repeat rewrite <- app_assoc; reflexivity.
  - (* PCont *) intros k body IHb r IHr lv F st jps n' i bf a sc n first acc Hf Hn Hlv Hwf Hs Eg. rewrite pgen_cont in Eg.
    set (g := jsc_name t_param (n + 1)) in *.
    destruct (bgen a g ([] :: sc) (n + 1) body) as [jb n1] eqn:E1. destruct (pgen a sc n1 r) as [jr n2] eqn:E2. inversion Eg; subst. clear Eg.
    rewrite pwf_cont in Hwf. apply andb_prop in Hwf. destruct Hwf as [Hwb Hwr]. rewrite pdepth_cont in Hf. rewrite pnodes_cont, jcall_params_cont.
    pose proof Hs as (I1 & B1 & A1 & S1 & N1). rewrite N1, S1, B1. fold g.
    set (st2 := set_buf g (set_scope sc (n + 1) st)).
    assert (H2 : shape st2 i g a sc (n + 1)) by (subst st2; destruct st; cbn in *; repeat split; assumption).
    assert (O2 : j_out st2 = j_out st) by (subst st2; destruct st; reflexivity).
    destruct (gres_sln [CText t_var; CName g; CText t_eq_empty] st2 _ _ _ _ _ H2) as (x1 & Ex1 & Ox1 & Hx1 & Cx1).
    erewrite jbind_ok; [|exact Ex1].
    destruct (gen_nlist body lv F x1 jb n1 i g a sc (n + 1) IHb ltac:(lia) Hlv Hwb Hx1 E1) as (x2 & Ex2 & Ox2 & Hx2 & Cx2).
    erewrite jbind_ok; [|exact Ex2].
    set (x3 := set_buf bf x2).
    assert (Ex3 : jmod (set_buf bf) x2 = Ok (tt, x3)) by reflexivity.
    assert (Hx3 : shape x3 i bf a sc n1) by (subst x3; destruct Hx2 as (? & ? & ? & ? & ?); destruct x2; cbn in *; repeat split; assumption).
    assert (Ox3 : j_out x3 = j_out x2) by (subst x3; destruct x2; reflexivity).
    erewrite jbind_ok; [|exact Ex3].
    destruct (IHr lv F x3 jr n' i bf a sc n1 false ((if first then acc else acc ++ [CText t_comma_sp]) ++ [CName k; CText t_colon_sp; CName g])
                ltac:(lia) Hn Hlv Hwr Hx3 E2) as (stf & Ef & Of & Hf' & Cf).
    exists stf. split; [|split; [|split; [exact Hf'|intro HF; rewrite (Cf HF); transitivity (j_called x2); [reflexivity|rewrite (Cx2 HF), (Cx1 HF); reflexivity]]]].
    + rewrite Ef. f_equal. f_equal. cbn [jp_args jps_print jprint]. destruct first; repeat rewrite <- app_assoc; reflexivity.
    + rewrite Of, Ox3, Ox2, Ox1, O2, pprint_cont. rewrite !rev_app_distr. repeat rewrite <- app_assoc. reflexivity.
  - (* QDflt *) intros b IHb lv f F st jk n' i bf a sc n rest crest i2 b2 a2 s2 k2 Hd Hl Hn Hlv Hwf Hs Eg Hrest. rewrite qgen_dflt in Eg.
    destruct (bgen a bf sc n b) as [jb n1] eqn:E1. inversion Eg; subst. clear Eg.
    rewrite qwf_dflt in Hwf. apply andb_prop in Hwf. destruct Hwf as [Hm Hwb]. rewrite qdepth_dflt in Hd. cbn [c04_qlen] in Hl.
    rewrite qcnodes_dflt, qdnodes_dflt, kprint_nb_default. cbn [c04_plgo].
    eapply gres_eq.
    + gbind x0 X0. apply gres_ret; exact Hs. gbind x1 X1. apply gres_sln; exact X0. gbind x2 X2. apply gres_inc; exact X1.
      gbind x3 X3. apply (gen_qbody b lv f F x2 (S i) bf a sc n jb n' IHb Hm Hwb Hd Hl Hn Hlv X2 E1).
      gbind x4 X4. apply gres_dec; exact X3. apply Hrest; exact X4.
    + chunks_eq.
  - (* QCase *) intros z b IHb r IHr lv f F st jk n' i bf a sc n rest crest i2 b2 a2 s2 k2 Hd Hl Hn Hlv Hwf Hs Eg Hrest. rewrite qgen_case in Eg.
    destruct (bgen a bf sc n b) as [jb n1] eqn:E1. destruct (qgen a bf sc n1 r) as [jr n2] eqn:E2. inversion Eg; subst. clear Eg.
    rewrite qwf_case in Hwf. apply andb_prop in Hwf. destruct Hwf as [Hwf Hwr]. apply andb_prop in Hwf. destruct Hwf as [Hm Hwb].
    rewrite qdepth_case in Hd. cbn [c04_qlen] in Hl.
    rewrite qcnodes_case, qdnodes_case, kprint_nb_case. cbn [c04_plgo]. fold (c04_plgo (jmsg_children (jwalk o F) f)).
    apply gres_assoc. eapply gres_eq.
    + gbind x1 X1.
      { unfold plural_case_body. gbind y1 Y1. apply gres_sln; exact Hs. gbind y2 Y2. apply gres_inc; exact Y1.
        gbind y3 Y3. apply (gen_qbody b lv f F y2 (S i) bf a sc n jb n1 IHb Hm Hwb ltac:(lia) ltac:(lia) Hn Hlv Y2 E1).
        gbind y4 Y4. apply gres_sln; exact Y3. apply gres_dec; exact Y4. }
      apply (IHr lv f F x1 jr n' i bf a sc n1 rest crest i2 b2 a2 s2 k2); [lia|lia|exact Hn|exact Hlv|exact Hwr|exact X1|exact E2|exact Hrest].
    + cbn [jk_values jprint]. chunks_eq.
Qed.
End StmtChunks.
