(* C14, token grammar: a string literal as soyjs writes it -- quote, JSEscape
   of ANY byte string, quote -- is read by the byte lexer of Spec/JsSyntax.v as
   exactly one string token, and the lexer is back in normal mode right after
   the closing quote: no template string can end its literal early or swallow
   what follows it.  No guard on the string (valid UTF-8 or not, astral or
   not). *)
From Soy Require Import Model.Bytes Model.Utf8 Model.Directives Model.JsEscape Model.JsGen Spec.JsSyntax
  Proofs.Utf8Proofs Proofs.CodecProofs Proofs.CodecJsPair.
From Coq Require Import ZifyBool ZifyNat ZifyN Lia.
Open Scope N_scope.

Section Str.
Variable is_print : N -> bool.
Variable q : N.
Hypothesis Hq : q = 39 \/ q = 34.

Lemma str_plain c X : c <> q -> c <> 92 -> 32 <= c -> lex_text 0 (LStr q) (c :: X) = lex_text 0 (LStr q) X.
Proof.
  intros H1 H2 H3. cbn [lex_text].
  replace (c =? q) with false by (symmetry; apply N.eqb_neq; exact H1).
  replace (c =? 92) with false by (symmetry; apply N.eqb_neq; exact H2).
  replace (c <? 32) with false by (symmetry; apply N.ltb_ge; exact H3). reflexivity.
Qed.

Lemma str_plains l X : Forall (fun c => c <> q /\ c <> 92 /\ 32 <= c) l -> lex_text 0 (LStr q) (l ++ X) = lex_text 0 (LStr q) X.
Proof. induction 1 as [|c l (H1 & H2 & H3) _ IH]; [reflexivity|]. cbn [app]. rewrite str_plain by assumption. exact IH. Qed.

Lemma str_esc1 e X : e = 92 \/ e = 39 \/ e = 34 -> lex_text 0 (LStr q) (92 :: e :: X) = lex_text 0 (LStr q) X.
Proof.
  intros He. cbn [lex_text]. replace (92 =? q) with false by (destruct Hq; subst; reflexivity). cbn [N.eqb Pos.eqb].
  destruct He as [->|[->| ->]]; reflexivity.
Qed.

Lemma is_hex_hexdigit n : n < 16 -> is_hex (hexdigit n) = true.
Proof. intro H. unfold is_hex, is_digit, hexdigit. destruct (n <? 10) eqn:E; lia. Qed.

Lemma str_u4 h1 h2 h3 h4 X : is_hex h1 = true -> is_hex h2 = true -> is_hex h3 = true -> is_hex h4 = true ->
  lex_text 0 (LStr q) (92 :: 117 :: h1 :: h2 :: h3 :: h4 :: X) = lex_text 0 (LStr q) X.
Proof.
  intros H1 H2 H3 H4. cbn [lex_text]. replace (92 =? q) with false by (destruct Hq; subst; reflexivity). cbn [N.eqb Pos.eqb orb].
  rewrite H1, H2, H3, H4. reflexivity.
Qed.

Lemma hexdigit_plain n : n < 16 -> hexdigit n <> q /\ hexdigit n <> 92 /\ 32 <= hexdigit n.
Proof. intro H. unfold hexdigit. destruct (n <? 10) eqn:E; destruct Hq; subst; lia. Qed.

Lemma str_hex4 x X : lex_text 0 (LStr q) ((92 :: 117 :: hex4 x) ++ X) = lex_text 0 (LStr q) X.
Proof. unfold hex4. cbn [app]. apply str_u4; apply is_hex_hexdigit; apply N.mod_upper_bound; lia. Qed.

(* the scan of the escaped body ends at the closing quote, whatever follows: for the escaper soy calls
   (Model/JsEscape.v js_escape_soy), with the surrogate-pair form of internal/jsescape or without it *)
Variable pair : bool.
Lemma str_scan_soy s : forall k rest,
  lex_text 0 (LStr q) (js_escape_soy_aux pair is_print k s ++ q :: rest)
  = option_map (fun '(ts, m) => (TStr :: ts, m)) (lex_text 0 LNormal rest).
Proof.
  induction s as [|c r IH]; intros k rest.
  - cbn [js_escape_soy_aux app lex_text]. rewrite N.eqb_refl. reflexivity.
  - cbn [js_escape_soy_aux]. destruct k as [|k]; [|apply IH].
    destruct (c <? 128) eqn:E128.
    + unfold js_ascii_escape.
      destruct (c =? 92) eqn:E1; [cbn [app]; rewrite str_esc1 by auto; apply IH|].
      destruct (c =? 39) eqn:E2; [cbn [app]; rewrite str_esc1 by auto; apply IH|].
      destruct (c =? 34) eqn:E3; [cbn [app]; rewrite str_esc1 by auto; apply IH|].
      destruct (c =? 60) eqn:E4; [cbn [app]; rewrite str_u4 by reflexivity; apply IH|].
      destruct (c =? 62) eqn:E5; [cbn [app]; rewrite str_u4 by reflexivity; apply IH|].
      destruct (c =? 38) eqn:E6; [cbn [app]; rewrite str_u4 by reflexivity; apply IH|].
      destruct (c =? 61) eqn:E7; [cbn [app]; rewrite str_u4 by reflexivity; apply IH|].
      destruct (c <? 32) eqn:E8.
      * cbn [app]. rewrite str_u4; [apply IH|reflexivity|reflexivity|apply is_hex_hexdigit|apply is_hex_hexdigit].
        -- apply N.div_lt_upper_bound; lia.
        -- apply N.mod_upper_bound. lia.
      * cbn [app]. rewrite str_plain; [apply IH| | |]; destruct Hq; subst; lia.
    + rewrite <- app_assoc. unfold js_rune_piece_soy. destruct (decode_rune (c :: r)) as [ru w] eqn:Hd.
      destruct (is_print ru); [|destruct (pair && (65536 <=? ru))].
      * rewrite str_plains; [apply IH|].
        eapply Forall_impl; [|eapply decode_rune_take_high; [exact Hd|exists c, r; split; [reflexivity|lia]]].
        cbn. intros a Ha. destruct Hq; subst; lia.
      * rewrite <- app_assoc. rewrite !str_hex4. apply IH.
      * unfold fmt_04X, hex4.
        assert (Hm : forall x, is_hex (hexdigit (x mod 16)) = true) by (intro x; apply is_hex_hexdigit; apply N.mod_upper_bound; lia).
        assert (Hp : forall x, hexdigit (x mod 16) <> q /\ hexdigit (x mod 16) <> 92 /\ 32 <= hexdigit (x mod 16)) by (intro x; apply hexdigit_plain; apply N.mod_upper_bound; lia).
        destruct (ru <? 65536); [|destruct (ru <? 1048576)]; cbn [app].
        -- rewrite str_u4 by apply Hm. apply IH.
        -- rewrite str_u4 by apply Hm. destruct (Hp ru) as (P1 & P2 & P3). rewrite str_plain by assumption. apply IH.
        -- rewrite str_u4 by apply Hm. destruct (Hp (ru / 16)) as (P1 & P2 & P3). destruct (Hp ru) as (P4 & P5 & P6).
           rewrite str_plain by assumption. rewrite str_plain by assumption. apply IH.
Qed.

End Str.

Section StrLib.
Variable is_print : N -> bool.
Variable q : N.
Hypothesis Hq : q = 39 \/ q = 34.
(* text/template's escaper is the case pair = false *)
Lemma str_scan s k rest :
  lex_text 0 (LStr q) (js_escape_aux is_print k s ++ q :: rest)
  = option_map (fun '(ts, m) => (TStr :: ts, m)) (lex_text 0 LNormal rest).
Proof. rewrite <- js_escape_soy_false_aux. apply (str_scan_soy is_print q Hq). Qed.

(* a rendered string literal chunk, followed by anything: one string token, then the rest in normal mode *)
Theorem strlit_one_token s rest :
  lex_text 0 LNormal (render_chunk is_print (CStrLit q s) ++ rest)
  = option_map (fun '(ts, m) => (TStr :: ts, m)) (lex_text 0 LNormal rest).
Proof.
  cbn [render_chunk app]. rewrite <- app_assoc. cbn [app lex_text].
  replace (is_space q) with false by (destruct Hq; subst; reflexivity).
  replace ((q =? 39) || (q =? 34)) with true by (destruct Hq; subst; reflexivity).
  first [apply (str_scan_soy is_print q Hq) | apply str_scan].
Qed.
End StrLib.
