(* C04, one whole file: soyjs.Write (Model/JsGen.v gen_file) on a file of the subset.

   A file is a namespace declaration followed by the soydoc + template nodes of a program p (Model/MiniJSProg.v).
   [gen_file_chunks]   -- gen_file answers Ok with exactly: the two header comment lines and the blank line of
                          visitSoyFile, one declaration line per dotted prefix of the namespace (visitNamespace), and
                          the PRINTED FUNCTION TABLE c04_jprog_chain p 0 (one function per template, each generated
                          from the counter the previous template left); no import lines, because the formatter writes
                          none (c04_imp_free: ES5) -- the frame conjunct of [gres] carries "the import table is
                          untouched" through every statement of every template;
   [gen_file_correct_partial] -- and every function of that table returns what Renderer.Execute writes
                          (js_call_correct_tbl + c04_jprog_chain_ok + go_render_correct).
   What stays outside: see the comment at the theorem. *)
From Soy Require Import Model.Bytes Model.Num Model.Values Model.Outcome Model.Ast Model.JsGen Model.MiniJS Model.MiniJSProg
  Model.Escape Model.Directives Model.Print Generated.Tables Model.Interp Spec.JsOut
  Proofs.EscapeProofs Proofs.MiniJSProofs Proofs.MiniJSPrint Proofs.MiniJSStmt Model.MsgId Proofs.MsgIdProofs
  Proofs.MiniJSCtl Proofs.MiniJSGo Proofs.MiniJSGen Proofs.MiniJSSim Proofs.MiniJSCall.
Open Scope N_scope.

(* the nodes of a file: {namespace ns autoescape=..}, then per template its soydoc comment and the template *)
Definition c04_file_nodes (ns : bstr) (nsae : N) (p : list ctmpl) : list node :=
  NNamespace 0 ns nsae :: flat_map c04_doc_nodes p.

(* visitSoyFile's three lines *)
Definition c04_file_header (fname : bstr) : list chunk :=
  (sp_ind 0 ++ [CText t_hdr1; CFile (line_comment_safe fname); CText t_dot] ++ [CText t_nl])
  ++ (sp_ind 0 ++ [CText t_hdr2] ++ [CText t_nl])
  ++ (sp_ind 0 ++ [] ++ [CText t_nl]).
(* visitNamespace: one line per dotted prefix,  if (typeof a.b == 'undefined') { [var ]a.b = {}; } *)
Definition c04_decl_line (i : nat) (pre : bstr) : list chunk :=
  sp_ind i ++ ([CText t_ns1; CName pre; CText t_ns2] ++ (if has_dot pre then [] else [CText t_var]) ++ [CName pre; CText t_ns3]) ++ [CText t_nl].
Definition c04_ns_lines (ns : bstr) : list chunk := flat_map (c04_decl_line 0) (ns_prefix_list ns).

Lemma c04_find_dot_ge : forall s i j, find_dot s i = Some j -> (i <= j)%nat.
Proof.
  induction s as [|c r IH]; intros i j E; cbn [find_dot] in E; [discriminate|].
  destruct (c =? 46); [injection E as <-; lia|]. specialize (IH _ _ E). lia.
Qed.

Section FileChunks.
Variable o : jopts.

(* a function table, printed: visitTemplate's lines for each entry in order *)
Definition c04_table_chunks (jp : list (bstr * (bool * jblk))) : list chunk :=
  flat_map (fun e => c04_tprint (template_header_line o (fst e)) (fst (snd e)) (snd (snd e))) jp.
Lemma c04_file_chunks_table p : forall n, c04_file_chunks o p n = c04_table_chunks (c04_jprog_chain p n).
Proof.
  induction p as [|t r IH]; intro n; [reflexivity|].
  unfold c04_file_chunks, c04_table_chunks, c04_jprog_chain. cbn [c04_chain map flat_map fst snd]. f_equal. apply IH.
Qed.

Lemma gres_ns_decls name : forall f i0 st i b a s n, (length name - i0 < f)%nat -> shape st i b a s n ->
  gres o (ns_decls f name i0) st (flat_map (c04_decl_line i) (ns_prefixes f name i0)) i b a s n.
Proof.
  induction f as [|f IH]; intros i0 st i b a s n Hf Hs; [lia|]. cbn [ns_decls ns_prefixes]. cbv zeta.
  destruct (Nat.ltb_spec i0 (length name)) as [Hlt|Hge]; [|apply gres_ret; exact Hs].
  cbn [flat_map]. eapply gres_bind; [apply gres_sln; exact Hs|]. intros x Hx. apply IH; [|exact Hx].
  destruct (find_dot (drop (S i0) name) (S i0)) as [j|] eqn:E; [apply c04_find_dot_ge in E; lia|lia].
Qed.

Hypothesis HCN : cn_ok o.
Hypothesis HNB : o_msgs o = None.

(* visitSoyFile on the file, from the initial state *)
Theorem gen_file_walk fname ns nsae F p :
  (forall t, In t p -> ct_ns_ae t = nsae /\ (S (S (bdepth (ct_body t))) < F)%nat /\ bwf [] (ct_body t) = true) ->
  (0 < F)%nat ->
  exists bf' n', gres o (visit_file o F fname (c04_file_nodes ns nsae p)) jinit_state
                      (c04_file_header fname ++ c04_ns_lines ns ++ c04_table_chunks (c04_jprog_chain p 0)) 0 bf' nsae [[]] n'.
Proof.
  intros Hall HF. destruct F as [|F1]; [lia|].
  assert (H0 : shape jinit_state 0 [] 0 [[]] 0) by (repeat split).
  (* the namespace node *)
  assert (Gns : forall st, shape st 0 [] 0 [[]] 0 ->
            gres o (jwalk o (S F1) (NNamespace 0 ns nsae)) st ([] ++ c04_ns_lines ns) 0 [] nsae [[]] 0).
  { intros st Hs. eapply gres_walk; [reflexivity|exact Hs|]. intros st1 H1. cbn [jwalk_node].
    eapply gres_bind; [eapply gres_mod_auto; exact H1|]. intros x Hx.
    apply gres_ns_decls; [lia|exact Hx]. }
  destruct (gres_sln o [CText t_hdr1; CFile (line_comment_safe fname); CText t_dot] jinit_state _ _ _ _ _ H0) as (sa & Ea & Oa & Ha & Ca).
  destruct (gres_sln o [CText t_hdr2] sa _ _ _ _ _ Ha) as (sb & Eb & Ob & Hb & Cb).
  destruct (gres_sln o [] sb _ _ _ _ _ Hb) as (sc & Ec & Oc & Hc & Cc).
  destruct (Gns sc Hc) as (sd & Ed & Od & Hd & Cd).
  destruct (gen_templates o HCN HNB nsae (S F1) p 0 sd [] Hall Hd) as (bf' & n' & se & Ee & Oe & He & Ce).
  exists bf', n', se. unfold visit_file, c04_file_nodes. cbn [jwalk_list].
  rewrite (jbind_ok _ _ _ _ _ Ea), (jbind_ok _ _ _ _ _ Eb), (jbind_ok _ _ _ _ _ Ec), (jbind_ok _ _ _ _ _ Ed).
  split; [exact Ee|]. split; [|split; [exact He|intro HI; rewrite (Ce HI), (Cd HI), (Cc HI), (Cb HI), (Ca HI); reflexivity]].
  rewrite Oe, Od, Oc, Ob, Oa. rewrite c04_file_chunks_table. unfold c04_file_header.
  rewrite !rev_app_distr, <- !app_assoc. reflexivity.
Qed.

(* soyjs.Write: no import lines (the formatter writes none), then the walked text *)
Theorem gen_file_chunks fname ns nsae F p : c04_imp_free o ->
  (forall t, In t p -> ct_ns_ae t = nsae /\ (S (S (bdepth (ct_body t))) < F)%nat /\ bwf [] (ct_body t) = true) ->
  (0 < F)%nat ->
  gen_file o F fname (c04_file_nodes ns nsae p)
  = Ok (c04_file_header fname ++ c04_ns_lines ns ++ c04_table_chunks (c04_jprog_chain p 0)).
Proof.
  intros HF Hall H0. destruct (gen_file_walk fname ns nsae F p Hall H0) as (bf' & n' & st & E & O & _ & C).
  unfold gen_file. rewrite E. rewrite (C HF). cbn [j_called jinit_state]. rewrite O. cbn [j_out jinit_state app].
  rewrite app_nil_r, rev_involutive. reflexivity.
Qed.
End FileChunks.

(* ---- the whole-file statement: generator, JavaScript function table and Go renderer together ---- *)
(* FULL STATEMENT (DESIGN.md section 4):  forall b t data ij, check b = Ok -> in_core b data ->
     js_run (gen b) t data ij = render_impl b t data ij.
   PROVED here (partial): for a registry whose templates are those of ONE file of the subset (namespace, templates
   with bodies of the statement subset of Model/MiniJS.v: raw text, print, let (both forms), if, switch, foreach, for over
   range, css, call (all forms, recursion allowed), msg without a bundle: without plural, or one plural with numeric cases),
     (Gen) soyjs.Write's model answers Ok with the header lines, the namespace declarations and the printed function
           table jp = c04_jprog_chain p 0 -- and nothing else (no import line);
     (Go)  Renderer.Execute of any template of the file on data of the subset succeeds and writes text;
     (JS)  calling that template's function of jp in MiniJS with an object that holds the same data returns text.
   "Inside the subset" for the data and the run is the hypothesis c04_tout .. = Some text (the subset semantics gives
   an answer: every value printed is a printable scalar, every call finds its template in the file, ...).
   OUTSIDE: (a) the ES6 formatter (c04_imp_free / cn_ok fail: calls are renamed and imported); (b) the step from the
   emitted text to a function table inside a real engine (parsing the printed functions back, namespace objects,
   soyutils.js): node correspondence of the harness; (c) nested plurals and messages rendered from a bundle;
   (d) several files in one registry (calls across files). *)
Theorem gen_file_correct_partial cf o fname ns nsae p F :
  c_oblig cf = [] -> (forall x, c_ij cf = Some x -> core_value x = true) -> r_templates (c_reg cf) = c04_templates p ->
  cn_ok o -> c04_imp_free o -> o_msgs o = None ->
  (forall t, In t p -> ct_ns_ae t = nsae /\ (S (S (bdepth (ct_body t))) < F)%nat /\ bwf [] (ct_body t) = true) ->
  (0 < F)%nat ->
  let jp := c04_jprog_chain p 0 in
  gen_file o F fname (c04_file_nodes ns nsae p) = Ok (c04_file_header fname ++ c04_ns_lines ns ++ c04_table_chunks o jp)
  /\ forall k name t data_id data first_id text fuel,
       c04_find p name = Some t ->
       forallb (fun kv => core_value (snd kv)) data = true ->
       c04_tout (c_ij cf) go_print_text p (S k) name (fun q => assoc_s q data) = Some text ->
       (S k * c04_D p <= fuel)%nat ->
       (let r := render cf fuel name data_id data None None first_id in
        rr_outcome r = Ok tt /\ concat_b (rr_writes r) = text)
       /\ (forall jd ijv, datarel (fun q => assoc_s q data) jd -> (forall v, c_ij cf = Some v -> ijv = to_js v) ->
             c04_jcall jp (S k) name jd ijv = Ok text)
       /\ (forallb (fun kv => is_ident (fst kv)) data = true -> forall ijv, (forall v, c_ij cf = Some v -> ijv = to_js v) ->
             c04_jcall jp (S k) name (to_js (VMap data_id data)) ijv = Ok text).
Proof.
  intros Hob Hij Hreg HCN HIF HNB Hall HF jp. split; [exact (gen_file_chunks o HCN HNB fname ns nsae F p HIF Hall HF)|].
  intros k name t data_id data first_id text fuel Ef Hcore E Hfu.
  pose proof (js_call_correct_tbl cf p Hij jp (c04_jprog_chain_ok p 0) (S k)) as HJ.
  split; [exact (go_render_correct cf p Hob Hij Hreg k name t data_id data first_id text fuel Ef Hcore E Hfu)|]. split.
  - intros jd ijv DR Hi. exact (HJ name _ text jd ijv E DR Hi).
  - intros Hk ijv Hi. apply (HJ name _ text _ ijv E); [|exact Hi]. apply datarel_map; [exact Hcore|exact Hk].
Qed.

(* ---- a registry of several files ---- *)
(* a file: name of the source file, namespace, the namespace's autoescape mode, its templates *)
Record c04_file := { cfl_name : bstr; cfl_ns : bstr; cfl_ae : N; cfl_tmpls : list ctmpl }.
Definition c04_all_tmpls (fs : list c04_file) : list ctmpl := flat_map cfl_tmpls fs.
(* the function table of an engine that has loaded the generated file of every file of the registry: each file's table
   starts from counter 0 (soyjs.Write makes a new scope per file) *)
Definition c04_all_jprog (fs : list c04_file) : list (bstr * (bool * jblk)) := flat_map (fun f => c04_jprog_chain (cfl_tmpls f) 0) fs.

Lemma c04_find_app p1 p2 name : c04_find (p1 ++ p2) name = match c04_find p1 name with Some t => Some t | None => c04_find p2 name end.
Proof. induction p1 as [|x r IH]; [reflexivity|]. cbn [app c04_find]. destruct (bstr_eqb (ct_name x) name); [reflexivity|exact IH]. Qed.
Lemma c04_assoc_app {A} (l1 l2 : list (bstr * A)) name : assoc_s name (l1 ++ l2) = match assoc_s name l1 with Some v => Some v | None => assoc_s name l2 end.
Proof. induction l1 as [|[k v] r IH]; [reflexivity|]. cbn [app]. unfold assoc_s; fold (@assoc_s A). destruct (bstr_eqb name k); [reflexivity|exact IH]. Qed.
Lemma c04_chain_none p name : c04_find p name = None -> forall n, assoc_s name (c04_jprog_chain p n) = None.
Proof.
  induction p as [|x r IH]; intros Ef n; [reflexivity|]. cbn [c04_find] in Ef.
  unfold c04_jprog_chain. cbn [c04_chain map fst snd]. unfold assoc_s; fold (@assoc_s (bool * jblk)).
  rewrite (bstr_eqb_sym name (ct_name x)). destruct (bstr_eqb (ct_name x) name); [discriminate|]. exact (IH Ef _).
Qed.
Lemma c04_all_jprog_ok fs : c04_table_ok (c04_all_tmpls fs) (c04_all_jprog fs).
Proof.
  induction fs as [|f r IH]; intros name t Ef; [discriminate|].
  unfold c04_all_tmpls, c04_all_jprog in *. cbn [flat_map] in *. rewrite c04_find_app in Ef. rewrite c04_assoc_app.
  destruct (c04_find (cfl_tmpls f) name) as [t0|] eqn:E0.
  - inversion Ef; subst t0. destruct (c04_jprog_chain_ok (cfl_tmpls f) 0 name t E0) as (n & ->). exists n. reflexivity.
  - rewrite (c04_chain_none _ _ E0). exact (IH name t Ef).
Qed.

(* the registry theorem: every file's generated text is its printed function table, and in the union of these tables the
   function of every template returns what Renderer.Execute writes (calls across files included) *)
Theorem gen_registry_correct_partial cf o fs F :
  c_oblig cf = [] -> (forall x, c_ij cf = Some x -> core_value x = true) -> r_templates (c_reg cf) = c04_templates (c04_all_tmpls fs) ->
  cn_ok o -> c04_imp_free o -> o_msgs o = None ->
  (forall f, In f fs -> forall t, In t (cfl_tmpls f) -> ct_ns_ae t = cfl_ae f /\ (S (S (bdepth (ct_body t))) < F)%nat /\ bwf [] (ct_body t) = true) ->
  (0 < F)%nat ->
  let p := c04_all_tmpls fs in
  let jp := c04_all_jprog fs in
  (forall f, In f fs ->
     gen_file o F (cfl_name f) (c04_file_nodes (cfl_ns f) (cfl_ae f) (cfl_tmpls f))
     = Ok (c04_file_header (cfl_name f) ++ c04_ns_lines (cfl_ns f) ++ c04_table_chunks o (c04_jprog_chain (cfl_tmpls f) 0)))
  /\ forall k name t data_id data first_id text fuel,
       c04_find p name = Some t ->
       forallb (fun kv => core_value (snd kv)) data = true ->
       c04_tout (c_ij cf) go_print_text p (S k) name (fun q => assoc_s q data) = Some text ->
       (S k * c04_D p <= fuel)%nat ->
       (let r := render cf fuel name data_id data None None first_id in
        rr_outcome r = Ok tt /\ concat_b (rr_writes r) = text)
       /\ (forall jd ijv, datarel (fun q => assoc_s q data) jd -> (forall v, c_ij cf = Some v -> ijv = to_js v) ->
             c04_jcall jp (S k) name jd ijv = Ok text)
       /\ (forallb (fun kv => is_ident (fst kv)) data = true -> forall ijv, (forall v, c_ij cf = Some v -> ijv = to_js v) ->
             c04_jcall jp (S k) name (to_js (VMap data_id data)) ijv = Ok text).
Proof.
  intros Hob Hij Hreg HCN HIF HNB Hall HF p jp. split.
  - intros f Hf. exact (gen_file_chunks o HCN HNB (cfl_name f) (cfl_ns f) (cfl_ae f) F (cfl_tmpls f) HIF (Hall f Hf) HF).
  - intros k name t data_id data first_id text fuel Ef Hcore E Hfu.
    pose proof (js_call_correct_tbl cf p Hij jp (c04_all_jprog_ok fs) (S k)) as HJ.
    split; [exact (go_render_correct cf p Hob Hij Hreg k name t data_id data first_id text fuel Ef Hcore E Hfu)|]. split.
    + intros jd ijv DR Hi. exact (HJ name _ text jd ijv E DR Hi).
    + intros Hk ijv Hi. apply (HJ name _ text _ ijv E); [|exact Hi]. apply datarel_map; [exact Hcore|exact Hk].
Qed.
