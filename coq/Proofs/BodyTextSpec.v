(* C15: facts about the Spec's [normalize] used to relate what scanner and parser do with a piece of
   template text to the Spec: a piece the scanner drops (empty, or white space with a line break) has an
   empty image; at an end flagged by a comment one more white-space byte changes nothing. *)
From Soy Require Import Model.Bytes Model.Utf8 Model.Lexer Spec.Text Generated.Tables Proofs.RawTextProofs.
From Coq Require Import ZifyBool ZifyNat ZifyN Lia.
Open Scope N_scope.

Lemma ws_Z c : gen_isSpaceEOL (Z.of_N c) = ws c.
Proof. unfold gen_isSpaceEOL, gen_isSpace, gen_isEndOfLine, ws. lia. Qed.
Lemma lb_Z c : gen_isEndOfLine (Z.of_N c) = line_break c.
Proof. unfold gen_isEndOfLine, line_break. lia. Qed.

(* allSpaceWithNewline, byte-wise *)
Lemma all_space_bytes : forall n v, (length v <= n)%nat -> forall seen,
  all_space_nl_aux (runes_aux 0 v) seen = true -> Forall (fun x => ws x = true) v /\ (seen = true \/ existsb line_break v = true).
Proof.
  induction n as [|n IH]; intros v Hn seen H.
  - destruct v; [|cbn in Hn; lia]. cbn in H. split; [constructor|left; exact H].
  - destruct v as [|c r]; [cbn in H; split; [constructor|left; exact H]|].
    cbn [runes_aux] in H. destruct (decode_rune (c :: r)) as [ru w] eqn:E.
    cbn [all_space_nl_aux] in H.
    destruct (decode_class c r ru w E) as [(Hc & -> & ->)|(Hc & Hru & _)].
    + rewrite ws_Z, lb_Z in H. destruct (ws c) eqn:Ew; cbn [negb] in H; [|discriminate].
      cbn [pred] in H. destruct (IH r ltac:(cbn in Hn; lia) _ H) as (A & B). split; [constructor; assumption|].
      cbn [existsb]. destruct seen; [left; reflexivity|]. cbn [orb] in B. right. destruct B as [B|B]; rewrite B; [reflexivity|apply Bool.orb_true_r].
    + assert (Ef : gen_isSpaceEOL (Z.of_N ru) = false) by (unfold gen_isSpaceEOL, gen_isSpace, gen_isEndOfLine; lia).
      rewrite Ef in H. cbn [negb] in H. discriminate.
Qed.

Lemma droppable_all_ws v : all_space_with_newline v = true -> v <> [] /\ Forall (fun x => ws x = true) v /\ existsb line_break v = true.
Proof.
  intros H. unfold all_space_with_newline, runes in H. destruct (all_space_bytes (length v) v (le_n _) false H) as (A & [B|B]); [discriminate|].
  split; [|auto]. intros ->. discriminate.
Qed.

Lemma normalize_all_ws_nl tb ta v : v <> [] -> Forall (fun x => ws x = true) v -> existsb line_break v = true -> normalize tb ta v = [].
Proof.
  intros Hne Hw Hb. unfold normalize, normalize_with.
  pose proof (NF_ws_run angle tb ta None v [] Hne Hw I) as H. unfold NF in H. rewrite app_nil_r in H. rewrite H.
  unfold ws_run_image. rewrite Hb. reflexivity.
Qed.

(* every string is empty, starts with a byte that is not white space, or starts with a maximal white-space run *)
Lemma ws_prefix_split : forall x : bstr, x = [] \/ (exists c r, x = c :: r /\ ws c = false) \/
  (exists w1 r, x = w1 ++ r /\ w1 <> [] /\ Forall (fun y => ws y = true) w1 /\ match r with [] => True | d :: _ => ws d = false end).
Proof.
  induction x as [|c x IH]; [left; reflexivity|]. right. destruct (ws c) eqn:Ec; [|left; eauto]. right.
  destruct IH as [->|[(d & r & -> & Hd)|(w1 & r & -> & Hne & Hw & Hr)]].
  - exists [c], []. repeat split; [discriminate|constructor; [exact Ec|constructor]].
  - exists [c], (d :: r). repeat split; [discriminate|constructor; [exact Ec|constructor]|exact Hd].
  - exists (c :: w1), r. repeat split; [discriminate|constructor; assumption|exact Hr].
Qed.

(* at an end whose neighbour is a comment, a trailing white-space byte more or less makes no difference *)
Lemma NF_snoc_ws tb b : ws b = true -> forall n x, (length x <= n)%nat -> forall prev,
  NF angle tb true prev (x ++ [b]) = NF angle tb true prev x.
Proof.
  intros Hb. induction n as [|n IH]; intros x Hn prev.
  - destruct x; [|cbn in Hn; lia]. cbn [app].
    pose proof (NF_ws_run angle tb true prev [b] [] ltac:(discriminate) ltac:(constructor; [exact Hb|constructor]) I) as H.
    cbn [app] in H. rewrite H, NF_nil. unfold ws_run_image. destruct (existsb line_break [b]); [destruct prev; reflexivity|].
    cbn [is_none andb]. rewrite Bool.orb_true_r. reflexivity.
  - destruct (ws_prefix_split x) as [->|[(c & r & -> & Hc)|(w1 & r & -> & Hne & Hw & Hr)]].
    + apply (IH [] ltac:(cbn; lia)).
    + cbn [app]. rewrite !NF_nonws by exact Hc. f_equal. apply IH. cbn [length] in Hn. lia.
    + destruct r as [|d r].
      * rewrite app_nil_r.
        pose proof (NF_ws_run angle tb true prev (w1 ++ [b]) [] ltac:(destruct w1; discriminate)
                      ltac:(apply Forall_app; split; [exact Hw|constructor; [exact Hb|constructor]]) I) as H1.
        pose proof (NF_ws_run angle tb true prev w1 [] Hne Hw I) as H2. rewrite app_nil_r in H1, H2. rewrite H1, H2, NF_nil.
        unfold ws_run_image. destruct (existsb line_break (w1 ++ [b])), (existsb line_break w1); cbn [is_none andb];
          rewrite ?Bool.orb_true_r; destruct prev; reflexivity.
      * rewrite <- app_assoc.
        pose proof (NF_ws_run angle tb true prev w1 ((d :: r) ++ [b]) Hne Hw Hr) as H1.
        pose proof (NF_ws_run angle tb true prev w1 (d :: r) Hne Hw Hr) as H2.
        cbn [app] in H1. cbn [app]. rewrite H1, H2. f_equal. change (d :: r ++ [b]) with ((d :: r) ++ [b]). apply IH.
        rewrite app_length in Hn. destruct w1; [congruence|cbn [length] in *; lia].
Qed.

Lemma normalize_snoc_ws tb b x : ws b = true -> normalize tb true (x ++ [b]) = normalize tb true x.
Proof. intros Hb. apply (NF_snoc_ws tb b Hb (length x) x (le_n _) None). Qed.

(* norm_pieces, unfolded *)
Lemma norm_pieces_cons tb x y rest : norm_pieces tb (x :: y :: rest) = normalize tb true x ++ norm_pieces true (y :: rest).
Proof. reflexivity. Qed.
Lemma norm_pieces_one tb x : norm_pieces tb [x] = normalize tb false x.
Proof. reflexivity. Qed.
