(* Prefix determinism of the scanner, part 2: loops and state functions. *)
From Soy Require Import Model.Bytes Model.Utf8 Model.Outcome Model.Token Model.Lexer Generated.Tables Proofs.LexPrefix.
From Coq Require Import ZifyBool ZifyNat ZifyN Lia List.
Import ListNotations.
Open Scope Z_scope.

Definition M : Z := 24.       (* the uniform bound: every per-state margin below is at most M *)
Definition M0 : Z := 8.       (* the scanning loops *)
(* per-state look-ahead: how far before the end of the common prefix the cursor has to be AFTER the state function
   for the function to behave identically on both inputs.  4 = one rune of look-ahead of [next] (the model decodes
   up to four bytes); 8 = a rune read and a rune backed up or peeked; 12 = the keywords of soydoc, css and literal
   blocks; 24 = lexHeaderParam (keyword, type, white space backed up over).  Found by re-running the proofs. *)
Definition m_text : Z := 8.
Definition m_ldelim : Z := 4.
Definition m_rdelim : Z := 4.
Definition m_rdelim_end : Z := 4.
Definition m_begin_tag : Z := 4.
Definition m_inside : Z := 8.
Definition m_soydoc : Z := 16.
Definition m_linec : Z := 8.
Definition m_blockc : Z := 8.
Definition m_string : Z := 8.
Definition m_ident : Z := 8.
Definition m_header : Z := 24.
Definition m_css : Z := 12.
Definition m_literal : Z := 12.
Definition m_number : Z := 8.
Definition m_run : Z := 8.
Definition m_close : Z := 4.
Definition m_sdparam : Z := 12.
Definition pmono (n : Z) (l : lx) (p : lstate * lx) : Prop := Z.min (l_pos l) n <= l_pos (snd p) + 4 /\ 0 <= l_pos l.
Definition lmono (l r : lx) : Prop := l_pos l <= l_pos r /\ 0 <= l_width r <= 4 /\ l_start r = l_start l /\ 0 <= l_pos l.

Ltac crack1 :=
  match goal with
  | H : Ok _ = Ok _ |- _ => inversion H; subst; clear H
  | H : bind ?x _ = Ok _ |- _ => let E := fresh "E" in destruct x eqn:E; cbn [bind] in H; try discriminate H
  | H : (let '(_, _) := ?x in _) = Ok _ |- _ => destruct x
  | H : (if ?c then _ else _) = Ok _ |- _ => let C := fresh "C" in destruct c eqn:C
  | H : match ?x with _ => _ end = Ok _ |- _ => let C := fresh "C" in destruct x eqn:C
  | H : context [if ?c then _ else _] |- _ =>
      match type of H with _ = Ok _ => let C := fresh "C" in destruct c eqn:C end
  end.
Ltac crack := repeat crack1.

(* collect the cursor facts of every primitive call recorded in the context *)
Ltac facts :=
  repeat match goal with
  | E : next _ _ ?l = Ok (_, ?l1) |- _ =>
      lazymatch goal with _ : next_fact l l1 |- _ => fail | _ => pose proof (next_facts _ _ _ _ E) end
  | E : next _ _ ?l = Ok (?r, ?l1) |- _ =>
      lazymatch goal with _ : l_pos l < l_pos l1 |- _ => fail | _ => pose proof (next_strict _ _ _ _ E ltac:(unfold eof in *; lia)) end
  | E : peek _ _ ?l = Ok (_, ?l1) |- _ =>
      lazymatch goal with _ : same_pos l l1 |- _ => fail | _ => pose proof (peek_facts _ _ _ _ E) end
  | E : emit _ _ _ _ ?l = Ok ?l1 |- _ =>
      lazymatch goal with _ : emit_fact _ l l1 |- _ => fail | _ => pose proof (emit_facts _ _ _ _ _ E) end
  | E : accept _ _ _ ?l = Ok (_, ?l1) |- _ =>
      lazymatch goal with _ : accept_fact l l1 |- _ => fail | _ => pose proof (accept_facts _ _ _ _ _ E) end
  | E : maybe_emit_text _ _ _ ?l ?bk = Ok ?l1 |- _ =>
      lazymatch goal with _ : met_fact l l1 |- _ => fail | _ => pose proof (met_facts _ _ l bk l1 ltac:(lia) E) end
  | E : slice ?inp _ ?a ?e = Ok ?v |- _ =>
      lazymatch goal with _ : (0 <= a <= e /\ _) /\ _ |- _ => fail | _ => pose proof (slice_ok inp a e v E) end
  | C : is_prefix ?kw ?v = true |- _ =>
      lazymatch goal with _ : Z.of_nat (length kw) <= Z.of_nat (length v) |- _ => fail | _ => pose proof (is_prefix_len kw v C) end
  | E : errorf _ _ ?l = Ok ?p |- _ =>
      lazymatch goal with _ : errorf_fact l p |- _ => fail | _ => pose proof (errorf_facts _ _ _ _ E) end
  end.

Ltac side :=
  repeat match goal with |- context [if ?c then _ else _] => destruct c end;
  unfold eof, loop_fuel, lmono, pmono, next_fact, same_pos, emit_fact, accept_fact, met_fact, errorf_fact, M, M0, m_text, m_ldelim, m_rdelim, m_rdelim_end, m_begin_tag, m_inside, m_soydoc, m_linec, m_blockc, m_string, m_ident, m_header, m_css, m_literal, m_number, m_run, m_close, m_sdparam in *;
  cbn [l_pos l_start l_width set_pos set_start set_dd backup ignore tick fst snd] in *; lia.

(* replay the recorded path on the second input *)
Ltac replay1 pre r1 r2 base :=
  match goal with
  | E : next _ _ ?l = Ok _ |- context [next _ _ ?l] => rewrite <- (next_agree pre r1 r2 l) by side; rewrite E; cbn [bind]
  | E : peek _ _ ?l = Ok _ |- context [peek _ _ ?l] => rewrite <- (peek_agree pre r1 r2 l) by side; rewrite E; cbn [bind]
  | E : emit _ _ _ ?t ?l = Ok _ |- context [emit _ _ _ ?t ?l] => rewrite <- (emit_agree pre r1 r2 base t l) by side; rewrite E; cbn [bind]
  | E : accept _ _ ?v ?l = Ok _ |- context [accept _ _ ?v ?l] => rewrite <- (accept_agree pre r1 r2 v l) by side; rewrite E; cbn [bind]
  | E : maybe_emit_text _ _ _ ?l ?bk = Ok _ |- context [maybe_emit_text _ _ _ ?l ?bk] =>
      rewrite <- (maybe_emit_text_agree pre r1 r2 base l bk) by side; rewrite E; cbn [bind]
  | E : byte_at _ _ ?i = Ok _ |- context [byte_at _ _ ?i] => rewrite <- (byte_at_agree pre r1 r2 i) by side; rewrite E; cbn [bind]
  | E : slice _ _ ?a ?e = Ok _ |- context [slice _ _ ?a ?e] => rewrite <- (slice_agree pre r1 r2 a e) by side; rewrite E; cbn [bind]
  | C : ?c = _ |- context [if ?c then _ else _] => rewrite C
  | C : ?c = _ |- context [match ?c with _ => _ end] => rewrite C
  | |- context [bind (Ok _) _] => progress cbn [bind]
  | E : ?x = Ok _ |- context [?x] => rewrite E; cbn [bind]
  | C : ?c' = ?bb |- context [if ?c then _ else _] =>
      match type of c' with bool => idtac end; progress (change c with c'); rewrite C
  | |- Ok _ = Ok _ => reflexivity
  end.


(* ---------- the scanning loops on any input: the cursor moves forward, the width is that of one rune ---------- *)

Section Mono.
Variable inp : bstr.
Notation n := (Z.of_nat (length inp)).
Variable base : Z.

Ltac mono_tac IHtac := crack; facts; try IHtac; unfold lmono in *; side.

Lemma accept_run_loop_mono v f : forall l r, accept_run_loop inp n f v l = Ok r -> lmono l r.
Proof using inp.
  induction f as [|f IH]; intros l r H; [discriminate|]. cbn [accept_run_loop] in H. crack; facts.
  - apply IH in H. unfold lmono in *. side.
  - unfold lmono. side.
Qed.
Lemma skip_space_loop_mono f : forall l r, skip_space_loop inp n f l = Ok r -> lmono l r.
Proof using inp.
  induction f as [|f IH]; intros l r H; [discriminate|]. cbn [skip_space_loop] in H. crack; facts.
  - apply IH in H. unfold lmono in *. side.
  - unfold lmono. side.
Qed.
Lemma alnum_loop_mono ul ud f : forall l r, alnum_loop ul ud inp n f l = Ok r -> lmono l r.
Proof using inp.
  induction f as [|f IH]; intros l r H; [discriminate|]. cbn [alnum_loop] in H. crack; facts.
  - apply IH in H. unfold lmono in *. side.
  - unfold lmono. side.
Qed.


Lemma soydoc_space_loop_mono f : forall l r, soydoc_space_loop inp n f l = Ok r -> lmono l r.
Proof using inp.
  induction f as [|f IH]; intros l r H; [discriminate|]. cbn [soydoc_space_loop] in H. crack; facts.
  - unfold lmono. side.
  - apply IH in H. unfold lmono in *. side.
Qed.
Lemma literal_space_loop_mono f : forall ch l r, literal_space_loop inp n f ch l = Ok r -> l_pos l <= l_pos (snd r).
Proof using inp.
  induction f as [|f IH]; intros ch l r H; [discriminate|]. cbn [literal_space_loop] in H. crack; facts.
  - apply IH in H. side.
  - side.
Qed.
Lemma line_comment_loop_mono f : forall l r, line_comment_loop inp n base f l = Ok r -> pmono n l r.
Proof using inp base.
  induction f as [|f IH]; intros l r H; [discriminate|]. cbn [line_comment_loop] in H. unfold emit_to in H. crack; facts; try (apply IH in H); unfold pmono in *; side.
Qed.
Lemma block_comment_loop_mono f : forall star l r, block_comment_loop inp n base f star l = Ok r -> pmono n l r.
Proof using inp base.
  induction f as [|f IH]; intros star l r H; [discriminate|]. cbn [block_comment_loop] in H. unfold emit_to in H. crack; facts; try (apply IH in H); unfold pmono in *; side.
Qed.
Lemma string_loop_mono f : forall q l r, string_loop inp n base f q l = Ok r -> pmono n l r.
Proof using inp base.
  induction f as [|f IH]; intros q l r H; [discriminate|]. cbn [string_loop] in H. unfold emit_to in H. crack; facts; try (apply IH in H); unfold pmono in *; side.
Qed.
Lemma css_loop_mono f : forall l r, css_loop inp n base f l = Ok r ->
  Z.min (l_pos l) n <= (match r with inl e => l_pos (snd e) | inr l' => l_pos l' end) /\ 0 <= l_pos l /\
  (match r with inl _ => True | inr l' => 0 <= l_width l' <= 4 end).
Proof using inp base.
  induction f as [|f IH]; intros l r H; [discriminate|]. cbn [css_loop] in H. crack; facts; try (apply IH in H); try (destruct r as [[? ?]|?]); side.
Qed.
Lemma lex_text_loop_mono f : forall r0 l r, lex_text_loop inp n base f r0 l = Ok r -> pmono n l r.
Proof using inp base.
  induction f as [|f IH]; intros r0 l r H; [discriminate|]. cbn [lex_text_loop] in H. cbv zeta in H.
  crack; facts; try (apply IH in H); unfold pmono in *; side.
Qed.

Lemma header_type_loop_mono f : forall lns l r, lns <= l_pos l -> header_type_loop inp n base f lns l = Ok r ->
  0 <= l_pos l /\
  match r with
  | inl e => Z.min (l_pos l) n <= l_pos (snd e) /\ fst e = LDone
  | inr (lns', l') => l_pos l <= l_pos l' /\ Z.min lns (l_pos l) <= lns' <= l_pos l' /\ 0 <= l_width l' <= 4
  end.
Proof using inp base.
  induction f as [|f IH]; intros lns l r Hl H; [discriminate|]. cbn [header_type_loop] in H.
  crack; facts; try (apply IH in H; [|side]); try (destruct r as [[? ?]|[? ?]]);
    unfold errorf_fact in *; cbn [fst snd] in *; repeat match goal with Hx : _ /\ _ |- _ => destruct Hx end; repeat split; try congruence; side.
Qed.
Lemma soydoc_ident_loop_mono f : forall l r, soydoc_ident_loop inp n base f l = Ok r -> Z.min (l_pos l) n <= l_pos r + 1 /\ 0 <= l_pos l.
Proof using inp base.
  induction f as [|f IH]; intros l r H; [discriminate|]. cbn [soydoc_ident_loop] in H.
  crack; facts; try (apply IH in H); side.
Qed.
End Mono.

Ltac monos :=
  repeat match goal with
  | E : accept_run_loop _ _ _ _ ?l = Ok ?r |- _ =>
      lazymatch goal with _ : lmono l r |- _ => fail | _ => pose proof (accept_run_loop_mono _ _ _ _ _ E) end
  | E : skip_space_loop _ _ _ ?l = Ok ?r |- _ =>
      lazymatch goal with _ : lmono l r |- _ => fail | _ => pose proof (skip_space_loop_mono _ _ _ _ E) end
  | E : alnum_loop _ _ _ _ _ ?l = Ok ?r |- _ =>
      lazymatch goal with _ : lmono l r |- _ => fail | _ => pose proof (alnum_loop_mono _ _ _ _ _ _ E) end
  | E : soydoc_space_loop _ _ _ ?l = Ok ?r |- _ =>
      lazymatch goal with _ : lmono l r |- _ => fail | _ => pose proof (soydoc_space_loop_mono _ _ _ _ E) end
  | E : literal_space_loop _ _ _ _ ?l = Ok ?r |- _ =>
      lazymatch goal with _ : l_pos l <= l_pos (snd r) |- _ => fail | _ => pose proof (literal_space_loop_mono _ _ _ _ _ E) end
  | E : line_comment_loop _ _ _ _ ?l = Ok ?r |- _ =>
      lazymatch goal with _ : pmono _ l r |- _ => fail | _ => pose proof (line_comment_loop_mono _ _ _ _ _ E) end
  | E : block_comment_loop _ _ _ _ _ ?l = Ok ?r |- _ =>
      lazymatch goal with _ : pmono _ l r |- _ => fail | _ => pose proof (block_comment_loop_mono _ _ _ _ _ _ E) end
  | E : string_loop _ _ _ _ _ ?l = Ok ?r |- _ =>
      lazymatch goal with _ : pmono _ l r |- _ => fail | _ => pose proof (string_loop_mono _ _ _ _ _ _ E) end
  | E : lex_text_loop _ _ _ _ _ ?l = Ok ?r |- _ =>
      lazymatch goal with _ : pmono _ l r |- _ => fail | _ => pose proof (lex_text_loop_mono _ _ _ _ _ _ E) end
  | E : header_type_loop _ _ _ _ ?lns ?l = Ok ?r |- _ =>
      lazymatch goal with _ : 0 <= l_pos l /\ match r with inl _ => _ | inr _ => _ end |- _ => fail | _ => pose proof (header_type_loop_mono _ _ _ lns l r ltac:(side) E) end
  | E : soydoc_ident_loop _ _ _ _ ?l = Ok ?r |- _ =>
      lazymatch goal with _ : Z.min (l_pos l) _ <= l_pos r + 1 /\ _ |- _ => fail | _ => pose proof (soydoc_ident_loop_mono _ _ _ _ _ E) end
  | E : css_loop _ _ _ _ ?l = Ok ?r |- _ =>
      lazymatch goal with _ : Z.min (l_pos l) _ <= match r with inl _ => _ | inr _ => _ end /\ _ |- _ => fail | _ => pose proof (css_loop_mono _ _ _ _ _ E) end
  end.
Ltac side2 := unfold loop_fuel, lmono in *; side.

Section Det.
Variable ul ud : Z -> bool.
Variable pre r1 r2 : bstr.
Variable base : Z.
Notation inp1 := (pre ++ r1).
Notation inp2 := (pre ++ r2).
Notation n1 := (Z.of_nat (length (pre ++ r1))).
Notation n2 := (Z.of_nat (length (pre ++ r2))).
Notation h := (Z.of_nat (length pre)).

Ltac replay := repeat (replay1 pre r1 r2 base).
Ltac start H := pose proof (h_le1 pre r1); pose proof (h_le2 pre r2); cbv zeta in H; crack; cbn [fst snd] in *;
  repeat match goal with Hx : context [if ?c then _ else _] |- _ =>
           match type of Hx with
           | _ <= _ => let C := fresh "C" in destruct c eqn:C
           | (_ < _)%nat => let C := fresh "C" in destruct c eqn:C
           end end; facts; monos.
Ltac moves :=
  repeat match goal with
  | E : next _ _ ?l = Ok (_, ?l1) |- _ =>
      lazymatch goal with _ : l_pos l < l_pos l1 |- _ => fail | _ => pose proof (next_moves _ _ _ _ E ltac:(side2)) end
  end.

Lemma accept_run_loop_det v f1 : forall l r, accept_run_loop inp1 n1 f1 v l = Ok r -> l_pos r + 4 <= h ->
  forall f2, (Z.to_nat (l_pos r - l_pos l) < f2)%nat -> accept_run_loop inp2 n2 f2 v l = Ok r.
Proof using All.
  induction f1 as [|f1 IH]; intros l r H Hb [|f2] Hf; try discriminate; cbn [accept_run_loop] in H; start H; try side2.
  - moves. cbn [accept_run_loop]. replay. apply (IH _ _ H Hb). side2.
  - cbn [accept_run_loop]. replay.
Qed.
Lemma skip_space_loop_det f1 : forall l r, skip_space_loop inp1 n1 f1 l = Ok r -> l_pos r + 4 <= h ->
  forall f2, (Z.to_nat (l_pos r - l_pos l) < f2)%nat -> skip_space_loop inp2 n2 f2 l = Ok r.
Proof using All.
  induction f1 as [|f1 IH]; intros l r H Hb [|f2] Hf; try discriminate; cbn [skip_space_loop] in H; start H; try side2.
  - moves. cbn [skip_space_loop]. replay. apply (IH _ _ H Hb). side2.
  - cbn [skip_space_loop]. replay.
Qed.
Lemma alnum_loop_det f1 : forall l r, alnum_loop ul ud inp1 n1 f1 l = Ok r -> l_pos r + 4 <= h ->
  forall f2, (Z.to_nat (l_pos r - l_pos l) < f2)%nat -> alnum_loop ul ud inp2 n2 f2 l = Ok r.
Proof using All.
  induction f1 as [|f1 IH]; intros l r H Hb [|f2] Hf; try discriminate; cbn [alnum_loop] in H; start H; try side2.
  - moves. cbn [alnum_loop]. replay. apply (IH _ _ H Hb). side2.
  - cbn [alnum_loop]. replay.
Qed.

Lemma soydoc_space_loop_det f1 : forall l r, soydoc_space_loop inp1 n1 f1 l = Ok r -> l_pos r + 4 <= h ->
  forall f2, (Z.to_nat (l_pos r - l_pos l) < f2)%nat -> soydoc_space_loop inp2 n2 f2 l = Ok r.
Proof using All.
  induction f1 as [|f1 IH]; intros l r H Hb [|f2] Hf; try discriminate; cbn [soydoc_space_loop] in H; start H; try side2.
  - cbn [soydoc_space_loop]. replay.
  - moves. cbn [soydoc_space_loop]. replay. apply (IH _ _ H Hb). side2.
Qed.
Lemma literal_space_loop_det f1 : forall ch l r, literal_space_loop inp1 n1 f1 ch l = Ok r -> l_pos (snd r) + 4 <= h ->
  forall f2, (Z.to_nat (l_pos (snd r) - l_pos l) < f2)%nat -> literal_space_loop inp2 n2 f2 ch l = Ok r.
Proof using All.
  induction f1 as [|f1 IH]; intros ch l r H Hb [|f2] Hf; try discriminate; cbn [literal_space_loop] in H; start H; try side2.
  - moves. cbn [literal_space_loop]. replay. apply (IH _ _ _ H Hb). side2.
  - cbn [literal_space_loop]. replay.
Qed.

Ltac pair_loop IH H Hb :=
  start H; try side2; moves;
  match goal with |- ?lhs = _ => idtac end.

Lemma line_comment_loop_det f1 : forall l r, line_comment_loop inp1 n1 base f1 l = Ok r -> l_pos (snd r) + M0 <= h ->
  forall f2, (Z.to_nat (l_pos (snd r) + 8 - l_pos l) < f2)%nat -> line_comment_loop inp2 n2 base f2 l = Ok r.
Proof using All.
  induction f1 as [|f1 IH]; intros l r H Hb [|f2] Hf; try discriminate; cbn [line_comment_loop] in H; unfold emit_to in *; start H; try side2;
    moves; cbn [line_comment_loop]; unfold emit_to; replay; try (apply (IH _ _ H Hb); side2).
Qed.
Lemma block_comment_loop_det f1 : forall star l r, block_comment_loop inp1 n1 base f1 star l = Ok r -> l_pos (snd r) + M0 <= h ->
  forall f2, (Z.to_nat (l_pos (snd r) + 8 - l_pos l) < f2)%nat -> block_comment_loop inp2 n2 base f2 star l = Ok r.
Proof using All.
  induction f1 as [|f1 IH]; intros star l r H Hb [|f2] Hf; try discriminate; cbn [block_comment_loop] in H; unfold emit_to in *; start H; try side2;
    moves; cbn [block_comment_loop]; unfold emit_to; replay; try (apply (IH _ _ _ H Hb); side2).
Qed.
Lemma string_loop_det f1 : forall q l r, string_loop inp1 n1 base f1 q l = Ok r -> l_pos (snd r) + M0 <= h ->
  forall f2, (Z.to_nat (l_pos (snd r) + 8 - l_pos l) < f2)%nat -> string_loop inp2 n2 base f2 q l = Ok r.
Proof using All.
  induction f1 as [|f1 IH]; intros q l r H Hb [|f2] Hf; try discriminate; cbn [string_loop] in H; unfold emit_to in *; start H; try side2;
    moves; cbn [string_loop]; unfold emit_to; replay; try (apply (IH _ _ _ H Hb); side2).
Qed.
Lemma lex_text_loop_det f1 : forall r0 l r, lex_text_loop inp1 n1 base f1 r0 l = Ok r -> l_pos (snd r) + M0 <= h ->
  forall f2, (Z.to_nat (l_pos (snd r) + 8 - l_pos l) < f2)%nat -> lex_text_loop inp2 n2 base f2 r0 l = Ok r.
Proof using All.
  induction f1 as [|f1 IH]; intros r0 l r H Hb [|f2] Hf; try discriminate; cbn [lex_text_loop] in H; start H; try side2;
    moves; cbn [lex_text_loop]; cbv zeta; replay; try (apply (IH _ _ _ H Hb); side2).
Qed.

Definition spos (r : lstate * lx + lx) : Z := match r with inl e => l_pos (snd e) | inr l' => l_pos l' end.
Lemma css_loop_det f1 : forall l r, css_loop inp1 n1 base f1 l = Ok r -> spos r + M0 <= h ->
  forall f2, (Z.to_nat (spos r + 8 - l_pos l) < f2)%nat -> css_loop inp2 n2 base f2 l = Ok r.
Proof using All.
  induction f1 as [|f1 IH]; intros l r H Hb [|f2] Hf; try discriminate; cbn [css_loop] in H; unfold spos in *;
    destruct r as [[? ?]|?]; start H; try side2;
    moves; cbn [css_loop]; replay; try (apply (IH _ _ H); unfold spos; side2).
Qed.
Definition hpos (r : lstate * lx + Z * lx) : Z := match r with inl e => l_pos (snd e) | inr (_, l') => l_pos l' end.
Lemma header_type_loop_det f1 : forall lns l r, lns <= l_pos l -> header_type_loop inp1 n1 base f1 lns l = Ok r -> hpos r + M0 <= h ->
  forall f2, (Z.to_nat (hpos r + 8 - l_pos l) < f2)%nat -> header_type_loop inp2 n2 base f2 lns l = Ok r.
Proof using All.
  induction f1 as [|f1 IH]; intros lns l r Hl H Hb [|f2] Hf; try discriminate; cbn [header_type_loop] in H; unfold hpos in *;
    destruct r as [[? ?]|[? ?]]; start H; try side2;
    moves; cbn [header_type_loop]; replay; try (eapply IH; first [exact H | unfold hpos; side2]).
Qed.
Lemma soydoc_ident_loop_det f1 : forall l r, soydoc_ident_loop inp1 n1 base f1 l = Ok r -> l_pos r + M0 <= h ->
  forall f2, (Z.to_nat (l_pos r + 8 - l_pos l) < f2)%nat -> soydoc_ident_loop inp2 n2 base f2 l = Ok r.
Proof using All.
  induction f1 as [|f1 IH]; intros l r H Hb [|f2] Hf; try discriminate; cbn [soydoc_ident_loop] in H; start H; try side2;
    moves; cbn [soydoc_ident_loop]; replay; try (apply (IH _ _ H Hb); side2).
Qed.

Ltac replay2 :=
  repeat first
  [ replay1 pre r1 r2 base
  | match goal with
    | E : accept_run_loop _ _ _ ?v ?l = Ok _ |- context [accept_run_loop _ _ ?f2 ?v ?l] =>
        rewrite (accept_run_loop_det _ _ _ _ E ltac:(side2) f2 ltac:(side2)); cbn [bind]
    | E : skip_space_loop _ _ _ ?l = Ok _ |- context [skip_space_loop _ _ ?f2 ?l] =>
        rewrite (skip_space_loop_det _ _ _ E ltac:(side2) f2 ltac:(side2)); cbn [bind]
    | E : alnum_loop _ _ _ _ _ ?l = Ok _ |- context [alnum_loop _ _ _ _ ?f2 ?l] =>
        rewrite (alnum_loop_det _ _ _ E ltac:(side2) f2 ltac:(side2)); cbn [bind]
    | E : soydoc_space_loop _ _ _ ?l = Ok _ |- context [soydoc_space_loop _ _ ?f2 ?l] =>
        rewrite (soydoc_space_loop_det _ _ _ E ltac:(side2) f2 ltac:(side2)); cbn [bind]
    | E : literal_space_loop _ _ _ ?ch ?l = Ok _ |- context [literal_space_loop _ _ ?f2 ?ch ?l] =>
        rewrite (literal_space_loop_det _ _ _ _ E ltac:(side2) f2 ltac:(side2)); cbn [bind]
    | E : soydoc_ident_loop _ _ _ _ ?l = Ok _ |- context [soydoc_ident_loop _ _ _ ?f2 ?l] =>
        rewrite (soydoc_ident_loop_det _ _ _ E ltac:(side2) f2 ltac:(side2)); cbn [bind]
    | E : css_loop _ _ _ _ ?l = Ok _ |- context [css_loop _ _ _ ?f2 ?l] =>
        rewrite (css_loop_det _ _ _ E ltac:(unfold spos; side2) f2 ltac:(unfold spos; side2)); cbn [bind]
    | E : header_type_loop _ _ _ _ ?lns ?l = Ok _ |- context [header_type_loop _ _ _ ?f2 ?lns ?l] =>
        rewrite (header_type_loop_det _ lns l _ ltac:(side2) E ltac:(unfold hpos; side2) f2 ltac:(unfold hpos; side2)); cbn [bind]
    end ].

Lemma accept_run_det v l res : accept_run inp1 n1 v l = Ok res -> l_pos (snd res)+ m_run <= h ->
  accept_run inp2 n2 v l = Ok res.
Proof using All. intros H Hb. unfold accept_run in *. start H. replay2. Qed.

Lemma skip_space_det l res : skip_space inp1 n1 l = Ok res -> l_pos res+ m_run <= h ->
  skip_space inp2 n2 l = Ok res.
Proof using All. intros H Hb. unfold skip_space in *. start H. replay2. Qed.

Lemma lex_left_delim_det l res : lex_left_delim inp1 n1 base l = Ok res -> l_pos (snd res)+ m_ldelim <= h ->
  lex_left_delim inp2 n2 base l = Ok res.
Proof using All. intros H Hb. unfold lex_left_delim in *. start H; replay2. Qed.

Lemma double_close_det l res : double_close inp1 n1 base l = Ok res ->
  (match res with inl e => l_pos (snd e) | inr l' => l_pos l' end)+ m_close <= h ->
  double_close inp2 n2 base l = Ok res.
Proof using All. intros H Hb. unfold double_close in *. start H; replay2. Qed.

End Det.
