(* C16, json: the text written for ANY value contains no raw < > & (escapeHTML), at any depth. *)
From Coq Require Import Lia ZifyN ZifyNat ZifyBool.
From Soy Require Import Model.Bytes Generated.Tables Model.Utf8 Model.Num Model.Outcome Model.Values Model.Escape Model.Directives
  Model.JsEscape Model.JsonEncode Spec.Html Spec.Codec Spec.Json
  Proofs.Utf8Proofs Proofs.MsgIdProofs Proofs.ValueProofs Proofs.CodecProofs Proofs.CodecJsonNum Proofs.CodecJson.
Open Scope N_scope.

Definition num_char (c : N) : Prop := is_digit_byte c \/ c = 45 \/ c = 46.
Ltac fc := repeat (apply Forall_cons; [unfold num_char, is_digit_byte, html_inert; lia|]); try apply Forall_nil.

Lemma num_char_inert c : num_char c -> html_inert c.
Proof. unfold num_char, is_digit_byte, html_inert. lia. Qed.

Lemma dec_of_Z_num_chars z : Forall num_char (dec_of_Z z).
Proof. eapply Forall_impl; [|apply dec_of_Z_chars]. unfold num_char. tauto. Qed.

Lemma frac_digits_digits f : forall num den, (0 <= num < den)%Z -> Forall is_digit_byte (frac_digits f num den).
Proof.
  induction f as [|f IH]; intros num den H; cbn [frac_digits]; [constructor|].
  destruct (num =? 0)%Z; [constructor|].
  assert (0 <= num * 10 / den < 10)%Z by (split; [apply Z.div_pos; lia|apply Z.div_lt_upper_bound; lia]).
  constructor; [unfold is_digit_byte; lia|]. apply IH. apply Z.mod_pos_bound. lia.
Qed.

Lemma fl_to_string_chars x s : fl_to_string_dom x = Some s -> x <> FNaN -> (forall n, x <> FInf n) -> Forall num_char s.
Proof.
  destruct x as [|n|n|m e]; cbn [fl_to_string_dom]; cbv zeta.
  - congruence.
  - intros _ _ H. specialize (H n). congruence.
  - intros H _ _. destruct n; apply some_inj in H; subst s; fc.
  - intros H _ _.
    assert (Forall num_char (if (m <? 0)%Z then [45] else [])) as Hsign by (destruct (m <? 0)%Z; fc).
    destruct (Z.leb_spec 0 e) as [He|He].
    + destruct (_ <? 1000000)%Z; [|discriminate]. apply some_inj in H. subst s. apply Forall_app. split; [exact Hsign|apply dec_of_Z_num_chars].
    + destruct (e <? -9)%Z; [discriminate|]. destruct (_ <? 1000000)%Z; [|discriminate]. apply some_inj in H. subst s.
      apply Forall_app. split; [exact Hsign|]. apply Forall_app. split; [apply dec_of_Z_num_chars|].
      apply Forall_app. split; [fc|].
      eapply Forall_impl; [|apply frac_digits_digits; apply Z.mod_pos_bound, Z.pow_pos_nonneg; lia]. unfold num_char. tauto.
Qed.

Lemma Forall_join (P : N -> Prop) (sep : bstr) items : Forall P sep -> Forall (Forall P) items -> Forall P (join sep items).
Proof.
  intros Hsep. induction 1 as [|s r Hs Hr IH]; [constructor|]. destruct r as [|s2 r2]; [exact Hs|].
  change (join sep (s :: s2 :: r2)) with (s ++ sep ++ join sep (s2 :: r2)). apply Forall_app. split; [exact Hs|]. apply Forall_app. split; assumption.
Qed.

Lemma Forall_sort_kv {A} (Q : bstr * A -> Prop) l : Forall Q l -> Forall Q (json_sort_kv l).
Proof.
  induction 1 as [|[k x] r Hkx Hr IH]; [constructor|]. unfold json_sort_kv in *. cbn [fold_right fst snd].
  revert IH. generalize (fold_right (fun (kx : bstr * A) acc => json_insert_kv (fst kx) (snd kx) acc) [] r). intros acc Hacc.
  induction acc as [|[k' x'] acc IHa]; [repeat constructor; exact Hkx|]. cbn [json_insert_kv]. inversion Hacc; subst.
  destruct (bstr_leb k k'); constructor; auto.
Qed.

Theorem json_encode_inert nn : forall v s, json_encode nn v = Ok s -> Forall html_inert s.
Proof.
  apply (value_ind2 (fun v => forall s, json_encode nn v = Ok s -> Forall html_inert s)).
  - intros s H. injection H as <-. fc.
  - intros s H. injection H as <-. fc.
  - intros x s H. destruct x; injection H as <-; fc.
  - intros z s H. injection H as <-. eapply Forall_impl; [|apply dec_of_Z_num_chars]. apply num_char_inert.
  - intros x s H. cbn [json_encode] in H. unfold json_float in H.
    destruct x as [|n|n|m e]; try discriminate.
    + destruct (fl_to_string_dom (FZero n)) as [t|] eqn:E; [|discriminate]. injection H as <-.
      eapply Forall_impl; [|eapply fl_to_string_chars; [exact E|discriminate|intros; discriminate]]. apply num_char_inert.
    + destruct (fl_to_string_dom (FFin m e)) as [t|] eqn:E; [|discriminate]. injection H as <-.
      eapply Forall_impl; [|eapply fl_to_string_chars; [exact E|discriminate|intros; discriminate]]. apply num_char_inert.
  - intros t s H. injection H as <-. apply json_string_inert.
  - intros id l IH s H. rewrite json_encode_list in H. destruct (is_nil_coll nn id l).
    { injection H as <-. fc. }
    apply bind_ok in H. destruct H as (items & Hitems & H). injection H as <-.
    constructor; [unfold html_inert; lia|]. apply Forall_app. split; [|fc].
    apply Forall_join; [fc|].
    revert items Hitems. induction l as [|x r IHr]; intros items Hitems.
    + injection Hitems as <-. constructor.
    + cbn [enc_items] in Hitems. apply bind_ok in Hitems. destruct Hitems as (sx & Hsx & Hitems).
      apply bind_ok in Hitems. destruct Hitems as (rs & Hrs & Hitems). injection Hitems as <-.
      inversion IH as [|? ? IHx IHr']; subst. constructor; [apply IHx, Hsx|apply IHr; assumption].
  - intros id m IH s H. rewrite json_encode_map in H. destruct (is_nil_coll nn id m).
    { injection H as <-. fc. }
    apply bind_ok in H. destruct H as (items & Hitems & H). injection H as <-.
    constructor; [unfold html_inert; lia|]. apply Forall_app. split; [|fc].
    apply Forall_join; [fc|].
    apply Forall_map. apply Forall_sort_kv.
    revert items Hitems. induction m as [|[k x] r IHr]; intros items Hitems.
    + injection Hitems as <-. constructor.
    + cbn [enc_members] in Hitems. apply bind_ok in Hitems. destruct Hitems as (sx & Hsx & Hitems).
      apply bind_ok in Hitems. destruct Hitems as (rs & Hrs & Hitems). injection Hitems as <-.
      inversion IH as [|? ? IHx IHr']; subst. constructor; [|apply IHr; assumption].
      unfold json_member. cbn [fst snd]. apply Forall_app. split; [apply json_string_inert|].
      apply Forall_app. split; [fc|apply IHx, Hsx].
Qed.
