(* C06, part 8: the standalone entry points as functions of BYTE STRINGS.
   parse.Expr on any bytes returns a tree or an error (the scanner theorem of
   Proofs/LexerProofs.v, the parser theorem of Proofs/ParserProofs.v, joined by
   Proofs/LexParseBridge.v), or the text contains a float literal outside the
   parser model's float domain ([OutOfModel]); hence EvalExpr on the parsed text
   and ParseGlobals on any input never let a panic out and never spin. *)
From Coq Require Import Lia ZifyN ZifyBool ZifyNat.
From Soy Require Import Model.Bytes Model.Num Model.Values Model.Outcome Model.Ast Model.Token Model.NumLit
  Model.ExprParser Model.Parser Generated.Tables Model.Lexer Model.Interp Model.InterpSafety Model.Globals
  Model.ExprPipeline Spec.Safety
  Proofs.LexerPrim Proofs.LexerProofs Proofs.ParserMeasure Proofs.ParserProofs Proofs.LexParseBridge
  Proofs.SafetyPure Proofs.SafetyProofs Proofs.SafetyEntry.
Open Scope N_scope.

Lemma floats_okb_ok ts : floats_okb ts = true -> floats_ok ts.
Proof.
  unfold floats_okb, floats_ok. intros H. rewrite Forall_forall. intros t Hin Ht.
  rewrite forallb_forall in H. specialize (H t Hin). unfold float_item_ok in H.
  rewrite Ht, N.eqb_refl in H. destruct (parse_float (t_val t)); [discriminate | discriminate].
Qed.

(* the scanner model with the toolchain's tables, on any input: items, well-formed *)
Lemma lex_items_tbl_scan_ok (s : bstr) :
  exists ts w, lex_items_tbl true s = Ok (ts, w) /\ scan_ok (N.of_nat (length s)) ts.
Proof.
  destruct tables_eof as [Hl Hd].
  destruct (lex_total_linear _ _ Hl Hd 0%Z ltac:(lia) true s) as (l & Hr & He & _).
  exists (rev (l_out l)), (l_ticks l). unfold lex_items_tbl, lex_run. rewrite Hr. cbn [bind]. split; [reflexivity|].
  replace (N.of_nat (length s)) with (Z.to_N (0 + Z.of_nat (length s))) by lia. exact He.
Qed.

(* parse.Expr on ANY byte string: a tree, an error, or a float literal outside the model.
   Never a panic out of the parser or the scanner, never an exhausted budget. *)
Theorem parse_expr_bytes_total (s : bstr) :
  match parse_expr_bytes s with Ok _ | Err _ | OutOfModel => True | _ => False end.
Proof.
  unfold parse_expr_bytes.
  destruct (lex_items_tbl_scan_ok s) as (ts & w & Hts & Hscan). rewrite Hts.
  destruct (floats_okb ts) eqn:Hf; [|exact I].
  pose proof (parse_expr_total _ _ (scan_items_wf _ _ Hscan (floats_okb_ok _ Hf))) as Ht.
  destruct (po_result (soy_expr (N.of_nat (length s)) ts)); [exact I | exact I | destruct Ht | destruct Ht].
Qed.

Lemma parse_expr_bytes_no_escape (s : bstr) : no_escape (parse_expr_bytes s).
Proof. pose proof (parse_expr_bytes_total s) as H. destruct (parse_expr_bytes s); cbn in *; tauto. Qed.

(* EvalExpr on the tree parse.Expr makes of ANY byte string *)
Theorem eval_expr_bytes_no_escape fuel (s : bstr) : no_escape (eval_expr_bytes fuel s).
Proof.
  unfold eval_expr_bytes. pose proof (parse_expr_bytes_no_escape s) as Hp.
  destruct (parse_expr_bytes s) as [nd| | | | |]; cbn [bind]; try exact Hp; try exact I.
  apply eval_expr_no_escape_lemma.
Qed.

(* ParseGlobals on ANY input *)
Theorem parse_globals_bytes_no_escape fuel (input : bstr) : no_escape (parse_globals_bytes fuel input).
Proof. unfold parse_globals_bytes. apply parse_globals_no_escape_lemma. exact parse_expr_bytes_no_escape. Qed.
