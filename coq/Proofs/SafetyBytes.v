(* C06, part 8: the standalone entry points as functions of BYTE STRINGS.
   parse.Expr on any bytes returns a tree or an error (the scanner theorem of
   Proofs/LexerProofs.v, the parser theorem of Proofs/ParserProofs.v, joined by
   Proofs/LexParseBridge.v), or the text contains a float literal outside the
   parser model's float domain ([OutOfModel]); hence EvalExpr on the parsed text
   and ParseGlobals on any input never let a panic out and never spin. *)
From Coq Require Import Lia ZifyN ZifyBool ZifyNat.
From Soy Require Import Model.Bytes Model.Num Model.Values Model.Outcome Model.Ast Model.Token Model.NumLit
  Model.ExprParser Model.Parser Generated.Tables Model.Lexer Model.Interp Model.InterpSafety Model.Globals
  Model.ExprPipeline Spec.Safety
  Proofs.LexerPrim Proofs.LexerProofs Proofs.ParserMeasure Proofs.ParserProofs Proofs.LexParseBridge
  Proofs.SafetyPure Proofs.SafetyProofs Proofs.SafetyEntry.
Open Scope N_scope.

Lemma floats_okb_ok ts : floats_okb ts = true -> floats_ok ts.
Proof.
  unfold floats_okb, floats_ok. intros H. rewrite Forall_forall. intros t Hin Ht.
  rewrite forallb_forall in H. specialize (H t Hin). unfold float_item_ok in H.
  rewrite Ht, N.eqb_refl in H. destruct (parse_float (t_val t)); [discriminate | discriminate].
Qed.

(* the scanner model with the toolchain's tables, on any input: items, well-formed *)
Lemma lex_items_tbl_scan_ok (s : bstr) :
  exists ts w, lex_items_tbl true s = Ok (ts, w) /\ scan_ok (N.of_nat (length s)) ts.
Proof.
  destruct tables_eof as [Hl Hd].
  destruct (lex_total_linear _ _ Hl Hd 0%Z ltac:(lia) true s) as (l & Hr & He & _).
  exists (rev (l_out l)), (l_ticks l). unfold lex_items_tbl, lex_run. rewrite Hr. cbn [bind]. split; [reflexivity|].
  replace (N.of_nat (length s)) with (Z.to_N (0 + Z.of_nat (length s))) by lia. exact He.
Qed.

(* parse.Expr on ANY byte string: a tree, an error, or a float literal outside the model.
   Never a panic out of the parser or the scanner, never an exhausted budget. *)
Theorem parse_expr_bytes_total (s : bstr) :
  match parse_expr_bytes s with Ok _ | Err _ | OutOfModel => True | _ => False end.
Proof.
  unfold parse_expr_bytes.
  destruct (lex_items_tbl_scan_ok s) as (ts & w & Hts & Hscan). rewrite Hts.
  destruct (floats_okb ts) eqn:Hf; [|exact I].
  pose proof (parse_expr_total _ _ (scan_items_wf _ _ Hscan (floats_okb_ok _ Hf))) as Ht.
  destruct (po_result (soy_expr (N.of_nat (length s)) ts)); [exact I | exact I | destruct Ht | destruct Ht].
Qed.

Lemma parse_expr_bytes_no_escape (s : bstr) : no_escape (parse_expr_bytes s).
Proof. pose proof (parse_expr_bytes_total s) as H. destruct (parse_expr_bytes s); cbn in *; tauto. Qed.

(* EvalExpr on the tree parse.Expr makes of ANY byte string *)
Theorem eval_expr_bytes_no_escape fuel (s : bstr) : no_escape (eval_expr_bytes fuel s).
Proof.
  unfold eval_expr_bytes. pose proof (parse_expr_bytes_no_escape s) as Hp.
  destruct (parse_expr_bytes s) as [nd| | | | |]; cbn [bind]; try exact Hp; try exact I.
  apply eval_expr_no_escape_lemma.
Qed.

(* ParseGlobals on ANY input *)
Theorem parse_globals_bytes_no_escape fuel (input : bstr) : no_escape (parse_globals_bytes fuel input).
Proof. unfold parse_globals_bytes. apply parse_globals_no_escape_lemma. exact parse_expr_bytes_no_escape. Qed.

(* ------------------------------------------------------------------ *)
(* budgets.  soyhtml.EvalExpr runs with no registry: a {call} finds no template, so no callee is ever
   entered and the tree's own height is enough fuel for ANY tree *)
From Soy Require Import Model.Escape Model.Directives Model.Print Proofs.ValueProofs Proofs.InterpLogic Proofs.InterpSub
  Proofs.SafetyNodes Proofs.SafetyFuel Proofs.SafetyMono.

Theorem walk_fuel_no_registry cf : r_templates (c_reg cf) = [] ->
  forall fuel n, (tree_height n <= fuel)%nat -> fuel_ok (walk cf fuel n).
Proof.
  intros Hreg. induction fuel as [|fuel IH]; intros n Hf.
  - pose proof (height_pos n). lia.
  - rewrite walk_S.
    apply (phi_walk_body_sub cf _ _ (rel_logic_sub _ _ nf_rel_conditions) nf_pure_sites_sub).
    + apply rel_modify. intros st. exact I.
    + intros n' Hin. apply IH. pose proof (height_sub n n' Hin). lia.
    + intros callee cd Hc. destruct n; cbn [callee_of] in Hc; try discriminate.
      rewrite Hreg in Hc. discriminate.
Qed.

Theorem eval_expr_impl_total fuel n :
  (tree_height n <= fuel)%nat ->
  match eval_expr_impl true fuel n with Ok _ | Err _ | OutOfModel => True | _ => False end.
Proof.
  intros Hf. unfold eval_expr_impl, eval_expr.
  set (cf := {| c_reg := empty_registry; c_ij := None; c_oblig := []; c_msgs := None |}).
  pose proof (fuel_ok_nf _ (init_state [] 0 [] None None 2) (walk_fuel_no_registry cf eq_refl fuel n Hf)) as Hnf.
  destruct (fst (walk cf fuel n _)); cbn in Hnf |- *; tauto.
Qed.

(* an answer of EvalExpr is stable under more fuel *)
Lemma eval_expr_impl_monotone f f' n :
  (f <= f')%nat -> eval_expr_impl true f n <> OutOfFuel -> eval_expr_impl true f' n = eval_expr_impl true f n.
Proof.
  intros Hle Hne. unfold eval_expr_impl, eval_expr in *.
  set (cf := {| c_reg := empty_registry; c_ij := None; c_oblig := []; c_msgs := None |}) in *.
  set (st0 := init_state [] 0 [] None None 2) in *.
  destruct (walk cf f n st0) as [r st'] eqn:Hrun. cbn [fst] in Hne.
  assert (Hr : r <> OutOfFuel) by (intros ->; apply Hne; reflexivity).
  rewrite (walk_fuel_monotone cf f f' n st0 r st' Hle Hrun Hr). reflexivity.
Qed.

Theorem eval_expr_text_total (s : bstr) :
  match eval_expr_text s with Ok _ | Err _ | OutOfModel => True | _ => False end.
Proof.
  unfold eval_expr_text. pose proof (parse_expr_bytes_total s) as Hp.
  destruct (parse_expr_bytes s) as [nd| | | | |]; cbn [bind]; try exact Hp; try exact I.
  apply eval_expr_impl_total. lia.
Qed.

(* ParseGlobals: some budget (the tallest right-hand side) is enough for the whole input, and then the
   outcome is a map, an error, or outside the float model *)
Lemma globals_line_nf fuel g line :
  (line_fuel line <= fuel)%nat -> nf (globals_line parse_expr_bytes fuel g line).
Proof.
  unfold globals_line, line_fuel. destruct line as [|c l]; [intros; exact I|].
  destruct (is_comment _); [intros; exact I|].
  destruct (split_eq [] _) as [[lhs rhs]|]; [|intros; exact I].
  pose proof (parse_expr_bytes_total (trim_space rhs)) as Hp.
  destruct (parse_expr_bytes (trim_space rhs)) as [nd| | | | |]; cbn [bind]; intros Hf; try tauto.
  pose proof (eval_expr_impl_total fuel nd Hf) as He.
  destruct (eval_expr_impl true fuel nd); cbn [bind] in *; tauto.
Qed.

Lemma globals_lines_nf fuel ls : forall g,
  (fold_right (fun raw acc => Nat.max (line_fuel (drop_cr raw)) acc) 0%nat ls <= fuel)%nat ->
  nf (globals_lines parse_expr_bytes fuel g ls).
Proof.
  induction ls as [|raw r IH]; intros g Hf; cbn [globals_lines]; [exact I|].
  destruct (max_token <=? _); [exact I|]. cbn [fold_right] in Hf.
  apply nf_bind; [apply globals_line_nf; lia | intros g'; apply IH; lia].
Qed.

Theorem parse_globals_bytes_total fuel (input : bstr) :
  (globals_fuel input <= fuel)%nat ->
  match parse_globals_bytes fuel input with Ok _ | Err _ | OutOfModel => True | _ => False end.
Proof.
  intros Hf. pose proof (globals_lines_nf fuel (raw_lines [] input) [] Hf) as Hnf.
  unfold parse_globals_bytes, parse_globals.
  destruct (globals_lines parse_expr_bytes fuel [] (raw_lines [] input)); cbn in Hnf |- *; tauto.
Qed.
