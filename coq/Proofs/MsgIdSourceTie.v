(* C10, source tie by translation, second layer: what follows for Model/MsgId.v's composite
   functions from the equalities of Proofs/SourceTieMsg.v (isAlphaNumeric, fingerprint, calcID's
   tail, htmlTagNames as gotrans translates them from today's source).  Nothing here needs a new
   translator feature; notes/gotrans-msgid-needs.md lists, function by function, what would. *)
From Coq Require Import ZArith NArith Bool Lia ZifyBool ZifyN List.
From Soy Require Import Model.Bytes Model.Outcome Generated.Tables Model.MsgId Proofs.SourceTieBase Proofs.SourceTieMsg.
Import ListNotations.
Open Scope N_scope.

(* id.go calcID, whole: `fp = fingerprint(buf.Bytes())` followed by the translated tail *)
Theorem calc_id_matches_source_full (fpstr meaning : bstr) :
  Z.of_N (calc_id fpstr meaning) =
  src_soymsg_calcID_tail hash32_z meaning (src_soymsg_fingerprint hash32_z fpstr).
Proof. rewrite <- fingerprint_matches_source. apply calc_id_matches_source. Qed.

(* ... hence the model's id is a function of the two hash32 runs through TRANSLATED code only:
   any two hash functions that agree on the four strings/seeds involved give the same id *)
Theorem calc_id_source_depends_on_hash32_only (h : bstr -> Z -> Z -> Z -> Z) (fpstr meaning : bstr) :
  (forall s a l c, h s a l c = hash32_z s a l c) ->
  Z.of_N (calc_id fpstr meaning) = src_soymsg_calcID_tail h meaning (src_soymsg_fingerprint h fpstr).
Proof.
  intro H. rewrite calc_id_matches_source_full.
  unfold src_soymsg_calcID_tail, src_soymsg_fingerprint. rewrite !H. reflexivity.
Qed.

(* placeholder.go tagName's loop `for i, ch := range text { if !isAlphaNumeric(ch) { return text[:i] } }`
   (panic when it runs off the end), with the SOURCE's isAlphaNumeric: the model's alnum_prefix returns
   text[:i] for the first i whose byte the translated predicate rejects, and None iff it rejects none *)
Definition src_alnum (c : N) : bool := src_soymsg_isAlphaNumeric (Z.of_N c).

Theorem alnum_prefix_matches_source (s p : bstr) :
  alnum_prefix s = Some p <->
  exists c r, s = p ++ c :: r /\ forallb src_alnum p = true /\ src_alnum c = false.
Proof.
  unfold src_alnum. revert p. induction s as [|x s IH]; intro p; cbn [alnum_prefix].
  - split; [discriminate|]. intros (c & r & E & _). destruct p; discriminate.
  - rewrite (c_alnum_matches_source x). destruct (src_soymsg_isAlphaNumeric (Z.of_N x)) eqn:Ex.
    + destruct (alnum_prefix s) as [q|] eqn:Eq.
      * split.
        -- intro H. inversion H; subst p. destruct (proj1 (IH q) eq_refl) as (c & r & E & Hp & Hc).
           exists c, r. cbn [forallb app]. rewrite Ex, Hp, E. auto.
        -- intros (c & r & E & Hp & Hc). destruct p as [|y p]; cbn [app] in E; inversion E; subst.
           ++ congruence.
           ++ cbn [forallb] in Hp. apply andb_true_iff in Hp. destruct Hp as [_ Hp].
              f_equal. f_equal. symmetry.
              assert (Some q = Some p) as Hq by (apply IH; exists c, r; auto). inversion Hq; reflexivity.
      * split; [discriminate|]. intros (c & r & E & Hp & Hc). destruct p as [|y p]; cbn [app] in E; inversion E; subst.
        -- congruence.
        -- cbn [forallb] in Hp. apply andb_true_iff in Hp. destruct Hp as [_ Hp].
           assert (None = Some p) as Hq by (apply IH; exists c, r; auto). discriminate.
    + split.
      * intro H. inversion H; subst p. exists x, s. auto.
      * intros (c & r & E & Hp & Hc). destruct p as [|y p]; [reflexivity|].
        cbn [app] in E. inversion E; subst. cbn [forallb] in Hp. rewrite Ex in Hp. discriminate.
Qed.

Theorem alnum_prefix_none_matches_source (s : bstr) :
  alnum_prefix s = None <-> forallb src_alnum s = true.
Proof.
  unfold src_alnum. induction s as [|x s IH]; cbn [alnum_prefix forallb]; [tauto|].
  rewrite (c_alnum_matches_source x). destruct (src_soymsg_isAlphaNumeric (Z.of_N x)); cbn [andb].
  - destruct (alnum_prefix s); [split; [discriminate|intro H; apply IH in H; discriminate]|tauto].
  - split; discriminate.
Qed.

(* placeholder.go genBasePlaceholderNameFromHtml: the pretty-name lookup goes through the SOURCE's table *)
Theorem base_from_html_matches_source_table (text : bstr) :
  base_from_html text =
  ('(tag, tag_type) <- tag_name text ;;
   let tag := match assoc_s tag src_soymsg_htmlTagNames with Some pretty => pretty | None => tag end in
   Ok (to_upper_underscore (tag_type ++ tag))).
Proof.
  unfold base_from_html. destruct (tag_name text) as [[tag ty]| | | | |]; try reflexivity.
  cbn [bind]. rewrite html_tag_names_matches_source. reflexivity.
Qed.
