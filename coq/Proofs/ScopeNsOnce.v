(* C02, call names, part 3: tree.namespace is written once.  Every procedure of
   the command parser (Model/Parser.v), down to itemList and parse.SoyFile,
   leaves a non-empty namespace as it is -- only parseNamespace assigns it, and
   only while it is empty.  So after the {namespace} tag, every {call .x} and
   every {template .y} of the file is qualified with THAT namespace. *)
From Coq Require Import Lia.
From Soy Require Import Model.Bytes Model.Values Model.Outcome Model.Ast Model.Token Generated.Tables Model.RawText
  Model.Parser Spec.CallNames Proofs.ScopeNames.
Open Scope N_scope.

Definition ns_mono (s s' : cst) : Prop := c_ns s = [] \/ c_ns s' = c_ns s.
Definition mono {A} (s : cst) (r : cres A) : Prop :=
  match r with COk _ s' => ns_mono s s' | _ => True end.

Lemma ns_mono_refl s : ns_mono s s. Proof. right. reflexivity. Qed.
Lemma ns_mono_trans a c d : ns_mono a c -> ns_mono c d -> ns_mono a d.
Proof. intros [H|H] [K|K]; unfold ns_mono; try (left; assumption); [left; congruence | right; congruence]. Qed.
Lemma same_names_mono s s' : same_names s s' -> ns_mono s s'.
Proof. intros [H _]. right. exact H. Qed.
Lemma keeps_mono {A} s (r : cres A) : keeps s r -> mono s r.
Proof. destruct r; cbn; auto. apply same_names_mono. Qed.

Lemma mono_shift {A} s s1 (r : cres A) : ns_mono s s1 -> mono s1 r -> mono s r.
Proof. intros H. destruct r; cbn; auto. apply ns_mono_trans, H. Qed.
Lemma mono_bind {A B} s (x : cres A) (f : A -> cst -> cres B) :
  mono s x -> (forall a s1, mono s1 (f a s1)) -> mono s (cbind x f).
Proof. destruct x as [a s1| | |]; cbn [cbind mono]; auto. intros H K. exact (mono_shift s s1 _ H (K a s1)). Qed.

Section Mono.
Variable inlen : N.
Variable lexq : bstr -> list tok.
Variable unq : bstr -> option bstr.
Variable pexpr : nat -> N -> pst -> presult node.
Variable efuel : list tok -> nat.

Notation kp := (fun H => keeps_mono _ _ H).

Lemma mono_next s : mono s (c_next s). Proof. apply keeps_mono, keeps_next. Qed.
Lemma mono_peek s : mono s (c_peek s). Proof. apply keeps_mono, keeps_peek. Qed.
Lemma mono_expect ty c s : mono s (c_expect inlen ty c s). Proof. apply keeps_mono, keeps_expect. Qed.
Lemma mono_tail1 v s : mono s (tail1 v s). Proof. apply keeps_mono, keeps_tail1. Qed.
Lemma mono_unexp {A} t c s : mono s (@c_unexp inlen A t c s). Proof. apply keeps_mono, keeps_unexp. Qed.
Lemma mono_errorf {A} c s : mono s (@c_errorf inlen A c s). Proof. apply keeps_mono, keeps_errorf. Qed.
Lemma mono_attrs f al acc s : mono s (attrs_loop inlen unq f al acc s). Proof. apply keeps_mono, keeps_attrs. Qed.
Lemma mono_ok {A} (a : A) s s' : c_ns s' = c_ns s -> mono s (COk a s').
Proof. intros H. right. exact H. Qed.

Lemma mono_lift_expr f prec s : mono s (lift_expr inlen pexpr f prec s).
Proof. unfold lift_expr. destruct (pexpr f prec (c_p s)); try exact I; [apply mono_ok; reflexivity|]. destruct (_ <=? _); exact I. Qed.
Lemma mono_quoted str s : mono s (parse_quoted_expr inlen lexq pexpr efuel str s).
Proof.
  unfold parse_quoted_expr. destruct (3 <=? _)%nat; [exact I|].
  destruct (pexpr _ _ _); try exact I; [apply mono_ok; reflexivity|]. destruct (_ <=? _); exact I.
Qed.
Lemma mono_autoescape attrs s : mono s (parse_autoescape inlen attrs s).
Proof. unfold parse_autoescape. destruct (assoc_s _ _); [apply mono_ok; reflexivity | apply mono_errorf]. Qed.
Lemma mono_bool_attr attrs k d s : mono s (bool_attr inlen attrs k d s).
Proof.
  unfold bool_attr. destruct (attr k attrs); [|apply mono_ok; reflexivity].
  destruct (bstr_eqb _ _); [apply mono_ok; reflexivity|]. destruct (bstr_eqb _ _); [apply mono_ok; reflexivity | apply mono_errorf].
Qed.

Ltac mb := apply mono_bind; [ | intros ? ? ].
Ltac fin := first [ apply mono_ok; reflexivity | apply mono_unexp | apply mono_errorf | exact I ].

Lemma mono_next_non_comment f : forall s, mono s (next_non_comment f s).
Proof. induction f as [|f IH]; intros s; [exact I|]. cbn [next_non_comment]. mb; [apply mono_next|]. destruct (tis _ _); [apply IH | fin]. Qed.
Lemma mono_skip_comments f : forall t s, mono s (skip_comments f t s).
Proof. induction f as [|f IH]; intros t s; [exact I|]. cbn [skip_comments]. destruct (tis _ _); [|fin]. mb; [apply mono_next | apply IH]. Qed.
Lemma mono_text_run f : forall txt s, mono s (text_run f txt s).
Proof. induction f as [|f IH]; intros txt s; [exact I|]. cbn [text_run]. mb; [apply mono_next|]. destruct (tis _ _); [apply IH | fin]. Qed.
Lemma mono_soydoc f : forall pos ps s, mono s (soydoc_loop inlen f pos ps s).
Proof.
  induction f as [|f IH]; intros pos ps s; [exact I|]. cbn [soydoc_loop]. mb; [apply mono_next|].
  destruct (tis _ _); [apply IH|]. destruct (_ || _); [mb; [apply mono_expect | apply IH]|].
  destruct (tis _ _); fin.
Qed.
Lemma mono_alias f s : mono s (parse_alias inlen f s).
Proof.
  destruct (parse_alias inlen f s) as [[] s'| | |] eqn:E; try exact I.
  destruct (parse_alias_binds inlen f s s' E) as (first & segs & Hn & _). right. exact Hn.
Qed.
Lemma mono_dotted f : forall name s, mono s (dotted_name f name s).
Proof. induction f as [|f IH]; intros name s; [exact I|]. cbn [dotted_name]. mb; [apply mono_next|]. destruct (tis _ _); [apply IH | fin]. Qed.

(* the one assignment: only while the namespace is empty *)
Lemma mono_namespace f token s : mono s (parse_namespace inlen unq f token s).
Proof.
  unfold parse_namespace. destruct (c_ns s) eqn:En; [|apply mono_errorf].
  destruct (cbind _ _) as [a s'| | |]; try exact I. left. exact En.
Qed.

(* {namespace a.b ...}: accepted only while no namespace is set; the node and tree.namespace get the same name *)
Theorem parse_namespace_sets f token s n s' :
  parse_namespace inlen unq f token s = COk n s' ->
  exists name ae, n = NNamespace (t_pos token) name ae /\ c_ns s' = name /\ c_ns s = [].
Proof.
  unfold parse_namespace. destruct (c_ns s) eqn:En; [|intros H; exfalso; exact (errorf_not_ok _ _ _ _ _ H)].
  intros H. apply cbind_ok in H. destruct H as (id & s1 & _ & H).
  apply cbind_ok in H. destruct H as (name & s2 & _ & H).
  apply cbind_ok in H. destruct H as (attrs & s3 & _ & H).
  apply cbind_ok in H. destruct H as (ae & s4 & _ & H).
  apply cbind_ok in H. destruct H as (? & s5 & _ & H).
  injection H as <- <-. exists name, ae. repeat split; reflexivity.
Qed.

(* ---- the procedures over parseExpr and itemList ---- *)
Section Level.
Variable pe : N -> cst -> cres node.
Variable w : list N -> cst -> cres node.
Variable lf : nat.
Hypothesis Hpe : forall prec s, mono s (pe prec s).
Hypothesis Hw : forall u s, mono s (w u s).

Lemma mono_directive_args f : forall args s, mono s (directive_args pe f args s).
Proof.
  induction f as [|f IH]; intros args s; [exact I|]. cbn [directive_args]. mb; [apply mono_next|].
  destruct (_ || _); [|fin]. mb; [apply Hpe | apply IH].
Qed.
Lemma mono_print_loop f : forall pos e ds s, mono s (cmd_print_loop inlen pe lf f pos e ds s).
Proof.
  induction f as [|f IH]; intros pos e ds s; [exact I|]. cbn [cmd_print_loop]. mb; [apply mono_next|].
  destruct (tis _ _); [fin|]. destruct (tis _ _); [|fin].
  mb; [apply mono_expect|]. mb; [apply mono_directive_args | apply IH].
Qed.
Lemma mono_print token s : mono s (cmd_print inlen pe lf token s).
Proof. unfold cmd_print. mb; [apply Hpe | apply mono_print_loop]. Qed.

Lemma mono_let token s : mono s (parse_let inlen unq pe w lf token s).
Proof.
  unfold parse_let. mb; [apply mono_expect|]. mb; [apply mono_peek|]. destruct (tis _ _).
  - mb; [apply mono_next|]. mb; [apply Hpe|]. mb; [apply mono_tail1|]. mb; [apply mono_expect | fin].
  - mb; [apply mono_attrs|]. mb; [apply mono_next|]. destruct (tis _ _); [|fin].
    mb; [apply Hw|]. mb; [apply mono_tail1|]. mb; [apply mono_expect | fin].
Qed.

Lemma mono_css token s : mono s (parse_css inlen lexq pexpr efuel token s).
Proof.
  unfold parse_css. mb; [apply mono_expect|]. mb; [apply mono_expect|].
  destruct (last_index_of _ _); [|fin]. mb; [apply mono_quoted | fin].
Qed.

Lemma mono_orphan f : forall t s, mono s (orphan_text inlen lf f t s).
Proof.
  induction f as [|f IH]; intros t s; [exact I|]. cbn [orphan_text]. destruct (tis _ _); [|fin].
  destruct (rawtext_run _ _ _) as [[|? ?]| | | | |]; try exact I; [|fin].
  mb; [apply mono_next_non_comment | apply IH].
Qed.

Lemma mono_param_attr rec ps initial key0 s :
  (forall ps' s', mono s' (rec ps' s')) ->
  mono s (param_attr_form inlen lexq unq pexpr efuel w lf rec ps initial key0 s).
Proof.
  intros Hrec. unfold param_attr_form. mb; [apply mono_attrs|].
  mb; [destruct key0; [destruct (attr _ _); fin | fin]|].
  destruct (attr k_value _).
  - mb; [apply mono_quoted|]. mb; [apply mono_expect | apply Hrec].
  - mb; [apply mono_expect|]. mb; [apply Hw|]. mb; [apply mono_expect | apply Hrec].
Qed.

Lemma mono_call_params f : forall ps s, mono s (call_params_loop inlen lexq unq pexpr efuel pe w lf f ps s).
Proof.
  induction f as [|f IH]; intros ps s; [exact I|]. cbn [call_params_loop].
  mb; [apply mono_next_non_comment|]. mb; [apply mono_orphan|].
  destruct (negb _); [fin|]. mb; [apply mono_next|]. destruct (tis _ _); [fin|]. destruct (negb _); [fin|].
  mb; [apply mono_expect|]. mb; [apply mono_next|].
  destruct (tis _ _).
  { mb; [apply Hpe|]. mb; [apply mono_expect | apply IH]. }
  destruct (tis _ _).
  { mb; [apply Hw|]. mb; [apply mono_expect | apply IH]. }
  destruct (tis _ _).
  { eapply mono_shift; [|apply mono_param_attr; intros; apply IH]. right; reflexivity. }
  destruct (tis _ _); [|fin].
  eapply mono_shift; [|apply mono_param_attr; intros; apply IH]. right; reflexivity.
Qed.

Lemma mono_call token s : mono s (parse_call inlen lexq unq pexpr efuel pe w lf token s).
Proof.
  unfold parse_call. mb; [apply keeps_mono, keeps_call_name|]. mb; [apply mono_attrs|].
  destruct (match a with [] => _ | _ => _ end); [fin|].
  mb.
  { destruct (attr k_data _); [|fin]. destruct (bstr_eqb _ _); [fin|]. mb; [apply mono_quoted | fin]. }
  mb; [apply mono_next|]. destruct (tis _ _); [fin|]. destruct (tis _ _); [|fin].
  mb; [apply mono_call_params|]. mb; [apply mono_expect|]. mb; [apply mono_expect|]. mb; [apply mono_expect | fin].
Qed.

Lemma mono_case f : forall token vs s, mono s (case_loop inlen pe w f token vs s).
Proof.
  induction f as [|f IH]; intros token vs s; [exact I|]. cbn [case_loop].
  mb; [destruct (tis _ _); [fin | mb; [apply Hpe | fin]]|].
  mb; [apply mono_next|]. destruct (tis _ _); [apply IH|]. destruct (tis _ _); [|fin].
  mb; [apply Hw | fin].
Qed.
Lemma mono_switch_loop f : forall pos endt v cs s, mono s (switch_loop inlen pe w lf f pos endt v cs s).
Proof.
  induction f as [|f IH]; intros pos endt v cs s; [exact I|]. cbn [switch_loop].
  mb; [apply mono_next|]. destruct (tis _ _); [apply IH|].
  destruct (tis _ _); [destruct (all_space _); [apply IH | fin]|].
  destruct (_ || _); [destruct (last_is_default _); [fin | mb; [apply mono_case | apply IH]]|].
  destruct (tis _ _); [mb; [apply mono_expect | fin]|].
  destruct (tis _ _); [apply IH | fin].
Qed.
Lemma mono_switch token endt s : mono s (parse_switch inlen pe w lf token endt s).
Proof. unfold parse_switch. mb; [apply Hpe|]. mb; [apply mono_expect | apply mono_switch_loop]. Qed.

Lemma mono_plural_cases cs : forall cases d s, mono s (plural_cases inlen cs cases d s).
Proof.
  induction cs as [|c cs IH]; intros cases d s; cbn [plural_cases]; [fin|].
  destruct c; try apply IH. destruct values as [|v0 vr]; [apply IH|].
  destruct v0; try fin. destruct vr; [apply IH | fin].
Qed.
Lemma mono_plural tok s : mono s (parse_plural inlen pe w lf tok s).
Proof.
  unfold parse_plural. destruct (negb _); [fin|]. mb; [apply mono_switch|].
  destruct a; try exact I. mb; [apply mono_plural_cases|]. destruct (snd _); fin.
Qed.

Lemma mono_for token s : mono s (parse_for inlen pe w token s).
Proof.
  unfold parse_for. mb; [apply mono_expect|]. mb; [apply mono_expect|]. destruct (negb _); [fin|].
  mb; [apply Hpe|]. mb; [apply mono_expect|]. mb; [apply Hw|].
  mb; [eapply mono_shift; [|apply mono_next]; right; reflexivity|].
  mb; [destruct (tis _ _); [mb; [apply mono_expect|]; mb; [apply Hw | fin] | fin]|].
  mb; [apply mono_expect|]. mb; [apply mono_tail1 | fin].
Qed.

Lemma mono_if f : forall pos cs e s, mono s (if_loop inlen pe w f pos cs e s).
Proof.
  induction f as [|f IH]; intros pos cs e s; [exact I|]. cbn [if_loop].
  mb; [destruct e; [fin | mb; [apply Hpe | fin]]|].
  mb; [apply mono_expect|]. mb; [apply Hw|].
  mb; [eapply mono_shift; [|apply mono_next]; right; reflexivity|].
  destruct (tis _ _); [apply IH|]. destruct (tis _ _); [apply IH|].
  destruct (tis _ _); [mb; [apply mono_expect | fin] | apply IH].
Qed.

Lemma mono_msg token s : mono s (parse_msg inlen unq w lf token s).
Proof.
  unfold parse_msg. mb; [apply mono_attrs|]. destruct (attr k_desc _); [|fin].
  mb; [apply mono_expect|].
  mb; [eapply mono_shift; [|apply Hw]; right; reflexivity|].
  destruct (_ && _).
  - eapply mono_shift; [|apply mono_errorf]. right; reflexivity.
  - mb; [eapply mono_shift; [|apply mono_expect]; right; reflexivity | fin].
Qed.

Lemma mono_template token s : mono s (parse_template inlen unq w lf token s).
Proof.
  unfold parse_template. mb; [apply mono_expect|]. mb; [apply mono_attrs|]. mb; [apply mono_autoescape|].
  mb; [apply mono_bool_attr|]. mb; [apply mono_expect|]. mb; [apply Hw|]. mb; [apply mono_expect | fin].
Qed.

Lemma mono_header_param token s : mono s (parse_header_param inlen pe token s).
Proof.
  unfold parse_header_param. mb; [apply mono_expect|]. mb; [apply mono_expect|]. mb; [apply mono_expect|].
  mb; [apply mono_next|]. mb; [destruct (tis _ _); [mb; [apply Hpe | fin] | fin]|].
  mb; [apply mono_expect | fin].
Qed.

Lemma mono_some s (r : cres node) : mono s r -> mono s (cbind r (fun n s' => COk (Some n) s')).
Proof. intros H. apply mono_bind; [exact H|]. intros; fin. Qed.

Lemma mono_begin_tag s : mono s (begin_tag inlen lexq unq pexpr efuel pe w lf s).
Proof.
  unfold begin_tag. mb; [apply mono_next|]. rename a into token.
  destruct (tis token pit_Namespace); [apply mono_some, mono_namespace|].
  destruct (tis token pit_Template); [apply mono_some, mono_template|].
  destruct (_ || _); [apply mono_some, mono_header_param|].
  destruct (tis token pit_If); [unfold notmsg; destruct (c_inmsg _); [fin | apply mono_some, mono_if]|].
  destruct (tis token pit_Msg); [unfold notmsg; destruct (c_inmsg _); [fin | apply mono_some, mono_msg]|].
  destruct (tis token pit_Plural); [apply mono_some, mono_plural|].
  destruct (_ || _); [unfold notmsg; destruct (c_inmsg _); [fin | apply mono_some, mono_for]|].
  destruct (tis token pit_Switch); [unfold notmsg; destruct (c_inmsg _); [fin | apply mono_some, mono_switch]|].
  destruct (tis token pit_Call); [apply mono_some, mono_call|].
  destruct (tis token pit_Literal).
  { mb; [apply mono_expect|]. mb; [apply mono_expect|]. mb; [apply mono_expect|]. mb; [apply mono_expect|]. mb; [apply mono_expect | fin]. }
  destruct (tis token pit_Css); [apply mono_some, mono_css|].
  destruct (tis token pit_Log).
  { mb; [apply mono_expect|]. mb; [apply Hw|]. mb; [apply mono_expect | fin]. }
  destruct (tis token pit_Debugger); [mb; [apply mono_expect | fin]|].
  destruct (tis token pit_Let); [apply mono_some, mono_let|].
  destruct (tis token pit_Alias); [mb; [apply mono_alias | fin]|].
  destruct (assoc _ _); [mb; [apply mono_expect | fin]|].
  destruct (one_of _ _).
  { apply mono_some. eapply mono_shift; [|apply mono_print]. right; reflexivity. }
  destruct (tis token pit_Print); [apply mono_some, mono_print | fin].
Qed.

Lemma mono_text_or_tag t0 until s : mono s (text_or_tag inlen lexq unq pexpr efuel pe w lf t0 until s).
Proof.
  unfold text_or_tag. mb; [apply mono_skip_comments|]. destruct (one_of _ _); [fin|].
  mb; [apply mono_next|]. destruct (_ && _); [fin|].
  match goal with |- mono ?s0 _ => apply (mono_shift s0 (c_backup s0)); [right; reflexivity|] end.
  destruct (tis _ _).
  { mb; [apply mono_text_run|]. destruct (rawtext_run _ _ _) as [[|? ?]| | | | |]; try exact I; fin. }
  destruct (tis _ _); [mb; [apply mono_begin_tag | fin]|].
  destruct (tis _ _); [mb; [apply mono_soydoc | fin] | fin].
Qed.

Lemma mono_item_list_loop f : forall unt pos acc s,
  mono s (item_list_loop inlen lexq unq pexpr efuel pe w lf f unt pos acc s).
Proof.
  induction f as [|f IH]; intros unt pos acc s; [exact I|]. cbn [item_list_loop].
  mb; [apply mono_next|]. mb; [apply mono_text_or_tag|]. destruct (snd _); [fin | apply IH].
Qed.
End Level.

Theorem item_list_ns_once fuel : forall unt s, mono s (item_list inlen lexq unq pexpr efuel fuel unt s).
Proof.
  induction fuel as [|f IH]; intros unt s; [exact I|]. cbn [item_list].
  apply mono_item_list_loop; [intros; apply mono_lift_expr | intros; apply IH].
Qed.

(* with that: a {template .x} whose START tag is read under the non-empty namespace ns is named ns.x,
   whatever its body contains *)
Theorem template_named_by_file_namespace fuel token s n s' :
  c_ns s <> [] ->
  parse_template inlen unq (item_list inlen lexq unq pexpr efuel fuel) fuel token s = COk n s' ->
  exists id body ae priv, n = NTemplate (t_pos token) (declared_name (c_ns s) (t_val id)) body ae priv /\ c_ns s' = c_ns s.
Proof.
  intros Hne H.
  pose proof (mono_template (item_list inlen lexq unq pexpr efuel fuel) fuel (item_list_ns_once fuel) token s) as Hm.
  rewrite H in Hm. destruct Hm as [Hm|Hm]; [contradiction|].
  destruct (parse_template_name inlen unq _ _ _ _ _ _ H) as (id & body & ae & priv & ->).
  exists id, body, ae, priv. rewrite Hm. split; reflexivity.
Qed.
End Mono.
