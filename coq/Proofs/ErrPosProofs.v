(* C19, render half: where the tree walker's error position points.

   Models: Model/Interp.v ([cur] = s.node of the entry state, [render]'s rr_file /
   rr_line = errRecover -> errFromNode -> Registry.Filename / LineNumber).
   Spec: Spec/ErrPos.v.  Tools: Proofs/InterpLogic.v (frame invariant through
   [inv_walk]) and Proofs/WalkRel.v (relational, node-indexed principle). *)
From Soy Require Import Model.Bytes Model.Num Model.Values Model.Outcome Model.Ast
  Model.Escape Model.Directives Model.Print Generated.Tables Model.Interp Spec.ErrPos Proofs.InterpLogic Proofs.WalkRel.
Require Import Lia.
Open Scope N_scope.

Lemma in_flat_poss c l p : In c l -> In p (poss c) -> In p (flat_map poss l).
Proof. intros H1 H2. apply in_flat_map. exists c. split; assumption. Qed.
Lemma in_opt_poss c (o : option node) p :
  In c (opt_list o) -> In p (poss c) -> In p (match o with Some x => poss x | None => [] end).
Proof. destruct o; cbn; [intros [<-|[]] H; exact H | intros []]. Qed.

Lemma poss_self n : In (pos_of n) (poss n).
Proof. destruct n; left; reflexivity. Qed.

Ltac inlist H :=
  repeat match type of H with
         | In _ (_ ++ _) => apply in_app_iff in H
         | In _ (_ :: _) => destruct H as [H|H]
         | In _ [] => destruct H
         | In _ (opt_list ?o) => destruct o; cbn [opt_list] in H
         | _ \/ _ => destruct H as [H|H]
         | False => destruct H
         | _ = _ => subst
         end.

Lemma in_maplit_poss c (items : list (bstr * node)) p :
  In c (map snd items) -> In p (poss c) -> In p (flat_map (fun kv => let '(_, e) := kv in poss e) items).
Proof.
  intros H1 H2. apply in_map_iff in H1. destruct H1 as ([k e] & <- & Hin).
  apply in_flat_map. exists (k, e). split; [exact Hin | exact H2].
Qed.

Lemma poss_child n c p : In c (children n) -> In p (poss c) -> In p (poss n).
Proof.
  intros Hc Hp. destruct n; cbn [children] in Hc; try (destruct Hc; fail); cbn [poss]; right;
    repeat rewrite in_app_iff; inlist Hc;
    eauto 7 using in_flat_poss, in_maplit_poss.
Qed.

(* ------------------------------------------------------------------ *)
(* (A) the frame: a walk returns at the call depth it started at, and does not
   touch the position register unless it runs in the entry template (depth 0) *)
Definition frameR (a b : mstate) : Prop :=
  depth_ b = depth_ a /\ (depth_ a <> 0%nat -> cur b = cur a).

Lemma frameR_refl a : frameR a a.
Proof. split; auto. Qed.
Lemma frameR_trans a b c : frameR a b -> frameR b c -> frameR a c.
Proof. intros [H1 H2] [H3 H4]. split; [congruence|]. intros H. rewrite H4, H2; auto. congruence. Qed.
Lemma frameR_neutral {A} (m : M A) st r st' : neutral m -> m st = (r, st') -> frameR st st'.
Proof. intros Hn H. destruct (Hn _ _ _ H) as [H1 H2]. split; auto. Qed.
Lemma cur_set_cur st p : cur (set_cur st p) = if Nat.eqb (depth_ st) 0 then p else cur st.
Proof. reflexivity. Qed.
Lemma depth_set_cur st p : depth_ (set_cur st p) = depth_ st.
Proof. reflexivity. Qed.
Lemma frameR_set_cur st p : frameR st (set_cur st p).
Proof.
  split; [reflexivity|]. intros H. rewrite cur_set_cur. destruct (Nat.eqb_spec (depth_ st) 0); [contradiction | reflexivity].
Qed.

Lemma frameR_same a b : depth_ b = depth_ a -> cur b = cur a -> frameR a b.
Proof. intros H1 H2. split; auto. Qed.

Lemma frame_conditions : inv_conditions (fun _ => True) frameR frameR (fun _ => True).
Proof.
  constructor.
  - intros; apply frameR_refl.
  - intros; eapply frameR_trans; eassumption.
  - intros; apply frameR_refl.
  - intros; eapply frameR_trans; eassumption.
  - intros; exact Logic.I.
  - intros; split; [exact Logic.I | apply frameR_set_cur].
  - intros; split; [exact Logic.I | apply frameR_same; reflexivity].
  - intros; split; [exact Logic.I | eapply frameR_neutral; [apply neutral_write | eassumption]].
  - intros; eapply frameR_neutral; [apply neutral_write | eassumption].
  - intros; split; [exact Logic.I | eapply frameR_neutral; [apply neutral_m_set | eassumption]].
  - intros; split; [exact Logic.I | apply frameR_same; reflexivity].
  - intros; split; [exact Logic.I | apply frameR_same; reflexivity].
  - intros; exact Logic.I.
  - intros st st2 _ _ [H1 H2]. split; [exact Logic.I | split; [exact H1 | exact H2]].
  - intros st st2 _ [H1 H2]. split; [exact H1 | exact H2].
  - intros; exact Logic.I.
  - intros st st2 buf rest _ _ [H1 H2] _. split; [exact Logic.I | split; [exact H1 | exact H2]].
  - intros st st2 _ _ [H1 H2] _. split; [exact H1 | exact H2].
  - intros st st2 _ [H1 H2]. split; [exact H1 | exact H2].
  - intros; exact Logic.I.
  - intros st callee cd st2 _ _ [H1 H2]. split; [exact Logic.I|].
    split; [reflexivity|]. intros Hd. change (cur (left st st2)) with (cur st2). rewrite H2; [reflexivity | cbn; discriminate].
  - intros st callee cd st2 _ [H1 H2].
    split; [reflexivity|]. intros Hd. change (cur (left st st2)) with (cur st2). rewrite H2; [reflexivity | cbn; discriminate].
Qed.

Theorem walk_frame cf fuel n st r st' : walk cf fuel n st = (r, st') -> frameR st st'.
Proof.
  intros H.
  pose proof (inv_walk _ _ _ _ frame_conditions cf pure_sites_any fuel n st r st' Logic.I H) as H1.
  destruct (classify r); destruct H1; assumption.
Qed.

(* while a callee runs the position register is frozen, and the depth is back afterwards *)
Lemma call_enter_frame cf fuel callee cd st r st' :
  call_enter (walk cf fuel) callee cd st = (r, st') -> depth_ st' = depth_ st /\ cur st' = cur st.
Proof.
  intros H. rewrite call_enter_eq in H. cbn zeta in H. inversion H; subst. split; [reflexivity|].
  change (cur (left st (snd (walk cf fuel (t_node callee) (entered st callee cd)))))
    with (cur (snd (walk cf fuel (t_node callee) (entered st callee cd)))).
  destruct (walk cf fuel (t_node callee) (entered st callee cd)) as [r1 s2] eqn:Hrun.
  destruct (walk_frame _ _ _ _ _ _ Hrun) as [_ Hc]. cbn [snd]. rewrite Hc; [reflexivity | cbn; discriminate].
Qed.

(* ------------------------------------------------------------------ *)
(* (B) containment: walking a node whose positions all satisfy S keeps the register in S *)
Section Contain.
Variable cf : cfg.
Variable S : N -> Prop.

Definition okn (n : node) : Prop := forall p, In p (poss n) -> S p.

Lemma okn_children n : okn n -> Forall okn (children n).
Proof. intros H. apply Forall_forall. intros c Hc p Hp. apply H. eapply poss_child; eauto. Qed.
Lemma okn_synth mp id me de body l : okn (NMsg mp id me de body) -> Forall okn l -> okn (NMsg mp 0 [] [] l).
Proof.
  intros H Hl p Hp. cbn [poss pos_of] in Hp. destruct Hp as [<-|Hp]; [apply H; left; reflexivity|].
  apply in_flat_map in Hp. destruct Hp as (c & Hc & Hp). rewrite Forall_forall in Hl. exact (Hl c Hc p Hp).
Qed.
Lemma okn_pos n : okn n -> S (pos_of n).
Proof. intros H. apply H. apply poss_self. Qed.

Definition K {A} (m : M A) : Prop :=
  forall st r st', m st = (r, st') -> depth_ st' = depth_ st /\ (S (cur st) -> S (cur st')).
Definition PhiK (A : Type) (m m' : M A) : Prop := K m.

Lemma K_logic : rel_logic PhiK okn.
Proof.
  constructor; unfold PhiK.
  - intros A m Hn st r st' H. destruct (Hn _ _ _ H) as [H1 H2]. split; [exact H1 | rewrite H2; auto].
  - intros A B m _ f _ Hm Hf st r st2 Hb.
    destruct (mbind_inv _ _ _ _ _ Hb) as [(x & st1 & H1 & H2) | (e & H1 & ->)].
    + destruct (Hm _ _ _ H1) as [Hd Hc]. destruct (Hf x _ _ _ H2) as [Hd2 Hc2]. split; [congruence | auto].
    + eapply Hm; eauto.
  - intros B f _ Hf st r st' H. change (mbind get f st) with (f st st) in H. eapply Hf; eauto.
  - intros n Hq st r st' H. inversion H; subst. split; [reflexivity|]. intros Hs.
    rewrite cur_set_cur. destruct (Nat.eqb (depth_ st) 0); [apply okn_pos; exact Hq | exact Hs].
  - intros w _ e Hw st r st' H. rewrite eval_eq in H.
    destruct (w e st) as [r1 st2] eqn:Hrun. cbn [fst snd] in H. destruct (Hw _ _ _ Hrun) as [Hd Hc].
    destruct (classify r1); inversion H; subst.
    + split; [exact Hd|]. intros Hs. rewrite cur_set_cur. destruct (Nat.eqb (depth_ st2) 0); auto.
    + split; auto.
Qed.

Theorem contain_walk fuel : forall n, okn n -> K (walk cf fuel n).
Proof.
  induction fuel as [|f IH]; intros n Hq.
  - rewrite walk_O. intros st r st' H. inversion H; subst. split; auto.
  - rewrite walk_S.
    apply (rel_walk_body cf PhiK okn K_logic okn_children okn_synth (walk cf f) (walk cf f)); [exact IH | | exact Hq].
    intros callee cd st r st' H. destruct (call_enter_frame _ _ _ _ _ _ _ H) as [H1 H2].
    split; [exact H1 | rewrite H2; auto].
Qed.
End Contain.

(* the position register after a walk in the entry template is the position of a node of the walked tree *)
Theorem walk_position_in_subtree cf fuel n st r st' :
  depth_ st = 0%nat -> walk cf (Datatypes.S fuel) n st = (r, st') -> In (cur st') (poss n).
Proof.
  intros Hd H. rewrite walk_S in H. unfold walk_body in H.
  change ((_ <-- modify (fun st => set_cur st (pos_of n)) ;;; walk_node cf (walk cf fuel) n) st)
    with (walk_node cf (walk cf fuel) n (set_cur st (pos_of n))) in H.
  assert (Hq : okn (fun p => In p (poss n)) n) by (intros p Hp; exact Hp).
  pose proof (rel_walk_node cf (PhiK (fun p => In p (poss n))) (okn (fun p => In p (poss n)))
                (K_logic _) (okn_children _) (okn_synth _) (walk cf fuel) (walk cf fuel)) as Hn.
  specialize (Hn (fun c Hc => contain_walk cf _ fuel c Hc)).
  assert (Hcall : forall callee cd, PhiK (fun p => In p (poss n)) value (call_enter (walk cf fuel) callee cd) (call_enter (walk cf fuel) callee cd)).
  { intros callee cd s0 r0 s1 H0. destruct (call_enter_frame _ _ _ _ _ _ _ H0) as [H1 H2]. split; [exact H1 | rewrite H2; auto]. }
  specialize (Hn Hcall n Hq _ _ _ H). destruct Hn as [_ Hn]. apply Hn.
  rewrite cur_set_cur, Hd. cbn. apply poss_self.
Qed.

(* ------------------------------------------------------------------ *)
(* positions and syntactic occurrence *)
Lemma poss_inv n p : In p (poss n) -> p = pos_of n \/ exists c, In c (children n) /\ In p (poss c).
Proof.
  intros H. destruct n; cbn [poss pos_of] in H; destruct H as [H|H]; auto; right; cbn [children];
    repeat (apply in_app_iff in H; destruct H as [H|H]);
    try (destruct H; fail);
    try (apply in_flat_map in H; destruct H as (c & Hc & Hp));
    try (match type of H with In _ (match ?o with _ => _ end) => destruct o; [|destruct H] end);
    try (eexists; split; [|eassumption]; try (apply in_or_app); cbn [In opt_list]; auto 6 using in_or_app, in_eq, in_cons; fail).
  - (* NMapLit *) destruct c as [k e]. exists e. split; [|exact Hp]. apply in_map_iff. exists (k, e). auto.
Qed.

Lemma length_flat_member {A B} (f : A -> list B) c l : In c l -> (length (f c) <= length (flat_map f l))%nat.
Proof.
  induction l as [|x r IH]; [intros []|]. intros [->|H]; cbn [flat_map]; rewrite app_length; [lia|].
  specialize (IH H). lia.
Qed.

Lemma poss_child_shorter n c : In c (children n) -> (length (poss c) < length (poss n))%nat.
Proof.
  intros Hc. destruct n; cbn [children] in Hc; try (destruct Hc; fail); cbn [poss length];
    repeat rewrite app_length; inlist Hc;
    try (match goal with H : In c ?l |- _ => pose proof (length_flat_member poss c l H) end); try lia.
  (* NMapLit *)
  apply in_map_iff in Hc. destruct Hc as ([k e] & <- & Hin).
  pose proof (length_flat_member (fun kv : bstr * node => let '(_, e) := kv in poss e) (k, e) items Hin) as Hl.
  cbn [snd]. lia.
Qed.

(* every position of [poss n] is the position of a node that occurs in n *)
Theorem poss_subnode n p : In p (poss n) -> exists m, subnode m n /\ pos_of m = p.
Proof.
  remember (length (poss n)) as k eqn:Hk. revert n Hk p.
  induction k as [k IH] using lt_wf_ind. intros n Hk p Hp.
  destruct (poss_inv _ _ Hp) as [-> | (c & Hc & Hpc)].
  - exists n. split; [apply sub_refl | reflexivity].
  - pose proof (poss_child_shorter _ _ Hc) as Hlt.
    destruct (IH (length (poss c)) ltac:(lia) c eq_refl p Hpc) as (m & Hm & Hpm).
    exists m. split; [eapply sub_child; eauto | exact Hpm].
Qed.

Lemma subnode_poss m n : subnode m n -> In (pos_of m) (poss n).
Proof.
  induction 1 as [n | m c n _ IH Hc]; [apply poss_self | eapply poss_child; eauto].
Qed.

(* ------------------------------------------------------------------ *)
(* lines *)
Lemma count_nl_take k s : count_nl (take k s) <= count_nl s.
Proof.
  revert s. induction k as [|k IH]; intros s; cbn [take]; [cbn; lia|].
  destruct s as [|c r]; [cbn; lia|]. cbn [count_nl]. specialize (IH r). lia.
Qed.

Lemma line_at_bounds src p : 1 <= line_at src p <= lines src.
Proof. unfold line_at, lines. pose proof (count_nl_take (N.to_nat p) src). lia. Qed.

Lemma line_number_inside src p : p <= N.of_nat (length src) -> line_number src p = Some (line_at src p).
Proof. intros H. unfold line_number. apply N.leb_le in H. rewrite H. reflexivity. Qed.

Lemma positions_in_sourceb_ok src n : positions_in_sourceb src n = true -> positions_in_source src n.
Proof.
  unfold positions_in_sourceb, positions_in_source. intros H. apply Forall_forall. intros p Hp.
  rewrite forallb_forall in H. apply N.leb_le. apply H. exact Hp.
Qed.

(* ------------------------------------------------------------------ *)
(* render *)
Section Render.
Variables (cf : cfg) (fuel : nat) (name : bstr) (did : N) (dat : list (bstr * value))
          (cl : option nat) (bl : option N) (fid : N).
Let res := render cf fuel name did dat cl bl fid.

(* the entry template, and what Registry.Add recorded under its name *)
Variables (t : template) (src file : bstr).
Hypothesis Hfind : find_template (r_templates (c_reg cf)) name = Some t.
Hypothesis Hsrc : assoc_s name (r_sources (c_reg cf)) = Some src.
Hypothesis Hfile : assoc_s name (r_files (c_reg cf)) = Some file.

Let st0 := init_state (sc_enter (new_scope did dat)) (entry_mode (t_ns_autoescape t)) name cl bl fid.

Lemma render_unfold :
  res = let '(r, st) := walk cf fuel (t_node t) st0 in
        let mk o f l := {| rr_outcome := o; rr_writes := rev (out st); rr_file := f; rr_line := l;
                           rr_unbound := unbound st; rr_shared_writes := shared_writes st |} in
        match r with
        | Ok _ => mk (Ok tt) [] 0
        | Err m => match line_number src (cur st) with
                   | Some l => mk (Err m) file l
                   | None => mk (Crash e_index) [] 0
                   end
        | Crash m => mk (Crash m) [] 0
        | Diverge => mk Diverge [] 0
        | OutOfFuel => mk OutOfFuel [] 0
        | OutOfModel => mk OutOfModel [] 0
        end.
Proof.
  unfold res, render. rewrite Hfind. fold st0. destruct (walk cf fuel (t_node t) st0) as [r st].
  rewrite Hsrc, Hfile. reflexivity.
Qed.

(* the file is the one recorded for the entry template, whatever the call depth of the failure *)
Theorem render_error_file_lemma m : rr_outcome res = Err m -> rr_file res = file.
Proof.
  rewrite render_unfold. destruct (walk cf fuel (t_node t) st0) as [r st].
  destruct r; cbn; try discriminate.
  destruct (line_number src (cur st)); cbn; [reflexivity | discriminate].
Qed.

Hypothesis Hpos : positions_in_source src (t_node t).

(* the walk's error, if any, is what render reports, with the line of a node of the entry template *)
Theorem render_error_in_entry_template_lemma :
  (forall m, fst (walk cf fuel (t_node t) st0) = Err m ->
     rr_outcome res = Err m /\ rr_file res = file /\
     exists n, subnode n (t_node t) /\ cur (snd (walk cf fuel (t_node t) st0)) = pos_of n /\
               rr_line res = line_at src (pos_of n) /\ 1 <= rr_line res <= lines src)
  /\ (forall m, rr_outcome res = Err m -> fst (walk cf fuel (t_node t) st0) = Err m)
  /\ (forall c, rr_outcome res = Crash c -> fst (walk cf fuel (t_node t) st0) = Crash c).
Proof.
  rewrite render_unfold. destruct (walk cf fuel (t_node t) st0) as [r st] eqn:Hrun. cbn [fst snd].
  assert (Hin : forall m, r = Err m -> In (cur st) (poss (t_node t))).
  { intros m ->. destruct fuel as [|f]; [rewrite walk_O in Hrun; inversion Hrun|].
    eapply walk_position_in_subtree; [|exact Hrun]. reflexivity. }
  split; [|split].
  - intros m ->. pose proof (Hin m eq_refl) as Hp.
    assert (Hle : cur st <= N.of_nat (length src)).
    { unfold positions_in_source in Hpos. rewrite Forall_forall in Hpos. apply Hpos. exact Hp. }
    rewrite (line_number_inside _ _ Hle). cbn. split; [reflexivity|]. split; [reflexivity|].
    destruct (poss_subnode _ _ Hp) as (n & Hn & Hpn). exists n. rewrite Hpn.
    split; [exact Hn|]. split; [reflexivity|]. split; [reflexivity | apply line_at_bounds].
  - intros m. destruct r; cbn; try discriminate.
    destruct (line_number src (cur st)); cbn; [intros H; inversion H; reflexivity | discriminate].
  - intros c. destruct r; cbn; try discriminate.
    + pose proof (Hin m eq_refl) as Hp.
      assert (Hle : cur st <= N.of_nat (length src)).
      { unfold positions_in_source in Hpos. rewrite Forall_forall in Hpos. apply Hpos. exact Hp. }
      rewrite (line_number_inside _ _ Hle). cbn. discriminate.
    + intros H; inversion H; reflexivity.
Qed.
End Render.
