(* C17 at command level, {msg}: parseMsg of Model/Parser.v (attributes, the body read with
   tree.inmsg set, placeholderize), and the inverse of placeholderize on well-formed children:
   [unplz] rebuilds the list itemList returned -- every run of text / html-tag children is one
   raw text, every placeholder is its command. *)
From Soy Require Import Model.Bytes Model.Outcome Model.Ast Model.Token Model.RawText Model.ExprParser Model.Parser Generated.Tables
  Model.AstPrint Model.AstPrintCmd
  Spec.ExprSyntax Spec.CmdSyntax Proofs.ExprParserRules Proofs.CmdRoundtripBase Proofs.CmdRoundtripRules Proofs.CmdRoundtripCall.
From Coq Require Import Lia.
Open Scope N_scope.

(* ---- the inverse of placeholderize ---- *)
Definition is_textlike (x : node) : bool :=
  match x with
  | NRawText _ _ => true
  | NMsgPlaceholder _ _ (NMsgHtmlTag _ _) => true
  | _ => false
  end.
Definition unwrap (x : node) : node := match x with NMsgPlaceholder _ _ c => c | _ => x end.
Definition run_node (run : list node) : list node :=
  match run with [] => [] | _ :: _ => [NRawText (run_pos run) (run_text run)] end.
Fixpoint unplz (run : list node) (l : list node) : list node :=
  match l with
  | [] => run_node run
  | x :: r => if is_textlike x then unplz (run ++ [x]) r else run_node run ++ unwrap x :: unplz [] r
  end.

(* the local functions of Spec/CmdSyntax.v, at top level *)
Fixpoint msg_toks (run : list node) (l : list node) : list tok :=
  match l with
  | [] => run_tok run
  | x :: r =>
      match x with
      | NRawText _ _ => msg_toks (run ++ [x]) r
      | NMsgPlaceholder _ _ (NMsgHtmlTag _ _) => msg_toks (run ++ [x]) r
      | NMsgPlaceholder _ _ c => run_tok run ++ cmd_toks c ++ msg_toks [] r
      | _ => run_tok run ++ msg_toks [] r
      end
  end.
Lemma cmd_toks_msg p id meaning desc children :
  cmd_toks (NMsg p id meaning desc children) =
  [T_ldelim; kw pit_Msg p] ++
  (match meaning with [] => [] | _ => attr_toks v_meaning (quoted_attr meaning) end) ++
  attr_toks v_desc (quoted_attr desc) ++ [T_rdelim] ++ msg_toks [] children ++ close_tag pit_MsgEnd.
Proof. reflexivity. Qed.

Section WfMsg.
Variable lexq : bstr -> list tok.
Variable nameok : bstr -> Prop.
Notation wf_cmd := (wf_cmd lexq nameok).

Fixpoint wf_children (run : list node) (l : list node) : Prop :=
  match l with
  | [] => run_ok run
  | x :: r =>
      match x with
      | NRawText _ _ => wf_children (run ++ [x]) r
      | NMsgPlaceholder _ _ (NMsgHtmlTag _ _) => wf_children (run ++ [x]) r
      | NMsgPlaceholder q nm c =>
          run_ok run /\ nm = [] /\ q = pos_of c /\ is_rawtext c = false /\ wf_cmd true c /\ wf_children [] r
      | _ => False
      end
  end.
Lemma wf_cmd_msg m p id meaning desc children : wf_cmd m (NMsg p id meaning desc children) <->
  m = false /\ id = 0 /\ go_quote meaning <> None /\ go_quote desc <> None /\ wf_children [] children.
Proof. reflexivity. Qed.

(* one step of the children, by cases *)
Lemma wf_children_cons run x r : wf_children run (x :: r) ->
  (is_textlike x = true /\ wf_children (run ++ [x]) r) \/
  (is_textlike x = false /\ exists q c, x = NMsgPlaceholder q [] c /\ run_ok run /\ q = pos_of c /\ is_rawtext c = false /\
                                       wf_cmd true c /\ wf_children [] r).
Proof.
  destruct x; try (intros H; exfalso; exact H).
  - intros H. left. split; [reflexivity | exact H].
  - destruct x; try (intros (H1 & -> & H2 & H3 & H4 & H5); right; split; [reflexivity|]; do 2 eexists; split; [reflexivity|]; auto).
    intros H. left. split; [reflexivity | exact H].
Qed.

Lemma msg_toks_cons_text run x r : is_textlike x = true -> msg_toks run (x :: r) = msg_toks (run ++ [x]) r.
Proof. destruct x; try discriminate; [reflexivity|]. destruct x; try discriminate. reflexivity. Qed.

(* the items of the rebuilt list are the items of the children *)
Lemma unplz_toks : forall l run, wf_children run l -> List.concat (map cmd_toks (unplz run l)) = msg_toks run l.
Proof.
  induction l as [|x r IH]; intros run Hw.
  - cbn [unplz msg_toks]. destruct run; reflexivity.
  - destruct (wf_children_cons _ _ _ Hw) as [[Ht Hw']|(Ht & q & c & -> & Hrun & Hq & Hrt & Hwc & Hw')].
    + cbn [unplz]. rewrite Ht. rewrite msg_toks_cons_text by exact Ht. apply IH, Hw'.
    + cbn [unplz]. rewrite Ht. rewrite map_app, concat_app. cbn [map List.concat unwrap]. rewrite (IH [] Hw').
      assert (E : msg_toks run (NMsgPlaceholder q [] c :: r) = run_tok run ++ cmd_toks c ++ msg_toks [] r).
      { destruct c; try reflexivity. discriminate Ht. }
      rewrite E. f_equal. destruct run; [reflexivity|]. cbn [run_node map List.concat cmd_toks run_tok app]. reflexivity.
Qed.

Lemma plz_children_app l1 l2 : plz_children (l1 ++ l2) = plz_children l1 ++ plz_children l2.
Proof. induction l1 as [|x l1 IH]; [reflexivity|]. cbn [app plz_children]. rewrite IH, app_assoc. reflexivity. Qed.

Lemma plz_run run : run_ok run -> plz_children (run_node run) = run.
Proof.
  destruct run as [|f run]; [reflexivity|]. intros (_ & _ & H). cbn [run_node plz_children plz]. rewrite app_nil_r. exact H.
Qed.

(* a command that is well-formed inside a {msg} is wrapped into an unnamed placeholder *)
Lemma plz_cmd c : wf_cmd true c -> is_rawtext c = false -> plz c = [NMsgPlaceholder (pos_of c) [] c].
Proof. destruct c; try (intros H; exfalso; exact H); try reflexivity. intros _ H. discriminate H. Qed.

(* placeholderize gives the children back *)
Lemma plz_unplz : forall l run, wf_children run l -> plz_children (unplz run l) = run ++ l.
Proof.
  induction l as [|x r IH]; intros run Hw.
  - cbn [unplz]. rewrite app_nil_r. apply plz_run, Hw.
  - destruct (wf_children_cons _ _ _ Hw) as [[Ht Hw']|(Ht & q & c & -> & Hrun & Hq & Hrt & Hwc & Hw')].
    + cbn [unplz]. rewrite Ht. rewrite (IH _ Hw'), <- app_assoc. reflexivity.
    + cbn [unplz]. rewrite Ht. rewrite plz_children_app, (plz_run run Hrun). cbn [plz_children unwrap].
      rewrite (plz_cmd c Hwc Hrt), (IH [] Hw'), Hq. reflexivity.
Qed.

Lemma run_node_wf run : run_ok run -> allP (wf_cmd true) (run_node run).
Proof. destruct run as [|f run]; [intros; exact I|]. intros (H1 & H2 & _). cbn [run_node allP]. split; [|exact I]. split; assumption. Qed.

Lemma allP_app {A} (P : A -> Prop) l1 l2 : allP P l1 -> allP P l2 -> allP P (l1 ++ l2).
Proof. induction l1 as [|x l1 IH]; [auto|]. intros [H1 H2] H3. split; auto. Qed.

Lemma unplz_wf : forall l run, wf_children run l -> allP (wf_cmd true) (unplz run l).
Proof.
  induction l as [|x r IH]; intros run Hw.
  - apply run_node_wf, Hw.
  - destruct (wf_children_cons _ _ _ Hw) as [[Ht Hw']|(Ht & q & c & -> & Hrun & Hq & Hrt & Hwc & Hw')].
    + cbn [unplz]. rewrite Ht. apply IH, Hw'.
    + cbn [unplz]. rewrite Ht. apply allP_app; [apply run_node_wf, Hrun|]. split; [exact Hwc | apply IH, Hw'].
Qed.

(* no two raw texts meet: a rebuilt raw text is followed by a command or by nothing *)
Lemma unplz_no_adjacent : forall l run, wf_children run l -> no_adjacent_text (unplz run l).
Proof.
  induction l as [|x r IH]; intros run Hw.
  - cbn [unplz]. destruct run; cbn; auto.
  - destruct (wf_children_cons _ _ _ Hw) as [[Ht Hw']|(Ht & q & c & -> & Hrun & Hq & Hrt & Hwc & Hw')].
    + cbn [unplz]. rewrite Ht. apply IH, Hw'.
    + cbn [unplz]. rewrite Ht. cbn [unwrap]. specialize (IH [] Hw').
      assert (Hc : no_adjacent_text (c :: unplz [] r)).
      { cbn [no_adjacent_text]. split; [|exact IH]. destruct (unplz [] r); [exact I|]. rewrite Hrt. reflexivity. }
      destruct run; [exact Hc|]. cbn [run_node app no_adjacent_text]. split; [|exact Hc].
      rewrite Hrt. apply andb_false_r.
Qed.

(* the plural check of parseMsg passes: no child is a plural *)
Lemma wf_children_no_plural : forall l run, wf_children run l -> existsb is_plural l = false.
Proof.
  induction l as [|x r IH]; intros run Hw; [reflexivity|].
  destruct (wf_children_cons _ _ _ Hw) as [[Ht Hw']|(Ht & q & c & -> & Hrun & Hq & Hrt & Hwc & Hw')].
  - cbn [existsb]. rewrite (IH _ Hw'). destruct x; try discriminate Ht; reflexivity.
  - cbn [existsb is_plural orb]. apply (IH _ Hw').
Qed.
End WfMsg.

(* ---- parseMsg ---- *)
Section Msg.
Variable ns : bstr.
Variable al : list (bstr * bstr).
Variable inlen : N.
Variable lexq : bstr -> list tok.
Variable unq : bstr -> option bstr.
Variable efuel : list tok -> nat.

Notation PE g := (lift_expr inlen parse_expr g).
Notation IL g := (item_list inlen lexq unq parse_expr efuel g).
Notation BT g := (begin_tag inlen lexq unq parse_expr efuel (PE g) (IL g) g).
Notation Body := (Body ns al inlen lexq unq efuel).
Notation Tag := (Tag ns al inlen lexq unq efuel).

(* the attributes MsgNode.String writes: desc alone, or meaning and desc *)
Inductive msg_attrs : list tok -> bstr -> bstr -> Prop :=
| ma_desc qd desc : unq qd = Some desc -> msg_attrs (attr_toks v_desc qd) [] desc
| ma_both qm qd meaning desc : unq qm = Some meaning -> unq qd = Some desc ->
    msg_attrs (attr_toks v_meaning qm ++ attr_toks v_desc qd) meaning desc.

Lemma set_inmsg_back s p sc : c_inmsg s = false -> set_inmsg (set_ps (set_inmsg s true) p sc) false = set_ps s p sc.
Proof. intros H. unfold set_inmsg, set_ps. cbn [c_p c_ns c_al c_inmsg c_scans]. rewrite H. reflexivity. Qed.

Lemma Tag_msg k atoks meaning desc rd l contents u rd2 rest :
  t_typ k = pit_Msg -> msg_attrs atoks meaning desc -> t_typ rd = pit_RightDelim ->
  Body true u_msg l contents u (rd2 :: rest) -> t_typ rd2 = pit_RightDelim ->
  existsb is_plural (plz_children (children_of contents)) = false ->
  Tag false (k :: atoks ++ rd :: l) (NMsg (t_pos k) 0 meaning desc (plz_children (children_of contents))) rest.
Proof.
  intros Hk Hat Hrd HB Hrd2 Hpl s p0 sc0 Hs Hi Hm.
  cnext0 s Hs Hi p1 Hn1 Hs1 Hi1 Hsb1 Hib1.
  (* the attributes *)
  assert (HA : exists p2, stream p2 = rd :: l /\ inv p2 /\ forall g s sc, (3 <= g)%nat ->
            attrs_loop inlen unq g [k_desc; k_meaning; k_hidden] [] (set_ps s p1 sc) =
            COk (if match meaning with [] => true | _ => false end then [(v_desc, desc)] else [(v_desc, desc); (v_meaning, meaning)]) (set_ps s p2 sc)
            \/ attrs_loop inlen unq g [k_desc; k_meaning; k_hidden] [] (set_ps s p1 sc) =
            COk [(v_desc, desc); (v_meaning, meaning)] (set_ps s p2 sc)).
  { destruct Hat as [qd desc Hud|qm qd meaning desc Hum Hud].
    - unfold attr_toks in Hs1. cbn [app] in Hs1.
      destruct (attrs_one inlen unq [k_desc; k_meaning; k_hidden] [] p1 (tk pit_Ident 0 v_desc) (tk pit_Equals 0 v_eq) (tk pit_String 0 qd) desc _
                  eq_refl eq_refl eq_refl eq_refl Hud Hs1 Hi1) as (p2 & Hs2 & Hi2 & _ & HA1).
      destruct (attrs_end inlen unq [k_desc; k_meaning; k_hidden] [(v_desc, desc)] p2 rd l (or_introl Hrd) Hs2 Hi2) as (p3 & Hsb3 & Hib3 & _ & HA2).
      exists (p_backup p3). repeat (split; [assumption|]). intros g s' sc Hg. left.
      destruct g as [|[|g]]; [lia|lia|]. rewrite HA1. cbn [t_val tk]. rewrite HA2. reflexivity.
    - unfold attr_toks in Hs1. cbn [app] in Hs1.
      destruct (attrs_one inlen unq [k_desc; k_meaning; k_hidden] [] p1 (tk pit_Ident 0 v_meaning) (tk pit_Equals 0 v_eq) (tk pit_String 0 qm) meaning _
                  eq_refl eq_refl eq_refl eq_refl Hum Hs1 Hi1) as (p2 & Hs2 & Hi2 & _ & HA1).
      destruct (attrs_one inlen unq [k_desc; k_meaning; k_hidden] [(v_meaning, meaning)] p2 (tk pit_Ident 0 v_desc) (tk pit_Equals 0 v_eq) (tk pit_String 0 qd) desc _
                  eq_refl eq_refl eq_refl eq_refl Hud Hs2 Hi2) as (p3 & Hs3 & Hi3 & _ & HA2).
      destruct (attrs_end inlen unq [k_desc; k_meaning; k_hidden] [(v_desc, desc); (v_meaning, meaning)] p3 rd l (or_introl Hrd) Hs3 Hi3) as (p4 & Hsb4 & Hib4 & _ & HA3).
      exists (p_backup p4). repeat (split; [assumption|]). intros g s' sc Hg. right.
      destruct g as [|[|[|g]]]; [lia|lia|lia|]. rewrite HA1. cbn [t_val tk]. rewrite HA2. cbn [t_val tk]. rewrite HA3. reflexivity. }
  destruct HA as (p2 & Hs2 & Hi2 & HA).
  cexpectp inlen pit_RightDelim x_msg s p2 Hs2 Hi2 Hrd p3 He3 Hs3 Hi3.
  destruct (HB (set_inmsg s true) p3 sc0 Hs3 Hi3 (base_ok_inmsg ns al false s true Hm)) as (p4 & sc4 & Hs4 & Hi4 & _ & _ & f0 & HF).
  cexpectp inlen pit_RightDelim x_msg s p4 Hs4 Hi4 Hrd2 p5 He5 Hs5 Hi5.
  exists p5, sc4. repeat (split; [assumption|]). exists (max 3 f0). intros g lf Hg _.
  unfold begin_tag. rewrite Hn1. cbn [cbind]. rewrite !(tis_typ k _ _ Hk). dec_closed.
  unfold notmsg. change (c_inmsg (set_ps s p1 sc0)) with (c_inmsg s). rewrite (proj1 Hm).
  unfold parse_msg.
  assert (Hattr : forall attrs, (attrs = (if match meaning with [] => true | _ => false end then [(v_desc, desc)] else [(v_desc, desc); (v_meaning, meaning)])
                                 \/ attrs = [(v_desc, desc); (v_meaning, meaning)]) ->
                  attr k_desc attrs = Some desc /\ attr_or_empty k_meaning attrs = meaning).
  { intros attrs [->| ->]; [destruct meaning|]; split; reflexivity. }
  destruct (HA g s sc0 ltac:(lia)) as [E|E]; rewrite E; cbn [cbind];
    (match goal with |- context [attr k_desc ?a] => destruct (Hattr a ltac:(auto)) as [E1 E2]; rewrite E1, E2 end);
    rewrite He3; cbn [cbind];
    change (set_inmsg (set_ps s p3 sc0) true) with (set_ps (set_inmsg s true) p3 sc0);
    rewrite (HF g g) by lia; cbn [cbind]; rewrite (set_inmsg_back s p4 sc4 (proj1 Hm));
    rewrite Hpl; cbn [andb]; rewrite He5; reflexivity.
Qed.
End Msg.
