(* C17 at command level, {msg}: parseMsg of Model/Parser.v (attributes, the body read with
   tree.inmsg set, placeholderize), and the inverse of placeholderize on well-formed children:
   [unplz] rebuilds the list itemList returned -- every run of text / html-tag children is one
   raw text, every placeholder is its command. *)
From Soy Require Import Model.Bytes Model.Outcome Model.Num Model.Ast Model.Token Model.RawText Model.ExprParser Model.Parser Generated.Tables
  Model.AstPrint Model.AstPrintCmd
  Spec.ExprSyntax Spec.CmdSyntax Proofs.ExprParserRules Proofs.CmdRoundtripBase Proofs.CmdRoundtripRules Proofs.CmdRoundtripCall.
From Coq Require Import Lia.
Open Scope N_scope.

(* ---- the inverse of placeholderize ---- *)
Definition is_textlike (x : node) : bool :=
  match x with
  | NRawText _ _ => true
  | NMsgPlaceholder _ _ (NMsgHtmlTag _ _) => true
  | _ => false
  end.
Definition run_node (run : list node) : list node :=
  match run with [] => [] | _ :: _ => [NRawText (run_pos run) (run_text run)] end.
Definition unplz_gen (un : node -> node) : list node -> list node -> list node :=
  fix go (run : list node) (l : list node) {struct l} : list node :=
    match l with
    | [] => run_node run
    | x :: r => if is_textlike x then go (run ++ [x]) r else run_node run ++ un x :: go [] r
    end.
(* a placeholder is its command; a {plural} child is the {plural} command parsePlural returned: the
   case bodies before placeholderize *)
Fixpoint unpl (x : node) : node :=
  match x with
  | NMsgPlaceholder _ _ c => c
  | NMsgPlural p nm v cases dflt => NMsgPlural p nm v (map unpl cases) (unplz_gen unpl [] dflt)
  | NMsgPluralCase cp cv b => NMsgPluralCase cp cv (unplz_gen unpl [] b)
  | _ => x
  end.
Definition unplz : list node -> list node -> list node := unplz_gen unpl.

Lemma unplz_nil run : unplz run [] = run_node run.
Proof. reflexivity. Qed.
Lemma unplz_cons run x r : unplz run (x :: r) = if is_textlike x then unplz (run ++ [x]) r else run_node run ++ unpl x :: unplz [] r.
Proof. reflexivity. Qed.
Lemma unpl_plural p nm v cases dflt : unpl (NMsgPlural p nm v cases dflt) = NMsgPlural p nm v (map unpl cases) (unplz [] dflt).
Proof. reflexivity. Qed.
Lemma unpl_case cp cv b : unpl (NMsgPluralCase cp cv b) = NMsgPluralCase cp cv (unplz [] b).
Proof. reflexivity. Qed.
Global Opaque unplz.

(* the children function of Spec/CmdSyntax.v at its instance *)
Definition msg_toks : list node -> list node -> list tok := children_toks cmd_toks mtoks.
Definition blist_toks (l : list node) : list tok := List.concat (map cmd_toks l).
Lemma cmd_toks_msg p id meaning desc children :
  cmd_toks (NMsg p id meaning desc children) =
  [T_ldelim; kw pit_Msg p] ++
  (match meaning with [] => [] | _ => attr_toks v_meaning (quoted_attr meaning) end) ++
  attr_toks v_desc (quoted_attr desc) ++ [T_rdelim] ++ msg_toks [] children ++ close_tag pit_MsgEnd.
Proof. reflexivity. Qed.
Lemma cmd_toks_plural p nm v cases dflt :
  cmd_toks (NMsgPlural p nm v cases dflt) = plural_toks p v (pcases_toks blist_toks cases) (blist_toks dflt).
Proof. reflexivity. Qed.
Lemma mtoks_plural p nm v cases dflt :
  mtoks (NMsgPlural p nm v cases dflt) = plural_toks p v (List.concat (map mtoks cases)) (msg_toks [] dflt).
Proof. reflexivity. Qed.
Lemma mtoks_case cp cv b : mtoks (NMsgPluralCase cp cv b) = plural_case_head cp cv ++ msg_toks [] b.
Proof. reflexivity. Qed.
Lemma msg_toks_nil run : msg_toks run [] = run_tok run.
Proof. reflexivity. Qed.

(* ---- size (the measure of the induction of Proofs/CmdRoundtrip.v) ---- *)
Fixpoint csize (n : node) : nat :=
  match n with
  | NList _ ns => S (list_sum (map csize ns))
  | NLog _ x => S (csize x)
  | NLetContent _ _ x => S (csize x)
  | NIf _ conds => S (list_sum (map csize conds))
  | NIfCond _ _ x => S (csize x)
  | NFor _ _ _ x ie => S (csize x + match ie with Some y => csize y | None => 0 end)
  | NSwitch _ _ cases => S (list_sum (map csize cases))
  | NSwitchCase _ _ x => S (csize x)
  | NCall _ _ _ _ params => S (list_sum (map csize params))
  | NParamContent _ _ x => S (csize x)
  | NMsg _ _ _ _ children => S (S (list_sum (map csize children)))
  | NMsgPlaceholder _ _ c => S (csize c)
  | NMsgPlural _ _ _ cases dflt => S (S (S (list_sum (map csize cases) + list_sum (map csize dflt))))
  | NMsgPluralCase _ _ b => S (S (list_sum (map csize b)))
  | _ => 1%nat
  end.
Definition lsize (l : list node) : nat := list_sum (map csize l).
Lemma csize_pos x : (1 <= csize x)%nat.
Proof. destruct x; cbn [csize]; lia. Qed.
Lemma lsize_cons x r : lsize (x :: r) = (csize x + lsize r)%nat.
Proof. reflexivity. Qed.
Lemma lsize_app a c : lsize (a ++ c) = (lsize a + lsize c)%nat.
Proof. unfold lsize. rewrite map_app, list_sum_app. reflexivity. Qed.

(* placeholderize on a {plural}, with the local loops of Model/Parser.v at top level *)
Definition plz_case (c : node) : node :=
  match c with NMsgPluralCase cp cv b => NMsgPluralCase cp cv (plz_children b) | o => o end.
Lemma plz_plural p nm v cases dflt :
  plz (NMsgPlural p nm v cases dflt) = [NMsgPlural p [] v (map plz_case cases) (plz_children dflt)].
Proof.
  cbn [plz].
  assert (L : forall l, (fix go (l : list node) : list node := match l with [] => [] | x :: r => plz x ++ go r end) l = plz_children l).
  { induction l as [|x r IH]; [reflexivity|]. cbn [plz_children]. rewrite <- IH. reflexivity. }
  rewrite L. reflexivity.
Qed.

Section WfMsg.
Variable lexq : bstr -> list tok.
Variable nameok : bstr -> Prop.
Notation wf_cmd := (wf_cmd lexq nameok).
Notation wf_mnode := (wf_mnode lexq nameok).

Definition wf_children : list node -> list node -> Prop := wf_children_gen (wf_cmd true) wf_mnode.
Definition wf_blist (l : list node) : Prop := allP (wf_cmd true) l /\ no_adjacent_text l.
Lemma wf_cmd_msg m p id meaning desc children : wf_cmd m (NMsg p id meaning desc children) <->
  m = false /\ id = 0 /\ go_quote meaning <> None /\ go_quote desc <> None /\ wf_children [] children /\
  (existsb is_plural children = true -> length children = 1%nat).
Proof. reflexivity. Qed.
Lemma wf_cmd_plural m p nm v cases dflt : wf_cmd m (NMsgPlural p nm v cases dflt) <->
  m = true /\ nm = [] /\ wf_expr v /\ wf_pcases (fun l => allP (wf_cmd m) l /\ no_adjacent_text l) cases /\
  (allP (wf_cmd m) dflt /\ no_adjacent_text dflt).
Proof. reflexivity. Qed.
Lemma wf_mnode_plural p nm v cases dflt : wf_mnode (NMsgPlural p nm v cases dflt) <->
  nm = [] /\ wf_expr v /\ forallb is_pcase cases = true /\ allP wf_mnode cases /\ wf_children [] dflt.
Proof. reflexivity. Qed.
Lemma wf_mnode_case cp cv b : wf_mnode (NMsgPluralCase cp cv b) <->
  (0 <= cv)%Z /\ in_int64 cv = true /\ wf_children [] b.
Proof. reflexivity. Qed.

(* one step of the children, by cases *)
Lemma wf_children_cons run x r : wf_children run (x :: r) ->
  (is_textlike x = true /\ wf_children (run ++ [x]) r) \/
  (is_textlike x = false /\ exists q c, x = NMsgPlaceholder q [] c /\ run_ok run /\ q = pos_of c /\ is_rawtext c = false /\ is_plural c = false /\
                                       wf_cmd true c /\ wf_children [] r) \/
  (is_textlike x = false /\ is_plural x = true /\ run_ok run /\ wf_mnode x /\ wf_children [] r).
Proof.
  destruct x; try (intros H; exfalso; exact H).
  - intros H. left. split; [reflexivity | exact H].
  - destruct x; try (intros (H1 & -> & H2 & H3 & H3' & H4 & H5); right; left; split; [reflexivity|]; do 2 eexists; split; [reflexivity|]; auto 10);
      try (intros (_ & _ & _ & _ & Hx & _); discriminate Hx).
    intros H. left. split; [reflexivity | exact H].
  - intros (H1 & H2 & H3). right. right. split; [reflexivity|]. split; [reflexivity|]. auto.
Qed.

Lemma msg_toks_cons_text run x r : is_textlike x = true -> msg_toks run (x :: r) = msg_toks (run ++ [x]) r.
Proof. destruct x; try discriminate; [reflexivity|]. destruct x; try discriminate. reflexivity. Qed.
Lemma msg_toks_cons_ph run q c r : is_textlike (NMsgPlaceholder q [] c) = false ->
  msg_toks run (NMsgPlaceholder q [] c :: r) = run_tok run ++ cmd_toks c ++ msg_toks [] r.
Proof. intros Ht. destruct c; try reflexivity. discriminate Ht. Qed.
Lemma msg_toks_cons_plural run x r : is_plural x = true -> msg_toks run (x :: r) = run_tok run ++ mtoks x ++ msg_toks [] r.
Proof. destruct x; try discriminate. reflexivity. Qed.

Lemma plz_children_app l1 l2 : plz_children (l1 ++ l2) = plz_children l1 ++ plz_children l2.
Proof. induction l1 as [|x l1 IH]; [reflexivity|]. cbn [app plz_children]. rewrite IH, app_assoc. reflexivity. Qed.

Lemma plz_run run : run_ok run -> plz_children (run_node run) = run.
Proof.
  destruct run as [|f run]; [reflexivity|]. intros (_ & _ & H). cbn [run_node plz_children plz]. rewrite app_nil_r. exact H.
Qed.

(* a command that is well-formed inside a {msg} is wrapped into an unnamed placeholder *)
Lemma plz_cmd c : wf_cmd true c -> is_rawtext c = false -> is_plural c = false -> plz c = [NMsgPlaceholder (pos_of c) [] c].
Proof. destruct c; try (intros H; exfalso; exact H); try reflexivity; [intros _ H; discriminate H | intros _ _ H; discriminate H]. Qed.

Lemma run_node_wf run : run_ok run -> allP (wf_cmd true) (run_node run).
Proof. destruct run as [|f run]; [intros; exact I|]. intros (H1 & H2 & _). cbn [run_node allP]. split; [|exact I]. split; assumption. Qed.

Lemma allP_app {A} (P : A -> Prop) l1 l2 : allP P l1 -> allP P l2 -> allP P (l1 ++ l2).
Proof. induction l1 as [|x l1 IH]; [auto|]. intros [H1 H2] H3. split; auto. Qed.

(* what the inverse gives, on children / on the cases of a {plural} child *)
Definition unplz_ok (run l : list node) : Prop :=
  blist_toks (unplz run l) = msg_toks run l /\
  plz_children (unplz run l) = run ++ l /\
  wf_blist (unplz run l) /\
  (lsize (unplz run l) <= match run with [] => 0 | _ :: _ => 1 end + lsize l)%nat.
Definition uncases_ok (cases : list node) : Prop :=
  pcases_toks blist_toks (map unpl cases) = List.concat (map mtoks cases) /\
  map plz_case (map unpl cases) = cases /\
  wf_pcases wf_blist (map unpl cases) /\
  (lsize (map unpl cases) <= lsize cases)%nat.

Lemma no_adjacent_cmd c l : is_rawtext c = false -> no_adjacent_text l -> no_adjacent_text (c :: l).
Proof. intros Hc Hl. cbn [no_adjacent_text]. split; [|exact Hl]. destruct l; [exact I|]. rewrite Hc. reflexivity. Qed.
Lemma no_adjacent_run run c l : is_rawtext c = false -> no_adjacent_text (c :: l) -> no_adjacent_text (run_node run ++ c :: l).
Proof. intros Hc Hl. destruct run; [exact Hl|]. cbn [run_node app no_adjacent_text]. split; [|exact Hl]. rewrite Hc. apply andb_false_r. Qed.
Lemma lsize_run_node run : lsize (run_node run) = match run with [] => 0%nat | _ :: _ => 1%nat end.
Proof. destruct run; reflexivity. Qed.
Lemma blist_run_node run : blist_toks (run_node run) = run_tok run.
Proof. destruct run; reflexivity. Qed.
Lemma blist_app a c : blist_toks (a ++ c) = blist_toks a ++ blist_toks c.
Proof. unfold blist_toks. rewrite map_app, concat_app. reflexivity. Qed.

Lemma unplz_all : forall n l run, (lsize l <= n)%nat -> wf_children run l -> unplz_ok run l.
Proof.
  induction n as [|n IHn].
  - intros l run Hsz Hw. destruct l as [|x r].
    + unfold unplz_ok. rewrite unplz_nil, msg_toks_nil, app_nil_r, blist_run_node, lsize_run_node.
      split; [reflexivity|]. split; [apply plz_run, Hw|]. split; [|cbn; lia].
      split; [apply run_node_wf, Hw | destruct run; cbn; auto].
    + rewrite lsize_cons in Hsz. pose proof (csize_pos x). lia.
  - induction l as [|x r IH]; intros run Hsz Hw.
    + unfold unplz_ok. rewrite unplz_nil, msg_toks_nil, app_nil_r, blist_run_node, lsize_run_node.
      split; [reflexivity|]. split; [apply plz_run, Hw|]. split; [|cbn; lia].
      split; [apply run_node_wf, Hw | destruct run; cbn; auto].
    + rewrite lsize_cons in Hsz. pose proof (csize_pos x) as Hpx.
      destruct (wf_children_cons _ _ _ Hw) as [[Ht Hw']|[(Ht & q & c & -> & Hrun & Hq & Hrt & Hnp & Hwc & Hw')|(Ht & Hpl & Hrun & Hwm & Hw')]].
      * destruct (IH (run ++ [x]) ltac:(lia) Hw') as (T1 & T2 & T3 & T4).
        unfold unplz_ok. rewrite unplz_cons, Ht, msg_toks_cons_text by exact Ht. rewrite lsize_cons.
        split; [exact T1|]. split; [rewrite T2, <- app_assoc; reflexivity|]. split; [exact T3|].
        assert (E : (match run ++ [x] with [] => 0 | _ :: _ => 1 end = 1)%nat) by (destruct run; reflexivity). rewrite E in T4.
        destruct run; lia.
      * destruct (IH [] ltac:(lia) Hw') as (T1 & T2 & (T3a & T3b) & T4). cbv iota in T4.
        unfold unplz_ok. rewrite unplz_cons, Ht, msg_toks_cons_ph by exact Ht. cbn [unpl].
        split; [|split; [|split]].
        -- rewrite blist_app, blist_run_node. f_equal. unfold blist_toks in *. cbn [map List.concat]. rewrite T1. reflexivity.
        -- rewrite plz_children_app, (plz_run run Hrun). cbn [plz_children]. rewrite (plz_cmd c Hwc Hrt Hnp), T2, Hq. reflexivity.
        -- split.
           ++ apply allP_app; [apply run_node_wf, Hrun|]. split; assumption.
           ++ apply no_adjacent_run; [exact Hrt|]. apply no_adjacent_cmd; assumption.
        -- rewrite lsize_app, lsize_run_node, !lsize_cons. cbn [csize]. destruct run; lia.
      * destruct x; try discriminate Hpl. rename cases into cs, default into dflt.
        destruct (proj1 (wf_mnode_plural _ _ _ _ _) Hwm) as (-> & Hwv & Hpcs & Hwcs & Hwd).
        cbn [csize] in Hsz. fold (lsize cs) in Hsz. fold (lsize dflt) in Hsz.
        destruct (IH [] ltac:(lia) Hw') as (T1 & T2 & (T3a & T3b) & T4). cbv iota in T4.
        destruct (IHn dflt [] ltac:(lia) Hwd) as (D1 & D2 & D3 & D4). cbv iota in D4. cbn [app] in D2.
        assert (HC : forall cs0, (lsize cs0 <= n)%nat -> forallb is_pcase cs0 = true -> allP wf_mnode cs0 -> uncases_ok cs0).
        { induction cs0 as [|c0 r0 IHc]; intros Hs0 Hp0 Hw0.
          - repeat split. cbn. lia.
          - destruct Hw0 as [Hwc0 Hwr0]. cbn [forallb] in Hp0. apply andb_true_iff in Hp0. destruct Hp0 as [Hp0 Hpr0]. rewrite lsize_cons in Hs0. pose proof (csize_pos c0).
            destruct (IHc ltac:(lia) Hpr0 Hwr0) as (C1 & C2 & C3 & C4).
            destruct c0; try discriminate Hp0. destruct (proj1 (wf_mnode_case _ _ _) Hwc0) as (Hv0 & Hv1 & Hwb0).
            cbn [csize] in Hs0. fold (lsize body) in Hs0.
            destruct (IHn body [] ltac:(lia) Hwb0) as (B1 & B2 & B3 & B4). cbv iota in B4. cbn [app] in B2.
            unfold uncases_ok. cbn [map]. rewrite unpl_case. split; [|split; [|split]].
            + cbn [pcases_toks List.concat]. fold (pcases_toks blist_toks (map unpl r0)). rewrite C1, B1, mtoks_case, <- app_assoc. reflexivity.
            + cbn [plz_case]. rewrite B2, C2. reflexivity.
            + cbn [wf_pcases]. fold (wf_pcases wf_blist (map unpl r0)). auto.
            + rewrite !lsize_cons. cbn [csize]. fold (lsize (unplz [] body)). fold (lsize body). lia. }
        destruct (HC cs ltac:(lia) Hpcs Hwcs) as (C1 & C2 & C3 & C4).
        unfold unplz_ok. rewrite unplz_cons, Ht, msg_toks_cons_plural by reflexivity. rewrite unpl_plural.
        split; [|split; [|split]].
        -- rewrite blist_app, blist_run_node. f_equal. unfold blist_toks at 1. cbn [map List.concat]. fold (blist_toks (unplz [] r)).
           rewrite T1, cmd_toks_plural, mtoks_plural, C1, D1. reflexivity.
        -- rewrite plz_children_app, (plz_run run Hrun). cbn [plz_children]. rewrite plz_plural, C2, D2, T2. reflexivity.
        -- split.
           ++ apply allP_app; [apply run_node_wf, Hrun|]. split; [|exact T3a].
              apply wf_cmd_plural. repeat split; try assumption; try apply D3.
           ++ apply no_adjacent_run; [reflexivity|]. apply no_adjacent_cmd; [reflexivity | exact T3b].
        -- rewrite lsize_app, lsize_run_node, !lsize_cons. cbn [csize].
           fold (lsize (map unpl cs)). fold (lsize (unplz [] dflt)). fold (lsize cs). fold (lsize dflt). destruct run; lia.
Qed.
End WfMsg.

(* ---- parseMsg ---- *)
Section Msg.
Variable ns : bstr.
Variable al : list (bstr * bstr).
Variable inlen : N.
Variable lexq : bstr -> list tok.
Variable unq : bstr -> option bstr.
Variable efuel : list tok -> nat.

Notation PE g := (lift_expr inlen parse_expr g).
Notation IL g := (item_list inlen lexq unq parse_expr efuel g).
Notation BT g := (begin_tag inlen lexq unq parse_expr efuel (PE g) (IL g) g).
Notation Body := (Body ns al inlen lexq unq efuel).
Notation Tag := (Tag ns al inlen lexq unq efuel).

(* the attributes MsgNode.String writes: desc alone, or meaning and desc *)
Inductive msg_attrs : list tok -> bstr -> bstr -> Prop :=
| ma_desc qd desc : unq qd = Some desc -> msg_attrs (attr_toks v_desc qd) [] desc
| ma_both qm qd meaning desc : unq qm = Some meaning -> unq qd = Some desc ->
    msg_attrs (attr_toks v_meaning qm ++ attr_toks v_desc qd) meaning desc.

Lemma set_inmsg_back s p sc : c_inmsg s = false -> set_inmsg (set_ps (set_inmsg s true) p sc) false = set_ps s p sc.
Proof. intros H. unfold set_inmsg, set_ps. cbn [c_p c_ns c_al c_inmsg c_scans]. rewrite H. reflexivity. Qed.

Lemma Tag_msg k atoks meaning desc rd l contents u rd2 rest :
  t_typ k = pit_Msg -> msg_attrs atoks meaning desc -> t_typ rd = pit_RightDelim ->
  Body true u_msg l contents u (rd2 :: rest) -> t_typ rd2 = pit_RightDelim ->
  existsb is_plural (plz_children (children_of contents)) && negb (Nat.eqb (length (plz_children (children_of contents))) 1) = false ->
  Tag false (k :: atoks ++ rd :: l) (NMsg (t_pos k) 0 meaning desc (plz_children (children_of contents))) rest.
Proof.
  intros Hk Hat Hrd HB Hrd2 Hpl s p0 sc0 Hs Hi Hm.
  cnext0 s Hs Hi p1 Hn1 Hs1 Hi1 Hsb1 Hib1.
  (* the attributes *)
  assert (HA : exists p2, stream p2 = rd :: l /\ inv p2 /\ forall g s sc, (3 <= g)%nat ->
            attrs_loop inlen unq g [k_desc; k_meaning; k_hidden] [] (set_ps s p1 sc) =
            COk (if match meaning with [] => true | _ => false end then [(v_desc, desc)] else [(v_desc, desc); (v_meaning, meaning)]) (set_ps s p2 sc)
            \/ attrs_loop inlen unq g [k_desc; k_meaning; k_hidden] [] (set_ps s p1 sc) =
            COk [(v_desc, desc); (v_meaning, meaning)] (set_ps s p2 sc)).
  { destruct Hat as [qd desc Hud|qm qd meaning desc Hum Hud].
    - unfold attr_toks in Hs1. cbn [app] in Hs1.
      destruct (attrs_one inlen unq [k_desc; k_meaning; k_hidden] [] p1 (tk pit_Ident 0 v_desc) (tk pit_Equals 0 v_eq) (tk pit_String 0 qd) desc _
                  eq_refl eq_refl eq_refl eq_refl Hud Hs1 Hi1) as (p2 & Hs2 & Hi2 & _ & HA1).
      destruct (attrs_end inlen unq [k_desc; k_meaning; k_hidden] [(v_desc, desc)] p2 rd l (or_introl Hrd) Hs2 Hi2) as (p3 & Hsb3 & Hib3 & _ & HA2).
      exists (p_backup p3). repeat (split; [assumption|]). intros g s' sc Hg. left.
      destruct g as [|[|g]]; [lia|lia|]. rewrite HA1. cbn [t_val tk]. rewrite HA2. reflexivity.
    - unfold attr_toks in Hs1. cbn [app] in Hs1.
      destruct (attrs_one inlen unq [k_desc; k_meaning; k_hidden] [] p1 (tk pit_Ident 0 v_meaning) (tk pit_Equals 0 v_eq) (tk pit_String 0 qm) meaning _
                  eq_refl eq_refl eq_refl eq_refl Hum Hs1 Hi1) as (p2 & Hs2 & Hi2 & _ & HA1).
      destruct (attrs_one inlen unq [k_desc; k_meaning; k_hidden] [(v_meaning, meaning)] p2 (tk pit_Ident 0 v_desc) (tk pit_Equals 0 v_eq) (tk pit_String 0 qd) desc _
                  eq_refl eq_refl eq_refl eq_refl Hud Hs2 Hi2) as (p3 & Hs3 & Hi3 & _ & HA2).
      destruct (attrs_end inlen unq [k_desc; k_meaning; k_hidden] [(v_desc, desc); (v_meaning, meaning)] p3 rd l (or_introl Hrd) Hs3 Hi3) as (p4 & Hsb4 & Hib4 & _ & HA3).
      exists (p_backup p4). repeat (split; [assumption|]). intros g s' sc Hg. right.
      destruct g as [|[|[|g]]]; [lia|lia|lia|]. rewrite HA1. cbn [t_val tk]. rewrite HA2. cbn [t_val tk]. rewrite HA3. reflexivity. }
  destruct HA as (p2 & Hs2 & Hi2 & HA).
  cexpectp inlen pit_RightDelim x_msg s p2 Hs2 Hi2 Hrd p3 He3 Hs3 Hi3.
  destruct (HB (set_inmsg s true) p3 sc0 Hs3 Hi3 (base_ok_inmsg ns al false s true Hm)) as (p4 & sc4 & Hs4 & Hi4 & _ & _ & f0 & HF).
  cexpectp inlen pit_RightDelim x_msg s p4 Hs4 Hi4 Hrd2 p5 He5 Hs5 Hi5.
  exists p5, sc4. repeat (split; [assumption|]). exists (max 3 f0). intros g lf Hg _.
  unfold begin_tag. rewrite Hn1. cbn [cbind]. rewrite !(tis_typ k _ _ Hk). dec_closed.
  unfold notmsg. change (c_inmsg (set_ps s p1 sc0)) with (c_inmsg s). rewrite (proj1 Hm).
  unfold parse_msg.
  assert (Hattr : forall attrs, (attrs = (if match meaning with [] => true | _ => false end then [(v_desc, desc)] else [(v_desc, desc); (v_meaning, meaning)])
                                 \/ attrs = [(v_desc, desc); (v_meaning, meaning)]) ->
                  attr k_desc attrs = Some desc /\ attr_or_empty k_meaning attrs = meaning).
  { intros attrs [->| ->]; [destruct meaning|]; split; reflexivity. }
  destruct (HA g s sc0 ltac:(lia)) as [E|E]; rewrite E; cbn [cbind];
    (match goal with |- context [attr k_desc ?a] => destruct (Hattr a ltac:(auto)) as [E1 E2]; rewrite E1, E2 end);
    rewrite He3; cbn [cbind];
    change (set_inmsg (set_ps s p3 sc0) true) with (set_ps (set_inmsg s true) p3 sc0);
    rewrite (HF g g) by lia; cbn [cbind]; rewrite (set_inmsg_back s p4 sc4 (proj1 Hm));
    rewrite Hpl; rewrite He5; reflexivity.
Qed.
End Msg.
