(* C02: what Spec/Cmd.v says about switch with several values per case, css, log,
   debugger and msg/plural without a bundle, as readable lemmas of the Spec; and
   the parser's side of a {case v1, v2, ...} tag. *)
From Coq Require Import Lia.
From Soy Require Import Model.Bytes Model.Num Model.Values Model.Outcome Model.Ast Model.Token Generated.Tables
  Model.Escape Model.Interp Model.Parser Spec.Cmd Proofs.ScopeNames.
Open Scope N_scope.

Lemma sbind_sE_ret {A B} (x : A) (k : A -> Cm B) n : sbind (sE (eret x)) k n = k x n.
Proof. unfold sbind, sE, eret. destruct (k x n) as [o r]. reflexivity. Qed.

(* ---- switch: a case with the values v1..vk is taken iff the switch value equals one of them ---- *)
(* [pure_vals l en vs vals]: the value expressions evaluate to [vals] and create no list or map *)
Definition pure_vals (l : level) (en : env) (vs : list node) (vals : list value) : Prop :=
  Forall2 (fun x v => forall n, l_eval l en x n = Ok (v, n)) vs vals.

Theorem case_hit_pure l en sv vs vals n :
  pure_vals l en vs vals -> case_hit_spec l en sv vs n = Ok (existsb (equals sv) vals, n).
Proof.
  induction 1 as [|x v vs vals Hx _ IH]; cbn [case_hit_spec existsb]; [reflexivity|].
  unfold ebind, ev. rewrite Hx. cbn [bind fst snd]. destruct (equals sv v); [reflexivity | exact IH].
Qed.

(* the values are tried left to right and the search stops at the first hit: later values are not evaluated *)
Theorem case_hit_stops l en sv x xs v n n' :
  l_eval l en x n = Ok (v, n') -> equals sv v = true -> case_hit_spec l en sv (x :: xs) n = Ok (true, n').
Proof. intros Hx He. cbn [case_hit_spec]. unfold ebind, ev. rewrite Hx. cbn [bind fst snd]. rewrite He. reflexivity. Qed.

Theorem switch_case_taken l entry md en sv p vs vals body r n :
  pure_vals l en vs vals -> existsb (equals sv) vals = true ->
  switch_spec l entry md en sv (NSwitchCase p vs body :: r) n = l_exec l entry en md body n.
Proof.
  intros Hp He. cbn [switch_spec]. unfold sbind at 1. unfold sE. rewrite (case_hit_pure l en sv vs vals n Hp), He.
  cbn [orb]. unfold ex. destruct (l_exec l entry en md body n) as [o rr]. reflexivity.
Qed.

Theorem switch_case_skipped l entry md en sv p vs vals body r n :
  pure_vals l en vs vals -> vs <> [] -> existsb (equals sv) vals = false ->
  switch_spec l entry md en sv (NSwitchCase p vs body :: r) n = switch_spec l entry md en sv r n.
Proof.
  intros Hp Hne He. cbn [switch_spec]. unfold sbind at 1. unfold sE. rewrite (case_hit_pure l en sv vs vals n Hp), He.
  destruct vs; [contradiction|]. cbn [orb]. destruct (switch_spec l entry md en sv r n) as [o rr]. reflexivity.
Qed.

Theorem switch_default_taken l entry md en sv p body r n :
  switch_spec l entry md en sv (NSwitchCase p [] body :: r) n = l_exec l entry en md body n.
Proof.
  cbn [switch_spec case_hit_spec]. rewrite sbind_sE_ret. reflexivity.
Qed.

Theorem switch_no_case l entry md en sv n : switch_spec l entry md en sv [] n = ([], Ok (tt, n)).
Proof. reflexivity. Qed.

(* ---- css ---- *)
Theorem css_plain cf l entry md en p suffix n : exec_body cf l entry md en (NCss p None suffix) n = (suffix, Ok (tt, n)).
Proof. cbn [exec_body]. unfold sbind, sret, semit. cbn. reflexivity. Qed.

Theorem css_expr cf l entry md en p x suffix n v n' s :
  l_eval l en x n = Ok (v, n') -> value_string v = Ok s ->
  exec_body cf l entry md en (NCss p (Some x) suffix) n = ((s ++ s_dash) ++ suffix, Ok (tt, n')).
Proof.
  intros Hx Hs. cbn [exec_body]. unfold sbind, sE, slift, elift, sret, semit, ev. rewrite Hx. rewrite Hs.
  cbn [bind app]. first [reflexivity | rewrite app_nil_r; reflexivity | rewrite <- app_assoc; reflexivity | rewrite app_assoc; reflexivity].
Qed.

(* ---- log and debugger write nothing ---- *)
Theorem log_writes_nothing cf l entry md en p body n : fst (exec_body cf l entry md en (NLog p body) n) = [].
Proof.
  cbn [exec_body]. unfold sbind, capture, ex. destruct (l_exec l entry en md body n) as [o [[[] n']| | | | |]]; reflexivity.
Qed.
Theorem log_body_ok cf l entry md en p body n o n' :
  l_exec l entry en md body n = (o, Ok (tt, n')) -> exec_body cf l entry md en (NLog p body) n = ([], Ok (tt, n')).
Proof. intros H. cbn [exec_body]. unfold sbind, capture, ex. rewrite H. reflexivity. Qed.
Theorem debugger_nothing cf l entry md en p n : exec_body cf l entry md en (NDebugger p) n = ([], Ok (tt, n)).
Proof. reflexivity. Qed.

(* ---- plural without a bundle: the explicit case equal to the number, else the default ---- *)
Definition plural_case_is (i : Z) (c : node) : bool :=
  match c with NMsgPluralCase _ cv _ => (cv =? i)%Z | _ => true end.

Theorem plural_explicit_case l entry md en mp i dflt cs1 p body cs2 n :
  forallb (fun c => negb (plural_case_is i c)) cs1 = true ->
  plural_spec l entry md en mp i dflt (cs1 ++ NMsgPluralCase p i body :: cs2) n =
  l_exec l entry en md (NMsg mp 0 [] [] body) n.
Proof.
  induction cs1 as [|c cs1 IH]; cbn [app plural_spec forallb]; intros H.
  - rewrite Z.eqb_refl. reflexivity.
  - apply andb_prop in H. destruct H as [Hc Hr]. destruct c; cbn [plural_case_is negb] in Hc; try discriminate Hc.
    rewrite Z.eqb_sym. destruct (v =? i)%Z; [discriminate Hc | exact (IH Hr)].
Qed.

Theorem plural_default l entry md en mp i dflt cs n :
  forallb (fun c => negb (plural_case_is i c)) cs = true ->
  plural_spec l entry md en mp i dflt cs n = l_exec l entry en md (NMsg mp 0 [] [] dflt) n.
Proof.
  induction cs as [|c cs IH]; cbn [plural_spec forallb]; intros H; [reflexivity|].
  apply andb_prop in H. destruct H as [Hc Hr]. destruct c; cbn [plural_case_is negb] in Hc; try discriminate Hc.
  rewrite Z.eqb_sym. destruct (v =? i)%Z; [discriminate Hc | exact (IH Hr)].
Qed.

(* ---- the parser: {case v1, v2, ...} and {default} ---- *)
Section Case.
Variable inlen : N.
Variable pe : N -> cst -> cres node.
Variable w : list N -> cst -> cres node.

(* the node holds, in source order, exactly the expressions parseExpr returned between the commas;
   {default} holds none and {case} at least one *)
Theorem case_values_in_order f : forall token values s n s',
  case_loop inlen pe w f token values s = COk n s' ->
  exists more body, n = NSwitchCase (t_pos token) (values ++ more) body /\
    Forall (fun v => exists s0 s1, pe 0 s0 = COk v s1) more /\
    (if tis token pit_Default then more = [] else more <> []).
Proof.
  induction f as [|f IH]; intros token values s n s' H; [discriminate|]. cbn [case_loop] in H.
  apply cbind_ok in H. destruct H as (values1 & s1 & E1 & H).
  apply cbind_ok in H. destruct H as (tok & s2 & _ & H).
  assert (Hv : exists add, values1 = values ++ add /\ Forall (fun v => exists s0 s1, pe 0 s0 = COk v s1) add /\
                           (if tis token pit_Default then add = [] else add <> [])).
  { destruct (tis token pit_Default).
    - injection E1 as <- _. exists []. rewrite app_nil_r. repeat split. constructor.
    - apply cbind_ok in E1. destruct E1 as (v & s0 & Ev & E1). injection E1 as <- _.
      exists [v]. split; [reflexivity|]. split; [|discriminate]. constructor; [|constructor]. exists s, s0. exact Ev. }
  destruct Hv as (add & -> & Hadd & Hd).
  destruct (tis tok pit_Comma).
  - destruct (IH _ _ _ _ _ H) as (more & body & -> & Hm & Hd').
    exists (add ++ more), body. rewrite app_assoc. split; [reflexivity|]. split; [apply Forall_app; split; assumption|].
    destruct (tis token pit_Default); [subst; reflexivity|]. intros E. apply app_eq_nil in E. destruct E as [E _]. exact (Hd E).
  - destruct (tis tok pit_RightDelim).
    + apply cbind_ok in H. destruct H as (body & s3 & _ & H). injection H as <- _.
      exists add, body. repeat split; assumption.
    + exfalso. exact (unexp_not_ok _ _ _ _ _ _ H).
Qed.
End Case.

(* ---- the parser: {css suffix} and {css expr, suffix}: the expression is the text before the LAST comma ---- *)
Section Css.
Variable inlen : N.
Variable lexq : bstr -> list tok.
Variable pexpr : nat -> N -> pst -> presult node.
Variable efuel : list tok -> nat.

Theorem css_tag_shape token s n s' :
  parse_css inlen lexq pexpr efuel token s = COk n s' ->
  exists cmd : tok,
    match last_index_of 44 (t_val cmd) with
    | None => n = NCss (t_pos token) None (trim_space (t_val cmd))
    | Some i => exists e s2 s3,
        parse_quoted_expr inlen lexq pexpr efuel (trim_space (take i (t_val cmd))) s2 = COk e s3 /\
        n = NCss (t_pos token) (Some e) (trim_space (drop (S i) (t_val cmd)))
    end.
Proof.
  unfold parse_css. intros H.
  apply cbind_ok in H. destruct H as (cmd & s1 & _ & H).
  apply cbind_ok in H. destruct H as (? & s2 & _ & H).
  exists cmd. destruct (last_index_of 44 (t_val cmd)) as [i|].
  - apply cbind_ok in H. destruct H as (e & s3 & E & H). injection H as <- _. exists e, s2, s3. split; [exact E | reflexivity].
  - injection H as <- _. reflexivity.
Qed.
End Css.
