(* Source tie, family 72-gotrans-rawtext-quote, the quote part (parse/quote.go): the escape
   table and the byte search of unquoteString (Model/Quote.v) against the same function and
   table as gotrans translates them from today's source. *)
From Coq Require Import ZArith NArith Bool Lia ZifyBool ZifyN List.
From Soy Require Import Model.Bytes Generated.Tables Model.Quote Proofs.SourceTieBase.
Import ListNotations.
Open Scope N_scope.

(* quote.go contains(s, c): Model/Quote.v unquote_string tests [mem c body] *)
Lemma quote_contains_matches_source (s : bstr) (c : N) : mem c s = src_parse_contains s (Z.of_N c).
Proof.
  unfold src_parse_contains, mem. cbv zeta. rewrite find_existsb.
  apply st_existsb_ext. intros a. lia.
Qed.

(* quote.go unescapes[r] *)
Lemma unescapes_table_matches_source (r : N) :
  option_map Z.of_N (assoc r unescapes_table) = go_assoc_z (Z.of_N r) src_parse_unescapes.
Proof.
  apply (assoc_z_ext Z.of_N Z.eqb); [exact Z_eqb_true|vm_compute; reflexivity|vm_compute; reflexivity].
Qed.

Lemma unescape_of_matches_source (r : N) :
  match unescape_of r with Some x => (Z.of_N x, true) | None => (0%Z, false) end =
  (go_lookup_z (Z.of_N r) src_parse_unescapes 0%Z, go_has_z (Z.of_N r) src_parse_unescapes).
Proof.
  unfold unescape_of, go_lookup_z, go_has_z. rewrite <- unescapes_table_matches_source.
  destruct (assoc r unescapes_table); reflexivity.
Qed.
