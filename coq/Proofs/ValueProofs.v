(* C20: laws of data/value.go's model (Model/Values.v).  The lemmas that tie the hand model to
   the regenerated Truthy/Equals tables are in Proofs/ValueTieProofs.v, the conversion
   theorems in Proofs/ConvertProofs.v. *)
From Coq Require Import Lia ZifyN ZifyBool Permutation Sorting.Sorted.
From Soy Require Import Model.Bytes Model.Num Model.Outcome Model.Values.
Open Scope N_scope.

(* ================= byte strings: equality and order ================= *)

Lemma bstr_eqb_spec x y : reflect (x = y) (bstr_eqb x y).
Proof.
  revert y; induction x as [|a x IH]; intros [|c y]; cbn [bstr_eqb]; try (constructor; congruence).
  destruct (N.eqb_spec a c) as [->|Hne]; cbn [andb].
  - destruct (IH y) as [->|Hne]; constructor; congruence.
  - constructor; congruence.
Qed.

Lemma bstr_eqb_refl x : bstr_eqb x x = true.
Proof. destruct (bstr_eqb_spec x x); congruence. Qed.

Lemma bstr_eqb_sym x y : bstr_eqb x y = bstr_eqb y x.
Proof. destruct (bstr_eqb_spec x y), (bstr_eqb_spec y x); congruence. Qed.

Lemma bstr_ltb_irrefl x : bstr_ltb x x = false.
Proof.
  induction x as [|a x IH]; cbn [bstr_ltb]; [reflexivity|].
  destruct (N.ltb_spec a a); [lia | exact IH].
Qed.

Lemma bstr_ltb_asym x y : bstr_ltb x y = true -> bstr_ltb y x = false.
Proof.
  revert y; induction x as [|a x IH]; intros [|c y]; cbn [bstr_ltb]; try congruence.
  destruct (N.ltb_spec a c), (N.ltb_spec c a); try congruence; try lia; try apply IH.
Qed.

Lemma bstr_ltb_trichotomy x y : bstr_ltb x y = false -> bstr_ltb y x = false -> x = y.
Proof.
  revert y; induction x as [|a x IH]; intros [|c y]; cbn [bstr_ltb]; try congruence.
  destruct (N.ltb_spec a c), (N.ltb_spec c a); try congruence.
  intros H1 H2. assert (a = c) by lia. subst. f_equal. apply IH; assumption.
Qed.

Lemma bstr_ltb_trans x y z : bstr_ltb x y = true -> bstr_ltb y z = true -> bstr_ltb x z = true.
Proof.
  revert y z; induction x as [|a x IH]; intros [|c y] [|d z]; cbn [bstr_ltb]; try congruence.
  destruct (N.ltb_spec a c), (N.ltb_spec c a), (N.ltb_spec c d), (N.ltb_spec d c),
           (N.ltb_spec a d), (N.ltb_spec d a); try congruence; try lia.
  apply IH.
Qed.

Lemma bstr_leb_total x y : bstr_leb x y = true \/ bstr_leb y x = true.
Proof.
  unfold bstr_leb. destruct (bstr_ltb y x) eqn:H; [right | left; reflexivity].
  rewrite (bstr_ltb_asym _ _ H). reflexivity.
Qed.

Lemma bstr_leb_antisym x y : bstr_leb x y = true -> bstr_leb y x = true -> x = y.
Proof.
  unfold bstr_leb. rewrite !negb_true_iff. intros H1 H2. apply bstr_ltb_trichotomy; assumption.
Qed.

Lemma bstr_leb_trans x y z : bstr_leb x y = true -> bstr_leb y z = true -> bstr_leb x z = true.
Proof.
  unfold bstr_leb. rewrite !negb_true_iff. intros H1 H2.
  destruct (bstr_ltb z x) eqn:Hzx; [|reflexivity].
  destruct (bstr_ltb x y) eqn:Hxy.
  - rewrite (bstr_ltb_trans _ _ _ Hzx Hxy) in H2. discriminate.
  - rewrite (bstr_ltb_trichotomy _ _ Hxy H1) in Hzx. congruence.
Qed.

(* ================= insertion sort of a permutation ================= *)

Lemma insert_sorted_comm x y l :
  insert_sorted x (insert_sorted y l) = insert_sorted y (insert_sorted x l).
Proof.
  induction l as [|z r IH]; cbn [insert_sorted].
  - destruct (bstr_leb x y) eqn:Hxy, (bstr_leb y x) eqn:Hyx; try reflexivity.
    + rewrite (bstr_leb_antisym _ _ Hxy Hyx). reflexivity.
    + destruct (bstr_leb_total x y); congruence.
  - destruct (bstr_leb y z) eqn:Hyz, (bstr_leb x z) eqn:Hxz; cbn [insert_sorted].
    + rewrite Hyz, Hxz.
      destruct (bstr_leb x y) eqn:Hxy, (bstr_leb y x) eqn:Hyx; try reflexivity.
      * rewrite (bstr_leb_antisym _ _ Hxy Hyx). reflexivity.
      * destruct (bstr_leb_total x y); congruence.
    + rewrite Hyz, Hxz.
      destruct (bstr_leb x y) eqn:Hxy.
      * rewrite (bstr_leb_trans _ _ _ Hxy Hyz) in Hxz. discriminate.
      * reflexivity.
    + rewrite Hyz, Hxz.
      destruct (bstr_leb y x) eqn:Hyx.
      * rewrite (bstr_leb_trans _ _ _ Hyx Hxz) in Hyz. discriminate.
      * reflexivity.
    + rewrite Hyz, Hxz, IH. reflexivity.
Qed.

Theorem sort_strings_perm l l' : Permutation l l' -> sort_strings l = sort_strings l'.
Proof.
  unfold sort_strings. induction 1; cbn [fold_right].
  - reflexivity.
  - rewrite IHPermutation. reflexivity.
  - apply insert_sorted_comm.
  - congruence.
Qed.

(* ================= Equals ================= *)

Lemma Zcompare_eq_sym x y : (match (x ?= y)%Z with Eq => true | _ => false end) = (match (y ?= x)%Z with Eq => true | _ => false end).
Proof. rewrite (Z.compare_antisym x y). destruct (x ?= y)%Z; reflexivity. Qed.

Lemma fl_eqb_sym f g : fl_eqb f g = fl_eqb g f.
Proof.
  unfold fl_eqb. destruct f as [|a|a|m1 e1], g as [|c|c|m2 e2]; cbn [fl_cmp]; try reflexivity.
  - destruct a, c; reflexivity.
  - destruct a; reflexivity.
  - destruct a; reflexivity.
  - destruct c; reflexivity.
  - destruct (m2 <? 0)%Z; reflexivity.
  - destruct c; reflexivity.
  - destruct (m1 <? 0)%Z; reflexivity.
  - rewrite (Z.min_comm e2 e1). apply Zcompare_eq_sym.
Qed.

Theorem equals_sym a c : equals a c = equals c a.
Proof.
  destruct a, c; cbn [equals]; try reflexivity.
  - destruct x, x0; reflexivity.
  - apply Z.eqb_sym.
  - apply fl_eqb_sym.
  - apply bstr_eqb_sym.
  - apply N.eqb_sym.
  - apply N.eqb_sym.
Qed.

Lemma fl_eqb_refl f : f <> FNaN -> fl_eqb f f = true.
Proof.
  unfold fl_eqb. destruct f as [|a|a|m e]; cbn [fl_cmp]; try congruence; intros _.
  - destruct a; reflexivity.
  - rewrite Z.compare_refl. reflexivity.
Qed.

(* Equals is reflexive on every value except NaN (lists and maps: identity) *)
Theorem equals_refl_iff v : equals v v = true <-> v <> VFloat FNaN.
Proof.
  destruct v; cbn [equals]; try (split; [congruence | reflexivity]).
  - destruct x; (split; [congruence | reflexivity]).
  - rewrite Z.eqb_refl. split; [congruence | reflexivity].
  - destruct f; try (rewrite fl_eqb_refl by congruence; split; [congruence | reflexivity]).
    cbn. split; congruence.
  - rewrite bstr_eqb_refl. split; [congruence | reflexivity].
  - rewrite N.eqb_refl. split; [congruence | reflexivity].
  - rewrite N.eqb_refl. split; [congruence | reflexivity].
Qed.

(* values of different kinds are never equal, except Int against Float *)
Definition vkind (v : value) : N :=
  match v with
  | VUndef => 0 | VNull => 1 | VBool _ => 2 | VInt _ => 3 | VFloat _ => 4 | VStr _ => 5 | VList _ _ => 6 | VMap _ _ => 7
  end.
Definition numeric (v : value) : bool := match v with VInt _ | VFloat _ => true | _ => false end.

Theorem equals_kinds a c : equals a c = true -> vkind a = vkind c \/ (numeric a = true /\ numeric c = true).
Proof. destruct a, c; cbn; intros H; try discriminate; auto. Qed.

(* ---- Int against Float is comparison of the numbers ---- *)

(* the real number m * 2^e equals the integer x *)
Definition fl_is_int (f : fl) (x : Z) : Prop :=
  match f with
  | FZero _ => x = 0%Z
  | FFin m e => (m * 2 ^ (Z.max e 0) = x * 2 ^ (Z.max (- e) 0))%Z
  | _ => False
  end.

Lemma strip2_spec p e : let '(q, e') := strip2 p e in
  (Zpos p * 2 ^ e' = Zpos q * 2 ^ e' * 2 ^ (e' - e) /\ e <= e' /\ Zpos q <= Zpos p /\ Zpos p = Zpos q * 2 ^ (e' - e))%Z.
Proof.
  revert e; induction p as [p IH|p IH|]; intros e; cbn [strip2].
  - replace (e - e)%Z with 0%Z by lia. cbn. lia.
  - specialize (IH (e + 1)%Z). destruct (strip2 p (e + 1)) as [q e'].
    destruct IH as (_ & H2 & H3 & H4).
    assert (Zpos p~0 = Zpos q * 2 ^ (e' - e))%Z.
    { replace (e' - e)%Z with (Z.succ (e' - (e + 1)))%Z by lia. rewrite Z.pow_succ_r by lia. lia. }
    repeat split; try lia. rewrite H at 1. lia.
  - replace (e - e)%Z with 0%Z by lia. cbn. lia.
Qed.

Lemma strip2_odd p e : let '(q, _) := strip2 p e in match q with xO _ => False | _ => True end.
Proof. revert e; induction p; intros e; cbn [strip2]; auto. apply IHp. Qed.

Lemma pow2_pos k : (0 <= k -> 0 < 2 ^ k)%Z.
Proof. intros. apply Z.pow_pos_nonneg; lia. Qed.

Lemma pow2_split a c : (0 <= a -> 0 <= c -> 2 ^ (a + c) = 2 ^ a * 2 ^ c)%Z.
Proof. intros. apply Z.pow_add_r; lia. Qed.

(* x = q * 2^k with |x| <= 2^53 is accepted by mk_fl *)
Lemma strip_accept p (sgn : Z) : (Zpos p <= two53)%Z ->
  let '(q, k) := strip2 p 0 in
  ((Zpos q <? two53) && (-1000 <? k) && (k <? 900) = true /\ 0 <= k /\ Zpos p = Zpos q * 2 ^ k)%Z.
Proof.
  intros Hx.
  pose proof (strip2_spec p 0) as H. pose proof (strip2_odd p 0) as Ho.
  destruct (strip2 p 0) as [q k]. destruct H as (_ & Hk & Hq & Hp).
  replace (k - 0)%Z with k in Hp by lia.
  assert (Hk53 : (k <= 53)%Z).
  { destruct (Z.le_gt_cases k 53) as [|Hgt]; [assumption|].
    assert (2 ^ 54 <= 2 ^ k)%Z by (apply Z.pow_le_mono_r; lia).
    change (2 ^ 54)%Z with 18014398509481984%Z in *. unfold two53 in Hx. nia. }
  assert (Hq53 : (Zpos q < two53)%Z).
  { destruct (Z.eq_dec k 0) as [->|Hk0].
    - change (2 ^ 0)%Z with 1%Z in Hp. destruct (Z.eq_dec (Zpos q) two53) as [He|]; [|unfold two53 in *; lia].
      exfalso. unfold two53 in He. injection He as ->. exact Ho.
    - assert (2 <= 2 ^ k)%Z by (change 2%Z with (2 ^ 1)%Z at 1; apply Z.pow_le_mono_r; lia).
      unfold two53 in *. nia. }
  replace (Zpos q <? two53)%Z with true by (symmetry; apply Z.ltb_lt; assumption).
  replace (-1000 <? k)%Z with true by (symmetry; apply Z.ltb_lt; lia).
  replace (k <? 900)%Z with true by (symmetry; apply Z.ltb_lt; lia).
  cbn [andb]. repeat split; lia.
Qed.

(* up to 2^53 the conversion is exact: nothing is rounded *)
Lemma fl_of_int_exact x : (Z.abs x <= two53)%Z -> fl_of_int x = mk_fl x 0.
Proof.
  intros Hx. unfold fl_of_int, mk_fl_r.
  destruct (Z.eq_dec (Z.abs x) two53) as [E|E].
  - assert (Hc : x = two53 \/ x = (- two53)%Z) by lia. destruct Hc as [-> | ->]; reflexivity.
  - unfold round53. assert (HL : (Z.log2 (Z.abs x) + 1 <= 53)%Z).
    { destruct (Z.eq_dec x 0) as [->|N0]; [cbn; lia|].
      assert (Z.log2 (Z.abs x) < 53)%Z by (apply Z.log2_lt_pow2; [lia|change (2 ^ 53)%Z with two53; lia]). lia. }
    replace (Z.log2 (Z.abs x) + 1 <=? 53)%Z with true by lia. reflexivity.
Qed.

Lemma fl_of_int_small x : (Z.abs x <= two53)%Z ->
  match fl_of_int x with
  | Some (FZero false) => x = 0%Z
  | Some (FFin q k) => (0 <= k /\ x = q * 2 ^ k /\ q <> 0)%Z
  | _ => False
  end.
Proof.
  intros Hx. rewrite (fl_of_int_exact x Hx). unfold mk_fl. destruct x as [|p|p]; [reflexivity| |].
  - pose proof (strip_accept p 1) as H. destruct (strip2 p 0) as [q k].
    destruct H as (-> & Hk & Hp); [lia|]. repeat split; lia.
  - pose proof (strip_accept p 1) as H. destruct (strip2 p 0) as [q k].
    destruct H as (-> & Hk & Hp); [lia|]. repeat split; lia.
Qed.

Lemma fl_eqb_fin q k m e :
  fl_eqb (FFin q k) (FFin m e) = true <-> (q * 2 ^ (k - Z.min k e) = m * 2 ^ (e - Z.min k e))%Z.
Proof.
  unfold fl_eqb. cbn [fl_cmp].
  destruct (Z.compare_spec (q * 2 ^ (k - Z.min k e)) (m * 2 ^ (e - Z.min k e))); split; congruence || lia.
Qed.

(* canonical floats: the mantissa of a finite non-zero float is odd *)
Definition fl_canon (f : fl) : Prop := match f with FFin m _ => Z.odd m = true | _ => True end.

Theorem equals_int_float x f : fl_canon f -> (Z.abs x <= two53)%Z ->
  (equals (VInt x) (VFloat f) = true <-> fl_is_int f x).
Proof.
  intros Hc Hx. cbn [equals]. unfold int_float_eqb.
  pose proof (fl_of_int_small x Hx) as Hs.
  destruct (fl_of_int x) as [[| |[|]|q k]|]; try contradiction.
  - (* x = 0 *)
    subst x. destruct f as [|c| |m e]; cbn [fl_is_int]; try (split; [discriminate | contradiction]).
    + destruct c; (split; [discriminate | contradiction]).
    + split; intros; reflexivity.
    + cbn in Hc. assert (m <> 0)%Z by (intros ->; discriminate).
      assert (0 < 2 ^ Z.max e 0)%Z by (apply pow2_pos; lia).
      unfold fl_eqb; cbn [fl_cmp]. destruct (m <? 0)%Z; split; try discriminate; intros; nia.
  - destruct Hs as (Hk & Hxq & Hq0).
    destruct f as [|c|n|m e]; cbn [fl_is_int]; try (split; [discriminate | contradiction]).
    + unfold fl_eqb; cbn [fl_cmp]. destruct c; (split; [discriminate | contradiction]).
    + unfold fl_eqb; cbn [fl_cmp]. assert (0 < 2 ^ k)%Z by (apply pow2_pos; lia).
      destruct (q <? 0)%Z; split; try discriminate; intros; nia.
    + rewrite fl_eqb_fin. subst x.
      destruct (Z.le_gt_cases 0 e) as [He|He].
      * replace (Z.max e 0) with e by lia. replace (Z.max (- e) 0) with 0%Z by lia.
        change (2 ^ 0)%Z with 1%Z. rewrite Z.mul_1_r.
        set (mu := Z.min k e).
        assert (Hmu : (0 <= mu /\ mu <= k /\ mu <= e)%Z) by (unfold mu; lia).
        replace (2 ^ k)%Z with (2 ^ (k - mu) * 2 ^ mu)%Z by (rewrite <- pow2_split by lia; f_equal; lia).
        replace (2 ^ e)%Z with (2 ^ (e - mu) * 2 ^ mu)%Z by (rewrite <- pow2_split by lia; f_equal; lia).
        assert (0 < 2 ^ mu)%Z by (apply pow2_pos; lia).
        generalize dependent (2 ^ mu)%Z. generalize (2 ^ (k - mu))%Z (2 ^ (e - mu))%Z.
        intros A B M HM. split; intros Heq; [nia|]. apply (Z.mul_reg_r _ _ M); [lia | nia].
      * replace (Z.max e 0) with 0%Z by lia. replace (Z.max (- e) 0) with (- e)%Z by lia.
        change (2 ^ 0)%Z with 1%Z. rewrite Z.mul_1_r.
        replace (Z.min k e) with e by lia. replace (e - e)%Z with 0%Z by lia.
        change (2 ^ 0)%Z with 1%Z. rewrite Z.mul_1_r.
        replace (k - e)%Z with (k + - e)%Z by lia. rewrite pow2_split by lia.
        split; intros; lia.
Qed.

(* the same from the Float side *)
Corollary equals_float_int x f : fl_canon f -> (Z.abs x <= two53)%Z ->
  (equals (VFloat f) (VInt x) = true <-> fl_is_int f x).
Proof. intros. rewrite equals_sym. apply equals_int_float; assumption. Qed.

(* ================= Truthy ================= *)

Definition falsy_value (v : value) : Prop :=
  v = VUndef \/ v = VNull \/ v = VBool false \/ v = VInt 0 \/ (exists s, v = VFloat (FZero s)) \/ v = VFloat FNaN \/ v = VStr [].

Theorem truthy_table v : truthy v = false <-> falsy_value v.
Proof.
  unfold falsy_value. destruct v; cbn [truthy].
  - split; auto.
  - split; auto.
  - destruct x; split; auto; intros H; repeat (destruct H as [H|H]); try discriminate; destruct H; discriminate.
  - destruct (Z.eqb_spec z 0) as [->|Hne]; cbn [negb]; split; auto; intros H;
      repeat (destruct H as [H|H]); try discriminate; try (destruct H; discriminate). congruence.
  - destruct f; cbn; split; eauto 8; intros H; repeat (destruct H as [H|H]); try discriminate; destruct H; discriminate.
  - destruct s; split; auto 8; intros H; repeat (destruct H as [H|H]); try discriminate; destruct H; discriminate.
  - split; [discriminate|]. intros H; repeat (destruct H as [H|H]); try discriminate; destruct H; discriminate.
  - split; [discriminate|]. intros H; repeat (destruct H as [H|H]); try discriminate; destruct H; discriminate.
Qed.

(* ================= String: independence of the map iteration order ================= *)

(* the two inner loops of to_string, named *)
Definition list_items (f : nat) : list value -> outcome (list bstr) :=
  fix go (l : list value) : outcome (list bstr) :=
    match l with
    | [] => Ok []
    | x :: r => s <- to_string f x ;; rs <- go r ;; Ok (s :: rs)
    end.

Definition entry_string (f : nat) (x : value) : outcome bstr :=
  match x with VUndef => Ok s_undefined | _ => to_string f x end.

Definition map_items (f : nat) : list (bstr * value) -> outcome (list bstr) :=
  fix go (m : list (bstr * value)) : outcome (list bstr) :=
    match m with
    | [] => Ok []
    | (k, x) :: r => s <- entry_string f x ;; rs <- go r ;; Ok ((k ++ s_colon_sp ++ s) :: rs)
    end.

Lemma list_items_cons f x r :
  list_items f (x :: r) = (s <- to_string f x ;; rs <- list_items f r ;; Ok (s :: rs)).
Proof. reflexivity. Qed.
Lemma map_items_cons f k x r :
  map_items f ((k, x) :: r) = (s <- entry_string f x ;; rs <- map_items f r ;; Ok ((k ++ s_colon_sp ++ s) :: rs)).
Proof. reflexivity. Qed.

Lemma to_string_list f i l :
  to_string (S f) (VList i l) = (items <- list_items f l ;; Ok ([91] ++ join s_comma_sp items ++ [93])).
Proof. reflexivity. Qed.

Lemma to_string_map f i m :
  to_string (S f) (VMap i m) = (items <- map_items f m ;; Ok ([123] ++ join s_comma_sp (sort_strings items) ++ [125])).
Proof. reflexivity. Qed.

Lemma bind_ok {A B} (x : outcome A) (g : A -> outcome B) r :
  bind x g = Ok r -> exists a, x = Ok a /\ g a = Ok r.
Proof. destruct x; cbn; try discriminate. eauto. Qed.

(* v' is v with the entries of its maps (at any depth) listed in another order *)
Inductive vperm : value -> value -> Prop :=
| vp_refl v : vperm v v
| vp_list i l l' : Forall2 vperm l l' -> vperm (VList i l) (VList i l')
| vp_map i m m1 m' :
    Forall2 (fun a c => fst a = fst c /\ vperm (snd a) (snd c)) m m1 ->
    Permutation m1 m' -> vperm (VMap i m) (VMap i m').

Lemma map_items_perm f m m' ss :
  Permutation m m' -> map_items f m = Ok ss -> exists ss', map_items f m' = Ok ss' /\ Permutation ss ss'.
Proof.
  intros HP; revert ss; induction HP as [|[k x] m m' HP IH|[k x] [k2 x2] m|m m2 m3 _ IH1 _ IH2]; intros ss H.
  - exists ss. split; [assumption | apply Permutation_refl].
  - rewrite ?map_items_cons in *. apply bind_ok in H as (s & Hs & H). apply bind_ok in H as (rs & Hrs & H).
    injection H as <-. destruct (IH _ Hrs) as (rs' & Hrs' & HP').
    rewrite Hs, Hrs'. cbn. eexists; split; [reflexivity | constructor; assumption].
  - rewrite ?map_items_cons in *. apply bind_ok in H as (s2 & Hs2 & H). apply bind_ok in H as (rs0 & H0 & H).
    injection H as <-. apply bind_ok in H0 as (s & Hs & H0). apply bind_ok in H0 as (rs & Hrs & H0).
    injection H0 as <-. rewrite Hs, Hs2, Hrs. cbn. eexists; split; [reflexivity | apply perm_swap].
  - destruct (IH1 _ H) as (s2 & H2 & P2). destruct (IH2 _ H2) as (s3 & H3 & P3).
    exists s3. split; [assumption | eapply Permutation_trans; eassumption].
Qed.

Theorem to_string_vperm f : forall v v' s, vperm v v' -> to_string f v = Ok s -> to_string f v' = Ok s.
Proof.
  induction f as [|f IH]; intros v v' s HV H; [discriminate|].
  destruct HV as [v|i l l' HF|i m m1 m' HF HP]; [assumption| |].
  - rewrite to_string_list in *. apply bind_ok in H as (items & Hi & H). injection H as <-.
    assert (list_items f l' = Ok items) as ->; [|reflexivity].
    revert items Hi. induction HF as [|x x' l l' Hx _ IHF]; intros items Hi; [assumption|].
    rewrite ?list_items_cons in *. apply bind_ok in Hi as (s & Hs & Hi). apply bind_ok in Hi as (rs & Hrs & Hi).
    injection Hi as <-. rewrite (IH _ _ _ Hx Hs), (IHF _ Hrs). reflexivity.
  - rewrite to_string_map in *. apply bind_ok in H as (items & Hi & H). injection H as <-.
    assert (map_items f m1 = Ok items) as H1.
    { clear HP. revert items Hi. induction HF as [|[k x] [k' x'] m m1 [Hk Hx] _ IHF]; intros items Hi; [assumption|].
      cbn [fst snd] in Hk, Hx. subst k'.
      rewrite ?map_items_cons in *. apply bind_ok in Hi as (s & Hs & Hi). apply bind_ok in Hi as (rs & Hrs & Hi).
      injection Hi as <-. rewrite (IHF _ Hrs).
      assert (entry_string f x' = Ok s) as ->; [|reflexivity].
      unfold entry_string in *. destruct Hx as [x|? ? ? HF'|? ? ? ? HF' HP'].
      - assumption.
      - eapply IH; [apply vp_list; eassumption | exact Hs].
      - eapply IH; [eapply vp_map; eassumption | exact Hs]. }
    destruct (map_items_perm f _ _ _ HP H1) as (items' & -> & HPi).
    cbn. rewrite (sort_strings_perm _ _ HPi). reflexivity.
Qed.

(* enough fuel is enough *)
Lemma fold_max_le {A} (d : A -> nat) x l : In x l -> (d x <= fold_right (fun y acc => Nat.max (d y) acc) 0 l)%nat.
Proof. induction l as [|y l IH]; cbn; [tauto|]. intros [->|H]; [lia | specialize (IH H); lia]. Qed.

Lemma to_string_fuel : forall f' f v s, to_string f v = Ok s -> (depth v < f')%nat -> to_string f' v = Ok s.
Proof.
  induction f' as [|f' IH]; intros f v s H Hd; [lia|].
  destruct f as [|f]; [discriminate|].
  destruct v as [| |x|z|x|t|i l|i m]; try exact H.
  - rewrite to_string_list in *. apply bind_ok in H as (items & Hi & H). injection H as <-.
    assert (list_items f' l = Ok items) as ->; [|reflexivity].
    assert (Hall : forall x, In x l -> (depth x < f')%nat).
    { intros x Hx. pose proof (fold_max_le depth x l Hx). cbn [depth] in Hd. lia. }
    clear Hd. revert items Hi. induction l as [|x l IHl]; intros items Hi; [assumption|].
    rewrite ?list_items_cons in *. apply bind_ok in Hi as (s & Hs & Hi). apply bind_ok in Hi as (rs & Hrs & Hi).
    injection Hi as <-. rewrite (IH _ _ _ Hs (Hall x (or_introl eq_refl))), (IHl (fun y Hy => Hall y (or_intror Hy)) _ Hrs).
    reflexivity.
  - rewrite to_string_map in *. apply bind_ok in H as (items & Hi & H). injection H as <-.
    assert (map_items f' m = Ok items) as ->; [|reflexivity].
    assert (Hall : forall kx, In kx m -> (depth (snd kx) < f')%nat).
    { intros kx Hx. pose proof (fold_max_le (fun kx => depth (snd kx)) kx m Hx). cbn [depth] in Hd. lia. }
    clear Hd. revert items Hi. induction m as [|[k x] m IHm]; intros items Hi; [assumption|].
    rewrite ?map_items_cons in *. apply bind_ok in Hi as (s & Hs & Hi). apply bind_ok in Hi as (rs & Hrs & Hi).
    injection Hi as <-. rewrite (IHm (fun y Hy => Hall y (or_intror Hy)) _ Hrs).
    assert (entry_string f' x = Ok s) as ->; [|reflexivity].
    unfold entry_string in *. destruct x; try exact Hs;
      apply (IH _ _ _ Hs (Hall (k, _) (or_introl eq_refl))).
Qed.

(* printing does not depend on the order in which the entries of any map are enumerated *)
Theorem value_string_vperm v v' s : vperm v v' -> value_string v = Ok s -> value_string v' = Ok s.
Proof.
  unfold value_string. intros HV H. apply (to_string_fuel _ (S (depth v))); [|lia].
  eapply to_string_vperm; eassumption.
Qed.

Lemma Forall2_self {A} (R : A -> A -> Prop) l : (forall x, R x x) -> Forall2 R l l.
Proof. intros HR. induction l; constructor; auto. Qed.

(* the statement for one map: any two enumerations of the same entries print alike *)
Theorem map_string_order_independent i m m' s :
  Permutation m m' -> (value_string (VMap i m) = Ok s <-> value_string (VMap i m') = Ok s).
Proof.
  intros HP. split; apply value_string_vperm; eapply vp_map; try eassumption.
  - apply Forall2_self. intros; split; [reflexivity | apply vp_refl].
  - apply Forall2_self. intros; split; [reflexivity | apply vp_refl].
  - apply Permutation_sym. assumption.
Qed.

(* printing is a function: the model has no hidden state (stated for the record) *)
Theorem to_string_deterministic v s1 s2 : value_string v = Ok s1 -> value_string v = Ok s2 -> s1 = s2.
Proof. congruence. Qed.
