(* C17 at command level, part 1: the primitives of Model/Parser.v (next, peek, backup, expect,
   the lifted expression parser) on a state described by the items it will deliver, and the
   "returns a, leaving rest, for every large enough fuel" predicates, in the style of
   Proofs/ExprParserRules.v. *)
From Soy Require Import Model.Bytes Model.Outcome Model.Ast Model.Token Model.RawText Model.ExprParser Model.Parser Generated.Tables
  Spec.ExprSyntax Spec.CmdSyntax Proofs.ExprParserRules.
From Coq Require Import Lia.
Open Scope N_scope.

(* every state the rules talk about is [set_ps s p sc]: the base state s (namespace, aliases,
   inmsg flag) with the token plumbing p and the log of nested scanners sc *)
Definition set_ps (s : cst) (p : pst) (sc : list scanrec) : cst :=
  {| c_p := p; c_ns := c_ns s; c_al := c_al s; c_inmsg := c_inmsg s; c_scans := sc |}.

Lemma set_ps_eta s : set_ps s (c_p s) (c_scans s) = s.
Proof. destruct s; reflexivity. Qed.

(* r f lf returns a in the state s with its token plumbing (and scanner log) replaced, for all large fuels *)
Definition cok2 {A} (r : nat -> nat -> cres A) (s : cst) (a : A) (rest : list tok) : Prop :=
  exists p' sc', stream p' = rest /\ inv p' /\
    exists f0, forall f lf, (f0 <= f)%nat -> (f0 <= lf)%nat -> r f lf = COk a (set_ps s p' sc').

(* the part of the state a body never changes: inside a {msg} or not, namespace, aliases *)
Definition base_ok (ns : bstr) (al : list (bstr * bstr)) (m : bool) (s : cst) : Prop :=
  c_inmsg s = m /\ c_ns s = ns /\ c_al s = al.

(* on every state with base (ns, al, m) that delivers ts *)
Definition CRun {A} (ns : bstr) (al : list (bstr * bstr)) (m : bool) (r : nat -> nat -> cst -> cres A)
           (ts : list tok) (a : A) (rest : list tok) : Prop :=
  forall s p sc, stream p = ts -> inv p -> base_ok ns al m s -> cok2 (fun f lf => r f lf (set_ps s p sc)) s a rest.

Lemma base_ok_inmsg ns al m s b : base_ok ns al m s -> base_ok ns al b (set_inmsg s b).
Proof. intros (_ & H1 & H2). repeat split; assumption. Qed.

Lemma cnext_spec p t l : stream p = t :: l -> inv p ->
  exists p1, (forall s sc, c_next (set_ps s p sc) = COk t (set_ps s p1 sc)) /\ stream p1 = l /\ inv p1 /\
             stream (p_backup p1) = t :: l /\ inv (p_backup p1).
Proof.
  intros Hs Hi. destruct (next_spec _ _ _ Hs Hi) as (p1 & Hn & H1 & H2 & H3 & H4).
  exists p1. split; [|auto]. intros s sc. unfold c_next. cbn [c_p set_ps]. replace (3 <=? p_peek p)%nat with false.
  - rewrite Hn. reflexivity.
  - symmetry. apply Nat.leb_gt. unfold inv in Hi. lia.
Qed.

Lemma cpeek_spec p t l : stream p = t :: l -> inv p ->
  exists p1, (forall s sc, c_peek (set_ps s p sc) = COk t (set_ps s p1 sc)) /\ stream p1 = t :: l /\ inv p1.
Proof.
  intros Hs Hi. destruct (peek_spec _ _ _ Hs Hi) as (p1 & Hn & H1 & H2).
  exists p1. split; [|auto]. intros s sc. unfold c_peek. cbn [c_p set_ps]. replace (3 <=? p_peek p)%nat with false.
  - rewrite Hn. reflexivity.
  - symmetry. apply Nat.leb_gt. unfold inv in Hi. lia.
Qed.

Section Base.
Variable inlen : N.

Lemma cexpect_spec typ ctx p t l : stream p = t :: l -> inv p -> t_typ t = typ ->
  exists p1, (forall s sc, c_expect inlen typ ctx (set_ps s p sc) = COk t (set_ps s p1 sc)) /\ stream p1 = l /\ inv p1.
Proof.
  intros Hs Hi Ht. destruct (cnext_spec _ _ _ Hs Hi) as (p1 & Hn & H1 & H2 & _).
  exists p1. split; [|auto]. intros s sc. unfold c_expect. rewrite Hn. cbn [cbind]. unfold tis. rewrite Ht, N.eqb_refl. reflexivity.
Qed.

(* the expression parser, lifted *)
Lemma lift_expr_spec ts e rest p : Parses 0 ts e rest -> stream p = ts -> inv p ->
  exists p1, stream p1 = rest /\ inv p1 /\
    exists f0, forall f s sc, (f0 <= f)%nat -> lift_expr inlen parse_expr f 0 (set_ps s p sc) = COk e (set_ps s p1 sc).
Proof.
  intros HP Hs Hi. destruct (HP p Hs Hi) as (p1 & H1 & H2 & f0 & HF).
  exists p1. split; [exact H1|]. split; [exact H2|]. exists f0. intros f s sc Hf.
  unfold lift_expr. cbn [c_p set_ps]. rewrite (HF f f Hf Hf). reflexivity.
Qed.
End Base.

(* stepping tactics on a state [set_ps s p sc].  Hs : stream p = t :: l, Hi : inv p; introduce p1
   (the plumbing after the step), Hn (the equation, for every base state and scanner log),
   Hs1 Hi1 (stream / invariant after), Hsb Hib (after backing up).  The arguments s / p are
   kept for readability only. *)
Ltac cnext0 s Hs Hi p1 Hn Hs1 Hi1 Hsb Hib :=
  destruct (cnext_spec _ _ _ Hs Hi) as (p1 & Hn & Hs1 & Hi1 & Hsb & Hib).
Ltac cnextp s p Hs Hi p1 Hn Hs1 Hi1 Hsb Hib :=
  destruct (cnext_spec p _ _ Hs Hi) as (p1 & Hn & Hs1 & Hi1 & Hsb & Hib).
Ltac cpeekp s p Hs Hi p1 Hn Hs1 Hi1 :=
  destruct (cpeek_spec p _ _ Hs Hi) as (p1 & Hn & Hs1 & Hi1).
Ltac cexpectp inlen ty ctx s p Hs Hi Ht p1 Hn Hs1 Hi1 :=
  destruct (cexpect_spec inlen ty ctx p _ _ Hs Hi Ht) as (p1 & Hn & Hs1 & Hi1).
Ltac cexprp inlen s p HP Hs Hi p1 Hs1 Hi1 f0 HF :=
  destruct (lift_expr_spec inlen _ _ _ p HP Hs Hi) as (p1 & Hs1 & Hi1 & f0 & HF).
(* c_backup on a state in normal form *)
Ltac cbk :=
  repeat match goal with
         | |- context [c_backup (set_ps ?s ?p ?sc)] => change (c_backup (set_ps s p sc)) with (set_ps s (p_backup p) sc)
         end.

Lemma tis_typ t c c' : t_typ t = c -> tis t c' = (c =? c').
Proof. intros <-. reflexivity. Qed.
Lemma tis_eq t c : t_typ t = c -> tis t c = true.
Proof. intros <-. unfold tis. apply N.eqb_refl. Qed.
Lemma tis_ne t c : t_typ t <> c -> tis t c = false.
Proof. intros H. unfold tis. apply N.eqb_neq. exact H. Qed.
