(* C17 at command level, part 1: the primitives of Model/Parser.v (next, peek, backup, expect,
   the lifted expression parser) on a state described by the items it will deliver, and the
   "returns a, leaving rest, for every large enough fuel" predicates, in the style of
   Proofs/ExprParserRules.v. *)
From Soy Require Import Model.Bytes Model.Outcome Model.Ast Model.Token Model.RawText Model.ExprParser Model.Parser Generated.Tables
  Spec.ExprSyntax Spec.CmdSyntax Proofs.ExprParserRules.
From Coq Require Import Lia.
Open Scope N_scope.

Definition cstream (s : cst) : list tok := stream (c_p s).
Definition cinv (s : cst) : Prop := inv (c_p s).

(* r f lf returns a in the state s with its token plumbing replaced, for all large fuels *)
Definition cok2 {A} (r : nat -> nat -> cres A) (s : cst) (a : A) (rest : list tok) : Prop :=
  exists p', stream p' = rest /\ inv p' /\
    exists f0, forall f lf, (f0 <= f)%nat -> (f0 <= lf)%nat -> r f lf = COk a (set_p s p').

(* on every state (outside a {msg}) that delivers ts *)
Definition CRun {A} (r : nat -> nat -> cst -> cres A) (ts : list tok) (a : A) (rest : list tok) : Prop :=
  forall s, cstream s = ts -> cinv s -> c_inmsg s = false -> cok2 (fun f lf => r f lf s) s a rest.

Lemma cstream_set_p s p : cstream (set_p s p) = stream p.
Proof. reflexivity. Qed.
Lemma cinv_set_p s p : cinv (set_p s p) = inv p.
Proof. reflexivity. Qed.

Lemma cnext_spec s t l : cstream s = t :: l -> cinv s ->
  exists p1, c_next s = COk t (set_p s p1) /\ stream p1 = l /\ inv p1 /\
             stream (p_backup p1) = t :: l /\ inv (p_backup p1).
Proof.
  intros Hs Hi. destruct (next_spec _ _ _ Hs Hi) as (p1 & Hn & H1 & H2 & H3 & H4).
  exists p1. unfold c_next. replace (3 <=? p_peek (c_p s))%nat with false.
  - rewrite Hn. auto.
  - symmetry. apply Nat.leb_gt. unfold cinv, inv in Hi. lia.
Qed.

Lemma cpeek_spec s t l : cstream s = t :: l -> cinv s ->
  exists p1, c_peek s = COk t (set_p s p1) /\ stream p1 = t :: l /\ inv p1.
Proof.
  intros Hs Hi. destruct (peek_spec _ _ _ Hs Hi) as (p1 & Hn & H1 & H2).
  exists p1. unfold c_peek. replace (3 <=? p_peek (c_p s))%nat with false.
  - rewrite Hn. auto.
  - symmetry. apply Nat.leb_gt. unfold cinv, inv in Hi. lia.
Qed.

Section Base.
Variable inlen : N.

Lemma cexpect_spec typ ctx s t l : cstream s = t :: l -> cinv s -> t_typ t = typ ->
  exists p1, c_expect inlen typ ctx s = COk t (set_p s p1) /\ stream p1 = l /\ inv p1.
Proof.
  intros Hs Hi Ht. destruct (cnext_spec _ _ _ Hs Hi) as (p1 & Hn & H1 & H2 & _).
  exists p1. unfold c_expect. rewrite Hn. cbn [cbind]. unfold tis. rewrite Ht, N.eqb_refl. auto.
Qed.

(* the expression parser, lifted *)
Lemma lift_expr_spec ts e rest s : Parses 0 ts e rest -> cstream s = ts -> cinv s ->
  exists p1, stream p1 = rest /\ inv p1 /\
    exists f0, forall f, (f0 <= f)%nat -> lift_expr inlen parse_expr f 0 s = COk e (set_p s p1).
Proof.
  intros HP Hs Hi. destruct (HP (c_p s) Hs Hi) as (p1 & H1 & H2 & f0 & HF).
  exists p1. split; [exact H1|]. split; [exact H2|]. exists f0. intros f Hf.
  unfold lift_expr. rewrite (HF f f Hf Hf). reflexivity.
Qed.
End Base.

(* stepping tactics.  [cnext0]: the state is s itself; [cnextp]: the state is set_p s p.
   Hs : stream of the state = t :: l, Hi : its invariant; introduces p1 (the plumbing after the
   step), Hn (the equation), Hs1 Hi1 (stream / invariant after), Hsb Hib (after backing up) *)
Ltac cnext0 s Hs Hi p1 Hn Hs1 Hi1 Hsb Hib :=
  destruct (cnext_spec s _ _ Hs Hi) as (p1 & Hn & Hs1 & Hi1 & Hsb & Hib).
Ltac cnextp s p Hs Hi p1 Hn Hs1 Hi1 Hsb Hib :=
  destruct (cnext_spec (set_p s p) _ _ (Hs : cstream (set_p s p) = _) (Hi : cinv (set_p s p))) as (p1 & Hn & Hs1 & Hi1 & Hsb & Hib);
  change (set_p (set_p s p) p1) with (set_p s p1) in Hn.
Ltac cpeekp s p Hs Hi p1 Hn Hs1 Hi1 :=
  destruct (cpeek_spec (set_p s p) _ _ (Hs : cstream (set_p s p) = _) (Hi : cinv (set_p s p))) as (p1 & Hn & Hs1 & Hi1);
  change (set_p (set_p s p) p1) with (set_p s p1) in Hn.
Ltac cexpectp inlen ty ctx s p Hs Hi Ht p1 Hn Hs1 Hi1 :=
  destruct (cexpect_spec inlen ty ctx (set_p s p) _ _ (Hs : cstream (set_p s p) = _) (Hi : cinv (set_p s p)) Ht) as (p1 & Hn & Hs1 & Hi1);
  change (set_p (set_p s p) p1) with (set_p s p1) in Hn.
Ltac cexprp inlen s p HP Hs Hi p1 Hs1 Hi1 f0 HF :=
  destruct (lift_expr_spec inlen _ _ _ (set_p s p) HP (Hs : cstream (set_p s p) = _) (Hi : cinv (set_p s p))) as (p1 & Hs1 & Hi1 & f0 & HF);
  change (set_p (set_p s p) p1) with (set_p s p1) in HF.

Lemma tis_typ t c c' : t_typ t = c -> tis t c' = (c =? c').
Proof. intros <-. reflexivity. Qed.
Lemma tis_eq t c : t_typ t = c -> tis t c = true.
Proof. intros <-. unfold tis. apply N.eqb_refl. Qed.
Lemma tis_ne t c : t_typ t <> c -> tis t c = false.
Proof. intros H. unfold tis. apply N.eqb_neq. exact H. Qed.
