(* C15, scanner half for bodies with special-character commands: the items lex() sends for
   T0 {c1} T1 {c2} T2 ... (Spec/TextBody.v), described by [shape2]. *)
From Soy Require Import Model.Bytes Model.Utf8 Model.Outcome Model.Token Generated.Tables Model.Lexer Spec.Text Spec.TextBody
  Proofs.LexerPrim Proofs.LexerStates Proofs.LexerProofs Proofs.LexTokens Proofs.LexPrintTop
  Proofs.LexBodyText Proofs.LexBodyTop Proofs.LexBodySeg Proofs.LexBodyCmd Proofs.LexBodyLit.
From Coq Require Import ZifyBool ZifyNat ZifyN Lia.
Open Scope Z_scope.

(* the item list: per stretch its text item (none if the stretch is empty or white space with a line break),
   per command "{", the command's item, "}"; EOF last *)
Inductive shape2 : bstr -> list seg -> list tok -> Prop :=
| s2_end T txt e : is_text_of T txt -> t_typ e = itemEOF -> shape2 T [] (txt ++ [e])
| s2_cmd T txt n o T' rest ld c rd items :
    is_text_of T txt -> t_typ ld = itemLeftDelim -> assoc (t_typ c) parser_special_chars = Some o -> t_typ rd = itemRightDelim ->
    shape2 T' rest items -> shape2 T (((n, o), T') :: rest) (txt ++ ld :: c :: rd :: items)
| s2_lit T txt n o T' rest ld kw rd tx ld2 ke rd2 items :
    is_text_of T txt -> t_typ ld = itemLeftDelim -> t_typ kw = itemLiteral -> t_typ rd = itemRightDelim ->
    t_typ tx = itemText -> t_val tx = o -> t_typ ld2 = itemLeftDelim -> t_typ ke = itemLiteralEnd -> t_typ rd2 = itemRightDelim ->
    shape2 T' rest items -> shape2 T (((n, o), T') :: rest) (txt ++ ld :: kw :: rd :: tx :: ld2 :: ke :: rd2 :: items).

Section Main.
Variable uni_letter uni_digit : Z -> bool.
Hypothesis letter_ascii : forall c, (c < 128)%N -> uni_letter (Z.of_N c) = ((65 <=? c) && (c <=? 90) || (97 <=? c) && (c <=? 122))%N.
Hypothesis digit_ascii : forall c, (c < 128)%N -> uni_digit (Z.of_N c) = digit_b c.
Hypothesis letter_eof : uni_letter (-1) = false.
Hypothesis digit_eof : uni_digit (-1) = false.
Variable inp : bstr.
Notation steps := (steps uni_letter uni_digit inp 0).
Notation span := (span inp).
Notation ilen := (Z.of_nat (length inp)).

Lemma fuel_ok' l w s : span l w s -> (length s < loop_fuel ilen l)%nat.
Proof. intros Hs. pose proof (span_bounds _ _ _ _ Hs) as (Hb & Hl). unfold loop_fuel. lia. Qed.

Lemma rest_src_tag r : tag_or_end (rest_src r).
Proof. destruct r as [|[[n o] T] r']; [left; reflexivity|right; eexists; reflexivity]. Qed.

Lemma lex_body_run : forall rest T l, span l [] (T ++ rest_src rest) -> l_dd l = false ->
  stretch_ok (pwof 0 l) T -> Forall seg_ok rest ->
  exists k l' items, steps k LText l = Ok (LDone, l') /\ l_out l' = rev items ++ l_out l /\ shape2 T rest items.
Proof.
  induction rest as [|[[n o] T'] r IH]; intros T l Hs Hdd [Hpl Hpc] Hrest.
  - cbn [rest_src] in Hs.
    destruct (text_plain_run inp (length T) T (le_n _) [] l 0 (loop_fuel ilen l) T [] Hs (fuel_ok' _ _ _ Hs) Hpl (or_introl eq_refl)
                (fun _ => eq_refl) ltac:(intros E; congruence) Hpc) as (st' & l' & Hrun & _ & (txt & Htx & _ & Hres)).
    destruct Hres as [(_ & -> & e & He & Ho)|(A & _)]; [|congruence].
    exists 1%nat, l', (txt ++ [e]). split; [apply steps_one; exact Hrun|]. split; [rewrite Ho, rev_app_distr; reflexivity|].
    apply s2_end; assumption.
  - inversion Hrest as [|? ? [Hcmd Hok'] Hrest']; subst. cbn [fst snd] in Hcmd, Hok'.
    destruct (text_plain_run inp (length T) T (le_n _) [] l 0 (loop_fuel ilen l) T (rest_src (((n, o), T') :: r)) Hs (fuel_ok' _ _ _ Hs) Hpl
                (rest_src_tag _) (fun _ => eq_refl) ltac:(intros E; congruence) Hpc) as (st' & l1 & Hrun & _ & (txt & Htx & Hdd1 & Hres)).
    destruct Hres as [(A & _)|(_ & -> & Ho1 & Hs1 & _)]; [discriminate A|].
    cbn [rest_src] in Hs1.
    destruct Hcmd as [Hcmd|(sp & Hsp & Hname & Hcl)].
    + destruct (lex_special_cmd uni_letter uni_digit letter_ascii digit_ascii letter_eof digit_eof inp l1 n o (T' ++ rest_src r) Hcmd Hs1)
        as (k2 & l2 & ld & c & rd & Hst2 & Hs2 & Ho2 & Hld & Hrd & Hc & Hla2 & Hv2 & Hdd2).
      assert (Hpw : pwof 0 l2 = false).
      { unfold pwof. rewrite Hla2, Hv2. reflexivity. }
      destruct (IH T' l2 Hs2 Hdd2 ltac:(rewrite Hpw; exact Hok') Hrest') as (k3 & l3 & items & Hst3 & Ho3 & Hsh).
      exists (1 + (k2 + k3))%nat, l3, (txt ++ ld :: c :: rd :: items). split.
      { assert (H1 : steps 1 LText l = Ok (LLeftDelim, l1)) by (apply steps_one; exact Hrun).
        rewrite (steps_app _ _ _ _ 1 _ _ _ _ _ H1), (steps_app _ _ _ _ k2 _ _ _ _ _ Hst2). exact Hst3. }
      split.
      { rewrite Ho3, Ho2, Ho1, rev_app_distr. cbn [rev]. rewrite <- !app_assoc. reflexivity. }
      eapply s2_cmd; eassumption.
    + cbn [fst snd] in Hname, Hcl. subst n.
      destruct (lex_literal_cmd uni_letter uni_digit letter_ascii digit_ascii letter_eof digit_eof inp l1 sp o (T' ++ rest_src r) Hsp Hs1 Hcl)
        as (k2 & l2 & ld & kw & rd & tx & ld2 & ke & rd2 & Hst2 & Hs2 & Ho2 & A1 & A2 & A3 & A4 & A5 & A6 & A7 & A8 & Hla2 & Hv2 & Hdd2).
      assert (Hpw : pwof 0 l2 = false).
      { unfold pwof. rewrite Hla2, Hv2. reflexivity. }
      destruct (IH T' l2 Hs2 Hdd2 ltac:(rewrite Hpw; exact Hok') Hrest') as (k3 & l3 & items & Hst3 & Ho3 & Hsh).
      exists (1 + (k2 + k3))%nat, l3, (txt ++ ld :: kw :: rd :: tx :: ld2 :: ke :: rd2 :: items). split.
      { assert (H1 : steps 1 LText l = Ok (LLeftDelim, l1)) by (apply steps_one; exact Hrun).
        rewrite (steps_app _ _ _ _ 1 _ _ _ _ _ H1), (steps_app _ _ _ _ k2 _ _ _ _ _ Hst2). exact Hst3. }
      split.
      { rewrite Ho3, Ho2, Ho1, rev_app_distr. cbn [rev]. rewrite <- !app_assoc. reflexivity. }
      eapply s2_lit; eassumption.
Qed.

End Main.

(* lex(name, body_src T0 rest) *)
Theorem lex_body_cmds (uni_letter uni_digit : Z -> bool) :
  (forall c, (c < 128)%N -> uni_letter (Z.of_N c) = ((65 <=? c) && (c <=? 90) || (97 <=? c) && (c <=? 122))%N) ->
  (forall c, (c < 128)%N -> uni_digit (Z.of_N c) = digit_b c) ->
  uni_letter (-1) = false -> uni_digit (-1) = false ->
  forall T0 rest, stretch_ok true T0 -> Forall seg_ok rest ->
  exists items, lex_items uni_letter uni_digit (lex_budget (body_src T0 rest)) false (body_src T0 rest) = Ok items /\ shape2 T0 rest items.
Proof.
  intros Hla Hda Hle Hde T0 rest Hok Hrest. set (txt := body_src T0 rest).
  assert (Hs0 : span txt lex_init [] (T0 ++ rest_src rest)).
  { unfold span, lex_init. cbn [l_start l_pos length]. repeat split; try lia. }
  destruct (lex_body_run uni_letter uni_digit Hla Hda Hle Hde txt rest T0 lex_init Hs0 eq_refl Hok Hrest) as (k & l' & items & Hst & Ho & Hsh).
  destruct (lex_total_linear uni_letter uni_digit Hle Hde 0 ltac:(lia) false txt) as (lf & Hr & _).
  pose proof Hr as Hr'. rewrite lex_run_at_file in Hr'.
  pose proof (run_unique uni_letter uni_digit txt 0 (lex_budget txt) k LText lex_init lf l' Hr' Hst) as E.
  exists items. split; [|exact Hsh]. unfold lex_items, lex_run. rewrite Hr. cbn [bind]. subst lf. rewrite Ho.
  cbn [lex_init l_out]. rewrite app_nil_r, rev_involutive. reflexivity.
Qed.
