(* Float round trip, part 2: the decimal Num.shortest_decimal chooses lies in the rounding interval of
   the float it prints (whatever the digit search does: every exit of [shortest_from] is either the
   exact value or a candidate that passed [in_interval]), and stripping trailing zeros keeps it there. *)
From Soy Require Import Model.Bytes Model.Num Model.NumLit Proofs.NumLitProofs Proofs.FloatRtRound.
From Coq Require Import ZifyBool ZifyNat ZifyN Lia.
Open Scope Z_scope.

Lemma rt_pow10_pos k : 0 <= k -> 0 < pow10 k.
Proof. intros. unfold pow10. apply Z.pow_pos_nonneg; lia. Qed.

(* c 10^(-p) = x / den  puts (c, p) strictly between lo and hi *)
Lemma rt_exact_in incl lo hi den c p x :
  0 < den -> lo < x < hi ->
  (if 0 <=? p then x * pow10 p = c * den else x = c * (den * pow10 (- p))) ->
  in_interval incl lo hi den c p = true.
Proof.
  intros Hden Hx Hc. unfold in_interval, scaled_cmp.
  destruct (Z.leb_spec 0 p) as [Hp|Hp].
  - pose proof (rt_pow10_pos p Hp) as P.
    assert (G : Z.compare (c * den) (lo * pow10 p) = Gt) by (rewrite <- Hc; apply Z.compare_gt_iff; apply Z.mul_lt_mono_pos_r; lia).
    assert (L : Z.compare (c * den) (hi * pow10 p) = Lt) by (rewrite <- Hc; apply Z.compare_lt_iff; apply Z.mul_lt_mono_pos_r; lia).
    rewrite G, L. reflexivity.
  - replace (c * pow10 (- p) * den) with x by (rewrite Hc; ring).
    assert (G : Z.compare x lo = Gt) by (apply Z.compare_gt_iff; lia).
    assert (L : Z.compare x hi = Lt) by (apply Z.compare_lt_iff; lia).
    rewrite G, L. reflexivity.
Qed.

Lemma rt_shortest_from_sound fuel : forall n k incl x lo hi den c p,
  0 < den -> lo < x < hi ->
  shortest_from fuel n k incl x lo hi den = Some (c, p) ->
  in_interval incl lo hi den c p = true.
Proof.
  induction fuel as [|f IH]; intros n k incl x lo hi den c p Hden Hx H; [discriminate|].
  cbn [shortest_from] in H. cbv zeta in H.
  set (p0 := n - k) in *.
  set (tn := if 0 <=? p0 then x * pow10 p0 else x) in *.
  set (td := if 0 <=? p0 then den else den * pow10 (- p0)) in *.
  assert (Htd : 0 < td).
  { unfold td. destruct (Z.leb_spec 0 p0); [exact Hden|]. apply Z.mul_pos_pos; [exact Hden|apply rt_pow10_pos; lia]. }
  destruct (Z.eqb_spec (tn mod td) 0) as [Hr|Hr].
  - injection H as <- <-.
    pose proof (Z.div_mod tn td ltac:(lia)) as Hdm. rewrite Hr, Z.add_0_r in Hdm.
    apply (rt_exact_in incl lo hi den (tn / td) p0 x Hden Hx).
    unfold tn, td in *. destruct (Z.leb_spec 0 p0); [rewrite Hdm at 1; ring|rewrite Hdm at 1; ring].
  - destruct (in_interval incl lo hi den (tn / td) p0) eqn:Dok; destruct (in_interval incl lo hi den (tn / td + 1) p0) eqn:Uok; cbn [andb] in H.
    + injection H as <- <-. match goal with |- context [Z.compare ?a ?b] => destruct (Z.compare a b) end; [destruct (Z.even (tn / td))| |]; assumption.
    + injection H as <- <-. exact Dok.
    + injection H as <- <-. exact Uok.
    + exact (IH _ _ _ _ _ _ _ _ _ Hden Hx H).
Qed.

(* one trailing zero less: the same decimal *)
Lemma rt_scaled_cmp_strip c1 p n d : scaled_cmp (10 * c1) p n d = scaled_cmp c1 (p - 1) n d.
Proof.
  unfold scaled_cmp, pow10. destruct (Z.leb_spec 0 p) as [Hp|Hp]; destruct (Z.leb_spec 0 (p - 1)) as [Hp1|Hp1]; try lia.
  - replace p with (1 + (p - 1)) at 1 by lia. rewrite Z.pow_add_r by lia. change (10 ^ 1) with 10.
    replace (10 * c1 * d) with (10 * (c1 * d)) by ring. replace (n * (10 * 10 ^ (p - 1))) with (10 * (n * 10 ^ (p - 1))) by ring.
    symmetry. apply Zmult_compare_compat_l. lia.
  - replace p with 0 by lia. change (10 ^ 0) with 1. change (10 ^ (- (0 - 1))) with 10. f_equal; ring.
  - replace (- (p - 1)) with (1 + - p) by lia. rewrite Z.pow_add_r by lia. change (10 ^ 1) with 10. f_equal. ring.
Qed.

Lemma rt_strip10_sound fuel : forall c p c' p' incl lo hi den,
  strip10 fuel c p = (c', p') -> 0 < c ->
  in_interval incl lo hi den c p = true -> in_interval incl lo hi den c' p' = true /\ 0 < c'.
Proof.
  induction fuel as [|f IH]; intros c p c' p' incl lo hi den H Hc Hin.
  - cbn in H. injection H as <- <-. auto.
  - cbn [strip10] in H. destruct ((c mod 10 =? 0) && negb (c =? 0)) eqn:C.
    + assert (E : c = 10 * (c / 10)) by (pose proof (Z.div_mod c 10 ltac:(lia)); lia).
      apply (IH _ _ _ _ incl lo hi den H); [lia|].
      unfold in_interval in *. rewrite <- !rt_scaled_cmp_strip, <- E. exact Hin.
    + injection H as <- <-. auto.
Qed.

(* ---- from the candidate (c, p) to the fraction float_of_lit hands to round_ratio ---- *)
Definition rt_num (c p : Z) : Z := if 0 <=? - p then c * 10 ^ (- p) else c.
Definition rt_den (p : Z) : Z := if 0 <=? - p then 1 else 10 ^ p.

Lemma rt_den_pos p : 0 < rt_den p.
Proof. unfold rt_den. destruct (0 <=? - p) eqn:C; [lia|]. apply Z.pow_pos_nonneg; lia. Qed.

Lemma rt_scaled_is_cmp c p K s :
  scaled_cmp c p (K * (if 0 <=? s then 2 ^ s else 1)) (if 0 <=? s then 1 else 2 ^ (- s)) = rt_cmp (rt_num c p) (rt_den p) K s.
Proof.
  assert (EP : (if 0 <=? s then 2 ^ s else 1) = rt_P2 s).
  { unfold rt_P2. destruct (Z.leb_spec 0 s); [replace (Z.max 0 s) with s by lia|replace (Z.max 0 s) with 0 by lia]; reflexivity. }
  assert (EN : (if 0 <=? s then 1 else 2 ^ (- s)) = rt_N2 s).
  { unfold rt_N2. destruct (Z.leb_spec 0 s); [replace (Z.max 0 (- s)) with 0 by lia|replace (Z.max 0 (- s)) with (- s) by lia]; reflexivity. }
  rewrite EP, EN. unfold scaled_cmp, rt_cmp, rt_num, rt_den, pow10.
  destruct (Z.leb_spec 0 p) as [Hp|Hp]; destruct (Z.leb_spec 0 (- p)) as [Hq|Hq]; try lia.
  - replace p with 0 by lia. cbn [Z.opp]. rewrite Z.pow_0_r. f_equal; ring.
  - f_equal; ring.
  - f_equal; ring.
Qed.

(* how far the decimal exponent can be from zero *)
Lemma rt_shortest_from_p fuel : forall n k incl x lo hi den c p,
  shortest_from fuel n k incl x lo hi den = Some (c, p) -> n - k <= p < n - k + Z.of_nat fuel.
Proof.
  induction fuel as [|f IH]; intros n k incl x lo hi den c p H; [discriminate|].
  cbn [shortest_from] in H. cbv zeta in H.
  match type of H with (if ?b then _ else _) = _ => destruct b end; [injection H as <- <-; lia|].
  match type of H with (if ?b then _ else _) = _ => destruct b end; [injection H as <- <-; lia|].
  match type of H with (if ?b then _ else _) = _ => destruct b end; [injection H as <- <-; lia|].
  match type of H with (if ?b then _ else _) = _ => destruct b end; [injection H as <- <-; lia|].
  apply IH in H. lia.
Qed.

Lemma rt_strip10_p fuel : forall c p c' p', strip10 fuel c p = (c', p') -> p - Z.of_nat fuel <= p' <= p.
Proof.
  induction fuel as [|f IH]; intros c p c' p' H.
  - cbn in H. injection H as <- <-. lia.
  - cbn [strip10] in H. destruct ((c mod 10 =? 0) && negb (c =? 0)); [apply IH in H; lia|injection H as <- <-; lia].
Qed.

Lemma rt_dec_exponent_range num den k : dec_exponent num den = Some k ->
  let k0 := ((Z.log2 num - Z.log2 den) * 30103) / 100000 in k0 - 1 <= k <= k0 + 2.
Proof.
  unfold dec_exponent. cbv zeta. intros H. apply find_some in H as [Hin _].
  cbn [In] in Hin. lia.
Qed.

(* equal fractions compare alike *)
Lemma rt_cmp_frac_eq n d n' d' K t : 0 < d -> 0 < d' -> n * d' = n' * d -> rt_cmp n d K t = rt_cmp n' d' K t.
Proof.
  intros Hd Hd' E. unfold rt_cmp.
  rewrite <- (rt_compare_scale (n * rt_N2 t) (K * rt_P2 t * d) d' Hd').
  rewrite <- (rt_compare_scale (n' * rt_N2 t) (K * rt_P2 t * d') d Hd).
  replace (n * rt_N2 t * d') with (n * d' * rt_N2 t) by ring. rewrite E. f_equal; ring.
Qed.

(* the statement about Num.shortest_decimal the string level uses *)
Theorem rt_shortest_decimal_sound (q : positive) (e : Z) ds dp :
  podd q -> Zpos q < two53 -> -1000 < e < 900 ->
  shortest_decimal (Zpos q) e = Some (ds, dp) ->
  exists c p, 0 < c /\ ds = dec_of_Z c /\ dp = Z.of_nat (length ds) - p /\ -350 < p < 350 /\
    forall neg n d, 0 < n -> 0 < d -> n * rt_den p = rt_num c p * d ->
      round_ratio neg n d = FRVal (FFin (if neg then Zneg q else Zpos q) e).
Proof.
  intros Hodd Hq53 He H. unfold shortest_decimal in H. cbv zeta in H.
  set (shift := 53 - (Z.log2 (Zpos q) + 1)) in *.
  set (s := e - shift - 2) in *.
  set (X := 4 * Zpos q * 2 ^ shift) in *.
  set (LO := if Zpos q =? 1 then X - 1 else X - 2) in *.
  set (sc := if 0 <=? s then 2 ^ s else 1) in *.
  set (den := if 0 <=? s then 1 else 2 ^ (- s)) in *.
  destruct (dec_exponent (X * sc) den) as [k|] eqn:DE; [|discriminate].
  destruct (shortest_from 17 1 k (1 <=? shift) (X * sc) (LO * sc) ((X + 2) * sc) den) as [[c0 p0]|] eqn:SF; [|discriminate].
  destruct (strip10 20 c0 p0) as [c p] eqn:ST. injection H as <- <-.
  pose proof (rt_shift_range q e Hq53) as Hs. fold shift in Hs.
  pose proof (rt_M_range q e Hq53) as HM. fold shift in HM.
  assert (Hsc : 0 < sc) by (unfold sc; destruct (Z.leb_spec 0 s); [apply Z.pow_pos_nonneg|]; lia).
  assert (Hden : 0 < den) by (unfold den; destruct (Z.leb_spec 0 s); [|apply Z.pow_pos_nonneg]; lia).
  assert (HX : X = 4 * (Zpos q * 2 ^ shift)) by (unfold X; ring).
  assert (HLO : 0 < LO /\ LO < X) by (unfold LO; destruct (Zpos q =? 1); lia).
  assert (Hx : LO * sc < X * sc < (X + 2) * sc) by (split; apply Z.mul_lt_mono_pos_r; lia).
  pose proof (rt_shortest_from_sound 17 1 k (1 <=? shift) _ _ _ den c0 p0 Hden Hx SF) as Hin0.
  assert (Hc0 : 0 < c0).
  { unfold in_interval in Hin0. apply andb_prop in Hin0 as [A _]. unfold scaled_cmp in A.
    assert (0 < LO * sc) by (apply Z.mul_pos_pos; lia).
    destruct (Z.leb_spec 0 p0).
    - pose proof (rt_pow10_pos p0 ltac:(lia)). assert (0 < LO * sc * pow10 p0) by (apply Z.mul_pos_pos; lia).
      destruct (Z.compare_spec (c0 * den) (LO * sc * pow10 p0)); try discriminate; nia.
    - pose proof (rt_pow10_pos (- p0) ltac:(lia)).
      destruct (Z.compare_spec (c0 * pow10 (- p0) * den) (LO * sc)); try discriminate; nia. }
  destruct (rt_strip10_sound 20 c0 p0 c p (1 <=? shift) (LO * sc) ((X + 2) * sc) den ST Hc0 Hin0) as [Hin Hc].
  exists c, p. split; [exact Hc|]. split; [reflexivity|]. split; [reflexivity|]. split.
  { (* the range of the decimal exponent, from the bit lengths *)
    pose proof (rt_dec_exponent_range _ _ _ DE) as Hk. cbv zeta in Hk.
    pose proof (rt_shortest_from_p _ _ _ _ _ _ _ _ _ _ SF) as Hp0. pose proof (rt_strip10_p _ _ _ _ _ ST) as Hp.
    assert (Ha : 0 <= Z.log2 (X * sc) < 955).
    { split; [apply Z.log2_nonneg|]. apply Z.log2_lt_pow2; [apply Z.mul_pos_pos; lia|].
      assert (sc <= 2 ^ 900).
      { unfold sc. destruct (Z.leb_spec 0 s); [apply Z.pow_le_mono_r; unfold s; lia|]. apply (Z.pow_le_mono_r 2 0 900); lia. }
      assert (X < 2 ^ 55) by (rewrite HX; change (2 ^ 55) with (4 * 2 ^ 53); lia).
      replace 955 with (55 + 900) by lia. rewrite Z.pow_add_r by lia.
      assert (P9 : 0 < 2 ^ 900) by (apply Z.pow_pos_nonneg; lia).
      set (T := 2 ^ 900) in *. set (U := 2 ^ 55) in *.
      assert (X * sc <= X * T) by (apply Z.mul_le_mono_nonneg_l; lia).
      assert (X * T < U * T) by (apply Z.mul_lt_mono_pos_r; lia). lia. }
    assert (Hb : 0 <= Z.log2 den <= 1054).
    { split; [apply Z.log2_nonneg|]. unfold den. destruct (Z.leb_spec 0 s); [cbn; lia|].
      rewrite Z.log2_pow2 by lia. unfold s. lia. }
    lia. }
  intros neg n d Hn0 Hd0 Efr.
  unfold in_interval in Hin. apply andb_prop in Hin as [A B].
  unfold sc, den in A, B. rewrite rt_scaled_is_cmp in A, B.
  assert (Hn : 0 < rt_num c p).
  { unfold rt_num. destruct (0 <=? - p) eqn:C; [|exact Hc]. apply Z.mul_pos_pos; [exact Hc|apply Z.pow_pos_nonneg; lia]. }
  rewrite <- (rt_cmp_frac_eq n d _ _ LO s Hd0 (rt_den_pos p) Efr) in A.
  rewrite <- (rt_cmp_frac_eq n d _ _ (X + 2) s Hd0 (rt_den_pos p) Efr) in B.
  apply (rt_round_interval q e n d Hodd Hq53 He Hn0 Hd0).
  - unfold rt_LO, rt_incl. fold shift. change (e - shift - 2) with s.
    replace (if Zpos q =? 1 then 4 * (Zpos q * 2 ^ shift) - 1 else 4 * (Zpos q * 2 ^ shift) - 2) with LO by (unfold LO; rewrite HX; reflexivity).
    exact A.
  - unfold rt_HI, rt_incl. fold shift. change (e - shift - 2) with s.
    replace (4 * (Zpos q * 2 ^ shift) + 2) with (X + 2) by lia. exact B.
Qed.
