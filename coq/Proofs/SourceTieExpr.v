(* Source tie, family 71-gotrans-parser-preds (parse/parse.go), the expression-parser part:
   isBinaryOp / isUnaryOp / isValue and the precedence table that Model/ExprParser.v is written
   over (through tablegen's older table generators) against the same functions as gotrans
   translates them from today's source. *)
From Coq Require Import ZArith NArith Bool Lia ZifyBool ZifyN List.
From Soy Require Import Model.Bytes Generated.Tables Proofs.SourceTieBase.
Import ListNotations.
Open Scope N_scope.

(* Every lemma here is proved in two parts that do not look at the shape of the translated function (a switch, a
   chain of ||, an inverted switch with a default, a lookup in a set `map[itemType]bool`, a lookup in a table or a
   function of the item type): below 256 both sides are EVALUATED on every code, from 256 on every comparison with
   an item code is decided by lia.  (Item codes are the constants of one const block: far below 256.) *)
Ltac st_code_pred :=
  intros t; pattern t; apply (st_split_below _ 256); clear t;
  [ apply st_below_bool; vm_compute; reflexivity
  | intros t Ht;
    cbv [is_binary_op is_unary_op is_value is_binary_op_codes is_unary_op_codes is_value_codes mem existsb];
    st_unfold_tables; st_decide_lookups; cbv zeta; st_decide_ifs; first [reflexivity | bool_lia] ].

(* ---- isBinaryOp / isUnaryOp / isValue ---- *)
Lemma is_binary_op_matches_source : forall t : N, is_binary_op t = src_parse_isBinaryOp (Z.of_N t).
Proof. unfold src_parse_isBinaryOp. st_code_pred. Qed.

Lemma is_unary_op_matches_source : forall t : N, is_unary_op t = src_parse_isUnaryOp (Z.of_N t).
Proof. unfold src_parse_isUnaryOp. st_code_pred. Qed.

Lemma is_value_matches_source : forall t : N, is_value t = src_parse_isValue (Z.of_N t).
Proof. unfold src_parse_isValue. st_code_pred. Qed.

(* ---- precedence[tok.typ] / precedenceOf(tok.typ): a map literal (a missing key reads as 0) or a function of the item
   type in its role; gotrans emits src_parse_precedence_at for either ---- *)
Lemma prec_of_matches_source : forall t : N, Z.of_N (prec_of t) = src_parse_precedence_at (Z.of_N t).
Proof.
  intros t; pattern t; apply (st_split_below _ 256); clear t.
  - apply st_below_Z. vm_compute. reflexivity.
  - intros t Ht. unfold prec_of. rewrite assoc_none.
    + unfold src_parse_precedence_at.
      (* the function's own name is not mentioned: it exists in one of the two shapes only *)
      try match goal with |- _ = ?f _ => is_const f; unfold f end.
      st_unfold_tables. st_decide_lookups. cbv zeta. st_decide_ifs. reflexivity.
    + cbv [parser_prec_table map fst existsb]. lia.
Qed.
