(* Source tie, family 71-gotrans-parser-preds (parse/parse.go), the expression-parser part:
   isBinaryOp / isUnaryOp / isValue and the precedence table that Model/ExprParser.v is written
   over (through tablegen's older table generators) against the same functions as gotrans
   translates them from today's source. *)
From Coq Require Import ZArith NArith Bool Lia ZifyBool ZifyN List.
From Soy Require Import Model.Bytes Generated.Tables Proofs.SourceTieBase.
Import ListNotations.
Open Scope N_scope.

(* ---- isBinaryOp / isUnaryOp / isValue ---- *)
Lemma is_binary_op_matches_source (t : N) : is_binary_op t = src_parse_isBinaryOp (Z.of_N t).
Proof. unfold is_binary_op, src_parse_isBinaryOp. cbv [is_binary_op_codes mem existsb]. bool_lia. Qed.

Lemma is_unary_op_matches_source (t : N) : is_unary_op t = src_parse_isUnaryOp (Z.of_N t).
Proof. unfold is_unary_op, src_parse_isUnaryOp. cbv [is_unary_op_codes mem existsb]. bool_lia. Qed.

Lemma is_value_matches_source (t : N) : is_value t = src_parse_isValue (Z.of_N t).
Proof. unfold is_value, src_parse_isValue. cbv [is_value_codes mem existsb]. bool_lia. Qed.

(* ---- precedence[tok.typ] (a missing key reads as 0) ---- *)
Lemma prec_table_matches_source (t : N) :
  option_map Z.of_N (assoc t parser_prec_table) = go_assoc_z (Z.of_N t) src_parse_precedence.
Proof.
  apply (assoc_z_ext Z.of_N Z.eqb); [exact Z_eqb_true|vm_compute; reflexivity|vm_compute; reflexivity].
Qed.

Lemma prec_of_matches_source (t : N) : Z.of_N (prec_of t) = go_lookup_z (Z.of_N t) src_parse_precedence 0%Z.
Proof.
  unfold prec_of, go_lookup_z. rewrite <- prec_table_matches_source.
  destruct (assoc t parser_prec_table); reflexivity.
Qed.
