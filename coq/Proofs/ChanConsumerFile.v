(* parse.SoyFile itself (Model/Parser.v soy_file, with its own budget) read as the consumer program of
   Proofs/ChanConsumer.v: for the items of ANY scanner whose items are well-formed (what Proofs/LexParseBridge.v
   proves of the scanner model), every budget F >= |items| + 8 and every step bound k >= |items| + 4 give a
   program -- built without looking at the items -- that under every schedule of the two goroutines returns,
   if it returns, the tree or error of soy_file on those items.  (The program's two bounds are the only place
   where a number depending on the input enters: any larger numbers do.) *)
From Coq Require Import List Arith Lia.
Import ListNotations.
From Soy Require Import Model.Bytes Model.Ast Model.Token Model.ExprParser Model.Parser Model.Chan
  Proofs.ChanProofs Proofs.ParserProofs Proofs.ExprParserFuel Proofs.CmdParserFuel Proofs.RecvOnlyTok Proofs.ChanConsumer.

Section SoyFile.
Variable inlen : N.
Variable lexq : bstr -> list tok.
Variable unq : bstr -> option bstr.
Hypothesis Hq : lexq_wf lexq.

Lemma ro_big_fuel_is_soy_file ts F : items_wf inlen ts -> (length ts + 8 <= F)%nat ->
  parse_file inlen lexq unq parse_expr expr_fuel F ts = soy_file inlen lexq unq ts.
Proof.
  intros Hw HF.
  pose proof (parse_file_total inlen lexq unq Hq ts F Hw ltac:(lia)) as T1.
  pose proof (parse_file_total inlen lexq unq Hq ts (file_fuel ts) Hw ltac:(unfold file_fuel; lia)) as T2.
  unfold soy_file. unfold parse_file in *.
  rewrite (item_list_agree inlen lexq unq expr_fuel F (file_fuel ts) u_eof (cst_init ts)); [reflexivity| |].
  - intros E. rewrite E in T1. exact T1.
  - intros E. rewrite E in T2. exact T2.
Qed.

Theorem ro_chan_soy_file (p : Chan.prod tok) sched F k r0 :
  items_wf inlen (items p) -> (length (items p) + 8 <= F)%nat -> (length (items p) + 4 <= k)%nat ->
  g_cons (run zero_tok sched (cfg_init p (ro_parser_prog inlen lexq unq F k))) = CRet r0 ->
  match po_result (soy_file inlen lexq unq (items p)), r0 with
  | POk a q, COk a' s => a = a' /\ ro_pclear q = c_p s
  | PErr t c q, CErr t' c' s => t = t' /\ c = c' /\ ro_pclear q = c_p s
  | _, _ => False
  end.
Proof.
  intros Hw HF Hk Hret. set (ts := items p) in *.
  pose proof (parse_file_total inlen lexq unq Hq ts F Hw ltac:(lia)) as T1.
  pose proof (parse_linear inlen lexq unq Hq ts F Hw ltac:(lia)) as [L1 _].
  assert (Hobs : exists n d r, ro_file_obs inlen lexq unq F ts = Some (n, d, r) /\ (n <= k)%nat).
  { unfold ro_file_obs. unfold parse_file in T1, L1.
    destruct (item_list inlen lexq unq parse_expr expr_fuel F u_eof (cst_init ts)) as [a s|t c s|m|]; cbn in T1, L1; try contradiction.
    - eexists _, _, _. split; [reflexivity|lia].
    - eexists _, _, _. split; [reflexivity|lia]. }
  destruct Hobs as (n & d & r & Eobs & Hn).
  pose proof (ro_chan_parse_file inlen lexq unq F p sched k n d r r0 Eobs Hn Hret) as ->.
  destruct (ro_file_obs_parse_file inlen lexq unq F ts n d r Eobs) as [_ H].
  rewrite (ro_big_fuel_is_soy_file ts F Hw HF) in H. exact H.
Qed.
End SoyFile.
Print Assumptions ro_chan_soy_file.

(* ---------- parse.Expr (soy_expr: the repaired entry point, drained on every return) ---------- *)
Section SoyExpr.
Variable inlen : N.

Theorem ro_chan_soy_expr (p : Chan.prod tok) sched F k r0 :
  items_wf inlen (items p) -> (length (items p) + 8 <= F)%nat -> (length (items p) + 4 <= k)%nat ->
  g_cons (run zero_tok sched (cfg_init p (ro_expr_prog inlen true F k))) = CRet r0 ->
  match po_result (soy_expr inlen (items p)), r0 with
  | POk a q, POk a' q' => a = a' /\ ro_pclear q = q'
  | PErr t c q, PErr t' c' q' => t = t' /\ c = c' /\ ro_pclear q = q'
  | _, _ => False
  end.
Proof.
  intros Hw HF Hk Hret. set (ts := items p) in *.
  destruct (parse_expr_entry_post true inlen ts F Hw ltac:(lia)) as (T1 & L1 & _).
  destruct (parse_expr_entry_post true inlen ts (expr_fuel ts) Hw ltac:(unfold expr_fuel; lia)) as (T2 & _ & _).
  assert (EF : parse_expr F 0 (pst_init ts) = parse_expr (expr_fuel ts) 0 (pst_init ts)).
  { apply parse_expr_agree.
    - intros E. unfold parse_expr_entry in T1. rewrite E in T1. exact T1.
    - intros E. unfold parse_expr_entry in T2. rewrite E in T2. exact T2. }
  unfold soy_expr. unfold parse_expr_entry in *. rewrite <- EF.
  assert (Hobs : exists n d r, ro_expr_obs inlen true F ts = Some (n, d, r) /\ (n <= k)%nat /\
            match parse_expr F 0 (pst_init ts), r with
            | POk a q, POk a' q' => a = a' /\ ro_pclear q = q' /\ True
            | PErr t c q, PErr t' c' q' => t = t' /\ c = c' /\ ro_pclear q = q' /\ (t_pos t <=? inlen)%N = true
            | _, _ => False
            end).
  { unfold ro_expr_obs, ro_pobs.
    destruct (parse_expr F 0 (pst_init ts)) as [a q|t c q|m|]; cbn in T1, L1; try contradiction.
    - eexists _, _, _. split; [reflexivity|]. split; [lia|auto].
    - destruct (t_pos t <=? inlen)%N eqn:Ep; cbn in T1, L1; try contradiction.
      eexists _, _, _. split; [reflexivity|]. split; [lia|auto]. }
  destruct Hobs as (n & d & r & Eobs & Hn & Hrel).
  pose proof (ro_chan_parse_expr inlen true F p sched k n d r r0 Eobs Hn Hret) as ->.
  destruct (parse_expr F 0 (pst_init ts)) as [a q|t c q|m|]; destruct r as [a' q'|t' c' q'|m'|]; try contradiction.
  - destruct Hrel as (H1 & H2 & _). cbn [po_result]. auto.
  - destruct Hrel as (H1 & H2 & H3 & H4). rewrite H4. cbn [po_result]. auto.
Qed.
End SoyExpr.
Print Assumptions ro_chan_soy_expr.
