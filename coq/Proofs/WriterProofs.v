(* C12: a failing output writer always surfaces.  Two-run simulation between a
   render against a faulty writer automaton (calls_left / bytes_left) and the
   fault-free render, as a walker logic (Proofs/InterpLogic.v, Part B) for the
   predicate on computations

       wsim m  :=  forall st, sim st (m st) (m (unfault st))

   where [unfault st] is [st] with an unfailing writer.  [sim] says: the
   fault-free run extends the output by [new0]; and EITHER the faulty run
   returns the same outcome in the same state (up to the writer budgets, which
   decreased by exactly the calls and bytes of [new0]), OR the faulty run ended
   with the write error, what it accepted is a prefix of [new0], and a budget
   was smaller than [new0] needs. *)
From Soy Require Import Model.Bytes Model.Num Model.Values Model.Outcome Model.Ast
  Model.Escape Model.Directives Model.Print Generated.Tables Model.Interp Proofs.InterpLogic.
Require Import Lia ZifyBool ZifyNat ZifyN.
Open Scope N_scope.

(* ------------------------------------------------------------------ *)
(* byte-string facts *)

Lemma concat_b_app x y : concat_b (x ++ y) = concat_b x ++ concat_b y.
Proof. induction x as [|a x IH]; cbn; [reflexivity|]. rewrite IH, app_assoc. reflexivity. Qed.

(* the bytes of a reversed list of Write calls, in order *)
Definition acc (l : list bstr) : bstr := concat_b (rev l).
Lemma acc_app x y : acc (x ++ y) = acc y ++ acc x.
Proof. unfold acc. rewrite rev_app_distr, concat_b_app. reflexivity. Qed.
Lemma acc_nil : acc [] = [].
Proof. reflexivity. Qed.
Lemma acc_one w : acc [w] = w.
Proof. unfold acc. cbn. apply app_nil_r. Qed.

Lemma take_drop n s : take n s ++ drop n s = s.
Proof. revert s; induction n as [|n IH]; intros [|a s]; cbn; try reflexivity. rewrite IH. reflexivity. Qed.
Lemma take_length n s : (n <= length s)%nat -> length (take n s) = n.
Proof. revert s; induction n as [|n IH]; intros [|a s]; cbn; intros H; try reflexivity; try lia. rewrite IH; lia. Qed.

Definition prefix (p s : bstr) : Prop := exists rest, s = p ++ rest.
Lemma prefix_nil s : prefix [] s.
Proof. exists s. reflexivity. Qed.
Lemma prefix_refl s : prefix s s.
Proof. exists []. symmetry. apply app_nil_r. Qed.
Lemma prefix_app_r p s t : prefix p s -> prefix p (s ++ t).
Proof. intros [r ->]. exists (r ++ t). rewrite app_assoc. reflexivity. Qed.
Lemma prefix_app_l a p s : prefix p s -> prefix (a ++ p) (a ++ s).
Proof. intros [r ->]. exists r. rewrite app_assoc. reflexivity. Qed.
Lemma prefix_length p s : prefix p s -> (length p <= length s)%nat.
Proof. intros [r ->]. rewrite app_length. lia. Qed.

(* ------------------------------------------------------------------ *)
(* the simulation *)

Definition unfault (st : mstate) : mstate := set_out st (out st) None None.

Lemma unfault_idem st : unfault (unfault st) = unfault st.
Proof. reflexivity. Qed.

Definition calls_acct (cl cl' : option nat) (n : nat) : Prop :=
  match cl with None => cl' = None | Some k => exists k', cl' = Some k' /\ k = (k' + n)%nat end.
Definition bytes_acct (bl bl' : option N) (n : nat) : Prop :=
  match bl with None => bl' = None | Some k => exists k', bl' = Some k' /\ k = k' + N.of_nat n end.

(* a budget of [st] is too small for the writes [new0] *)
Definition starved (st : mstate) (new0 : list bstr) : Prop :=
  (exists k, calls_left st = Some k /\ (k < length new0)%nat) \/
  (exists k, bytes_left st = Some k /\ k < N.of_nat (length (acc new0))).

(* where the faulty run stopped: the call budget was exactly used up by whole Write calls of the
   fault-free run, or the byte budget was exactly filled *)
Definition stopped (st : mstate) (new new0 : list bstr) : Prop :=
  (calls_left st = Some (length new) /\ exists later, new0 = later ++ new) \/
  bytes_left st = Some (N.of_nat (length (acc new))).

Definition sim {A} (st : mstate) (faulty free : outcome A * mstate) : Prop :=
  let '(r, st') := faulty in
  let '(r0, st0') := free in
  exists new0,
    out st0' = new0 ++ out st /\ unfault st0' = st0' /\
    ((r = r0 /\ st0' = unfault st' /\
      calls_acct (calls_left st) (calls_left st') (length new0) /\
      bytes_acct (bytes_left st) (bytes_left st') (length (acc new0)))
     \/
     (r = Err e_write /\ starved st new0 /\
      exists new, out st' = new ++ out st /\ prefix (acc new) (acc new0) /\ stopped st new new0)).

Definition wsim {A} (m : M A) : Prop := forall st, sim st (m st) (m (unfault st)).

Lemma calls_acct_0 cl : calls_acct cl cl 0.
Proof. destruct cl; cbn; [eexists; split; [reflexivity | lia] | reflexivity]. Qed.
Lemma bytes_acct_0 bl : bytes_acct bl bl 0.
Proof. destruct bl; cbn; [eexists; split; [reflexivity | lia] | reflexivity]. Qed.
Lemma calls_acct_trans a b c n1 n2 : calls_acct a b n1 -> calls_acct b c n2 -> calls_acct a c (n2 + n1).
Proof.
  unfold calls_acct. destruct a as [k|].
  - intros (k1 & -> & ->) (k2 & -> & ->). eexists; split; [reflexivity | lia].
  - intros -> H. exact H.
Qed.
Lemma bytes_acct_trans a b c n1 n2 : bytes_acct a b n1 -> bytes_acct b c n2 -> bytes_acct a c (n1 + n2).
Proof.
  unfold bytes_acct. destruct a as [k|].
  - intros (k1 & -> & ->) (k2 & -> & ->). eexists; split; [reflexivity | lia].
  - intros -> H. exact H.
Qed.

(* a computation that neither touches nor looks at the writer *)
Definition writer_blind {A} (m : M A) : Prop :=
  forall st, m (unfault st) = (fst (m st), unfault (snd (m st))) /\
             out (snd (m st)) = out st /\ calls_left (snd (m st)) = calls_left st /\
             bytes_left (snd (m st)) = bytes_left st.

Lemma blind_wsim {A} (m : M A) : writer_blind m -> wsim m.
Proof.
  intros Hb st. destruct (Hb st) as (H1 & H2 & H3 & H4). rewrite H1.
  destruct (m st) as [r st'] eqn:Hm. cbn [fst snd] in *. cbn [sim].
  exists []. split; [cbn; unfold unfault; cbn; exact H2|]. split; [reflexivity|].
  left. split; [reflexivity|]. split; [reflexivity|]. rewrite H3, H4.
  split; [apply calls_acct_0 | apply bytes_acct_0].
Qed.

Lemma wsim_ret {A} (x : A) : wsim (ret x).
Proof. apply blind_wsim. intros st. cbn. auto. Qed.
Lemma wsim_fail {A} e : wsim (@fail A e).
Proof. apply blind_wsim. intros st. cbn. auto. Qed.
Lemma wsim_lift {A} (o : outcome A) : wsim (lift o).
Proof. apply blind_wsim. intros st. cbn. auto. Qed.
Lemma wsim_modify f :
  (forall st, f (unfault st) = unfault (f st)) ->
  (forall st, out (f st) = out st /\ calls_left (f st) = calls_left st /\ bytes_left (f st) = bytes_left st) ->
  wsim (modify f).
Proof.
  intros H1 H2. apply blind_wsim. intros st. unfold modify. cbn [fst snd].
  split; [rewrite H1; reflexivity | apply H2].
Qed.

Lemma starved_more st a b : starved st a -> starved st (b ++ a).
Proof.
  intros [(k & H1 & H2) | (k & H1 & H2)]; [left | right]; exists k; (split; [exact H1|]).
  - rewrite app_length. lia.
  - rewrite acc_app, app_length. lia.
Qed.

Lemma wsim_bind {A B} (m : M A) (f : A -> M B) : wsim m -> (forall x, wsim (f x)) -> wsim (mbind m f).
Proof.
  intros Hm Hf st. pose proof (Hm st) as H1.
  destruct (m st) as [r1 st1] eqn:Em. destruct (m (unfault st)) as [r1' st1'] eqn:Em'.
  cbn [sim] in H1. destruct H1 as (n0a & Hout1 & Hun1 & [ (-> & -> & Hc1 & Hb1) | (-> & Hst1 & new & Hnew & Hpre & Hstop) ]).
  - (* the first part ran identically *)
    destruct (classify r1') as [x|e] eqn:Hcl.
    + apply classify_ok in Hcl. subst r1'.
      rewrite (mbind_ok _ _ _ _ _ Em), (mbind_ok _ _ _ _ _ Em').
      pose proof (Hf x st1) as H2.
      destruct (f x st1) as [r2 st2]. destruct (f x (unfault st1)) as [r2' st2'].
      cbn [sim] in H2 |- *. destruct H2 as (n0b & Hout2 & Hun2 & H2).
      exists (n0b ++ n0a). change (out (unfault st1)) with (out st1) in Hout1.
      split; [rewrite Hout2, Hout1, app_assoc; reflexivity|]. split; [exact Hun2|].
      destruct H2 as [ (-> & -> & Hc2 & Hb2) | (-> & Hst2 & new & Hnew & Hpre & Hstop) ].
      * left. split; [reflexivity|]. split; [reflexivity|]. split.
        -- rewrite app_length. eapply calls_acct_trans; eauto.
        -- rewrite acc_app, app_length. eapply bytes_acct_trans; eauto.
      * right. split; [reflexivity|]. split.
        -- destruct Hst2 as [(k & Hk1 & Hk2) | (k & Hk1 & Hk2)]; [left | right].
           ++ unfold calls_acct in Hc1. destruct (calls_left st) as [k0|]; [|congruence].
              destruct Hc1 as (k' & Hk' & ->). rewrite Hk' in Hk1. inversion Hk1; subst.
              eexists; split; [reflexivity|]. rewrite app_length. lia.
           ++ unfold bytes_acct in Hb1. destruct (bytes_left st) as [k0|]; [|congruence].
              destruct Hb1 as (k' & Hk' & ->). rewrite Hk' in Hk1. inversion Hk1; subst.
              eexists; split; [reflexivity|]. rewrite acc_app, app_length. lia.
        -- exists (new ++ n0a). split; [rewrite Hnew, Hout1, app_assoc; reflexivity|].
           split; [rewrite !acc_app; apply prefix_app_l; exact Hpre|].
           destruct Hstop as [(Hk & later & ->) | Hk]; [left | right].
           ++ split; [|exists later; rewrite app_assoc; reflexivity].
              unfold calls_acct in Hc1. destruct (calls_left st) as [k0|]; [|congruence].
              destruct Hc1 as (k' & Hk' & ->). rewrite Hk' in Hk. inversion Hk; subst.
              rewrite app_length. reflexivity.
           ++ unfold bytes_acct in Hb1. destruct (bytes_left st) as [k0|]; [|congruence].
              destruct Hb1 as (k' & Hk' & ->). rewrite Hk' in Hk. inversion Hk; subst.
              rewrite acc_app, app_length. f_equal. lia.
    + apply classify_fault in Hcl. subst r1'.
      rewrite (mbind_fault _ _ _ _ _ Em), (mbind_fault _ _ _ _ _ Em').
      cbn [sim]. exists n0a. split; [exact Hout1|]. split; [exact Hun1|].
      left. auto.
  - (* the first part already hit the write error *)
    rewrite (mbind_fault m f st (FErr e_write) st1 Em).
    destruct (classify r1') as [x|e] eqn:Hcl.
    + apply classify_ok in Hcl. subst r1'. rewrite (mbind_ok _ _ _ _ _ Em').
      pose proof (Hf x st1') as H2. rewrite Hun1 in H2.
      destruct (f x st1') as [r2' st2'].
      cbn [sim] in H2 |- *. destruct H2 as (n0b & Hout2 & Hun2 & _).
      exists (n0b ++ n0a). split; [rewrite Hout2, Hout1, app_assoc; reflexivity|]. split; [exact Hun2|].
      right. split; [reflexivity|]. split; [apply starved_more; exact Hst1|].
      exists new. split; [exact Hnew|]. split; [rewrite acc_app; apply prefix_app_r; exact Hpre|].
      destruct Hstop as [(Hk & later & ->) | Hk]; [left | right; exact Hk].
      split; [exact Hk | exists (n0b ++ later); rewrite app_assoc; reflexivity].
    + apply classify_fault in Hcl. subst r1'. rewrite (mbind_fault _ _ _ _ _ Em').
      cbn [sim]. exists n0a. split; [exact Hout1|]. split; [exact Hun1|].
      right. split; [reflexivity|]. split; [exact Hst1|]. exists new. auto.
Qed.

(* a state read that does not look at the writer *)
Lemma wsim_read {X B} (g : mstate -> X) (f : X -> M B) :
  (forall st, g (unfault st) = g st) -> (forall x, wsim (f x)) -> wsim (st <-- get ;;; f (g st)).
Proof.
  intros Hg Hf st.
  change ((st <-- get ;;; f (g st)) st) with (f (g st) st).
  change ((st <-- get ;;; f (g st)) (unfault st)) with (f (g (unfault st)) (unfault st)).
  rewrite Hg. apply Hf.
Qed.

Lemma wsim_write w : wsim (write w).
Proof.
  intros st. pose proof (write_cases w st) as Hf. pose proof (write_cases w (unfault st)) as H0.
  destruct (write w st) as [r st']. destruct (write w (unfault st)) as [r0 st0']. cbn [fst snd] in Hf, H0.
  cbn [sim].
  inversion H0 as [buf rest Hb | Hb Hc | k Hb Hc Hy Hlt | Hb Hc Hfit]; subst r0 st0'.
  - (* into a capture buffer, both runs *)
    change (bufs (unfault st)) with (bufs st) in Hb.
    inversion Hf as [buf' rest' Hb' | Hb' | k' Hb' | Hb']; subst r st'; try congruence.
    rewrite Hb in Hb'. inversion Hb'; subst.
    exists []. split; [reflexivity|]. split; [reflexivity|].
    left. split; [reflexivity|]. split; [reflexivity|]. split; [apply calls_acct_0 | apply bytes_acct_0].
  - discriminate Hc.
  - discriminate Hy.
  - change (bufs (unfault st)) with (bufs st) in Hb.
    exists [w]. split; [reflexivity|]. split; [reflexivity|].
    inversion Hf as [buf' rest' Hb' | Hb' Hc' | k' Hb' Hc' Hy' Hlt' | Hb' Hc' Hfit']; subst r st'; try congruence.
    + (* refused *)
      right. split; [reflexivity|]. split.
      * left. exists 0%nat. split; [exact Hc' | cbn; lia].
      * exists []. split; [reflexivity|]. split; [apply prefix_nil|].
        left. split; [exact Hc' | exists [w]; reflexivity].
    + (* short write *)
      right. split; [reflexivity|]. split.
      * right. exists k'. split; [exact Hy' | rewrite acc_one; exact Hlt'].
      * exists [take (N.to_nat k') w]. split; [reflexivity|]. rewrite !acc_one.
        split; [exists (drop (N.to_nat k') w); symmetry; apply take_drop|].
        right. rewrite Hy', acc_one. f_equal. rewrite take_length; lia.
    + (* accepted *)
      left. split; [reflexivity|]. split; [reflexivity|]. cbn [calls_left bytes_left set_out length]. split.
      * unfold calls_acct. destruct (calls_left st) as [[|n]|]; [congruence | | reflexivity].
        cbn. eexists; split; [reflexivity | lia].
      * unfold bytes_acct. rewrite acc_one. destruct (bytes_left st) as [k|]; [|reflexivity].
        specialize (Hfit' k eq_refl). eexists; split; [reflexivity | lia].
Qed.

Lemma wsim_set k v : wsim (m_set k v).
Proof.
  apply blind_wsim. intros st. rewrite !m_set_eq. change (ctx (unfault st)) with (ctx st).
  destruct (ctx st) as [|f r]; cbn; [auto|]. destruct (f_origin f); cbn; auto.
Qed.
Lemma wsim_lookup k : wsim (m_lookup k).
Proof.
  apply blind_wsim. intros st. rewrite !m_lookup_eq. change (ctx (unfault st)) with (ctx st).
  destruct (sc_lookup (ctx st) k); cbn; auto.
Qed.
Lemma wsim_fresh_list l : wsim (fresh_list l).
Proof. apply blind_wsim. intros st. rewrite !fresh_list_eq. destruct l; cbn; auto. Qed.
Lemma wsim_fresh_list_or_nil l : wsim (fresh_list_or_nil l).
Proof. apply blind_wsim. intros st. rewrite !fresh_list_or_nil_eq. destruct l; cbn; auto. Qed.
Lemma wsim_fresh_map m : wsim (fresh_map m).
Proof. apply blind_wsim. intros st. cbn. auto. Qed.

Lemma wsim_push : wsim m_push.
Proof. apply wsim_modify; intros; cbn; auto. Qed.
Lemma wsim_pop : wsim m_pop.
Proof. apply wsim_modify; intros; cbn; auto. Qed.

Lemma wsim_eval (w : node -> M value) e : wsim (w e) -> wsim (eval w e).
Proof.
  intros Hw. unfold eval.
  apply (wsim_read cur (fun c => v <-- w e ;;; _ <-- modify (fun st => set_cur st c) ;;; ret v)); [reflexivity|].
  intros c. apply wsim_bind; [exact Hw|]. intros v. apply wsim_bind; [|intros; apply wsim_ret].
  apply wsim_modify; intros; cbn; auto.
Qed.

Lemma wsim_block (w : node -> M value) body : wsim (w body) -> wsim (render_block w body).
Proof.
  intros Hw. unfold render_block.
  apply wsim_bind; [apply wsim_modify; intros; cbn; auto|]. intros _.
  apply wsim_bind; [exact Hw|]. intros _.
  apply (wsim_read bufs (fun bs => match bs with
                                   | buf :: rest => _ <-- modify (fun st => set_bufs st rest) ;;; ret (concat_b (rev buf))
                                   | [] => fail e_impossible
                                   end)); [reflexivity|].
  intros [|buf rest]; [apply wsim_fail|].
  apply wsim_bind; [apply wsim_modify; intros; cbn; auto | intros; apply wsim_ret].
Qed.

Lemma wsim_enter (w : node -> M value) callee cd : wsim (w (t_node callee)) -> wsim (call_enter w callee cd).
Proof.
  intros Hw st. rewrite !call_enter_eq. cbn zeta.
  change (entered (unfault st) callee cd) with (unfault (entered st callee cd)).
  pose proof (Hw (entered st callee cd)) as H.
  destruct (w (t_node callee) (entered st callee cd)) as [r st2].
  destruct (w (t_node callee) (unfault (entered st callee cd))) as [r0 st2'].
  cbn [fst snd sim] in H |- *.
  destruct H as (n0 & Hout & Hun & H). exists n0.
  split; [exact Hout|]. split; [rewrite <- Hun at 2; reflexivity|].
  destruct H as [ (-> & -> & Hc & Hb) | (-> & Hst & new & Hnew & Hpre & Hstop) ].
  - left. split; [reflexivity|]. split; [reflexivity|]. split; [exact Hc | exact Hb].
  - right. split; [reflexivity|]. split; [exact Hst|]. exists new. split; [exact Hnew|]. split; [exact Hpre | exact Hstop].
Qed.

Theorem wsim_logic : walker_logic (@wsim) (fun _ _ => True).
Proof.
  constructor.
  - intros A m m' Heq Hm st. rewrite <- !Heq. apply Hm.
  - intros; apply wsim_ret.
  - intros; apply wsim_fail.
  - intros; apply wsim_lift.
  - intros; apply wsim_bind; assumption.
  - intros p. apply wsim_modify; intros; cbn; auto.
  - intros ae. apply wsim_modify; intros; cbn; auto.
  - apply wsim_write.
  - apply wsim_set.
  - apply wsim_lookup.
  - apply wsim_fresh_list.
  - apply wsim_fresh_list_or_nil.
  - apply wsim_fresh_map.
  - intros B f Hf. apply (wsim_read mode f); [reflexivity | exact Hf].
  - intros B f Hf. apply (wsim_read ctx f); [reflexivity | exact Hf].
  - intros m Hm. apply wsim_bind; [apply wsim_push|]. intros _. apply wsim_bind; [exact Hm|]. intros _.
    apply wsim_bind; [apply wsim_pop | intros; apply wsim_ret].
  - apply wsim_eval.
  - apply wsim_block.
  - apply wsim_enter.
Qed.

Theorem walk_wsim cf fuel n : wsim (walk cf fuel n).
Proof. apply (walk_logic cf _ _ wsim_logic). constructor; intros; exact Logic.I. Qed.

(* ------------------------------------------------------------------ *)
(* render *)
From Soy Require Import Spec.Writer.

Lemma prefix_prefix_of p s : prefix p s <-> prefix_of p s.
Proof. split; intros H; exact H. Qed.

Lemma render_notemplate cf fuel name id data cl bl fid :
  find_template (r_templates (c_reg cf)) name = None ->
  render cf fuel name id data cl bl fid =
  {| rr_outcome := Err e_notemplate; rr_writes := []; rr_file := []; rr_line := 0; rr_unbound := 0; rr_shared_writes := [] |}.
Proof. intros H. unfold render. rewrite H. reflexivity. Qed.

(* the two runs of one render: either identical, or the writer refused and the render says so *)
Theorem render_two_runs cf fuel name id data cl bl fid :
  let r := render cf fuel name id data cl bl fid in
  let r0 := render cf fuel name id data None None fid in
  (r = r0 /\ ~ refuses cl bl (rr_writes r0)) \/
  (refuses cl bl (rr_writes r0) /\ surfaced (rr_outcome r) /\ prefix_of (accepted r) (accepted r0) /\
   stopped_at cl bl (rr_writes r) (rr_writes r0)).
Proof.
  cbn zeta. destruct (find_template (r_templates (c_reg cf)) name) as [t|] eqn:Hf.
  2:{ rewrite !(render_notemplate _ _ _ _ _ _ _ _ Hf). left. split; [reflexivity|].
      intros [(k & _ & Hk) | (k & _ & Hk)]; cbn in Hk; lia. }
  unfold render. rewrite Hf.
  set (st0 := init_state (sc_enter (new_scope id data)) (entry_mode (t_ns_autoescape t)) name cl bl fid).
  change (init_state (sc_enter (new_scope id data)) (entry_mode (t_ns_autoescape t)) name None None fid)
    with (unfault st0).
  pose proof (walk_wsim cf fuel (t_node t) st0) as H.
  destruct (walk cf fuel (t_node t) st0) as [r st]. destruct (walk cf fuel (t_node t) (unfault st0)) as [r0 st0'].
  cbn [sim] in H. destruct H as (n0 & Hout & _ & H).
  change (out st0) with (@nil bstr) in Hout. rewrite app_nil_r in Hout.
  destruct H as [ (-> & -> & Hc & Hb) | (-> & Hst & new & Hnew & Hpre & Hstop) ].
  - left. split; [reflexivity|].
    assert (Hw : forall o f l, rr_writes
      ({| rr_outcome := o; rr_writes := rev (out (unfault st)); rr_file := f; rr_line := l;
          rr_unbound := unbound (unfault st); rr_shared_writes := shared_writes (unfault st) |}) = rev n0).
    { intros. cbn [rr_writes]. rewrite Hout. reflexivity. }
    assert (Hws : rr_writes
      (match r0 with
       | Ok _ => {| rr_outcome := Ok tt; rr_writes := rev (out (unfault st)); rr_file := []; rr_line := 0;
                    rr_unbound := unbound (unfault st); rr_shared_writes := shared_writes (unfault st) |}
       | Err m =>
           match assoc_s name (r_sources (c_reg cf)), assoc_s name (r_files (c_reg cf)) with
           | Some src, Some file =>
               match line_number src (cur (unfault st)) with
               | Some l => {| rr_outcome := Err m; rr_writes := rev (out (unfault st)); rr_file := file; rr_line := l;
                              rr_unbound := unbound (unfault st); rr_shared_writes := shared_writes (unfault st) |}
               | None => {| rr_outcome := Crash e_index; rr_writes := rev (out (unfault st)); rr_file := []; rr_line := 0;
                            rr_unbound := unbound (unfault st); rr_shared_writes := shared_writes (unfault st) |}
               end
           | _, _ => {| rr_outcome := Err m; rr_writes := rev (out (unfault st)); rr_file := []; rr_line := 0;
                        rr_unbound := unbound (unfault st); rr_shared_writes := shared_writes (unfault st) |}
           end
       | Crash m => {| rr_outcome := Crash m; rr_writes := rev (out (unfault st)); rr_file := []; rr_line := 0;
                       rr_unbound := unbound (unfault st); rr_shared_writes := shared_writes (unfault st) |}
       | Diverge => {| rr_outcome := Diverge; rr_writes := rev (out (unfault st)); rr_file := []; rr_line := 0;
                       rr_unbound := unbound (unfault st); rr_shared_writes := shared_writes (unfault st) |}
       | OutOfFuel => {| rr_outcome := OutOfFuel; rr_writes := rev (out (unfault st)); rr_file := []; rr_line := 0;
                         rr_unbound := unbound (unfault st); rr_shared_writes := shared_writes (unfault st) |}
       | OutOfModel => {| rr_outcome := OutOfModel; rr_writes := rev (out (unfault st)); rr_file := []; rr_line := 0;
                          rr_unbound := unbound (unfault st); rr_shared_writes := shared_writes (unfault st) |}
       end) = rev n0).
    { destruct r0; try apply Hw.
      destruct (assoc_s name (r_sources (c_reg cf))); [|apply Hw].
      destruct (assoc_s name (r_files (c_reg cf))); [|apply Hw].
      destruct (line_number _ _); apply Hw. }
    rewrite Hws. unfold refuses. rewrite rev_length.
    change (calls_left st0) with cl in Hc. change (bytes_left st0) with bl in Hb.
    intros [(k & -> & Hk) | (k & -> & Hk)].
    + cbn in Hc. destruct Hc as (k' & _ & ->). lia.
    + cbn in Hb. destruct Hb as (k' & _ & ->). unfold acc in Hk. lia.
  - right.
    change (out st0) with (@nil bstr) in Hnew. rewrite app_nil_r in Hnew.
    assert (Hw0 : forall o f l, rr_writes
      ({| rr_outcome := o; rr_writes := rev (out st0'); rr_file := f; rr_line := l;
          rr_unbound := unbound st0'; rr_shared_writes := shared_writes st0' |}) = rev n0).
    { intros. cbn [rr_writes]. rewrite Hout. reflexivity. }
    match goal with |- refuses _ _ (rr_writes ?X) /\ _ => assert (Hws : rr_writes X = rev n0) end.
    { destruct r0; try apply Hw0.
      destruct (assoc_s name (r_sources (c_reg cf))); [|apply Hw0].
      destruct (assoc_s name (r_files (c_reg cf))); [|apply Hw0].
      destruct (line_number _ _); apply Hw0. }
    unfold accepted. rewrite Hws. split; [|split; [|split]].
    + change (calls_left st0) with cl in Hst. change (bytes_left st0) with bl in Hst.
      destruct Hst as [(k & Hk1 & Hk2) | (k & Hk1 & Hk2)]; [left | right]; exists k; (split; [exact Hk1|]).
      * rewrite rev_length. exact Hk2.
      * exact Hk2.
    + destruct (assoc_s name (r_sources (c_reg cf))); [|left; reflexivity].
      destruct (assoc_s name (r_files (c_reg cf))); [|left; reflexivity].
      destruct (line_number _ (cur st)); [left | right]; reflexivity.
    + assert (Hwf : forall o f l, rr_writes
        ({| rr_outcome := o; rr_writes := rev (out st); rr_file := f; rr_line := l;
            rr_unbound := unbound st; rr_shared_writes := shared_writes st |}) = rev new).
      { intros. cbn [rr_writes]. rewrite Hnew. reflexivity. }
      match goal with |- prefix_of (concat_b (rr_writes ?X)) _ => assert (Hwsf : rr_writes X = rev new) end.
      { destruct (assoc_s name (r_sources (c_reg cf))); [|apply Hwf].
        destruct (assoc_s name (r_files (c_reg cf))); [|apply Hwf].
        destruct (line_number _ (cur st)); apply Hwf. }
      rewrite Hwsf. exact Hpre.
    + assert (Hwf : forall o f l, rr_writes
        ({| rr_outcome := o; rr_writes := rev (out st); rr_file := f; rr_line := l;
            rr_unbound := unbound st; rr_shared_writes := shared_writes st |}) = rev new).
      { intros. cbn [rr_writes]. rewrite Hnew. reflexivity. }
      match goal with |- stopped_at _ _ (rr_writes ?X) _ => assert (Hwsf : rr_writes X = rev new) end.
      { destruct (assoc_s name (r_sources (c_reg cf))); [|apply Hwf].
        destruct (assoc_s name (r_files (c_reg cf))); [|apply Hwf].
        destruct (line_number _ (cur st)); apply Hwf. }
      rewrite Hwsf. change (calls_left st0) with cl in Hstop. change (bytes_left st0) with bl in Hstop.
      destruct Hstop as [(Hk & later & ->) | Hk]; [left | right].
      * split; [rewrite rev_length; exact Hk | exists (rev later); apply rev_app_distr].
      * exact Hk.
Qed.

Section RenderCorollaries.
Variables (cf : cfg) (fuel : nat) (name : bstr) (id : N) (data : list (bstr * value)) (fid : N).
Let faulty cl bl := render cf fuel name id data cl bl fid.
Let free := render cf fuel name id data None None fid.

Lemma write_fault_surfaces_l cl bl :
  refuses cl bl (rr_writes free) -> surfaced (rr_outcome (faulty cl bl)).
Proof.
  intros Hr. destruct (render_two_runs cf fuel name id data cl bl fid) as [[_ Hn] | (_ & Hs & _)];
    [contradiction | exact Hs].
Qed.

Lemma accepted_is_prefix_l cl bl : prefix_of (accepted (faulty cl bl)) (accepted free).
Proof.
  destruct (render_two_runs cf fuel name id data cl bl fid) as [[He _] | (_ & _ & Hp & _)].
  - unfold faulty, free. rewrite He. exists []. symmetry. apply app_nil_r.
  - exact Hp.
Qed.

Lemma nil_means_all_written_l cl bl :
  rr_outcome (faulty cl bl) = Ok tt ->
  rr_writes (faulty cl bl) = rr_writes free /\ accepted (faulty cl bl) = accepted free /\ rr_outcome free = Ok tt.
Proof.
  intros Hok. destruct (render_two_runs cf fuel name id data cl bl fid) as [[He _] | (_ & Hs & _)].
  - unfold faulty, free in *. rewrite <- He. auto.
  - unfold faulty in Hok. destruct Hs as [Hs | Hs]; rewrite Hs in Hok; discriminate.
Qed.

Lemma sufficient_budget_no_change_l cl bl :
  ~ refuses cl bl (rr_writes free) -> faulty cl bl = free.
Proof.
  intros Hn. destruct (render_two_runs cf fuel name id data cl bl fid) as [[He _] | (Hr & _)];
    [exact He | contradiction].
Qed.
(* exactly which bytes were accepted *)
Lemma firstn_app_exact {A} (l r : list A) : firstn (length l) (l ++ r) = l.
Proof. induction l as [|a l IH]; cbn; [destruct r; reflexivity | rewrite IH; reflexivity]. Qed.

Lemma prefix_take p s : prefix_of p s -> p = take (length p) s.
Proof.
  intros [r ->]. induction p as [|a p IH]; cbn; [reflexivity|]. f_equal. exact IH.
Qed.

Lemma accepted_exact_calls_l k :
  refuses (Some k) None (rr_writes free) ->
  rr_writes (faulty (Some k) None) = firstn k (rr_writes free).
Proof.
  intros Hr. destruct (render_two_runs cf fuel name id data (Some k) None fid) as [[_ Hn] | (_ & _ & _ & Hs)];
    [contradiction|].
  fold (faulty (Some k) None) in Hs. fold free in Hs.
  destruct Hs as [(Hk & later & Hl) | Hk]; [|discriminate].
  remember (rr_writes (faulty (Some k) None)) as W eqn:HW. clear HW.
  inversion Hk; subst k. rewrite Hl. symmetry. apply firstn_app_exact.
Qed.

Lemma accepted_exact_bytes_l b :
  refuses None (Some b) (rr_writes free) ->
  accepted (faulty None (Some b)) = take (N.to_nat b) (accepted free).
Proof.
  intros Hr. destruct (render_two_runs cf fuel name id data None (Some b) fid) as [[_ Hn] | (_ & _ & Hp & Hs)];
    [contradiction|].
  fold (faulty None (Some b)) in Hs, Hp. fold free in Hs, Hp.
  destruct Hs as [(Hk & _) | Hk]; [discriminate|].
  unfold accepted in *. remember (concat_b (rr_writes (faulty None (Some b)))) as W eqn:HW. clear HW.
  inversion Hk; subst b. rewrite Nnat.Nat2N.id. apply prefix_take. exact Hp.
Qed.
End RenderCorollaries.

(* the pinned escaper (exec.go:693-716 before the repair) drops every write error: a model of
   that loop alone, for the record of defect I4 *)
Fixpoint write_all_unchecked (ws : list bstr) : M unit :=
  match ws with
  | [] => ret tt
  | w :: r => fun st => write_all_unchecked r (snd (write w st))
  end.

Lemma pinned_escaper_drops_errors :
  exists ws st, calls_left st = Some O /\ bufs st = [] /\ ws <> [] /\
                fst (write_all_unchecked ws st) = Ok tt /\ fst (write_all ws st) = Err e_write.
Proof.
  exists [[120]], (init_state [] 1 [] (Some O) None 2).
  repeat split; try discriminate; reflexivity.
Qed.
