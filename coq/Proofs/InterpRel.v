(* The RELATIONAL form of the guarded walker induction principle
   (Proofs/InterpGuard.v): [walk_body cf w n] is parametric in [w].  For a
   relation between computations [Phi : forall A, M A -> M A -> Prop] closed under
   the structure of the monad, the primitives (each related to itself) and the
   brackets, if [Phi (w1 n) (w2 n)] for every [n] with [deep g n] and
   [PhiT (w1 (t_node callee)) (w2 (t_node callee))] for every template of the
   registry, then [Phi (walk_body cf w1 n) (walk_body cf w2 n)] for every [n]
   with [deep g n]; one lemma per hoisted loop.  The unary principles are the
   instances that ignore one side.  Used by Proofs/ModeProofs.v to show that a
   walker instrumented with a monitor is the walker. *)
From Soy Require Import Model.Bytes Model.Num Model.Values Model.Outcome Model.Ast
  Model.Escape Model.Directives Model.Print Generated.Tables Model.Interp Proofs.InterpLogic Proofs.InterpGuard.
Require Import Lia.
Open Scope N_scope.

Section Relational.
Variable cf : cfg.
Variable g : node -> bool.
Variable Phi : forall A : Type, M A -> M A -> Prop.
Arguments Phi {A} _ _.
Variable PhiT : M value -> M value -> Prop.       (* of the walks of a callee's template node *)
Variable pure_ok : forall A : Type, outcome A -> Prop.
Arguments pure_ok {A} _.

Record walker_logic_r : Prop := {
  wr_ext : forall A (m1 m1' m2 m2' : M A), (forall st, m1 st = m1' st) -> (forall st, m2 st = m2' st) -> Phi m1 m2 -> Phi m1' m2';
  wr_ret : forall A (x : A), Phi (ret x) (ret x);
  wr_fail : forall A e, Phi (@fail A e) (@fail A e);
  wr_lift : forall A (o : outcome A), pure_ok o -> Phi (lift o) (lift o);
  wr_bind : forall A B (m1 m2 : M A) (f1 f2 : A -> M B), Phi m1 m2 -> (forall x, Phi (f1 x) (f2 x)) -> Phi (mbind m1 f1) (mbind m2 f2);
  wr_set_cur : forall p, Phi (modify (fun st => set_cur st p)) (modify (fun st => set_cur st p));
  wr_template_mode : forall p name body ae priv, g (NTemplate p name body ae priv) = true ->
      Phi (modify (fun st => set_mode st (template_mode (mode st) ae))) (modify (fun st => set_mode st (template_mode (mode st) ae)));
  wr_write : forall w, Phi (write w) (write w);
  wr_set : forall k v, Phi (m_set k v) (m_set k v);
  wr_lookup : forall k, Phi (m_lookup k) (m_lookup k);
  wr_fresh_list : forall l, Phi (fresh_list l) (fresh_list l);
  wr_fresh_list_or_nil : forall l, Phi (fresh_list_or_nil l) (fresh_list_or_nil l);
  wr_fresh_map : forall m, Phi (fresh_map m) (fresh_map m);
  wr_read_mode : forall B (f1 f2 : N -> M B), (forall x, Phi (f1 x) (f2 x)) -> Phi (st <-- get ;;; f1 (mode st)) (st <-- get ;;; f2 (mode st));
  wr_read_ctx : forall B (f1 f2 : scope -> M B), (forall x, Phi (f1 x) (f2 x)) -> Phi (st <-- get ;;; f1 (ctx st)) (st <-- get ;;; f2 (ctx st));
  wr_scoped : forall (m1 m2 : M unit), Phi m1 m2 ->
      Phi (_ <-- m_push ;;; _ <-- m1 ;;; _ <-- m_pop ;;; ret VUndef) (_ <-- m_push ;;; _ <-- m2 ;;; _ <-- m_pop ;;; ret VUndef);
  wr_eval : forall (w1 w2 : node -> M value) e, Phi (w1 e) (w2 e) -> Phi (eval w1 e) (eval w2 e);
  wr_block : forall (w1 w2 : node -> M value) body, Phi (w1 body) (w2 body) -> Phi (render_block w1 body) (render_block w2 body);
  wr_enter : forall (w1 w2 : node -> M value) callee cd, PhiT (w1 (t_node callee)) (w2 (t_node callee)) ->
      Phi (call_enter w1 callee cd) (call_enter w2 callee cd);
}.

Hypothesis L : walker_logic_r.
Hypothesis PS : pure_sites (@pure_ok).
Hypothesis g_plural : forall p l, g (NMsg p 0 [] [] l) = true.

Ltac phi_bind := apply (wr_bind L); [ | intro ].
Ltac phi_leaf :=
  first [ apply (wr_ret L) | apply (wr_fail L) | apply (wr_write L) | apply (wr_set L)
        | apply (wr_lookup L) | apply (wr_fresh_list L) | apply (wr_fresh_list_or_nil L)
        | apply (wr_fresh_map L) | apply (wr_set_cur L) ].

Lemma rphi_write_all ws : Phi (write_all ws) (write_all ws).
Proof.
  induction ws as [|x r IH]; cbn [write_all]; [apply (wr_ret L)|].
  phi_bind; [apply (wr_write L) | exact IH].
Qed.

Section Body.
Variables w1 w2 : node -> M value.
Hypothesis Hw : forall n, deep g n = true -> Phi (w1 n) (w2 n).
Hypothesis HwT : forall callee, In callee (r_templates (c_reg cf)) -> PhiT (w1 (t_node callee)) (w2 (t_node callee)).

Lemma rphi_eval e : deep g e = true -> Phi (eval w1 e) (eval w2 e).
Proof. intros H. apply (wr_eval L). apply Hw. exact H. Qed.

Lemma rphi_evaldef e : deep g e = true -> Phi (evaldef w1 e) (evaldef w2 e).
Proof. intros H. unfold evaldef. phi_bind; [apply rphi_eval; exact H|]. destruct x; phi_leaf. Qed.

Lemma rphi_eval_list es : forallb (deep g) es = true -> Phi (eval_list w1 es) (eval_list w2 es).
Proof.
  induction es as [|e r IH]; cbn [eval_list]; intros H; [phi_leaf|]. dsplit H.
  phi_bind; [apply rphi_eval; assumption|]. phi_bind; [apply IH; assumption|]. phi_leaf.
Qed.

Lemma rphi_walk_list ns : forallb (deep g) ns = true -> Phi (walk_list w1 ns) (walk_list w2 ns).
Proof.
  induction ns as [|x r IH]; cbn [walk_list]; intros H; [phi_leaf|]. dsplit H.
  phi_bind; [apply Hw; assumption | apply IH; assumption].
Qed.

Lemma rphi_render_block body : deep g body = true -> Phi (render_block w1 body) (render_block w2 body).
Proof. intros H. apply (wr_block L). apply Hw. exact H. Qed.

Lemma rphi_maplit_items l : forallb (fun kv => deep g (snd kv)) l = true -> Phi (maplit_items w1 l) (maplit_items w2 l).
Proof.
  induction l as [|[k e] r IH]; cbn [maplit_items]; intros H; [phi_leaf|]. dsplit H.
  phi_bind; [apply rphi_eval; assumption|]. phi_bind; [apply IH; assumption|]. phi_leaf.
Qed.

Lemma rphi_loop_func name args : Phi (loop_func name args) (loop_func name args).
Proof.
  unfold loop_func. destruct args as [|a r]; [phi_leaf|].
  destruct a; try phi_leaf.
  phi_bind; [phi_leaf|].
  destruct (fn_is name n_index); [phi_leaf|].
  destruct x; try phi_leaf.
  destruct (fn_is name n_isFirst); [phi_leaf|].
  phi_bind; [phi_leaf|]. destruct x; phi_leaf.
Qed.

Lemma rphi_call_func name args : forallb (deep g) args = true -> Phi (call_func w1 name args) (call_func w2 name args).
Proof.
  intros H. unfold call_func. destruct (func_arities name) as [ar|] eqn:Har; [|phi_leaf].
  destruct (negb _); [phi_leaf|].
  phi_bind; [apply rphi_eval_list; exact H|].
  phi_bind; [apply (wr_lift L); eapply (ps_func _ PS); exact Har|].
  destruct x0; phi_leaf.
Qed.

Lemma rphi_dataref_access acc : forallb (deep g) acc = true -> forall ref, Phi (dataref_access w1 acc ref) (dataref_access w2 acc ref).
Proof.
  induction acc as [|a rest IH]; intros H ref; cbn [dataref_access]; [phi_leaf|]. dsplit H.
  phi_bind.
  - destruct a; try phi_leaf.
    dsplit H0.
    phi_bind; [apply rphi_eval; assumption|].
    destruct x; try phi_leaf;
      (phi_bind; [apply (wr_lift L); apply (ps_string _ PS) | phi_leaf]).
  - destruct x as [oi k].
    destruct ref; try phi_leaf.
    + destruct (is_nullsafe a); phi_leaf.
    + destruct (is_nullsafe a); phi_leaf.
    + destruct oi as [i|]; [apply IH; assumption | phi_leaf].
    + destruct oi as [i|]; [phi_leaf | apply IH; assumption].
Qed.

Lemma rphi_print_dirs l : forallb (deep g) l = true -> forall v, Phi (print_dirs cf w1 l v) (print_dirs cf w2 l v).
Proof.
  induction l as [|d r IH]; cbn [print_dirs]; intros H v; [phi_leaf|]. dsplit H.
  destruct d; try phi_leaf. dsplit H0.
  destruct (lookup_directive name) as [[arglens ?]|]; [|phi_leaf].
  destruct (negb _); [phi_leaf|].
  phi_bind; [apply rphi_eval_list; assumption|].
  phi_bind; [apply (wr_lift L); apply (ps_string _ PS)|].
  phi_bind; [apply (wr_lift L); apply (ps_print _ PS)|].
  phi_bind; [apply IH; assumption|]. phi_leaf.
Qed.

Lemma rphi_if_conds cs : forallb (deep g) cs = true -> Phi (if_conds w1 cs) (if_conds w2 cs).
Proof.
  induction cs as [|c0 r IH]; cbn [if_conds]; intros H; [phi_leaf|]. dsplit H.
  destruct c0; try phi_leaf. dsplit H0.
  destruct cond as [c|].
  - phi_bind; [apply rphi_eval; assumption|].
    destruct (truthy x); [|apply IH; assumption]. phi_bind; [apply Hw; assumption | phi_leaf].
  - phi_bind; [apply Hw; assumption | phi_leaf].
Qed.

Lemma rphi_for_items var body items : deep g body = true -> forall i, Phi (for_items w1 var body i items) (for_items w2 var body i items).
Proof.
  intros H. induction items as [|x r IH]; intros i; cbn [for_items]; [phi_leaf|].
  phi_bind; [phi_leaf|]. phi_bind; [phi_leaf|]. phi_bind; [apply Hw; exact H|]. apply IH.
Qed.

Lemma rphi_case_hit sv vs : forallb (deep g) vs = true -> Phi (case_hit w1 sv vs) (case_hit w2 sv vs).
Proof.
  induction vs as [|x r IH]; cbn [case_hit]; intros H; [phi_leaf|]. dsplit H.
  phi_bind; [apply rphi_eval; assumption|]. destruct (equals sv x0); [phi_leaf | apply IH; assumption].
Qed.

Lemma rphi_switch_cases sv cs : forallb (deep g) cs = true -> Phi (switch_cases w1 sv cs) (switch_cases w2 sv cs).
Proof.
  induction cs as [|c r IH]; cbn [switch_cases]; intros H; [phi_leaf|]. dsplit H.
  destruct c; try phi_leaf. dsplit H0.
  phi_bind; [apply rphi_case_hit; assumption|].
  destruct (x || _); [|apply IH; assumption]. phi_bind; [apply Hw; assumption | phi_leaf].
Qed.

Lemma rphi_call_params ps : forallb (deep g) ps = true -> forall cd, Phi (call_params w1 ps cd) (call_params w2 ps cd).
Proof.
  induction ps as [|p r IH]; intros H cd; cbn [call_params]; [phi_leaf|]. dsplit H.
  destruct p; try phi_leaf; dsplit H0.
  - phi_bind; [apply rphi_eval; assumption | apply IH; assumption].
  - phi_bind; [apply rphi_render_block; assumption | apply IH; assumption].
Qed.

Lemma rphi_call_data alldata dat : deep_opt (deep g) dat = true -> Phi (call_data w1 alldata dat) (call_data w2 alldata dat).
Proof.
  intros H. unfold call_data.
  apply (wr_read_ctx L _ (fun c =>
    if alldata then match sc_alldata c with Some s => ret (sc_push s) | None => fail e_impossible end
    else match dat with
         | Some e => dv <-- eval w1 e ;;; match dv with VMap id m => ret (sc_push (new_scope id m)) | _ => fail e_notmap end
         | None => ret [fresh_frame]
         end) (fun c =>
    if alldata then match sc_alldata c with Some s => ret (sc_push s) | None => fail e_impossible end
    else match dat with
         | Some e => dv <-- eval w2 e ;;; match dv with VMap id m => ret (sc_push (new_scope id m)) | _ => fail e_notmap end
         | None => ret [fresh_frame]
         end)).
  intros c. destruct alldata.
  - destruct (sc_alldata c); phi_leaf.
  - destruct dat as [e|]; [|phi_leaf].
    phi_bind; [apply rphi_eval; exact H|]. destruct x; phi_leaf.
Qed.

Lemma rphi_plural_pick mp i dflt cs :
  forallb (deep g) dflt = true -> forallb (deep g) cs = true -> Phi (plural_pick w1 mp i dflt cs) (plural_pick w2 mp i dflt cs).
Proof.
  intros Hd. induction cs as [|c r IH]; cbn [plural_pick]; intros H.
  - phi_bind; [|phi_leaf]. apply Hw. cbn [deep]. rewrite g_plural, Hd. reflexivity.
  - dsplit H. destruct c; try phi_leaf. dsplit H0.
    destruct (i =? v)%Z; [|apply IH; assumption]. phi_bind; [|phi_leaf].
    apply Hw. cbn [deep]. rewrite g_plural. cbn. assumption.
Qed.

Lemma rphi_msg_body mp ns : forallb (deep g) ns = true -> Phi (msg_body w1 mp ns) (msg_body w2 mp ns).
Proof.
  induction ns as [|x r IH]; cbn [msg_body]; intros H; [phi_leaf|]. dsplit H.
  destruct x; try (apply IH; assumption).
  - phi_bind; [apply Hw; assumption | apply IH; assumption].
  - dsplit H0. phi_bind; [apply Hw; assumption | apply IH; assumption].
  - dsplit H0. phi_bind; [apply rphi_eval; assumption|]. destruct x0; try phi_leaf.
    phi_bind; [apply rphi_plural_pick; assumption | apply IH; assumption].
Qed.

Lemma rphi_walk_node n : deep g n = true -> Phi (walk_node cf w1 n) (walk_node cf w2 n).
Proof.
  intros H. pose proof (deep_g g n H) as Hg.
  destruct n; cbn [walk_node]; try phi_leaf; dsplit H.
  - (* NFunc *) destruct (_ || _); [apply rphi_loop_func | apply rphi_call_func; assumption].
  - (* NListLit *) phi_bind; [apply rphi_eval_list; assumption | phi_leaf].
  - (* NMapLit *) phi_bind; [apply rphi_maplit_items; assumption | phi_leaf].
  - (* NDataRef *)
    phi_bind; [|apply rphi_dataref_access; assumption].
    destruct (bstr_eqb key s_ij); [|phi_leaf]. destruct (c_ij cf); phi_leaf.
  - (* NNot *) phi_bind; [apply rphi_eval; assumption | phi_leaf].
  - (* NNeg *) phi_bind; [apply rphi_evaldef; assumption|]. destruct x; phi_leaf.
  - (* NBin *)
    destruct op.
    1-5: (phi_bind; [apply rphi_evaldef; assumption|]; phi_bind; [apply rphi_evaldef; assumption|]; apply (wr_lift L); apply (ps_arith _ PS)).
    1-2: (phi_bind; [apply rphi_eval; assumption|]; phi_bind; [apply rphi_eval; assumption|]; phi_leaf).
    1-4: (phi_bind; [apply rphi_evaldef; assumption|]; phi_bind; [apply rphi_evaldef; assumption|]; apply (wr_lift L); apply (ps_compare _ PS)).
    + phi_bind; [apply rphi_eval; assumption|]. destruct (truthy x); [phi_leaf|].
      phi_bind; [apply rphi_eval; assumption | phi_leaf].
    + phi_bind; [apply rphi_eval; assumption|]. destruct (truthy x); [|phi_leaf].
      phi_bind; [apply rphi_eval; assumption | phi_leaf].
    + phi_bind; [apply rphi_eval; assumption|]. destruct (is_nullish x); [apply rphi_eval; assumption | phi_leaf].
  - (* NTern *) phi_bind; [apply rphi_eval; assumption|]. destruct (truthy x); apply rphi_eval; assumption.
  - (* NList *) apply (wr_scoped L). apply rphi_walk_list. assumption.
  - (* NRawText *) phi_bind; phi_leaf.
  - (* NPrint *)
    phi_bind; [apply Hw; assumption|].
    assert (Hrest : Phi (ds <-- print_dirs cf w1 dirs x ;;;
                         s <-- lift (value_string x) ;;;
                         st <-- get ;;;
                         ws <-- lift (print_writes (mode st) ds s) ;;;
                         _ <-- write_all ws ;;; ret VUndef)
                        (ds <-- print_dirs cf w2 dirs x ;;;
                         s <-- lift (value_string x) ;;;
                         st <-- get ;;;
                         ws <-- lift (print_writes (mode st) ds s) ;;;
                         _ <-- write_all ws ;;; ret VUndef)).
    { phi_bind; [apply rphi_print_dirs; assumption|].
      phi_bind; [apply (wr_lift L); apply (ps_string _ PS)|].
      apply (wr_read_mode L _ (fun md => ws <-- lift (print_writes md x0 x1) ;;; _ <-- write_all ws ;;; ret VUndef)
                                (fun md => ws <-- lift (print_writes md x0 x1) ;;; _ <-- write_all ws ;;; ret VUndef)).
      intros md. phi_bind; [apply (wr_lift L); apply (ps_print _ PS)|].
      phi_bind; [apply rphi_write_all | phi_leaf]. }
    destruct x; try exact Hrest. phi_leaf.
  - (* NCss *)
    phi_bind; [|phi_bind; phi_leaf].
    destruct expr as [e|]; [|phi_leaf].
    phi_bind; [apply rphi_eval; assumption|]. phi_bind; [apply (wr_lift L); apply (ps_string _ PS) | phi_leaf].
  - (* NLog *) phi_bind; [apply rphi_render_block; assumption | phi_leaf].
  - (* NIf *) apply rphi_if_conds. assumption.
  - (* NFor *)
    phi_bind; [apply rphi_eval; assumption|].
    destruct x; try phi_leaf.
    destruct l as [|y l'].
    + destruct ifempty as [ie|]; [|phi_leaf]. phi_bind; [apply Hw; assumption | phi_leaf].
    + set (l := y :: l').
      apply (wr_ext L _ (_ <-- m_push ;;;
                         _ <-- (_ <-- m_set (var ++ s_lastindex) (VInt (Z.of_nat (length l) - 1)) ;;;
                                for_items w1 var n2 0%Z l) ;;;
                         _ <-- m_pop ;;; ret VUndef) _
                        (_ <-- m_push ;;;
                         _ <-- (_ <-- m_set (var ++ s_lastindex) (VInt (Z.of_nat (length l) - 1)) ;;;
                                for_items w2 var n2 0%Z l) ;;;
                         _ <-- m_pop ;;; ret VUndef)).
      * intros st. apply mbind_ext. intros [] s. apply mbind_assoc.
      * intros st. apply mbind_ext. intros [] s. apply mbind_assoc.
      * apply (wr_scoped L). phi_bind; [phi_leaf | apply rphi_for_items; assumption].
  - (* NSwitch *) phi_bind; [apply rphi_eval; assumption | apply rphi_switch_cases; assumption].
  - (* NCall *)
    destruct (find_template _ name) as [callee|] eqn:Hf; [|phi_leaf].
    phi_bind; [apply rphi_call_data; assumption|]. phi_bind; [apply rphi_call_params; assumption |].
    phi_bind; [phi_leaf|]. apply (wr_enter L). apply HwT.
    clear - Hf. induction (r_templates (c_reg cf)) as [|t r IH]; cbn in Hf; [discriminate|].
    destruct (bstr_eqb (t_name t) name); [inversion Hf; left; reflexivity | right; apply IH; exact Hf].
  - (* NLetValue *) phi_bind; [apply rphi_eval; assumption|]. phi_bind; phi_leaf.
  - (* NLetContent *) phi_bind; [apply rphi_render_block; assumption|]. phi_bind; phi_leaf.
  - (* NMsg *) phi_bind; [apply rphi_msg_body; assumption | phi_leaf].
  - (* NMsgHtmlTag *) phi_bind; phi_leaf.
  - (* NTemplate *) phi_bind; [eapply (wr_template_mode L); exact Hg|]. phi_bind; [apply Hw; assumption | phi_leaf].
Qed.

Lemma rphi_walk_body n : deep g n = true -> Phi (walk_body cf w1 n) (walk_body cf w2 n).
Proof. intros H. unfold walk_body. phi_bind; [phi_leaf | apply rphi_walk_node; exact H]. Qed.
End Body.
End Relational.
