(* The ONE conversion between the project's floats (Model/Num.v: fl) and real numbers, for every statement
   made against Flocq:  ff_R (FFin m e) = m * 2^e  (Flocq's F2R (Float radix2 m e)); zeros, NaN and the
   infinities map to 0 (statements exclude the latter two).
   Shared by Proofs/FloatFlocq.v / FloatFlocqDiv.v (the arithmetic of Num.v, C01) and Proofs/NumLitFlocq.v
   (strconv.ParseFloat's rounding, C05/C18).  The six items are those of the same names of wt-evalspec's
   Proofs/FloatFlocq.v, verbatim; they depend only on fl / strip2 / mk_fl.
   These lemmas are about real numbers: Print Assumptions reports the axioms of Coq's Reals. *)
From Coq Require Import ZArith Reals Lia.
From Flocq Require Import Core.Core Core.Digits Core.Float_prop.
From Soy Require Import Model.Bytes Model.Num.
Open Scope Z_scope.

#[global] Instance ff_prec_gt_0 : Prec_gt_0 53.
Proof. reflexivity. Qed.

Lemma ff_digits_log2 a : 0 < a -> Zdigits radix2 a = Z.log2 a + 1.
Proof.
  intros Ha. apply Zdigits_unique. rewrite Z.abs_eq by lia. replace (Z.log2 a + 1 - 1) with (Z.log2 a) by lia.
  change (Zpower radix2 (Z.log2 a)) with (2 ^ Z.log2 a). change (Zpower radix2 (Z.log2 a + 1)) with (2 ^ (Z.log2 a + 1)).
  pose proof (Z.log2_spec a Ha) as [L1 L2]. rewrite <- Z.add_1_r in L2. lia.
Qed.

Lemma ff_Rlt_bool_F2R M E : Rlt_bool (F2R (Float radix2 M E)) 0 = (M <? 0).
Proof.
  destruct (Z.ltb_spec M 0) as [H|H].
  - apply Rlt_bool_true. apply F2R_lt_0. exact H.
  - apply Rlt_bool_false. apply F2R_ge_0. exact H.
Qed.

(* the value of a float of the model *)
Definition ff_R (x : fl) : R :=
  match x with
  | FFin m e => F2R (Float radix2 m e)
  | _ => 0%R
  end.

Lemma ff_strip2 p : forall e q e', strip2 p e = (q, e') ->
  forall s : bool, F2R (Float radix2 (if s then Zneg p else Zpos p) e) = F2R (Float radix2 (if s then Zneg q else Zpos q) e').
Proof.
  induction p as [p IH|p IH|]; intros e q e' H s; cbn [strip2] in H; try (injection H as <- <-; reflexivity).
  rewrite <- (IH (e + 1) q e' H s).
  rewrite (F2R_change_exp radix2 e (if s then Zneg p else Zpos p) (e + 1)) by lia.
  replace (e + 1 - e) with 1 by lia. change (Zpower radix2 1) with 2. f_equal. f_equal. destruct s; lia.
Qed.

(* mk_fl keeps the value *)
Lemma ff_mk_fl m e x : mk_fl m e = Some x -> ff_R x = F2R (Float radix2 m e).
Proof.
  unfold mk_fl. destruct m as [|p|p].
  - intros H. injection H as <-. cbn [ff_R]. symmetry. apply F2R_0.
  - destruct (strip2 p e) as [q e'] eqn:S. destruct ((Zpos q <? two53) && (-1000 <? e') && (e' <? 900))%bool; [|discriminate].
    intros H. injection H as <-. cbn [ff_R]. symmetry. exact (ff_strip2 p e q e' S false).
  - destruct (strip2 p e) as [q e'] eqn:S. destruct ((Zpos q <? two53) && (-1000 <? e') && (e' <? 900))%bool; [|discriminate].
    intros H. injection H as <-. cbn [ff_R]. symmetry. exact (ff_strip2 p e q e' S true).
Qed.
