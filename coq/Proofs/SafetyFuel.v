(* C06, part 4: [OutOfFuel] is only about nesting.  For a bundle whose call
   graph is acyclic (a rank on template names decreases along every {call}) a
   recursion budget computed from the syntax suffices:
       fuel >= (tree_height of the tallest template) * (rank of the entry + 1);
   in particular [tree_height n] suffices for a call-free tree under any registry.
   (Recursive bundles need a budget that depends on the data: the statement's
   "recursion restricted to data-bounded depth".) *)
From Coq Require Import Lia ZifyN ZifyBool ZifyNat.
From Soy Require Import Model.Bytes Model.Num Model.Values Model.Outcome Model.Ast
  Model.Escape Model.Directives Model.Print Generated.Tables Model.Interp
  Spec.Safety Proofs.ValueProofs Proofs.InterpLogic Proofs.InterpSub Proofs.SafetyPure Proofs.SafetyNodes
  Proofs.SafetyProofs.
Open Scope N_scope.

Definition allowed_nf (e : fault) : Prop :=
  match e with FCrash _ | FDiverge | FOutOfFuel => False | _ => True end.
Definition Rany (a b : mstate) : Prop := True.

Lemma nf_rel_conditions : rel_conditions Rany allowed_nf.
Proof. constructor; intros; exact I. Qed.

Lemma nf_pure_rel {A} (o : outcome A) : nf o -> rel_pure_ok allowed_nf o.
Proof. unfold rel_pure_ok. destruct o; cbn; tauto. Qed.

Lemma nf_pure_sites_sub : pure_sites_sub (@rel_pure_ok allowed_nf).
Proof.
  constructor.
  - intros. apply nf_pure_rel, nf_arith.
  - intros. apply nf_pure_rel, nf_compare.
  - intros. apply nf_pure_rel, nf_value_string.
  - intros. apply nf_pure_rel, nf_print_writes.
  - intros name ar vs H. apply nf_pure_rel. eapply nf_apply_func_table; eauto.
Qed.

(* [fuel_ok m]: no run of [m] ends in a crash, a divergence or fuel exhaustion *)
Definition fuel_ok {A} (m : M A) : Prop := rel_spec Rany allowed_nf m.

Lemma fuel_ok_nf {A} (m : M A) st : fuel_ok m -> nf (fst (m st)).
Proof.
  intros H. destruct (m st) as [r st'] eqn:E. destruct (H _ _ _ E) as [_ Ha].
  cbn [fst]. destruct r; cbn in Ha |- *; tauto.
Qed.

Lemma height_pos n : (0 < tree_height n)%nat.
Proof. destruct n; cbn [tree_height]; lia. Qed.

Lemma calls_below_syn rank r p i m d b b' :
  calls_below rank r (NMsg p i m d b) = true -> calls_below rank r (NMsg p 0 [] [] b') = true.
Proof. reflexivity. Qed.

Lemma fuel_ok_enter (w : node -> M value) callee cd :
  fuel_ok (w (t_node callee)) -> fuel_ok (call_enter w callee cd).
Proof.
  intros Hw st r st' H. rewrite call_enter_eq in H. cbn zeta in H.
  destruct (w (t_node callee) (entered st callee cd)) as [r1 st2] eqn:Hrun. cbn [fst snd] in H.
  destruct (Hw _ _ _ Hrun) as [_ Ha]. inversion H; subst. split; [exact I|].
  destruct (classify r1) as [x|e]; [exact I|]. rewrite classify_of_fault. exact Ha.
Qed.

(* ------------------------------------------------------------------ *)
(* call-free trees, any registry *)

Definition not_call (n : node) : bool := match n with NCall _ _ _ _ _ => false | _ => true end.
Definition call_free (n : node) : bool := node_all not_call n.

Theorem walk_fuel_callfree cf : forall fuel n,
  call_free n = true -> (tree_height n <= fuel)%nat -> fuel_ok (walk cf fuel n).
Proof.
  induction fuel as [|fuel IH]; intros n Hn Hf.
  - pose proof (height_pos n). lia.
  - rewrite walk_S.
    apply (phi_walk_body_sub cf _ _ (rel_logic_sub _ _ nf_rel_conditions) nf_pure_sites_sub).
    + apply rel_modify. intros st. exact I.
    + intros n' Hin. apply IH.
      * exact (node_all_sub not_call (fun _ _ _ _ _ _ H => H) n n' Hn Hin).
      * pose proof (height_sub n n' Hin). lia.
    + intros callee cd Hc. apply node_all_head in Hn.
      destruct n; cbn in Hc, Hn; discriminate.
Qed.

(* ------------------------------------------------------------------ *)
(* acyclic bundles *)

Section Ranked.
Variable cf : cfg.
Variable rank : bstr -> nat.
Hypothesis Hrk : reg_ranked rank (c_reg cf) = true.
Let H := reg_height (c_reg cf).

Lemma template_height_le t : In t (r_templates (c_reg cf)) -> (tree_height (t_node t) <= H)%nat.
Proof. intros Hin. apply (fold_max_le (fun t => tree_height (t_node t)) t _ Hin). Qed.

Theorem walk_fuel_ranked : forall fuel n r,
  node_all (calls_below rank r) n = true -> (tree_height n + H * r <= fuel)%nat -> fuel_ok (walk cf fuel n).
Proof.
  induction fuel as [|fuel IH]; intros n r Hn Hf.
  - pose proof (height_pos n). lia.
  - rewrite walk_S.
    apply (phi_walk_body_sub cf _ _ (rel_logic_sub _ _ nf_rel_conditions) nf_pure_sites_sub).
    + apply rel_modify. intros st. exact I.
    + intros n' Hin. apply (IH n' r).
      * exact (node_all_sub _ (calls_below_syn rank r) n n' Hn Hin).
      * pose proof (height_sub n n' Hin). lia.
    + intros callee cd Hc. apply fuel_ok_enter.
      apply node_all_head in Hn.
      destruct n; cbn [callee_of] in Hc; try discriminate. cbn [calls_below] in Hn.
      apply find_template_some in Hc as [Hin Hname]. apply Nat.ltb_lt in Hn.
      apply (IH (t_node callee) (rank name)).
      * unfold reg_ranked in Hrk. pose proof (forallb_In _ _ _ Hrk Hin) as Ht.
        unfold template_ranked in Ht. rewrite Hname in Ht. exact Ht.
      * pose proof (template_height_le _ Hin). pose proof (height_pos (NCall p name alldata data params)). nia.
Qed.

(* Renderer.Execute on an acyclic bundle: this much fuel is enough *)
Theorem render_fuel_ranked fuel name data_id data cl bl first_id :
  (H * S (rank name) <= fuel)%nat ->
  nf (rr_outcome (render cf fuel name data_id data cl bl first_id))
  \/ exists m, rr_outcome (render cf fuel name data_id data cl bl first_id) = Crash m.
Proof.
  intros Hf. unfold render.
  destruct (find_template (r_templates (c_reg cf)) name) as [t|] eqn:Hfind; [|left; exact I].
  apply find_template_some in Hfind as [Hin Hname].
  set (st0 := init_state _ _ _ _ _ _).
  assert (Hok : fuel_ok (walk cf fuel (t_node t))).
  { apply (walk_fuel_ranked fuel (t_node t) (rank name)).
    - unfold reg_ranked in Hrk. pose proof (forallb_In _ _ _ Hrk Hin) as Ht.
      unfold template_ranked in Ht. rewrite Hname in Ht. exact Ht.
    - pose proof (template_height_le _ Hin). nia. }
  pose proof (fuel_ok_nf _ st0 Hok) as Hnf.
  destruct (walk cf fuel (t_node t) st0) as [r st]. cbn [fst] in Hnf.
  destruct r; cbn [rr_outcome]; cbn in Hnf; try tauto; try (left; exact I).
  destruct (assoc_s name (r_sources (c_reg cf))); [|left; exact I].
  destruct (assoc_s name (r_files (c_reg cf))); [|left; exact I].
  destruct (line_number _ _); [left; exact I | right; eexists; reflexivity].
Qed.
End Ranked.

(* with a well-formed registry: result or error value (or outside the float/randomInt/json model) *)
Theorem render_total_ranked cf rank fuel name data_id data cl bl first_id :
  reg_ok (c_reg cf) = true -> reg_ranked rank (c_reg cf) = true ->
  (reg_height (c_reg cf) * S (rank name) <= fuel)%nat ->
  match rr_outcome (render cf fuel name data_id data cl bl first_id) with
  | Ok _ | Err _ | OutOfModel => True
  | _ => False
  end.
Proof.
  intros Hok Hrk Hf.
  pose proof (render_no_escape_lemma cf fuel name data_id data cl bl first_id Hok) as Hne.
  destruct (render_fuel_ranked cf rank Hrk fuel name data_id data cl bl first_id Hf) as [Hnf|[m Hm]].
  - destruct (rr_outcome _); cbn in *; tauto.
  - rewrite Hm in Hne. destruct Hne.
Qed.
