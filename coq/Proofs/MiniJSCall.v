(* C04, the call stage closed over a whole program, and the template wrapper.

   Model/MiniJSProg.v: a program is a list of templates with bodies of the statement subset (calls included);
   [c04_tout k] is what rendering a template writes, by recursion on the call depth k.  Here, by induction on k:
     go_call_correct  -- the walker of Model/Interp.v, entering the template of that name with a scope that holds the
                         data (call_enter: what evalCall does, and what Execute does up to the entry mode), writes that text;
     js_call_correct  -- the MiniJS function of the template in the generated file returns that text;
   both are the context (callctx_ok) relative to which the per-statement simulation of Proofs/MiniJSSim.v is stated,
   so the call stage holds for every statement of every template of the program at every call depth.
     gen_template     -- walking the template's node in Model/JsGen.v emits the function header, var output = '',
                         the printed MiniJS block of the body, return output: the function table of js_call_correct is
                         what the generator writes. *)
From Soy Require Import Model.Bytes Model.Num Model.Values Model.Outcome Model.Ast Model.JsGen Model.MiniJS Model.MiniJSProg
  Model.Escape Model.Directives Model.Print Generated.Tables Model.Interp
  Proofs.EscapeProofs Proofs.MiniJSProofs Proofs.MiniJSPrint Proofs.MiniJSStmt Model.MsgId Proofs.MsgIdProofs
  Proofs.MiniJSCtl Proofs.MiniJSGo Proofs.MiniJSGen Proofs.MiniJSSim.
Open Scope N_scope.

Fixpoint c04_maxdepth (p : list ctmpl) : nat :=
  match p with [] => 0%nat | t :: r => Nat.max (bdepth (ct_body t)) (c04_maxdepth r) end.
(* the fuel one level of calls needs: the template node, its body block, the call statement *)
Definition c04_D (p : list ctmpl) : nat := S (S (S (S (c04_maxdepth p)))).

Lemma c04_find_name p name t : c04_find p name = Some t -> ct_name t = name.
Proof.
  induction p as [|x r IH]; cbn [c04_find]; [discriminate|]. destruct (bstr_eqb (ct_name x) name) eqn:E; [|exact IH].
  intro H. inversion H; subst. apply bstr_eqb_true. exact E.
Qed.
Lemma c04_find_template p name t : c04_find p name = Some t -> find_template (c04_templates p) name = Some (c04_template t).
Proof.
  induction p as [|x r IH]; cbn [c04_find c04_templates map find_template]; [discriminate|]. cbn [c04_template t_name].
  destruct (bstr_eqb (ct_name x) name); [intro H; inversion H; reflexivity|exact IH].
Qed.
Lemma c04_find_depth p name t : c04_find p name = Some t -> (bdepth (ct_body t) <= c04_maxdepth p)%nat.
Proof.
  induction p as [|x r IH]; cbn [c04_find c04_maxdepth]; [discriminate|].
  destruct (bstr_eqb (ct_name x) name); [intro H; inversion H; subst; lia|intro H; specialize (IH H); lia].
Qed.
Lemma c04_find_jprog p cnt name t : c04_find p name = Some t ->
  assoc_s name (c04_jprog p cnt) = Some (ct_allopt t, c04_jbody t (cnt (ct_name t))).
Proof.
  induction p as [|x r IH]; cbn [c04_find c04_jprog map]; [discriminate|]. unfold assoc_s; fold (@assoc_s (bool * jblk)).
  rewrite (bstr_eqb_sym name (ct_name x)). destruct (bstr_eqb (ct_name x) name); [intro H; inversion H; reflexivity|exact IH].
Qed.

(* a table of JavaScript functions for the program: under the name of each template, its function generated from some counter *)
Definition c04_table_ok (p : list ctmpl) (jp : list (bstr * (bool * jblk))) : Prop :=
  forall name t, c04_find p name = Some t -> exists n, assoc_s name jp = Some (ct_allopt t, c04_jbody t n).
Lemma c04_jprog_ok p cnt : c04_table_ok p (c04_jprog p cnt).
Proof. intros name t Ef. eexists. apply c04_find_jprog. exact Ef. Qed.
Lemma c04_jprog_chain_ok p : forall n, c04_table_ok p (c04_jprog_chain p n).
Proof.
  induction p as [|x r IH]; intros n name t Ef; cbn [c04_find] in Ef; [discriminate|].
  unfold c04_jprog_chain. cbn [c04_chain map fst snd]. unfold assoc_s; fold (@assoc_s (bool * jblk)).
  rewrite (bstr_eqb_sym name (ct_name x)). destruct (bstr_eqb (ct_name x) name).
  - inversion Ef; subst. eexists. reflexivity.
  - exact (IH _ name t Ef).
Qed.

(* ---- the scope a template body starts in ---- *)
Lemma sc_enter_lookup cd k : cd <> [] -> sc_lookup (sc_enter cd) k = sc_lookup cd k.
Proof. destruct cd as [|f r]; [congruence|]. intros _. reflexivity. Qed.
Lemma sc_enter_dinv cd denv : cd <> [] -> (forall k, sc_lookup cd k = denv k) -> dinv denv (sc_enter cd).
Proof.
  destruct cd as [|f r]; [congruence|]. intros _ Hl. unfold sc_enter, sc_push.
  eexists fresh_frame, _, _. split; [reflexivity|]. split; [reflexivity|]. split; [cbn [sc_alldata f_entered]; reflexivity|].
  intro k. rewrite <- Hl. reflexivity.
Qed.

Section Prog.
Variable cf : cfg.
Variable p : list ctmpl.
Hypothesis Hob : c_oblig cf = [].
Hypothesis Hij : forall x, c_ij cf = Some x -> core_value x = true.
Hypothesis Hreg : r_templates (c_reg cf) = c04_templates p.

(* state.walk of a template node, in a state whose scope holds the template's data: the template's autoescape mode, then the body *)
Lemma go_template_walk k t f1 st cenv text :
  go_callee_ok cf (c04_tout (c_ij cf) go_print_text p k) (k * c04_D p) ->
  (k * c04_D p + bdepth (ct_body t) < f1)%nat -> wok st -> agrees cenv st cenv -> envok cenv ->
  bout (c_ij cf) (template_mode (mode st) (ct_ae t)) go_print_text cenv (c04_tout (c_ij cf) go_print_text p k) cenv (ct_body t) = Some text ->
  exists st' ws rv, walk cf (S f1) (t_node (c04_template t)) st = (Ok rv, st') /\ wrote st st' ws /\ concat_b ws = text /\ ctx st' = ctx st.
Proof.
  intros IH Hf Hg Ha Hc E.
  cbn [c04_template t_node]. rewrite walk_unfold. cbn [walk_node pos_of].
  unfold mbind at 1. cbn [modify].
  set (st3 := set_mode (set_cur st 0) (template_mode (mode (set_cur st 0)) (ct_ae t))).
  assert (M3 : mode st3 = template_mode (mode st) (ct_ae t)) by reflexivity.
  assert (C3 : ctx st3 = ctx st) by reflexivity.
  assert (S3 : wsame st st3) by (repeat split).
  destruct (go_block cf cenv (c04_tout (c_ij cf) go_print_text p k) (k * c04_D p) IH (ct_body t) f1 st3 text cenv
              (proj1 (proj2 (interp_all cf Hob Hij cenv Hc _ _ IH)) (ct_body t)) Hf (wsame_wok _ _ S3 Hg) (agrees_ctx _ _ _ _ C3 Ha) Hc)
    as (st4 & ws & rv & E4 & W4 & T4 & M4 & X4).
  { rewrite M3. exact E. }
  unfold mbind at 1. rewrite E4. cbn [ret].
  exists st4, ws, VUndef. split; [reflexivity|]. split; [exact (wrote_l _ _ _ _ S3 W4)|]. split; [exact T4|congruence].
Qed.

(* (Go) entering a template writes what the subset semantics says, at every call depth *)
Theorem go_call_correct : forall k, go_callee_ok cf (c04_tout (c_ij cf) go_print_text p k) (k * c04_D p).
Proof.
  induction k as [|k IH]; intros name cenv text E; [discriminate|].
  cbn [c04_tout] in E. destruct (c04_find p name) as [t|] eqn:Ef; [|discriminate].
  exists (c04_template t). split; [rewrite Hreg; apply c04_find_template; exact Ef|].
  intros f st cd Hf Hg Hn Hl Hc. pose proof (c04_find_depth p name t Ef) as Hd.
  rewrite Nat.mul_succ_l in Hf. unfold c04_D in Hf at 2.
  destruct f as [|f1]; [lia|].
  unfold call_enter. unfold mbind at 1. cbn [get]. unfold mbind at 1. cbn [modify].
  set (st2 := set_depth (set_mode (set_ctx st (sc_enter cd)) (call_mode (t_ns_autoescape (c04_template t)))) (S (depth_ st))).
  assert (C2 : ctx st2 = sc_enter cd) by reflexivity.
  assert (S2 : wsame st st2) by (repeat split).
  assert (A2 : agrees cenv st2 cenv).
  { split; [intro q; rewrite C2, sc_enter_lookup by exact Hn; apply Hl|rewrite C2; apply sc_enter_dinv; assumption]. }
  destruct (go_template_walk k t f1 st2 cenv text IH ltac:(lia) (wsame_wok _ _ S2 Hg) A2 Hc E) as (st4 & ws & rv & E4 & W4 & T4 & X4).
  rewrite E4.
  eexists _, ws, VUndef. split; [reflexivity|].
  split; [apply (wrote_r _ st4); [exact (wrote_l _ _ _ _ S2 W4)|repeat split]|].
  split; [exact T4|]. split; reflexivity.
Qed.

(* the subset semantics does not distinguish autoescape "unspecified" (0) from "on" (1): both escape (the two print
   functions are convertible) *)
Lemma bout_mode01 ij dv cl env b : bout ij 1 go_print_text dv cl env b = bout ij 0 go_print_text dv cl env b.
Proof. reflexivity. Qed.

(* (Go) the entry point: Renderer.Execute of a template of the program with data (a map of core values) and no write budget
   succeeds and the Write calls it makes concatenate to the text of the subset semantics.  Execute starts in autoescape
   mode "on" when the namespace does not say (entry_mode) while a call inherits "unspecified" -- the mode the generator and
   c04_tout use --: both escape (bout_mode01), so the text is the same *)
Theorem go_render_correct k name t data_id data first_id text fuel :
  c04_find p name = Some t ->
  forallb (fun kv => core_value (snd kv)) data = true ->
  c04_tout (c_ij cf) go_print_text p (S k) name (fun q => assoc_s q data) = Some text ->
  (S k * c04_D p <= fuel)%nat ->
  let r := render cf fuel name data_id data None None first_id in
  rr_outcome r = Ok tt /\ concat_b (rr_writes r) = text.
Proof.
  intros Ef Hcore E Hf. cbn [c04_tout] in E. rewrite Ef in E.
  pose proof (c04_find_depth p name t Ef) as Hd. rewrite Nat.mul_succ_l in Hf. unfold c04_D in Hf at 2.
  destruct fuel as [|f1]; [lia|].
  cbn zeta. unfold render. rewrite Hreg, (c04_find_template p name t Ef).
  set (st0 := init_state (sc_enter (new_scope data_id data)) (entry_mode (t_ns_autoescape (c04_template t))) name None None first_id).
  set (cenv := fun q => assoc_s q data) in *.
  assert (Hc : envok cenv) by (intros q x Hq; exact (core_assoc q data x Hcore Hq)).
  assert (Hl : forall q, sc_lookup (new_scope data_id data) q = cenv q).
  { intro q. unfold new_scope, cenv. cbn [sc_lookup f_vars]. destruct (assoc_s q data); reflexivity. }
  assert (A0 : agrees cenv st0 cenv).
  { split; [intro q; change (ctx st0) with (sc_enter (new_scope data_id data)); rewrite sc_enter_lookup by discriminate; apply Hl|].
    change (ctx st0) with (sc_enter (new_scope data_id data)). apply sc_enter_dinv; [discriminate|exact Hl]. }
  assert (W0 : wok st0) by (unfold wok; cbn; auto).
  assert (E' : bout (c_ij cf) (template_mode (mode st0) (ct_ae t)) go_print_text cenv (c04_tout (c_ij cf) go_print_text p k) cenv (ct_body t) = Some text).
  { change (mode st0) with (entry_mode (ct_ns_ae t)). unfold ct_mode, call_mode in E. unfold template_mode, entry_mode in *.
    destruct (ct_ae t =? 0); [|exact E]. destruct (ct_ns_ae t =? 0) eqn:Z0; [|exact E]. apply N.eqb_eq in Z0. rewrite Z0 in E. rewrite bout_mode01. exact E. }
  destruct (go_template_walk k t f1 st0 cenv text (go_call_correct k) ltac:(lia) W0 A0 Hc E') as (st4 & ws & rv & E4 & W4 & T4 & X4).
  rewrite E4. cbn [rr_outcome rr_writes].
  destruct (wrote_out st0 st4 ws eq_refl W4) as [_ Ho]. rewrite Ho. cbn [out st0 init_state]. rewrite app_nil_r, rev_involutive.
  split; [reflexivity|exact T4].
Qed.

(* ---- the JavaScript side ---- *)
Lemma c04_ginv_init n : ginv c04_body_scope n t_output.
Proof.
  assert (Hl : forall key, jsc_lookup c04_body_scope key = []) by (intro key; reflexivity).
  assert (Hp : forall x, jsc_loop c04_body_scope x = ([], [])) by (intro x; unfold c04_body_scope; rewrite !jsc_loop_push; reflexivity).
  constructor.
  - discriminate.
  - intros key _. rewrite Hl. apply bounded_nil.
  - apply bounded_no_us. cbn. intuition discriminate.
  - intros key _. rewrite Hl. reflexivity.
  - reflexivity.
  - intro x. rewrite Hp. cbn [fst snd]. repeat split; try apply bounded_nil; reflexivity.
Qed.

Lemma c04_env_rel_init cenv jd ijv : datarel cenv jd -> (forall v, c_ij cf = Some v -> ijv = to_js v) ->
  env_rel c04_body_scope (c_ij cf) cenv {| je_vars := [(t_opt_ij, ijv); (t_output, JStr [])]; je_data := jd |}.
Proof.
  intros (D1 & D2 & D3) Hi. constructor.
  - intros key _ _. change (jsc_lookup c04_body_scope key) with (@nil N). cbn [je_data]. unfold env_val. apply D1.
  - intros v Hv. cbn [je_vars]. unfold assoc_s. rewrite bstr_eqb_refl'. rewrite (Hi v Hv). reflexivity.
  - intro key. unfold env_val. destruct (cenv key) as [v|] eqn:E; [exact (D2 key v E)|reflexivity].
  - exact Hij.
  - intros x i H. rewrite D3 in H; [discriminate|]. rewrite is_ident_app. replace (is_ident jk_index) with false by reflexivity. apply andb_false_r.
Qed.

(* (JS) the function of a template returns what the subset semantics says, at every call depth, for every table of the
   program's functions (whatever counters they were generated from) *)
Theorem js_call_correct_tbl jp : c04_table_ok p jp ->
  forall k, js_callee_ok (c_ij cf) (c04_tout (c_ij cf) go_print_text p k) (c04_jcall jp k).
Proof.
  intro Htbl. induction k as [|k IH]; intros name cenv text jd ijv E DR Hi; [discriminate|].
  cbn [c04_tout] in E. destruct (c04_find p name) as [t|] eqn:Ef; [|discriminate].
  destruct (Htbl name t Ef) as (nt & Etb).
  cbn [c04_jcall]. rewrite Etb.
  destruct (datarel_obj cenv jd DR) as (m & ->).
  replace (if ct_allopt t then if js_truthy (JObj m) then JObj m else JObj [] else JObj m) with (JObj m) by (destruct (ct_allopt t); reflexivity).
  set (je0 := {| je_vars := [(t_opt_ij, ijv); (t_output, JStr [])]; je_data := JObj m |}).
  unfold c04_jbody. destruct (bgen (ct_mode t) t_output c04_body_scope nt (ct_body t)) as [jb n'] eqn:Eg. cbn [fst].
  destruct (proj1 (proj2 (js_exec_all (c_ij cf) (ct_mode t) cenv _ _ IH)) (ct_body t) t_output c04_body_scope nt cenv je0 [] text jb n'
              (c04_ginv_init _) E (conj (c04_env_rel_init cenv (JObj m) ijv DR Hi) eq_refl) DR Eg) as (je' & X & Hb' & F).
  rewrite X. cbn [bind]. rewrite Hb'. reflexivity.
Qed.
Theorem js_call_correct cnt : forall k, js_callee_ok (c_ij cf) (c04_tout (c_ij cf) go_print_text p k) (c04_jcall (c04_jprog p cnt) k).
Proof. apply js_call_correct_tbl. apply c04_jprog_ok. Qed.
End Prog.

(* ---- the generator: visitTemplate ---- *)
Section TemplateChunks.
Variable o : jopts.
Hypothesis HCN : cn_ok o.
Hypothesis HNB : o_msgs o = None.

Lemma gres_mod_auto a' st i b a s n : shape st i b a s n -> gres o (jmod (set_auto a')) st [] i b a' s n.
Proof. intro H. exists (set_auto a' st). split; [reflexivity|]. destruct st; cbn in *. split; [reflexivity|]. destruct H as (? & ? & ? & ? & ?). repeat split; try assumption; intros _; reflexivity. Qed.
Lemma gres_mod_buf b' st i b a s n : shape st i b a s n -> gres o (jmod (set_buf b')) st [] i b' a s n.
Proof. intro H. exists (set_buf b' st). split; [reflexivity|]. destruct st; cbn in *. split; [reflexivity|]. destruct H as (? & ? & ? & ? & ?). repeat split; try assumption; intros _; reflexivity. Qed.
Lemma gres_mod_infile f st i b a s n : shape st i b a s n -> gres o (jmod (fun x => set_infile (f x) x)) st [] i b a s n.
Proof. intro H. exists (set_infile (f st) st). split; [reflexivity|]. destruct st; cbn in *. split; [reflexivity|]. split; [exact H|reflexivity]. Qed.
Lemma gres_push st i b a s n : shape st i b a s n -> gres o jsc_push st [] i b a ([] :: s) n.
Proof.
  intros (I1 & B1 & A1 & S1 & N1). exists (set_scope ([] :: j_scope st) (j_n st) st). split; [reflexivity|].
  split; [destruct st; reflexivity|]. split; [|destruct st; reflexivity]. unfold shape. cbn [j_indent j_buf j_auto j_scope j_n set_scope]. rewrite S1. repeat split; assumption.
Qed.

Tactic Notation "gbind" ident(x) ident(H) := eapply gres_bind; [ | intros x H ].

Lemma gres_template_head ae st i b a s n : shape st i b a s n ->
  gres o (template_head ae) st (sp_ind i ++ [] ++ [CText t_nl]) i b (template_mode a ae) s n.
Proof.
  intro H. unfold template_head, template_mode. destruct (ae =? 0).
  - eapply gres_eq; [eapply gres_bind; [eapply gres_ret; exact H|intros x Hx; eapply gres_sln; exact Hx]|reflexivity].
  - eapply gres_eq; [eapply gres_bind; [eapply gres_mod_auto; exact H|intros x Hx; eapply gres_sln; exact Hx]|reflexivity].
Qed.
Lemma gres_optline (c : bool) st i b a s n : shape st i b a s n ->
  gres o (if c then jsln [CText t_optdata_init] else jret tt) st (if c then sp_ind i ++ [CText t_optdata_init] ++ [CText t_nl] else []) i b a s n.
Proof. intro H. destruct c; [apply gres_sln; exact H|apply gres_ret; exact H]. Qed.

(* the flag visitTemplate computes from the soydoc node before the template *)
Definition c04_allopt (prev : option (list bool)) : bool :=
  match prev with Some flags => negb (Nat.eqb (length flags) 0) && forallb (fun x => x) flags | None => false end.

Theorem gen_template t lv F st jb n' bf sc n :
  (S (bdepth (ct_body t)) < F)%nat -> bwf lv (ct_body t) = true -> lvok lv ([] :: sc) ->
  shape st 0 bf (ct_ns_ae t) sc n ->
  bgen (ct_mode t) t_output ([] :: [] :: sc) n (ct_body t) = (jb, n') ->
  gres o (jwalk o F (t_node (c04_template t))) st
       (c04_tprint (template_header_line o (ct_name t)) (c04_allopt (j_cur st)) jb) 0 t_output (ct_ns_ae t) sc n'.
Proof.
  intros Hf Hwf Hlv Hs Eg. destruct F as [|F1]; [lia|]. cbn [c04_template t_node].
  eapply gres_walk; [reflexivity|exact Hs|]. intros st1 H1. cbn [jwalk_node]. unfold visit_template.
  eapply gres_step; [reflexivity|split; reflexivity|]. cbn zeta.
  replace (j_auto st1) with (ct_ns_ae t) by (symmetry; apply H1).
  fold (c04_allopt (j_cur st)).
  eapply gres_eq.
  - (* template_head *)
    gbind x1 Hx1. eapply (gres_template_head (ct_ae t)); exact H1.
    gbind x2 Hx2. eapply gres_sln; exact Hx1.
    unfold template_rest.
    gbind x3 Hx3. eapply gres_mod_infile; exact Hx2.
    gbind x4 Hx4. eapply gres_inc; exact Hx3.
    gbind x5 Hx5. eapply (gres_optline (c04_allopt (j_cur st))); exact Hx4.
    gbind x6 Hx6. eapply gres_sln; exact Hx5.
    gbind x7 Hx7. eapply gres_mod_buf; exact Hx6.
    gbind x8 Hx8. eapply gres_push; exact Hx7.
    gbind x9 Hx9.
    { apply (gen_nlist o (ct_body t) lv F1 x8 jb n' 1%nat t_output (ct_mode t) ([] :: sc) n
               (proj1 (proj2 (sgen_print_all o HCN HNB)) (ct_body t)) ltac:(lia) Hlv Hwf Hx8 Eg). }
    gbind x10 Hx10. eapply gres_sln; exact Hx9.
    gbind x11 Hx11. eapply gres_dec; exact Hx10.
    gbind x12 Hx12. eapply gres_sln; exact Hx11.
    gbind x13 Hx13. eapply gres_mod_auto; exact Hx12.
    eapply (gres_pop o x13 _ _ _ [] sc); exact Hx13.
  - unfold c04_tprint, sp_ind. destruct (c04_allopt (j_cur st)); repeat rewrite <- app_assoc; cbn [app]; rewrite ?app_nil_r; reflexivity.
Qed.

(* the templates of a file, one after the other: walking the soydoc and template nodes in order emits the function of each
   template from the counter the chain gives it -- the function table c04_jprog_chain -- and ends at the chain's last counter *)
Definition c04_file_chunks (p : list ctmpl) (n : N) : list chunk :=
  flat_map (fun tn => c04_tprint (template_header_line o (ct_name (fst tn))) (ct_allopt (fst tn)) (c04_jbody (fst tn) (snd tn))) (c04_chain p n).
Theorem gen_templates nsae F : forall p n st bf,
  (forall t, In t p -> ct_ns_ae t = nsae /\ (S (S (bdepth (ct_body t))) < F)%nat /\ bwf [] (ct_body t) = true) ->
  shape st 0 bf nsae [[]] n ->
  exists bf' n', gres o (jwalk_list (jwalk o F) (flat_map c04_doc_nodes p)) st (c04_file_chunks p n) 0 bf' nsae [[]] n'.
Proof.
  induction p as [|t r IH]; intros n st bf Hall Hs.
  - exists bf, n. cbn [flat_map jwalk_list c04_file_chunks c04_chain]. apply gres_ret; exact Hs.
  - destruct (Hall t (or_introl eq_refl)) as (Hns & Hd & Hwf). subst nsae.
    destruct F as [|F1]; [lia|].
    cbn [flat_map c04_doc_nodes app jwalk_list]. unfold c04_file_chunks. cbn [c04_chain flat_map fst snd]. fold (c04_file_chunks r (snd (bgen (ct_mode t) t_output c04_body_scope n (ct_body t)))).
    (* the soydoc node: s.node remembers its parameters *)
    set (flags := soydoc_flags (NSoyDoc 0 (if ct_allopt t then [NSoyDocParam 0 [] true] else []))).
    set (st1 := jset_cur flags st).
    assert (E1 : jwalk o (S F1) (NSoyDoc 0 (if ct_allopt t then [NSoyDocParam 0 [] true] else [])) st = Ok (tt, st1)) by (rewrite jwalk_S; reflexivity).
    assert (H1 : shape st1 0 bf (ct_ns_ae t) [[]] n) by (subst st1; destruct st; exact Hs).
    assert (O1 : j_out st1 = j_out st) by (subst st1; destruct st; reflexivity).
    assert (Hao : c04_allopt (j_cur st1) = ct_allopt t).
    { subst st1 flags. destruct st. unfold jset_cur. cbn. destruct (ct_allopt t); reflexivity. }
    destruct (bgen (ct_mode t) t_output c04_body_scope n (ct_body t)) as [jb n1] eqn:Eg.
    pose proof (gen_template t [] (S F1) st1 jb n1 bf [[]] n ltac:(lia) Hwf ltac:(intros x Hx; discriminate Hx) H1 Eg) as G2. rewrite Hao in G2.
    change (NTemplate 0 (ct_name t) (NList 0 (bnodes (ct_body t))) (ct_ae t) false) with (t_node (c04_template t)).
    destruct G2 as (st2 & E2 & O2 & H2 & C2).
    destruct (IH n1 st2 t_output (fun t' Ht' => Hall t' (or_intror Ht')) H2) as (bf' & n' & (st3 & E3 & O3 & H3 & C3)).
    assert (C1 : j_called st1 = j_called st) by (subst st1; destruct st; reflexivity).
    exists bf', n', st3. rewrite (jbind_ok _ _ _ _ _ E1), (jbind_ok _ _ _ _ _ E2). split; [exact E3|].
    split; [|split; [exact H3|intro HF; rewrite (C3 HF), (C2 HF); exact C1]].
    cbn [snd]. unfold c04_jbody at 1. rewrite Eg. cbn [fst]. rewrite O3, O2, O1, rev_app_distr, app_assoc. reflexivity.
Qed.
End TemplateChunks.

(* ---- a template of a program built from the proved stages: the three sides together ---- *)
Theorem gen_correct_partial_template cf o p cnt :
  c_oblig cf = [] -> (forall x, c_ij cf = Some x -> core_value x = true) -> r_templates (c_reg cf) = c04_templates p -> cn_ok o -> o_msgs o = None ->
  forall k name cenv text, c04_tout (c_ij cf) go_print_text p k name cenv = Some text ->
  exists t, c04_find p name = Some t
  /\ (* Go: evalCall / Execute entering the template *)
     (envok cenv -> forall f st cd, (k * c04_D p <= f)%nat -> wok st -> cd <> [] -> (forall q, sc_lookup cd q = cenv q) ->
        exists st' ws rv, call_enter (walk cf f) (c04_template t) cd st = (Ok rv, st') /\ wrote st st' ws /\ concat_b ws = text
                          /\ mode st' = mode st /\ ctx st' = ctx st)
  /\ (* JS: the function of the template in the generated file *)
     (forall jd ijv, datarel cenv jd -> (forall v, c_ij cf = Some v -> ijv = to_js v) ->
        c04_jcall (c04_jprog p cnt) k name jd ijv = Ok text)
  /\ (* Gen: that function is what visitTemplate writes, from the counter cnt name *)
     (forall F st bf, (S (bdepth (ct_body t)) < F)%nat -> bwf [] (ct_body t) = true ->
        shape st 0 bf (ct_ns_ae t) [[]] (cnt name) -> c04_allopt (j_cur st) = ct_allopt t ->
        gres o (jwalk o F (t_node (c04_template t))) st
             (c04_tprint (template_header_line o name) (ct_allopt t) (c04_jbody t (cnt name))) 0 t_output (ct_ns_ae t) [[]]
             (snd (bgen (ct_mode t) t_output c04_body_scope (cnt name) (ct_body t)))).
Proof.
  intros Hob Hij Hreg HCN HNB k name cenv text E.
  assert (Ht : exists t, c04_find p name = Some t).
  { destruct k as [|k]; [discriminate|]. cbn [c04_tout] in E. destruct (c04_find p name) as [t|]; [eauto|discriminate]. }
  destruct Ht as (t & Ef). exists t. split; [exact Ef|]. pose proof (c04_find_name p name t Ef) as Hname. split; [|split].
  - intros Hc f st cd Hf Hg Hn Hl.
    destruct (go_call_correct cf p Hob Hij Hreg k name cenv text E) as (t0 & Ft & Hrun).
    rewrite Hreg, (c04_find_template p name t Ef) in Ft. inversion Ft; subst t0. exact (Hrun f st cd Hf Hg Hn Hl Hc).
  - intros jd ijv DR Hi. exact (js_call_correct cf p Hij cnt k name cenv text jd ijv E DR Hi).
  - intros F st bf Hf Hwf Hs Hao. subst name. unfold c04_jbody.
    destruct (bgen (ct_mode t) t_output c04_body_scope (cnt (ct_name t)) (ct_body t)) as [jb n'] eqn:Eg. cbn [fst snd].
    rewrite <- Hao.
    apply (gen_template o HCN HNB t [] F st jb n' bf [[]] (cnt (ct_name t)) Hf Hwf); [intros x Hx; discriminate Hx|exact Hs|exact Eg].
Qed.
