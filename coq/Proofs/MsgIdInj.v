(* C10: what the message id itself determines.

   calcID is not injective in the fingerprinted string (a 63-bit value cannot be), but it is
   as injective as its shape allows: it is a bijective re-arrangement of the two 32-bit words
   hash32(str, seed_hi) and hash32(str, seed_lo) followed by the loss of exactly ONE bit.
   Hence two contents (with one meaning) share an id only if those two hashes collide on the
   other 63 bits; and two meanings give one content the same id only if the meanings'
   fingerprints collide on 63 bits.  Everything here is arithmetic on Model/MsgId.v's
   fingerprint / calc_id, for all strings. *)
From Coq Require Import NArith ZArith Lia List Bool ZifyN ZifyBool.
From Soy Require Import Model.Bytes Model.Outcome Generated.Tables Model.MsgId.
Import ListNotations.
Open Scope N_scope.

Local Ltac dm := zify; Z.div_mod_to_equations; lia.

(* ------------------------------------------------------------------ *)
(* bit-level helpers                                                   *)
(* ------------------------------------------------------------------ *)

Lemma lor_high_low (a x n : N) : N.lor (a * 2 ^ n) (x mod 2 ^ n) = a * 2 ^ n + x mod 2 ^ n.
Proof.
  assert (H : N.land (a * 2 ^ n) (x mod 2 ^ n) = 0).
  { apply N.bits_inj. intro k. rewrite N.land_spec, N.bits_0.
    destruct (N.lt_ge_cases k n) as [Hk|Hk].
    - rewrite N.mul_pow2_bits_low by exact Hk. reflexivity.
    - rewrite N.mod_pow2_bits_high by exact Hk. apply andb_false_r. }
  rewrite <- N.lxor_lor by exact H. symmetry. apply N.add_nocarry_lxor. exact H.
Qed.

Lemma land_pow2 (a n : N) : N.land a (2 ^ n) = if N.testbit a n then 2 ^ n else 0.
Proof.
  apply N.bits_inj. intro k. rewrite N.land_spec, N.pow2_bits_eqb.
  destruct (N.eqb_spec n k) as [->|Hne].
  - destruct (N.testbit a k); [rewrite N.pow2_bits_true; reflexivity | rewrite N.bits_0; reflexivity].
  - rewrite andb_false_r. destruct (N.testbit a n); [|rewrite N.bits_0; reflexivity].
    rewrite N.pow2_bits_false by exact Hne. reflexivity.
Qed.

Lemma testbit_top (a n : N) : a < 2 ^ (n + 1) -> N.b2n (N.testbit a n) = a / 2 ^ n.
Proof.
  intro H. rewrite N.testbit_spec'. apply N.mod_small.
  apply N.div_lt_upper_bound; [apply N.pow_nonzero; discriminate|].
  rewrite N.pow_add_r, N.pow_1_r in H. lia.
Qed.

(* ------------------------------------------------------------------ *)
(* fingerprint = the two hash words side by side                       *)
(* ------------------------------------------------------------------ *)

(* the two hash32 runs *)
Definition raw_pair (s : bstr) : N * N := (hash32 s fp_seed_hi, hash32 s fp_seed_lo).

(* "Turn 0/1 into another fingerprint" *)
Definition degenerate (p : N * N) : bool := (fst p =? 0) && ((snd p =? 0) || (snd p =? 1)).
Definition adjust (p : N * N) : N * N :=
  if degenerate p then (N.lxor (fst p) fp_xor_hi, N.lxor (snd p) fp_xor_lo) else p.

(* (hi, lo) as fingerprint combines them *)
Definition fp_pair (s : bstr) : N * N := adjust (raw_pair s).

Definition two32 : N := 4294967296.
Definition two62 : N := 4611686018427387904.
Definition two63 : N := 9223372036854775808.
Definition two64 : N := 18446744073709551616.

Lemma fingerprint_pair (s : bstr) :
  fingerprint s = (fst (fp_pair s) mod two32) * two32 + snd (fp_pair s) mod two32.
Proof.
  unfold fingerprint, fp_pair, adjust, degenerate, raw_pair. cbn [fst snd].
  set (hi := hash32 s fp_seed_hi). set (lo := hash32 s fp_seed_lo). cbv zeta.
  assert (C : forall h l, N.lor (w64 (N.shiftl h 32)) (N.land l 4294967295) = (h mod two32) * two32 + l mod two32).
  { intros h l. unfold w64. rewrite N.shiftl_mul_pow2.
    change 4294967295 with (N.ones 32). rewrite N.land_ones.
    change 18446744073709551616 with (2 ^ 32 * 2 ^ 32). rewrite N.mul_mod_distr_r by discriminate.
    change two32 with (2 ^ 32). apply lor_high_low. }
  destruct ((hi =? 0) && ((lo =? 0) || (lo =? 1))); cbn [fst snd]; apply C.
Qed.

Lemma fingerprint_lt (s : bstr) : fingerprint s < two64.
Proof. rewrite fingerprint_pair. unfold two32, two64. dm. Qed.

(* the two halves can be read off the fingerprint *)
Lemma fingerprint_hi (s : bstr) : fingerprint s / two32 = fst (fp_pair s) mod two32.
Proof. rewrite fingerprint_pair. unfold two32. dm. Qed.
Lemma fingerprint_lo (s : bstr) : fingerprint s mod two32 = snd (fp_pair s) mod two32.
Proof. rewrite fingerprint_pair. unfold two32. dm. Qed.

Theorem fingerprint_eq_iff (s s' : bstr) :
  fingerprint s = fingerprint s' <->
  fst (fp_pair s) mod two32 = fst (fp_pair s') mod two32 /\ snd (fp_pair s) mod two32 = snd (fp_pair s') mod two32.
Proof.
  split.
  - intro H. rewrite <- !fingerprint_hi, <- !fingerprint_lo, H. split; reflexivity.
  - intros [H1 H2]. rewrite !fingerprint_pair, H1, H2. reflexivity.
Qed.

(* the adjustment identifies nothing but the two designated pairs with their images *)
Theorem adjust_inj (p q : N * N) : adjust p = adjust q -> p = q \/ degenerate p = true \/ degenerate q = true.
Proof.
  unfold adjust. destruct (degenerate p); [right; left; reflexivity|].
  destruct (degenerate q); [right; right; reflexivity|]. left. assumption.
Qed.

(* ------------------------------------------------------------------ *)
(* hash32 is a 32-bit word (so the "mod 2^32" above are no loss)       *)
(* ------------------------------------------------------------------ *)

Lemma lxor_lt32 (x y : N) : x < two32 -> y < two32 -> N.lxor x y < two32.
Proof.
  intros Hx Hy. change two32 with (2 ^ 32) in *.
  destruct (N.eq_dec (N.lxor x y) 0) as [->|Hne]; [reflexivity|].
  apply N.log2_lt_pow2; [lia|].
  eapply N.le_lt_trans; [apply N.log2_lxor|].
  apply N.max_lub_lt.
  - destruct (N.eq_dec x 0) as [->|Hx0]; [reflexivity|]. apply N.log2_lt_pow2; lia.
  - destruct (N.eq_dec y 0) as [->|Hy0]; [reflexivity|]. apply N.log2_lt_pow2; lia.
Qed.
Lemma sub32_lt (x y : N) : sub32 x y < two32.
Proof. unfold sub32, two32. apply N.mod_lt. discriminate. Qed.
Lemma shl32_lt (x k : N) : shl32 x k < two32.
Proof. unfold shl32, two32. apply N.mod_lt. discriminate. Qed.
Lemma shiftr_lt32 (x k : N) : x < two32 -> N.shiftr x k < two32.
Proof.
  intro H. rewrite N.shiftr_div_pow2. eapply N.le_lt_trans; [|exact H].
  apply N.div_le_upper_bound; [apply N.pow_nonzero; discriminate|].
  assert (2 ^ k <> 0) by (apply N.pow_nonzero; discriminate). nia.
Qed.

(* whatever assignments the regenerated mix block consists of: every word stays below 2^32 *)
Lemma mix_lt32 (a b0 c : N) : a < two32 -> b0 < two32 -> c < two32 ->
  let '(a', b', c') := mix a b0 c in a' < two32 /\ b' < two32 /\ c' < two32.
Proof.
  intros Ha Hb Hc. unfold mix. cbv zeta.
  repeat split;
    repeat first [ assumption | apply sub32_lt | apply shl32_lt | apply lxor_lt32 | apply shiftr_lt32 ].
Qed.

Lemma hash32_lt (s : bstr) (seed : N) : hash32 s seed < two32.
Proof.
  unfold hash32.
  destruct (h32_blocks s (h32_init_a, h32_init_b, w32 seed)) as [rest st].
  destruct (h32_add 2 (w32 (N.of_nat (length s))) st) as [[a1 b1] c1].
  destruct (h32_loads rest _ (a1, b1, c1)) as [[a2 b2] c2].
  (* the last assignment of mix to c is an xor of 32-bit words whatever a2 b2 c2 are *)
  unfold mix. cbv zeta.
  repeat first [ apply sub32_lt | apply shl32_lt | apply lxor_lt32 | apply shiftr_lt32 ].
Qed.

Lemma raw_pair_lt (s : bstr) : fst (raw_pair s) < two32 /\ snd (raw_pair s) < two32.
Proof. split; apply hash32_lt. Qed.

Lemma fp_pair_lt (s : bstr) : fst (fp_pair s) < two32 /\ snd (fp_pair s) < two32.
Proof.
  unfold fp_pair, adjust. destruct (raw_pair_lt s) as [H1 H2].
  destruct (degenerate (raw_pair s)); cbn [fst snd]; [|split; assumption].
  split; apply lxor_lt32; try assumption; reflexivity.
Qed.

(* the fingerprint determines the (adjusted) pair of hashes, and conversely *)
Theorem fingerprint_eq_iff_pair (s s' : bstr) : fingerprint s = fingerprint s' <-> fp_pair s = fp_pair s'.
Proof.
  rewrite fingerprint_eq_iff.
  destruct (fp_pair_lt s) as [H1 H2]. destruct (fp_pair_lt s') as [H3 H4].
  rewrite !N.mod_small by assumption.
  destruct (fp_pair s), (fp_pair s'); cbn [fst snd]. split; [intros [-> ->]; reflexivity|intro H; inversion H; auto].
Qed.

(* ------------------------------------------------------------------ *)
(* calc_id as arithmetic on fingerprints                               *)
(* ------------------------------------------------------------------ *)

(* rotate a 64-bit word left by one: (fp << 1) + topbit *)
Definition rot1 (fp : N) : N := (2 * fp) mod two64 + fp / two63.

Theorem calc_id_no_meaning (s : bstr) : calc_id s [] = fingerprint s mod two63.
Proof.
  unfold calc_id. cbv zeta. change calc_id_mask with (N.ones 63). rewrite N.land_ones. reflexivity.
Qed.

Theorem calc_id_meaning (s m : bstr) : m <> [] -> calc_id s m = (rot1 (fingerprint s) + fingerprint m) mod two63.
Proof.
  intro Hm. unfold calc_id. cbv zeta. destruct m as [|c r]; [congruence|].
  change calc_id_mask with (N.ones 63). rewrite N.land_ones.
  pose proof (fingerprint_lt s) as Hlt. set (fp := fingerprint s) in *. set (fm := fingerprint (c :: r)).
  change 9223372036854775808 with (2 ^ 63). rewrite land_pow2.
  assert (Ht : (if 0 <? (if N.testbit fp 63 then 2 ^ 63 else 0) then 1 else 0) = fp / two63).
  { change two63 with (2 ^ 63). rewrite <- (testbit_top fp 63) by exact Hlt. destruct (N.testbit fp 63); reflexivity. }
  rewrite Ht. unfold w64, rot1. rewrite N.shiftl_mul_pow2, N.pow_1_r.
  change 18446744073709551616 with two64. change (2 ^ 63) with two63.
  replace (fp * 2) with (2 * fp) by lia.
  unfold two63, two64 in *. dm.
Qed.

(* no meaning: the id is the fingerprint without its top bit *)
Theorem same_id_no_meaning_iff (s s' : bstr) :
  calc_id s [] = calc_id s' [] <-> fingerprint s mod two63 = fingerprint s' mod two63.
Proof. rewrite !calc_id_no_meaning. reflexivity. Qed.

(* one meaning: the id determines the fingerprint of the content up to bit 62 *)
Theorem same_id_same_meaning_iff (s s' m : bstr) : m <> [] ->
  (calc_id s m = calc_id s' m <->
   fingerprint s mod two62 = fingerprint s' mod two62 /\ fingerprint s / two63 = fingerprint s' / two63).
Proof.
  intro Hm. rewrite !calc_id_meaning by exact Hm.
  pose proof (fingerprint_lt s) as H1. pose proof (fingerprint_lt s') as H2.
  set (x := fingerprint s) in *. set (y := fingerprint s') in *. set (z := fingerprint m).
  unfold rot1, two62, two63, two64 in *. split; [intro H|intros [Ha Hb]]; dm.
Qed.

(* one content, two meanings: the ids agree iff the meanings' fingerprints agree up to the top bit *)
Theorem same_id_two_meanings_iff (s m m' : bstr) : m <> [] -> m' <> [] ->
  (calc_id s m = calc_id s m' <-> fingerprint m mod two63 = fingerprint m' mod two63).
Proof.
  intros Hm Hm'. rewrite !calc_id_meaning by assumption.
  set (x := rot1 (fingerprint s)). set (y := fingerprint m). set (z := fingerprint m').
  unfold two63. split; intro H; dm.
Qed.

(* ------------------------------------------------------------------ *)
(* headline: equal ids (one meaning) only by a collision of hash32     *)
(* ------------------------------------------------------------------ *)

(* the two hash words agree except possibly in bits 30 and 31 of the high word *)
Definition agree62 (p q : N * N) : Prop := snd p = snd q /\ fst p mod 1073741824 = fst q mod 1073741824.

Theorem same_id_only_by_collision (s s' m : bstr) :
  calc_id s m = calc_id s' m -> agree62 (fp_pair s) (fp_pair s').
Proof.
  intro H. unfold agree62.
  destruct (fp_pair_lt s) as [H1 H2]. destruct (fp_pair_lt s') as [H3 H4].
  pose proof (fingerprint_pair s) as E. pose proof (fingerprint_pair s') as E'.
  rewrite !N.mod_small in E, E' by assumption.
  destruct m as [|c r].
  - apply same_id_no_meaning_iff in H. rewrite E, E' in H. unfold two32, two63 in *. split; dm.
  - apply same_id_same_meaning_iff in H; [|discriminate]. destruct H as [Ha Hb]. rewrite E, E' in Ha.
    unfold two32, two62 in *. split; dm.
Qed.

(* contrapositive, the form the property's text has: a change of content that changes 62 designated
   bits of the two hashes changes the id *)
Theorem id_changes_unless_collision (s s' m : bstr) :
  ~ agree62 (fp_pair s) (fp_pair s') -> calc_id s m <> calc_id s' m.
Proof. intros H E. apply H. exact (same_id_only_by_collision s s' m E). Qed.

(* at the level of messages *)
Theorem msg_same_id_only_by_collision (order : list bstr -> list bstr) (m m' : msg) named named' :
  msg_named order (m_body m) = Ok named -> msg_named order (m_body m') = Ok named' ->
  m_meaning m = m_meaning m' -> msg_id order m = msg_id order m' ->
  agree62 (fp_pair (write_fp_list false named)) (fp_pair (write_fp_list false named')).
Proof.
  intros Hn Hn' Hm H. unfold msg_id in H. rewrite Hn, Hn' in H. cbn in H. inversion H as [E].
  rewrite Hm in E. exact (same_id_only_by_collision _ _ _ E).
Qed.
