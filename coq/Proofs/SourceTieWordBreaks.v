(* Source tie, family 81-gotrans-directives, soyhtml/directives.go directiveInsertWordBreaks: the whole function (the
   String() image of the value, args[0].(data.Int), the range over the RUNES of the input with the byte index, the
   three-way switch -- a space resets the count, a full count writes <wbr> and restarts at 1, otherwise count --,
   the second decoding at input[i:], template.HTMLEscape of input[i:i+size] into the bytes.Buffer, the result as a
   data.String) against Model/Directives.v's insert_word_breaks, with the function as gotrans translates it from
   today's source.

   Parameters of the translation and their instances: utf8.DecodeRuneInString -> Model/Utf8.v decode_rune ([st_dec]);
   text/template.HTMLEscape -> Model/Escape.v tmpl_html_escape (a hand model of library code, tied by C03's / C16's
   correspondence); the value's String() -> a function with st_string v = Some s.  The loop's fuel len(input)+1 is
   shown sufficient.  The model walks BYTES with a skip counter and tests the first byte of a rune against ' ';
   Go tests the decoded rune: iwb_rune_space shows the two tests agree. *)
From Coq Require Import ZArith NArith Bool Lia ZifyBool ZifyNat ZifyN List.
From Soy Require Import Model.Bytes Model.Utf8 Model.Outcome Model.Values Model.Escape Generated.Tables Model.Directives
  Proofs.SourceTieBase Proofs.SourceTieValue Proofs.SourceTieState Proofs.SourceTieUtf8 Proofs.SourceTieDirectives.
Import ListNotations.
Open Scope N_scope.

(* ch == ' ' on the decoded rune = the test on the rune's first byte *)
Lemma iwb_rune_space (c0 : N) (t : bstr) : (fst (decode_rune (c0 :: t)) =? 32) = (c0 =? 32).
Proof.
  unfold decode_rune, is_cont, in_range, rune_error.
  destruct (c0 =? 224) eqn:E224; destruct (c0 =? 237) eqn:E237; destruct (c0 =? 240) eqn:E240; destruct (c0 =? 244) eqn:E244;
    try lia;
  destruct t as [|b1 [|b2 [|b3 t]]];
  repeat match goal with |- context [if ?c then _ else _] => destruct c eqn:? end;
  cbn [fst]; lia.
Qed.

Lemma iwb_esc_cons (c : N) (r : bstr) : esc1 c ++ tmpl_html_escape r = tmpl_html_escape (c :: r).
Proof. unfold esc1. cbn [tmpl_html_escape]. destruct (tmpl_entity c); reflexivity. Qed.

(* the bytes a rune still has to skip are copied escaped *)
Lemma iwb_skip (maxc : Z) (t : bstr) : forall (k : nat) (c : Z),
  iwb_aux maxc c k t = tmpl_html_escape (take k t) ++ iwb_aux maxc c 0 (drop k t).
Proof.
  induction t as [|x t IH]; intros [|k] c; try reflexivity.
  cbn [iwb_aux take drop]. rewrite IH, app_assoc, iwb_esc_cons. reflexivity.
Qed.

(* one rune of the model *)
Lemma iwb_step (maxc c : Z) (rest : bstr) : rest <> [] ->
  let w := snd (decode_rune rest) in
  iwb_aux maxc c 0 rest =
  if fst (decode_rune rest) =? 32 then tmpl_html_escape (take w rest) ++ iwb_aux maxc 0%Z 0 (drop w rest)
  else if (c >=? maxc)%Z then wbr ++ tmpl_html_escape (take w rest) ++ iwb_aux maxc 1%Z 0 (drop w rest)
  else tmpl_html_escape (take w rest) ++ iwb_aux maxc (c + 1)%Z 0 (drop w rest).
Proof.
  intros Hne w. pose proof (st_decode_width rest Hne) as Hw. fold w in Hw. destruct rest as [|c0 t]; [congruence|].
  rewrite iwb_rune_space. cbn [iwb_aux]. unfold rune_width. fold w.
  destruct w as [|w']; [lia|]. cbn [pred take drop].
  rewrite !iwb_skip with (k := w'). rewrite !app_assoc, !iwb_esc_cons.
  destruct (c0 =? 32); [reflexivity|]. destruct (c >=? maxc)%Z; [|reflexivity].
  rewrite <- !app_assoc. rewrite (app_assoc (esc1 c0)), iwb_esc_cons. reflexivity.
Qed.

(* the loop: at byte index i (a rune boundary), count c, bytes written so far out *)
Lemma iwb_loop_matches (s : bstr) (maxc : Z) :
  st_small (go_len s) ->
  forall (m i : nat) (c : Z) (out : bstr) (w0 : Z) (fuel : nat),
    (length s - i <= m)%nat -> (i <= length s)%nat -> (m < fuel)%nat -> (0 <= c <= Z.of_nat i)%Z ->
    exists (c' w' : Z),
      src_soyhtml_directiveInsertWordBreaks_loop1 fuel value st_dec tmpl_html_escape s maxc s c out (Z.of_nat i) w0 =
      Some (go_exit (c', out ++ iwb_aux maxc c 0 (drop i s), go_len s, w')).
Proof.
  intros Hs m. unfold st_small in Hs. induction m as [|m IH]; intros i c out w0 fuel Hm Hi Hf Hc.
  - assert (i = length s) as -> by lia. destruct fuel as [|fuel]; [lia|].
    cbn [src_soyhtml_directiveInsertWordBreaks_loop1].
    replace (drop (length s) s) with (@nil N)
      by (symmetry; apply length_zero_iff_nil; rewrite st_drop_length; lia).
    replace (Z.ltb _ _) with false by (unfold go_len; lia).
    exists c, w0. cbn [iwb_aux]. rewrite app_nil_r. reflexivity.
  - destruct (Nat.eq_dec i (length s)) as [->|Hne].
    { apply (IH (length s) c out w0 fuel); lia. }
    destruct fuel as [|fuel]; [lia|]. cbn [src_soyhtml_directiveInsertWordBreaks_loop1].
    replace (Z.ltb (Z.of_nat i) (go_len s)) with true by (unfold go_len; lia).
    rewrite !st_go_slice_drop by lia. cbn [go_bind].
    remember (drop i s) as rest eqn:Erest.
    assert (Hrl : length rest = (length s - i)%nat) by (subst rest; apply st_drop_length).
    assert (Hrne : rest <> []) by (intros E; rewrite E in Hrl; cbn [length] in Hrl; lia).
    pose proof (st_decode_width rest Hrne) as Hw.
    rewrite (iwb_step maxc c rest Hrne).
    change (st_dec rest) with (let '(r0, w1) := decode_rune rest in (Z.of_N r0, Z.of_nat w1)).
    destruct (decode_rune rest) as [r w] eqn:Ed. cbn [fst snd] in *. cbv beta iota zeta.
    rewrite !(st_wrap64 (Z.of_nat i + Z.of_nat w)) by (unfold go_len in *; lia).
    rewrite st_go_slice_take_drop by lia. rewrite <- Erest. cbn [go_bind].
    replace (Z.of_nat i + Z.of_nat w)%Z with (Z.of_nat (i + w)) by lia.
    assert (Hs1 : drop w rest = drop (i + w) s) by (subst rest; apply st_drop_drop).
    rewrite Hs1.
    (* the three cases are split on the MODEL's tests; the source's tests follow by lia *)
    destruct (N.eqb_spec r 32) as [E32|E32]; [|destruct (Z.geb_spec c maxc) as [Hge|Hlt]];
      st_decide_ifs; cbv beta iota zeta; rewrite ?(st_wrap64 (c + 1)) by (unfold go_len in *; lia);
      match goal with
      | |- context [src_soyhtml_directiveInsertWordBreaks_loop1 fuel _ _ _ _ _ _ ?c1 ?o1 _ _] =>
          destruct (IH (i + w)%nat c1 o1 (Z.of_nat w) fuel) as (c' & w' & H'); try lia
      end;
      exists c', w'; rewrite H'; rewrite <- !app_assoc; reflexivity.
Qed.

(* |insertWordBreaks:n on a value whose String() is s (whatever further arguments follow the first) *)
Theorem insert_word_breaks_matches_source (v : value) (st_string : value -> option bstr) (s : bstr) (n : Z) (more : list value) :
  st_string v = Some s -> st_small (go_len s) ->
  st_V src_soyhtml_directiveInsertWordBreaks_V st_string st_dec tmpl_html_escape v (VInt n :: more) =
  Some (VStr (insert_word_breaks s n)).
Proof.
  intros Hv Hs. assert (Hs' := Hs). unfold st_small in Hs'.
  unfold src_soyhtml_directiveInsertWordBreaks_V, src_soyhtml_directiveInsertWordBreaks. rewrite Hv. cbn [go_bind]. rewrite go_index_0. cbn [go_bind st_as_int_v]. cbv zeta.
  rewrite st_wrap64 by lia.
  destruct (iwb_loop_matches s n Hs (length s) 0 0%Z [] 0%Z (Z.to_nat (go_len s + 1))) as (c' & w' & Hl);
    try (unfold go_len; lia).
  change (Z.of_nat 0) with 0%Z in Hl. cbn [drop app] in Hl. rewrite Hl. reflexivity.
Qed.

(* ------------------------------------------------------------------ *)
(* directiveChangeNewlineToBr: escape first, then the newline regexp replaced by <br>, the result a data.String.
   template.HTMLEscapeString and newlinePattern.ReplaceAllString are parameters; the instances are Model/Escape.v's
   tmpl_html_escape and Model/Directives.v's nl2br (the matcher for the pattern below with the template "<br>"). *)
Lemma newline_pattern_is_the_modelled_one :
  src_soyhtml_newlinePattern_pattern = [92; 114; 92; 110; 124; 92; 114; 124; 92; 110].   (* \r\n|\r|\n *)
Proof. reflexivity. Qed.

Theorem change_newline_to_br_matches_source (v : value) (st_string : value -> option bstr) (s : bstr) (args : list value) :
  st_string v = Some s ->
  st_V src_soyhtml_directiveChangeNewlineToBr_V st_string tmpl_html_escape (st_re nl2br br) v args =
  Some (VStr (change_newline_to_br s)).
Proof. intros Hv. unfold src_soyhtml_directiveChangeNewlineToBr_V, src_soyhtml_directiveChangeNewlineToBr. rewrite Hv. reflexivity. Qed.
