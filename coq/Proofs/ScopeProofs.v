(* C02, part 3: the simulation of every command of the walker, the induction
   on the fuel, and the theorem [exec_impl_spec]: the scope-stack machine of
   soyhtml (Model/Interp.v) implements the lexical semantics (Spec/Cmd.v). *)
From Soy Require Import Model.Bytes Model.Num Model.Values Model.Outcome Model.Ast
  Model.Escape Model.Directives Model.Print Generated.Tables Model.Interp Spec.Cmd
  Proofs.InterpLogic Proofs.ValueProofs Proofs.ConvertProofs Proofs.ScopeRel Proofs.ScopeExprProofs.
Require Import Lia.
Open Scope N_scope.

Lemma wf_item_cmd n : let_name n = None -> wf KItem n = wf KCmd n.
Proof. destruct n; intros H; try discriminate H; reflexivity. Qed.

Ltac qc := split; assumption.

Lemma capture_ok (s : Cm unit) n o x n' : s n = (o, Ok (x, n')) -> capture s n = ([], Ok (o, n')).
Proof. intros H. unfold capture. rewrite H. reflexivity. Qed.
Lemma capture_fault (s : Cm unit) n o r e : s n = (o, r) -> classify r = inr e -> capture s n = ([], of_fault e).
Proof. intros H Hc. unfold capture. rewrite H. destruct r as [[x n']| | | | | ]; cbn in Hc; inversion Hc; reflexivity. Qed.

Section Cmd.
Variable cf : cfg.
Variable w : node -> M value.
Variable l : level.
Hypothesis Hw : w_ok w l.
Hypothesis Hreg : wf_registry (c_reg cf) = true.
Variable entry : env.
Variable md : N.

Lemma block_let en c x rest :
  let_name c = Some x ->
  block l entry md en (c :: rest) = (v <~~ l_let l entry en md c ;; block l entry md ((x, v) :: en) rest).
Proof. destruct c; intros H; try discriminate H; inversion H; reflexivity. Qed.
Lemma block_cmd en c rest :
  let_name c = None ->
  block l entry md en (c :: rest) = (_ <~~ ex l entry md en c ;; block l entry md en rest).
Proof. destruct c; intros H; try discriminate H; reflexivity. Qed.

Lemma cmd_rel n st en c :
  wf KCmd n = true -> good st -> ctx st = c -> mode st = md -> R c en entry ->
  rel st (w n st) (ex l entry md en n (next_id st)) (@Qc value unit c md).
Proof.
  intros Hwf Hg Hc Hm HR. unfold ex. rewrite <- Hc, <- Hm.
  apply (ok_cmd _ _ Hw); [assumption | assumption | rewrite Hc; assumption].
Qed.

(* renderBlock: the text goes to a fresh buffer and comes back as a string *)
Lemma render_block_rel body st en c :
  wf KCmd body = true -> good st -> ctx st = c -> mode st = md -> R c en entry ->
  rel st (render_block w body st) (capture (ex l entry md en body) (next_id st)) (Qe c md).
Proof.
  intros Hwf Hg Hc Hm HR.
  pose proof (cmd_rel body (buf_pushed st) en c Hwf Hg Hc Hm HR) as H.
  rewrite render_block_eq.
  change (next_id (buf_pushed st)) with (next_id st) in H.
  destruct (ex l entry md en body (next_id st)) as [o r] eqn:Es.
  destruct (w body (buf_pushed st)) as [r' st2]. unfold rel in H. cbn [fst snd] in *.
  destruct (classify r) as [[y n1]|e] eqn:Ec.
  - apply classify_ok in Ec. subst r. rewrite (capture_ok _ _ _ _ _ Es).
    destruct H as (x & Hx & Hg2 & (ws & Ews & Hem) & Hn & Hc2 & Hm2). subst r'.
    cbn [classify bufs buf_pushed set_bufs] in Hem |- *. destruct Hem as [Ho Hb]. rewrite Hb.
    apply rel_ok; [exact Hg2 | apply emits_same; [exact Ho | reflexivity] | exact Hn |].
    split; [rewrite app_nil_r; exact Ews | split; assumption].
  - destruct H as [Hx Hf]. subst r'. rewrite classify_of_fault, (capture_fault _ _ _ _ _ Es Ec).
    unfold rel. cbn [fst snd]. rewrite classify_of_fault.
    split; [reflexivity|]. unfold fails in Hf |- *. cbn [bufs buf_pushed set_bufs out] in Hf.
    destruct (bufs st); [exists []; split; [reflexivity | exact Hf] | exact Hf].
Qed.

Lemma block_rel ns : forallb (wf KItem) ns = true -> forall st en,
  good st -> top_unentered (ctx st) -> mode st = md -> R (ctx st) en entry ->
  rel st (walk_list w ns st) (block l entry md en ns (next_id st))
      (fun _ _ st1 => tl (ctx st1) = tl (ctx st) /\ mode st1 = md).
Proof.
  induction ns as [|n ns IH]; intros Hwf st en Hg Ht Hm HR.
  - apply rel_ret; [assumption | split; [reflexivity | assumption]].
  - cbn [forallb] in Hwf. apply andb_prop in Hwf. destruct Hwf as [H1 H2].
    cbn [walk_list]. destruct (let_name n) as [x|] eqn:Eln.
    + rewrite (block_let _ _ _ _ Eln).
      eapply rel_bind.
      * rewrite <- Hm. apply (ok_let _ _ Hw n x); assumption.
      * cbv beta. intros _ v st1 [Hc1 Hm1] Hg1.
        eapply rel_mono.
        { apply IH; try assumption.
          - rewrite Hc1. apply top_unentered_set; assumption.
          - rewrite Hm1; assumption.
          - rewrite Hc1. apply R_set; assumption. }
        cbv beta. intros _ _ s2 [K1 K2]. split; [|assumption].
        rewrite K1, Hc1. apply tl_sc_set.
    + rewrite (block_cmd _ _ _ Eln). rewrite (wf_item_cmd _ Eln) in H1.
      eapply rel_bind.
      * apply (cmd_rel n st en (ctx st)); auto.
      * cbv beta. intros _ _ st1 [Hc1 Hm1] Hg1.
        eapply rel_mono.
        { apply IH; try assumption; rewrite Hc1; assumption. }
        cbv beta. intros _ _ s2 [K1 K2]. split; [|assumption]. rewrite K1, Hc1. reflexivity.
Qed.

Section Ctx.
Variable en : env.
Variable c : scope.
Hypothesis HR : R c en entry.
Let Hen : env_eq en (flatten c) := R_env _ _ _ HR.

Ltac cstep L := eapply rel_bind; [ eapply L; eauto | cbv beta; intros ? ? ? (? & ?) ? ].
Ltac xstep L := eapply rel_bind; [ eapply (L w l Hw en c md Hen); eauto | cbv beta; intros ? ? ? (-> & ? & ?) ? ].
Ltac done_c := apply rel_ret; [assumption | split; assumption].

(* a command whose value the walker drops *)
Lemma cmd_unit n st :
  wf KCmd n = true -> good st -> ctx st = c -> mode st = md ->
  rel st ((_ <-- w n ;;; ret VUndef) st) (ex l entry md en n (next_id st)) (@Qc value unit c md).
Proof.
  intros Hwf Hg Hc Hm. eapply rel_bind_r; [apply (cmd_rel n st en c); assumption|].
  cbv beta. intros _ [] st1 [Hc1 Hm1] Hg1. done_c.
Qed.

Lemma if_conds_rel cs : forallb (wf KIfCond) cs = true -> forall st,
  good st -> ctx st = c -> mode st = md ->
  rel st (if_conds w cs st) (if_spec l entry md en cs (next_id st)) (@Qc value unit c md).
Proof.
  induction cs as [|n cs IH]; intros Hwf st Hg Hc Hm; cbn [if_conds if_spec].
  - done_c.
  - cbn [forallb] in Hwf. apply andb_prop in Hwf. destruct Hwf as [H1 H2].
    destruct n; try apply rel_fail. cbn [wf] in H1. apply andb_prop in H1. destruct H1 as [H1 H3].
    destruct cond as [cnd|].
    + xstep eval_rel. destruct (truthy y); [apply cmd_unit; assumption | apply IH; assumption].
    + apply cmd_unit; assumption.
Qed.

Lemma switch_cases_rel sv cs : forallb (wf KCase) cs = true -> forall st,
  good st -> ctx st = c -> mode st = md ->
  rel st (switch_cases w sv cs st) (switch_spec l entry md en sv cs (next_id st)) (@Qc value unit c md).
Proof.
  induction cs as [|n cs IH]; intros Hwf st Hg Hc Hm; cbn [switch_cases switch_spec].
  - done_c.
  - cbn [forallb] in Hwf. apply andb_prop in Hwf. destruct Hwf as [H1 H2].
    destruct n; try apply rel_fail. cbn [wf] in H1. apply andb_prop in H1. destruct H1 as [H1 H3].
    xstep case_hit_rel.
    destruct (y || match values with [] => true | _ :: _ => false end);
      [apply cmd_unit; assumption | apply IH; assumption].
Qed.

Lemma plural_pick_rel mp i dflt cs :
  forallb (wf KMsgItem) dflt = true -> forallb (wf KPluralCase) cs = true -> forall st,
  good st -> ctx st = c -> mode st = md ->
  rel st (plural_pick w mp i dflt cs st) (plural_spec l entry md en mp i dflt cs (next_id st)) (@Qc unit unit c md).
Proof.
  intros Hd. induction cs as [|n cs IH]; intros Hwf st Hg Hc Hm; cbn [plural_pick plural_spec].
  - eapply rel_bind_r; [apply (cmd_rel (NMsg mp 0 [] [] dflt) st en c); auto|].
    cbv beta. intros _ [] st1 [Hc1 Hm1] Hg1. done_c.
  - cbn [forallb] in Hwf. apply andb_prop in Hwf. destruct Hwf as [H1 H2].
    destruct n; try apply rel_fail. cbn [wf] in H1.
    destruct (i =? v)%Z; [|apply IH; assumption].
    eapply rel_bind_r; [apply (cmd_rel (NMsg mp 0 [] [] body) st en c); auto|].
    cbv beta. intros _ [] st1 [Hc1 Hm1] Hg1. done_c.
Qed.

Lemma msg_body_rel mp ns : forallb (wf KMsgItem) ns = true -> forall st,
  good st -> ctx st = c -> mode st = md ->
  rel st (msg_body w mp ns st) (msg_spec l entry md en mp ns (next_id st)) (@Qc unit unit c md).
Proof.
  induction ns as [|n ns IH]; intros Hwf st Hg Hc Hm; cbn [msg_body msg_spec].
  - done_c.
  - cbn [forallb] in Hwf. apply andb_prop in Hwf. destruct Hwf as [H1 H2].
    destruct n; try (apply IH; assumption).
    + (* NRawText *) cstep (cmd_rel (NRawText p text) st en c). apply IH; assumption.
    + (* NMsgPlaceholder *) cbn [wf] in H1. cstep (cmd_rel n st en c). apply IH; assumption.
    + (* NMsgPlural *) cbn [wf] in H1. apply andb_prop in H1. destruct H1 as [H1 H5].
      apply andb_prop in H1. destruct H1 as [H3 H4].
      xstep eval_rel. destruct y; try apply rel_fail.
      cstep plural_pick_rel. apply IH; assumption.
Qed.

(* ---- foreach ---- *)
Definition loopframe (f : frame) (var : bstr) (last : Z) : Prop :=
  f_entered f = false /\
  forall k, bstr_eqb k (var ++ s_index) = false -> bstr_eqb k var = false ->
            assoc_s k (f_vars f) = assoc_s k [(var ++ s_lastindex, VInt last)].

Lemma R_loop f var last x i :
  loopframe f var last ->
  R (sc_set (sc_set (f :: c) var x) (var ++ s_index) (VInt i))
    ((var ++ s_index, VInt i) :: (var, x) :: (var ++ s_lastindex, VInt last) :: en) entry.
Proof.
  intros [He Hl]. rewrite !sc_set_cons. cbn [f_vars f_entered f_origin]. split.
  - intros k. cbn [flatten f_vars]. rewrite assoc_s_app, !assoc_s_map_set. cbn [assoc_s].
    destruct (bstr_eqb k (var ++ s_index)) eqn:E1; [reflexivity|].
    destruct (bstr_eqb k var) eqn:E2; [reflexivity|].
    rewrite (Hl k E1 E2). cbn [assoc_s].
    destruct (bstr_eqb k (var ++ s_lastindex)); [reflexivity | apply Hen].
  - pose proof HR as HR0. destruct HR0 as [_ (s0 & Hs & H2)]. exists s0. split; [|exact H2].
    cbn [sc_alldata f_entered]. rewrite He. exact Hs.
Qed.

Lemma loopframe_step f var last x i :
  loopframe f var last ->
  exists f', sc_set (sc_set (f :: c) var x) (var ++ s_index) (VInt i) = f' :: c /\ loopframe f' var last.
Proof.
  intros [He Hl]. rewrite !sc_set_cons. eexists. split; [reflexivity|]. split; [exact He|].
  intros k E1 E2. cbn [f_vars]. rewrite !assoc_s_map_set, E1, E2. apply Hl; assumption.
Qed.

Lemma for_items_rel var body last items : wf KCmd body = true -> forall i st f,
  good st -> ctx st = f :: c -> loopframe f var last -> mode st = md ->
  rel st (for_items w var body i items st) (for_spec l entry md en var body last i items (next_id st))
      (fun _ _ st1 => tl (ctx st1) = c /\ mode st1 = md).
Proof.
  intros Hwf. induction items as [|x r IH]; intros i st f Hg Hc Hl Hm; cbn [for_items for_spec].
  - apply rel_ret; [assumption | split; [rewrite Hc; reflexivity | assumption]].
  - eapply rel_bind_l; [apply (rel_m_set st var x (f :: c) md); [assumption | assumption | discriminate | assumption]|].
    cbv beta. intros _ st1 [Hc1 Hm1] Hg1.
    eapply rel_bind_l; [apply (rel_m_set st1 (var ++ s_index) (VInt i) (sc_set (f :: c) var x) md); [assumption | exact Hc1 | rewrite sc_set_cons; discriminate | assumption]|].
    cbv beta. intros _ st2 [Hc2 Hm2] Hg2.
    destruct (loopframe_step f var last x i Hl) as (f' & Ef & Hl').
    eapply rel_bind.
    + apply (cmd_rel body st2 _ _ Hwf Hg2 Hc2 Hm2). apply R_loop; assumption.
    + cbv beta. intros _ _ st3 [Hc3 Hm3] Hg3. apply (IH (i + 1)%Z st3 f'); try assumption.
      rewrite Hc3. exact Ef.
Qed.

(* ---- call ---- *)
Definition cd_ok (cd : scope) (acc base : env) : Prop :=
  exists f r, cd = f :: r /\ f_entered f = false /\ env_eq acc (f_vars f) /\ env_eq base (flatten r).

Lemma call_data_rel alldata dat st :
  match dat with Some e => wf KExpr e | None => true end = true ->
  good st -> ctx st = c -> mode st = md ->
  rel st (call_data w alldata dat st) (base_spec l entry en alldata dat (next_id st))
      (fun cd base st1 => ctx st1 = c /\ mode st1 = md /\ cd_ok cd [] base).
Proof.
  intros Hwf Hg Hc Hm. unfold call_data, base_spec. change (mbind get ?f st) with (f st st). cbv beta.
  destruct alldata.
  - pose proof HR as HR0. destruct HR0 as [_ (s0 & Hs & H2)]. rewrite Hc, Hs.
    apply rel_ret; [assumption|]. split; [assumption|]. split; [assumption|].
    exists fresh_frame, s0. split; [reflexivity|]. split; [reflexivity|]. split; [apply env_eq_refl | exact H2].
  - destruct dat as [e|].
    + xstep eval_rel. destruct y; try apply rel_fail.
      apply rel_ret; [assumption|]. split; [assumption|]. split; [assumption|].
      exists fresh_frame, (new_scope id m). split; [reflexivity|]. split; [reflexivity|]. split; [apply env_eq_refl|].
      cbn [flatten f_vars new_scope]. rewrite app_nil_r. apply env_eq_refl.
    + apply rel_ret; [assumption|]. split; [assumption|]. split; [assumption|].
      exists fresh_frame, []. split; [reflexivity|]. split; [reflexivity|]. split; apply env_eq_refl.
Qed.

Lemma cd_ok_set cd acc base k v : cd_ok cd acc base -> cd_ok (sc_set cd k v) ((k, v) :: acc) base.
Proof.
  intros (f & r & -> & He & Ha & Hb). rewrite sc_set_cons. eexists _, r. split; [reflexivity|].
  split; [exact He|]. split; [apply env_eq_map_set; exact Ha | exact Hb].
Qed.

Lemma call_params_rel base ps : forallb (wf KParam) ps = true -> forall cd acc st,
  good st -> ctx st = c -> mode st = md -> cd_ok cd acc base ->
  rel st (call_params w ps cd st) (params_spec l entry md en ps acc (next_id st))
      (fun cd' ps' st1 => ctx st1 = c /\ mode st1 = md /\ cd_ok cd' ps' base).
Proof.
  induction ps as [|n ps IH]; intros Hwf cd acc st Hg Hc Hm Hcd; cbn [call_params params_spec].
  - apply rel_ret; [assumption|]. split; [assumption|]. split; assumption.
  - cbn [forallb] in Hwf. apply andb_prop in Hwf. destruct Hwf as [H1 H2].
    destruct n; try apply rel_fail; cbn [wf] in H1.
    + xstep eval_rel. apply IH; try assumption. apply cd_ok_set; assumption.
    + eapply rel_bind; [apply (render_block_rel n st en c); assumption|].
      cbv beta. intros ? ? ? (-> & ? & ?) ?. apply IH; try assumption. apply cd_ok_set; assumption.
Qed.

Lemma call_enter_rel callee cd ps base st :
  wf KTemplate (t_node callee) = true -> good st -> ctx st = c -> mode st = md -> cd_ok cd ps base ->
  rel st (call_enter w callee cd st)
      (l_exec l (ps ++ base) (ps ++ base) (call_mode (t_ns_autoescape callee)) (t_node callee) (next_id st))
      (@Qc value unit c md).
Proof.
  intros Hwf Hg Hc Hm (f & r & -> & He & Ha & Hb). rewrite call_enter_eq. cbv zeta.
  set (ste := entered st callee (f :: r)).
  assert (HRe : R (ctx ste) (ps ++ base) (ps ++ base)).
  { assert (Hfl : env_eq (ps ++ base) (f_vars f ++ flatten r)) by (apply env_eq_app; assumption).
    split; [exact Hfl|]. eexists. split; [reflexivity | exact Hfl]. }
  pose proof (ok_tmpl _ _ Hw (t_node callee) ste _ _ Hwf Hg HRe) as H.
  change (next_id ste) with (next_id st) in H.
  change (mode ste) with (call_mode (t_ns_autoescape callee)) in H.
  unfold rel in H |- *.
  destruct (l_exec l (ps ++ base) (ps ++ base) (call_mode (t_ns_autoescape callee)) (t_node callee) (next_id st)) as [o r0].
  destruct (w (t_node callee) ste) as [r' st2]. cbn [fst snd] in *.
  destruct (classify r0) as [[y n1]|e].
  - destruct H as (x & Hx & Hg2 & Hem & Hn & Hc2). subst r'. cbn [classify].
    exists VUndef. split; [reflexivity|]. split; [exact Hg2|].
    split; [apply (emits_final st st2); [reflexivity | reflexivity |]; apply (emits_init st ste); [reflexivity | reflexivity | exact Hem]|].
    split; [exact Hn|]. split; [exact Hc | exact Hm].
  - destruct H as [Hx Hf]. subst r'. rewrite classify_of_fault. split; [reflexivity|].
    apply (fails_final st st2); [reflexivity|]. apply (fails_init st ste); [reflexivity | reflexivity | exact Hf].
Qed.

Lemma find_template_wf ts name t :
  forallb (fun t => wf KTemplate (t_node t)) ts = true -> find_template ts name = Some t ->
  wf KTemplate (t_node t) = true.
Proof.
  induction ts as [|t0 ts IH]; cbn [find_template forallb]; [discriminate|].
  intros Hwf Hf. apply andb_prop in Hwf. destruct Hwf as [H1 H2].
  destruct (bstr_eqb (t_name t0) name); [inversion Hf; subst; exact H1 | apply IH; assumption].
Qed.


Lemma rel_push_pop (m : M unit) (s : Cm unit) st :
  good st -> ctx st = c -> mode st = md ->
  (forall st1, good st1 -> ctx st1 = sc_push c -> mode st1 = md -> out st1 = out st -> bufs st1 = bufs st ->
     next_id st1 = next_id st ->
     rel st1 (m st1) (s (next_id st1)) (fun _ _ st2 => tl (ctx st2) = c /\ mode st2 = md)) ->
  rel st ((_ <-- m_push ;;; _ <-- m ;;; _ <-- m_pop ;;; ret VUndef) st) (s (next_id st)) (@Qc value unit c md).
Proof.
  intros Hg Hc Hm H. unfold m_push, m_pop. apply rel_modify_ghost; try reflexivity.
  eapply rel_bind_r.
  - apply H; try reflexivity; [exact Hg | cbn [ctx set_ctx]; rewrite Hc; reflexivity | exact Hm].
  - cbv beta. intros _ [] st2 [Hc2 Hm2] Hg2. apply rel_modify_ghost; try reflexivity.
    apply rel_ret; [exact Hg2 | split; [exact Hc2 | exact Hm2]].
Qed.

(* every command clause of walk_node (let and template apart) *)
Lemma cmd_case n st :
  wf KCmd n = true -> good st -> ctx st = c -> mode st = md ->
  rel st (walk_node cf w n st) (exec_body cf l entry md en n (next_id st)) (@Qc value unit c md).
Proof.
  intros Hwf Hg Hc Hm.
  destruct n; try discriminate Hwf; cbn [walk_node exec_body]; cbn [wf] in Hwf.
  - (* NList *)
    apply rel_push_pop; try assumption. intros st1 Hg1 Hc1 Hm1 _ _ _.
    eapply rel_mono.
    + apply (block_rel nodes Hwf st1 en); try assumption.
      * rewrite Hc1. apply top_unentered_push.
      * rewrite Hc1. apply R_push. exact HR.
    + cbv beta. intros _ _ s2 [K1 K2]. split; [rewrite K1, Hc1; reflexivity | exact K2].
  - (* NRawText *)
    eapply rel_bind_r; [apply rel_write; eassumption|]. cbv beta. intros _ [] st1 [? ?] ?. done_c.
  - (* NPrint *)
    apply andb_prop in Hwf. destruct Hwf as [H1 H2].
    eapply rel_bind with (Q1 := Qe c md).
    { rewrite <- Hc, <- Hm. apply (ok_expr _ _ Hw); [assumption | assumption | rewrite Hc; exact Hen]. }
    cbv beta. intros ? v st1 (-> & Hc1 & Hm1) Hg1.
    assert (K : forall v0, v0 = v -> v <> VUndef ->
      rel st1 ((ds <-- print_dirs cf w dirs v0 ;;; s <-- lift (value_string v0) ;;; st <-- get ;;;
                ws <-- lift (print_writes (mode st) ds s) ;;; _ <-- write_all ws ;;; ret VUndef) st1)
          ((ds <~~ sE (dirs_spec cf l en dirs v0) ;; s <~~ slift (value_string v0) ;;
            ws <~~ slift (print_writes md ds s) ;; semit (concat_b ws)) (next_id st1)) (@Qc value unit c md)).
    { intros v0 -> _.
      eapply rel_bind; [apply (print_dirs_rel cf w l Hw en c md Hen dirs H2 v); assumption|].
      cbv beta. intros ? ds st2 (-> & Hc2 & Hm2) Hg2.
      eapply rel_bind; [apply (rel_lift _ _ (Qe c md)); [assumption | intros; split; [reflexivity | split; assumption]]|].
      cbv beta. intros ? s0 st3 (-> & Hc3 & Hm3) Hg3.
      change (mbind get ?f st3) with (f st3 st3). cbv beta. rewrite Hm3.
      eapply rel_bind; [apply (rel_lift _ _ (Qe c md)); [assumption | intros; split; [reflexivity | split; assumption]]|].
      cbv beta. intros ? ws st4 (-> & Hc4 & Hm4) Hg4.
      eapply rel_bind_r; [apply rel_write_all; eassumption|]. cbv beta. intros _ [] st5 [? ?] ?. done_c. }
    destruct v; try (apply K; [reflexivity | discriminate]). apply rel_fail.
  - (* NCss *)
    eapply rel_bind with (Q1 := Qe c md).
    { destruct expr as [x|].
      - xstep eval_rel.
        eapply rel_bind; [apply (rel_lift _ _ (Qe c md)); [assumption | intros; split; [reflexivity | split; assumption]]|].
        cbv beta. intros ? ? ? (-> & ? & ?) ?. apply rel_ret; [assumption | split; [reflexivity | split; assumption]].
      - apply rel_ret; [assumption | split; [reflexivity | split; assumption]]. }
    cbv beta. intros ? pre st1 (-> & Hc1 & Hm1) Hg1.
    eapply rel_bind_r; [apply rel_write; eassumption|]. cbv beta. intros _ [] st2 [? ?] ?. done_c.
  - (* NLog *)
    eapply rel_bind; [apply (render_block_rel n st en c); assumption|].
    cbv beta. intros ? ? ? (-> & ? & ?) ?. done_c.
  - (* NDebugger *) done_c.
  - (* NIf *) apply if_conds_rel; assumption.
  - (* NFor *)
    apply andb_prop in Hwf. destruct Hwf as [H12 H3]. apply andb_prop in H12. destruct H12 as [H1 H2].
    xstep eval_rel. destruct y; try apply rel_fail.
    destruct l0 as [|x0 r0].
    + destruct ifempty as [ie|]; [apply cmd_unit; assumption | done_c].
    + unfold m_push, m_pop. apply rel_modify_ghost; try reflexivity.
      set (st2 := set_ctx st1 (sc_push (ctx st1))).
      assert (Hc2 : ctx st2 = sc_push c) by (unfold st2; cbn [ctx set_ctx]; rewrite H; reflexivity).
      eapply rel_bind_l; [apply (rel_m_set st2 (var ++ s_lastindex) (VInt (Z.of_nat (length (x0 :: r0)) - 1)) _ md H4 Hc2); [discriminate | assumption]|].
      cbv beta. intros _ st3 [Hc3 Hm3] Hg3. unfold sc_push in Hc3. rewrite sc_set_cons in Hc3.
      eapply rel_bind_r.
      * eapply (for_items_rel var n2 _ (x0 :: r0) H2 0%Z st3 _ Hg3 Hc3); [|exact Hm3].
        split; [reflexivity|]. intros k _ _. reflexivity.
      * cbv beta. intros _ [] st4 [Hc4 Hm4] Hg4. apply rel_modify_ghost; try reflexivity.
        apply rel_ret; [exact Hg4 | split; [exact Hc4 | exact Hm4]].
  - (* NSwitch *)
    apply andb_prop in Hwf. destruct Hwf as [H1 H2].
    xstep eval_rel. apply switch_cases_rel; assumption.
  - (* NCall *)
    apply andb_prop in Hwf. destruct Hwf as [H1 H2].
    destruct (find_template (r_templates (c_reg cf)) name) as [callee|] eqn:Ef; [|apply rel_fail].
    eapply rel_bind; [apply call_data_rel; assumption|].
    cbv beta. intros cd base st1 (Hc1 & Hm1 & Hcd) Hg1.
    eapply rel_bind; [apply (call_params_rel base params H2 cd [] st1); assumption|].
    cbv beta. intros cd' ps st2 (Hc2 & Hm2 & Hcd') Hg2.
    apply rel_modify_ghost; try reflexivity.
    apply call_enter_rel; try assumption.
    eapply find_template_wf; [exact Hreg | exact Ef].
  - (* NMsg *)
    eapply rel_bind_r; [apply msg_body_rel; assumption|]. cbv beta. intros _ [] st1 [? ?] ?. done_c.
  - (* NMsgHtmlTag *)
    eapply rel_bind_r; [apply rel_write; eassumption|]. cbv beta. intros _ [] st1 [? ?] ?. done_c.
  - (* NHeaderParam *) done_c.
Qed.

End Ctx.

End Cmd.

(* ================================================================== *)
(* one more unit of fuel                                               *)
(* ================================================================== *)

Lemma walk_body_eq cf w n st : walk_body cf w n st = walk_node cf w n (set_cur st (pos_of n)).
Proof. reflexivity. Qed.

Lemma w_ok_step cf w l :
  wf_registry (c_reg cf) = true -> w_ok w l -> w_ok (walk_body cf w) (next_level cf l).
Proof.
  intros Hreg Hw. split.
  - (* expressions *)
    intros e st en Hwf Hg Hen. rewrite walk_body_eq.
    apply (rel_init st (set_cur st (pos_of e))); [reflexivity | reflexivity|].
    apply (expr_rel cf w l Hw en (ctx st) (mode st) Hen e (set_cur st (pos_of e)) Hwf Hg); reflexivity.
  - (* commands *)
    intros c st en entry Hwf Hg HR. rewrite walk_body_eq.
    apply (rel_init st (set_cur st (pos_of c))); [reflexivity | reflexivity|].
    apply (cmd_case cf w l Hw Hreg entry (mode st) en (ctx st) HR c (set_cur st (pos_of c)) Hwf Hg); reflexivity.
  - (* let *)
    intros c x st en entry Hwf Hl Hg HR Ht. rewrite walk_body_eq.
    apply (rel_init st (set_cur st (pos_of c))); [reflexivity | reflexivity|].
    set (st0 := set_cur st (pos_of c)).
    assert (Hc0 : ctx st0 = ctx st) by reflexivity. assert (Hm0 : mode st0 = mode st) by reflexivity.
    assert (Hne : ctx st <> []) by (destruct Ht as (f & r & -> & _); discriminate).
    change (next_id st) with (next_id st0).
    destruct c; try discriminate Hl; inversion Hl; subst x; cbn [wf item_kind] in Hwf;
      cbn [walk_node next_level l_let let_body].
    + (* NLetValue *)
      eapply rel_bind_r with (Q1 := Qe (ctx st) (mode st)).
      * apply (eval_rel w l Hw en (ctx st) (mode st) (R_env _ _ _ HR)); assumption.
      * cbv beta. intros ? v st1 (-> & Hc1 & Hm1) Hg1.
        eapply rel_bind_l; [apply (rel_m_set st1 name v (ctx st) (mode st)); assumption|].
        cbv beta. intros _ st2 [Hc2 Hm2] Hg2. apply rel_ret; [assumption | split; assumption].
    + (* NLetContent *)
      eapply rel_bind with (Q1 := Qe (ctx st) (mode st)).
      * apply (render_block_rel w l Hw entry (mode st) c st0 en (ctx st)); assumption.
      * cbv beta. intros ? s0 st1 (-> & Hc1 & Hm1) Hg1.
        eapply rel_bind_l; [apply (rel_m_set st1 name (VStr s0) (ctx st) (mode st)); assumption|].
        cbv beta. intros _ st2 [Hc2 Hm2] Hg2. apply rel_ret; [assumption | split; assumption].
  - (* template *)
    intros t st en entry Hwf Hg HR. rewrite walk_body_eq.
    apply (rel_init st (set_cur st (pos_of t))); [reflexivity | reflexivity|].
    set (st0 := set_cur st (pos_of t)). change (next_id st) with (next_id st0).
    destruct t; try discriminate Hwf. cbn [wf] in Hwf. cbn [walk_node next_level l_exec exec_body].
    apply rel_modify_ghost; try reflexivity.
    set (st1 := set_mode _ _).
    eapply rel_bind_r.
    + apply (cmd_rel w l Hw entry (mode st1) t st1 en (ctx st)); try assumption; reflexivity.
    + cbv beta. intros _ [] st2 [Hc2 Hm2] Hg2. apply rel_ret; [assumption | exact Hc2].
Qed.

Lemma w_ok_zero cf : w_ok (walk cf 0) level0.
Proof.
  split; intros; unfold walk, lift, level0; cbn [l_eval l_exec l_let sE];
    (split; [reflexivity | apply fails_refl]).
Qed.

Theorem walk_sim cf fuel : wf_registry (c_reg cf) = true -> w_ok (walk cf fuel) (spec_level cf fuel).
Proof.
  intros Hreg. induction fuel as [|f IH]; [apply w_ok_zero|].
  change (w_ok (walk_body cf (walk cf f)) (next_level cf (spec_level cf f))).
  apply w_ok_step; assumption.
Qed.

(* ================================================================== *)
(* rendering an entry template                                         *)
(* ================================================================== *)

(* [m] is [s] up to the line-number computation of errRecover, which is C19's
   subject: an [Err] may surface as the slice panic of Registry.LineNumber *)
Definition outcome_agrees (m s : outcome unit) : Prop :=
  m = s \/ exists e, s = Err e /\ m = Crash Interp.e_index.

Lemma R_init data_id data :
  R (sc_enter (new_scope data_id data)) data data.
Proof.
  assert (H : env_eq data (data ++ [])) by (rewrite app_nil_r; apply env_eq_refl).
  split; [exact H|]. eexists. split; [reflexivity | exact H].
Qed.

Theorem exec_impl_spec_lemma cf fuel name data_id data first_id :
  wf_registry (c_reg cf) = true ->
  let r := render cf fuel name data_id data None None first_id in
  let s := render_spec cf fuel name data first_id in
  concat_b (rr_writes r) = sr_out s /\ outcome_agrees (rr_outcome r) (sr_outcome s).
Proof.
  intros Hreg. unfold render, render_spec.
  destruct (find_template (r_templates (c_reg cf)) name) as [t|] eqn:Ef.
  2:{ cbn. split; [reflexivity | left; reflexivity]. }
  set (st0 := init_state _ _ _ _ _ _).
  pose proof (ok_tmpl _ _ (walk_sim cf fuel Hreg) (t_node t) st0 data data
                (find_template_wf _ _ _ Hreg Ef) (conj eq_refl eq_refl) (R_init data_id data)) as H.
  change (mode st0) with (entry_mode (t_ns_autoescape t)) in H.
  change (next_id st0) with first_id in H.
  unfold exec_spec. unfold rel in H.
  destruct (l_exec (spec_level cf fuel) data data (entry_mode (t_ns_autoescape t)) (t_node t) first_id) as [o r0].
  destruct (walk cf fuel (t_node t) st0) as [r' st]. cbn [fst snd] in H.
  destruct (classify r0) as [[y n1]|e] eqn:Ec.
  - apply classify_ok in Ec. subst r0.
    destruct H as (x & -> & _ & (ws & Ews & Ho & _) & _). cbn [rr_writes rr_outcome sr_out sr_outcome].
    change (out st0) with (@nil bstr) in Ho. rewrite Ho, app_nil_r. split; [exact Ews | left; reflexivity].
  - destruct H as [-> (ws & Ews & Ho)]. change (out st0) with (@nil bstr) in Ho. rewrite app_nil_r in Ho.
    apply classify_fault in Ec. subst r0.
    destruct e; cbn [of_fault rr_writes rr_outcome sr_out sr_outcome recast];
      try (split; [rewrite Ho; exact Ews | left; reflexivity]).
    destruct (assoc_s name (r_sources (c_reg cf))) as [src|]; [|cbn; split; [rewrite Ho; exact Ews | left; reflexivity]].
    destruct (assoc_s name (r_files (c_reg cf))) as [file|]; [|cbn; split; [rewrite Ho; exact Ews | left; reflexivity]].
    destruct (line_number src (cur st)); cbn; (split; [rewrite Ho; exact Ews|]).
    + left; reflexivity.
    + right. exists m. split; reflexivity.
Qed.

Lemma exec_impl_spec_ok_lemma cf fuel name data_id data first_id :
  wf_registry (c_reg cf) = true ->
  (rr_outcome (render cf fuel name data_id data None None first_id) = Ok tt <->
   sr_outcome (render_spec cf fuel name data first_id) = Ok tt).
Proof.
  intros Hreg.
  destruct (exec_impl_spec_lemma cf fuel name data_id data first_id Hreg) as [_ [H | (e & H1 & H2)]].
  - rewrite H. tauto.
  - rewrite H1, H2. split; discriminate.
Qed.

(* the walker leaves the scope stack and the autoescape mode exactly as it found them *)
Theorem walk_restores_scope cf fuel c st en entry v st' :
  wf_registry (c_reg cf) = true -> wf KCmd c = true -> good st -> R (ctx st) en entry ->
  walk cf fuel c st = (Ok v, st') -> ctx st' = ctx st /\ mode st' = mode st.
Proof.
  intros Hreg Hwf Hg HR Hrun.
  pose proof (ok_cmd _ _ (walk_sim cf fuel Hreg) c st en entry Hwf Hg HR) as H.
  rewrite Hrun in H. unfold rel in H. cbn [fst snd] in H.
  destruct (classify _) as [[y n1]|e].
  - destruct H as (x & _ & _ & _ & _ & K). exact K.
  - destruct H as [K _]. destruct e; discriminate K.
Qed.
