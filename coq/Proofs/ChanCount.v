(* Counting the receives: the functional reading of Model/Chan.v with the two counters of the scanner record.
   [cc_feedsn c l r m d]: the consumer [c] fed with the items [l] (then zero items for ever) returns [r] after
   [m] receives (CRecv) and with a drain on the way iff [d].  Under EVERY schedule, a consumer that has returned
   made exactly those receives and that drain: the counters g_recv / g_drained of the configuration are (m, d)
   ([cc_counters_of_items]), so [chan_scan_done] of the configuration -- i.e. whether the scanner goroutine can
   exit (Proofs/ChanProofs.v) -- is decided by the functional reading alone. *)
From Coq Require Import List Arith Bool Lia.
Import ListNotations.
From Soy Require Import Model.Chan Proofs.ChanProofs.

Section Count.
Variables A R : Type.
Variable zero : A.
Notation cfg := (cfg A R).
Notation step := (@step A R zero).
Notation run := (@run A R zero).

Inductive cc_feedsn : cons A R -> list A -> R -> nat -> bool -> Prop :=
| FN_ret r l : cc_feedsn (CRet r) l r 0 false
| FN_tau k l r m d : cc_feedsn k l r m d -> cc_feedsn (CTau k) l r m d
| FN_recv k a l r m d : cc_feedsn (k a) l r m d -> cc_feedsn (CRecv k) (a :: l) r (S m) d
| FN_recv_closed k r m d : cc_feedsn (k zero) [] r m d -> cc_feedsn (CRecv k) [] r (S m) d
| FN_drain k l r m d : cc_feedsn k [] r m d -> cc_feedsn (CDrain k) l r m true.

Lemma cc_feedsn_feeds c l r m d : cc_feedsn c l r m d -> feeds zero c l r.
Proof. induction 1; econstructor; eassumption. Qed.

Lemma cc_feedsn_fun c l r1 m1 d1 : cc_feedsn c l r1 m1 d1 -> forall r2 m2 d2, cc_feedsn c l r2 m2 d2 -> r1 = r2 /\ m1 = m2 /\ d1 = d2.
Proof.
  induction 1 as [r l|k l r m d H IH|k a l r m d H IH|k r m d H IH|k l r m d H IH]; intros r2 m2 d2 H2; inversion H2; subst; auto;
    match goal with Hf : cc_feedsn _ _ _ _ _ |- _ => destruct (IH _ _ _ Hf) as (-> & -> & ?); subst; auto end.
Qed.

(* one move back: the receives still to come plus those made, and the drain flag, are unchanged *)
Lemma cc_step_back n mv g r m d : ginv A R n g ->
  cc_feedsn (g_cons (step mv g)) (items (g_prod (step mv g))) r m d ->
  exists m' d', cc_feedsn (g_cons g) (items (g_prod g)) r m' d' /\
    g_recv g + m' = g_recv (step mv g) + m /\ (g_drained g || d') = (g_drained (step mv g) || d).
Proof.
  intros [H1 H2 H3 H4 H5]. destruct mv; cbn [step Chan.step].
  - destruct (g_prod g) as [a k|k|] eqn:Ep; cbn [g_prod g_cons g_recv g_drained items]; rewrite ?Ep; intros H; exists m, d; auto.
  - destruct (g_cons g) as [k|k|k|r0] eqn:Ec; rewrite ?Ec.
    + destruct (g_closed g) eqn:Ecl; [|rewrite Ec; intros H; exists m, d; auto].
      cbn [g_prod g_cons g_recv g_drained]. rewrite (H2 eq_refl). cbn [items]. intros H. exists (S m), d.
      split; [apply FN_recv_closed; exact H|]. split; [lia|reflexivity].
    + cbn [g_prod g_cons g_recv g_drained]. intros H. exists m, d. split; [apply FN_tau; exact H|auto].
    + destruct (g_closed g) eqn:Ecl; [|rewrite Ec; intros H; exists m, d; auto].
      cbn [g_prod g_cons g_recv g_drained]. rewrite (H2 eq_refl). cbn [items]. intros H. exists m, true.
      split; [eapply FN_drain; exact H|]. split; [reflexivity|]. rewrite orb_true_r. reflexivity.
    + intros H. exists m, d. auto.
  - destruct (g_closed g) eqn:Ecl; [intros H; exists m, d; auto|].
    destruct (g_prod g) as [a kp|kp|] eqn:Ep; rewrite ?Ep; try (intros H; exists m, d; auto; fail).
    destruct (g_cons g) as [kc|kc|kc|r0] eqn:Ec; rewrite ?Ep, ?Ec; try (intros H; exists m, d; auto; fail);
      cbn [g_prod g_cons g_recv g_drained items].
    + intros H. exists (S m), d. split; [apply FN_recv; exact H|]. split; [lia|reflexivity].
    + intros H. inversion H; subst. exists m, true. split; [eapply FN_drain; eassumption|]. split; reflexivity.
Qed.

Lemma cc_run_back n sched : forall g r m d, ginv A R n g ->
  cc_feedsn (g_cons (run sched g)) (items (g_prod (run sched g))) r m d ->
  exists m' d', cc_feedsn (g_cons g) (items (g_prod g)) r m' d' /\
    g_recv g + m' = g_recv (run sched g) + m /\ (g_drained g || d') = (g_drained (run sched g) || d).
Proof.
  induction sched as [|mv s IH]; intros g r m d Hi H; cbn [run Chan.run] in *; [exists m, d; auto|].
  destruct (IH (step mv g) r m d (ginv_step A R zero n mv g Hi) H) as (m1 & d1 & F1 & E1 & D1).
  destruct (cc_step_back n mv g r m1 d1 Hi F1) as (m2 & d2 & F2 & E2 & D2).
  exists m2, d2. split; [exact F2|]. split; [lia|]. rewrite D2, D1. reflexivity.
Qed.

(* a consumer that has returned made exactly the receives, and the drain, of the functional reading *)
Theorem cc_counters_of_items p c sched r :
  g_cons (run sched (cfg_init p c)) = CRet r ->
  exists m d, cc_feedsn c (items p) r m d /\
    g_recv (run sched (cfg_init p c)) = m /\ g_drained (run sched (cfg_init p c)) = d.
Proof.
  intros H.
  destruct (cc_run_back _ sched (cfg_init p c) r 0 false (ginv_init A R p c)) as (m & d & F & E & D).
  - rewrite H. constructor.
  - exists m, d. split; [exact F|]. cbn [cfg_init g_recv g_drained] in E, D. split; [lia|].
    rewrite orb_false_r in D. cbn in D. symmetry. exact D.
Qed.
End Count.
