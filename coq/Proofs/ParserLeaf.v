(* Consumption lemmas for the procedures of Model/Parser.v that call neither parseExpr nor
   itemList: parseAttrs, parseAutoescape, boolAttr, nextNonComment, the comment and text loops of
   textOrTag, parseSoyDoc, parseAlias, the name loops of parseNamespace and parseCall. *)
From Soy Require Import Model.Bytes Model.Ast Model.Token Model.NumLit Model.ExprParser Model.Parser.
From Soy Require Import Generated.Tables Proofs.ParserMeasure Proofs.ExprTotal Proofs.ParserBase.
From Coq Require Import ZifyBool ZifyNat ZifyN Lia.
Open Scope N_scope.

Tactic Notation "cnext" ident(t) ident(s1) ident(R) :=
  apply c_next_step; [solve [auto]|]; intros t s1 R ?Hi; cbn beta.
(* split a cnrel into its facts (keeping the relation itself) *)
Ltac dcn R :=
  let R' := fresh "Rn" in let Es := fresh "Es" in
  pose proof R as (R' & Es);
  destruct R' as [?Ri ?Rtw ?Rpk ?Rpk1 ?Rcur ?Rl ?Rnz ?Rmu Rz ?Rbi ?Rbm ?Rbl Reof Rrest];
  clear Rz Reof Rrest.
(* use every known "type <> 0" fact *)
Ltac nzs := repeat match goal with Hnz : t_typ ?t <> 0, H : t_typ ?t <> 0 -> _ |- _ => specialize (H Hnz) end.
Ltac tnz H Hnz := match type of H with t_typ ?t = _ =>
  assert (Hnz : t_typ t <> 0) by (rewrite H; vm_compute; intro; discriminate) end.
(* branch on the type of an item: [if tis t X then _ else _] *)
Ltac tcase t X E := unfold tis at 1; destruct (N.eqb_spec (t_typ t) X) as [E|E]; [|clear E].
Ltac cfin := nzs; cbn [cpost]; unfold kap in *;
  split; [solve [auto]|split; [lia|cbn beta; repeat (apply conj); auto; try lia]].
Ltac cerr := nzs; first [apply c_unexp_post; [solve [auto]|solve [auto]|unfold kap in *; lia]
                   |apply c_errorf_post; [solve [auto]|unfold kap in *; lia]].
Tactic Notation "cexpect" ident(tk) ident(s1) ident(H) :=
  nzs; eapply cpost_bind; [apply c_expect_post; [solve [auto]|vm_compute; intro; discriminate|unfold kap in *; lia]|];
  intros tk s1 ?Hi ?Hb H; cbn beta in H.
Ltac nzc := vm_compute; intro; discriminate.

Section Leaf.
Variable inlen : N.
Variable NT : nat.
Variable eofchk : bool.
Variable unq : bstr -> option bstr.

Notation cinv := (cinv inlen NT eofchk).
Notation cnrel := (cnrel inlen NT eofchk).
Notation cpost := (cpost inlen NT eofchk).
Notation twf := (twf inlen).
Notation cmu s := (mu (c_p s)).
Notation clpz s := (lpz (c_p s)).
Notation ckap s := (kap (c_p s)).
Notation cpeek s := (p_peek (c_p s)).
Notation ccur s := (cur_tok (c_p s)).

Lemma twf_len1p t : twf t ->
  t_typ t = pit_DollarIdent \/ t_typ t = pit_DotIdent -> (1 <= length (t_val t))%nat.
Proof. intros H [E|E]; apply (twf_len1 inlen t H); [left|right; left]; exact E. Qed.

(* parseAttrs *)
Lemma attrs_loop_ok : forall f allowed acc s b,
  cinv s -> ckap s = b -> (cmu s < f)%nat ->
  cpost b (fun _ s' => (cmu s' <= cmu s)%nat) (attrs_loop inlen unq f allowed acc s).
Proof.
  induction f as [|f IH]; intros allowed acc s b Hi Hb Hf; [lia|].
  cbn [attrs_loop]. cnext tk s1 R. dcn R.
  tcase tk pit_Ident E.
  - tnz E Hnz. destruct (negb (existsb (bstr_eqb (t_val tk)) allowed)); [cerr|].
    cexpect t2 s2 H2. cexpect t3 s3 H3.
    destruct (unq (t_val t3)).
    + eapply cpost_weaken; [apply IH; auto; lia|]. intros; cbn beta in *; lia.
    + cerr.
  - destruct (tis tk pit_RightDelim || tis tk pit_RightDelimEnd) eqn:E2.
    + destruct (c_backup_after inlen NT eofchk _ _ _ Hi R) as (A & B & C). cfin.
    + cerr.
Qed.

Lemma parse_autoescape_ok attrs s b :
  cinv s -> ckap s = b -> cpost b (fun _ s' => s' = s) (parse_autoescape inlen attrs s).
Proof.
  intros Hi Hb. unfold parse_autoescape. destruct (assoc_s _ _); [cfin|cerr].
Qed.

Lemma bool_attr_ok attrs key d s b :
  cinv s -> ckap s = b -> cpost b (fun _ s' => s' = s) (bool_attr inlen attrs key d s).
Proof.
  intros Hi Hb. unfold bool_attr. destruct (attr key attrs); [|cfin].
  destruct (bstr_eqb _ _); [cfin|]. destruct (bstr_eqb _ _); [cfin|cerr].
Qed.

(* loops that end right after a next: continuation style.  The continuation receives the state
   [sp] before that last next (kap conserved up to there) and the relation of the next. *)
Lemma next_non_comment_step {B} b (Q : B -> cst -> Prop) : forall f s k,
  cinv s -> ckap s = b -> (cmu s < f)%nat ->
  (forall sp tk s', cinv sp -> ckap sp = b -> (cmu sp <= cmu s)%nat -> cnrel sp tk s' -> cinv s' -> cpost b Q (k tk s')) ->
  cpost b Q (cbind (next_non_comment f s) k).
Proof.
  induction f as [|f IH]; intros s k Hi Hb Hf K; [lia|].
  cbn [next_non_comment]. rewrite cbind_assoc. cnext tk s1 R. dcn R.
  tcase tk pit_Comment E.
  - tnz E Hnz. apply IH; auto; unfold kap in *; try lia.
    intros sp tk' s' A1 B1 C1 D1 E1. apply (K sp); auto; lia.
  - cbn [cbind]. apply (K s); auto.
Qed.

Lemma skip_comments_step {B} b (Q : B -> cst -> Prop) : forall f s0 token s1 k,
  cinv s0 -> ckap s0 = b -> cnrel s0 token s1 -> cinv s1 -> (cmu s0 < f)%nat ->
  (forall sp tk s', cinv sp -> ckap sp = b -> (cmu sp <= cmu s0)%nat -> cnrel sp tk s' -> cinv s' -> cpost b Q (k tk s')) ->
  cpost b Q (cbind (skip_comments f token s1) k).
Proof.
  induction f as [|f IH]; intros s0 token s1 k Hi0 Hb R Hi1 Hf K; [lia|].
  cbn [skip_comments]. dcn R.
  tcase token pit_Comment E.
  - tnz E Hnz. rewrite cbind_assoc. cnext t' s2 R'.
    apply (IH s1); auto; unfold kap in *; try lia.
    intros sp tk' s' A1 B1 C1 D1 E1. apply (K sp); auto; lia.
  - cbn [cbind]. apply (K s0); auto.
Qed.

Lemma text_run_step {B} b (Q : B -> cst -> Prop) : forall f text s k,
  cinv s -> ckap s = b -> (cmu s < f)%nat ->
  (forall txt sp nx s', cinv sp -> ckap sp = b -> (cmu sp <= cmu s)%nat -> cnrel sp nx s' -> cinv s' -> cpost b Q (k (txt, nx) s')) ->
  cpost b Q (cbind (text_run f text s) k).
Proof.
  induction f as [|f IH]; intros text s k Hi Hb Hf K; [lia|].
  cbn [text_run]. rewrite cbind_assoc. cnext nx s1 R. dcn R.
  tcase nx pit_Text E.
  - tnz E Hnz. apply IH; auto; unfold kap in *; try lia.
    intros txt sp nx' s' A1 B1 C1 D1 E1. apply (K txt sp); auto; lia.
  - cbn [cbind]. apply (K _ s); auto.
Qed.

(* parseSoyDoc *)
Lemma soydoc_loop_ok : forall f pos params s b,
  cinv s -> ckap s = b -> (cmu s < f)%nat ->
  cpost b (fun _ s' => (cmu s' <= cmu s)%nat) (soydoc_loop inlen f pos params s).
Proof.
  induction f as [|f IH]; intros pos params s b Hi Hb Hf; [lia|].
  cbn [soydoc_loop]. cnext nx s1 R. dcn R.
  tcase nx pit_Text E.
  { tnz E Hnz. eapply cpost_weaken; [apply IH; auto; unfold kap in *; lia|]. intros; cbn beta in *; lia. }
  destruct (tis nx pit_SoyDocOptionalParam || tis nx pit_SoyDocParam) eqn:E2.
  { assert (Hnz : t_typ nx <> 0) by (intro X; unfold tis in E2; rewrite X in E2; vm_compute in E2; discriminate).
    cexpect t2 s2 H2.
    eapply cpost_weaken; [apply IH; auto; lia|]. intros; cbn beta in *; lia. }
  tcase nx pit_SoyDocEnd E3.
  - tnz E3 Hnz. cfin.
  - cerr.
Qed.

(* parseAlias *)
Lemma alias_loop_ok : forall f name last s b,
  cinv s -> ckap s = b -> (cmu s < f)%nat ->
  cpost b (fun _ s' => (cmu s' <= cmu s)%nat) (alias_loop inlen f name last s).
Proof.
  induction f as [|f IH]; intros name last s b Hi Hb Hf; [lia|].
  cbn [alias_loop]. cnext nx s1 R. dcn R.
  tcase nx pit_DotIdent E.
  { tnz E Hnz. destruct (tail1_ok (t_val nx) s1) as (seg & Es'); [apply twf_len1p; auto|]. rewrite Es'. cbn [cbind].
    eapply cpost_weaken; [apply IH; auto; unfold kap in *; lia|]. intros; cbn beta in *; lia. }
  tcase nx pit_RightDelim E2.
  - tnz E2 Hnz. cbn [cpost]. unfold ParserBase.cinv in *. cbn [c_p c_scans add_alias]. unfold kap in *.
    split; [auto|]. split; lia.
  - cerr.
Qed.

Lemma parse_alias_ok f s b :
  cinv s -> ckap s = b -> (cmu s < f)%nat ->
  cpost b (fun _ s' => (cmu s' <= cmu s)%nat) (parse_alias inlen f s).
Proof.
  intros Hi Hb Hf. unfold parse_alias. cexpect id s1 H1.
  eapply cpost_weaken; [apply alias_loop_ok; auto; lia|]. intros; cbn beta in *; lia.
Qed.

(* the .ident loops of parseNamespace and parseCall: end with a backup *)
Lemma dotted_name_ok : forall f name s b,
  cinv s -> ckap s = b -> (cmu s < f)%nat ->
  cpost b (fun _ s' => (cmu s' <= cmu s)%nat) (dotted_name f name s).
Proof.
  induction f as [|f IH]; intros name s b Hi Hb Hf; [lia|].
  cbn [dotted_name]. cnext part s1 R. dcn R.
  tcase part pit_DotIdent E.
  - tnz E Hnz. eapply cpost_weaken; [apply IH; auto; unfold kap in *; lia|]. intros; cbn beta in *; lia.
  - destruct (c_backup_after inlen NT eofchk _ _ _ Hi R) as (A & B & C). cfin.
Qed.

Lemma call_name_loop_ok : forall f name s b,
  cinv s -> ckap s = b -> (cmu s < f)%nat ->
  cpost b (fun _ s' => (cmu s' <= cmu s)%nat) (call_name_loop f name s).
Proof.
  induction f as [|f IH]; intros name s b Hi Hb Hf; [lia|].
  cbn [call_name_loop]. cnext tk s1 R. dcn R.
  tcase tk pit_DotIdent E.
  - tnz E Hnz. eapply cpost_weaken; [apply IH; auto; unfold kap in *; lia|]. intros; cbn beta in *; lia.
  - destruct (c_backup_after inlen NT eofchk _ _ _ Hi R) as (A & B & C). cfin.
Qed.

Lemma call_name_ok lf s b :
  cinv s -> ckap s = b -> (cmu s < lf)%nat ->
  cpost b (fun _ s' => (cmu s' <= cmu s)%nat) (call_name lf s).
Proof.
  intros Hi Hb Hf. unfold call_name. cnext tk s1 R. dcn R.
  tcase tk pit_DotIdent E.
  { tnz E Hnz. cfin. }
  tcase tk pit_Ident E2.
  - tnz E2 Hnz. cnext tk2 s2 R2. dcn R2.
    tcase tk2 pit_DotIdent E3.
    + tnz E3 Hnz3. eapply cpost_weaken; [apply call_name_loop_ok; auto; unfold kap in *; lia|]. intros; cbn beta in *; lia.
    + assert (Hne : t_typ tk <> pit_EOF) by (rewrite E2; nzc).
      destruct (c_backup2_rel inlen NT eofchk s1 tk2 s2 tk Hi0 Rpk1 Rcur Hnz Hne Rtw R2) as (A & B & C).
      cfin.
  - destruct (c_backup_after inlen NT eofchk _ _ _ Hi R) as (A & B & C). cfin.
Qed.

(* parseNamespace *)
Lemma parse_namespace_ok f token s b :
  cinv s -> ckap s = b -> (cmu s < f)%nat ->
  cpost b (fun _ s' => (cmu s' <= cmu s)%nat) (parse_namespace inlen unq f token s).
Proof.
  intros Hi Hb Hf. unfold parse_namespace. destruct (c_ns s); [|cerr].
  cexpect id s1 H1.
  eapply cpost_bind; [apply dotted_name_ok; auto; lia|]. intros name s2 Hi2 Hb2 H2. cbn beta in H2.
  eapply cpost_bind; [apply attrs_loop_ok; auto; lia|]. intros attrs s3 Hi3 Hb3 H3. cbn beta in H3.
  eapply cpost_bind; [apply parse_autoescape_ok; auto|]. intros ae s4 Hi4 Hb4 H4. cbn beta in H4. subst s4.
  cexpect t5 s5 H5.
  cbn [cpost]. unfold ParserBase.cinv in *. cbn [c_p c_scans set_ns]. unfold kap in *.
  split; [auto|]. split; lia.
Qed.

End Leaf.
