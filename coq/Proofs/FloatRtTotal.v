(* Float round trip, part 6: Num.fl_to_string is total on the floats of the model -- for every odd mantissa
   below 2^53 and every exponent of Num.mk_fl's window the decimal exponent is found among the four
   candidates around the estimate from the bit lengths, and the digit search ends with 17 digits at the
   latest (10^16 times the width of the rounding interval exceeds the float: 4 * 10^16 > 2^55). *)
From Soy Require Import Model.Bytes Model.Num Model.NumLit Proofs.NumLitProofs Proofs.FloatRtRound Proofs.FloatRtDigits.
From Coq Require Import ZifyBool ZifyNat ZifyN Lia.
Open Scope Z_scope.

(* ---- the digit search stops ---- *)
Lemma rt_in_strict incl lo hi den c p :
  scaled_cmp c p lo den = Gt -> scaled_cmp c p hi den = Lt -> in_interval incl lo hi den c p = true.
Proof. intros A B. unfold in_interval. rewrite A, B. reflexivity. Qed.

(* with 17 digits one of the two neighbours of x is inside the interval *)
Lemma rt_sf_last k incl x lo hi den :
  0 < den -> lo < x < hi -> ge_pow10 x den (k - 1) = true -> x < (hi - lo) * 10 ^ 16 ->
  let p := 17 - k in
  let tn := if 0 <=? p then x * pow10 p else x in
  let td := if 0 <=? p then den else den * pow10 (- p) in
  tn mod td <> 0 ->
  in_interval incl lo hi den (tn / td) p = true \/ in_interval incl lo hi den (tn / td + 1) p = true.
Proof.
  intros Hden Hx Hge Hw. cbv zeta. set (p := 17 - k). unfold ge_pow10 in Hge.
  destruct (Z.leb_spec 0 p) as [Hp|Hp].
  - (* at most 17 digits before the point *)
    set (P := pow10 p). assert (HP : 0 < P) by (apply rt_pow10_pos; lia). intros Hr.
    pose proof (Z.div_mod (x * P) den ltac:(lia)) as Hdm. pose proof (Z.mod_pos_bound (x * P) den Hden) as Hrb.
    set (cd := x * P / den) in *. set (r := (x * P) mod den) in *.
    assert (L1 : lo * P < x * P) by (apply Z.mul_lt_mono_pos_r; lia).
    assert (L2 : x * P < hi * P) by (apply Z.mul_lt_mono_pos_r; lia).
    assert (D : den < (hi - lo) * P).
    { destruct (Z.leb_spec 0 (k - 1)) as [Hk|Hk].
      - set (A := pow10 (k - 1)) in *. assert (HA : 0 < A) by (apply rt_pow10_pos; lia).
        assert (E16 : 10 ^ 16 = A * P) by (unfold A, P, pow10; rewrite <- Z.pow_add_r by lia; f_equal; unfold p; lia).
        assert (den * A <= x) by lia. rewrite E16 in Hw.
        assert (den * A < (hi - lo) * P * A) by lia.
        apply (Z.mul_lt_mono_pos_r A); assumption.
      - set (B := pow10 (- (k - 1))) in *. assert (HB : 0 < B) by (apply rt_pow10_pos; lia).
        assert (EP : P = 10 ^ 16 * B) by (unfold B, P, pow10; rewrite <- Z.pow_add_r by lia; f_equal; unfold p; lia).
        assert (den <= x * B) by lia.
        assert (x * B < (hi - lo) * 10 ^ 16 * B) by (apply Z.mul_lt_mono_pos_r; lia).
        rewrite EP. lia. }
    destruct (Z.ltb_spec (lo * P) (cd * den)) as [C|C].
    + left. apply rt_in_strict; unfold scaled_cmp; replace (0 <=? p) with true by lia; fold P.
      * apply Z.compare_gt_iff. lia.
      * apply Z.compare_lt_iff. lia.
    + right. apply rt_in_strict; unfold scaled_cmp; replace (0 <=? p) with true by lia; fold P.
      * apply Z.compare_gt_iff. lia.
      * apply Z.compare_lt_iff. lia.
  - (* more than 17 digits before the point: the candidates are multiples of 10^(k-17) *)
    set (Q := pow10 (- p)). assert (HQ : 0 < Q) by (apply rt_pow10_pos; lia). intros Hr.
    assert (Htd : 0 < den * Q) by (apply Z.mul_pos_pos; lia).
    pose proof (Z.div_mod x (den * Q) ltac:(lia)) as Hdm. pose proof (Z.mod_pos_bound x (den * Q) Htd) as Hrb.
    set (cd := x / (den * Q)) in *. set (r := x mod (den * Q)) in *.
    assert (D : den * Q < hi - lo).
    { replace (0 <=? k - 1) with true in Hge by (unfold p in *; lia).
      set (A := pow10 (k - 1)) in *.
      assert (EA : A = Q * 10 ^ 16) by (unfold A, Q, pow10; rewrite <- Z.pow_add_r by (unfold p in *; lia); f_equal; unfold p; lia).
      assert (den * A <= x) by lia. rewrite EA in *.
      assert (den * Q * 10 ^ 16 < (hi - lo) * 10 ^ 16) by lia.
      apply (Z.mul_lt_mono_pos_r (10 ^ 16)); [lia|assumption]. }
    destruct (Z.ltb_spec lo (cd * Q * den)) as [C|C].
    + left. apply rt_in_strict; unfold scaled_cmp; replace (0 <=? p) with false by lia; fold Q.
      * apply Z.compare_gt_iff. lia.
      * apply Z.compare_lt_iff. lia.
    + right. apply rt_in_strict; unfold scaled_cmp; replace (0 <=? p) with false by lia; fold Q.
      * apply Z.compare_gt_iff. lia.
      * apply Z.compare_lt_iff. lia.
Qed.

Lemma rt_sf_total k incl x lo hi den :
  0 < den -> lo < x < hi -> ge_pow10 x den (k - 1) = true -> x < (hi - lo) * 10 ^ 16 ->
  forall fuel n, 1 <= n <= 17 -> 18 <= n + Z.of_nat fuel ->
  shortest_from fuel n k incl x lo hi den <> None.
Proof.
  intros Hden Hx Hge Hw. induction fuel as [|f IH]; intros n Hn Hf; [lia|].
  cbn [shortest_from]. cbv zeta.
  set (p := n - k).
  set (tn := if 0 <=? p then x * pow10 p else x).
  set (td := if 0 <=? p then den else den * pow10 (- p)).
  destruct (Z.eqb_spec (tn mod td) 0) as [Hr|Hr]; [discriminate|].
  destruct (in_interval incl lo hi den (tn / td) p) eqn:Dok; destruct (in_interval incl lo hi den (tn / td + 1) p) eqn:Uok; cbn [andb]; try discriminate.
  destruct (Z.eq_dec n 17) as [E17|N17].
  - exfalso. subst n. pose proof (rt_sf_last k incl x lo hi den Hden Hx Hge Hw) as L. cbv zeta in L.
    fold p in L. fold tn in L. fold td in L. destruct (L Hr) as [L1|L1]; congruence.
  - apply IH; lia.
Qed.

(* ---- the decimal exponent is found ---- *)
Definition rt_sc (s : Z) : Z := if 0 <=? s then 2 ^ s else 1.
Definition rt_dn (s : Z) : Z := if 0 <=? s then 1 else 2 ^ (- s).
Definition rt_k0 (s : Z) : Z := ((54 + s) * 30103) / 100000.

(* for the least and the largest 4M of a binade: 10^(k0-2) <= 2^54 2^s  and  2^55 2^s < 10^(k0+2) *)
Definition rt_exp_chk (s : Z) : bool :=
  ge_pow10 (2 ^ 54 * rt_sc s) (rt_dn s) (rt_k0 s - 2) && negb (ge_pow10 (2 ^ 55 * rt_sc s) (rt_dn s) (rt_k0 s + 2)).
Definition rt_s_range : list Z := map (fun i => Z.of_nat i - 1060) (seq 0 1970).

Lemma rt_exp_table : forallb rt_exp_chk rt_s_range = true.
Proof. vm_compute. reflexivity. Qed.

Lemma rt_exp_chk_s s : -1060 <= s < 910 -> rt_exp_chk s = true.
Proof.
  intros Hs. pose proof rt_exp_table as T. rewrite forallb_forall in T. apply T.
  unfold rt_s_range. apply in_map_iff. exists (Z.to_nat (s + 1060)). split; [lia|]. apply in_seq. lia.
Qed.

Lemma rt_ge_pow10_mono num num' den k : 0 < den -> num <= num' -> ge_pow10 num den k = true -> ge_pow10 num' den k = true.
Proof.
  intros Hd Hn. unfold ge_pow10. destruct (Z.leb_spec 0 k) as [Hk|Hk]; [lia|].
  pose proof (rt_pow10_pos (- k) ltac:(lia)) as P. intros H.
  assert (num * pow10 (- k) <= num' * pow10 (- k)) by (apply Z.mul_le_mono_nonneg_r; lia). lia.
Qed.

Lemma rt_sc_pos s : 0 < rt_sc s.
Proof. unfold rt_sc. destruct (Z.leb_spec 0 s); [apply Z.pow_pos_nonneg|]; lia. Qed.
Lemma rt_dn_pos s : 0 < rt_dn s.
Proof. unfold rt_dn. destruct (Z.leb_spec 0 s); [|apply Z.pow_pos_nonneg]; lia. Qed.

Lemma rt_dec_exponent_total X s :
  2 ^ 54 <= X < 2 ^ 55 -> -1060 <= s < 910 ->
  exists k, dec_exponent (X * rt_sc s) (rt_dn s) = Some k /\ ge_pow10 (X * rt_sc s) (rt_dn s) (k - 1) = true.
Proof.
  intros HX Hs. pose proof (rt_sc_pos s) as Hsc. pose proof (rt_dn_pos s) as Hdn.
  assert (LX : Z.log2 X = 54) by (apply Z.log2_unique; [lia|exact HX]).
  assert (Ediff : Z.log2 (X * rt_sc s) - Z.log2 (rt_dn s) = 54 + s).
  { unfold rt_sc, rt_dn. destruct (Z.leb_spec 0 s).
    - rewrite Z.log2_mul_pow2 by lia. rewrite LX. change (Z.log2 1) with 0. lia.
    - rewrite Z.mul_1_r, LX, Z.log2_pow2 by lia. lia. }
  pose proof (rt_exp_chk_s s Hs) as C. unfold rt_exp_chk in C. apply andb_prop in C as [C1 C2].
  assert (G1 : ge_pow10 (X * rt_sc s) (rt_dn s) (rt_k0 s - 2) = true).
  { apply (rt_ge_pow10_mono (2 ^ 54 * rt_sc s)); [exact Hdn| |exact C1]. apply Z.mul_le_mono_nonneg_r; lia. }
  assert (G2 : ge_pow10 (X * rt_sc s) (rt_dn s) (rt_k0 s + 2) = false).
  { destruct (ge_pow10 (X * rt_sc s) (rt_dn s) (rt_k0 s + 2)) eqn:G; [|reflexivity].
    rewrite (rt_ge_pow10_mono (X * rt_sc s) (2 ^ 55 * rt_sc s) _ _ Hdn) in C2; [discriminate| |exact G].
    apply Z.mul_le_mono_nonneg_r; lia. }
  unfold dec_exponent. cbv zeta. rewrite Ediff. fold (rt_k0 s). set (k0 := rt_k0 s) in *.
  set (g := ge_pow10 (X * rt_sc s) (rt_dn s)) in *. cbn [find].
  replace (k0 - 1 - 1) with (k0 - 2) by lia. replace (k0 + 1 - 1) with k0 by lia. replace (k0 + 2 - 1) with (k0 + 1) by lia.
  rewrite G1, G2. cbn [andb negb].
  destruct (g (k0 - 1)) eqn:A1; cbn [negb andb].
  2:{ exists (k0 - 1). split; [reflexivity|]. replace (k0 - 1 - 1) with (k0 - 2) by lia. exact G1. }
  destruct (g k0) eqn:A2; cbn [negb andb].
  2:{ exists k0. split; [reflexivity|exact A1]. }
  destruct (g (k0 + 1)) eqn:A3; cbn [negb andb].
  2:{ exists (k0 + 1). split; [reflexivity|]. replace (k0 + 1 - 1) with k0 by lia. exact A2. }
  exists (k0 + 2). split; [reflexivity|]. replace (k0 + 2 - 1) with (k0 + 1) by lia. exact A3.
Qed.

(* ---- shortest_decimal and fl_to_string answer ---- *)
Theorem rt_shortest_decimal_total (q : positive) (e : Z) :
  podd q -> Zpos q < two53 -> -1000 < e < 900 -> shortest_decimal (Zpos q) e <> None.
Proof.
  intros Hodd Hq53 He. unfold shortest_decimal. cbv zeta.
  set (shift := 53 - (Z.log2 (Zpos q) + 1)).
  set (s := e - shift - 2).
  set (X := 4 * Zpos q * 2 ^ shift).
  set (LO := if Zpos q =? 1 then X - 1 else X - 2).
  fold (rt_sc s). fold (rt_dn s).
  pose proof (rt_shift_range q e Hq53) as Hs. fold shift in Hs.
  pose proof (rt_M_range q e Hq53) as HM. fold shift in HM.
  assert (HX : X = 4 * (Zpos q * 2 ^ shift)) by (unfold X; ring).
  assert (HXr : 2 ^ 54 <= X < 2 ^ 55) by (rewrite HX; change (2 ^ 54) with (4 * 2 ^ 52); change (2 ^ 55) with (4 * 2 ^ 53); lia).
  destruct (rt_dec_exponent_total X s HXr ltac:(unfold s; lia)) as (k & Ek & Gk). rewrite Ek.
  pose proof (rt_sc_pos s) as Hsc. pose proof (rt_dn_pos s) as Hdn.
  assert (HLO : 0 < LO /\ LO < X) by (unfold LO; destruct (Zpos q =? 1); lia).
  assert (Hx : LO * rt_sc s < X * rt_sc s < (X + 2) * rt_sc s) by (split; apply Z.mul_lt_mono_pos_r; lia).
  assert (Hw : X * rt_sc s < ((X + 2) * rt_sc s - LO * rt_sc s) * 10 ^ 16).
  { replace (((X + 2) * rt_sc s - LO * rt_sc s) * 10 ^ 16) with ((X + 2 - LO) * 10 ^ 16 * rt_sc s) by ring.
    apply Z.mul_lt_mono_pos_r; [exact Hsc|].
    unfold LO. destruct (Z.eqb_spec (Zpos q) 1) as [E1|E1].
    - (* the lowest mantissa: X = 2^54, width 3 *)
      assert (Esh : shift = 52) by (unfold shift; rewrite E1; reflexivity).
      assert (EX : X = 2 ^ 54) by (rewrite HX, E1, Esh; reflexivity). rewrite EX. vm_compute. reflexivity.
    - replace (X + 2 - (X - 2)) with 4 by lia. assert (2 ^ 55 < 4 * 10 ^ 16) by (vm_compute; reflexivity). lia. }
  pose proof (rt_sf_total k (1 <=? shift) _ _ _ _ Hdn Hx Gk Hw 17%nat 1 ltac:(lia) ltac:(lia)) as T.
  destruct (shortest_from 17 1 k (1 <=? shift) (X * rt_sc s) (LO * rt_sc s) ((X + 2) * rt_sc s) (rt_dn s)) as [[c p]|]; [|congruence].
  destruct (strip10 20 c p). discriminate.
Qed.
