(* C15, template level: scanner model and parser model composed on a whole minimal file
   {template .name} body {/template}  (Spec/TextTemplate.v). *)
From Soy Require Import Model.Bytes Model.Utf8 Model.Outcome Model.Num Model.Values Model.Ast Model.Token Model.RawText
  Model.ExprParser Model.Parser Model.Lexer Generated.Tables Spec.Text Spec.TextBody Spec.TextMix Spec.TextTemplate
  Proofs.RawTextProofs Proofs.ExprParserRules Proofs.LexerPrim Proofs.LexerStates Proofs.LexerProofs Proofs.LexTokens Proofs.LexPrintTop
  Proofs.LexBodyText Proofs.LexBodyTop Proofs.LexBodySeg Proofs.LexBodyMain Proofs.LexBodyMix Proofs.LexBodyMixMain Proofs.LexTemplate
  Proofs.ParseBodyText Proofs.ParseBodySeg Proofs.ParseBodyMix Proofs.ParseTemplate Proofs.BodyTextMain Proofs.BodyMixMain
  Proofs.ParserProofs Proofs.LexParseBridge Proofs.CmdParserFuel Proofs.PrintCmdFile.
From Coq Require Import ZifyBool ZifyNat ZifyN Lia.
Open Scope N_scope.

Lemma tpl_open_eq name : tpl_open_src name = tpl_open name.
Proof. reflexivity. Qed.
Lemma tpl_close_eq : tpl_close_src = tpl_close.
Proof. reflexivity. Qed.
Lemma tpl_name_wf_ok name : tpl_name_wf name -> tpl_name_ok name.
Proof.
  intros [H1 H2]. split.
  - rewrite forallb_forall in *. intros c Hc. specialize (H1 c Hc). unfold alnum_b, letter_b, digit_b. lia.
  - destruct name as [|c r]; [reflexivity|]. unfold head_digit, digit_b. lia.
Qed.

Lemma pshape_empty its : pshape [[]] its -> its = [].
Proof.
  intros H. inversion H as [x txt Htx|x x' txt c rest items Htx Hx Hc Hsh]; subst.
  - unfold is_text_of in Htx. cbn in Htx. exact Htx.
  - inversion Hsh.
Qed.

Section Main.
Variable uni_letter uni_digit : Z -> bool.
Hypothesis letter_ascii : forall c, (c < 128)%N -> uni_letter (Z.of_N c) = ((65 <=? c) && (c <=? 90) || (97 <=? c) && (c <=? 122))%N.
Hypothesis digit_ascii : forall c, (c < 128)%N -> uni_digit (Z.of_N c) = digit_b c.
Hypothesis letter_eof : uni_letter (-1)%Z = false.
Hypothesis digit_eof : uni_digit (-1)%Z = false.

(* lex(name, the file) *)
Theorem lex_template_file name T0 rest pcs rp :
  tpl_name_ok name -> mix_tpl_ok T0 rest -> pieces MText false [] T0 = Some pcs -> rest_pieces rest rp ->
  exists ld0 tk di rd0 body ld2 te rd2 e,
    lex_items uni_letter uni_digit (lex_budget (tpl_file name T0 rest)) false (tpl_file name T0 rest)
      = Ok (ld0 :: tk :: di :: rd0 :: body ++ [ld2; te; rd2; e]) /\
    t_typ ld0 = itemLeftDelim /\ t_typ tk = itemTemplate /\ t_typ di = itemDotIdent /\ t_val di = 46 :: name /\ t_typ rd0 = itemRightDelim /\
    t_typ ld2 = itemLeftDelim /\ t_typ te = itemTemplateEnd /\ t_typ rd2 = itemRightDelim /\ t_typ e = itemEOF /\
    forall term, mshapeT term pcs rp (body ++ term).
Proof.
  intros Hname [Hok0 Hokr] Hpc Hrp. set (txt := tpl_file name T0 rest).
  assert (Etxt : txt = tpl_open name ++ (T0 ++ rest_src rest ++ tpl_close)).
  { unfold txt, tpl_file, body_src. rewrite tpl_open_eq, tpl_close_eq, <- app_assoc. reflexivity. }
  assert (Hs0 : span txt lex_init [] ([] ++ txt)).
  { unfold span, lex_init. cbn [l_start l_pos length app]. repeat split; try lia. }
  assert (Htl0 : tag_or_end txt) by (right; rewrite Etxt; eexists; reflexivity).
  assert (Hne0 : txt <> []) by (rewrite Etxt; discriminate).
  (* lexText in front of the template tag: nothing pending *)
  destruct (lex_stretch uni_letter uni_digit letter_ascii digit_ascii letter_eof digit_eof txt 0 [] (le_n _) lex_init [[]] txt Hs0
              ltac:(constructor) Htl0 eq_refl ltac:(intros _; reflexivity)) as (k1 & l1 & its1 & st1 & Hst1 & Hsh1 & Hdd1 & Hend1).
  destruct Hend1 as [(A & _)|(_ & -> & Ho1 & Hs1)]; [congruence|].
  rewrite (pshape_empty _ Hsh1) in Ho1. cbn [rev app] in Ho1.
  assert (Hs1' : span txt l1 [] (tpl_open name ++ (T0 ++ rest_src rest ++ tpl_close))) by (rewrite <- Etxt; exact Hs1).
  destruct (lex_tpl_open uni_letter uni_digit letter_ascii digit_ascii letter_eof digit_eof txt l1 name _ Hname Hs1')
    as (k2 & l2 & ld0 & tk & di & rd0 & Hst2 & Hs2 & Ho2 & Hld0 & Htk & Hdi & Hdiv & Hrd0 & Hla2 & Hv2 & Hdd2).
  assert (Hpw : pwof 0 l2 = false) by (unfold pwof; rewrite Hla2, Hv2; reflexivity).
  assert (Hrest : forall sg, In sg rest -> cmd_ok (fst sg) /\ mix_stretch_ok false false (snd sg)) by (rewrite Forall_forall in Hokr; exact Hokr).
  destruct (lex_mix_run_tl uni_letter uni_digit letter_ascii digit_ascii letter_eof digit_eof txt rest rp T0 pcs l2 tpl_close
              ltac:(discriminate) ltac:(right; eexists; reflexivity) Hs2 Hdd2 ltac:(rewrite Hpw; exact Hok0) ltac:(rewrite Hpw; exact Hpc) Hrest Hrp)
    as (k3 & l3 & body & Hst3 & Hs3 & Ho3 & Hsh).
  assert (Hs3' : span txt l3 [] (tpl_close ++ [])) by (rewrite app_nil_r; exact Hs3).
  destruct (lex_tpl_close uni_letter uni_digit letter_ascii digit_ascii letter_eof digit_eof txt l3 [] Hs3')
    as (k4 & l4 & ld2 & te & rd2 & Hst4 & Hs4 & Ho4 & Hld2 & Hte & Hrd2 & Hdd4).
  (* lexText at the end of the input *)
  assert (Hs4' : span txt l4 [] ([] ++ [])) by exact Hs4.
  assert (Hpc4 : pieces MText (pwof 0 l4) [] [] = Some [[]]) by reflexivity.
  destruct (lex_stretch uni_letter uni_digit letter_ascii digit_ascii letter_eof digit_eof txt 0 [] (le_n _) l4 [[]] [] Hs4'
              ltac:(constructor) (or_introl eq_refl) Hpc4 ltac:(intros H; congruence)) as (k5 & l5 & its5 & st5 & Hst5 & Hsh5 & Hdd5 & Hend5).
  destruct Hend5 as [(_ & -> & e & He & Ho5)|(A & _)]; [|congruence].
  rewrite (pshape_empty _ Hsh5) in Ho5. cbn [rev app] in Ho5.
  exists ld0, tk, di, rd0, body, ld2, te, rd2, e.
  split; [|repeat (split; [assumption|]); exact Hsh].
  assert (Hsteps : steps uni_letter uni_digit txt 0 (k1 + (k2 + (k3 + (k4 + k5)))) LText lex_init = Ok (LDone, l5)).
  { rewrite (steps_app _ _ _ _ k1 _ _ _ _ _ Hst1), (steps_app _ _ _ _ k2 _ _ _ _ _ Hst2), (steps_app _ _ _ _ k3 _ _ _ _ _ Hst3),
      (steps_app _ _ _ _ k4 _ _ _ _ _ Hst4). exact Hst5. }
  destruct (lex_total_linear uni_letter uni_digit letter_eof digit_eof 0%Z ltac:(lia) false txt) as (lf & Hr & _).
  pose proof Hr as Hr'. rewrite lex_run_at_file in Hr'.
  pose proof (run_unique uni_letter uni_digit txt 0 (lex_budget txt) _ LText lex_init lf l5 Hr' Hsteps) as E.
  unfold lex_items, lex_run. rewrite Hr. cbn [bind]. subst lf. rewrite Ho5, Ho4, Ho3, Ho2, Ho1.
  cbn [lex_init l_out]. f_equal. cbn [rev]. rewrite rev_app_distr, rev_involutive. cbn [rev app]. rewrite <- !app_assoc. reflexivity.
Qed.

Variable lexq : bstr -> list tok.
Variable unq : bstr -> option bstr.
Hypothesis Hlexq : lexq_wf lexq.

(* body_text_spec for the body of a template, as a statement about a whole file *)
Theorem template_body_impl_spec name T0 rest out : tpl_name_wf name -> mix_tpl_ok T0 rest -> mix_tpl_out T0 rest = Some out ->
  exists items pos tp nm ae pv bpos nodes st,
    lex_items uni_letter uni_digit (lex_budget (tpl_file name T0 rest)) false (tpl_file name T0 rest) = Ok items /\
    po_result (soy_file (N.of_nat (length (tpl_file name T0 rest))) lexq unq items)
      = POk (NList pos [NTemplate tp nm (NList bpos nodes) ae pv]) st /\
    Forall is_raw nodes /\ concat (map raw_text_of nodes) = out.
Proof.
  intros Hname Hok Hout. unfold mix_tpl_out, body_text in Hout.
  destruct (pieces MText false [] T0) as [pcs|] eqn:Hp; [|discriminate].
  destruct (mix_rest_out rest) as [out'|] eqn:Hr; [|discriminate]. cbn [app_opt] in Hout. injection Hout as <-.
  destruct (rest_out_pieces rest out' Hr) as (rp & Hrp & Ho).
  destruct (lex_template_file name T0 rest pcs rp (tpl_name_wf_ok _ Hname) Hok Hp Hrp)
    as (ld0 & tk & di & rd0 & body & ld2 & te & rd2 & e & Hlex & A1 & A2 & A3 & _ & A4 & A5 & A6 & A7 & A8 & Hsh).
  set (items := ld0 :: tk :: di :: rd0 :: body ++ [ld2; te; rd2; e]) in *.
  destruct (lex_items_total _ _ letter_eof digit_eof false (tpl_file name T0 rest)) as (ts & Hl & Hsc). rewrite Hlex in Hl. injection Hl as <-.
  pose proof (scan_items_wf_all _ _ Hsc) as Hw.
  destruct Hok as [[Hpl0 _] Hokr].
  assert (Hn0 : Forall no_nul pcs).
  { apply (pieces_bytes (fun c => c <> 0) T0 MText false [] pcs); [constructor| |exact Hp].
    eapply Forall_impl; [|exact Hpl0]. intros a (Ha & _). exact Ha. }
  assert (Hnr : Forall (fun q : bstr * list bstr => Forall no_nul (snd q)) rp).
  { clear - Hokr Hrp. revert rp Hrp. induction rest as [|[[n o] T] r IH]; intros rp Hrp; destruct rp as [|[o' pcs'] rp']; try contradiction; [constructor|].
    cbn [rest_pieces] in Hrp. destruct Hrp as (_ & Hp & Hrp'). inversion Hokr as [|? ? (_ & [Hpl _]) Hokr']; subst.
    constructor; [|apply (IH Hokr' rp' Hrp')]. cbn [snd].
    apply (pieces_bytes (fun c => c <> 0) T MText false [] pcs'); [constructor| |exact Hp].
    eapply Forall_impl; [|exact Hpl]. intros a (Ha & _). exact Ha. }
  destruct (template_file_nodes (N.of_nat (length (tpl_file name T0 rest))) lexq unq ld0 tk di rd0 body ld2 te rd2 e pcs rp
              A1 A2 A3 A4 Hsh A5 A6 A7 A8 Hn0 Hnr) as (F & pos & tp & nm & ae & pv & bpos & nodes & s' & Hrun & Hraw & Hcat).
  exists items, pos, tp, nm, ae, pv, bpos, nodes, (c_p s'). split; [exact Hlex|]. split.
  - exact (soy_file_of_big_fuel _ lexq unq items F _ s' Hlexq Hw Hrun).
  - split; [exact Hraw|]. rewrite Hcat, Ho. reflexivity.
Qed.

End Main.
