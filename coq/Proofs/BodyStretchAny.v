(* C15, template level: ONE stretch of text between ANY two tags.  The scanner half (lexText and the comment
   states up to the next "{" or the end of the input, Proofs/LexBodyMixMain.v lex_stretch) and the parser half
   (itemList / textOrTag over the items of the stretch, whatever item follows them and whatever until-set the
   enclosing command reads with, Proofs/ParseTemplate.v stretch_nodes_u) composed: the text between two tags is
   normalised as the Spec says whatever the tags are -- the only things the neighbours contribute are the byte in
   front of the stretch (the "}" of a tag: a leading "//" is text) and the fact that a tag is an unflagged end. *)
From Soy Require Import Model.Bytes Model.Utf8 Model.Outcome Model.Num Model.Values Model.Ast Model.Token Model.RawText
  Model.ExprParser Model.Parser Model.Lexer Generated.Tables Spec.Text Spec.TextBody Spec.TextMix
  Proofs.RawTextProofs Proofs.ExprParserRules Proofs.LexTokens Proofs.LexBodyText Proofs.LexBodyTop Proofs.LexBodySeg Proofs.LexBodyMain
  Proofs.LexBodyMix Proofs.LexBodyMixMain Proofs.ParseBodyText Proofs.ParseBodySeg Proofs.ParseBodyMix Proofs.ParseTemplate Proofs.BodyTextMain.
From Coq Require Import ZifyBool ZifyNat ZifyN Lia.
Open Scope N_scope.

Section StretchAny.
Variable uni_letter uni_digit : Z -> bool.
Hypothesis letter_ascii : forall c, (c < 128)%N -> uni_letter (Z.of_N c) = ((65 <=? c) && (c <=? 90) || (97 <=? c) && (c <=? 122))%N.
Hypothesis digit_ascii : forall c, (c < 128)%N -> uni_digit (Z.of_N c) = digit_b c.
Hypothesis letter_eof : uni_letter (-1)%Z = false.
Hypothesis digit_eof : uni_digit (-1)%Z = false.

Theorem stretch_any_neighbours inp l T tl out :
  span inp l [] (T ++ tl) -> plain T -> tag_or_end tl ->
  body_text (pwof 0 l) T = Some out -> (tl <> [] -> line_open MText (pwof 0 l) T = false) ->
  exists k l' its st',
    steps uni_letter uni_digit inp 0 k LText l = Ok (st', l') /\ l_dd l' = l_dd l /\
    ((tl = [] /\ st' = LDone /\ exists e, t_typ e = itemEOF /\ l_out l' = e :: rev its ++ l_out l) \/
     (tl <> [] /\ st' = LLeftDelim /\ l_out l' = rev its ++ l_out l /\ span inp l' [] tl)) /\
    forall inlen lexq unq pexpr efuel pe w lf until,
      one_of pit_Text until = false -> one_of pit_LeftDelim until = false ->
      (forall t o, assoc t parser_special_chars = Some o -> one_of t until = false) -> one_of pit_Literal until = false ->
      forall nx rest acc pos s, t_typ nx <> pit_Text -> t_typ nx <> pit_Comment ->
      stream (c_p s) = its ++ nx :: rest -> inv (c_p s) -> (length its + 2 <= lf)%nat ->
      exists j pre' nodes pos' s', Forall is_comment pre' /\ Forall is_raw nodes /\ concat (map raw_text_of nodes) = out /\
        stream (c_p s') = pre' ++ nx :: rest /\ inv (c_p s') /\
        forall f, item_list_loop inlen lexq unq pexpr efuel pe w lf (j + f) until pos acc s
                = item_list_loop inlen lexq unq pexpr efuel pe w lf f until pos' (acc ++ nodes) s'.
Proof.
  intros Hs Hpl Htl Hout Hlo. unfold body_text in Hout.
  destruct (pieces MText (pwof 0 l) [] T) as [pcs|] eqn:Hp; [|discriminate]. injection Hout as <-.
  destruct (lex_stretch uni_letter uni_digit letter_ascii digit_ascii letter_eof digit_eof inp (length T) T (le_n _) l pcs tl Hs Hpl Htl Hp Hlo)
    as (k & l' & its & st' & Hst & Hsh & Hdd & Hend).
  exists k, l', its, st'. split; [exact Hst|]. split; [exact Hdd|]. split; [exact Hend|].
  intros inlen lexq unq pexpr efuel pe w lf until Hut Hul Hus Hult nx rest acc pos s Hnt Hnc Hstr Hi Hlf.
  assert (Hn0 : Forall no_nul pcs).
  { apply (pieces_bytes (fun c => c <> 0) T MText (pwof 0 l) [] pcs); [constructor| |exact Hp].
    eapply Forall_impl; [|exact Hpl]. intros a (Ha & _). exact Ha. }
  destruct (stretch_nodes_u inlen lexq unq pexpr efuel pe w lf until Hut Hul Hus Hult pcs its Hsh Hn0 [] ltac:(constructor) nx rest acc pos s Hnt Hnc Hstr Hi Hlf)
    as (j & pre' & nodes & pos' & s' & _ & Hpre' & _ & Hraw & Hcat & Hst' & Hi' & Hrun).
  exists j, pre', nodes, pos', s'. auto 10.
Qed.

End StretchAny.

(* behind the "}" of any tag the stretch starts like a stretch that does not begin the input: "//" is text *)
Lemma pwof_after_brace l : t_val (l_last l) = [125%N] -> pwof 0 l = false.
Proof. intros H. unfold pwof. rewrite H. reflexivity. Qed.
