(* C09 — the instrumented JavaScript generator (Generated/JsGenTrace.v, derived
   from the text of Model/JsGen.v over a lens + logger) SIMULATES the model:
   base of the per-definition proof.

   [jsim mt m]: from every state s of the instrumented generator, the outcome of
   mt, seen through the lens, is the outcome of the model's m on the record the
   lens shows of s (a failing run: the same failure).  This file has

     - the laws a lens must satisfy ([jlens_ok]: get-put, get-tick),
     - the simulation of each PRIMITIVE that tablegen rewrites (jret jfail jabort
       jlift jbind jget jmod jtick jblock), by hand,
     - [JSIM x y], the statement for a definition of ANY type built from the
       monad, computed from the two types: equal plain arguments, [jsim]-related
       monadic arguments (the walker w, a children walker), [jsim]-related results,
     - the generic tactics [jsim_def] / [jsim_fix k] that prove such a statement by
       walking both bodies in lockstep (bind, match on the same scrutinee, nested
       fix by induction, calls through the lemmas proved so far and the hypotheses),

   and Generated/JsGenSim.v, regenerated on every run from the list of J-typed
   definitions of Model/JsGen.v, states and proves one lemma per definition with
   them.  No lemma here mentions the text of a non-primitive definition. *)
From Coq Require Import List Arith Bool.
From Soy Require Import Model.Bytes Model.Num Model.Values Model.Outcome Model.Ast Model.JsGen Generated.JsGenTrace.
Import ListNotations.
Open Scope N_scope.

Record jlens_ok (L : jlens) : Prop := {
  l_get_put : forall x s, l_get L (l_put L x s) = x;
  l_get_tick : forall a s, l_get L (l_tick L a s) = l_get L s;
}.

Section Base.
Variable L : jlens.

(* an outcome of the instrumented generator, seen through the lens *)
Definition oproj {A} (r : outcome A * l_St L) : outcome (A * jstate) :=
  match r with
  | (Ok a, s) => Ok (a, l_get L s)
  | (Err e, _) => Err e | (Crash e, _) => Crash e | (Diverge, _) => Diverge | (OutOfFuel, _) => OutOfFuel | (OutOfModel, _) => OutOfModel
  end.

Definition jsim {A} (mt : JT.J L A) (m : J A) : Prop := forall s, oproj (mt s) = m (l_get L s).

Lemma jsim_ret A (x : A) : jsim (JT.jret L x) (jret x).
Proof. intros s. reflexivity. Qed.
Lemma jsim_fail A m : jsim (@JT.jfail L A m) (jfail m).
Proof. intros s. reflexivity. Qed.
Lemma jsim_lift A (o : outcome A) : jsim (JT.jlift L o) (jlift o).
Proof. intros s. destruct o; reflexivity. Qed.
Lemma jsim_abort_oom A : jsim (JT.jabort L (@OutOfModel A)) (fun _ => OutOfModel).
Proof. intros s. reflexivity. Qed.
Lemma jsim_abort_oof A : jsim (JT.jabort L (@OutOfFuel A)) (fun _ => OutOfFuel).
Proof. intros s. reflexivity. Qed.
Lemma jsim_abort_div A : jsim (JT.jabort L (@Diverge A)) (fun _ => Diverge).
Proof. intros s. reflexivity. Qed.
Lemma jsim_abort_crash A e : jsim (JT.jabort L (@Crash A e)) (fun _ => Crash e).
Proof. intros s. reflexivity. Qed.
Lemma jsim_abort_err A e : jsim (JT.jabort L (@Err A e)) (fun _ => Err e).
Proof. intros s. reflexivity. Qed.

Lemma jsim_bind A B (mt : JT.J L A) (m : J A) (ft : A -> JT.J L B) (f : A -> J B) :
  jsim mt m -> (forall x, jsim (ft x) (f x)) -> jsim (JT.jbind L mt ft) (jbind m f).
Proof.
  intros Hm Hf s. unfold JT.jbind, jbind. specialize (Hm s).
  destruct (mt s) as [[a|e|e| | |] s']; cbn [oproj] in Hm; rewrite <- Hm; [apply Hf|reflexivity..].
Qed.

Hypothesis HL : jlens_ok L.

Lemma jsim_get : jsim (JT.jget L) jget.
Proof. intros s. unfold JT.jget, jget. cbn [oproj]. now rewrite (l_get_tick L HL). Qed.
Lemma jsim_mod f : jsim (JT.jmod L f) (jmod f).
Proof. intros s. unfold JT.jmod, jmod. cbn [oproj]. now rewrite (l_get_tick L HL), (l_get_put L HL). Qed.
(* a tick is invisible through the lens *)
Lemma jsim_tick_then A a (mt : JT.J L A) (m : J A) :
  jsim mt m -> jsim (JT.jbind L (JT.jtick L a) (fun _ => mt)) m.
Proof. intros Hm s. unfold JT.jbind, JT.jtick. rewrite Hm. now rewrite (l_get_tick L HL). Qed.

(* state.block: the sub-generator on a fresh record sharing scope and maps; the parent's record comes back *)
Lemma jsim_jblock :
  forall (wt : node -> JT.J L unit) (w : node -> J unit),
    (forall n n', n = n' -> jsim (wt n) (w n')) ->
    forall n n', n = n' -> jsim (JT.jblock L wt n) (jblock w n').
Proof.
  intros wt w Hw n n' <-. unfold JT.jblock, jblock. apply jsim_bind; [apply jsim_get|].
  intros st s0. cbv zeta.
  match goal with |- context [wt n ?s1] => pose proof (Hw n n eq_refl s1) as Hs; rewrite (l_get_put L HL) in Hs;
    destruct (wt n s1) as [[[]|e|e| | |] s_] end;
  cbn [oproj] in Hs; rewrite <- Hs; cbn [oproj]; try reflexivity.
  now rewrite (l_get_put L HL).
Qed.
End Base.
Arguments jsim L {A} mt m.
Arguments oproj L {A} r.

(* ---------------- the statement for a definition of any type ---------------- *)
Class JRel (X Y : Type) := jrel : X -> Y -> Prop.
#[global] Instance jrel_J (L : jlens) (A : Type) : JRel (JT.J L A) (J A) | 0 := @jsim L A.
#[global] Instance jrel_fun (X X' Y Y' : Type) (RX : JRel X X') (RY : JRel Y Y') : JRel (X -> Y) (X' -> Y') | 1 :=
  fun f g => forall x x', jrel x x' -> jrel (f x) (g x').
#[global] Instance jrel_eq (A : Type) : JRel A A | 9 := @eq A.

Notation JSIM x y :=
  (ltac:(let t := constr:(jrel x y) in let t := eval cbv [jrel jrel_J jrel_fun jrel_eq] in t in exact t)) (only parsing).

(* ---------------- tactics ---------------- *)
(* the lemmas proved so far, looked up by the head constant of the instrumented side: rebound by
   Generated/JsGenSim.v after every lemma *)
Ltac jsim_db h := fail.

Ltac jsim_head t := lazymatch t with ?f _ => jsim_head f | _ => t end.

Ltac jsim_nth k acc :=
  lazymatch k with
  | O => lazymatch acc with (?x, _) => x end
  | S ?k' => lazymatch acc with (_, ?r) => jsim_nth k' r end
  end.

Ltac jsim_go :=
  cbv beta zeta;
  lazymatch goal with
  | |- jsim _ (@JT.jbind _ _ _ (JT.jtick _ _) _) _ => apply jsim_tick_then; [assumption|jsim_go]
  | |- jsim _ (@JT.jbind _ _ _ _ _) (@jbind _ _ _ _) => apply jsim_bind; [jsim_go|intro; jsim_go]
  | |- jsim _ (@JT.jret _ _ _) _ => apply jsim_ret
  | |- jsim _ (@JT.jfail _ _ _) _ => apply jsim_fail
  | |- jsim _ (@JT.jlift _ _ _) _ => apply jsim_lift
  | |- jsim _ (@JT.jabort _ _ _) _ =>
      first [apply jsim_abort_oom|apply jsim_abort_oof|apply jsim_abort_div|apply jsim_abort_crash|apply jsim_abort_err]
  | |- jsim _ (JT.jget _) _ => apply jsim_get; assumption
  | |- jsim _ (JT.jmod _ _) _ => apply jsim_mod; assumption
  | |- jsim _ (match ?x with _ => _ end) (match ?y with _ => _ end) => change x with y; destruct y; jsim_go
  | |- jsim _ ?T _ =>
      (* a hypothesis (the walker, an induction hypothesis), a nested fix, a lemma proved earlier *)
      first [ jsim_hyp | jsim_nested T | (let h := jsim_head T in jsim_db h); jsim_side ]
  end
with jsim_hyp :=
  match goal with H : context [jsim] |- _ => eapply H; jsim_side end
with jsim_nested T :=
  (* a local fix applied to its list (and possibly an accumulator before it): induction on the list; a
     hypothesis [Forall _ l] about its elements (from an induction over a nested inductive type) goes along *)
  match T with
  | ?F ?i ?l =>
      is_fix F;
      lazymatch goal with
      | |- jsim ?LL _ (?G ?i' ?l') =>
          change l with l'; change i with i';
          let H := fresh "Hgen" in
          assert (H : forall j, jsim LL (F j l') (G j l')); [jsim_list_induction l'|apply H]
      end
  | ?F ?l =>
      is_fix F;
      lazymatch goal with
      | |- jsim _ _ (_ ?l') =>
          change l with l'; jsim_list_induction l'
      end
  end
with jsim_list_induction l :=
  try (match goal with HF : Forall _ l |- _ => revert HF end);
  let IH := fresh "IHl" in
  induction l as [|? ? IH]; intros; lazy beta iota;
  try (match goal with HF : Forall _ (_ :: _) |- _ => inversion HF; subst; clear HF end);
  jsim_go
with jsim_side :=
  lazymatch goal with
  | |- jlens_ok _ => assumption
  | |- @eq _ _ _ => reflexivity
  | |- Forall _ _ => assumption
  | |- jsim _ _ _ => jsim_go
  | |- forall _, _ => intros; subst; jsim_go
  end.

Ltac jsim_intros :=
  repeat lazymatch goal with
         | |- jsim _ _ _ => fail
         | |- forall _, _ => intro
         end;
  subst.

(* a Definition: unfold both sides, walk them *)
Ltac jsim_def unf := jsim_intros; unf tt; jsim_go.

(* introduces the groups (x x' : x = x') / (wt w : related), substituting the equalities; hands the
   model-side variables, last first, to the continuation *)
Ltac jsim_groups acc k :=
  lazymatch goal with
  | |- jsim _ _ _ => k acc
  | |- forall _, _ =>
      let a := fresh "a" in let a' := fresh "a'" in let E := fresh "E" in
      intros a a' E;
      lazymatch type of E with
      | a = a' => subst a'; jsim_groups (a, acc) k
      | _ => jsim_groups (a', acc) k
      end
  end.
Ltac jsim_revert_others x acc :=
  lazymatch acc with
  | (?y, ?r) => tryif constr_eq x y then idtac else (try revert y); jsim_revert_others x r
  | _ => idtac
  end.

(* a Fixpoint: induction on the structural argument (the k-th binder from the end), every other plain
   argument generalised; [unf] unfolds both fixpoints one step *)
Ltac jsim_fix k unf :=
  jsim_groups tt ltac:(fun acc =>
    let x := jsim_nth k acc in
    jsim_revert_others x acc;
    induction x; intros; unf tt; jsim_go).

(* soyjs.Write *)
Ltac jsim_prove_gen_file L HL Hvf :=
  unfold JT.gen_file, gen_file; change JT.jinit_state with jinit_state;
  lazymatch goal with
  | |- context [JT.visit_file L ?o ?fuel ?name ?body ?s] =>
      let H := fresh "H" in
      pose proof (Hvf s) as H; rewrite (l_get_put L HL) in H;
      destruct (JT.visit_file L o fuel name body s) as [[[]|?|?| | |] ?]; cbn [oproj] in H; rewrite <- H; reflexivity
  end.

(* ---------------- recursion through the nested inductive type of message parts ---------------- *)
Lemma jmpart_ind2 (P : jmpart -> Prop) :
  (forall t, P (JMRaw t)) -> (forall n, P (JMPh n)) ->
  (forall v cases, Forall (Forall P) cases -> P (JMPlural v cases)) ->
  forall p, P p.
Proof.
  intros Hr Hp Hpl. fix IH 1. intros [t|n|v cases]; [apply Hr|apply Hp|apply Hpl].
  induction cases as [|c cr IHc]; constructor; [|exact IHc].
  induction c as [|q qr IHq]; constructor; [apply IH|exact IHq].
Qed.

(* a Fixpoint over message parts: as [jsim_fix], by [jmpart_ind2]; the nested loops over the cases and their
   parts are handled by [jsim_nested] with the Forall hypotheses *)
Ltac jsim_prove_jeval_part unf :=
  jsim_groups tt ltac:(fun acc =>
    let p := jsim_nth 0%nat acc in
    jsim_revert_others p acc;
    induction p using jmpart_ind2; intros; unf tt; jsim_go).
