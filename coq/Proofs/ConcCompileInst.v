(* C09 — Model/Compile.v as an instance of the compile thread of Model/ConcJs.v.

   Bundle.Compile is [compile] of Model/Compile.v: [add_all_files] folds
   [registry_add] from [empty_creg], a registry the compiling goroutine
   allocates; [creg_states] are the registries that fold passes through, one
   write to the thread's own location each; the thread returns [compile].

   This file is compiled on every run, but Properties/C09.v does not import it:
   Model/Compile.v imports the message-id model (Model/MsgId.v), and a
   translator failure in the message-id tables (a refactoring of soymsg that
   tablegen cannot read) would otherwise be charged to C09, whose subject is
   neither message ids nor placeholder names. *)
From Coq Require Import List Arith.
From Soy Require Import Model.Bytes Model.Values Model.Outcome Model.Ast Model.Interp Model.Compile
  Model.Conc Model.ConcRender Model.ConcJs Proofs.ConcJsProofs.
Import ListNotations.
Open Scope N_scope.

(* the registries add_all_files passes through, starting after [r] *)
Fixpoint creg_states (r : creg) (srcs : list src) : list creg :=
  match srcs with
  | [] => []
  | SrcParseErr _ _ :: _ => []
  | SrcOk f :: rest =>
      match registry_add r f with
      | inl _ => []
      | inr r' => r' :: creg_states r' rest
      end
  end.

Definition compile_task (node_string : node -> bstr) (o : orders) (globals : list gmap) (srcs : list src)
  : ccompile (cresult compiled) :=
  {| cc_steps := S (length (creg_states empty_creg srcs));         (* the empty registry, then one per file added *)
     cc_result := compile node_string o globals srcs |}.

Lemma last_cons_indep {A} (l : list A) : forall a d d', last (a :: l) d = last (a :: l) d'.
Proof. induction l as [|x l IH]; intros a d d'; [reflexivity|]. change (last (x :: l) d = last (x :: l) d'). apply IH. Qed.

(* the last registry of the list is the one add_all_files returns *)
Lemma creg_states_last srcs : forall r r', add_all_files r srcs = COk r' -> last (creg_states r srcs) r = r'.
Proof.
  induction srcs as [|[f|n m] rest IH]; intros r r' H; cbn [add_all_files creg_states] in *.
  - now inversion H.
  - destruct (registry_add r f) as [e|r1]; [discriminate|].
    specialize (IH r1 r' H). destruct (creg_states r1 rest) as [|c l] eqn:E; [exact IH|].
    rewrite <- IH. change (last (c :: l) r = last (c :: l) r1). apply last_cons_indep.
  - discriminate.
Qed.

(* the compile thread of Model/Compile.v: disciplined on any store, returns [compile] *)
Theorem compile_thread_instance :
  forall node_string o globals srcs (i : nat) (s : store rloc sval),
    disciplined rloc_eqb rowner i (ctask_prog i (CCompile (compile_task node_string o globals srcs))) s
    /\ solo_result rloc_eqb (ctask_prog i (CCompile (compile_task node_string o globals srcs))) s
       = CRCompiled (compile node_string o globals srcs).
Proof.
  intros ns o globals srcs i s. split.
  - apply ctask_disciplined.
  - rewrite ctask_result. reflexivity.
Qed.
Print Assumptions compile_thread_instance.
