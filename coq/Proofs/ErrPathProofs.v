(* C19, render half: the node of the entry template that was executing.

   Part 1 (spine): one unfolding of the walker that ends in a fault either ends the
   same way when the sub-walks in the entry template are masked ([Spec.ErrPos.mask]) --
   the node's own code, or a template it calls, failed -- or a sub-walk in the entry
   template ended in that very fault and state.  (Instance of Proofs/WalkRel.v.)
   Part 2 (own failures): where the position register stands when a node fails in
   its own code: [reported_at].
   Part 3: the chain [failing_path] exists for every failing walk and ends in a
   node that fails in its own code. *)
From Soy Require Import Model.Bytes Model.Num Model.Values Model.Outcome Model.Ast
  Model.Escape Model.Directives Model.Print Generated.Tables Model.Interp Spec.ErrPos
  Proofs.InterpLogic Proofs.WalkRel Proofs.ErrPosProofs.
Require Import Lia.
Open Scope N_scope.

(* ------------------------------------------------------------------ *)
(* the masked walker *)
Lemma mask_depth_pos w c st : depth_ st <> 0%nat -> mask w c st = w c st.
Proof. intros H. unfold mask. destruct (Nat.eqb_spec (depth_ st) 0); [contradiction | reflexivity]. Qed.

Lemma mask_depth0 w c st :
  depth_ st = 0%nat ->
  mask w c st = match classify (fst (w c st)) with
                | inl v => (Ok v, snd (w c st))
                | inr _ => (Diverge, snd (w c st))
                end.
Proof. intros H. unfold mask. rewrite H. cbn. destruct (w c st) as [[] s]; reflexivity. Qed.

Lemma mask_never_err w c st e fin : depth_ st = 0%nat -> mask w c st = (Err e, fin) -> False.
Proof. intros H Hm. rewrite (mask_depth0 _ _ _ H) in Hm. destruct (classify _); discriminate. Qed.

Lemma mask_ok w c st v fin : mask w c st = (Ok v, fin) -> w c st = (Ok v, fin).
Proof.
  unfold mask. destruct (Nat.eqb (depth_ st) 0); [|auto].
  destruct (w c st) as [[] s]; intros H; inversion H; reflexivity.
Qed.

Lemma mask_state w c st : snd (mask w c st) = snd (w c st).
Proof. unfold mask. destruct (Nat.eqb (depth_ st) 0); [|reflexivity]. destruct (w c st) as [[] s]; reflexivity. Qed.

Lemma call_enter_mask_any w callee cd st : call_enter (mask w) callee cd st = call_enter w callee cd st.
Proof. rewrite !call_enter_eq. cbn zeta. rewrite (mask_depth_pos w); [reflexivity|]. cbn. discriminate. Qed.
Lemma call_enter_mask w callee cd st : depth_ st = 0%nat -> call_enter (mask w) callee cd st = call_enter w callee cd st.
Proof. intros _. apply call_enter_mask_any. Qed.

(* ------------------------------------------------------------------ *)
(* Part 1: the spine *)
Section Spine.
Variable cf : cfg.
Variable fuel : nat.
Variable S : N -> Prop.

Definition child_fail {A} (r : outcome A) (fin : mstate) : Prop :=
  exists c s1 flt, okn S c /\ depth_ s1 = 0%nat /\ walk cf fuel c s1 = (of_fault flt, fin) /\ r = of_fault flt.

Definition sim (A : Type) (m m' : M A) : Prop :=
  forall st r fin, depth_ st = 0%nat -> m st = (r, fin) ->
    (m' st = (r, fin) /\ depth_ fin = 0%nat) \/ child_fail r fin.

Lemma child_fail_ok {A} (x : A) fin : child_fail (Ok x) fin -> False.
Proof. intros (c & s1 & flt & _ & _ & _ & H). symmetry in H. exact (of_fault_not_ok _ _ H). Qed.

Lemma child_fail_cast {A B} flt fin : child_fail (@of_fault A flt) fin -> child_fail (@of_fault B flt) fin.
Proof.
  intros (c & s1 & flt' & H1 & H2 & H3 & H4). exists c, s1, flt'. repeat split; try assumption.
  assert (flt = flt') as ->; [|reflexivity].
  pose proof (f_equal classify H4) as Hc. rewrite !classify_of_fault in Hc. inversion Hc. reflexivity.
Qed.

Lemma sim_logic : rel_logic sim (okn S).
Proof.
  constructor.
  - intros A m Hn st r fin Hd H. left. split; [exact H|]. destruct (Hn _ _ _ H) as [H1 _]. congruence.
  - intros A B m m' f f' Hm Hf st r fin Hd Hb.
    destruct (mbind_inv _ _ _ _ _ Hb) as [(x & st1 & H1 & H2) | (e & H1 & ->)].
    + destruct (Hm _ _ _ Hd H1) as [[H1' Hd1] | Hcf]; [|exfalso; exact (child_fail_ok _ _ Hcf)].
      destruct (Hf x _ _ _ Hd1 H2) as [[H2' Hd2] | Hcf]; [|right; exact Hcf].
      left. split; [|exact Hd2]. rewrite (mbind_ok _ _ _ _ _ H1'). exact H2'.
    + destruct (Hm _ _ _ Hd H1) as [[H1' Hd1] | Hcf].
      * left. split; [|exact Hd1]. apply (mbind_fault _ _ _ _ _ H1').
      * right. eapply child_fail_cast. exact Hcf.
  - intros B f f' Hf st r fin Hd H. change (mbind get f st) with (f st st) in H.
    change (mbind get f' st) with (f' st st). eapply Hf; eauto.
  - intros n _ st r fin Hd H. left. split; [exact H|]. inversion H; subst. exact Hd.
  - intros w w' e Hw st r fin Hd H. rewrite eval_eq in H.
    destruct (w e st) as [r1 st2] eqn:Hrun. cbn [fst snd] in H.
    destruct (Hw _ _ _ Hd Hrun) as [[Hrun' Hd2] | Hcf].
    + left. rewrite eval_eq, Hrun'. cbn [fst snd].
      destruct (classify r1); inversion H; subst; split; try reflexivity; exact Hd2.
    + destruct (classify r1) as [v|flt] eqn:Hc.
      * apply classify_ok in Hc. subst. exfalso. exact (child_fail_ok _ _ Hcf).
      * apply classify_fault in Hc. subst. inversion H; subst. right. exact Hcf.
Qed.

Lemma sim_walk c : okn S c -> sim value (walk cf fuel c) (mask (walk cf fuel) c).
Proof.
  intros Hq st r fin Hd H.
  destruct (classify r) as [v|flt] eqn:Hc.
  - apply classify_ok in Hc. subst. left. rewrite (mask_depth0 _ _ _ Hd), H. cbn. split; [reflexivity|].
    destruct (walk_frame _ _ _ _ _ _ H) as [H1 _]. congruence.
  - apply classify_fault in Hc. subst. right. exists c, st, flt. repeat split; assumption.
Qed.

Lemma sim_call callee cd : sim value (call_enter (walk cf fuel) callee cd) (call_enter (mask (walk cf fuel)) callee cd).
Proof.
  intros st r fin Hd H. left. rewrite (call_enter_mask _ _ _ _ Hd). split; [exact H|].
  destruct (call_enter_frame _ _ _ _ _ _ _ H) as [H1 _]. congruence.
Qed.

Theorem spine n st r fin :
  okn S n -> depth_ st = 0%nat -> walk cf (Datatypes.S fuel) n st = (r, fin) ->
  walk_body cf (mask (walk cf fuel)) n st = (r, fin) \/ child_fail r fin.
Proof.
  intros Hq Hd H. rewrite walk_S in H.
  destruct (rel_walk_body cf sim (okn S) sim_logic (okn_children S) (okn_synth S)
              (walk cf fuel) (mask (walk cf fuel)) sim_walk sim_call n Hq st r fin Hd H) as [[H1 _] | H1]; auto.
Qed.
End Spine.

(* ------------------------------------------------------------------ *)
(* Part 2: where the register stands when a node fails in its own code *)
Section Own.
Variable cf : cfg.
Variable fuel : nat.
Let wm := mask (walk cf fuel).

(* tight: at depth 0 the computation keeps the register on normal return and when it raises an error *)
Definition E0 {A} (m : M A) : Prop :=
  forall st r fin, depth_ st = 0%nat -> m st = (r, fin) ->
    depth_ fin = 0%nat /\ (forall x, r = Ok x -> cur fin = cur st) /\ (forall e, r = Err e -> cur fin = cur st).
(* an error either leaves the register where it was or is one of the allowed ones *)
Definition EC (a : bstr -> Prop) {A} (m : M A) : Prop :=
  forall st r fin, depth_ st = 0%nat -> m st = (r, fin) ->
    depth_ fin = 0%nat /\ (forall e, r = Err e -> cur fin = cur st \/ a e).
(* loose: only allowed errors *)
Definition EL (a : bstr -> Prop) {A} (m : M A) : Prop :=
  forall st r fin, depth_ st = 0%nat -> m st = (r, fin) ->
    depth_ fin = 0%nat /\ (forall e, r = Err e -> a e).

Lemma of_fault_err_cast {A B} flt e : @of_fault A flt = Err e -> @of_fault B flt = Err e.
Proof. destruct flt; cbn; intros H; inversion H; reflexivity. Qed.

Lemma E0_neutral {A} (m : M A) : neutral m -> E0 m.
Proof. intros Hn st r fin Hd H. destruct (Hn _ _ _ H) as [H1 H2]. repeat split; intros; congruence. Qed.
Lemma E0_bind {A B} (m : M A) (f : A -> M B) : E0 m -> (forall x, E0 (f x)) -> E0 (mbind m f).
Proof.
  intros Hm Hf st r fin Hd Hb.
  destruct (mbind_inv _ _ _ _ _ Hb) as [(x & st1 & H1 & H2) | (e & H1 & ->)].
  - destruct (Hm _ _ _ Hd H1) as (Hd1 & Hok & _). destruct (Hf x _ _ _ Hd1 H2) as (Hd2 & Hok2 & Herr2).
    rewrite <- (Hok x eq_refl). repeat split; auto.
  - destruct (Hm _ _ _ Hd H1) as (Hd1 & Hok & Herr). repeat split; auto.
    + intros x Hx. destruct (of_fault_not_ok _ _ Hx).
    + intros e0 He. apply (Herr e0). eapply of_fault_err_cast; eauto.
Qed.
Lemma E0_get {B} (f : mstate -> M B) : (forall s, E0 (f s)) -> E0 (mbind get f).
Proof. intros Hf st r fin Hd H. change (mbind get f st) with (f st st) in H. eapply Hf; eauto. Qed.

Lemma EC_of_E0 a {A} (m : M A) : E0 m -> EC a m.
Proof. intros H st r fin Hd Hr. destruct (H _ _ _ Hd Hr) as (H1 & _ & H3). split; [exact H1 | intros e He; left; exact (H3 e He)]. Qed.
Lemma EC_of_EL a {A} (m : M A) : EL a m -> EC a m.
Proof. intros H st r fin Hd Hr. destruct (H _ _ _ Hd Hr) as (H1 & H3). split; [exact H1 | intros e He; right; exact (H3 e He)]. Qed.
Lemma EL_weaken (a a' : bstr -> Prop) {A} (m : M A) : (forall e, a e -> a' e) -> EL a m -> EL a' m.
Proof. intros Ha H st r fin Hd Hr. destruct (H _ _ _ Hd Hr) as (H1 & H3). split; [exact H1 | intros e He; exact (Ha e (H3 e He))]. Qed.
Lemma EC_weaken (a a' : bstr -> Prop) {A} (m : M A) : (forall e, a e -> a' e) -> EC a m -> EC a' m.
Proof.
  intros Ha H st r fin Hd Hr. destruct (H _ _ _ Hd Hr) as (H1 & H3). split; [exact H1|].
  intros e He. destruct (H3 e He); auto.
Qed.
Lemma EC_bind_E0 a {A B} (m : M A) (f : A -> M B) : E0 m -> (forall x, EC a (f x)) -> EC a (mbind m f).
Proof.
  intros Hm Hf st r fin Hd Hb.
  destruct (mbind_inv _ _ _ _ _ Hb) as [(x & st1 & H1 & H2) | (e & H1 & ->)].
  - destruct (Hm _ _ _ Hd H1) as (Hd1 & Hok & _). destruct (Hf x _ _ _ Hd1 H2) as (Hd2 & Herr2).
    rewrite <- (Hok x eq_refl). split; auto.
  - destruct (Hm _ _ _ Hd H1) as (Hd1 & _ & Herr). split; auto.
    intros e0 He. left. apply (Herr e0). eapply of_fault_err_cast; eauto.
Qed.
Lemma EC_bind_EL a {A B} (m : M A) (f : A -> M B) : EC a m -> (forall x, EL a (f x)) -> EC a (mbind m f).
Proof.
  intros Hm Hf st r fin Hd Hb.
  destruct (mbind_inv _ _ _ _ _ Hb) as [(x & st1 & H1 & H2) | (e & H1 & ->)].
  - destruct (Hm _ _ _ Hd H1) as (Hd1 & _). destruct (Hf x _ _ _ Hd1 H2) as (Hd2 & Herr2). split; auto.
  - destruct (Hm _ _ _ Hd H1) as (Hd1 & Herr). split; auto.
    intros e0 He. apply (Herr e0). eapply of_fault_err_cast; eauto.
Qed.
Lemma EL_bind a {A B} (m : M A) (f : A -> M B) : EL a m -> (forall x, EL a (f x)) -> EL a (mbind m f).
Proof.
  intros Hm Hf st r fin Hd Hb.
  destruct (mbind_inv _ _ _ _ _ Hb) as [(x & st1 & H1 & H2) | (e & H1 & ->)].
  - destruct (Hm _ _ _ Hd H1) as (Hd1 & _). destruct (Hf x _ _ _ Hd1 H2) as (Hd2 & Herr2). split; auto.
  - destruct (Hm _ _ _ Hd H1) as (Hd1 & Herr). split; auto.
    intros e0 He. apply (Herr e0). eapply of_fault_err_cast; eauto.
Qed.
Lemma EL_ret a {A} (x : A) : EL a (ret x).
Proof. intros st r fin Hd H. inversion H; subst. split; [exact Hd | intros e He; discriminate]. Qed.
Lemma EL_fail (a : bstr -> Prop) {A} e : a e -> EL a (@fail A e).
Proof. intros Ha st r fin Hd H. inversion H; subst. split; [exact Hd | intros e' He; inversion He; subst; exact Ha]. Qed.
Lemma EL_modify a f : (forall st, depth_ (f st) = depth_ st) -> EL a (modify f).
Proof. intros Hf st r fin Hd H. inversion H; subst. split; [rewrite Hf; exact Hd | intros e He; discriminate]. Qed.

(* the masked walker in the entry template: never an error, same depth afterwards *)
Lemma wm_depth c st r fin : wm c st = (r, fin) -> depth_ fin = depth_ st.
Proof.
  intros H. pose proof (mask_state (walk cf fuel) c st) as Hs. fold wm in Hs. rewrite H in Hs. cbn [snd] in Hs.
  destruct (walk cf fuel c st) as [r1 s1] eqn:Hrun. cbn [snd] in Hs. subst.
  destruct (walk_frame _ _ _ _ _ _ Hrun) as [H1 _]. exact H1.
Qed.
Lemma EL_wm a c : EL a (wm c).
Proof.
  intros st r fin Hd H. split; [rewrite (wm_depth _ _ _ _ H); exact Hd|].
  intros e ->. exfalso. exact (mask_never_err _ _ _ _ _ Hd H).
Qed.

Lemma E0_eval e : E0 (eval wm e).
Proof.
  intros st r fin Hd H. rewrite eval_eq in H. destruct (wm e st) as [r1 st2] eqn:Hrun. cbn [fst snd] in H.
  pose proof (wm_depth _ _ _ _ Hrun) as Hd2.
  destruct (classify r1) as [v|flt] eqn:Hc; inversion H; subst.
  - split; [cbn; congruence|]. split; [|intros e0 He; discriminate].
    intros x _. rewrite cur_set_cur. rewrite Hd2, Hd. reflexivity.
  - split; [congruence|]. split.
    + intros x Hx. destruct (of_fault_not_ok _ _ Hx).
    + intros e0 He. apply classify_fault in Hc. subst. exfalso. rewrite He in Hrun. exact (mask_never_err _ _ _ _ _ Hd Hrun).
Qed.

Ltac neu := solve [ auto with neutral | apply neutral_modify; intros; split; reflexivity | apply neutral_bind; [ neu | intro; neu ] ].
Ltac e0 := first [ apply E0_neutral; neu | apply E0_eval ].
Ltac e0_bind := apply E0_bind; [ | intro ].

Lemma E0_evaldef e : E0 (evaldef wm e).
Proof. unfold evaldef. e0_bind; [e0|]. destruct x; e0. Qed.
Lemma E0_eval_list es : E0 (eval_list wm es).
Proof. induction es as [|e l IH]; cbn [eval_list]; [e0|]. e0_bind; [e0|]. e0_bind; [exact IH | e0]. Qed.
Lemma E0_maplit_items l : E0 (maplit_items wm l).
Proof. induction l as [|[k e] r IH]; cbn [maplit_items]; [e0|]. e0_bind; [e0|]. e0_bind; [exact IH | e0]. Qed.
Lemma E0_call_func name args : E0 (call_func wm name args).
Proof.
  unfold call_func. destruct (func_arities name); [|e0]. destruct (negb _); [e0|].
  e0_bind; [apply E0_eval_list|]. e0_bind; [e0|]. destruct x0; e0.
Qed.
Lemma E0_dataref_access acc : forall ref, E0 (dataref_access wm acc ref).
Proof.
  induction acc as [|a rest IH]; intros ref; cbn [dataref_access]; [e0|].
  e0_bind.
  - destruct a; try e0. e0_bind; [e0|]. destruct x; try e0; (e0_bind; [e0 | e0]).
  - destruct x as [oi k]. destruct ref; try e0.
    + destruct (is_nullsafe a); e0.
    + destruct (is_nullsafe a); e0.
    + destruct oi; [apply IH | e0].
    + destruct oi; [e0 | apply IH].
Qed.
Lemma E0_print_dirs l : forall v, E0 (print_dirs cf wm l v).
Proof.
  induction l as [|d r IH]; intros v; cbn [print_dirs]; [e0|].
  destruct d; try e0. destruct (lookup_directive name) as [[arglens ?]|]; [|e0]. destruct (negb _); [e0|].
  e0_bind; [apply E0_eval_list|]. e0_bind; [e0|]. e0_bind; [e0|]. e0_bind; [apply IH | e0].
Qed.
Lemma E0_case_hit sv vs : E0 (case_hit wm sv vs).
Proof. induction vs as [|x r IH]; cbn [case_hit]; [e0|]. e0_bind; [e0|]. destruct (equals sv x0); [e0 | exact IH]. Qed.
Lemma E0_call_data alldata dat : E0 (call_data wm alldata dat).
Proof.
  unfold call_data. apply E0_get. intros c. destruct alldata.
  - destruct (sc_alldata (ctx c)); e0.
  - destruct dat; [|e0]. e0_bind; [e0|]. destruct x; e0.
Qed.
Lemma E0_call_enter callee cd : E0 (call_enter wm callee cd).
Proof.
  intros st r fin Hd H. unfold wm in H. rewrite (call_enter_mask _ _ _ _ Hd) in H.
  destruct (call_enter_frame _ _ _ _ _ _ _ H) as [H1 H2]. repeat split; intros; congruence.
Qed.

(* command-level loops *)
Lemma EL_walk_list ns : EL (fun _ => False) (walk_list wm ns).
Proof. induction ns as [|x l IH]; cbn [walk_list]; [apply EL_ret|]. apply EL_bind; [apply EL_wm | intro; exact IH]. Qed.

Lemma EL_render_block body : EL (fun e => e = e_impossible) (render_block wm body).
Proof.
  unfold render_block. apply EL_bind; [apply EL_modify; reflexivity|]. intros _.
  apply EL_bind; [apply EL_wm|]. intros _.
  intros st r fin Hd H. change (mbind get ?f st) with (f st st) in H. cbv beta in H.
  destruct (bufs st) as [|buf rest].
  - inversion H; subst. split; [exact Hd | intros e He; inversion He; reflexivity].
  - revert st r fin Hd H. change (EL (fun e => e = e_impossible) (_ <-- modify (fun st => set_bufs st rest) ;;; ret (concat_b (rev buf)))).
    apply EL_bind; [apply EL_modify; reflexivity | intros _; apply EL_ret].
Qed.

Lemma EC_if_conds cs : EC (fun _ => False) (if_conds wm cs).
Proof.
  induction cs as [|c0 r IH]; cbn [if_conds]; [apply EC_of_E0; e0|].
  destruct c0; try (apply EC_of_E0; e0).
  destruct cond as [c|].
  - apply EC_bind_E0; [e0|]. intros v. destruct (truthy v); [|exact IH].
    apply EC_of_EL. apply EL_bind; [apply EL_wm | intros _; apply EL_ret].
  - apply EC_of_EL. apply EL_bind; [apply EL_wm | intros _; apply EL_ret].
Qed.

Lemma EL_m_set k v : EL (fun e => e = e_index) (m_set k v).
Proof.
  intros st r fin Hd H. destruct (neutral_m_set k v _ _ _ H) as [H1 _]. split; [congruence|].
  intros e ->. rewrite m_set_eq in H. destruct (ctx st); inversion H; reflexivity.
Qed.

Lemma EL_for_items var body items : forall i, EL (fun e => e = e_index) (for_items wm var body i items).
Proof.
  induction items as [|x r IH]; intros i; cbn [for_items]; [apply EL_ret|].
  apply EL_bind; [apply EL_m_set|]. intros _. apply EL_bind; [apply EL_m_set|]. intros _.
  apply EL_bind; [apply EL_wm | intro; apply IH].
Qed.

Lemma EC_switch_cases sv cs : EC (fun _ => False) (switch_cases wm sv cs).
Proof.
  induction cs as [|c r IH]; cbn [switch_cases]; [apply EC_of_E0; e0|].
  destruct c; try (apply EC_of_E0; e0).
  apply EC_bind_E0; [apply E0_case_hit|]. intros hit.
  destruct (hit || _); [|exact IH]. apply EC_of_EL. apply EL_bind; [apply EL_wm | intros _; apply EL_ret].
Qed.

Lemma EL_eval a e : EL a (eval wm e).
Proof.
  intros st r fin Hd H. destruct (E0_eval e _ _ _ Hd H) as (H1 & _ & _). split; [exact H1|].
  intros e0 ->. exfalso. rewrite eval_eq in H. destruct (wm e st) as [r1 st2] eqn:Hrun. cbn [fst snd] in H.
  destruct (classify r1) as [v|flt] eqn:Hc; inversion H; subst.
  apply classify_fault in Hc. subst. match goal with H : of_fault _ = Err _ |- _ => rewrite H in Hrun end.
  exact (mask_never_err _ _ _ _ _ Hd Hrun).
Qed.

Definition params_err (e : bstr) : Prop := e = e_impossible \/ e = e_unknown.

Lemma EL_call_params ps : forall cd, EL params_err (call_params wm ps cd).
Proof.
  induction ps as [|p r IH]; intros cd; cbn [call_params]; [apply EL_ret|].
  destruct p; try (apply EL_fail; right; reflexivity).
  - apply EL_bind; [apply EL_eval | intro; apply IH].
  - apply EL_bind; [eapply EL_weaken; [|apply EL_render_block]; intros e ->; left; reflexivity | intro; apply IH].
Qed.

(* ---- the own-failure theorem ---- *)
Lemma own_expr_like n st e fin :
  depth_ st = 0%nat -> E0 (walk_node cf wm n) -> walk_body cf wm n st = (Err e, fin) -> cur fin = pos_of n.
Proof.
  intros Hd HE H. unfold walk_body in H.
  change ((_ <-- modify (fun st => set_cur st (pos_of n)) ;;; walk_node cf wm n) st)
    with (walk_node cf wm n (set_cur st (pos_of n))) in H.
  destruct (HE _ _ _ (Hd : depth_ (set_cur st (pos_of n)) = 0%nat) H) as (_ & _ & Herr).
  rewrite (Herr e eq_refl). rewrite cur_set_cur, Hd. reflexivity.
Qed.

Lemma own_ec n a st e fin :
  depth_ st = 0%nat -> EC a (walk_node cf wm n) -> walk_body cf wm n st = (Err e, fin) -> cur fin = pos_of n \/ a e.
Proof.
  intros Hd HE H. unfold walk_body in H.
  change ((_ <-- modify (fun st => set_cur st (pos_of n)) ;;; walk_node cf wm n) st)
    with (walk_node cf wm n (set_cur st (pos_of n))) in H.
  destruct (HE _ _ _ (Hd : depth_ (set_cur st (pos_of n)) = 0%nat) H) as (_ & Herr).
  destruct (Herr e eq_refl) as [Hc|Ha]; [left|right; exact Ha].
  rewrite Hc. rewrite cur_set_cur, Hd. reflexivity.
Qed.

(* containment for the masked unfolding *)
Lemma masked_body_position n st r fin :
  depth_ st = 0%nat -> walk_body cf wm n st = (r, fin) -> In (cur fin) (poss n).
Proof.
  intros Hd H. unfold walk_body in H.
  change ((_ <-- modify (fun st => set_cur st (pos_of n)) ;;; walk_node cf wm n) st)
    with (walk_node cf wm n (set_cur st (pos_of n))) in H.
  set (S := fun p => In p (poss n)).
  assert (Hq : okn S n) by (intros p Hp; exact Hp).
  assert (Hw : forall c, okn S c -> PhiK S value (wm c) (wm c)).
  { intros c Hc s0 r0 s1 H0. pose proof (mask_state (walk cf fuel) c s0) as Hs. fold wm in Hs. rewrite H0 in Hs. cbn [snd] in Hs.
    destruct (walk cf fuel c s0) as [r1 s2] eqn:Hrun. cbn [snd] in Hs. subst s2.
    exact (contain_walk cf S fuel c Hc _ _ _ Hrun). }
  assert (Hcall : forall callee cd, PhiK S value (call_enter wm callee cd) (call_enter wm callee cd)).
  { intros callee cd s0 r0 s1 H0. unfold wm in H0. rewrite call_enter_mask_any in H0.
    destruct (call_enter_frame _ _ _ _ _ _ _ H0) as [H1 H2]. split; [exact H1 | rewrite H2; auto]. }
  destruct (rel_walk_node cf (PhiK S) (okn S) (K_logic S) (okn_children S) (okn_synth S) wm wm Hw Hcall n Hq _ _ _ H) as [_ Hn].
  apply Hn. unfold S. rewrite cur_set_cur, Hd. cbn. apply poss_self.
Qed.

Lemma E0_print_rest v dirs :
  E0 (match v with
      | VUndef => fail e_undefined
      | _ => ds <-- print_dirs cf wm dirs v ;;; s <-- lift (value_string v) ;;; st <-- get ;;;
             ws <-- lift (print_writes (mode st) ds s) ;;; _ <-- write_all ws ;;; ret VUndef
      end).
Proof.
  assert (Hrest : E0 (ds <-- print_dirs cf wm dirs v ;;; s <-- lift (value_string v) ;;; st <-- get ;;;
                      ws <-- lift (print_writes (mode st) ds s) ;;; _ <-- write_all ws ;;; ret VUndef)).
  { e0_bind; [apply E0_print_dirs|]. e0_bind; [e0|]. apply E0_get. intros s. e0_bind; [e0|]. e0_bind; [e0 | e0]. }
  destruct v; try exact Hrest. e0.
Qed.

Lemma own_print p arg dirs st e fin :
  depth_ st = 0%nat -> walk_body cf wm (NPrint p arg dirs) st = (Err e, fin) -> In (cur fin) (poss arg).
Proof.
  intros Hd H. unfold walk_body in H.
  change ((_ <-- modify (fun st => set_cur st (pos_of (NPrint p arg dirs))) ;;; walk_node cf wm (NPrint p arg dirs)) st)
    with (walk_node cf wm (NPrint p arg dirs) (set_cur st p)) in H.
  cbn [walk_node] in H.
  destruct (mbind_inv _ _ _ _ _ H) as [(v & s1 & H1 & H2) | (flt & H1 & He)].
  - pose proof (wm_depth _ _ _ _ H1) as Hd1. cbn in Hd1.
    destruct (E0_print_rest v dirs s1 _ _ (eq_trans Hd1 Hd) H2) as (_ & _ & Herr). rewrite (Herr e eq_refl).
    apply mask_ok in H1. destruct fuel as [|f]; [rewrite walk_O in H1; inversion H1|].
    eapply walk_position_in_subtree; [|exact H1]. exact Hd.
  - exfalso. rewrite <- He in H1. exact (mask_never_err _ _ _ _ _ (Hd : depth_ (set_cur st p) = 0%nat) H1).
Qed.

Lemma own_call p name alldata dat params st e fin :
  depth_ st = 0%nat -> walk_body cf wm (NCall p name alldata dat params) st = (Err e, fin) ->
  cur fin = p \/ params_err e.
Proof.
  intros Hd H. unfold walk_body in H.
  change ((_ <-- modify (fun st => set_cur st (pos_of (NCall p name alldata dat params))) ;;; walk_node cf wm (NCall p name alldata dat params)) st)
    with (walk_node cf wm (NCall p name alldata dat params) (set_cur st p)) in H.
  cbn [walk_node] in H.
  assert (Hd0 : depth_ (set_cur st p) = 0%nat) by exact Hd.
  assert (Hc0 : cur (set_cur st p) = p) by (rewrite cur_set_cur, Hd; reflexivity).
  destruct (find_template _ name) as [callee|].
  2: { inversion H; subst. left. exact Hc0. }
  destruct (mbind_inv _ _ _ _ _ H) as [(cd & s1 & H1 & H2) | (flt & H1 & He)].
  - destruct (E0_call_data alldata dat _ _ _ Hd0 H1) as (Hd1 & _ & _).
    destruct (mbind_inv _ _ _ _ _ H2) as [(cd' & s2 & H3 & H4) | (flt & H3 & He)].
    + destruct (EL_call_params params cd _ _ _ Hd1 H3) as (Hd2 & _).
      change ((_ <-- modify (fun st => set_cur st p) ;;; call_enter wm callee cd') s2)
        with (call_enter wm callee cd' (set_cur s2 p)) in H4.
      destruct (E0_call_enter callee cd' _ _ _ (Hd2 : depth_ (set_cur s2 p) = 0%nat) H4) as (_ & _ & Herr).
      left. rewrite (Herr e eq_refl). rewrite cur_set_cur, Hd2. reflexivity.
    + destruct (EL_call_params params cd _ _ _ Hd1 H3) as (_ & Herr). right. apply Herr.
      eapply of_fault_err_cast. symmetry. exact He.
  - destruct (E0_call_data alldata dat _ _ _ Hd0 H1) as (_ & _ & Herr). left.
    rewrite (Herr e (of_fault_err_cast _ _ (eq_sym He))). exact Hc0.
Qed.

Ltac ec_bind := apply EC_bind_E0; [ | intro ].

Theorem own_failure_position n st e fin :
  depth_ st = 0%nat -> walk_body cf wm n st = (Err e, fin) -> reported_at n e (cur fin).
Proof.
  intros Hd H.
  destruct n;
    try (left; eapply own_expr_like; [exact Hd | | exact H]; cbn [walk_node]; solve [ e0 ]).
  - (* NFunc *) left. eapply own_expr_like; [exact Hd | | exact H]. cbn [walk_node].
    destruct (_ || _); [e0 | apply E0_call_func].
  - (* NListLit *) left. eapply own_expr_like; [exact Hd | | exact H]. cbn [walk_node]. e0_bind; [apply E0_eval_list | e0].
  - (* NMapLit *) left. eapply own_expr_like; [exact Hd | | exact H]. cbn [walk_node]. e0_bind; [apply E0_maplit_items | e0].
  - (* NDataRef *) left. eapply own_expr_like; [exact Hd | | exact H]. cbn [walk_node].
    e0_bind; [|apply E0_dataref_access]. destruct (bstr_eqb key s_ij); [|e0]. destruct (c_ij cf); e0.
  - (* NNot *) left. eapply own_expr_like; [exact Hd | | exact H]. cbn [walk_node]. e0_bind; [e0 | e0].
  - (* NNeg *) left. eapply own_expr_like; [exact Hd | | exact H]. cbn [walk_node]. e0_bind; [apply E0_evaldef|]. destruct x; e0.
  - (* NBin *) left. eapply own_expr_like; [exact Hd | | exact H]. cbn [walk_node].
    destruct op.
    1-5: (e0_bind; [apply E0_evaldef|]; e0_bind; [apply E0_evaldef | e0]).
    1-2: (e0_bind; [e0|]; e0_bind; [e0 | e0]).
    1-4: (e0_bind; [apply E0_evaldef|]; e0_bind; [apply E0_evaldef | e0]).
    + e0_bind; [e0|]. destruct (truthy x); [e0|]. e0_bind; [e0 | e0].
    + e0_bind; [e0|]. destruct (truthy x); [|e0]. e0_bind; [e0 | e0].
    + e0_bind; [e0|]. destruct (is_nullish x); e0.
  - (* NTern *) left. eapply own_expr_like; [exact Hd | | exact H]. cbn [walk_node]. e0_bind; [e0|]. destruct (truthy x); e0.
  - (* NList *)
    assert (HEC : EC (fun _ => False) (walk_node cf wm (NList p nodes))).
    { cbn [walk_node]. apply EC_of_EL. apply EL_bind; [apply EL_modify; reflexivity|]. intros _.
      apply EL_bind; [apply EL_walk_list|]. intros _. apply EL_bind; [apply EL_modify; reflexivity | intros _; apply EL_ret]. }
    destruct (own_ec _ _ _ _ _ Hd HEC H) as [Hc|[]]. left; exact Hc.
  - (* NPrint *) cbn [reported_at]. eapply own_print; eauto.
  - (* NCss *) left. eapply own_expr_like; [exact Hd | | exact H]. cbn [walk_node].
    e0_bind; [|e0_bind; [e0 | e0]]. destruct expr; [|e0]. e0_bind; [e0|]. e0_bind; [e0 | e0].
  - (* NLog *)
    assert (HEC : EC (fun e => e = e_impossible) (walk_node cf wm (NLog p n))).
    { cbn [walk_node]. apply EC_of_EL. apply EL_bind; [apply EL_render_block | intros _; apply EL_ret]. }
    destruct (own_ec _ _ _ _ _ Hd HEC H) as [Hc|He]; [left; exact Hc | right; left; exact He].
  - (* NIf *)
    assert (HEC : EC (fun _ => False) (walk_node cf wm (NIf p conds))) by (cbn [walk_node]; apply EC_if_conds).
    destruct (own_ec _ _ _ _ _ Hd HEC H) as [Hc|[]]. left; exact Hc.
  - (* NFor *)
    assert (HEC : EC (fun e => e = e_index) (walk_node cf wm (NFor p var n1 n2 ifempty))).
    { cbn [walk_node]. ec_bind; [e0|]. destruct x; try (apply EC_of_E0; e0).
      destruct l as [|y l'].
      + destruct ifempty; [|apply EC_of_E0; e0]. apply EC_of_EL. apply EL_bind; [apply EL_wm | intros _; apply EL_ret].
      + ec_bind; [e0|]. ec_bind; [e0|]. apply EC_of_EL.
        apply EL_bind; [apply EL_for_items|]. intros _. apply EL_bind; [apply EL_modify; reflexivity | intros _; apply EL_ret]. }
    destruct (own_ec _ _ _ _ _ Hd HEC H) as [Hc|He]; [left; exact Hc | right; left; exact He].
  - (* NSwitch *)
    assert (HEC : EC (fun _ => False) (walk_node cf wm (NSwitch p n cases))).
    { cbn [walk_node]. ec_bind; [e0 | apply EC_switch_cases]. }
    destruct (own_ec _ _ _ _ _ Hd HEC H) as [Hc|[]]. left; exact Hc.
  - (* NCall *) destruct (own_call _ _ _ _ _ _ _ _ Hd H) as [Hc|He]; [left; exact Hc | right; exact He].
  - (* NLetValue *) left. eapply own_expr_like; [exact Hd | | exact H]. cbn [walk_node]. e0_bind; [e0|]. e0_bind; [e0 | e0].
  - (* NLetContent *)
    assert (HEC : EC (fun e => e = e_index \/ e = e_impossible) (walk_node cf wm (NLetContent p name n))).
    { cbn [walk_node]. apply EC_of_EL.
      apply EL_bind; [eapply EL_weaken; [|apply EL_render_block]; intros e0 ->; right; reflexivity|]. intros s.
      apply EL_bind; [eapply EL_weaken; [|apply EL_m_set]; intros e0 ->; left; reflexivity | intros _; apply EL_ret]. }
    destruct (own_ec _ _ _ _ _ Hd HEC H) as [Hc|He]; [left; exact Hc | right; exact He].
  - (* NMsg *) cbn [reported_at]. eapply masked_body_position; eauto.
  - (* NTemplate *)
    assert (HEC : EC (fun _ => False) (walk_node cf wm (NTemplate p name n autoescape private))).
    { cbn [walk_node]. apply EC_of_EL. apply EL_bind; [apply EL_modify; reflexivity|]. intros _.
      apply EL_bind; [apply EL_wm | intros _; apply EL_ret]. }
    destruct (own_ec _ _ _ _ _ Hd HEC H) as [Hc|[]]. left; exact Hc.
Qed.
End Own.

(* ------------------------------------------------------------------ *)
(* Part 3: the failing path *)
Lemma failing_path_nonempty cf e fin fuel n path : failing_path cf e fin fuel n path -> path <> [].
Proof. destruct 1; discriminate. Qed.

Lemma failing_path_head cf e fin fuel n path : failing_path cf e fin fuel n path -> exists tl, path = n :: tl.
Proof. destruct 1; eexists; reflexivity. Qed.

Lemma last_default {A} (l : list A) d d' : l <> [] -> last l d = last l d'.
Proof.
  induction l as [|x r IH]; [congruence|]. intros _. destruct r as [|y r']; [reflexivity|].
  change (last (x :: y :: r') d) with (last (y :: r') d). change (last (x :: y :: r') d') with (last (y :: r') d').
  apply IH. discriminate.
Qed.

Theorem failing_path_exists cf fuel : forall n e fin,
  walk_fails cf fuel n e fin ->
  exists path, failing_path cf e fin fuel n path /\ reported_at (last path n) e (cur fin).
Proof.
  induction fuel as [|f IH]; intros n e fin (st & Hd & H).
  - rewrite walk_O in H. inversion H.
  - set (S := fun p => In p (poss n)).
    assert (Hq : okn S n) by (intros p Hp; exact Hp).
    destruct (spine cf f S n st _ _ Hq Hd H) as [Hown | (c & s1 & flt & Hc & Hd1 & Hrun & Hflt)].
    + exists [n]. split.
      * apply fp_here. exists st. split; assumption.
      * cbn [last]. eapply own_failure_position; eauto.
    + assert (flt = FErr e) as ->.
      { pose proof (f_equal classify Hflt) as Hcl. rewrite classify_of_fault in Hcl. cbn in Hcl. inversion Hcl. reflexivity. }
      cbn [of_fault] in Hrun.
      destruct (IH c e fin (ex_intro _ s1 (conj Hd1 Hrun))) as (path & Hpath & Hrep).
      exists (n :: path). split.
      * eapply fp_down; [exists st; split; assumption | exact Hc | exact Hpath].
      * destruct (failing_path_head _ _ _ _ _ _ Hpath) as (tl & ->).
        change (last (n :: c :: tl) n) with (last (c :: tl) n).
        rewrite (last_default (c :: tl) n c); [exact Hrep | discriminate].
Qed.

(* every node of the path fails with that error in that state, and lies within the first *)
Lemma failing_path_within cf e fin fuel n path :
  failing_path cf e fin fuel n path -> within (last path n) n.
Proof.
  induction 1 as [f n Hown | f n c path Hf Hw Hp IH].
  - cbn. intros p Hp. exact Hp.
  - destruct (failing_path_head _ _ _ _ _ _ Hp) as (tl & ->).
    change (last (n :: c :: tl) n) with (last (c :: tl) n).
    rewrite (last_default (c :: tl) n c); [|discriminate].
    intros p Hpp. apply Hw. apply IH. exact Hpp.
Qed.

(* ------------------------------------------------------------------ *)
(* a failure inside a called template is reported at the call *)
Theorem position_frozen_in_callee cf fuel n st r st' :
  depth_ st <> 0%nat -> walk cf fuel n st = (r, st') -> cur st' = cur st /\ depth_ st' = depth_ st.
Proof. intros Hd H. destruct (walk_frame _ _ _ _ _ _ H) as [H1 H2]. split; [apply H2; exact Hd | exact H1]. Qed.

Lemma depth_kept_logic : rel_logic (PhiK (fun _ => True)) (okn (fun _ => True)).
Proof. apply K_logic. Qed.

Theorem callee_failure_at_call cf fuel p name alldata dat params callee st cd s2 e fin :
  depth_ st = 0%nat ->
  find_template (r_templates (c_reg cf)) name = Some callee ->
  (cd0 <-- call_data (walk cf fuel) alldata dat ;;; call_params (walk cf fuel) params cd0) (set_cur st p) = (Ok cd, s2) ->
  call_enter (walk cf fuel) callee cd (set_cur s2 p) = (Err e, fin) ->
  walk cf (Datatypes.S fuel) (NCall p name alldata dat params) st = (Err e, fin) /\ cur fin = p /\ depth_ fin = 0%nat.
Proof.
  intros Hd Hfind Hprep Hcallee.
  assert (Hall : forall c : node, okn (fun _ => True) c) by (intros c q _; exact Logic.I).
  assert (Hd2 : depth_ s2 = 0%nat).
  { assert (HK : K (fun _ => True) (cd0 <-- call_data (walk cf fuel) alldata dat ;;; call_params (walk cf fuel) params cd0)).
    { apply (rl_bind _ _ depth_kept_logic _ _ _ (call_data (walk cf fuel) alldata dat) _ (fun cd0 => call_params (walk cf fuel) params cd0)).
      - apply (rel_call_data _ _ depth_kept_logic (walk cf fuel) (walk cf fuel));
          [intros c _; exact (contain_walk cf _ fuel c (Hall c)) | apply Forall_forall; intros; apply Hall].
      - intros cd0. apply (rel_call_params _ _ depth_kept_logic (okn_children _) (walk cf fuel) (walk cf fuel));
          [intros c _; exact (contain_walk cf _ fuel c (Hall c)) | apply Forall_forall; intros; apply Hall]. }
    destruct (HK _ _ _ Hprep) as [H1 _]. rewrite H1. exact Hd. }
  destruct (call_enter_frame _ _ _ _ _ _ _ Hcallee) as [Hdf Hcf].
  split; [|split].
  - rewrite walk_S. unfold walk_body.
    change ((_ <-- modify (fun st => set_cur st (pos_of (NCall p name alldata dat params))) ;;;
             walk_node cf (walk cf fuel) (NCall p name alldata dat params)) st)
      with (walk_node cf (walk cf fuel) (NCall p name alldata dat params) (set_cur st p)).
    cbn [walk_node]. rewrite Hfind.
    rewrite <- mbind_assoc. rewrite (mbind_ok _ _ _ _ _ Hprep).
    change ((_ <-- modify (fun st => set_cur st p) ;;; call_enter (walk cf fuel) callee cd) s2)
      with (call_enter (walk cf fuel) callee cd (set_cur s2 p)). exact Hcallee.
  - rewrite Hcf. rewrite cur_set_cur, Hd2. reflexivity.
  - rewrite Hdf. exact Hd2.
Qed.

(* ------------------------------------------------------------------ *)
(* the statement about [render] *)
Theorem render_error_is_active_command_lemma
    cf fuel name did dat cl bl fid t src file m :
  find_template (r_templates (c_reg cf)) name = Some t ->
  assoc_s name (r_sources (c_reg cf)) = Some src ->
  assoc_s name (r_files (c_reg cf)) = Some file ->
  positions_in_source src (t_node t) ->
  let res := render cf fuel name did dat cl bl fid in
  rr_outcome res = Err m ->
  exists fin path,
    failing_path cf m fin fuel (t_node t) path /\
    within (last path (t_node t)) (t_node t) /\
    reported_at (last path (t_node t)) m (cur fin) /\
    rr_file res = file /\ rr_line res = line_at src (cur fin) /\ 1 <= rr_line res <= lines src.
Proof.
  intros Hfind Hsrc Hfile Hpos res Hres.
  destruct (render_error_in_entry_template_lemma cf fuel name did dat cl bl fid t src file Hfind Hsrc Hfile Hpos)
    as (H1 & H2 & _).
  fold res in H1, H2. specialize (H2 m Hres).
  set (st0 := init_state (sc_enter (new_scope did dat)) (entry_mode (t_ns_autoescape t)) name cl bl fid) in *.
  destruct (walk cf fuel (t_node t) st0) as [r fin] eqn:Hrun. cbn [fst snd] in *. subst r.
  destruct (H1 m eq_refl) as (_ & Hf & n & Hn & Hcur & Hline & Hb).
  assert (Hwf : walk_fails cf fuel (t_node t) m fin) by (exists st0; split; [reflexivity | exact Hrun]).
  destruct (failing_path_exists cf fuel _ _ _ Hwf) as (path & Hpath & Hrep).
  exists fin, path. split; [exact Hpath|]. split; [eapply failing_path_within; eauto|].
  split; [exact Hrep|]. split; [exact Hf|]. rewrite Hcur. split; [exact Hline | exact Hb].
Qed.
