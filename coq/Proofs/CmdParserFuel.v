(* The command-level parser model (Model/Parser.v) is monotone in its budget: a run that does not end in CFuel
   returns the same result under every larger budget (the command-level counterpart of Proofs/ExprParserFuel.v).
   Consequence: a tree obtained under SOME budget is the tree parse.SoyFile's own budget gives, because the
   entry point never runs out of budget (Proofs/ParserProofs.v). *)
From Soy Require Import Model.Bytes Model.Outcome Model.Ast Model.Token Model.RawText Model.ExprParser Model.Parser Generated.Tables
  Proofs.ExprParserFuel.
From Coq Require Import Lia.
Open Scope N_scope.

Definition cle {A} (r r' : cres A) : Prop := r = CFuel \/ r = r'.
Lemma cle_refl {A} (r : cres A) : cle r r. Proof. right. reflexivity. Qed.
Lemma cle_fuel {A} (r : cres A) : cle CFuel r. Proof. left. reflexivity. Qed.
Lemma cle_bind {A B} (x x' : cres A) (k k' : A -> cst -> cres B) :
  cle x x' -> (forall a s, cle (k a s) (k' a s)) -> cle (cbind x k) (cbind x' k').
Proof.
  intros [->| ->] Hk; [left; reflexivity|]. destruct x' as [a s|t c s|m|]; cbn [cbind]; [apply Hk|right; reflexivity|right; reflexivity|left; reflexivity].
Qed.
Lemma cle_ok {A} (r r' : cres A) : cle r r' -> r <> CFuel -> r = r'.
Proof. intros [->| ->] H; [congruence|reflexivity]. Qed.

(* both sides have the same shape: descend through binds, conditionals and matches; [tac] closes the calls of loops *)
Ltac cle_go tac :=
  repeat first
    [ apply cle_refl
    | apply cle_fuel
    | solve [tac]
    | apply cle_bind; [|intros ? ?]
    | match goal with
      | |- cle (if ?c then _ else _) (if ?c then _ else _) => destruct c
      | |- cle (match ?c with _ => _ end) (match ?c with _ => _ end) => destruct c
      end
    | progress cbv zeta ].

Section Fuel.
Variable inlen : N.
Variable lexq : bstr -> list tok.
Variable unq : bstr -> option bstr.
Variable efuel : list tok -> nat.

(* ---- leaf loops ---- *)
Lemma attrs_loop_le : forall f f', (f <= f')%nat -> forall allowed acc s,
  cle (attrs_loop inlen unq f allowed acc s) (attrs_loop inlen unq f' allowed acc s).
Proof.
  induction f as [|f IH]; intros f' Hle allowed acc s; [apply cle_fuel|]. destruct f' as [|f']; [lia|].
  cbn [attrs_loop]. cle_go ltac:(apply IH; lia).
Qed.
Lemma next_non_comment_le : forall f f', (f <= f')%nat -> forall s, cle (next_non_comment f s) (next_non_comment f' s).
Proof.
  induction f as [|f IH]; intros f' Hle s; [apply cle_fuel|]. destruct f' as [|f']; [lia|].
  cbn [next_non_comment]. cle_go ltac:(apply IH; lia).
Qed.
Lemma skip_comments_le : forall f f', (f <= f')%nat -> forall t s, cle (skip_comments f t s) (skip_comments f' t s).
Proof.
  induction f as [|f IH]; intros f' Hle t s; [apply cle_fuel|]. destruct f' as [|f']; [lia|].
  cbn [skip_comments]. cle_go ltac:(apply IH; lia).
Qed.
Lemma text_run_le : forall f f', (f <= f')%nat -> forall t s, cle (text_run f t s) (text_run f' t s).
Proof.
  induction f as [|f IH]; intros f' Hle t s; [apply cle_fuel|]. destruct f' as [|f']; [lia|].
  cbn [text_run]. cle_go ltac:(apply IH; lia).
Qed.
Lemma soydoc_loop_le : forall f f', (f <= f')%nat -> forall pos ps s, cle (soydoc_loop inlen f pos ps s) (soydoc_loop inlen f' pos ps s).
Proof.
  induction f as [|f IH]; intros f' Hle pos ps s; [apply cle_fuel|]. destruct f' as [|f']; [lia|].
  cbn [soydoc_loop]. cle_go ltac:(apply IH; lia).
Qed.
Lemma alias_loop_le : forall f f', (f <= f')%nat -> forall n l s, cle (alias_loop inlen f n l s) (alias_loop inlen f' n l s).
Proof.
  induction f as [|f IH]; intros f' Hle n l s; [apply cle_fuel|]. destruct f' as [|f']; [lia|].
  cbn [alias_loop]. cle_go ltac:(apply IH; lia).
Qed.
Lemma parse_alias_le f f' s : (f <= f')%nat -> cle (parse_alias inlen f s) (parse_alias inlen f' s).
Proof. intros Hle. unfold parse_alias. cle_go ltac:(apply alias_loop_le; lia). Qed.
Lemma dotted_name_le : forall f f', (f <= f')%nat -> forall n s, cle (dotted_name f n s) (dotted_name f' n s).
Proof.
  induction f as [|f IH]; intros f' Hle n s; [apply cle_fuel|]. destruct f' as [|f']; [lia|].
  cbn [dotted_name]. cle_go ltac:(apply IH; lia).
Qed.
Lemma parse_namespace_le f f' t s : (f <= f')%nat -> cle (parse_namespace inlen unq f t s) (parse_namespace inlen unq f' t s).
Proof. intros Hle. unfold parse_namespace. cle_go ltac:(first [apply dotted_name_le; lia|apply attrs_loop_le; lia]). Qed.
Lemma call_name_loop_le : forall f f', (f <= f')%nat -> forall n s, cle (call_name_loop f n s) (call_name_loop f' n s).
Proof.
  induction f as [|f IH]; intros f' Hle n s; [apply cle_fuel|]. destruct f' as [|f']; [lia|].
  cbn [call_name_loop]. cle_go ltac:(apply IH; lia).
Qed.
Lemma call_name_le f f' s : (f <= f')%nat -> cle (call_name f s) (call_name f' s).
Proof. intros Hle. unfold call_name. cle_go ltac:(apply call_name_loop_le; lia). Qed.

(* ---- one level: the procedures over parseExpr [pe] and the itemList one level down [w] ---- *)
Section Level.
Variable pe pe' : N -> cst -> cres node.
Variable w w' : list N -> cst -> cres node.
Variable lf lf' : nat.
Hypothesis Hpe : forall p s, cle (pe p s) (pe' p s).
Hypothesis Hw : forall u s, cle (w u s) (w' u s).
Hypothesis Hlf : (lf <= lf')%nat.

Ltac base := first [apply Hpe | apply Hw | apply attrs_loop_le; lia | apply next_non_comment_le; lia | apply skip_comments_le; lia
                   | apply text_run_le; lia | apply soydoc_loop_le; lia | apply parse_alias_le; lia | apply parse_namespace_le; lia
                   | apply call_name_le; lia ].

Lemma directive_args_le : forall f f', (f <= f')%nat -> forall args s, cle (directive_args pe f args s) (directive_args pe' f' args s).
Proof.
  induction f as [|f IH]; intros f' Hle args s; [apply cle_fuel|]. destruct f' as [|f']; [lia|].
  cbn [directive_args]. cle_go ltac:(first [apply IH; lia|base]).
Qed.
Lemma cmd_print_loop_le : forall f f', (f <= f')%nat -> forall pos e dirs s,
  cle (cmd_print_loop inlen pe lf f pos e dirs s) (cmd_print_loop inlen pe' lf' f' pos e dirs s).
Proof.
  induction f as [|f IH]; intros f' Hle pos e dirs s; [apply cle_fuel|]. destruct f' as [|f']; [lia|].
  cbn [cmd_print_loop]. cle_go ltac:(first [apply IH; lia|apply directive_args_le; lia|base]).
Qed.
Lemma cmd_print_le t s : cle (cmd_print inlen pe lf t s) (cmd_print inlen pe' lf' t s).
Proof. unfold cmd_print. cle_go ltac:(first [apply cmd_print_loop_le; lia|base]). Qed.

Lemma parse_let_le t s : cle (parse_let inlen unq pe w lf t s) (parse_let inlen unq pe' w' lf' t s).
Proof. unfold parse_let. cle_go base. Qed.

Lemma orphan_text_le : forall f f', (f <= f')%nat -> forall t s, cle (orphan_text inlen lf f t s) (orphan_text inlen lf' f' t s).
Proof.
  induction f as [|f IH]; intros f' Hle t s; [apply cle_fuel|]. destruct f' as [|f']; [lia|].
  cbn [orphan_text]. cle_go ltac:(first [apply IH; lia|base]).
Qed.
Lemma param_attr_form_le rec rec' params initial key0 s : (forall ps s0, cle (rec ps s0) (rec' ps s0)) ->
  cle (param_attr_form inlen lexq unq parse_expr efuel w lf rec params initial key0 s)
      (param_attr_form inlen lexq unq parse_expr efuel w' lf' rec' params initial key0 s).
Proof. intros Hrec. unfold param_attr_form. cle_go ltac:(first [apply Hrec|base]). Qed.
Lemma call_params_loop_le : forall f f', (f <= f')%nat -> forall params s,
  cle (call_params_loop inlen lexq unq parse_expr efuel pe w lf f params s) (call_params_loop inlen lexq unq parse_expr efuel pe' w' lf' f' params s).
Proof.
  induction f as [|f IH]; intros f' Hle params s; [apply cle_fuel|]. destruct f' as [|f']; [lia|].
  cbn [call_params_loop].
  cle_go ltac:(first [apply IH; lia|apply orphan_text_le; lia|apply param_attr_form_le; intros; apply IH; lia|base]).
Qed.
Lemma parse_call_le t s : cle (parse_call inlen lexq unq parse_expr efuel pe w lf t s) (parse_call inlen lexq unq parse_expr efuel pe' w' lf' t s).
Proof. unfold parse_call. cle_go ltac:(first [apply call_params_loop_le; lia|apply call_name_loop_le; lia|base]). Qed.

Lemma case_loop_le : forall f f', (f <= f')%nat -> forall t vs s, cle (case_loop inlen pe w f t vs s) (case_loop inlen pe' w' f' t vs s).
Proof.
  induction f as [|f IH]; intros f' Hle t vs s; [apply cle_fuel|]. destruct f' as [|f']; [lia|].
  cbn [case_loop]. cle_go ltac:(first [apply IH; lia|base]).
Qed.
Lemma switch_loop_le : forall f f', (f <= f')%nat -> forall pos endt v cs s,
  cle (switch_loop inlen pe w lf f pos endt v cs s) (switch_loop inlen pe' w' lf' f' pos endt v cs s).
Proof.
  induction f as [|f IH]; intros f' Hle pos endt v cs s; [apply cle_fuel|]. destruct f' as [|f']; [lia|].
  cbn [switch_loop]. cle_go ltac:(first [apply IH; lia|apply case_loop_le; lia|base]).
Qed.
Lemma parse_switch_le t endt s : cle (parse_switch inlen pe w lf t endt s) (parse_switch inlen pe' w' lf' t endt s).
Proof. unfold parse_switch. cle_go ltac:(first [apply switch_loop_le; lia|base]). Qed.
Lemma parse_plural_le t s : cle (parse_plural inlen pe w lf t s) (parse_plural inlen pe' w' lf' t s).
Proof. unfold parse_plural. cle_go ltac:(first [apply parse_switch_le|base]). Qed.
Lemma parse_for_le t s : cle (parse_for inlen pe w t s) (parse_for inlen pe' w' t s).
Proof. unfold parse_for. cle_go base. Qed.
Lemma if_loop_le : forall f f', (f <= f')%nat -> forall pos conds ie s, cle (if_loop inlen pe w f pos conds ie s) (if_loop inlen pe' w' f' pos conds ie s).
Proof.
  induction f as [|f IH]; intros f' Hle pos conds ie s; [apply cle_fuel|]. destruct f' as [|f']; [lia|].
  cbn [if_loop]. cle_go ltac:(first [apply IH; lia|base]).
Qed.
Lemma parse_msg_le t s : cle (parse_msg inlen unq w lf t s) (parse_msg inlen unq w' lf' t s).
Proof. unfold parse_msg. cle_go base. Qed.
Lemma parse_template_le t s : cle (parse_template inlen unq w lf t s) (parse_template inlen unq w' lf' t s).
Proof. unfold parse_template. cle_go base. Qed.
Lemma parse_header_param_le t s : cle (parse_header_param inlen pe t s) (parse_header_param inlen pe' t s).
Proof. unfold parse_header_param. cle_go base. Qed.

Lemma begin_tag_le s : cle (begin_tag inlen lexq unq parse_expr efuel pe w lf s) (begin_tag inlen lexq unq parse_expr efuel pe' w' lf' s).
Proof.
  unfold begin_tag, notmsg.
  cle_go ltac:(first [apply if_loop_le; lia|apply parse_msg_le|apply parse_plural_le|apply parse_for_le|apply parse_switch_le|apply parse_call_le
                     |apply parse_let_le|apply cmd_print_le|apply parse_template_le|apply parse_header_param_le|base]).
Qed.
Lemma text_or_tag_le t until s : cle (text_or_tag inlen lexq unq parse_expr efuel pe w lf t until s) (text_or_tag inlen lexq unq parse_expr efuel pe' w' lf' t until s).
Proof. unfold text_or_tag. cle_go ltac:(first [apply begin_tag_le|base]). Qed.
Lemma item_list_loop_le : forall f f', (f <= f')%nat -> forall until pos acc s,
  cle (item_list_loop inlen lexq unq parse_expr efuel pe w lf f until pos acc s) (item_list_loop inlen lexq unq parse_expr efuel pe' w' lf' f' until pos acc s).
Proof.
  induction f as [|f IH]; intros f' Hle until pos acc s; [apply cle_fuel|]. destruct f' as [|f']; [lia|].
  cbn [item_list_loop]. cle_go ltac:(first [apply IH; lia|apply text_or_tag_le|base]).
Qed.
End Level.

Lemma lift_expr_le f f' p s : (f <= f')%nat -> cle (lift_expr inlen parse_expr f p s) (lift_expr inlen parse_expr f' p s).
Proof.
  intros Hle. unfold lift_expr. destruct (parse_expr_le f f' Hle p (c_p s)) as [->| ->]; [apply cle_fuel|apply cle_refl].
Qed.

Theorem item_list_le : forall f f', (f <= f')%nat -> forall until s,
  cle (item_list inlen lexq unq parse_expr efuel f until s) (item_list inlen lexq unq parse_expr efuel f' until s).
Proof.
  induction f as [|f IH]; intros f' Hle until s; [apply cle_fuel|]. destruct f' as [|f']; [lia|].
  cbn [item_list]. apply item_list_loop_le; [intros; apply lift_expr_le; lia|intros; apply IH; lia|lia|lia].
Qed.

(* a tree under SOME budget is the tree of every budget that does not run out *)
Theorem item_list_agree f f' until s :
  item_list inlen lexq unq parse_expr efuel f until s <> CFuel -> item_list inlen lexq unq parse_expr efuel f' until s <> CFuel ->
  item_list inlen lexq unq parse_expr efuel f until s = item_list inlen lexq unq parse_expr efuel f' until s.
Proof.
  intros H1 H2. destruct (Nat.le_ge_cases f f') as [Hle|Hle].
  - apply cle_ok; [apply item_list_le; exact Hle|exact H1].
  - symmetry. apply cle_ok; [apply item_list_le; exact Hle|exact H2].
Qed.

End Fuel.
