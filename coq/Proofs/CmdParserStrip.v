(* Position independence of the successful runs of the command-level parser model: the leaf loops
   and the first half of Section Level of Model/Parser.v (directive_args ... parse_call). *)
From Soy Require Import Model.Bytes Model.Num Model.Values Model.Outcome Model.Ast Model.Token Model.RawText Model.ExprParser Model.Parser
  Generated.Tables Spec.ExprSyntax Proofs.ExprParserStrip.
From Soy Require Import Proofs.CmdParserStripDefs.
Require Import Lia List.
Import ListNotations.
Open Scope N_scope.

Tactic Notation "cps_nx" hyp(H) ident(t) ident(t') ident(s1) ident(s1') ident(Ht) ident(Hs) :=
  eapply cps_ok_bind; [apply cps_next; exact H|]; intros t t' s1 s1' Ht Hs; cbv beta; cps_tok Ht.
Tactic Notation "cps_ex" hyp(H) ident(t) ident(t') ident(s1) ident(s1') ident(Ht) ident(Hs) :=
  eapply cps_ok_bind; [apply cps_expect; exact H|]; intros t t' s1 s1' Ht Hs; cbv beta; cps_tok Ht.
Ltac cps_node :=
  unfold cps_neq, cps_xeq, cps_leq, cps_xleq in *; cbn [cps_strip strip_pos option_map]; congruence.

Section Leaf.
Variables (inlen inlen' : N) (lexq : bstr -> list tok) (unq : bstr -> option bstr) (efuel : list tok -> nat).
Hypothesis Hefuel : forall ts ts', map strip_tok ts = map strip_tok ts' -> efuel ts = efuel ts'.

Lemma cps_attrs_loop f : forall allowed acc s s', cps_R s s' ->
  cps_ok eq (attrs_loop inlen unq f allowed acc s) (attrs_loop inlen' unq f allowed acc s').
Proof.
  induction f as [|f IH]; intros allowed acc s s' H; cbn [attrs_loop]; [cps_triv|].
  cps_nx H tok tok' s1 s1' Ht Hs1.
  destruct (tis tok pit_Ident).
  - destruct (negb (existsb (bstr_eqb (t_val tok)) allowed)); [cps_triv|].
    cps_ex Hs1 e e' s2 s2' He Hs2.
    cps_ex Hs2 av av' s3 s3' Hav Hs3.
    destruct (unq (t_val av)); [apply IH; exact Hs3 | cps_triv].
  - destruct (tis tok pit_RightDelim || tis tok pit_RightDelimEnd);
      [apply cps_ok_ret; [reflexivity | apply cps_R_backup; exact Hs1] | cps_triv].
Qed.

Lemma cps_parse_autoescape attrs s s' : cps_R s s' ->
  cps_ok eq (parse_autoescape inlen attrs s) (parse_autoescape inlen' attrs s').
Proof.
  intros H. unfold parse_autoescape. destruct (assoc_s _ autoescape_attr_table); [apply cps_ok_ret; [reflexivity|exact H] | cps_triv].
Qed.

Lemma cps_bool_attr attrs key d s s' : cps_R s s' ->
  cps_ok eq (bool_attr inlen attrs key d s) (bool_attr inlen' attrs key d s').
Proof.
  intros H. unfold bool_attr. destruct (attr key attrs) as [v|]; [|apply cps_ok_ret; [reflexivity|exact H]].
  destruct (bstr_eqb v k_true); [apply cps_ok_ret; [reflexivity|exact H]|].
  destruct (bstr_eqb v k_false); [apply cps_ok_ret; [reflexivity|exact H] | cps_triv].
Qed.

Lemma cps_next_non_comment f : forall s s', cps_R s s' -> cps_ok cps_teq (next_non_comment f s) (next_non_comment f s').
Proof.
  induction f as [|f IH]; intros s s' H; cbn [next_non_comment]; [cps_triv|].
  cps_nx H tok tok' s1 s1' Ht Hs1.
  destruct (tis tok pit_Comment); [apply IH; exact Hs1 | apply cps_ok_ret; assumption].
Qed.

Lemma cps_skip_comments f : forall token token' s s', cps_teq token token' -> cps_R s s' ->
  cps_ok cps_teq (skip_comments f token s) (skip_comments f token' s').
Proof.
  induction f as [|f IH]; intros token token' s s' Ht H; cbn [skip_comments]; [cps_triv|].
  cps_tok Ht. destruct (tis token pit_Comment); [|apply cps_ok_ret; assumption].
  cps_nx H t1 t1' s1 s1' Ht1 Hs1. apply IH; assumption.
Qed.

Definition cps_tneq (x x' : bstr * tok) : Prop := fst x = fst x' /\ cps_teq (snd x) (snd x').

Lemma cps_text_run f : forall text s s', cps_R s s' -> cps_ok cps_tneq (text_run f text s) (text_run f text s').
Proof.
  induction f as [|f IH]; intros text s s' H; cbn [text_run]; [cps_triv|].
  cps_nx H nx nx' s1 s1' Ht Hs1.
  destruct (tis nx pit_Text); [apply IH; exact Hs1|]. apply cps_ok_ret; [|exact Hs1]. split; [reflexivity|exact Ht].
Qed.

Lemma cps_soydoc_loop f : forall pos pos' params params' s s', cps_leq params params' -> cps_R s s' ->
  cps_ok cps_neq (soydoc_loop inlen f pos params s) (soydoc_loop inlen' f pos' params' s').
Proof.
  induction f as [|f IH]; intros pos pos' params params' s s' Hl H; cbn [soydoc_loop]; [cps_triv|].
  cps_nx H nx nx' s1 s1' Ht Hs1.
  destruct (tis nx pit_Text); [apply IH; assumption|].
  destruct (tis nx pit_SoyDocOptionalParam || tis nx pit_SoyDocParam).
  { cps_ex Hs1 id id' s2 s2' Hid Hs2. apply IH; [|exact Hs2]. apply cps_leq_app; [exact Hl|]. cps_node. }
  destruct (tis nx pit_SoyDocEnd); [|cps_triv]. apply cps_ok_ret; [|exact Hs1]. cps_node.
Qed.

Lemma cps_alias_loop f : forall name last s s', cps_R s s' ->
  cps_ok eq (alias_loop inlen f name last s) (alias_loop inlen' f name last s').
Proof.
  induction f as [|f IH]; intros name last s s' H; cbn [alias_loop]; [cps_triv|].
  cps_nx H nx nx' s1 s1' Ht Hs1.
  destruct (tis nx pit_DotIdent).
  { eapply cps_ok_bind; [apply cps_tail1; exact Hs1|]. intros seg seg' s2 s2' <- Hs2. apply IH; exact Hs2. }
  destruct (tis nx pit_RightDelim); [|cps_triv]. apply cps_ok_ret; [reflexivity|]. apply cps_R_add_alias; exact Hs1.
Qed.

Lemma cps_parse_alias f s s' : cps_R s s' -> cps_ok eq (parse_alias inlen f s) (parse_alias inlen' f s').
Proof.
  intros H. unfold parse_alias. cps_ex H id id' s1 s1' Hid Hs1. apply cps_alias_loop; exact Hs1.
Qed.

Lemma cps_dotted_name f : forall name s s', cps_R s s' -> cps_ok eq (dotted_name f name s) (dotted_name f name s').
Proof.
  induction f as [|f IH]; intros name s s' H; cbn [dotted_name]; [cps_triv|].
  cps_nx H part part' s1 s1' Ht Hs1.
  destruct (tis part pit_DotIdent); [apply IH; exact Hs1|]. apply cps_ok_ret; [reflexivity|]. apply cps_R_backup; exact Hs1.
Qed.

Lemma cps_parse_namespace f token token' s s' : cps_R s s' ->
  cps_ok cps_neq (parse_namespace inlen unq f token s) (parse_namespace inlen' unq f token' s').
Proof.
  intros H. unfold parse_namespace. rewrite <- (cps_R_ns _ _ H). destruct (c_ns s); [|cps_triv].
  cps_ex H id id' s1 s1' Hid Hs1.
  eapply cps_ok_bind; [apply cps_dotted_name; exact Hs1|]. intros name name' s2 s2' <- Hs2.
  eapply cps_ok_bind; [apply cps_attrs_loop; exact Hs2|]. intros attrs attrs' s3 s3' <- Hs3.
  eapply cps_ok_bind; [apply cps_parse_autoescape; exact Hs3|]. intros ae ae' s4 s4' <- Hs4.
  cps_ex Hs4 r r' s5 s5' Hr Hs5.
  apply cps_ok_ret; [cps_node|]. apply cps_R_set_ns; exact Hs5.
Qed.

(* ---------- Section Level, first half ---------- *)
Section Level.
Variables (pe pe' : N -> cst -> cres node) (w w' : list N -> cst -> cres node) (lf : nat).
Hypothesis Hpe : forall prec s s', cps_R s s' -> cps_ok cps_xeq (pe prec s) (pe' prec s').
Hypothesis Hw : forall until s s', cps_R s s' -> cps_ok cps_neq (w until s) (w' until s').

Lemma cps_directive_args f : forall args args' s s', cps_xleq args args' -> cps_R s s' ->
  cps_ok cps_xleq (directive_args pe f args s) (directive_args pe' f args' s').
Proof.
  induction f as [|f IH]; intros args args' s s' Hl H; cbn [directive_args]; [cps_triv|].
  cps_nx H nx nx' s1 s1' Ht Hs1.
  destruct (tis nx pit_Colon || tis nx pit_Comma).
  - eapply cps_ok_bind; [apply Hpe; exact Hs1|]. intros a a' s2 s2' Ha Hs2.
    apply IH; [|exact Hs2]. apply cps_xleq_app; assumption.
  - apply cps_ok_ret; [exact Hl|]. apply cps_R_backup; exact Hs1.
Qed.

Lemma cps_cmd_print_loop f : forall pos pos' e e' dirs dirs' s s', cps_xeq e e' -> cps_xleq dirs dirs' -> cps_R s s' ->
  cps_ok cps_neq (cmd_print_loop inlen pe lf f pos e dirs s) (cmd_print_loop inlen' pe' lf f pos' e' dirs' s').
Proof.
  induction f as [|f IH]; intros pos pos' e e' dirs dirs' s s' He Hl H; cbn [cmd_print_loop]; [cps_triv|].
  cps_nx H tok tok' s1 s1' Ht Hs1.
  destruct (tis tok pit_RightDelim); [apply cps_ok_ret; [cps_node|exact Hs1]|].
  destruct (tis tok pit_Pipe); [|cps_triv].
  cps_ex Hs1 id id' s2 s2' Hid Hs2.
  eapply cps_ok_bind; [apply cps_directive_args; [apply cps_xleq_nil|exact Hs2]|]. intros args args' s3 s3' Ha Hs3.
  apply IH; [exact He| |exact Hs3]. apply cps_xleq_app; [exact Hl|]. cps_node.
Qed.

Lemma cps_cmd_print token token' s s' : cps_R s s' ->
  cps_ok cps_neq (cmd_print inlen pe lf token s) (cmd_print inlen' pe' lf token' s').
Proof.
  intros H. unfold cmd_print. eapply cps_ok_bind; [apply Hpe; exact H|]. intros e e' s1 s1' He Hs1.
  apply cps_cmd_print_loop; [exact He|apply cps_xleq_nil|exact Hs1].
Qed.

Lemma cps_parse_let token token' s s' : cps_R s s' ->
  cps_ok cps_neq (parse_let inlen unq pe w lf token s) (parse_let inlen' unq pe' w' lf token' s').
Proof.
  intros H. unfold parse_let.
  cps_ex H name name' s1 s1' Hname Hs1.
  eapply cps_ok_bind; [apply cps_peek; exact Hs1|]. intros pk pk' s2 s2' Hpk Hs2. cps_tok Hpk.
  destruct (tis pk pit_Colon).
  - cps_nx Hs2 c c' s3 s3' Hc Hs3.
    eapply cps_ok_bind; [apply Hpe; exact Hs3|]. intros e e' s4 s4' He Hs4.
    eapply cps_ok_bind; [apply cps_tail1; exact Hs4|]. intros nm nm' s5 s5' <- Hs5.
    cps_ex Hs5 r r' s6 s6' Hr Hs6. apply cps_ok_ret; [cps_node|exact Hs6].
  - eapply cps_ok_bind; [apply cps_attrs_loop; exact Hs2|]. intros at_ at' s3 s3' _ Hs3.
    cps_nx Hs3 nx nx' s4 s4' Hnx Hs4.
    destruct (tis nx pit_RightDelim); [|cps_triv].
    eapply cps_ok_bind; [apply Hw; exact Hs4|]. intros body body' s5 s5' Hb Hs5.
    eapply cps_ok_bind; [apply cps_tail1; exact Hs5|]. intros nm nm' s6 s6' <- Hs6.
    cps_ex Hs6 r r' s7 s7' Hr Hs7. apply cps_ok_ret; [cps_node|exact Hs7].
Qed.

Lemma cps_parse_css token token' s s' : cps_R s s' ->
  cps_ok cps_neq (parse_css inlen lexq parse_expr efuel token s) (parse_css inlen' lexq parse_expr efuel token' s').
Proof.
  intros H. unfold parse_css.
  cps_ex H cmd cmd' s1 s1' Hcmd Hs1.
  cps_ex Hs1 r r' s2 s2' Hr Hs2.
  destruct (last_index_of 44 (t_val cmd)) as [i|]; [|apply cps_ok_ret; [cps_node|exact Hs2]].
  eapply cps_ok_bind; [apply cps_quoted; [exact Hefuel|exact Hs2]|]. intros e e' s3 s3' He Hs3.
  apply cps_ok_ret; [cps_node|exact Hs3].
Qed.

Lemma cps_call_name_loop f : forall name s s', cps_R s s' -> cps_ok eq (call_name_loop f name s) (call_name_loop f name s').
Proof.
  induction f as [|f IH]; intros name s s' H; cbn [call_name_loop]; [cps_triv|].
  cps_nx H tk tk' s1 s1' Ht Hs1.
  destruct (tis tk pit_DotIdent); [apply IH; exact Hs1|]. apply cps_ok_ret; [reflexivity|]. apply cps_R_backup; exact Hs1.
Qed.

Lemma cps_call_name s s' : cps_R s s' -> cps_ok eq (call_name lf s) (call_name lf s').
Proof.
  intros H. unfold call_name. cps_nx H tok tok' s1 s1' Ht Hs1.
  destruct (tis tok pit_DotIdent); [apply cps_ok_ret; [reflexivity|exact Hs1]|].
  destruct (tis tok pit_Ident); [|apply cps_ok_ret; [reflexivity|apply cps_R_backup; exact Hs1]].
  cps_nx Hs1 tok2 tok2' s2 s2' Ht2 Hs2.
  destruct (tis tok2 pit_DotIdent); [apply cps_call_name_loop; exact Hs2|].
  apply cps_ok_ret; [reflexivity|]. apply cps_R_backup2; assumption.
Qed.

Lemma cps_orphan_text f : forall initial initial' s s', cps_teq initial initial' -> cps_R s s' ->
  cps_ok cps_teq (orphan_text inlen lf f initial s) (orphan_text inlen' lf f initial' s').
Proof.
  induction f as [|f IH]; intros initial initial' s s' Ht H; cbn [orphan_text]; [cps_triv|].
  cps_tok Ht. destruct (tis initial pit_Text); [|apply cps_ok_ret; assumption].
  destruct (rawtext_run (t_val initial) true true) as [[|x l]| | | | |]; try cps_triv.
  eapply cps_ok_bind; [apply cps_next_non_comment; exact H|]. intros nx nx' s1 s1' Hnx Hs1. apply IH; assumption.
Qed.

Lemma cps_param_attr_form rec rec' params params' initial initial' key0 s s' :
  (forall p p' s s', cps_leq p p' -> cps_R s s' -> cps_ok cps_leq (rec p s) (rec' p' s')) ->
  cps_leq params params' -> cps_R s s' ->
  cps_ok cps_leq (param_attr_form inlen lexq unq parse_expr efuel w lf rec params initial key0 s)
                 (param_attr_form inlen' lexq unq parse_expr efuel w' lf rec' params' initial' key0 s').
Proof.
  intros Hrec Hl H. unfold param_attr_form.
  eapply cps_ok_bind; [apply cps_attrs_loop; exact H|]. intros attrs attrs' s7 s7' <- Hs7.
  eapply cps_ok_bind with (eqa := eq).
  { destruct key0; [|apply cps_ok_ret; [reflexivity|exact Hs7]].
    destruct (attr k_key attrs); [apply cps_ok_ret; [reflexivity|exact Hs7] | cps_triv]. }
  intros key key' s8 s8' <- Hs8.
  destruct (attr k_value attrs) as [vs|].
  - eapply cps_ok_bind; [apply cps_quoted; [exact Hefuel|exact Hs8]|]. intros v v' s9 s9' Hv Hs9.
    cps_ex Hs9 r r' s10 s10' Hr Hs10. apply Hrec; [|exact Hs10]. apply cps_leq_app; [exact Hl|cps_node].
  - cps_ex Hs8 r r' s9 s9' Hr Hs9.
    eapply cps_ok_bind; [apply Hw; exact Hs9|]. intros v v' s10 s10' Hv Hs10.
    cps_ex Hs10 r2 r2' s11 s11' Hr2 Hs11. apply Hrec; [|exact Hs11]. apply cps_leq_app; [exact Hl|cps_node].
Qed.

Lemma cps_call_params_loop f : forall params params' s s', cps_leq params params' -> cps_R s s' ->
  cps_ok cps_leq (call_params_loop inlen lexq unq parse_expr efuel pe w lf f params s)
                 (call_params_loop inlen' lexq unq parse_expr efuel pe' w' lf f params' s').
Proof.
  induction f as [|f IH]; intros params params' s s' Hl H; cbn [call_params_loop]; [cps_triv|].
  eapply cps_ok_bind; [apply cps_next_non_comment; exact H|]. intros i0 i0' s1 s1' Hi0 Hs1.
  eapply cps_ok_bind; [apply cps_orphan_text; assumption|]. intros initial initial' s2 s2' Hin Hs2. cps_tok Hin.
  destruct (negb (tis initial pit_LeftDelim)); [cps_triv|].
  cps_nx Hs2 cmd cmd' s3 s3' Hcmd Hs3.
  destruct (tis cmd pit_CallEnd); [apply cps_ok_ret; [exact Hl|apply cps_R_backup2; assumption]|].
  destruct (negb (tis cmd pit_Param)); [cps_triv|].
  cps_ex Hs3 first first' s4 s4' Hfirst Hs4.
  cps_nx Hs4 tok tok' s5 s5' Htok Hs5.
  destruct (tis tok pit_Colon).
  { eapply cps_ok_bind; [apply Hpe; exact Hs5|]. intros v v' s6 s6' Hv Hs6.
    cps_ex Hs6 r r' s7 s7' Hr Hs7. apply IH; [|exact Hs7]. apply cps_leq_app; [exact Hl|cps_node]. }
  destruct (tis tok pit_RightDelim).
  { eapply cps_ok_bind; [apply Hw; exact Hs5|]. intros v v' s6 s6' Hv Hs6.
    cps_ex Hs6 r r' s7 s7' Hr Hs7. apply IH; [|exact Hs7]. apply cps_leq_app; [exact Hl|cps_node]. }
  destruct (tis tok pit_Ident).
  { apply cps_param_attr_form; [exact IH|exact Hl|apply cps_R_backup; exact Hs5]. }
  destruct (tis tok pit_Equals); [|cps_triv].
  apply cps_param_attr_form; [exact IH|exact Hl|apply cps_R_backup2; assumption].
Qed.

Definition cps_adeq (x x' : bool * option node) : Prop := fst x = fst x' /\ option_map strip_pos (snd x) = option_map strip_pos (snd x').

Lemma cps_parse_call token token' s s' : cps_R s s' ->
  cps_ok cps_neq (parse_call inlen lexq unq parse_expr efuel pe w lf token s)
                 (parse_call inlen' lexq unq parse_expr efuel pe' w' lf token' s').
Proof.
  intros H. unfold parse_call.
  eapply cps_ok_bind; [apply cps_call_name; exact H|]. intros name0 name0' s1 s1' <- Hs1.
  eapply cps_ok_bind; [apply cps_attrs_loop; exact Hs1|]. intros attrs attrs' s2 s2' <- Hs2. cbv zeta.
  destruct (match name0 with [] => attr_or_empty k_name attrs | _ :: _ => name0 end) as [|c0 nm]; [cps_triv|].
  rewrite <- (cps_R_resolve _ _ (c0 :: nm) Hs2).
  eapply cps_ok_bind with (eqa := cps_adeq).
  { destruct (attr k_data attrs) as [d|]; [|apply cps_ok_ret; [split; reflexivity|exact Hs2]].
    destruct (bstr_eqb d k_all); [apply cps_ok_ret; [split; reflexivity|exact Hs2]|].
    eapply cps_ok_bind; [apply cps_quoted; [exact Hefuel|exact Hs2]|]. intros e e' s3 s3' He Hs3.
    apply cps_ok_ret; [|exact Hs3]. split; [reflexivity|]. cbn [snd option_map]. unfold cps_xeq in He. rewrite He. reflexivity. }
  intros ad ad' s3 s3' [Had1 Had2] Hs3.
  cps_nx Hs3 tok tok' s4 s4' Htok Hs4.
  destruct (tis tok pit_RightDelimEnd).
  { apply cps_ok_ret; [|exact Hs4]. unfold cps_neq. cbn [cps_strip map]. rewrite Had1, Had2. reflexivity. }
  destruct (tis tok pit_RightDelim); [|cps_triv].
  eapply cps_ok_bind; [apply cps_call_params_loop; [apply cps_leq_nil|exact Hs4]|]. intros body body' s5 s5' Hb Hs5.
  cps_ex Hs5 r1 r1' s6 s6' Hr1 Hs6.
  cps_ex Hs6 r2 r2' s7 s7' Hr2 Hs7.
  cps_ex Hs7 r3 r3' s8 s8' Hr3 Hs8.
  apply cps_ok_ret; [|exact Hs8]. unfold cps_neq. cbn [cps_strip]. unfold cps_leq in Hb. rewrite Had1, Had2, Hb. reflexivity.
Qed.

End Level.
End Leaf.
