(* C20: data/convert.go's model (Model/Convert.v) against the relational Spec (Spec/ConvertSpec.v). *)
From Coq Require Import Lia ZifyN ZifyBool.
From Soy Require Import Model.Bytes Model.Num Model.Outcome Model.Utf8 Model.Values Model.Convert
  Spec.ConvertSpec Proofs.ValueProofs.
Open Scope N_scope.

(* ================= induction on reflect-shaped values ================= *)

Definition children (g : goval) : list goval :=
  match g with
  | GSlice (Some l) => l
  | GMap (Some m) => map snd m
  | GStruct fs => map (fun fd => snd (snd (snd fd))) fs
  | GPtr (Some g') | GIface (Some g') => [g']
  | _ => []
  end.

Section GovalInd.
  Variable P : goval -> Prop.
  Hypothesis step : forall g, Forall P (children g) -> P g.

  Fixpoint goval_ind' (g : goval) : P g :=
    step g
      (match g return Forall P (children g) with
       | GSlice (Some l) =>
           (fix go (l : list goval) : Forall P l :=
              match l with [] => Forall_nil P | x :: r => Forall_cons x (goval_ind' x) (go r) end) l
       | GMap (Some m) =>
           (fix go (m : list (bstr * goval)) : Forall P (map snd m) :=
              match m with [] => Forall_nil P | kx :: r => Forall_cons (snd kx) (goval_ind' (snd kx)) (go r) end) m
       | GStruct fs =>
           (fix go (fs : list (bstr * (bool * (bool * goval)))) : Forall P (map (fun fd => snd (snd (snd fd))) fs) :=
              match fs with
              | [] => Forall_nil P
              | fd :: r => Forall_cons (snd (snd (snd fd))) (goval_ind' (snd (snd (snd fd)))) (go r)
              end) fs
       | GPtr (Some g') => Forall_cons g' (goval_ind' g') (Forall_nil P)
       | GIface (Some g') => Forall_cons g' (goval_ind' g') (Forall_nil P)
       | _ => Forall_nil P
       end).
End GovalInd.

(* ================= the counter-threading loop ================= *)

Inductive threaded {A B} (f : A -> N -> outcome (option B * N)) : list A -> N -> list B -> N -> Prop :=
| th_nil n : threaded f [] n [] n
| th_cons x r n o n1 ys n2 :
    f x n = Ok (o, n1) -> threaded f r n1 ys n2 ->
    threaded f (x :: r) n (match o with Some y => y :: ys | None => ys end) n2.

Lemma thread_threaded {A B} (f : A -> N -> outcome (option B * N)) l : forall n ys n',
  thread f l n = Ok (ys, n') -> threaded f l n ys n'.
Proof.
  induction l as [|x r IH]; intros n ys n' H; cbn [thread] in H.
  - injection H as <- <-. constructor.
  - apply bind_ok in H as ([o n1] & Hf & H). apply bind_ok in H as ([zs n2] & Hr & H).
    injection H as <- <-. econstructor; [exact Hf | apply IH; exact Hr].
Qed.

(* ================= maps built by successive assignments ================= *)

Lemma assoc_s_map_set_same m k (v : value) : assoc_s k (map_set m k v) = Some v.
Proof.
  induction m as [|[k1 v1] r IH]; cbn [map_set assoc_s].
  - rewrite bstr_eqb_refl. reflexivity.
  - destruct (bstr_eqb k k1) eqn:E; cbn [assoc_s].
    + rewrite bstr_eqb_refl. reflexivity.
    + destruct (bstr_ltb k k1); cbn [assoc_s]; [rewrite bstr_eqb_refl; reflexivity | rewrite E; exact IH].
Qed.

Lemma assoc_s_map_set_other m k q (v : value) : bstr_eqb q k = false -> assoc_s q (map_set m k v) = assoc_s q m.
Proof.
  intros Hq. induction m as [|[k1 v1] r IH]; cbn [map_set assoc_s].
  - rewrite Hq. reflexivity.
  - destruct (bstr_eqb_spec k k1) as [->|Hne]; cbn [assoc_s].
    + rewrite Hq. reflexivity.
    + destruct (bstr_ltb k k1); cbn [assoc_s]; [rewrite Hq; reflexivity|].
      destruct (bstr_eqb q k1); [reflexivity | exact IH].
Qed.

Lemma assoc_s_fold_map_set (kvs : list (bstr * value)) : forall m0 k,
  assoc_s k (fold_left (fun m kv => map_set m (fst kv) (snd kv)) kvs m0) =
  match last_binding k kvs with Some v => Some v | None => assoc_s k m0 end.
Proof.
  induction kvs as [|[k1 v1] r IH]; intros m0 k; cbn [fold_left last_binding fst snd]; [reflexivity|].
  rewrite IH. destruct (last_binding k r); [reflexivity|].
  destruct (bstr_eqb_spec k k1) as [->|Hne].
  - apply assoc_s_map_set_same.
  - apply assoc_s_map_set_other. destruct (bstr_eqb_spec k k1); congruence.
Qed.

Lemma assoc_s_build_map kvs k : assoc_s k (build_map kvs) = last_binding k kvs.
Proof. unfold build_map. rewrite assoc_s_fold_map_set. destruct (last_binding k kvs); reflexivity. Qed.

(* corresponding entry lists have corresponding last bindings *)
Lemma last_binding_rel {A B} (R : A -> B -> Prop) (l : list (bstr * A)) (l' : list (bstr * B)) k :
  Forall2 (fun a c => fst a = fst c /\ R (snd a) (snd c)) l l' ->
  match last_binding k l with
  | Some x => exists y, last_binding k l' = Some y /\ R x y
  | None => last_binding k l' = None
  end.
Proof.
  induction 1 as [|[k1 x] [k2 y] l l' [Hk HR] _ IH]; cbn [last_binding]; [reflexivity|].
  cbn [fst snd] in Hk, HR. subst k2.
  destruct (last_binding k l) as [x0|].
  - destruct IH as (y0 & -> & HR0). eauto.
  - rewrite IH. destruct (bstr_eqb k k1); eauto.
Qed.

(* ================= field names ================= *)

Lemma drop_skipn n (s : bstr) : drop n s = skipn n s.
Proof. revert s; induction n as [|n IH]; intros [|a s]; cbn; auto. Qed.

Lemma to_lower_spec_lower hi r : to_lower hi r = spec_lower hi r.
Proof.
  unfold to_lower, spec_lower, ascii_to_lower.
  destruct (N.ltb_spec r 128), (N.ltb_spec r 65), (N.leb_spec r 90), (N.leb_spec 65 r); cbn; try reflexivity; lia.
Qed.

Lemma field_key_spec_key lc hi name : field_key lc hi name = spec_key lc hi name.
Proof.
  unfold field_key, spec_key, lower_camel_key, lowered_name. destruct lc; [|reflexivity].
  destruct (decode_rune name) as [r w]. cbn [fst snd]. rewrite to_lower_spec_lower, drop_skipn. reflexivity.
Qed.

Lemma wrap64_small z : (0 <= z < two63)%Z -> wrap64 z = z.
Proof. intros H. unfold wrap64. rewrite Z.mod_small; unfold two63, two64 in *; lia. Qed.

Lemma wrap64_big z : (two63 <= z < two64)%Z -> wrap64 z = (z - two64)%Z.
Proof.
  intros H. unfold wrap64.
  replace (z + two63)%Z with ((z - two63) + 1 * two64)%Z by (unfold two63, two64; lia).
  rewrite Z.mod_add by (unfold two64; lia). rewrite Z.mod_small; unfold two63, two64 in *; lia.
Qed.

(* ================= convert_shape ================= *)

Section Shape.
  Variable lc : bool.
  Variable hi : N -> N.

  Notation conv := (conv lc hi).
  Notation converts := (converts lc hi).

  Definition shape_at (g : goval) : Prop :=
    uints_fit g = true -> forall ctx n v n', conv ctx g n = Ok (v, n') -> converts g v.

  Lemma forallb_Forall {A} (p : A -> bool) l : forallb p l = true -> Forall (fun x => p x = true) l.
  Proof. rewrite forallb_forall, Forall_forall. auto. Qed.

  Theorem conv_shape : forall g, shape_at g.
  Proof.
    apply goval_ind'. intros g IH Hfit ctx n v n' H.
    destruct g as [|x|w z|w z|w f|s|s|[l|]|[m|]|cnt|fs|[g'|]|[g'|]|mv|ev|]; cbn [conv] in H.
    - injection H as <- <-. constructor.
    - injection H as <- <-. constructor.
    - injection H as <- <-. constructor.
    - injection H as <- <-. cbn [uints_fit] in Hfit. rewrite wrap64_small by lia. constructor.
    - injection H as <- <-. constructor.
    - injection H as <- <-. constructor.
    - injection H as <- <-. constructor.
    - (* slice *)
      cbn [children] in IH. cbn [uints_fit] in Hfit. apply forallb_Forall in Hfit.
      destruct (match l with [] => (zerobase_id, n) | _ :: _ => (n, n + 1) end) as [id n1].
      apply bind_ok in H as ([vs n2] & Ht & H). injection H as <- <-.
      constructor. apply thread_threaded in Ht.
      clear - IH Hfit Ht. induction Ht as [|x r k o k1 ys k2 Hf _ IHt]; [constructor|].
      inversion IH as [|? ? IHx IHr]; subst. inversion Hfit as [|? ? Fx Fr]; subst.
      apply bind_ok in Hf as ([v k'] & Hc & Hf). injection Hf as <- <-.
      constructor; [eapply IHx; eassumption | apply IHt; assumption].
    - injection H as <- <-. constructor.
    - (* map *)
      cbn [children] in IH. cbn [uints_fit] in Hfit. apply forallb_Forall in Hfit.
      apply bind_ok in H as ([kvs n2] & Ht & H). injection H as <- <-.
      apply thread_threaded in Ht.
      assert (HF : Forall2 (fun a c => fst a = fst c /\ converts (snd a) (snd c)) m kvs).
      { clear - IH Hfit Ht. induction Ht as [|kx r k o k1 ys k2 Hf _ IHt]; [constructor|].
        cbn [map] in IH. inversion IH as [|? ? IHx IHr]; subst. inversion Hfit as [|? ? Fx Fr]; subst.
        apply bind_ok in Hf as ([v k'] & Hc & Hf). injection Hf as <- <-.
        constructor; [split; [reflexivity | eapply IHx; eassumption] | apply IHt; assumption]. }
      constructor.
      + intros k g Hk. pose proof (last_binding_rel converts m kvs k HF) as HL. rewrite Hk in HL.
        destruct HL as (y & Hy & HR). exists y. rewrite assoc_s_build_map. auto.
      + intros k Hk. pose proof (last_binding_rel converts m kvs k HF) as HL. rewrite Hk in HL.
        rewrite assoc_s_build_map. exact HL.
    - injection H as <- <-. constructor.
    - destruct (N.eqb_spec cnt 0) as [->|]; [|discriminate]. injection H as <- <-. constructor.
    - (* struct *)
      cbn [children] in IH. cbn [uints_fit] in Hfit. apply forallb_Forall in Hfit.
      apply bind_ok in H as ([kvs n2] & Ht & H). injection H as <- <-.
      apply thread_threaded in Ht.
      assert (HF : Forall2 (fun a c => fst a = fst c /\ converts (snd a) (snd c)) (struct_entries lc hi fs) kvs).
      { clear - IH Hfit Ht. unfold struct_entries.
        induction Ht as [|fd r k o k1 ys k2 Hf _ IHt]; [constructor|].
        cbn [map] in IH. inversion IH as [|? ? IHx IHr]; subst. inversion Hfit as [|? ? Fx Fr]; subst.
        cbn [filter]. destruct (fst (snd fd)).
        - apply bind_ok in Hf as ([v k'] & Hc & Hf). injection Hf as <- <-. cbn [map].
          constructor; [split; [cbn [fst]; symmetry; apply field_key_spec_key | eapply IHx; eassumption] | apply IHt; assumption].
        - injection Hf as <- <-. apply IHt; assumption. }
      constructor.
      + intros k g Hk. pose proof (last_binding_rel converts _ kvs k HF) as HL. rewrite Hk in HL.
        destruct HL as (y & Hy & HR). exists y. rewrite assoc_s_build_map. auto.
      + intros k Hk. pose proof (last_binding_rel converts _ kvs k HF) as HL. rewrite Hk in HL.
        rewrite assoc_s_build_map. exact HL.
    - cbn [children] in IH. inversion IH as [|? ? IHx _]; subst. constructor. eapply IHx; eassumption.
    - injection H as <- <-. constructor.
    - cbn [children] in IH. inversion IH as [|? ? IHx _]; subst. constructor. eapply IHx; eassumption.
    - injection H as <- <-. constructor.
    - destruct ctx; try discriminate; injection H as <- <-; constructor.
    - destruct ctx; try discriminate; injection H as <- <-; constructor.
    - discriminate.
  Qed.
End Shape.

Theorem convert_shape hi lc g v : uints_fit g = true -> convert_with hi lc g = Ok v -> converts lc hi g v.
Proof.
  unfold convert_with. intros Hfit H. apply bind_ok in H as ([v0 n'] & Hc & H). injection H as <-.
  eapply conv_shape; eassumption.
Qed.

(* the full statement (without the guard) is false: an unsigned integer >= 2^63 *)
Theorem convert_shape_refuted hi lc :
  exists g v, convert_with hi lc g = Ok v /\ ~ converts lc hi g v.
Proof.
  exists (GUint 64 two63), (VInt (- two63)). split; [reflexivity|].
  intros H. inversion H.
Qed.

(* what happens to them, exactly *)
Theorem convert_uint_wraps hi lc w z : (two63 <= z < two64)%Z ->
  convert_with hi lc (GUint w z) = Ok (VInt (z - two64)).
Proof. intros H. unfold convert_with. cbn. rewrite wrap64_big by assumption. reflexivity. Qed.

(* ================= idempotence ================= *)

(* NewWith on a data.Value returns that value: converting the result of a conversion again
   returns it unchanged (same structure, same identities) and allocates nothing *)
Theorem conv_value_id lc hi v n : conv lc hi CSlot (GValue v) n = Ok (v, n).
Proof. reflexivity. Qed.

Theorem convert_idempotent hi lc g v :
  convert_with hi lc g = Ok v -> forall lc', convert_with hi lc' (GValue v) = Ok v.
Proof. intros _ lc'. reflexivity. Qed.

(* ================= lowerCamel ================= *)

Ltac Zify.zify_post_hook ::= Z.to_euclidean_division_equations.

Ltac decide_ifs :=
  repeat match goal with
         | |- context [if ?c then _ else _] =>
             first [ replace c with true by (symmetry; lia) | replace c with false by (symmetry; lia) ]
         end.

(* an ASCII first letter: A-Z gain 32, everything else stays; the rest of the name is untouched *)
Theorem lower_camel_ascii hi c rest : c < 128 ->
  lower_camel_key hi (c :: rest) = (if (65 <=? c) && (c <=? 90) then c + 32 else c) :: rest.
Proof.
  intros Hc. unfold lower_camel_key, decode_rune.
  replace (c <? 128) with true by (symmetry; lia).
  unfold to_lower, ascii_to_lower. replace (c <? 128) with true by (symmetry; lia).
  cbn [drop]. unfold encode_rune.
  destruct ((65 <=? c) && (c <=? 90)) eqn:E.
  - replace (c + 32 <? 128) with true by (symmetry; lia). reflexivity.
  - replace (c <? 128) with true by (symmetry; lia). reflexivity.
Qed.

Definition valid_rune (r : N) : Prop := r < 1114112 /\ ~ (55296 <= r <= 57343).

Lemma drop_app (e rest : bstr) : drop (List.length e) (e ++ rest) = rest.
Proof. induction e; cbn; auto. Qed.

(* utf8.DecodeRune inverts utf8.EncodeRune on every valid code point *)
Lemma decode_encode_rune r rest : valid_rune r ->
  decode_rune (encode_rune r ++ rest) = (r, List.length (encode_rune r)).
Proof.
  intros [Hr Hs]. unfold encode_rune.
  destruct (N.ltb_spec r 128); [cbn [app]; unfold decode_rune; decide_ifs; reflexivity|].
  destruct (N.ltb_spec r 2048).
  { cbn [app List.length]. unfold decode_rune, in_range, is_cont, in_range. decide_ifs. f_equal. lia. }
  replace (in_range 55296 57343 r || (1114111 <? r)) with false by (unfold in_range; symmetry; lia).
  destruct (N.ltb_spec r 65536).
  { cbn [app List.length]. unfold decode_rune, in_range, is_cont, in_range.
    destruct (N.eqb_spec (224 + r / 4096) 224), (N.eqb_spec (224 + r / 4096) 237); decide_ifs; f_equal; lia. }
  cbn [app List.length]. unfold decode_rune, in_range, is_cont, in_range.
  destruct (N.eqb_spec (240 + r / 262144) 240), (N.eqb_spec (240 + r / 262144) 244); decide_ifs; f_equal; lia.
Qed.

(* a name that starts with the code point r (any script): r is lowered with unicode.ToLower,
   re-encoded, and the rest of the name is untouched *)
Theorem lower_camel_rune hi r rest : valid_rune r ->
  lower_camel_key hi (encode_rune r ++ rest) = encode_rune (to_lower hi r) ++ rest.
Proof.
  intros Hv. unfold lower_camel_key. rewrite (decode_encode_rune r rest Hv), drop_app. reflexivity.
Qed.

(* with the option off the name is kept *)
Theorem field_key_off hi name : field_key false hi name = name.
Proof. reflexivity. Qed.
