(* C20: data/convert.go's model (Model/Convert.v) against the relational Spec (Spec/ConvertSpec.v). *)
From Coq Require Import Lia ZifyN ZifyBool.
From Soy Require Import Model.Bytes Model.Num Model.Outcome Model.Utf8 Model.Values Model.Convert
  Spec.ConvertSpec Proofs.ValueProofs.
Open Scope N_scope.

(* ================= induction on reflect-shaped values ================= *)

Definition children (g : goval) : list goval :=
  match g with
  | GSlice (Some l) => l
  | GMap (Some m) => map snd m
  | GStruct fs => map (fun fd => snd (snd (snd fd))) fs
  | GPtr (Some g') | GIface (Some g') => [g']
  | GMarshal _ u => [u]
  | _ => []
  end.

Section GovalInd.
  Variable P : goval -> Prop.
  Hypothesis step : forall g, Forall P (children g) -> P g.

  Fixpoint goval_ind' (g : goval) : P g :=
    step g
      (match g return Forall P (children g) with
       | GSlice (Some l) =>
           (fix go (l : list goval) : Forall P l :=
              match l with [] => Forall_nil P | x :: r => Forall_cons x (goval_ind' x) (go r) end) l
       | GMap (Some m) =>
           (fix go (m : list (bstr * goval)) : Forall P (map snd m) :=
              match m with [] => Forall_nil P | kx :: r => Forall_cons (snd kx) (goval_ind' (snd kx)) (go r) end) m
       | GStruct fs =>
           (fix go (fs : list (bstr * (bool * (bool * goval)))) : Forall P (map (fun fd => snd (snd (snd fd))) fs) :=
              match fs with
              | [] => Forall_nil P
              | fd :: r => Forall_cons (snd (snd (snd fd))) (goval_ind' (snd (snd (snd fd)))) (go r)
              end) fs
       | GPtr (Some g') => Forall_cons g' (goval_ind' g') (Forall_nil P)
       | GIface (Some g') => Forall_cons g' (goval_ind' g') (Forall_nil P)
       | GMarshal _ u => Forall_cons u (goval_ind' u) (Forall_nil P)
       | _ => Forall_nil P
       end).
End GovalInd.

(* ================= the counter-threading loop ================= *)

Inductive threaded {A B} (f : A -> N -> outcome (option B * N)) : list A -> N -> list B -> N -> Prop :=
| th_nil n : threaded f [] n [] n
| th_cons x r n o n1 ys n2 :
    f x n = Ok (o, n1) -> threaded f r n1 ys n2 ->
    threaded f (x :: r) n (match o with Some y => y :: ys | None => ys end) n2.

Lemma thread_threaded {A B} (f : A -> N -> outcome (option B * N)) l : forall n ys n',
  thread f l n = Ok (ys, n') -> threaded f l n ys n'.
Proof.
  induction l as [|x r IH]; intros n ys n' H; cbn [thread] in H.
  - injection H as <- <-. constructor.
  - apply bind_ok in H as ([o n1] & Hf & H). apply bind_ok in H as ([zs n2] & Hr & H).
    injection H as <- <-. econstructor; [exact Hf | apply IH; exact Hr].
Qed.

(* ================= maps built by successive assignments ================= *)

Lemma assoc_s_map_set_same m k (v : value) : assoc_s k (map_set m k v) = Some v.
Proof.
  induction m as [|[k1 v1] r IH]; cbn [map_set assoc_s].
  - rewrite bstr_eqb_refl. reflexivity.
  - destruct (bstr_eqb k k1) eqn:E; cbn [assoc_s].
    + rewrite bstr_eqb_refl. reflexivity.
    + destruct (bstr_ltb k k1); cbn [assoc_s]; [rewrite bstr_eqb_refl; reflexivity | rewrite E; exact IH].
Qed.

Lemma assoc_s_map_set_other m k q (v : value) : bstr_eqb q k = false -> assoc_s q (map_set m k v) = assoc_s q m.
Proof.
  intros Hq. induction m as [|[k1 v1] r IH]; cbn [map_set assoc_s].
  - rewrite Hq. reflexivity.
  - destruct (bstr_eqb_spec k k1) as [->|Hne]; cbn [assoc_s].
    + rewrite Hq. reflexivity.
    + destruct (bstr_ltb k k1); cbn [assoc_s]; [rewrite Hq; reflexivity|].
      destruct (bstr_eqb q k1); [reflexivity | exact IH].
Qed.

Lemma assoc_s_fold_map_set (kvs : list (bstr * value)) : forall m0 k,
  assoc_s k (fold_left (fun m kv => map_set m (fst kv) (snd kv)) kvs m0) =
  match last_binding k kvs with Some v => Some v | None => assoc_s k m0 end.
Proof.
  induction kvs as [|[k1 v1] r IH]; intros m0 k; cbn [fold_left last_binding fst snd]; [reflexivity|].
  rewrite IH. destruct (last_binding k r); [reflexivity|].
  destruct (bstr_eqb_spec k k1) as [->|Hne].
  - apply assoc_s_map_set_same.
  - apply assoc_s_map_set_other. destruct (bstr_eqb_spec k k1); congruence.
Qed.

Lemma assoc_s_build_map kvs k : assoc_s k (build_map kvs) = last_binding k kvs.
Proof. unfold build_map. rewrite assoc_s_fold_map_set. destruct (last_binding k kvs); reflexivity. Qed.

(* corresponding entry lists have corresponding last bindings *)
Lemma last_binding_rel {A B} (R : A -> B -> Prop) (l : list (bstr * A)) (l' : list (bstr * B)) k :
  Forall2 (fun a c => fst a = fst c /\ R (snd a) (snd c)) l l' ->
  match last_binding k l with
  | Some x => exists y, last_binding k l' = Some y /\ R x y
  | None => last_binding k l' = None
  end.
Proof.
  induction 1 as [|[k1 x] [k2 y] l l' [Hk HR] _ IH]; cbn [last_binding]; [reflexivity|].
  cbn [fst snd] in Hk, HR. subst k2.
  destruct (last_binding k l) as [x0|].
  - destruct IH as (y0 & -> & HR0). eauto.
  - rewrite IH. destruct (bstr_eqb k k1); eauto.
Qed.

(* ================= field names ================= *)

Lemma drop_skipn n (s : bstr) : drop n s = skipn n s.
Proof. revert s; induction n as [|n IH]; intros [|a s]; cbn; auto. Qed.

Lemma to_lower_spec_lower hi r : to_lower hi r = spec_lower hi r.
Proof.
  unfold to_lower, spec_lower, ascii_to_lower.
  destruct (N.ltb_spec r 128), (N.ltb_spec r 65), (N.leb_spec r 90), (N.leb_spec 65 r); cbn; try reflexivity; lia.
Qed.

Lemma field_key_spec_key lc hi name : field_key lc hi name = spec_key lc hi name.
Proof.
  unfold field_key, spec_key, lower_camel_key, lowered_name. destruct lc; [|reflexivity].
  destruct (decode_rune name) as [r w]. cbn [fst snd]. rewrite to_lower_spec_lower, drop_skipn. reflexivity.
Qed.

(* ================= unsigned integers above MaxInt64 ================= *)

Lemma strip2_value p : forall e q e', (0 <= e)%Z -> strip2 p e = (q, e') ->
  (e <= e')%Z /\ (Zpos q * 2 ^ e' = Zpos p * 2 ^ e)%Z.
Proof.
  induction p as [p IH|p IH|]; intros e q e' He H; cbn [strip2] in H.
  - injection H as <- <-. split; [lia | reflexivity].
  - apply IH in H; [|lia]. destruct H as [Hle Hv]. split; [lia|].
    rewrite Hv. replace (e + 1)%Z with (Z.succ e) by lia. rewrite Z.pow_succ_r by lia.
    change (Z.pos p~0) with (2 * Z.pos p)%Z. lia.
  - injection H as <- <-. split; [lia | reflexivity].
Qed.

(* float64(u) is within half a unit in the last place (2^10) of u, hence within relative error 2^-53 *)
Lemma float_of_big_uint_near z : (two63 <= z)%Z ->
  exists m e, float_of_big_uint z = FFin m e /\ (0 <= e)%Z /\ (Z.abs (m * 2 ^ e - z) * two53 <= z)%Z.
Proof.
  intros Hz. unfold float_of_big_uint.
  pose proof (Z.div_mod z 2048 ltac:(lia)) as Hdm.
  pose proof (Z.mod_pos_bound z 2048 ltac:(lia)) as Hr.
  set (q := (z / 2048)%Z) in *. set (r := (z mod 2048)%Z) in *.
  assert (Hq : (two63 / 2048 <= q)%Z) by (unfold q; apply Z.div_le_mono; lia).
  change (two63 / 2048)%Z with 4503599627370496%Z in Hq.
  set (q' := (if r <? 1024 then q else if 1024 <? r then q + 1 else if Z.even q then q else q + 1)%Z).
  assert (Hq' : (0 < q' /\ Z.abs (q' * 2048 - z) <= 1024)%Z).
  { unfold q'. destruct (Z.ltb_spec r 1024); [lia|]. destruct (Z.ltb_spec 1024 r); [lia|].
    destruct (Z.even q); lia. }
  destruct Hq' as [Hpos Hnear]. destruct q' as [|p|p]; try lia.
  destruct (strip2 p 11) as [m e] eqn:Hs.
  apply strip2_value in Hs; [|lia]. destruct Hs as [He Hv].
  exists (Zpos m), e. split; [reflexivity|]. split; [lia|].
  rewrite Hv. change (2 ^ 11)%Z with 2048%Z. unfold two53, two63 in *. lia.
Qed.

(* ================= convert_shape ================= *)

Section Shape.
  Variable lc : bool.
  Variable hi : N -> N.

  Notation conv := (conv lc hi).
  Notation converts := (converts lc hi).

  Definition shape_at (g : goval) : Prop :=
    forall ctx n v n', conv ctx g n = Ok (v, n') -> converts g v.

  Theorem conv_shape : forall g, shape_at g.
  Proof.
    apply goval_ind'. intros g IH ctx n v n' H.
    destruct g as [|x|w z|w z|w f|s|s|[l|]|[m|]|cnt|fs|[g'|]|mar|[g'|]|mv u|ev|]; cbn [conv] in H.
    - injection H as <- <-. constructor.
    - injection H as <- <-. constructor.
    - injection H as <- <-. constructor.
    - (* unsigned *)
      destruct (Z.ltb_spec z two63) as [Hlt|Hge].
      + injection H as <- <-. constructor. exact Hlt.
      + injection H as <- <-. destruct (float_of_big_uint_near z Hge) as (m & e & -> & He & Hn).
        constructor; assumption.
    - injection H as <- <-. constructor.
    - injection H as <- <-. constructor.
    - injection H as <- <-. constructor.
    - (* slice *)
      cbn [children] in IH.
      destruct (match l with [] => (zerobase_id, n) | _ :: _ => (n, n + 1) end) as [id n1].
      apply bind_ok in H as ([vs n2] & Ht & H). injection H as <- <-.
      constructor. apply thread_threaded in Ht.
      clear - IH Ht. induction Ht as [|x r k o k1 ys k2 Hf _ IHt]; [constructor|].
      inversion IH as [|? ? IHx IHr]; subst.
      apply bind_ok in Hf as ([v k'] & Hc & Hf). injection Hf as <- <-.
      constructor; [eapply IHx; eassumption | apply IHt; assumption].
    - injection H as <- <-. constructor.
    - (* map *)
      cbn [children] in IH.
      apply bind_ok in H as ([kvs n2] & Ht & H). injection H as <- <-.
      apply thread_threaded in Ht.
      assert (HF : Forall2 (fun a c => fst a = fst c /\ converts (snd a) (snd c)) m kvs).
      { clear - IH Ht. induction Ht as [|kx r k o k1 ys k2 Hf _ IHt]; [constructor|].
        cbn [map] in IH. inversion IH as [|? ? IHx IHr]; subst.
        apply bind_ok in Hf as ([v k'] & Hc & Hf). injection Hf as <- <-.
        constructor; [split; [reflexivity | eapply IHx; eassumption] | apply IHt; assumption]. }
      constructor.
      + intros k g Hk. pose proof (last_binding_rel converts m kvs k HF) as HL. rewrite Hk in HL.
        destruct HL as (y & Hy & HR). exists y. rewrite assoc_s_build_map. auto.
      + intros k Hk. pose proof (last_binding_rel converts m kvs k HF) as HL. rewrite Hk in HL.
        rewrite assoc_s_build_map. exact HL.
    - injection H as <- <-. constructor.
    - destruct (N.eqb_spec cnt 0) as [->|]; [|discriminate]. injection H as <- <-. constructor.
    - (* struct *)
      cbn [children] in IH.
      apply bind_ok in H as ([kvs n2] & Ht & H). injection H as <- <-.
      apply thread_threaded in Ht.
      assert (HF : Forall2 (fun a c => fst a = fst c /\ converts (snd a) (snd c)) (struct_entries lc hi fs) kvs).
      { clear - IH Ht. unfold struct_entries.
        induction Ht as [|fd r k o k1 ys k2 Hf _ IHt]; [constructor|].
        cbn [map] in IH. inversion IH as [|? ? IHx IHr]; subst.
        cbn [filter]. destruct (fst (snd fd)).
        - apply bind_ok in Hf as ([v k'] & Hc & Hf). injection Hf as <- <-. cbn [map].
          constructor; [split; [cbn [fst]; symmetry; apply field_key_spec_key | eapply IHx; eassumption] | apply IHt; assumption].
        - injection Hf as <- <-. apply IHt; assumption. }
      constructor.
      + intros k g Hk. pose proof (last_binding_rel converts _ kvs k HF) as HL. rewrite Hk in HL.
        destruct HL as (y & Hy & HR). exists y. rewrite assoc_s_build_map. auto.
      + intros k Hk. pose proof (last_binding_rel converts _ kvs k HF) as HL. rewrite Hk in HL.
        rewrite assoc_s_build_map. exact HL.
    - cbn [children] in IH. inversion IH as [|? ? IHx _]; subst. constructor. eapply IHx; eassumption.
    - injection H as <- <-. constructor.
    - (* typed nil pointer *)
      destruct mar, ctx; try discriminate; injection H as <- <-; constructor.
    - cbn [children] in IH. inversion IH as [|? ? IHx _]; subst. constructor. eapply IHx; eassumption.
    - injection H as <- <-. constructor.
    - (* Marshaler *)
      cbn [children] in IH. inversion IH as [|? ? IHx _]; subst.
      destruct ctx.
      + injection H as <- <-. apply cv_marshal.
      + injection H as <- <-. apply cv_marshal.
      + apply cv_marshal_plain. eapply IHx; eassumption.
    - (* data.Value *)
      destruct ctx; [injection H as <- <-; apply cv_value | discriminate |].
      destruct ev as [| |x|z|f|s|id l|id m].
      + injection H as <- <-. apply cv_value_plain. constructor.
      + injection H as <- <-. apply cv_value_plain. constructor.
      + injection H as <- <-. apply cv_value.
      + injection H as <- <-. apply cv_value.
      + injection H as <- <-. apply cv_value.
      + injection H as <- <-. apply cv_value.
      + destruct l; injection H as <- <-; apply cv_value_plain; constructor.
      + injection H as <- <-. apply cv_value_plain. constructor.
    - discriminate.
  Qed.
End Shape.

Theorem convert_shape hi lc g v : convert_with hi lc g = Ok v -> converts lc hi g v.
Proof.
  unfold convert_with. intros H. apply bind_ok in H as ([v0 n'] & Hc & H). injection H as <-.
  eapply conv_shape; eassumption.
Qed.

(* an unsigned integer above MaxInt64: the Float nearest to it, never an Int *)
Theorem convert_uint_big hi lc w z : (two63 <= z)%Z ->
  exists m e, convert_with hi lc (GUint w z) = Ok (VFloat (FFin m e)) /\
              (0 <= e)%Z /\ (Z.abs (m * 2 ^ e - z) * two53 <= z)%Z.
Proof.
  intros Hz. destruct (float_of_big_uint_near z Hz) as (m & e & Hf & He & Hn).
  exists m, e. split; [|split; assumption].
  unfold convert_with. cbn [conv]. destruct (Z.ltb_spec z two63); [lia|]. rewrite Hf. reflexivity.
Qed.

Theorem convert_uint_small hi lc w z : (z < two63)%Z -> convert_with hi lc (GUint w z) = Ok (VInt z).
Proof.
  intros Hz. unfold convert_with. cbn [conv]. destruct (Z.ltb_spec z two63); [reflexivity | lia].
Qed.

(* ================= pointer chains of any depth ================= *)

Fixpoint ptrs (k : nat) (g : goval) : goval :=
  match k with O => g | S k' => GPtr (Some (ptrs k' g)) end.

Lemma conv_ptrs_deep lc hi k g n : conv lc hi CDeep (ptrs k g) n = conv lc hi CDeep g n.
Proof. induction k as [|k IH]; [reflexivity | exact IH]. Qed.

Lemma conv_ptrs_ptr lc hi k g n : conv lc hi CPtr (ptrs (S k) g) n = conv lc hi CDeep g n.
Proof. cbn [ptrs conv]. apply conv_ptrs_deep. Qed.

(* two or more pointers: NewWith's drilling loop; what is found there converts by its kind *)
Theorem conv_ptr_chain lc hi k g n : conv lc hi CSlot (ptrs (S (S k)) g) n = conv lc hi CDeep g n.
Proof. cbn [ptrs conv]. apply conv_ptrs_deep. Qed.

(* a Marshaler (value receiver): MarshalValue at the argument itself and one pointer below ... *)
Theorem conv_marshal_direct lc hi v u n :
  conv lc hi CSlot (GMarshal v u) n = Ok (v, n) /\ conv lc hi CSlot (GPtr (Some (GMarshal v u))) n = Ok (v, n).
Proof. split; reflexivity. Qed.

(* ... and behind any longer chain the plain value it is *)
Theorem conv_marshal_deep lc hi k v u n :
  conv lc hi CSlot (ptrs (S (S k)) (GMarshal v u)) n = conv lc hi CDeep u n.
Proof. rewrite conv_ptr_chain. reflexivity. Qed.

(* an existing data.Value behind two or more pointers: its plain image, always *)
Theorem conv_value_deep lc hi k v n :
  exists r n', conv lc hi CSlot (ptrs (S (S k)) (GValue v)) n = Ok (r, n') /\ plain_of v r.
Proof.
  rewrite conv_ptr_chain. cbn [conv].
  destruct v as [| |x|z|f|s|id l|id m]; try (eexists; eexists; split; [reflexivity | constructor]).
  destruct l; eexists; eexists; (split; [reflexivity | constructor]).
Qed.

(* a nil pointer at the end of any chain is null -- also the typed nil pointer to a value-receiver Marshaler
   (after REPAIR C20-nil-marshaler) -- except the typed nil pointer to a data.Value type passed directly
   (returned as it is) *)
Theorem conv_nil_chain lc hi k m n :
  conv lc hi CSlot (ptrs k (GPtr None)) n = Ok (VNull, n) /\
  conv lc hi CSlot (ptrs k (GNilPtrTo true)) n = Ok (VNull, n) /\
  conv lc hi CSlot (ptrs (S k) (GNilPtrTo m)) n = Ok (VNull, n) /\
  conv lc hi CSlot (GNilPtrTo false) n = OutOfModel.
Proof.
  repeat split.
  - destruct k as [|[|k]]; [reflexivity | reflexivity | rewrite conv_ptr_chain; reflexivity].
  - destruct k as [|[|k]]; [reflexivity | reflexivity | rewrite conv_ptr_chain; reflexivity].
  - destruct k as [|k]; [destruct m; reflexivity | rewrite conv_ptr_chain; destruct m; reflexivity].
Qed.

(* ================= what is outside the model, exactly ================= *)

Lemma thread_oom {A B} (f : A -> N -> outcome (option B * N)) l : forall n,
  thread f l n = OutOfModel -> exists x k, In x l /\ f x k = OutOfModel.
Proof.
  induction l as [|x r IH]; intros n H; cbn [thread] in H; [discriminate|].
  destruct (f x n) as [[o n1]| | | | |] eqn:Hf; cbn [bind] in H; try discriminate.
  - destruct (thread f r n1) as [[ys n2]| | | | |] eqn:Hr; cbn [bind] in H; try discriminate.
    destruct (IH n1 Hr) as (y & k & Hin & Hy). exists y, k. split; [right; exact Hin | exact Hy].
  - exists x, n. split; [left; reflexivity | exact Hf].
Qed.

Theorem conv_outofmodel lc hi : forall g ctx n, conv lc hi ctx g n = OutOfModel -> ptr_to_value ctx g = true.
Proof.
  apply (goval_ind' (fun g => forall ctx n, conv lc hi ctx g n = OutOfModel -> ptr_to_value ctx g = true)).
  intros g IH ctx n H.
  destruct g as [|x|w z|w z|w f|s|s|[l|]|[m|]|cnt|fs|[g'|]|mar|[g'|]|mv u|ev|]; cbn [conv] in H; try discriminate.
  - destruct (z <? two63)%Z; discriminate.
  - (* slice *)
    cbn [children] in IH. cbn [ptr_to_value].
    destruct (match l with [] => (zerobase_id, n) | _ :: _ => (n, n + 1) end) as [id n1].
    destruct (thread _ l n1) as [[vs n2]| | | | |] eqn:Ht; cbn [bind] in H; try discriminate.
    apply thread_oom in Ht as (x & k & Hin & Hx).
    apply existsb_exists. exists x. split; [exact Hin|].
    rewrite Forall_forall in IH. apply (IH x Hin CSlot k).
    destruct (conv lc hi CSlot x k) as [[v k']| | | | |]; cbn [bind] in Hx; try discriminate. reflexivity.
  - (* map *)
    cbn [children] in IH. cbn [ptr_to_value].
    destruct (thread _ m (n + 1)) as [[vs n2]| | | | |] eqn:Ht; cbn [bind] in H; try discriminate.
    apply thread_oom in Ht as (x & k & Hin & Hx).
    apply existsb_exists. exists x. split; [exact Hin|].
    rewrite Forall_forall in IH. apply (IH (snd x) (in_map snd _ _ Hin) CSlot k).
    destruct (conv lc hi CSlot (snd x) k) as [[v k']| | | | |]; cbn [bind] in Hx; try discriminate. reflexivity.
  - destruct (cnt =? 0); discriminate.
  - (* struct *)
    cbn [children] in IH. cbn [ptr_to_value].
    destruct (thread _ fs (n + 1)) as [[vs n2]| | | | |] eqn:Ht; cbn [bind] in H; try discriminate.
    apply thread_oom in Ht as (x & k & Hin & Hx).
    apply existsb_exists. exists x. split; [exact Hin|].
    destruct (fst (snd x)); [|discriminate]. cbn [andb].
    rewrite Forall_forall in IH.
    apply (IH (snd (snd (snd x))) (in_map (fun fd => snd (snd (snd fd))) _ _ Hin) CSlot k).
    destruct (conv lc hi CSlot (snd (snd (snd x))) k) as [[v k']| | | | |]; cbn [bind] in Hx; try discriminate. reflexivity.
  - cbn [children] in IH. inversion IH as [|? ? IHx _]; subst. cbn [ptr_to_value]. eapply IHx; exact H.
  - destruct mar, ctx; try discriminate; reflexivity.
  - cbn [children] in IH. inversion IH as [|? ? IHx _]; subst. cbn [ptr_to_value]. eapply IHx; exact H.
  - cbn [children] in IH. inversion IH as [|? ? IHx _]; subst. cbn [ptr_to_value].
    destruct ctx; try discriminate. eapply IHx; exact H.
  - cbn [ptr_to_value]. destruct ctx; try discriminate; [reflexivity|].
    destruct ev as [| |x|z|f|s|id l|id m]; try discriminate.
    destruct l; discriminate.
Qed.

(* NewWith either converts, panics, or (exactly at a pointer to a data.Value, see Spec/ConvertSpec.v) returns that pointer *)
Theorem convert_outofmodel hi lc g : convert_with hi lc g = OutOfModel -> ptr_to_value CSlot g = true.
Proof.
  unfold convert_with. intros H.
  destruct (conv lc hi CSlot g (start_id g)) as [[v n']| | | | |] eqn:Hc; cbn [bind] in H; try discriminate.
  eapply conv_outofmodel; exact Hc.
Qed.

(* ================= idempotence ================= *)

(* NewWith on a data.Value returns that value: converting the result of a conversion again
   returns it unchanged (same structure, same identities) and allocates nothing *)
Theorem conv_value_id lc hi v n : conv lc hi CSlot (GValue v) n = Ok (v, n).
Proof. reflexivity. Qed.

Theorem convert_idempotent hi lc g v :
  convert_with hi lc g = Ok v -> forall lc', convert_with hi lc' (GValue v) = Ok v.
Proof. intros _ lc'. reflexivity. Qed.

(* ================= lowerCamel ================= *)

Ltac Zify.zify_post_hook ::= Z.to_euclidean_division_equations.

Ltac decide_ifs :=
  repeat match goal with
         | |- context [if ?c then _ else _] =>
             first [ replace c with true by (symmetry; lia) | replace c with false by (symmetry; lia) ]
         end.

(* an ASCII first letter: A-Z gain 32, everything else stays; the rest of the name is untouched *)
Theorem lower_camel_ascii hi c rest : c < 128 ->
  lower_camel_key hi (c :: rest) = (if (65 <=? c) && (c <=? 90) then c + 32 else c) :: rest.
Proof.
  intros Hc. unfold lower_camel_key, decode_rune.
  replace (c <? 128) with true by (symmetry; lia).
  unfold to_lower, ascii_to_lower. replace (c <? 128) with true by (symmetry; lia).
  cbn [drop]. unfold encode_rune.
  destruct ((65 <=? c) && (c <=? 90)) eqn:E.
  - replace (c + 32 <? 128) with true by (symmetry; lia). reflexivity.
  - replace (c <? 128) with true by (symmetry; lia). reflexivity.
Qed.

Definition valid_rune (r : N) : Prop := r < 1114112 /\ ~ (55296 <= r <= 57343).

Lemma drop_app (e rest : bstr) : drop (List.length e) (e ++ rest) = rest.
Proof. induction e; cbn; auto. Qed.

(* utf8.DecodeRune inverts utf8.EncodeRune on every valid code point *)
Lemma decode_encode_rune r rest : valid_rune r ->
  decode_rune (encode_rune r ++ rest) = (r, List.length (encode_rune r)).
Proof.
  intros [Hr Hs]. unfold encode_rune.
  destruct (N.ltb_spec r 128); [cbn [app]; unfold decode_rune; decide_ifs; reflexivity|].
  destruct (N.ltb_spec r 2048).
  { cbn [app List.length]. unfold decode_rune, in_range, is_cont, in_range. decide_ifs. f_equal. lia. }
  replace (in_range 55296 57343 r || (1114111 <? r)) with false by (unfold in_range; symmetry; lia).
  destruct (N.ltb_spec r 65536).
  { cbn [app List.length]. unfold decode_rune, in_range, is_cont, in_range.
    destruct (N.eqb_spec (224 + r / 4096) 224), (N.eqb_spec (224 + r / 4096) 237); decide_ifs; f_equal; lia. }
  cbn [app List.length]. unfold decode_rune, in_range, is_cont, in_range.
  destruct (N.eqb_spec (240 + r / 262144) 240), (N.eqb_spec (240 + r / 262144) 244); decide_ifs; f_equal; lia.
Qed.

(* a name that starts with the code point r (any script): r is lowered with unicode.ToLower,
   re-encoded, and the rest of the name is untouched *)
Theorem lower_camel_rune hi r rest : valid_rune r ->
  lower_camel_key hi (encode_rune r ++ rest) = encode_rune (to_lower hi r) ++ rest.
Proof.
  intros Hv. unfold lower_camel_key. rewrite (decode_encode_rune r rest Hv), drop_app. reflexivity.
Qed.

(* with the option off the name is kept *)
Theorem field_key_off hi name : field_key false hi name = name.
Proof. reflexivity. Qed.
