(* Consumption measure for the parser models (Appendix C, "Parser consumption").

   The parser sees a stream: the backed-up items, then the items not yet received, then zero
   items for ever.  [mu] = length of that stream up to its last item with a non-zero type (the
   parser never accepts an item of type 0, so what follows is dead); [lpz] = the logical
   position received - peekCount.  Facts proved here, for every operation of Model/Token.v:
     next     lpz + 1;  mu - 1 when the item has a non-zero type, else mu unchanged
     backup   (after a next) restores both exactly
     peek     changes neither
   and the invariant [pinv]: peekCount <= 2 (token[2] is never indexed), every item in the
   look-ahead slots or still to come is well-formed ([twf]), |items| <= received + pending,
   and (when [eofchk]) an EOF item is only ever the last one the scanner sends. *)
From Soy Require Import Model.Bytes Model.Ast Model.Token Model.NumLit Model.ExprParser.
From Soy Require Import Generated.Tables.
From Coq Require Import ZifyBool ZifyNat ZifyN Lia.
Open Scope N_scope.

(* ---------- well-formed items: what the parser relies on ---------- *)
(* val[1:] / val[2:] of $x .x .1 ?.x ?.1 items; the position is a position of the input.
   (No condition on float items any more: Model/ExprParser.v is total on them.) *)
Definition twfb (inlen : N) (t : tok) : bool :=
  (t_pos t <=? inlen)
  && (if (t_typ t =? pit_DollarIdent) || (t_typ t =? pit_DotIdent) || (t_typ t =? pit_DotIndex)
      then (1 <=? length (t_val t))%nat else true)
  && (if (t_typ t =? pit_QuestionDotIdent) || (t_typ t =? pit_QuestionDotIndex)
      then (2 <=? length (t_val t))%nat else true).

(* an EOF item is the last item *)
Fixpoint eof_last (l : list tok) : Prop :=
  match l with
  | [] => True
  | t :: r => (t_typ t = pit_EOF -> r = []) /\ eof_last r
  end.

Fixpoint live (l : list tok) : nat :=
  match l with
  | [] => 0%nat
  | t :: r => match live r with
              | O => if t_typ t =? 0 then 0%nat else 1%nat
              | S k => S (S k)
              end
  end.

Lemma live_cons t l :
  (t_typ t <> 0 -> live (t :: l) = S (live l)) /\
  (live (t :: l) = live l \/ live (t :: l) = S (live l)) /\
  (live (t :: l) = live l -> t_typ t = 0 /\ live l = 0%nat).
Proof.
  cbn [live]. destruct (live l) as [|k].
  - destruct (N.eqb_spec (t_typ t) 0) as [E|E]; repeat split; intros; try tauto; try lia; auto.
  - repeat split; intros; try lia; auto.
Qed.

Lemma live_le_length l : (live l <= length l)%nat.
Proof.
  induction l as [|t r IH]; cbn [live length]; [lia|].
  destruct (live r); [destruct (t_typ t =? 0)|]; lia.
Qed.

Definition stream (p : pst) : list tok :=
  match p_peek p with
  | O => p_rest p
  | S O => p_tok0 p :: p_rest p
  | _ => p_tok1 p :: p_tok0 p :: p_rest p
  end.
Definition mu (p : pst) : nat := live (stream p).
Definition lpz (p : pst) : Z := (Z.of_nat (p_recv p) - Z.of_nat (p_peek p))%Z.
Definition kap (p : pst) : Z := (lpz p + Z.of_nat (mu p))%Z.
(* the item the last next returned *)
Definition cur_tok (p : pst) : tok := tok_at p (p_peek p).

Lemma mu_init ts : (mu (pst_init ts) <= length ts)%nat.
Proof. unfold mu, stream, pst_init; cbn. apply live_le_length. Qed.
Lemma lpz_init ts : lpz (pst_init ts) = 0%Z.
Proof. reflexivity. Qed.

Section Measure.
Variable inlen : N.
Variable NT : nat.          (* number of items the scanner sends *)
Variable eofchk : bool.     (* track the EOF-is-last invariant *)

Definition twf (t : tok) : Prop := twfb inlen t = true.

Lemma twf_zero : twf zero_tok.
Proof.
  unfold twf, twfb, zero_tok; cbn [t_pos t_typ t_val].
  assert (E : (0 <=? inlen) = true) by lia. rewrite E. vm_compute. reflexivity.
Qed.

Lemma twf_pos t : twf t -> t_pos t <= inlen.
Proof. unfold twf, twfb. lia. Qed.

Record pinv (p : pst) : Prop := {
  pi_peek : (p_peek p <= 2)%nat;
  pi_rest : Forall twf (p_rest p);
  pi_t0 : twf (p_tok0 p);
  pi_t1 : twf (p_tok1 p);
  pi_cnt : (NT <= p_recv p + length (p_rest p))%nat;
  pi_eof : eofchk = true ->
           eof_last (p_rest p)
           /\ (t_typ (p_tok0 p) = pit_EOF -> p_rest p = [])
           /\ (t_typ (p_tok1 p) = pit_EOF -> p_rest p = []);
}.

Lemma pinv_init ts :
  Forall twf ts -> (NT <= length ts)%nat -> (eofchk = true -> eof_last ts) -> pinv (pst_init ts).
Proof.
  intros Hw Hn He. constructor; cbn; auto using twf_zero; try lia.
  intros E. split; [auto|]. split; intros H; vm_compute in H; discriminate.
Qed.

Lemma pinv_err_tok p : pinv p -> twf (err_tok p).
Proof.
  intros [? ? ? ? ? ?]. unfold err_tok, tok_at. destruct (p_peek p) as [|[|k]]; auto.
Qed.

(* ---------- next ---------- *)
Record nrel (p : pst) (t : tok) (p' : pst) : Prop := {
  nr_inv : pinv p';
  nr_twf : twf t;
  nr_peek : p_peek p' = Nat.pred (p_peek p);
  nr_peek1 : (p_peek p' <= 1)%nat;
  nr_cur : t = cur_tok p';
  nr_lpz : lpz p' = (lpz p + 1)%Z;
  nr_mu_nz : t_typ t <> 0 -> mu p = S (mu p');
  nr_mu : (mu p' <= mu p <= S (mu p'))%nat;
  nr_mu_z : mu p' = mu p -> t_typ t = 0;
  nr_bk_inv : pinv (p_backup p');
  nr_bk_mu : mu (p_backup p') = mu p;
  nr_bk_lpz : lpz (p_backup p') = lpz p;
  nr_eof : eofchk = true -> t_typ t = pit_EOF -> p_rest p' = [];
  nr_rest : p_rest p = [] -> p_rest p' = [];
}.

Ltac psimp := unfold mu, stream, lpz, cur_tok, tok_at, p_backup, p_backup2;
              cbn [p_rest p_tok0 p_tok1 p_peek p_recv fst snd Nat.pred].

Lemma p_next_rel p : pinv p -> nrel p (fst (p_next p)) (snd (p_next p)).
Proof.
  intros [Hpk Hr H0 H1 Hc He]. destruct p as [rest t0 t1 pk rc].
  cbn [p_rest p_tok0 p_tok1 p_peek p_recv] in *.
  unfold p_next; cbn [p_peek].
  destruct pk as [|[|[|pk]]]; [| | |lia].
  - (* a receive *)
    unfold recv; cbn [p_rest].
    destruct rest as [|t r]; cbn [fst snd p_rest p_tok0 p_tok1 p_peek p_recv]; cbn [length] in Hc.
    + assert (I1 : forall k, (k <= 2)%nat -> pinv {| p_rest := []; p_tok0 := zero_tok; p_tok1 := t1; p_peek := k; p_recv := S rc |}).
      { intros k Hk. constructor; cbn [p_rest p_tok0 p_tok1 p_peek p_recv length]; auto using twf_zero; try lia.
        intros E. destruct (He E) as (A & B & C). repeat split; auto. }
      constructor; psimp; auto using twf_zero; try lia.
      intros H; exfalso; apply H; reflexivity.
    + assert (Ht : twf t) by (inversion Hr; auto).
      assert (Hr' : Forall twf r) by (inversion Hr; auto).
      pose proof (live_cons t r) as (L1 & L2 & L3).
      assert (I1 : forall k, (k <= 2)%nat -> pinv {| p_rest := r; p_tok0 := t; p_tok1 := t1; p_peek := k; p_recv := S rc |}).
      { intros k Hk. constructor; cbn [p_rest p_tok0 p_tok1 p_peek p_recv length] in *; auto; try lia.
        intros E. destruct (He E) as ((A1 & A2) & B & C). repeat split; auto.
        intros X. apply C in X. discriminate. }
      constructor; psimp; auto; try lia.
      * intros E X. destruct (He E) as ((A1 & A2) & B & C). auto.
      * intros X; discriminate.
  - (* token[0] backed up *)
    cbn [fst snd tok_at p_peek p_tok0].
    pose proof (live_cons t0 rest) as (L1 & L2 & L3).
    assert (I1 : forall k, (k <= 2)%nat -> pinv {| p_rest := rest; p_tok0 := t0; p_tok1 := t1; p_peek := k; p_recv := rc |}).
    { intros k Hk. constructor; cbn [p_rest p_tok0 p_tok1 p_peek p_recv]; auto. }
    constructor; psimp; auto; try lia.
    intros E X. destruct (He E) as (A & B & C). auto.
  - (* token[1] backed up *)
    cbn [fst snd tok_at p_peek p_tok0 p_tok1].
    pose proof (live_cons t1 (t0 :: rest)) as (L1 & L2 & L3).
    assert (I1 : forall k, (k <= 2)%nat -> pinv {| p_rest := rest; p_tok0 := t0; p_tok1 := t1; p_peek := k; p_recv := rc |}).
    { intros k Hk. constructor; cbn [p_rest p_tok0 p_tok1 p_peek p_recv]; auto. }
    constructor; psimp; auto; try lia.
    intros E X. destruct (He E) as (A & B & C). auto.
Qed.

(* a next after a backup returns the same item and restores the state *)
Lemma p_next_backup p : (p_peek p <= 1)%nat -> p_next (p_backup p) = (cur_tok p, p).
Proof.
  destruct p as [rest t0 t1 pk rc]; cbn. intros H.
  unfold p_next, p_backup, cur_tok, tok_at; cbn. destruct pk as [|[|pk]]; try lia; reflexivity.
Qed.

(* backing up over an item of non-zero type (state-based form) *)
Lemma p_backup_rel p :
  pinv p -> (p_peek p <= 1)%nat -> t_typ (cur_tok p) <> 0 ->
  pinv (p_backup p) /\ mu (p_backup p) = S (mu p) /\ lpz (p_backup p) = (lpz p - 1)%Z.
Proof.
  intros [Hpk Hr H0 H1 Hc He] Hk Hz. destruct p as [rest t0 t1 pk rc]; cbn in *.
  unfold cur_tok, tok_at in Hz; cbn in Hz.
  split; [constructor; cbn; auto; lia|].
  unfold mu, stream, lpz, p_backup; cbn [p_rest p_tok0 p_tok1 p_peek p_recv].
  destruct pk as [|[|pk]]; try lia.
  - pose proof (live_cons t0 rest) as (L1 & _). split; [auto|lia].
  - pose proof (live_cons t1 (t0 :: rest)) as (L1 & _). split; [auto|lia].
Qed.

(* backup2(t1) after two nexts: t1 is the item the first of them returned *)
Lemma p_backup2_rel p t p' t1 :
  pinv p -> (p_peek p <= 1)%nat -> t1 = cur_tok p -> t_typ t1 <> 0 -> t_typ t1 <> pit_EOF -> twf t1 ->
  nrel p t p' ->
  pinv (p_backup2 p' t1) /\ mu (p_backup2 p' t1) = S (mu p) /\ lpz (p_backup2 p' t1) = (lpz p - 1)%Z.
Proof.
  intros Hp Hk Ht1 Hz Hne Hw R.
  destruct R as [Ri _ Rpk _ Rcur Rl _ _ _ _ Rbm _ _ _].
  assert (Hpk' : p_peek p' = 0%nat) by lia.
  destruct Ri as [Jpk Jr J0 J1 Jc Je].
  split.
  - constructor; cbn; auto; try lia.
    intros E. destruct (Je E) as (A & B & C). repeat split; auto. intros X; contradiction.
  - unfold mu, stream, lpz, p_backup2 in *; cbn [p_rest p_tok0 p_tok1 p_peek p_recv] in *.
    unfold p_backup in Rbm; cbn [p_rest p_tok0 p_tok1 p_peek p_recv] in Rbm.
    rewrite Hpk' in *.
    pose proof (live_cons t1 (p_tok0 p' :: p_rest p')) as (L1 & _).
    split; [rewrite L1 by auto; f_equal; exact Rbm|lia].
Qed.

(* ---------- peek ---------- *)
Record krel (p : pst) (t : tok) (p' : pst) : Prop := {
  kr_inv : pinv p';
  kr_peek : (1 <= p_peek p' <= 2)%nat;
  kr_lpz : lpz p' = lpz p;
  kr_mu : mu p' = mu p;
  kr_next : p_next p' = (t, snd (p_next p'));
  kr_rest : p_rest p = [] -> p_rest p' = [];
}.
Lemma p_peek_rel p : pinv p -> krel p (fst (p_peek_tok p)) (snd (p_peek_tok p)).
Proof.
  intros [Hpk Hr H0 H1 Hc He]. destruct p as [rest t0 t1 pk rc].
  cbn [p_rest p_tok0 p_tok1 p_peek p_recv] in *.
  unfold p_peek_tok; cbn [p_peek].
  destruct pk as [|[|[|pk]]]; [| | |lia].
  - unfold recv; cbn [p_rest]. destruct rest as [|t r]; cbn [fst snd p_rest p_tok0 p_tok1 p_peek p_recv]; cbn [length] in Hc.
    + constructor; unfold p_next; psimp; auto; try lia.
      constructor; cbn [p_rest p_tok0 p_tok1 p_peek p_recv length]; auto using twf_zero; try lia.
      intros E. destruct (He E) as (A & B & C). repeat split; auto.
    + assert (Ht : twf t) by (inversion Hr; auto).
      assert (Hr' : Forall twf r) by (inversion Hr; auto).
      constructor; unfold p_next; psimp; auto; try lia.
      * constructor; cbn [p_rest p_tok0 p_tok1 p_peek p_recv length]; auto; try lia.
        intros E. destruct (He E) as ((A1 & A2) & B & C). repeat split; auto.
        intros X. apply C in X. discriminate.
      * intros X; discriminate.
  - cbn [fst snd tok_at]. constructor; unfold p_next; psimp; auto; try lia.
    constructor; cbn [p_rest p_tok0 p_tok1 p_peek p_recv]; auto.
  - cbn [fst snd tok_at]. constructor; unfold p_next; psimp; auto; try lia.
    constructor; cbn [p_rest p_tok0 p_tok1 p_peek p_recv]; auto.
Qed.

(* ---------- Hoare-style postcondition on presult ---------- *)
(* [b] is the conserved quantity kap at procedure entry: on a normal return every item consumed
   had a non-zero type (kap unchanged); on an error at most two items beyond that were read *)
Definition ppost {A} (b : Z) (Q : A -> pst -> Prop) (r : presult A) : Prop :=
  match r with
  | POk a p' => pinv p' /\ kap p' = b /\ Q a p'
  | PErr t c p' => pinv p' /\ (lpz p' <= b + 2)%Z /\ twf t
  | PCrash _ => False
  | PFuel => False
  end.

Lemma ppost_bind {A B} b (Q1 : A -> pst -> Prop) (Q : B -> pst -> Prop) x f :
  ppost b Q1 x ->
  (forall a p', pinv p' -> kap p' = b -> Q1 a p' -> ppost b Q (f a p')) ->
  ppost b Q (pbind x f).
Proof.
  destruct x as [a p'|t c p'|m|]; cbn; intros H K; auto. destruct H as (H1 & H2 & H3). apply K; auto.
Qed.

Lemma ppost_weaken {A} b (Q1 Q : A -> pst -> Prop) r :
  ppost b Q1 r -> (forall a p', pinv p' -> kap p' = b -> Q1 a p' -> Q a p') -> ppost b Q r.
Proof. destruct r; cbn; intros H K; auto. destruct H as (H1 & H2 & H3). auto. Qed.

Lemma ppost_errorf {A} b (Q : A -> pst -> Prop) c p :
  pinv p -> (lpz p <= b + 2)%Z -> ppost b Q (p_errorf c p).
Proof. intros H L. unfold p_errorf; cbn. auto using pinv_err_tok. Qed.

Lemma ppost_unexpected {A} b (Q : A -> pst -> Prop) t p :
  pinv p -> twf t -> (lpz p <= b + 2)%Z -> ppost b Q (p_unexpected t p).
Proof. intros H W L. unfold p_unexpected. destruct (_ =? _); cbn; auto. Qed.

End Measure.
