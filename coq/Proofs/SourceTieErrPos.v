(* Source tie, family 70-gotrans-lexer-preds, the position part (parse/lexer.go whole,
   lineNumber): Spec/ErrPos.v's [line_at] against lexer.lineNumber as gotrans translates it
   from today's source. *)
From Coq Require Import ZArith NArith Bool Lia ZifyBool ZifyN List.
From Soy Require Import Model.Bytes Generated.Tables Model.Interp Spec.ErrPos Proofs.SourceTieBase.
Import ListNotations.
Open Scope N_scope.

(* l.whole(): the enclosing file's text for a quoted expression, else the input *)
Lemma lexer_whole_matches_source (input outer : bstr) :
  match outer with [] => input | _ => outer end = src_parse_lexer_whole input outer.
Proof. unfold src_parse_lexer_whole. rewrite bstr_eqb_nil_r. destruct outer; reflexivity. Qed.

Lemma go_count_byte_nl (s : bstr) : go_count_byte 10 s = Z.of_N (count_nl s).
Proof.
  induction s as [|c s IH]; cbn [go_count_byte count_nl]; [reflexivity|].
  rewrite IH. destruct (c =? 10); lia.
Qed.

Lemma count_nl_le (s : bstr) : (Z.of_N (count_nl s) <= Z.of_nat (length s))%Z.
Proof. induction s as [|c s IH]; cbn [count_nl length]; [lia|]. destruct (c =? 10); lia. Qed.

Lemma st_take_length_le (n : nat) (s : bstr) : (length (take n s) <= length s)%nat.
Proof. revert s; induction n as [|n IH]; intros [|c s]; cbn [take length]; try lia. specialize (IH s). lia. Qed.

Lemma go_slice_prefix (s : bstr) (p : N) :
  p <= N.of_nat (length s) -> go_slice s 0%Z (Z.of_N p) = Some (take (N.to_nat p) s).
Proof.
  intros H. unfold go_slice, go_len.
  replace (orb (Z.ltb 0 0) (orb (Z.ltb (Z.of_N p) 0) (Z.ltb (Z.of_nat (length s)) (Z.of_N p)))) with false by lia.
  rewrite Z.sub_0_r. change (Z.to_nat 0) with O. cbn [drop]. f_equal. f_equal. lia.
Qed.

Lemma go_slice_prefix_out (s : bstr) (p : N) :
  N.of_nat (length s) < p -> go_slice s 0%Z (Z.of_N p) = None.
Proof.
  intros H. unfold go_slice, go_len.
  replace (orb (Z.ltb 0 0) (orb (Z.ltb (Z.of_N p) 0) (Z.ltb (Z.of_nat (length s)) (Z.of_N p)))) with true by lia.
  reflexivity.
Qed.

(* lexer.lineNumber(pos) = 1 + strings.Count(l.whole()[:pos], "\n"); the guard keeps the int addition from wrapping
   (a source text shorter than 2^62 bytes) *)
Theorem line_at_matches_source (input outer : bstr) (pos : N) :
  let whole := src_parse_lexer_whole input outer in
  (Z.of_nat (length whole) < 2 ^ 62)%Z ->
  pos <= N.of_nat (length whole) ->
  src_parse_lexer_lineNumber input outer (Z.of_N pos) = Some (Z.of_N (line_at whole pos)).
Proof.
  intros whole Hlen Hpos. unfold src_parse_lexer_lineNumber. fold whole.
  rewrite (go_slice_prefix whole pos Hpos). cbn [go_bind]. f_equal.
  rewrite go_count_byte_nl. unfold line_at.
  pose proof (count_nl_le (take (N.to_nat pos) whole)) as H1.
  pose proof (st_take_length_le (N.to_nat pos) whole) as H2.
  rewrite go_wrap_s_id; [lia|lia|].
  change (2 ^ (64 - 1))%Z with 9223372036854775808%Z.
  change (2 ^ 62)%Z with 4611686018427387904%Z in Hlen. lia.
Qed.

(* beyond the text the slice panics (Model/Parser.v's c_error_at models that as a crash) *)
Theorem line_number_out_of_range_matches_source (input outer : bstr) (pos : N) :
  N.of_nat (length (src_parse_lexer_whole input outer)) < pos ->
  src_parse_lexer_lineNumber input outer (Z.of_N pos) = None.
Proof.
  intros H. unfold src_parse_lexer_lineNumber. now rewrite (go_slice_prefix_out _ _ H).
Qed.
