(* Source tie: how the translated functions over data.Value are instantiated (definitions only).
   gotrans translates data.Value as an abstract type V; what a function does with a value
   enters as parameters: v_kind (the dynamic type, coded 0 Undefined 1 Null 2 Bool 3 Int
   4 Float 5 String 6 List 7 Map -- the order of tablegen's valueKinds), the constructors it
   uses (v_undefined, v_of_bool, ...) and the payload projections of one-valued type
   assertions (v_as_list, ...).  Here they are instantiated with Model/Values.v's [value]. *)
From Coq Require Import ZArith NArith List.
From Soy Require Import Model.Bytes Model.Num Model.Outcome Model.Values.
Import ListNotations.
Open Scope N_scope.

Definition st_vkind (v : value) : Z :=
  match v with
  | VUndef => 0 | VNull => 1 | VBool _ => 2 | VInt _ => 3 | VFloat _ => 4 | VStr _ => 5 | VList _ _ => 6 | VMap _ _ => 7
  end%Z.
Definition v_as_list (v : value) : option (list value) := match v with VList _ l => Some l | _ => None end.

