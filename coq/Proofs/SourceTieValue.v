(* Source tie: how the translated functions over data.Value are instantiated (definitions only).
   gotrans translates data.Value as an abstract type V; what a function does with a value
   enters as parameters: v_kind (the dynamic type, coded 0 Undefined 1 Null 2 Bool 3 Int
   4 Float 5 String 6 List 7 Map -- the order of tablegen's valueKinds), the constructors it
   uses (v_undefined, v_of_bool, ...) and the payload projections of one-valued type
   assertions (v_as_list, ...).  Here they are instantiated with Model/Values.v's [value]. *)
From Coq Require Import ZArith NArith List.
From Soy Require Import Model.Bytes Model.Num Model.Outcome Model.Values.
Import ListNotations.
Open Scope N_scope.

Definition st_vkind (v : value) : Z :=
  match v with
  | VUndef => 0 | VNull => 1 | VBool _ => 2 | VInt _ => 3 | VFloat _ => 4 | VStr _ => 5 | VList _ _ => 6 | VMap _ _ => 7
  end%Z.
Definition v_as_list (v : value) : option (list value) := match v with VList _ l => Some l | _ => None end.


(* ---- the whole value vocabulary, in the fixed order of the <name>_V definitions ----
   gotrans emits every function over data.Value a second time (<name>_V) with ALL value operations as parameters, used
   or not, so that a rewrite that uses another operation (isInt(x) for _, ok := x.(data.Int)) does not change the
   interface the lemma is stated about.  st_V f is f applied to the model's own value type; String() of a value
   (val_string) is the next argument. *)
Definition st_as_bool_v (v : value) : option bool := match v with VBool x => Some x | _ => None end.
Definition st_as_int_v (v : value) : option Z := match v with VInt i => Some i | _ => None end.
Definition st_as_string_v (v : value) : option bstr := match v with VStr x => Some x | _ => None end.
Definition st_as_list_v (v : value) : option (list value) := match v with VList _ l => Some l | _ => None end.
Definition st_as_map_v (v : value) : option (list (bstr * value)) := match v with VMap _ m => Some m | _ => None end.
Notation st_V f :=
  (f value st_vkind VUndef VNull VBool VInt VStr st_as_bool_v st_as_int_v st_as_string_v st_as_list_v st_as_map_v).
