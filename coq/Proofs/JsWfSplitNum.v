(* C14, token grammar, bytes: the numeric-literal scanner [num_span] gives the same answer when the text is continued,
   provided the continuation cannot extend the literal. *)
From Soy Require Import Model.Bytes Model.JsGen Spec.JsSyntax Proofs.JsWfSplitBase.
From Coq Require Import ZifyBool ZifyNat ZifyN Lia.
Open Scope N_scope.

Definition lead_okf (s : bstr) : bool := match s with 48 :: d :: _ => negb (is_digit d) | _ => true end.
Definition frac_stage (n1 : nat) (r1 : bstr) : nat * bstr :=
  match r1 with
  | x :: r => if x =? 46 then (let k := span is_digit r in if Nat.eqb k 0 then (n1, r1) else (n1 + 1 + k, drop k r)%nat) else (n1, r1)
  | [] => (n1, r1)
  end.
Lemma match46 {A} (x : N) (a c : A) : match x with 46 => a | _ => c end = if x =? 46 then a else c.
Proof. destruct x as [|p]; [reflexivity|]. repeat (destruct p as [p|p|]; try reflexivity). Qed.
Lemma match48 {A} (x : N) (a c : A) : match x with 48 => a | _ => c end = if x =? 48 then a else c.
Proof. destruct x as [|p]; [reflexivity|]. repeat (destruct p as [p|p|]; try reflexivity). Qed.
Definition exp_stage (n2 : nat) (r2 : bstr) : nat * bstr :=
  match r2 with
  | e :: r =>
      if (e =? 101) || (e =? 69) then
        let '(sg, r') := match r with c :: r' => if (c =? 43) || (c =? 45) then (1%nat, r') else (0%nat, r) | [] => (0%nat, r) end in
        let k := span is_digit r' in
        if Nat.eqb k 0 then (n2, r2) else (n2 + 1 + sg + k, drop k r')%nat
      else (n2, r2)
  | [] => (n2, r2)
  end.
Definition fin_stage (lead_ok : bool) (n3 : nat) (r3 : bstr) : option nat :=
  match r3 with
  | c :: _ => if is_ident_part c || negb lead_ok then None else Some n3
  | [] => if lead_ok then Some n3 else None
  end.
Lemma num_span_eq s : num_span s =
  let '(n2, r2) := frac_stage (span is_digit s) (drop (span is_digit s) s) in
  let '(n3, r3) := exp_stage n2 r2 in fin_stage (lead_okf s) n3 r3.
Proof.
  unfold num_span, frac_stage. destruct (drop (span is_digit s) s) as [|x r]; [reflexivity|].
  rewrite match46. reflexivity.
Qed.

Lemma digit_ident x : is_digit x = true -> is_ident_part x = true.
Proof. unfold is_ident_part. intro H. rewrite H. apply orb_true_r. Qed.
Lemma expo_ident x : (x =? 101) || (x =? 69) = true -> is_ident_part x = true.
Proof. intro H. apply orb_prop in H. destruct H as [H|H]; apply N.eqb_eq in H; subst; reflexivity. Qed.

Lemma drop_nil_len k : forall (r : bstr), drop k r = [] -> (k <= length r)%nat -> k = length r.
Proof. induction k as [|k IH]; intros r H L; destruct r as [|c r]; cbn in *; try reflexivity; try discriminate; try lia. f_equal. apply IH; [exact H|lia]. Qed.

(* what a stage leaves: nothing (then the literal reached the end, on a digit), or a tail with the same last byte *)
Definition tail_rel (r1 r2 : bstr) : Prop :=
  (r2 = [] -> r1 = [] \/ (r1 <> [] /\ is_digit (last r1 0) = true)) /\ (r2 <> [] -> r1 <> [] /\ last r2 0 = last r1 0).

Lemma digits_tail k (r : bstr) (x : N) : k = span is_digit r -> k <> O ->
  (drop k r = [] -> is_digit (last (x :: r) 0) = true) /\ (drop k r <> [] -> last (drop k r) 0 = last (x :: r) 0).
Proof.
  intros Ek Hk. pose proof (span_le is_digit r) as Hle. assert (Hr : r <> []) by (intro; subst r; cbn in Ek; lia). split.
  - intro Hd. apply drop_nil_len in Hd; [|lia]. rewrite last_cons_ne by exact Hr. apply last_forallb; [exact Hr|].
    apply span_all_forallb. lia.
  - intro Hd. assert (k < length r)%nat. { destruct (Nat.eq_dec k (length r)) as [Q|Q]; [|lia]. rewrite Q, drop_length in Hd. congruence. }
    rewrite last_drop by lia. rewrite last_cons_ne by exact Hr. reflexivity.
Qed.

Lemma frac_tail n r1 : tail_rel r1 (snd (frac_stage n r1)).
Proof.
  unfold tail_rel, frac_stage. destruct r1 as [|x r]; [cbn; split; [auto|congruence]|].
  destruct (x =? 46) eqn:Ex.
  - apply N.eqb_eq in Ex. subst x. destruct (Nat.eqb (span is_digit r) 0) eqn:Ek.
    + cbn [snd]. split; [discriminate|]. intros _. split; [discriminate|reflexivity].
    + cbn [snd]. apply Nat.eqb_neq in Ek. destruct (digits_tail _ r 46 eq_refl Ek) as [D1 D2]. split.
      * intro H. right. split; [discriminate|auto].
      * intro H. split; [discriminate|auto].
  - cbn [snd]. split; [discriminate|]. intros _. split; [discriminate|reflexivity].
Qed.

(* a run of digits that may reach the end of r: continued by b :: r', it is the same run when b is no digit there *)
Lemma span_digits_app (r : bstr) b r' :
  (span is_digit r = length r -> is_digit b = false) -> span is_digit (r ++ b :: r') = span is_digit r.
Proof.
  intro H. pose proof (span_le is_digit r) as Hle. destruct (Nat.eq_dec (span is_digit r) (length r)) as [Q|Q].
  - rewrite span_app_all by exact Q. rewrite span_head_false by (apply H; exact Q). lia.
  - apply span_app_stop. lia.
Qed.

Lemma frac_app n r1 b r' :
  (r1 = [] -> b = 46 -> match r' with d :: _ => is_digit d = false | [] => True end) ->
  (r1 <> [] -> is_digit (last r1 0) = true \/ last r1 0 = 46 -> is_digit b = false) ->
  frac_stage n (r1 ++ b :: r') = (fst (frac_stage n r1), snd (frac_stage n r1) ++ b :: r').
Proof.
  intros H1 H2. destruct r1 as [|x r].
  - cbn [app frac_stage fst snd]. destruct (b =? 46) eqn:Eb; [|reflexivity]. apply N.eqb_eq in Eb.
    specialize (H1 eq_refl Eb). destruct r' as [|d r'']; [reflexivity|]. rewrite span_head_false by exact H1. reflexivity.
  - cbn [app]. unfold frac_stage. destruct (x =? 46) eqn:Ex; [|reflexivity].
    apply N.eqb_eq in Ex. subst x.
    assert (Es : span is_digit (r ++ b :: r') = span is_digit r).
    { apply span_digits_app. intro Q. apply H2; [discriminate|]. destruct r as [|c2 r2]; [right; reflexivity|].
      left. rewrite last_cons_ne by discriminate. apply last_forallb; [discriminate|]. apply span_all_forallb. exact Q. }
    rewrite Es. destruct (Nat.eqb (span is_digit r) 0); [reflexivity|]. cbn [fst snd].
    rewrite drop_app_le by apply span_le. reflexivity.
Qed.

Lemma exp_tail n r2 : tail_rel r2 (snd (exp_stage n r2)).
Proof.
  unfold tail_rel, exp_stage. destruct r2 as [|e r]; [cbn; split; [auto|congruence]|].
  assert (Same : forall (r3 : bstr), r3 = e :: r -> (r3 = [] -> e :: r = [] \/ e :: r <> [] /\ is_digit (last (e :: r) 0) = true) /\ (r3 <> [] -> e :: r <> [] /\ last r3 0 = last (e :: r) 0)).
  { intros r3 ->. split; [discriminate|]. intros _. split; [discriminate|reflexivity]. }
  destruct ((e =? 101) || (e =? 69)); [|apply Same; reflexivity].
  destruct r as [|c r0].
  - cbn. apply Same. reflexivity.
  - destruct ((c =? 43) || (c =? 45)).
    + destruct (Nat.eqb (span is_digit r0) 0) eqn:Ek; [apply Same; reflexivity|]. cbn [snd].
      apply Nat.eqb_neq in Ek. destruct (digits_tail _ r0 c eq_refl Ek) as [D1 D2].
      assert (Hr0 : r0 <> []) by (intro; subst r0; cbn in Ek; congruence).
      split; intro H.
      * right. split; [discriminate|]. rewrite last_cons_ne by discriminate. auto.
      * split; [discriminate|]. rewrite (last_cons_ne e) by discriminate. auto.
    + destruct (Nat.eqb (span is_digit (c :: r0)) 0) eqn:Ek; [apply Same; reflexivity|]. cbn [snd].
      apply Nat.eqb_neq in Ek. destruct (digits_tail _ (c :: r0) e eq_refl Ek) as [D1 D2].
      split; intro H.
      * right. split; [discriminate|]. auto.
      * split; [discriminate|]. auto.
Qed.

Lemma exp_app n r2 b r' :
  (r2 = [] -> (b =? 101) || (b =? 69) = false) ->
  (r2 <> [] -> is_digit (last r2 0) = true -> is_digit b = false) ->
  (match snd (exp_stage n r2) with c :: _ => is_ident_part c = false | [] => True end) ->
  exp_stage n (r2 ++ b :: r') = (fst (exp_stage n r2), snd (exp_stage n r2) ++ b :: r').
Proof.
  intros H1 H2 Hok. destruct r2 as [|e r].
  - cbn [app exp_stage fst snd]. rewrite (H1 eq_refl). reflexivity.
  - cbn [app]. unfold exp_stage in *. destruct ((e =? 101) || (e =? 69)) eqn:Ee; [|reflexivity].
    assert (Bad : forall A (x : A), is_ident_part e = false -> x = x -> False).
    { intros A x Hx _. rewrite (expo_ident e Ee) in Hx. discriminate. }
    destruct r as [|c r0].
    + cbn in Hok. exfalso. exact (Bad _ tt Hok eq_refl).
    + cbn [app]. destruct ((c =? 43) || (c =? 45)).
      * assert (Es : span is_digit (r0 ++ b :: r') = span is_digit r0).
        { apply span_digits_app. intro Q. destruct r0 as [|c2 r2].
          - cbn in Hok. exfalso. exact (Bad _ tt Hok eq_refl).
          - apply H2; [discriminate|]. rewrite !last_cons_ne by discriminate. rewrite <- (last_cons_ne c) by discriminate.
            rewrite last_cons_ne by discriminate. apply last_forallb; [discriminate|]. apply span_all_forallb. exact Q. }
        rewrite Es. destruct (Nat.eqb (span is_digit r0) 0).
        -- cbn in Hok. exfalso. exact (Bad _ tt Hok eq_refl).
        -- cbn [fst snd]. rewrite drop_app_le by apply span_le. reflexivity.
      * assert (Es : span is_digit ((c :: r0) ++ b :: r') = span is_digit (c :: r0)).
        { apply span_digits_app. intro Q. apply H2; [discriminate|]. rewrite last_cons_ne by discriminate.
          apply last_forallb; [discriminate|]. apply span_all_forallb. exact Q. }
        change (c :: r0 ++ b :: r') with ((c :: r0) ++ b :: r'). rewrite Es. destruct (Nat.eqb (span is_digit (c :: r0)) 0).
        -- cbn in Hok. exfalso. exact (Bad _ tt Hok eq_refl).
        -- cbn [fst snd]. rewrite drop_app_le by apply span_le. reflexivity.
Qed.

Lemma lead_okf_app s b r' : s <> [] -> (is_digit (last s 0) = true -> is_digit b = false) -> is_digit (hd 0 s) = true ->
  lead_okf (s ++ b :: r') = lead_okf s.
Proof.
  intros Hs H Hd. destruct s as [|x [|y s']]; [congruence| |reflexivity]. cbn [app lead_okf]. cbn in H, Hd.
  rewrite !match48. destruct (x =? 48); [|reflexivity]. rewrite (H Hd). reflexivity.
Qed.

Theorem num_span_app s b r' k :
  s <> [] -> is_digit (hd 0 s) = true -> num_span s = Some k ->
  (is_ident_part (last s 0) = true -> is_ident_part b = false) ->
  (forallb is_digit s = true -> b = 46 -> match r' with d :: _ => is_digit d = false | [] => True end) ->
  (last s 0 = 46 -> is_digit b = false) ->
  num_span (s ++ b :: r') = Some k.
Proof.
  intros Hs Hh Hk H1 H2 H3. rewrite num_span_eq in *.
  assert (Hdig : is_digit (last s 0) = true -> is_ident_part b = false /\ is_digit b = false /\ (b =? 101) || (b =? 69) = false).
  { intro Hd. pose proof (H1 (digit_ident _ Hd)) as Hb. split; [exact Hb|]. split.
    - destruct (is_digit b) eqn:E; [|reflexivity]. rewrite (digit_ident _ E) in Hb. discriminate.
    - destruct ((b =? 101) || (b =? 69)) eqn:E; [|reflexivity]. rewrite (expo_ident _ E) in Hb. discriminate. }
  pose proof (span_le is_digit s) as Hle.
  assert (Es : span is_digit (s ++ b :: r') = span is_digit s).
  { apply span_digits_app. intro Q. apply Hdig. apply last_forallb; [exact Hs|]. apply span_all_forallb. exact Q. }
  rewrite Es. rewrite drop_app_le by exact Hle.
  set (n1 := span is_digit s) in *. set (r1 := drop n1 s) in *.
  assert (R1 : (r1 = [] -> forallb is_digit s = true) /\ (r1 <> [] -> last r1 0 = last s 0)).
  { split.
    - intro E. apply span_all_forallb. apply (drop_nil_len n1 s E Hle).
    - intro E. unfold r1. apply last_drop. destruct (Nat.eq_dec n1 (length s)) as [Q|Q]; [|lia].
      exfalso. apply E. unfold r1. rewrite Q. apply drop_length. }
  destruct R1 as [R1a R1b].
  rewrite frac_app.
  2:{ intros E. apply H2. apply R1a. exact E. }
  2:{ intros E [Hd|Hd]; rewrite (R1b E) in Hd; [apply Hdig; exact Hd|apply H3; exact Hd]. }
  pose proof (frac_tail n1 r1) as [T1a T1b]. destruct (frac_stage n1 r1) as [n2 r2]. cbn [fst snd] in *.
  assert (R2 : (r2 = [] -> is_digit (last s 0) = true) /\ (r2 <> [] -> last r2 0 = last s 0)).
  { split.
    - intro E. destruct (T1a E) as [E1|[E1 Hd]].
      + apply last_forallb; [exact Hs|]. apply R1a. exact E1.
      + rewrite <- (R1b E1). exact Hd.
    - intro E. destruct (T1b E) as [E1 El]. rewrite El. apply R1b. exact E1. }
  destruct R2 as [R2a R2b].
  pose proof (exp_tail n2 r2) as [T2a T2b].
  assert (Hok : match snd (exp_stage n2 r2) with c :: _ => is_ident_part c = false | [] => True end).
  { destruct (exp_stage n2 r2) as [n3 r3]. cbn [snd]. unfold fin_stage in Hk. destruct r3 as [|c r3']; [exact I|].
    destruct (is_ident_part c); [discriminate Hk|reflexivity]. }
  rewrite exp_app; [| | |exact Hok].
  2:{ intro E. apply Hdig. apply R2a. exact E. }
  2:{ intros E Hd. rewrite (R2b E) in Hd. apply Hdig. exact Hd. }
  destruct (exp_stage n2 r2) as [n3 r3]. cbn [fst snd] in *.
  rewrite lead_okf_app; [|exact Hs|intro Hd; apply Hdig; exact Hd|exact Hh].
  destruct r3 as [|c r3'].
  - cbn [app fin_stage] in *. assert (Hd : is_digit (last s 0) = true).
    { destruct (T2a eq_refl) as [E2|[E2 Hd]]; [apply R2a; exact E2|rewrite <- (R2b E2); exact Hd]. }
    destruct (Hdig Hd) as (Hb & _). rewrite Hb. cbn [orb]. destruct (lead_okf s); [exact Hk|discriminate Hk].
  - cbn [app fin_stage] in *. exact Hk.
Qed.
