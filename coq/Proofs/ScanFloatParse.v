(* What newValueNode makes of a float item THE SCANNER sent (any mode, any base; the nested scanner of a quoted
   attribute expression, shifted to its place in the file, included): the FRSyntax arm of
   NumLit.parse_float_round is never taken (Proofs/ScanFloatShape.v), so the node is NFloat of the binary64
   nearest to the decimal value of the item's text (Proofs/NumLitFlocq.v), or the "number" error exactly when
   that rounding reaches 2^1024. *)
From Coq Require Import ZArith Reals List.
From Flocq Require Import Core.Core.
From Soy Require Import Model.Bytes Model.Outcome Model.Num Model.NumLit Model.Ast Model.Token Model.Lexer Model.ExprParser Model.Parser
  Model.ParseBytes Generated.Tables Proofs.NumLitProofs Proofs.FloatFlocqBase Proofs.NumLitFlocq Proofs.ScanFloatShape.
Import ListNotations.
Open Scope N_scope.

(* a float item whose text the scanner's syntax admits *)
Definition sfp_ok (t : tok) : Prop := t_typ t = pk_itemFloat -> parse_float_round (t_val t) <> FRSyntax.

Lemma sfp_items uni_letter uni_digit fuel mode s its :
  lex_items uni_letter uni_digit fuel mode s = Ok its -> Forall sfp_ok its.
Proof.
  intros H. apply Forall_forall. intros t Hin Ht. exact (scan_float_not_syntax_items _ _ _ _ _ _ H t Hin Ht).
Qed.

Lemma sfp_items_at uni_letter uni_digit base fuel s its :
  lex_items_at uni_letter uni_digit base fuel s = Ok its -> Forall sfp_ok its.
Proof.
  intros H. apply Forall_forall. intros t Hin Ht. exact (scan_float_not_syntax_items_at _ _ _ _ _ _ H t Hin Ht).
Qed.

(* the nested scanner as Model/Parser.v uses it: lexq_model, every item shifted by the base *)
Lemma sfp_lexq uni_letter uni_digit base str : Forall sfp_ok (map (shift_tok base) (lexq_model uni_letter uni_digit str)).
Proof.
  apply Forall_forall. intros t Hin. apply in_map_iff in Hin. destruct Hin as (t0 & <- & Hin0).
  intros Ht. change (t_typ t0 = pk_itemFloat) in Ht. change (parse_float_round (t_val t0) <> FRSyntax).
  revert Hin0. unfold lexq_model.
  generalize (scan_float_not_syntax_items uni_letter uni_digit (lex_budget str) true str).
  generalize (lex_items uni_letter uni_digit (lex_budget str) true str). intros o Ho Hin0.
  destruct o as [ts| | | | |]; try (destruct Hin0; fail). exact (Ho ts eq_refl t0 Hin0 Ht).
Qed.

(* the zero item a receive from the closed channel yields is not a float item *)
Lemma sfp_zero : sfp_ok zero_tok.
Proof. intros H. discriminate H. Qed.

(* newValueNode on such an item: two outcomes, and which one is decided by the rounding *)
Theorem sfp_value_node (w : N -> pst -> presult node) (lf : nat) (t : tok) (st : pst) :
  t_typ t = pk_itemFloat -> sfp_ok t ->
  exists l esgn, t_val t = nf_text l esgn /\ lit_int l <> [] /\ nf_digits (lit_int l) /\ nf_digits (lit_frac l) /\ nf_digits (lit_exp l) /\
    match new_value_node w lf t st with
    | POk n st' => st' = st /\ exists f, n = NFloat (t_pos t) f /\
                   ff_R f = cond_Ropp (lit_neg l) (nf_round (nf_lit_abs l)) /\ (nf_round (nf_lit_abs l) < bpow radix2 1024)%R
    | r => r = p_errorf c_number st /\ (bpow radix2 1024 <= nf_round (nf_lit_abs l))%R
    end.
Proof.
  intros Ht Hok. specialize (Hok Ht).
  destruct (nf_parse_float_correctly_rounded (t_val t) Hok) as (l & esgn & Etxt & Hi & Di & Df & De & _ & _ & Hspec).
  exists l, esgn. repeat (split; [assumption|]).
  rewrite (float_value_node w lf t st Ht).
  destruct (parse_float_round (t_val t)) as [f| |]; [| |contradiction].
  - cbn [nf_res_spec] in Hspec. destruct Hspec as (H1 & H2 & _). split; [reflexivity|]. exists f. auto.
  - cbn [nf_res_spec] in Hspec. unfold p_errorf. split; [reflexivity|exact Hspec].
Qed.
Print Assumptions sfp_items.
Print Assumptions sfp_lexq.
