(* C11, the JavaScript backend: what soyjs GENERATES for a {msg} that has an entry in Options.Messages
   (Model/JsGen.v visit_msg / jeval_parts, i.e. soyjs/exec.go visitMsgNode / evalMsgParts), for every
   generator-walker w.  The generator resolves the catalogue at generation time: for a translation tr it
   emits, in the translation's order, an `output += '...'` statement for every text segment and the code
   of the first placeholder of the message that carries the slot's name -- the same fold over the same
   resolved item list that soyhtml's evalMsg performs at render time (C11_translation_places_values). *)
From Coq Require Import List Lia Bool.
From Soy Require Import Model.Bytes Model.Outcome Model.Num Model.Values Model.Ast Model.MsgId
  Model.Escape Model.Interp Model.MsgParts Model.JsGen Spec.MsgCat Proofs.MsgPartsProofs.
Import ListNotations.
Open Scope N_scope.

(* Options.Messages hands soyjs the same soymsg.Message.Parts that pomsg.newMessage built *)
Definition jpart_of (p : part) : jmpart := match p with PText t => JMRaw t | PPh n => JMPh n end.
Definition jparts_of_cmsg (m : cmsg) : list jmpart :=
  match m with
  | CSimple ps => map jpart_of ps
  | CPlural v cases => [JMPlural v (map (map jpart_of) cases)]
  end.

Section Js.
Variable o : jopts.
Variable w : node -> J unit.

(* what the generator has to emit for a translation *)
Fixpoint jrun_items (tr : list titem) : J unit :=
  match tr with
  | [] => jret tt
  | TText t :: r => write_raw_text t ;;; jrun_items r
  | TPh _ _ body :: r => w body ;;; jrun_items r
  end.

Lemma nmsg_size_pos n : (1 <= nmsg_size n)%nat.
Proof. destruct n; cbn [nmsg_size]; lia. Qed.
Lemma msg_size_length l : (length l < msg_size l)%nat.
Proof.
  unfold msg_size. induction l as [|x l IH]; cbn [fold_right length]; [lia|].
  pose proof (nmsg_size_pos x). lia.
Qed.

Lemma jfind_step f x r name :
  jfind_placeholder (S f) (x :: r) name =
  match x with
  | NMsgPlaceholder _ nm body => if bstr_eqb nm name then Ok (Some body) else jfind_placeholder f r name
  | NMsgPlural p _ v cases dflt => jfind_placeholder f (r ++ cases ++ [NList p dflt]) name
  | NMsgPluralCase p _ body => jfind_placeholder f (r ++ [NList p body]) name
  | NList _ l => jfind_placeholder f (r ++ l) name
  | _ => jfind_placeholder f r name
  end.
Proof. reflexivity. Qed.

Lemma jfind_flat : forall body name fuel, forallb flat_node body = true -> (length body < fuel)%nat ->
  jfind_placeholder fuel body name = Ok (find_ph body name).
Proof.
  induction body as [|x r IH]; intros name fuel Hf Hl; destruct fuel as [|f]; try (cbn in Hl; lia).
  - reflexivity.
  - cbn [forallb] in Hf. apply andb_true_iff in Hf. destruct Hf as [Hx Hr]. cbn [length] in Hl.
    destruct x; try discriminate; cbn [jfind_placeholder find_ph].
    + apply IH; [exact Hr|lia].
    + destruct (bstr_eqb _ name); [reflexivity|]. apply IH; [exact Hr|lia].
Qed.

Lemma jeval_parts_items body phs tr :
  (forall name, jfind_placeholder (msg_size body) body name = Ok (find_ph phs name)) ->
  items_named phs tr ->
  jeval_parts w body (map jpart_of (map item_part tr)) = jrun_items (map (resolve phs) tr).
Proof.
  intros Hlook. induction tr as [|[t|p n b] r IH]; intros Hfrom.
  - reflexivity.
  - cbn [map item_part jpart_of resolve jeval_parts jeval_part jrun_items]. rewrite IH; [reflexivity|].
    intros p n b Hin. apply (Hfrom p n b). right. exact Hin.
  - cbn [map item_part jpart_of resolve jeval_parts jeval_part]. rewrite Hlook.
    destruct (find_ph_some phs n (Hfrom p n b (or_introl eq_refl))) as [p' [b' [Hf _]]].
    rewrite Hf. cbn [jrun_items]. rewrite IH; [reflexivity|].
    intros p0 n0 b0 Hin. apply (Hfrom p0 n0 b0). right. exact Hin.
Qed.

(* a flat message with a catalogue entry *)
Theorem js_translation_places_values id body tr msgs :
  forallb flat_node body = true -> items_named body tr ->
  parts_clean (map item_part tr) ->
  o_msgs o = Some msgs -> assoc_n id msgs = Some (jparts_of_cmsg (new_message [] [msgstr_of tr])) ->
  visit_msg o w id body = jrun_items (map (resolve body) tr).
Proof.
  intros Hf Hfrom Hclean Ho Ha. unfold visit_msg. rewrite Ho, Ha.
  cbn [new_message jparts_of_cmsg]. unfold msgstr_of. rewrite (parts_print_clean _ Hclean).
  apply jeval_parts_items; [|exact Hfrom].
  intro name. apply jfind_flat; [exact Hf|apply msg_size_length].
Qed.

(* no bundle, or no entry for the message: the source is generated *)
Theorem js_missing_falls_back id body :
  o_msgs o = None \/ (exists msgs, o_msgs o = Some msgs /\ assoc_n id msgs = None) ->
  visit_msg o w id body = jmsg_children w (msg_size body) body.
Proof. intros [H|(msgs & H1 & H2)]; unfold visit_msg; [rewrite H|rewrite H1, H2]; reflexivity. Qed.

(* ---- a PO plural: switch (soy.$$pluralIndex(v)) with one case per msgstr ---- *)

(* the case list of the generated switch *)
Fixpoint jplural_cases (i : N) (bodies : list (J unit)) : J unit :=
  match bodies with
  | [] => jret tt
  | c :: cr =>
      jsln [CText t_case; CNum (dec_of_N i); CText t_colon] ;;; indent_inc ;;; c ;;;
      jsln [CText t_break] ;;; indent_dec ;;; jplural_cases (i + 1) cr
  end.

Lemma jeval_plural_unfold body var cases p vn pv cs dflt :
  jfind_plural body var = Some (NMsgPlural p vn pv cs dflt) ->
  jeval_part w body (JMPlural var cases) =
  (jindent ;;; jtxt t_plural_open ;;; w pv ;;; jemit [CText t_plural_close; CText t_nl] ;;;
   indent_inc ;;; jplural_cases 0 (map (jeval_parts w body) cases) ;;; indent_dec ;;; jsln [CText t_rbrace]).
Proof.
  intro Hf. cbn [jeval_part]. rewrite Hf.
  assert (Hparts : forall ps,
    (fix parts_loop (ps : list jmpart) : J unit :=
       match ps with [] => jret tt | q :: qr => jeval_part w body q ;;; parts_loop qr end) ps = jeval_parts w body ps).
  { induction ps as [|q qr IH]; [reflexivity|]. cbn [jeval_parts]. rewrite <- IH. reflexivity. }
  assert (Hcases : forall cases i,
    (fix cases_loop (i : N) (cs : list (list jmpart)) : J unit :=
       match cs with
       | [] => jret tt
       | c :: cr =>
           jsln [CText t_case; CNum (dec_of_N i); CText t_colon] ;;; indent_inc ;;;
           (fix parts_loop (ps : list jmpart) : J unit :=
              match ps with [] => jret tt | q :: qr => jeval_part w body q ;;; parts_loop qr end) c ;;;
           jsln [CText t_break] ;;; indent_dec ;;; cases_loop (i + 1) cr
       end) i cases = jplural_cases i (map (jeval_parts w body) cases)).
  { induction cases0 as [|c cr IH]; intro i; [reflexivity|]. cbn [map jplural_cases]. rewrite <- IH, <- Hparts. reflexivity. }
  rewrite <- Hcases. reflexivity.
Qed.

Lemma jfind_plural_body name p vn pv pc cv cb dflt :
  forallb flat_node cb = true -> forallb flat_node dflt = true ->
  jfind_placeholder (msg_size [NMsgPlural p vn pv [NMsgPluralCase pc cv cb] dflt])
    [NMsgPlural p vn pv [NMsgPluralCase pc cv cb] dflt] name = Ok (find_ph (dflt ++ cb) name).
Proof.
  intros Hc Hd.
  set (F := fold_right (fun x acc => (nmsg_size x + acc)%nat) 0%nat).
  assert (Hgo : forall l, (fix go (l : list node) : nat := match l with [] => 0%nat | x :: r => (nmsg_size x + go r)%nat end) l = F l).
  { induction l as [|x l IH]; [reflexivity|]. subst F. cbn [fold_right]. rewrite <- IH. reflexivity. }
  assert (Hsz : msg_size [NMsgPlural p vn pv [NMsgPluralCase pc cv cb] dflt] = (4 + S (3 + F cb + F dflt))%nat).
  { unfold msg_size. cbn [fold_right nmsg_size]. rewrite (Hgo cb). rewrite (Hgo dflt). lia. }
  assert (Hk : (length (dflt ++ cb) < S (3 + F cb + F dflt))%nat).
  { pose proof (msg_size_length cb) as H1. pose proof (msg_size_length dflt) as H2. unfold msg_size in H1, H2.
    fold F in H1, H2. rewrite app_length. lia. }
  rewrite Hsz. revert Hk. generalize (S (3 + F cb + F dflt))%nat as k. intros k Hk. clear Hsz Hgo F.
  change (4 + k)%nat with (S (S (S (S k)))).
  rewrite jfind_step. cbv iota beta. change ([] ++ [NMsgPluralCase pc cv cb] ++ [NList p dflt]) with [NMsgPluralCase pc cv cb; NList p dflt].
  rewrite jfind_step. cbv iota beta. change ([NList p dflt] ++ [NList pc cb]) with [NList p dflt; NList pc cb].
  rewrite jfind_step. cbv iota beta. change ([NList pc cb] ++ dflt) with (NList pc cb :: dflt).
  rewrite jfind_step. cbv iota beta.
  apply jfind_flat; [|exact Hk]. rewrite forallb_app, Hd, Hc. reflexivity.
Qed.

(* a PO plural with any number of forms: one case per form, each placing its translation's items *)
Theorem js_plural_places_values id p vn pv pc cv cb dflt (trs : list (list titem)) msgs :
  vn <> [] \/ length trs <> 1%nat ->
  forallb flat_node cb = true -> forallb flat_node dflt = true ->
  Forall (fun tr => items_named (dflt ++ cb) tr /\ parts_clean (map item_part tr)) trs ->
  o_msgs o = Some msgs ->
  assoc_n id msgs = Some (jparts_of_cmsg (new_message vn (map msgstr_of trs))) ->
  visit_msg o w id [NMsgPlural p vn pv [NMsgPluralCase pc cv cb] dflt] =
  (jindent ;;; jtxt t_plural_open ;;; w pv ;;; jemit [CText t_plural_close; CText t_nl] ;;;
   indent_inc ;;;
   jplural_cases 0 (map (fun tr => jrun_items (map (resolve (dflt ++ cb)) tr)) trs) ;;;
   indent_dec ;;; jsln [CText t_rbrace]) ;;; jret tt.
Proof.
  intros Hv Hc Hd Htrs Ho Ha. unfold visit_msg. rewrite Ho, Ha.
  rewrite (new_message_plural vn (map msgstr_of trs)) by (rewrite map_length; exact Hv).
  cbn [jparts_of_cmsg jeval_parts].
  rewrite (jeval_plural_unfold _ vn _ p vn pv [NMsgPluralCase pc cv cb] dflt).
  2:{ cbn [jfind_plural]. rewrite beq_refl. reflexivity. }
  f_equal. f_equal.
  rewrite !map_map. 
  assert (Hm : map (fun x => jeval_parts w [NMsgPlural p vn pv [NMsgPluralCase pc cv cb] dflt] (map jpart_of (parts (msgstr_of x)))) trs
             = map (fun tr => jrun_items (map (resolve (dflt ++ cb)) tr)) trs).
  { apply map_ext_in. intros tr Hin. rewrite Forall_forall in Htrs. destruct (Htrs tr Hin) as [Hn Hcl].
    unfold msgstr_of. rewrite (parts_print_clean _ Hcl).
    apply jeval_parts_items; [|exact Hn]. intro name. apply jfind_plural_body; assumption. }
  rewrite Hm. reflexivity.
Qed.

End Js.
