(* C17 at command level, {plural}: parsePlural of Model/Parser.v = parseSwitch with the closing
   item "/plural" (the loop rules of Proofs/CmdRoundtripSwitch.v) + the conversion of the switch
   cases (single integer values, {default} required).  The tag is accepted only inside a {msg}. *)
From Soy Require Import Model.Bytes Model.Outcome Model.Num Model.Ast Model.Token Model.RawText Model.ExprParser Model.Parser Generated.Tables
  Spec.ExprSyntax Spec.CmdSyntax Proofs.ExprParserRules Proofs.CmdRoundtripBase Proofs.CmdRoundtripRules Proofs.CmdRoundtripSwitch
  Proofs.CmdRoundtripMsg.
From Coq Require Import Lia.
Open Scope N_scope.

(* the switch cases parseSwitch returns for the cases of a {plural} command *)
Definition sw_of_case (c : node) : node :=
  match c with
  | NMsgPluralCase cp cv b => NSwitchCase cp [NInt 0 cv] (NList (first_pos (blist_toks b)) b)
  | o => o
  end.
Definition sw_default (dflt : list node) : node := NSwitchCase 0 [] (NList (first_pos (blist_toks dflt)) dflt).

Section Plural.
Variable ns : bstr.
Variable al : list (bstr * bstr).
Variable inlen : N.
Variable lexq : bstr -> list tok.
Variable unq : bstr -> option bstr.
Variable efuel : list tok -> nat.

Notation PE g := (lift_expr inlen parse_expr g).
Notation IL g := (item_list inlen lexq unq parse_expr efuel g).
Notation BT g := (begin_tag inlen lexq unq parse_expr efuel (PE g) (IL g) g).
Notation Tag := (Tag ns al inlen lexq unq efuel).
Notation SwLoop := (SwLoop ns al inlen lexq unq efuel).

Lemma plural_cases_ok dflt : forall cases acc s, forallb is_pcase cases = true ->
  plural_cases inlen (map sw_of_case cases ++ [sw_default dflt]) acc None s = COk (acc ++ cases, Some dflt) s.
Proof.
  induction cases as [|c r IH]; intros acc s Hp.
  - cbn [map app plural_cases sw_default children_of]. rewrite app_nil_r. reflexivity.
  - cbn [forallb] in Hp. apply andb_true_iff in Hp. destruct Hp as [Hc Hr]. destruct c; try discriminate Hc.
    cbn [map app sw_of_case plural_cases children_of]. rewrite (IH _ s Hr), <- app_assoc. reflexivity.
Qed.

Lemma Tag_plural k l v rd l1 cs cases dflt rest :
  t_typ k = pit_Plural -> Parses 0 l v (rd :: l1) -> t_typ rd = pit_RightDelim ->
  SwLoop true (t_pos k) pit_PluralEnd v [] l1 (NSwitch (t_pos k) v cs) rest ->
  (forall s, plural_cases inlen cs [] None s = COk (cases, Some dflt) s) ->
  Tag true (k :: l) (NMsgPlural (t_pos k) [] v cases dflt) rest.
Proof.
  intros Hk HP Hrd HL Hpc s p0 sc0 Hs Hi Hm.
  cnext0 s Hs Hi p1 Hn1 Hs1 Hi1 Hsb1 Hib1.
  cexprp inlen s p1 HP Hs1 Hi1 p2 Hs2 Hi2 f1 HF1.
  cexpectp inlen pit_RightDelim x_switch s p2 Hs2 Hi2 Hrd p3 He3 Hs3 Hi3.
  destruct (HL s p3 sc0 Hs3 Hi3 Hm) as (p' & sc' & H1 & H2 & f0 & HF).
  exists p', sc'. repeat (split; [assumption|]). exists (max f0 f1). intros g lf Hg _.
  unfold begin_tag. rewrite Hn1. cbn [cbind]. rewrite !(tis_typ k _ _ Hk). dec_closed.
  unfold parse_plural. change (c_inmsg (set_ps s p1 sc0)) with (c_inmsg s). rewrite (proj1 Hm). cbn [negb].
  unfold parse_switch. rewrite (HF1 g) by lia. cbn [cbind]. rewrite He3. cbn [cbind].
  rewrite (HF g g) by lia. cbn [cbind]. rewrite Hpc. reflexivity.
Qed.
End Plural.
