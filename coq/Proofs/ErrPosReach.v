(* C19, parse half: composing the per-configuration scanner theorems with the scan that leads to the
   configuration.  [steps k] (Proofs/LexTokens.v) is k iterations of the state machine.

   [reach_run]: a scan that reaches a live configuration (st1, l1) after k steps continues from it --
   the whole run is the run from (st1, l1).  Hence, for ANY file s whose scan reaches the text state
   with the cursor before "plain text }" ([stray_brace_reached]), or the inside of a tag with the
   cursor before "white space, illegal character" ([illegal_char_reached]): the items of the whole
   file are the items sent so far followed by the error item just after the offending character,
   whose line is 1 + the line feeds before that character.

   What these theorems do NOT derive is the hypothesis itself -- that the scan of the FAULTED file
   reaches the configuration the scan of the valid file reaches at the same offset (prefix
   determinism of the scanner: its reads up to a configuration do not go beyond the common prefix,
   up to bounded look-ahead).  That is a property of every state function's look-ahead and is not
   proved here; the harness observes it on every injected fault (the model scanner and the real
   scanner agree item by item on the faulted files). *)
From Soy Require Import Model.Bytes Model.Utf8 Model.Outcome Model.Token Model.Lexer Generated.Tables Model.Interp Spec.ErrPos
  Proofs.Utf8Proofs Proofs.LexerPrim Proofs.LexTokens Proofs.ErrTokProofs Proofs.LexErrPos.
From Coq Require Import ZifyBool ZifyNat ZifyN Lia List.
Import ListNotations.
Open Scope Z_scope.

Section Reach.
Variable ul ud : Z -> bool.
Variable s : bstr.
Notation ilen := (Z.of_nat (length s)).
Notation steps := (steps ul ud s 0).
Notation run := (run ul ud s ilen 0).

Lemma steps_done k l : steps k LDone l = Ok (LDone, l).
Proof. induction k as [|k IH]; [reflexivity|]. cbn [LexTokens.steps step bind]. exact IH. Qed.

Lemma steps_live k st l st1 l1 :
  steps k st l = Ok (st1, l1) -> st1 <> LDone ->
  forall j, (j < k)%nat -> forall stj lj, steps j st l = Ok (stj, lj) -> stj <> LDone.
Proof.
  intros H Hl j Hj stj lj Hs E. subst stj.
  replace k with (j + (k - j))%nat in H by lia.
  rewrite (steps_app ul ud s 0 _ _ _ _ _ _ Hs) in H. rewrite steps_done in H. inversion H. congruence.
Qed.

Theorem reach_run k st l st1 l1 fuel :
  steps k st l = Ok (st1, l1) -> st1 <> LDone -> run (k + fuel) st l = run fuel st1 l1.
Proof. intros H Hl. apply run_steps; [exact H|]. eapply steps_live; eassumption. Qed.

(* a stray closing brace after plain text, from whatever configuration in the text state the scan has reached *)
Theorem stray_brace_reached k l txt rest fuel :
  steps k LText lex_init = Ok (LText, l) -> 0 <= l_pos l ->
  drop (Z.to_nat (l_pos l)) s = txt ++ 125%N :: rest -> Forall plain txt ->
  let e := err_item (l_pos l + Z.of_nat (length txt) + 1) e_close_brace in
  lex_items ul ud (k + S fuel) false s = Ok (rev (l_out l) ++ [e]) /\
  line_at s (t_pos e) = (1 + count_nl (take (Z.to_nat (l_pos l)) s ++ txt))%N.
Proof.
  intros Hk Hp Hd Hpl e. split.
  - unfold lex_items, lex_run, lex_run_at. cbn [entry_state].
    rewrite (reach_run _ _ _ _ _ (S fuel) Hk ltac:(discriminate)).
    destruct (stray_brace ul ud s 0 ltac:(lia) fuel l txt rest Hpl Hp Hd) as (l' & Hr & Ho).
    rewrite Hr. cbn [bind]. rewrite Ho. cbn [rev]. rewrite Z.add_0_l. reflexivity.
  - pose proof (take_drop (Z.to_nat (l_pos l)) s) as Hs. rewrite Hd in Hs.
    set (pre := take (Z.to_nat (l_pos l)) s ++ txt).
    assert (Es : s = pre ++ 125%N :: rest) by (unfold pre; rewrite <- app_assoc; symmetry; exact Hs).
    assert (Hlen : Z.of_nat (length (take (Z.to_nat (l_pos l)) s)) = l_pos l).
    { pose proof (f_equal (@length _) Hs) as HL. rewrite !app_length in HL. cbn [length] in HL.
      pose proof (drop_length (Z.to_nat (l_pos l)) s) as HD. rewrite Hd, app_length in HD. cbn [length] in HD. lia. }
    assert (Epos : t_pos e = (N.of_nat (length pre) + 1)%N).
    { unfold e, err_item, pre. cbn [t_pos]. rewrite app_length. lia. }
    rewrite Epos. rewrite Es at 1. apply stray_brace_line.
Qed.

(* an illegal character after white space inside a tag, from whatever configuration inside a tag *)
Theorem illegal_char_reached k l ws c rest fuel :
  steps k LText lex_init = Ok (LInsideTag, l) -> 0 <= l_pos l ->
  drop (Z.to_nat (l_pos l)) s = ws ++ c :: rest -> Forall space_byte ws -> (c < 128)%N -> reaches_default (Z.of_N c) = true ->
  c <> 10%N ->
  let e := err_item (l_pos l + Z.of_nat (length ws) + 1) e_bad_char in
  lex_items ul ud (k + (length ws + S fuel)) false s = Ok (rev (l_out l) ++ [e]) /\
  line_at s (t_pos e) = (1 + count_nl (take (Z.to_nat (l_pos l)) s ++ ws))%N.
Proof.
  intros Hk Hp Hd Hws Hc Hr Hnl e. split.
  - unfold lex_items, lex_run, lex_run_at. cbn [entry_state].
    rewrite (reach_run _ _ _ _ _ (length ws + S fuel) Hk ltac:(discriminate)).
    destruct (illegal_char ul ud s 0 ltac:(lia) ws fuel l c rest Hws Hp Hd Hc Hr) as (l' & Hrun & Ho).
    rewrite Hrun. cbn [bind]. rewrite Ho. cbn [rev]. rewrite Z.add_0_l. reflexivity.
  - pose proof (take_drop (Z.to_nat (l_pos l)) s) as Hs. rewrite Hd in Hs.
    set (pre := take (Z.to_nat (l_pos l)) s ++ ws).
    assert (Es : s = pre ++ c :: rest) by (unfold pre; rewrite <- app_assoc; symmetry; exact Hs).
    assert (Hlen : Z.of_nat (length (take (Z.to_nat (l_pos l)) s)) = l_pos l).
    { pose proof (f_equal (@length _) Hs) as HL. rewrite !app_length in HL. cbn [length] in HL.
      pose proof (drop_length (Z.to_nat (l_pos l)) s) as HD. rewrite Hd, app_length in HD. cbn [length] in HD. lia. }
    assert (Epos : t_pos e = (N.of_nat (length pre) + 1)%N).
    { unfold e, err_item, pre. cbn [t_pos]. rewrite app_length. lia. }
    rewrite Epos. rewrite Es at 1. apply illegal_char_line. exact Hnl.
Qed.
End Reach.
