(* C19, parse half: an unterminated block comment / string, from the TEXT of the fault.

   Proofs/LexEofPos.v shows where the error item stands WHEN the scanning loop of a block comment or a
   string ends the scan.  Here: that it does.  For every file s whose scan reaches the block-comment
   state at a cursor after which the input is ASCII and holds no closing `*/`, the items of s are the items sent so far followed by ONE error item,
   `unclosed comment`, at the end of the input -- on the last line of s.  (The string loop is not done here.) *)
From Soy Require Import Model.Bytes Model.Utf8 Model.Outcome Model.Token Model.Lexer Generated.Tables Model.Interp Spec.ErrPos
  Proofs.Utf8Proofs Proofs.LexerPrim Proofs.LexTokens Proofs.ErrTokProofs Proofs.LexErrPos Proofs.LexEofPos Proofs.ErrPosReach
  Proofs.LexPrefix.
From Coq Require Import ZifyBool ZifyNat ZifyN Lia List.
Import ListNotations.
Open Scope Z_scope.

Definition c19_ascii (c : N) : Prop := (c < 128)%N.

(* no `*/` in what follows; [star]: the byte before was a `*` *)
Fixpoint c19_no_close (star : bool) (body : bstr) : Prop :=
  match body with
  | [] => True
  | c :: t => (star = true -> c <> 47%N) /\ c19_no_close (N.eqb c 42) t
  end.

Section Unterminated.
Variable ul ud : Z -> bool.
Variable s : bstr.
Notation ilen := (Z.of_nat (length s)).

Lemma c19_drop_nil (p : Z) : 0 <= p -> drop (Z.to_nat p) s = [] -> ilen <= p.
Proof. intros Hp H. pose proof (f_equal (@length _) H) as HL. rewrite drop_len in HL. cbn [length] in HL. lia. Qed.

Lemma c19_drop_cons (p : Z) c t : 0 <= p -> drop (Z.to_nat p) s = c :: t -> p + 1 + Z.of_nat (length t) = ilen.
Proof. intros Hp H. pose proof (f_equal (@length _) H) as HL. rewrite drop_len in HL. cbn [length] in HL. lia. Qed.

Lemma c19_next_at_end l : 0 <= l_pos l -> ilen <= l_pos l ->
  exists l1, next s ilen l = Ok (eof, l1) /\ l_out l1 = l_out l /\ l_pos l1 = l_pos l.
Proof.
  intros Hp He. destruct (next_cases s l Hp) as (r & l1 & Hn & Ho & [(Hr & Hpos & _)|(_ & Hlt)]); [|lia].
  subst r. exists l1. auto.
Qed.

Lemma c19_block_comment_open body : forall fuel star l,
  Forall c19_ascii body -> c19_no_close star body -> 0 <= l_pos l <= ilen ->
  drop (Z.to_nat (l_pos l)) s = body -> (length body < fuel)%nat ->
  exists l', block_comment_loop s ilen 0 fuel star l = Ok (LDone, l') /\
             l_out l' = err_item ilen e_comment_eof :: l_out l.
Proof.
  induction body as [|c t IH]; intros fuel star l Ha Hnc [Hp Hle] Hd Hf; (destruct fuel as [|f]; [cbn [length] in Hf; lia|]); cbn [block_comment_loop].
  - pose proof (c19_drop_nil _ Hp Hd) as He. destruct (c19_next_at_end l Hp He) as (l1 & Hn & Ho & Hpos).
    rewrite Hn. cbn [bind]. change (eof =? eof) with true. cbn iota. unfold errorf.
    destruct (0 + l_pos l1 <? 0) eqn:E; [lia|]. eexists. split; [reflexivity|]. cbn [l_out]. rewrite Ho.
    f_equal. unfold err_item. f_equal.
    lia.
  - inversion Ha as [|? ? Hc Ha']; subst. cbn [c19_no_close] in Hnc. destruct Hnc as (Hs & Hnc).
    destruct (LexErrPos.next_ascii ul ud s l c t Hp Hd Hc) as [Hn Hd1]. rewrite Hn. cbn [bind].
    set (l1 := {| l_pos := l_pos l + 1; l_start := l_start l; l_width := 1; l_dd := l_dd l;
                  l_last := l_last l; l_out := l_out l; l_ticks := l_ticks l + 1 |}) in *.
    assert (Heof : (Z.of_N c =? eof) = false) by (unfold eof; lia). rewrite Heof.
    pose proof (c19_drop_cons _ _ _ Hp Hd) as Hlen.
    assert (Hp1 : 0 <= l_pos l1 <= ilen) by (unfold l1; cbn [l_pos]; lia).
    assert (Hf1 : (length t < f)%nat) by (cbn [length] in Hf; lia).
    destruct (Z.of_N c =? 42) eqn:E42.
    + assert (Ec : N.eqb c 42 = true) by (apply N.eqb_eq; lia). rewrite Ec in Hnc.
      destruct (IH f true l1 Ha' Hnc Hp1 Hd1 Hf1) as (l' & Hr & Ho). exists l'. split; [exact Hr|exact Ho].
    + assert (Ec : N.eqb c 42 = false) by (apply N.eqb_neq; lia). rewrite Ec in Hnc.
      destruct ((Z.of_N c =? 47) && star) eqn:E47.
      * exfalso. apply andb_prop in E47. destruct E47 as (E1 & E2). apply (Hs E2). lia.
      * destruct (IH f false l1 Ha' Hnc Hp1 Hd1 Hf1) as (l' & Hr & Ho). exists l'. split; [exact Hr|exact Ho].
Qed.

(* an unterminated block comment, from whatever configuration in the block-comment state the scan of s has reached
   (the cursor stands after the opening slash-star): if no star-slash follows, the items of s are the items sent so far
   and the error item at the end of the input, whose line is the last line of s *)
Theorem c19_unterminated_comment_reached k l body fuel :
  steps ul ud s 0 k LText lex_init = Ok (LBlockComment, l) -> 0 <= l_pos l <= ilen ->
  drop (Z.to_nat (l_pos l)) s = body -> Forall c19_ascii body -> c19_no_close false body ->
  let e := err_item ilen e_comment_eof in
  lex_items ul ud (k + S fuel) false s = Ok (rev (l_out l) ++ [e]) /\
  t_pos e = N.of_nat (length s) /\ line_at s (t_pos e) = lines s /\
  (forall opened, (opened <= N.of_nat (length s))%N -> (line_at s opened <= line_at s (t_pos e))%N).
Proof.
  intros Hk Hp Hd Ha Hnc e.
  assert (Ep : t_pos e = N.of_nat (length s)) by (unfold e, err_item; cbn [t_pos]; lia).
  split; [|split; [exact Ep|split]].
  - unfold lex_items, lex_run, lex_run_at. cbn [entry_state].
    rewrite (reach_run ul ud s _ _ _ _ _ (S fuel) Hk ltac:(discriminate)).
    cbn [run step]. unfold lex_block_comment.
    destruct (c19_block_comment_open body (loop_fuel ilen l) false l Ha Hnc Hp Hd) as (l' & Hr & Ho).
    { unfold loop_fuel. pose proof (f_equal (@length _) Hd) as HL. rewrite drop_len in HL. lia. }
    rewrite Hr. cbn [bind]. replace (run ul ud s ilen 0 fuel LDone l') with (Ok l') by (destruct fuel; reflexivity).
    cbn [bind]. rewrite Ho. cbn [rev]. reflexivity.
  - rewrite Ep. exact (proj1 (end_of_input_line s 0%N ltac:(lia))).
  - intros opened Ho. rewrite Ep. exact (proj2 (end_of_input_line s opened Ho)).
Qed.
End Unterminated.
