(* C07: the model of parsepasses.CheckDataRefs (Model/Checker.v) accepts exactly
   what the Spec (Spec/Wf.v) calls well-formed.

   Plan.  The checker threads a stack of bindings with used-flags and a list of
   used keys.  [mark_by f vs] is the stack [vs] after every name x with [f x]
   has been referenced once: the innermost binding of x gets its flag (the
   predicate handed to the rest of the stack forgets x -- that is shadowing).
   [chk_spec]: on a tree t, started with stack vs and G/L the names / loop
   names of vs, the checker succeeds exactly when [wf t G L], and then leaves
   [mark_by (fun x => refs x t) vs] (plus the binding of t itself when t is a
   {let}), and has added to the used keys exactly the params that t references
   freely (and that vs does not bind) or forwards by data="all". *)
From Coq Require Import Lia.
From Soy Require Import Model.Bytes Model.Values Model.Outcome Model.Ast Model.RefView Model.Checker Spec.Wf
  Generated.Tables Proofs.ValueProofs.
Open Scope N_scope.

(* the loop functions of the model are soyhtml's loopFuncs (regenerated table) *)
Lemma loop_func_names_table : loop_func_names = html_loop_funcs.
Proof. reflexivity. Qed.

(* ------------------------------------------------------------------ *)
(* induction on views *)

Lemma rt_induction (P : rt -> Prop) :
  (forall k kids, Forall P kids -> P (RT k kids)) -> forall t, P t.
Proof.
  intros H. fix IH 1. intros [k kids]. apply H.
  induction kids as [|c r IHr]; constructor; [apply IH | exact IHr].
Qed.

Lemma tt_iff : true = true <-> True. Proof. tauto. Qed.
Lemma ft_iff : false = true <-> False. Proof. split; [discriminate | tauto]. Qed.

(* ------------------------------------------------------------------ *)
(* contains *)

Lemma contains_In l x : contains l x = true <-> In x l.
Proof.
  induction l as [|y r IH]; cbn [contains In]; [split; [discriminate | tauto]|].
  rewrite orb_true_iff, IH. destruct (bstr_eqb_spec y x); split; intros [H|H]; auto; congruence.
Qed.

Lemma contains_false l x : contains l x = false <-> ~ In x l.
Proof. rewrite <- contains_In. destruct (contains l x); split; congruence. Qed.

Lemma contains_app l1 l2 x : contains (l1 ++ l2) x = contains l1 x || contains l2 x.
Proof. induction l1 as [|y r IH]; cbn [contains app]; [reflexivity|]. rewrite IH, orb_assoc. reflexivity. Qed.

Lemma contains_filter f l x : contains (filter f l) x = contains l x && f x.
Proof.
  induction l as [|y r IH]; cbn [contains filter]; [reflexivity|].
  destruct (f y) eqn:Hf; cbn [contains]; rewrite IH.
  - destruct (bstr_eqb_spec y x) as [->|]; cbn [orb]; [rewrite Hf | reflexivity].
    destruct (contains r x); reflexivity.
  - destruct (bstr_eqb_spec y x) as [->|]; cbn [orb]; [rewrite Hf | reflexivity].
    rewrite andb_false_r. reflexivity.
Qed.

Lemma forallb_ext_in {A} (f g : A -> bool) l :
  (forall x, In x l -> f x = g x) -> forallb f l = forallb g l.
Proof.
  induction l as [|y r IH]; intros H; cbn [forallb]; [reflexivity|].
  rewrite (H y (or_introl eq_refl)), IH; [reflexivity|]. intros x Hx. apply H. right. exact Hx.
Qed.

Lemma existsb_ext {A} (f g : A -> bool) l : (forall x, f x = g x) -> existsb f l = existsb g l.
Proof. intros H. induction l as [|y r IH]; cbn [existsb]; [reflexivity|]. rewrite H, IH. reflexivity. Qed.

(* ------------------------------------------------------------------ *)
(* the stack after a set of references *)

Definition set_used (v : binding) : binding := {| b_name := b_name v; b_let := b_let v; b_used := true |}.

Fixpoint mark_by (f : bstr -> bool) (vs : list binding) : list binding :=
  match vs with
  | [] => []
  | v :: r => (if f (b_name v) then set_used v else v)
              :: mark_by (fun y => f y && negb (bstr_eqb (b_name v) y)) r
  end.

Definition names (vs : list binding) : list bstr := map b_name vs.
Definition loop_names (vs : list binding) : list bstr := map b_name (filter (fun v => negb (b_let v)) vs).

Lemma mark_by_ext f g vs : (forall y, f y = g y) -> mark_by f vs = mark_by g vs.
Proof.
  revert f g. induction vs as [|v r IH]; intros f g H; cbn [mark_by]; [reflexivity|].
  rewrite H. f_equal. apply IH. intros y. rewrite H. reflexivity.
Qed.

Lemma mark_by_ext_in f g vs : (forall y, In y (map b_name vs) -> f y = g y) -> mark_by f vs = mark_by g vs.
Proof.
  revert f g. induction vs as [|v r IH]; intros f g H; cbn [mark_by]; [reflexivity|].
  rewrite (H (b_name v)) by (left; reflexivity). f_equal. apply IH. intros y Hy.
  rewrite (H y) by (right; exact Hy). reflexivity.
Qed.

Lemma mark_by_false vs : mark_by (fun _ => false) vs = vs.
Proof.
  induction vs as [|v r IH]; cbn [mark_by]; [reflexivity|]. f_equal.
  rewrite <- IH at 2. apply mark_by_ext. reflexivity.
Qed.

Lemma mark_by_names f vs : names (mark_by f vs) = names vs.
Proof.
  revert f. induction vs as [|v r IH]; intros f; cbn [mark_by names map]; [reflexivity|].
  f_equal; [destruct (f (b_name v)); reflexivity | apply IH].
Qed.

Lemma mark_by_loop_names f vs : loop_names (mark_by f vs) = loop_names vs.
Proof.
  revert f. induction vs as [|v r IH]; intros f; cbn [mark_by loop_names filter map]; [reflexivity|].
  fold (loop_names r). specialize (IH (fun y => f y && negb (bstr_eqb (b_name v) y))). unfold loop_names in IH.
  destruct (f (b_name v)); cbn [set_used b_let]; destruct (b_let v); cbn [negb map]; rewrite ?IH; reflexivity.
Qed.

Lemma mark_by_length f vs : length (mark_by f vs) = length vs.
Proof. rewrite <- (map_length b_name), <- (map_length b_name vs). apply (f_equal (@length _)). apply mark_by_names. Qed.

Lemma mark_by_comp f g vs : mark_by f (mark_by g vs) = mark_by (fun y => g y || f y) vs.
Proof.
  revert f g. induction vs as [|v r IH]; intros f g; cbn [mark_by]; [reflexivity|].
  f_equal.
  - destruct (g (b_name v)) eqn:Hg; cbn [set_used b_name orb].
    + destruct (f (b_name v)); reflexivity.
    + reflexivity.
  - assert (Hn : b_name (if g (b_name v) then set_used v else v) = b_name v) by (destruct (g (b_name v)); reflexivity).
    rewrite Hn, IH. apply mark_by_ext. intros y.
    destruct (g y), (f y), (bstr_eqb (b_name v) y); reflexivity.
Qed.

(* one reference: visitKey's loop *)
Lemma mark_spec key vs :
  mark key vs = if contains (names vs) key then Some (mark_by (fun y => bstr_eqb y key) vs) else None.
Proof.
  induction vs as [|v r IH]; cbn [mark names map contains mark_by]; [reflexivity|].
  destruct (bstr_eqb_spec (b_name v) key) as [He|Hne]; cbn [orb].
  - f_equal. unfold set_used. f_equal.
    rewrite <- (mark_by_false r) at 1. apply mark_by_ext. intros y.
    destruct (bstr_eqb_spec y key) as [->|]; [|reflexivity]. rewrite He, bstr_eqb_refl. reflexivity.
  - fold (names r). rewrite IH. destruct (contains (names r) key); [|reflexivity].
    f_equal. f_equal. apply mark_by_ext. intros y.
    destruct (bstr_eqb_spec y key) as [->|]; [|reflexivity].
    destruct (bstr_eqb_spec (b_name v) key); [contradiction | reflexivity].
Qed.

Lemma loop_names_spec key vs :
  existsb (fun v => negb (b_let v) && bstr_eqb (b_name v) key) vs = contains (loop_names vs) key.
Proof.
  induction vs as [|v r IH]; cbn [existsb loop_names filter map contains]; [reflexivity|].
  fold (loop_names r). destruct (b_let v); cbn [negb andb orb map contains]; rewrite IH; reflexivity.
Qed.

(* ------------------------------------------------------------------ *)
(* one template: the checker against the Spec *)

Section Template.
Variable templates : list template.
Variable params : list bstr.

Notation wf := (wf templates params).
Notation forwards := (forwards templates).
Notation chk := (chk templates params).
Notation chk_body := (chk_body templates params).

Definition rseq (x : bstr) (ks : list rt) : bool := refs_seq x ks (map (refs x) ks).
Definition fseq (p : bstr) (ks : list rt) : bool := existsb (forwards p) ks.

Lemma rseq_cons x c r : rseq x (c :: r) = refs x c || (negb (binds_let x c) && rseq x r).
Proof. reflexivity. Qed.
Lemma fseq_cons p c r : fseq p (c :: r) = forwards p c || fseq p r.
Proof. reflexivity. Qed.

Definition push_of (t : rt) : list binding :=
  match rt_kind t with KLet x => [{| b_name := x; b_let := true; b_used := false |}] | _ => [] end.

(* wf_seq = scoping + every let used *)
Fixpoint scope_seq (ks : list rt) (ws : list wfun) (G L : list bstr) : bool :=
  match ks, ws with
  | c :: ks', w :: ws' =>
      w G L && match rt_kind c with
               | KLet x => scope_seq ks' ws' (x :: G) L
               | _ => scope_seq ks' ws' G L
               end
  | _, _ => true
  end.
Fixpoint lets_used (ks : list rt) : bool :=
  match ks with
  | [] => true
  | c :: r => match rt_kind c with KLet x => rseq x r | _ => true end && lets_used r
  end.
(* the bindings the lets of a sibling list leave on the stack (innermost first), with their final flags *)
Fixpoint seq_lets (ks : list rt) : list binding :=
  match ks with
  | [] => []
  | c :: r => seq_lets r ++ match rt_kind c with
                            | KLet x => [{| b_name := x; b_let := true; b_used := rseq x r |}]
                            | _ => []
                            end
  end.

Lemma wf_seq_split ks G L : wf_seq ks (map wf ks) G L = scope_seq ks (map wf ks) G L && lets_used ks.
Proof.
  revert G. induction ks as [|c r IH]; intros G; cbn [wf_seq scope_seq lets_used map]; [reflexivity|].
  destruct (rt_kind c); rewrite IH; unfold rseq;
    repeat match goal with |- context [Wf.wf templates params c G L] => destruct (Wf.wf templates params c G L) end;
    cbn [andb]; try reflexivity;
    repeat match goal with |- context [scope_seq ?a ?b ?c ?d] => destruct (scope_seq a b c d) end;
    cbn [andb]; try reflexivity; rewrite ?andb_true_r, ?andb_false_r; reflexivity.
Qed.

Lemma seq_lets_unused ks :
  existsb (fun v => b_let v && negb (b_used v)) (seq_lets ks) = negb (lets_used ks).
Proof.
  induction ks as [|c r IH]; cbn [seq_lets lets_used existsb]; [reflexivity|].
  rewrite existsb_app, IH. destruct (rt_kind c); cbn [existsb andb orb b_let b_used]; rewrite ?orb_false_r; try reflexivity.
  destruct (rseq name r), (lets_used r); reflexivity.
Qed.

(* the used keys gained by a run: exactly the params referenced freely (and not bound by the stack) or forwarded *)
Definition adds (G : list bstr) (rf fw : bstr -> bool) (u u' : list bstr) : Prop :=
  forall k, In k u' <-> In k u \/ (In k params /\ (negb (contains G k) && rf k || fw k) = true).

Lemma adds_refl G u : adds G (fun _ => false) (fun _ => false) u u.
Proof. intros k. rewrite andb_false_r. cbn. intuition congruence. Qed.

Lemma adds_ext G rf fw rf' fw' u u' :
  (forall k, negb (contains G k) && rf k || fw k = negb (contains G k) && rf' k || fw' k) ->
  adds G rf fw u u' -> adds G rf' fw' u u'.
Proof. intros He H k. rewrite (H k), He. reflexivity. Qed.

Lemma adds_trans G G' rf1 fw1 rf2 fw2 rf fw u u1 u2 :
  adds G rf1 fw1 u u1 -> adds G' rf2 fw2 u1 u2 ->
  (forall k, negb (contains G k) && rf k || fw k
             = (negb (contains G k) && rf1 k || fw1 k) || (negb (contains G' k) && rf2 k || fw2 k)) ->
  adds G rf fw u u2.
Proof.
  intros H1 H2 He k. rewrite (H2 k), (H1 k), He.
  destruct (negb (contains G k) && rf1 k || fw1 k), (negb (contains G' k) && rf2 k || fw2 k); cbn [orb]; intuition congruence.
Qed.

Definition chk_ok (t : rt) : Prop :=
  loops_ok t = true -> forall st,
  if wf t (names (vars st)) (loop_names (vars st))
  then exists st', chk t st = CO st'
       /\ vars st' = push_of t ++ mark_by (fun x => refs x t) (vars st)
       /\ adds (names (vars st)) (fun k => refs k t) (fun k => forwards k t) (used_keys st) (used_keys st')
  else exists r, chk t st = CR r.

Lemma names_app a c : names (a ++ c) = names a ++ names c.
Proof. apply map_app. Qed.
Lemma loop_names_app a c : loop_names (a ++ c) = loop_names a ++ loop_names c.
Proof. unfold loop_names. rewrite filter_app, map_app. reflexivity. Qed.

Lemma names_push t vs : names (push_of t ++ vs) = match rt_kind t with KLet x => x :: names vs | _ => names vs end.
Proof. unfold push_of. destruct (rt_kind t); reflexivity. Qed.
Lemma loop_names_push t vs : loop_names (push_of t ++ vs) = loop_names vs.
Proof. unfold push_of. destruct (rt_kind t); reflexivity. Qed.

(* the loop over the children, before the pop *)
Lemma run_each_spec ks : Forall chk_ok ks -> forallb loops_ok ks = true -> forall st,
  if scope_seq ks (map wf ks) (names (vars st)) (loop_names (vars st))
  then exists st', run_each (map chk ks) st = CO st'
       /\ vars st' = seq_lets ks ++ mark_by (fun x => rseq x ks) (vars st)
       /\ adds (names (vars st)) (fun k => rseq k ks) (fun k => fseq k ks) (used_keys st) (used_keys st')
  else exists r, run_each (map chk ks) st = CR r.
Proof.
  induction ks as [|c r IH]; intros Hall Hlo st; cbn [scope_seq map run_each].
  - exists st. split; [reflexivity|]. split; [cbn; symmetry; apply mark_by_false | apply adds_refl].
  - inversion Hall as [|? ? Hc Hr]; subst. cbn [forallb] in Hlo. apply andb_true_iff in Hlo as [Hlc Hlr].
    specialize (Hc Hlc st).
    destruct (Wf.wf templates params c (names (vars st)) (loop_names (vars st))) eqn:Hwc; cbn [andb].
    2:{ destruct Hc as [e He]. exists e. rewrite He. reflexivity. }
    destruct Hc as (st1 & He1 & Hv1 & Ha1). rewrite He1. cbn [cbind].
    specialize (IH Hr Hlr st1).
    assert (HG : names (vars st1) = match rt_kind c with KLet x => x :: names (vars st) | _ => names (vars st) end)
      by (rewrite Hv1, names_push, mark_by_names; reflexivity).
    assert (HL : loop_names (vars st1) = loop_names (vars st))
      by (rewrite Hv1, loop_names_push, mark_by_loop_names; reflexivity).
    rewrite HL in IH.
    assert (Hsc : scope_seq r (map wf r) (names (vars st1)) (loop_names (vars st))
                  = match rt_kind c with
                    | KLet x => scope_seq r (map wf r) (x :: names (vars st)) (loop_names (vars st))
                    | _ => scope_seq r (map wf r) (names (vars st)) (loop_names (vars st))
                    end) by (rewrite HG; destruct (rt_kind c); reflexivity).
    rewrite Hsc in IH.
    destruct (match rt_kind c with KLet x => _ | _ => _ end) eqn:Hs.
    2:{ exact IH. }
    destruct IH as (st2 & He2 & Hv2 & Ha2). exists st2. split; [exact He2|]. split.
    + rewrite Hv2, Hv1. cbn [seq_lets]. unfold push_of.
      destruct (rt_kind c) eqn:Hk; cbn [app]; rewrite ?app_nil_r;
        try (f_equal; rewrite mark_by_comp; apply mark_by_ext; intros y; rewrite rseq_cons;
             unfold binds_let; rewrite Hk; rewrite andb_true_l; reflexivity).
      (* c is a let *)
      cbn [mark_by b_name]. rewrite <- app_assoc. cbn [app]. f_equal. f_equal.
      * unfold set_used. cbn. destruct (rseq name r); reflexivity.
      * rewrite mark_by_comp. apply mark_by_ext. intros y. rewrite rseq_cons.
        unfold binds_let. rewrite Hk.
        destruct (refs y c), (rseq y r), (bstr_eqb name y); reflexivity.
    + eapply adds_trans; [exact Ha1 | exact Ha2 |]. intros k. rewrite HG.
      rewrite rseq_cons, fseq_cons. unfold binds_let. destruct (rt_kind c) eqn:Hk; cbn [contains negb andb];
        try (destruct (contains (names (vars st)) k), (refs k c), (rseq k r), (Wf.forwards templates k c), (fseq k r); reflexivity).
      destruct (contains (names (vars st)) k), (refs k c), (rseq k r), (Wf.forwards templates k c), (fseq k r), (bstr_eqb name k); reflexivity.
Qed.

(* recurse: the loop, then the pop with the unused-let check *)
Lemma recurse_spec ks : Forall chk_ok ks -> forallb loops_ok ks = true -> forall st,
  if wf_seq ks (map wf ks) (names (vars st)) (loop_names (vars st))
  then exists st', chk_recurse (map chk ks) st = CO st'
       /\ vars st' = mark_by (fun x => rseq x ks) (vars st)
       /\ adds (names (vars st)) (fun k => rseq k ks) (fun k => fseq k ks) (used_keys st) (used_keys st')
  else exists r, chk_recurse (map chk ks) st = CR r.
Proof.
  intros Hall Hlo st. pose proof (run_each_spec ks Hall Hlo st) as H.
  rewrite wf_seq_split. unfold chk_recurse.
  destruct (scope_seq ks (map wf ks) (names (vars st)) (loop_names (vars st))); cbn [andb].
  2:{ destruct H as [e He]. exists e. rewrite He. reflexivity. }
  destruct H as (st1 & He & Hv & Ha). rewrite He. cbn [cbind].
  assert (Hn : (length (vars st1) - length (vars st))%nat = length (seq_lets ks))
    by (rewrite Hv, app_length, mark_by_length; lia).
  rewrite Hn, Hv, firstn_app, Nat.sub_diag, firstn_all, firstn_O, app_nil_r.
  rewrite skipn_app, Nat.sub_diag, skipn_all, skipn_O. cbn [app].
  rewrite seq_lets_unused. destruct (lets_used ks); cbn [negb].
  - eexists. split; [reflexivity|]. split; [reflexivity | exact Ha].
  - eexists. reflexivity.
Qed.

(* checkCall *)
Lemma all_keys_spec pkeys :
  all_keys pkeys = if forallb (fun o => match o with Some _ => true | None => false end) pkeys
                   then Some (keys_of pkeys) else None.
Proof.
  induction pkeys as [|[k|] r IH]; cbn [all_keys forallb keys_of flat_map]; [reflexivity| |reflexivity].
  rewrite IH. cbn [andb]. destruct (forallb _ r); reflexivity.
Qed.

Lemma required_declared (ps : list (bstr * bool)) r :
  In r (map fst (filter (fun p => negb (snd p)) ps)) -> contains (map fst ps) r = true.
Proof.
  intros H. apply contains_In. apply in_map_iff in H as (p & <- & Hp). apply filter_In in Hp as [Hp _].
  apply in_map. exact Hp.
Qed.

Lemma check_call_spec name alldata hasdata pkeys st :
  if call_ok templates params name alldata hasdata pkeys
  then exists st', check_call templates params name alldata hasdata pkeys st = CO st'
       /\ vars st' = vars st
       /\ forall k, In k (used_keys st') <->
                    In k (used_keys st) \/ (In k params /\ forwards k (RT (KCall name alldata hasdata pkeys) []) = true)
  else exists r, check_call templates params name alldata hasdata pkeys st = CR r.
Proof.
  unfold call_ok, check_call. cbn [Wf.forwards existsb]. destruct (find_template templates name) as [callee|]; [|eexists; reflexivity].
  rewrite all_keys_spec. destruct (forallb _ pkeys); cbn [andb]; [|eexists; reflexivity].
  set (declared := map fst (t_params callee)).
  set (passed := if alldata then filter (contains declared) params else []).
  assert (Hpassed : forallb (contains declared) passed = true).
  { apply forallb_forall. intros x Hx. subst passed. destruct alldata; [|destruct Hx].
    apply filter_In in Hx. tauto. }
  rewrite forallb_app, Hpassed. cbn [andb].
  destruct (forallb (contains declared) (keys_of pkeys)); cbn [andb negb]; [|eexists; reflexivity].
  assert (Hu : forall k, In k (used_keys st ++ passed) <->
               In k (used_keys st) \/ (In k params /\ (if alldata then contains declared k else false) || false = true)).
  { intros k. rewrite in_app_iff, orb_false_r. subst passed. destruct alldata.
    - rewrite filter_In. tauto.
    - cbn. intuition congruence. }
  assert (Hreq : forallb (contains (passed ++ keys_of pkeys)) (map fst (filter (fun p => negb (snd p)) (t_params callee)))
                 = forallb (fun r => contains (keys_of pkeys) r || alldata && contains params r)
                           (map fst (filter (fun p => negb (snd p)) (t_params callee)))).
  { apply forallb_ext_in. intros r Hr. rewrite contains_app. subst passed.
    destruct alldata; cbn [andb contains]; [|rewrite orb_false_r; reflexivity].
    rewrite contains_filter. subst declared. rewrite (required_declared _ _ Hr), andb_true_r. apply orb_comm. }
  destruct hasdata; cbn [orb].
  - eexists. split; [reflexivity|]. split; [reflexivity|]. cbn [used_keys]. destruct alldata; exact Hu.
  - rewrite Hreq. match goal with |- if ?c then _ else _ => destruct c end; cbn [negb].
    + eexists. split; [reflexivity|]. split; [reflexivity|]. cbn [used_keys]. destruct alldata; exact Hu.
    + eexists. reflexivity.
Qed.

Lemma check_loop_func_spec name arg0 st :
  check_loop_func name arg0 st = if loopfunc_ok name arg0 (loop_names (vars st)) then CO st else CR RLoopFunc.
Proof.
  unfold check_loop_func, loopfunc_ok. destruct (contains loop_func_names name); cbn [negb orb]; [|reflexivity].
  destruct arg0 as [key|]; [|reflexivity]. rewrite loop_names_spec. reflexivity.
Qed.

(* sibling lists without lets *)
Definition no_lets (ks : list rt) : bool := negb (existsb (fun c => is_let_kind (rt_kind c)) ks).

Lemma no_lets_cons c r : no_lets (c :: r) = true -> is_let_kind (rt_kind c) = false /\ no_lets r = true.
Proof. unfold no_lets. cbn [existsb]. destruct (is_let_kind (rt_kind c)); cbn; [discriminate|]. auto. Qed.

Lemma no_lets_push c : is_let_kind (rt_kind c) = false -> push_of c = [].
Proof. unfold push_of. destruct (rt_kind c); cbn; congruence. Qed.

Lemma no_lets_seq ks : no_lets ks = true ->
  seq_lets ks = [] /\ lets_used ks = true
  /\ (forall x, rseq x ks = existsb (fun r => r) (map (refs x) ks))
  /\ (forall G L, scope_seq ks (map wf ks) G L = forallb (fun w => w G L) (map wf ks)).
Proof.
  induction ks as [|c r IH]; intros H.
  - repeat split; reflexivity.
  - apply no_lets_cons in H as [Hc Hr]. destruct (IH Hr) as (H1 & H2 & H3 & H4).
    cbn [seq_lets lets_used scope_seq map forallb existsb]. rewrite H1, H2.
    repeat split.
    + destruct (rt_kind c); cbn in Hc; try discriminate; reflexivity.
    + destruct (rt_kind c); cbn in Hc; try discriminate; reflexivity.
    + intros x. rewrite rseq_cons, H3. unfold binds_let. destruct (rt_kind c); cbn in Hc; try discriminate; reflexivity.
    + intros G L. rewrite <- H4. destruct (rt_kind c); cbn in Hc; try discriminate; reflexivity.
Qed.

(* unfolding equations *)
Lemma chk_RT k kids : chk (RT k kids) = chk_body k (map chk kids).
Proof. reflexivity. Qed.
Lemma wf_RT k kids : wf (RT k kids) = wf_body templates params k kids (map wf kids).
Proof. reflexivity. Qed.
Lemma refs_RT x k kids : refs x (RT k kids) = refs_body x k kids (map (refs x) kids).
Proof. reflexivity. Qed.
Lemma loops_ok_RT k kids :
  loops_ok (RT k kids) = (match k with KFor _ => (2 <=? length kids)%nat && no_lets kids | _ => true end) && forallb loops_ok kids.
Proof. reflexivity. Qed.

(* a parent whose own step leaves the stack alone and whose own references/forwards are [rf0]/[fw0] *)
Lemma after_step kids st st1 (rf0 fw0 : bstr -> bool) :
  Forall chk_ok kids -> forallb loops_ok kids = true ->
  names (vars st1) = names (vars st) -> loop_names (vars st1) = loop_names (vars st) ->
  (forall k, In k (used_keys st1) <-> In k (used_keys st) \/ (In k params /\ (negb (contains (names (vars st)) k) && rf0 k || fw0 k) = true)) ->
  if wf_seq kids (map wf kids) (names (vars st)) (loop_names (vars st))
  then exists st', chk_recurse (map chk kids) st1 = CO st'
       /\ vars st' = mark_by (fun x => rseq x kids) (vars st1)
       /\ adds (names (vars st)) (fun k => rf0 k || rseq k kids) (fun k => fw0 k || fseq k kids) (used_keys st) (used_keys st')
  else exists r, chk_recurse (map chk kids) st1 = CR r.
Proof.
  intros IH Hlk HG HL Hu. pose proof (recurse_spec kids IH Hlk st1) as H. rewrite HG, HL in H.
  destruct (wf_seq kids (map wf kids) (names (vars st)) (loop_names (vars st))); [|exact H].
  destruct H as (st' & He & Hv & Ha). exists st'. split; [exact He|]. split; [exact Hv|].
  eapply adds_trans; [exact Hu | exact Ha |]. intros k.
  destruct (contains (names (vars st)) k), (rf0 k), (fw0 k), (rseq k kids), (fseq k kids); reflexivity.
Qed.

Theorem chk_ok_all : forall t, chk_ok t.
Proof.
  apply rt_induction. intros k kids IH Hlo st.
  rewrite loops_ok_RT in Hlo. apply andb_true_iff in Hlo as [Hk Hlk].
  rewrite wf_RT, chk_RT.
  set (G := names (vars st)). set (L := loop_names (vars st)).
  assert (Hsame : forall k0, In k0 (used_keys st) <-> In k0 (used_keys st) \/ (In k0 params /\ (negb (contains G k0) && false || false) = true)).
  { intros k0. rewrite andb_false_r. cbn. intuition congruence. }
  destruct k.
  - (* block *)
    cbn [wf_body chk_body].
    pose proof (after_step kids st st (fun _ => false) (fun _ => false) IH Hlk eq_refl eq_refl Hsame) as H.
    fold G L in H. destruct (wf_seq kids (map wf kids) G L); [|exact H].
    destruct H as (st' & He & Hv & Ha). exists st'. split; [exact He|]. split; [exact Hv | exact Ha].
  - (* let *)
    cbn [wf_body chk_body]. destruct (bstr_eqb name s_ij); cbn [negb andb]; [eexists; reflexivity|].
    pose proof (after_step kids st st (fun _ => false) (fun _ => false) IH Hlk eq_refl eq_refl Hsame) as H.
    fold G L in H. destruct (wf_seq kids (map wf kids) G L).
    + destruct H as (st' & He & Hv & Ha). rewrite He. cbn [cbind]. eexists. split; [reflexivity|].
      split; [cbn; rewrite Hv; reflexivity | exact Ha].
    + destruct H as [e He]. rewrite He. eexists. reflexivity.
  - (* call *)
    cbn [wf_body chk_body].
    pose proof (check_call_spec name alldata hasdata pkeys st) as Hc.
    destruct (call_ok templates params name alldata hasdata pkeys); cbn [andb].
    2:{ destruct Hc as [e He]. rewrite He. eexists. reflexivity. }
    destruct Hc as (st1 & He1 & Hv1 & Hu1). rewrite He1. cbn [cbind].
    pose proof (after_step kids st st1 (fun _ => false) (fun k0 => Wf.forwards templates k0 (RT (KCall name alldata hasdata pkeys) []))
                  IH Hlk (f_equal names Hv1) (f_equal loop_names Hv1)) as H.
    fold G L in H. destruct (wf_seq kids (map wf kids) G L).
    + destruct H as (st' & He & Hv & Ha).
      { intros k0. rewrite (Hu1 k0), andb_false_r. reflexivity. }
      exists st'. split; [exact He|]. split; [rewrite Hv, Hv1; reflexivity|].
      eapply adds_ext; [|exact Ha]. intros k0. cbn [Wf.forwards existsb]. rewrite !orb_false_r. reflexivity.
    + apply H. intros k0. rewrite (Hu1 k0), andb_false_r. reflexivity.
  - (* for *)
    destruct kids as [|l [|body ie]]; cbn in Hk; try discriminate.
    apply no_lets_cons in Hk as [Hnl Hk]. apply no_lets_cons in Hk as [Hnb Hnie].
    inversion IH as [|? ? Hl IH1]; subst. inversion IH1 as [|? ? Hb Hie]; subst.
    cbn [forallb] in Hlk. apply andb_true_iff in Hlk as [Hll Hlk]. apply andb_true_iff in Hlk as [Hlb Hlie].
    cbn [wf_body chk_body map].
    specialize (Hl Hll st). fold G L in Hl.
    destruct (Wf.wf templates params l G L); cbn [andb].
    2:{ destruct Hl as [e He]. rewrite He. eexists. reflexivity. }
    destruct Hl as (st1 & He1 & Hv1 & Ha1). rewrite He1. cbn [cbind]. rewrite (no_lets_push _ Hnl) in Hv1. cbn [app] in Hv1.
    set (bx := {| b_name := var; b_let := false; b_used := false |}).
    specialize (Hb Hlb (push_var st1 bx)).
    assert (HG1 : names (vars (push_var st1 bx)) = var :: G) by (cbn; rewrite Hv1; fold (names (mark_by (fun x => refs x l) (vars st))); rewrite mark_by_names; reflexivity).
    assert (HL1 : loop_names (vars (push_var st1 bx)) = var :: L).
    { cbn [push_var set_vars vars]. unfold loop_names at 1. cbn [filter bx b_let negb map]. fold (loop_names (vars st1)).
      rewrite Hv1, mark_by_loop_names. reflexivity. }
    rewrite HG1, HL1 in Hb.
    destruct (Wf.wf templates params body (var :: G) (var :: L)); cbn [andb].
    2:{ destruct Hb as [e He]. rewrite He. eexists. reflexivity. }
    destruct Hb as (st2 & He2 & Hv2 & Ha2). rewrite He2. cbn [cbind].
    rewrite (no_lets_push _ Hnb) in Hv2. cbn [app push_var set_vars vars mark_by] in Hv2.
    destruct (no_lets_seq ie Hnie) as (Hs1 & _ & Hs3 & Hs4).
    pose proof (run_each_spec ie Hie Hlie (set_vars st2 (tl (vars st2)))) as H3.
    assert (Hv3 : vars (set_vars st2 (tl (vars st2))) = mark_by (fun y => refs y l || (refs y body && negb (bstr_eqb var y))) (vars st)).
    { cbn [set_vars vars]. rewrite Hv2. cbn [tl bx b_name]. rewrite Hv1, mark_by_comp. reflexivity. }
    rewrite Hv3, mark_by_names, mark_by_loop_names, Hs4 in H3. fold G L in H3.
    destruct (forallb (fun w => w G L) (map wf ie)).
    2:{ exact H3. }
    destruct H3 as (st3 & He3 & Hv3' & Ha3). exists st3. split; [exact He3|]. split.
    + rewrite Hv3', Hs1. cbn [app push_of rt_kind]. rewrite mark_by_comp. apply mark_by_ext. intros y.
      rewrite refs_RT. cbn [refs_body map]. rewrite Hs3.
      destruct (refs y l), (refs y body), (bstr_eqb var y); reflexivity.
    + cbn [set_vars used_keys] in Ha3. cbn [push_var set_vars used_keys] in Ha2.
      eapply adds_trans; [eapply (adds_trans G (var :: G) _ _ _ _
                                     (fun k0 => refs k0 l || negb (bstr_eqb var k0) && refs k0 body)
                                     (fun k0 => Wf.forwards templates k0 l || Wf.forwards templates k0 body));
                          [exact Ha1 | exact Ha2 |] | exact Ha3 |]; intros k0.
      * cbn [contains].
        destruct (contains G k0), (refs k0 l), (refs k0 body), (bstr_eqb var k0),
          (Wf.forwards templates k0 l), (Wf.forwards templates k0 body); reflexivity.
      * rewrite refs_RT. cbn [refs_body map Wf.forwards existsb]. rewrite Hs3. fold (fseq k0 ie).
        destruct (contains G k0), (refs k0 l), (refs k0 body), (bstr_eqb var k0), (existsb (fun r => r) (map (refs k0) ie)),
          (Wf.forwards templates k0 l), (Wf.forwards templates k0 body), (fseq k0 ie); reflexivity.
  - (* data reference *)
    cbn [wf_body chk_body]. unfold visit_key.
    destruct (bstr_eqb key s_ij) eqn:Hij; cbn [orb cbind].
    + pose proof (after_step kids st st (fun _ => false) (fun _ => false) IH Hlk eq_refl eq_refl Hsame) as H.
      fold G L in H. destruct (wf_seq kids (map wf kids) G L); [|exact H].
      destruct H as (st' & He & Hv & Ha). exists st'. split; [exact He|]. split.
      * rewrite Hv. cbn [push_of rt_kind app]. apply mark_by_ext. intros y. rewrite refs_RT. cbn [refs_body].
        rewrite Hij. cbn [negb]. rewrite andb_false_r. reflexivity.
      * eapply adds_ext; [|exact Ha]. intros k0. rewrite refs_RT. cbn [refs_body Wf.forwards]. rewrite Hij. cbn [negb].
        rewrite andb_false_r. reflexivity.
    + rewrite mark_spec. fold G. destruct (contains G key) eqn:HGk; cbn [orb cbind].
      * set (st1 := set_vars st (mark_by (fun y => bstr_eqb y key) (vars st))).
        pose proof (after_step kids st st1 (fun k0 => bstr_eqb key k0) (fun _ => false) IH Hlk) as H.
        fold G L in H. destruct (wf_seq kids (map wf kids) G L).
        -- destruct H as (st' & He & Hv & Ha); try (subst st1; cbn [set_vars vars]; first [apply mark_by_names | apply mark_by_loop_names]).
           { intros k0. subst st1. cbn [set_vars used_keys]. rewrite orb_false_r.
             destruct (bstr_eqb_spec key k0) as [<-|]; [rewrite HGk | rewrite andb_false_r]; cbn; intuition congruence. }
           exists st'. split; [exact He|]. split.
           ++ rewrite Hv. subst st1. cbn [set_vars vars push_of rt_kind app]. rewrite mark_by_comp. apply mark_by_ext.
              intros y. rewrite refs_RT. cbn [refs_body]. rewrite Hij. cbn [negb]. rewrite andb_true_r, (bstr_eqb_sym y key). reflexivity.
           ++ eapply adds_ext; [|exact Ha]. intros k0. rewrite refs_RT. cbn [refs_body Wf.forwards]. rewrite Hij. cbn [negb].
              rewrite andb_true_r. reflexivity.
        -- apply H; try (subst st1; cbn [set_vars vars]; first [apply mark_by_names | apply mark_by_loop_names]).
           intros k0. subst st1. cbn [set_vars used_keys]. rewrite orb_false_r.
           destruct (bstr_eqb_spec key k0) as [<-|]; [rewrite HGk | rewrite andb_false_r]; cbn; intuition congruence.
      * destruct (contains params key) eqn:HPk; cbn [andb cbind]; [|eexists; reflexivity].
        pose proof (after_step kids st (add_used st key) (fun k0 => bstr_eqb key k0) (fun _ => false) IH Hlk eq_refl eq_refl) as H.
        fold G L in H.
        assert (Hu : forall k0, In k0 (used_keys (add_used st key)) <->
                     In k0 (used_keys st) \/ (In k0 params /\ (negb (contains G k0) && bstr_eqb key k0 || false) = true)).
        { intros k0. cbn [add_used used_keys]. rewrite in_app_iff, orb_false_r. cbn [In].
          destruct (bstr_eqb_spec key k0) as [<-|Hne].
          - rewrite HGk. cbn. apply contains_In in HPk. intuition.
          - rewrite andb_false_r. intuition congruence. }
        destruct (wf_seq kids (map wf kids) G L).
        -- destruct (H Hu) as (st' & He & Hv & Ha). exists st'. split; [exact He|]. split.
           ++ rewrite Hv. cbn [add_used vars push_of rt_kind app]. apply mark_by_ext_in. intros y Hy. rewrite refs_RT. cbn [refs_body].
              rewrite Hij. cbn [negb]. rewrite andb_true_r.
              destruct (bstr_eqb_spec key y) as [<-|]; [|reflexivity].
              (* key is not on the stack *)
              apply contains_false in HGk. contradiction.
           ++ eapply adds_ext; [|exact Ha]. intros k0. rewrite refs_RT. cbn [refs_body Wf.forwards]. rewrite Hij. cbn [negb].
              rewrite andb_true_r. reflexivity.
        -- exact (H Hu).
  - (* function *)
    cbn [wf_body chk_body]. rewrite check_loop_func_spec. fold L.
    destruct (loopfunc_ok name arg0 L); cbn [andb cbind]; [|eexists; reflexivity].
    pose proof (after_step kids st st (fun _ => false) (fun _ => false) IH Hlk eq_refl eq_refl Hsame) as H.
    fold G L in H. destruct (wf_seq kids (map wf kids) G L); [|exact H].
    destruct H as (st' & He & Hv & Ha). exists st'. split; [exact He|]. split; [exact Hv | exact Ha].
  - (* header param *)
    cbn [wf_body chk_body]. eexists. reflexivity.
  - (* other *)
    cbn [wf_body chk_body].
    pose proof (after_step kids st st (fun _ => false) (fun _ => false) IH Hlk eq_refl eq_refl Hsame) as H.
    fold G L in H. destruct (wf_seq kids (map wf kids) G L); [|exact H].
    destruct H as (st' & He & Hv & Ha). exists st'. split; [exact He|]. split; [exact Hv | exact Ha].
Qed.

Lemma bool_eq_iff (a c : bool) : (a = true <-> c = true) -> a = c.
Proof. destruct a, c; intros [H1 H2]; try reflexivity; [symmetry; apply H1 | apply H2]; reflexivity. Qed.

(* one template *)
Theorem check_template_node_iff n : loops_ok (view n) = true ->
  (check_template_node templates params n = Accept <-> wf_template_node templates params n = true).
Proof.
  intros Hlo. unfold check_template_node, wf_template_node.
  pose proof (chk_ok_all (view n) Hlo {| vars := []; used_keys := [] |}) as H. cbn [vars names loop_names map filter] in H.
  destruct (Wf.wf templates params (view n) [] []); cbn [andb].
  - destruct H as (st' & He & _ & Ha). rewrite He.
    assert (Hf : forallb (contains (used_keys st')) params
                 = forallb (fun p => refs p (view n) || Wf.forwards templates p (view n)) params).
    { apply forallb_ext_in. intros p Hp. apply bool_eq_iff. rewrite contains_In, (Ha p). cbn [used_keys contains negb andb In].
      tauto. }
    rewrite Hf. match goal with |- (if ?c then _ else _) = _ <-> ?d = true => change d with c; destruct c end; split; intros H0; congruence.
  - destruct H as [e He]. rewrite He. split; intros H0; congruence.
Qed.
End Template.

Lemma check_templates_iff all ts : forallb (fun t => loops_ok (view (t_node t))) ts = true ->
  (check_templates all ts = Accept <-> forallb (wf_template all) ts = true).
Proof.
  induction ts as [|t r IH]; intros Hlo; cbn [check_templates forallb]; [tauto|].
  cbn [forallb] in Hlo. apply andb_true_iff in Hlo as [Ht Hr].
  pose proof (check_template_node_iff all (map fst (t_params t)) (t_node t) Ht) as H.
  unfold wf_template at 1. destruct (check_template_node all (map fst (t_params t)) (t_node t)).
  - rewrite (proj1 H eq_refl). cbn [andb]. apply IH. exact Hr.
  - destruct (wf_template_node all (map fst (t_params t)) (t_node t)); cbn [andb].
    + destruct H as [_ H]. discriminate (H eq_refl).
    + split; discriminate.
Qed.

(* CheckDataRefs accepts a registry exactly when the Spec calls it well-formed *)
Theorem check_registry_iff reg : registry_loops_ok reg = true ->
  (check_registry reg = Accept <-> wf_registry reg = true).
Proof. intros H. apply check_templates_iff. exact H. Qed.

(* ------------------------------------------------------------------ *)
(* Registry.Add against the Spec's reading of the files *)

Lemma file_namespace_spec body : file_namespace body = namespace_of body.
Proof. induction body as [|x r IH]; [reflexivity|]. destruct x; cbn [file_namespace namespace_of]; try reflexivity; try exact IH. Qed.

(* Registry.Add (regenerated expression): a folded header param is optional exactly when it
   carries the ? marker; a default value or a missing type does not matter *)
Lemma header_param_optional_spec opt has_default has_type : header_param_optional opt has_default has_type = opt.
Proof. destruct opt, has_default, has_type; reflexivity. Qed.

Lemma split_header_spec ns : split_header ns = (head_params ns, after_head ns).
Proof.
  induction ns as [|x r IH]; [reflexivity|]. destruct x; cbn [split_header head_params after_head]; try reflexivity.
  rewrite IH, header_param_optional_spec. reflexivity.
Qed.

Lemma soydoc_params_spec ps :
  forallb (fun n => match n with NSoyDocParam _ _ _ => true | _ => false end) ps = true ->
  soydoc_params ps = Some (flat_map (fun n => match n with NSoyDocParam _ name opt => [(name, opt)] | _ => [] end) ps).
Proof.
  induction ps as [|x r IH]; intros H; [reflexivity|]. cbn [forallb] in H. apply andb_true_iff in H as [Hx Hr].
  destruct x; try discriminate. cbn [soydoc_params flat_map app]. rewrite (IH Hr). reflexivity.
Qed.

Lemma after_head_suffix (P : rt -> bool) nodes :
  forallb P (map view nodes) = true -> forallb P (map view (after_head nodes)) = true.
Proof.
  induction nodes as [|x r IH]; intros H; [exact H|]. cbn [map forallb] in H. apply andb_true_iff in H as [Hx Hr].
  destruct x; cbn [after_head]; try (cbn [map forallb]; rewrite Hx, Hr; reflexivity). apply IH. exact Hr.
Qed.

(* template names: the incremental check of Add against [distinct] *)
Fixpoint fresh_from (seen new : list bstr) : bool :=
  match new with
  | [] => true
  | x :: r => negb (contains seen x) && fresh_from (seen ++ [x]) r
  end.

Lemma distinct_snoc seen x : distinct (seen ++ [x]) = distinct seen && negb (contains seen x).
Proof.
  induction seen as [|y s IH]; cbn [app distinct contains]; [reflexivity|].
  rewrite IH, contains_app. cbn [contains]. rewrite orb_false_r, (bstr_eqb_sym x y).
  destruct (contains s y), (bstr_eqb y x), (distinct s), (contains s x); reflexivity.
Qed.

Lemma distinct_app_fresh new : forall seen, distinct (seen ++ new) = distinct seen && fresh_from seen new.
Proof.
  induction new as [|x r IH]; intros seen; cbn [fresh_from].
  - rewrite app_nil_r, andb_true_r. reflexivity.
  - change (seen ++ x :: r) with (seen ++ [x] ++ r). rewrite app_assoc, IH, distinct_snoc, andb_assoc. reflexivity.
Qed.

Lemma fresh_from_app new1 : forall seen new2,
  fresh_from seen (new1 ++ new2) = fresh_from seen new1 && fresh_from (seen ++ new1) new2.
Proof.
  induction new1 as [|x r IH]; intros seen new2; cbn [app fresh_from].
  - rewrite app_nil_r. reflexivity.
  - rewrite IH, <- app_assoc, andb_assoc. reflexivity.
Qed.

Lemma existsb_name acc name : existsb (fun t => bstr_eqb (t_name t) name) acc = contains (map t_name acc) name.
Proof. induction acc as [|t r IH]; cbn [existsb map contains]; [reflexivity|]. rewrite IH. reflexivity. Qed.

Definition tnames (ts : list template) : list bstr := map t_name ts.

Lemma add_step (c E F : bool) (X : add_result) (acc : list template) t new :
  (if E && F then X = AddOk ((acc ++ [t]) ++ new) else exists r, X = AddRej r) ->
  if E && (negb c && F)
  then (if c then AddRej RDuplicateTemplate else X) = AddOk (acc ++ t :: new)
  else exists r, (if c then AddRej RDuplicateTemplate else X) = AddRej r.
Proof.
  destruct c, E, F; cbn [andb negb]; intros H; try (eexists; reflexivity); try exact H.
  rewrite H, <- app_assoc. reflexivity.
Qed.

Lemma add_templates_spec fname ns fb : forall prev acc,
  forallb template_typed (with_prev prev fb) = true ->
  if forallb exclusive_params (with_prev prev fb)
     && fresh_from (tnames acc) (tnames (flat_map (template_of fname ns) (with_prev prev fb)))
  then add_templates fname ns prev fb acc = AddOk (acc ++ flat_map (template_of fname ns) (with_prev prev fb))
  else exists r, add_templates fname ns prev fb acc = AddRej r.
Proof.
  induction fb as [|x r IH]; intros prev acc Hty.
  - cbn. rewrite app_nil_r. reflexivity.
  - cbn [with_prev forallb] in Hty. apply andb_true_iff in Hty as [Hx Hr].
    cbn [with_prev forallb flat_map].
    destruct x; try (cbn [add_templates exclusive_params template_of snd app andb]; apply IH; exact Hr).
    (* a template *)
    unfold template_typed in Hx. cbn [snd fst] in Hx.
    apply andb_true_iff in Hx as [Hx Hdoc]. apply andb_true_iff in Hx as [Hbody Hlo].
    match goal with |- context [NTemplate _ _ ?b0 _ _] => destruct b0; try discriminate end.
    cbn [add_templates].
    rewrite split_header_spec.
    assert (Hsd : (match prev with Some (NSoyDoc _ ps) => soydoc_params ps | _ => Some [] end) = Some (doc_params prev)).
    { destruct prev as [[]|]; try reflexivity. cbn [doc_params]. apply soydoc_params_spec. exact Hdoc. }
    rewrite Hsd, existsb_name. cbn [exclusive_params template_of snd fst app tnames map t_name fresh_from].
    fold (tnames acc).
    assert (Hstep : forall t, t_name t = name ->
              if forallb exclusive_params (with_prev (Some (NTemplate p name (NList p0 nodes) autoescape private)) r)
                 && fresh_from (tnames acc ++ [name])
                      (tnames (flat_map (template_of fname ns) (with_prev (Some (NTemplate p name (NList p0 nodes) autoescape private)) r)))
              then add_templates fname ns (Some (NTemplate p name (NList p0 nodes) autoescape private)) r (acc ++ [t])
                   = AddOk ((acc ++ [t]) ++ flat_map (template_of fname ns) (with_prev (Some (NTemplate p name (NList p0 nodes) autoescape private)) r))
              else exists r0, add_templates fname ns (Some (NTemplate p name (NList p0 nodes) autoescape private)) r (acc ++ [t]) = AddRej r0).
    { intros t Hn. specialize (IH (Some (NTemplate p name (NList p0 nodes) autoescape private)) (acc ++ [t]) Hr).
      unfold tnames in IH at 1. rewrite map_app in IH. cbn [map] in IH. rewrite Hn in IH. exact IH. }
    destruct (doc_params prev) as [|d ds], (head_params nodes) as [|h hs]; cbn [is_nil negb andb].
    + apply add_step. apply Hstep. reflexivity.
    + apply add_step. apply Hstep. reflexivity.
    + apply add_step. apply Hstep. reflexivity.
    + eexists. reflexivity.
Qed.

Definition file_ok (seen : list bstr) (f : soyfile) : bool :=
  match namespace_of (sf_body f) with Some _ => true | None => false end
  && forallb exclusive_params (with_prev None (sf_body f))
  && fresh_from seen (tnames (file_templates f)).
Fixpoint files_ok (seen : list bstr) (fs : list soyfile) : bool :=
  match fs with
  | [] => true
  | f :: r => file_ok seen f && files_ok (seen ++ tnames (file_templates f)) r
  end.

Lemma add_files_spec fs : files_shaped fs = true -> forall acc,
  if files_ok (tnames acc) fs
  then add_files acc fs = AddOk (acc ++ bundle_templates fs)
  else exists r, add_files acc fs = AddRej r.
Proof.
  induction fs as [|f r IH]; intros Hsh acc.
  - cbn. rewrite app_nil_r. reflexivity.
  - cbn [files_shaped forallb] in Hsh. apply andb_true_iff in Hsh as [Hf Hr].
    cbn [files_ok add_files bundle_templates flat_map]. unfold add_file, file_ok, file_templates.
    change (file_namespace (sf_body f)) with (namespace_of (sf_body f)).
    destruct (namespace_of (sf_body f)) as [ns|]; cbn [andb].
    2:{ eexists. reflexivity. }
    pose proof (add_templates_spec (sf_name f) ns (sf_body f) None acc Hf) as H1.
    destruct (forallb exclusive_params (with_prev None (sf_body f)) && fresh_from (tnames acc) _); cbn [andb].
    2:{ destruct H1 as [e ->]. eexists. reflexivity. }
    rewrite H1.
    specialize (IH Hr (acc ++ flat_map (template_of (sf_name f) ns) (with_prev None (sf_body f)))).
    unfold tnames in *. rewrite map_app in IH.
    fold (bundle_templates r).
    match type of IH with if ?c then _ else _ => destruct c end.
    + rewrite IH, app_assoc. reflexivity.
    + exact IH.
Qed.

Lemma files_ok_spec fs : forall seen,
  files_ok seen fs
  = forallb (fun f => match namespace_of (sf_body f) with Some _ => true | None => false end) fs
    && forallb (fun f => forallb exclusive_params (with_prev None (sf_body f))) fs
    && fresh_from seen (tnames (bundle_templates fs)).
Proof.
  induction fs as [|f r IH]; intros seen; [reflexivity|].
  cbn [files_ok forallb bundle_templates flat_map]. fold (bundle_templates r).
  unfold tnames at 2. rewrite map_app. fold (tnames (file_templates f)) (tnames (bundle_templates r)).
  rewrite fresh_from_app, IH. unfold file_ok.
  destruct (match namespace_of (sf_body f) with Some _ => true | None => false end),
    (forallb exclusive_params (with_prev None (sf_body f))),
    (fresh_from seen (tnames (file_templates f))); cbn [andb]; rewrite ?andb_false_r; try reflexivity;
    repeat match goal with |- context [forallb ?g r] => destruct (forallb g r); cbn [andb] end; reflexivity.
Qed.

Lemma template_of_loops_ok fname ns pn t :
  template_typed pn = true -> In t (template_of fname ns pn) -> loops_ok (view (t_node t)) = true.
Proof.
  unfold template_typed, template_of. destruct pn as [prev x]. cbn [snd fst]. destruct x; try solve [intros _ []].
  match goal with |- context [loops_ok (view ?b0)] => destruct b0; try solve [intros _ []] end. intros Hty [<-|[]]. cbn [t_node].
  apply andb_true_iff in Hty as [Hty _]. apply andb_true_iff in Hty as [_ Hty].
  change (forallb loops_ok (map view nodes) = true) in Hty.
  change (forallb loops_ok (map view (after_head nodes)) && true = true). rewrite andb_true_r.
  apply after_head_suffix. exact Hty.
Qed.

Lemma bundle_loops_ok fs : files_shaped fs = true ->
  forallb (fun t => loops_ok (view (t_node t))) (bundle_templates fs) = true.
Proof.
  intros Hsh. apply forallb_forall. intros t Ht. unfold bundle_templates in Ht. apply in_flat_map in Ht as (f & Hf & Ht).
  unfold files_shaped in Hsh. rewrite forallb_forall in Hsh. specialize (Hsh f Hf). rewrite forallb_forall in Hsh.
  unfold file_templates in Ht. destruct (namespace_of (sf_body f)) as [ns|]; [|destruct Ht].
  apply in_flat_map in Ht as (pn & Hpn & Ht). eapply template_of_loops_ok; [apply Hsh; exact Hpn | exact Ht].
Qed.

(* Bundle.Compile (after parsing) accepts exactly the well-formed bundles *)
Theorem check_iff_wf fs : files_shaped fs = true ->
  (compile_check fs = Accept <-> wf_bundle fs = true).
Proof.
  intros Hsh. unfold compile_check, wf_bundle.
  pose proof (add_files_spec fs Hsh []) as H. cbn [app tnames map] in H.
  rewrite files_ok_spec in H.
  pose proof (distinct_app_fresh (tnames (bundle_templates fs)) []) as Hd. cbn [app distinct andb] in Hd.
  unfold tnames in Hd at 1. rewrite Hd. fold (tnames (bundle_templates fs)).
  match type of H with if ?c then _ else _ => destruct c end; cbn [andb].
  - rewrite H. apply (check_registry_iff (registry_of (bundle_templates fs) fs)). apply bundle_loops_ok. exact Hsh.
  - destruct H as [r ->]. split; intros H0; congruence.
Qed.
