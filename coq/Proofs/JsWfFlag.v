(* C14, token grammar: the 'line break before' flag.  The lexers flag a token ([TNL t]) where a production of the
   subset is restricted by a line terminator (a postfix ++); the recogniser has no transition on a flagged token, so
   every token list it accepts is free of flagged tokens: a text with a line break before ++ lexes, and is refused
   by the grammar -- as ECMAScript's restricted production demands. *)
From Soy Require Import Model.Bytes Model.JsGen.
From Soy Require Import Spec.JsSyntax.
Open Scope N_scope.

Definition pat_nf (p : pat) : bool := match p with PT (TNL _) => false | _ => true end.
(* the fixed token sequences the recogniser expects contain no flagged token *)
Fixpoint mode_nf (m : mode) : Prop :=
  match m with
  | MSeq ps push next => forallb pat_nf ps = true /\ mode_nf next
  | _ => True
  end.

Ltac crackf H :=
  repeat match type of H with
         | context [match ?x with _ => _ end] => destruct x; try discriminate H
         | context [if ?x then _ else _] => destruct x; try discriminate H
         end;
  inversion H; subst; clear H; cbn; auto.

Lemma js_step_flagged md m s t : mode_nf m -> js_step md m s (TNL t) = None.
Proof.
  intro W. destruct m; cbn [js_step step_stmt step_want step_have]; try reflexivity.
  - destruct ps as [|p ps]; [reflexivity|]. cbn [mode_nf forallb] in W. destruct W as [W _].
    apply andb_prop in W. destruct W as [W _]. destruct p as [t'| |]; cbn [pat_match]; try reflexivity.
    destruct t'; cbn [tok_eqb]; try reflexivity. discriminate W.
Qed.

Lemma js_step_nf md m s t m' s' d : mode_nf m -> js_step md m s t = Some (m', s', d) -> mode_nf m'.
Proof.
  intros W. destruct m; cbn [js_step]; unfold step_stmt, step_want, step_have, cfg, seq1, m_params; intro H;
    try (crackf H; fail).
  cbn [mode_nf] in W. destruct W as [W Wn]. destruct ps as [|p ps]; [discriminate H|].
  cbn [forallb] in W. apply andb_prop in W. destruct W as [_ W].
  destruct (pat_match p t); [|discriminate H]. destruct ps as [|p2 ps]; inversion H; subst; [exact Wn|].
  cbn [mode_nf]. split; [exact W|exact Wn].
Qed.

Lemma js_run_unflagged md ts : forall m s r, mode_nf m -> js_run md ts m s = Some r -> existsb tok_flagged ts = false.
Proof.
  induction ts as [|t ts IH]; intros m s r W H; [reflexivity|]. cbn [js_run] in H. cbn [existsb].
  destruct (js_step md m s t) as [[[m1 s1] d1]|] eqn:E; [|discriminate H].
  destruct (js_run md ts m1 s1) as [[[m2 s2] d2]|] eqn:E2; [|discriminate H].
  rewrite (IH _ _ _ (js_step_nf _ _ _ _ _ _ _ W E) E2), orb_false_r.
  destruct t; try reflexivity. rewrite js_step_flagged in E by exact W. discriminate E.
Qed.

(* no token of an accepted token list carries the flag *)
Theorem js_parse_unflagged md ts p : js_parse md ts = Some p -> existsb tok_flagged ts = false.
Proof.
  unfold js_parse. intro H. destruct (js_run md ts (MStmt false) []) as [r|] eqn:E; [|discriminate H].
  exact (js_run_unflagged md ts (MStmt false) [] r I E).
Qed.

(* and the lexer does flag: a line break before ++ (directly, after white space, or ending a comment) *)
Example lex_flags_incr :
  lex_bytes (b "i" ++ [10] ++ b "  ++") = Some [TId (b "i"); TNL (TP PPlusPlus)]
  /\ lex_bytes (b "i // c" ++ [10] ++ b "++") = Some [TId (b "i"); TNL (TP PPlusPlus)]
  /\ lex_bytes (b "i ++" ++ [10]) = Some [TId (b "i"); TP PPlusPlus].
Proof. vm_compute. repeat split. Qed.
