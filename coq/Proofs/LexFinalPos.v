(* C19, parse half, scanner: where the LAST item of a scan stands -- for every input, every state.

   [at_cursor l]: the item sent last is positioned at the scanner's cursor (base + l.pos), and when
   it is an error item of an unterminated construct (eof in soydoc / in a block comment / in a
   string, unclosed tag) the cursor has reached the end of the input.
   [step_dn]: every state function that returns the nil state leaves [at_cursor] (the nil state is
   returned only by errorf, or by lexText after it has emitted EOF): one lemma per state function
   and per scanning loop.  [run_at_cursor]: hence for the whole run.  With the invariant of
   Proofs/LexerProofs.v (the cursor never passes the end of the input):
   [scan_final_item]: the last item of ANY scan that returns stands at the cursor where the scan
   stopped, inside the input, and an unterminated soydoc / comment / string / tag is reported
   exactly at the end of the input. *)
From Soy Require Import Model.Bytes Model.Utf8 Model.Outcome Model.Token Model.Lexer Generated.Tables
  Proofs.LexerPrim Proofs.LexerStates Proofs.LexerProofs.
From Coq Require Import ZifyBool ZifyNat ZifyN Lia List.
Import ListNotations.
Open Scope Z_scope.

Definition eof_class (c : bstr) : bool :=
  bstr_eqb c e_soydoc_eof || bstr_eqb c e_comment_eof || bstr_eqb c e_string_eof || bstr_eqb c e_unclosed_tag.

Section Final.
Variable uni_letter uni_digit : Z -> bool.
Variable inp : bstr.
Notation ilen := (Z.of_nat (length inp)).
Variable base : Z.

Definition at_cursor (l' : lx) : Prop :=
  exists it rest, l_out l' = it :: rest /\ t_pos it = Z.to_N (base + l_pos l') /\
    (t_typ it = itemError -> eof_class (t_val it) = true -> ilen <= l_pos l').
Definition dn (p : lstate * lx) : Prop := fst p = LDone -> at_cursor (snd p).

Lemma next_eof_pos l r l1 : next inp ilen l = Ok (r, l1) -> (r =? eof) = true -> ilen <= l_pos l1.
Proof.
  unfold next, eof. intros H E. apply Z.eqb_eq in E. destruct (ilen <=? l_pos l) eqn:C.
  - inversion H; subst. cbn [l_pos]. lia.
  - destruct (l_pos l <? 0); [discriminate|]. destruct (decode_rune _) as [rr w]. inversion H; subst. lia.
Qed.

Lemma errorf_dn c l p : errorf base c l = Ok p -> (eof_class c = true -> ilen <= l_pos l) -> dn p.
Proof.
  unfold errorf. destruct (_ <? 0); [discriminate|]. intros H Hc. inversion H; subst; clear H.
  intros _. cbn [snd]. eexists; eexists. cbn [l_out l_pos t_pos t_typ t_val]. split; [reflexivity|]. split; [reflexivity|].
  intros _ Hcl. exact (Hc Hcl).
Qed.
Lemma errorf_dn_plain c l p : errorf base c l = Ok p -> eof_class c = false -> dn p.
Proof. intros H Hc. eapply errorf_dn; [exact H|]. rewrite Hc. discriminate. Qed.

Lemma emit_eof_dn l l' : emit inp ilen base itemEOF l = Ok l' -> dn (LDone, l').
Proof.
  unfold emit. set (l1 := if ilen <? l_pos l then set_pos l ilen else l). destruct (slice _ _ _ _) as [v| | | | |]; cbn [bind]; try discriminate.
  intros H. inversion H; subst; clear H. intros _. cbn [snd]. eexists; eexists. cbn [l_out l_pos t_pos t_typ]. split; [reflexivity|]. split; [reflexivity|].
  intros Ht. vm_compute in Ht. discriminate.
Qed.

Lemma dn_live st l : st <> LDone -> dn (st, l).
Proof. intros H E. cbn in E. contradiction. Qed.

Lemma emit_to_dn t st l p : st <> LDone -> emit_to inp ilen base t st l = Ok p -> dn p.
Proof. intros Hst H. unfold emit_to in H. destruct (emit _ _ _ _ _); cbn [bind] in H; inversion H; subst. apply dn_live; exact Hst. Qed.

(* take a computation apart along its binds and tests *)
Ltac crack1 :=
  match goal with
  | H : Ok _ = Ok _ |- _ => inversion H; subst; clear H
  | H : bind ?x _ = Ok _ |- _ => let E := fresh "E" in destruct x eqn:E; cbn [bind] in H; try discriminate H
  | H : (let '(_, _) := ?x in _) = Ok _ |- _ => destruct x
  | H : (if ?c then _ else _) = Ok _ |- _ => let C := fresh "C" in destruct c eqn:C
  | H : match ?x with _ => _ end = Ok _ |- _ => let C := fresh "C" in destruct x eqn:C
  end.
Ltac crack := repeat crack1.

(* close a goal [dn p] *)
Ltac live := apply dn_live; discriminate.
Ltac eofpos :=
  match goal with
  | E : next _ _ _ = Ok (?r, ?l1), C : (?r =? eof) = true |- _ <= l_pos ?l1 => exact (next_eof_pos _ _ _ E C)
  end.
Ltac fin_dn :=
  first
  [ live
  | match goal with H : emit_to _ _ _ _ ?st _ = Ok _ |- _ => solve [eapply emit_to_dn; [|exact H]; discriminate] end
  | match goal with H : emit _ _ _ itemEOF _ = Ok _ |- _ => exact (emit_eof_dn _ _ H) end
  | match goal with H : errorf _ ?c _ = Ok _ |- _ => apply (errorf_dn_plain _ _ _ H); vm_compute; reflexivity end
  | match goal with H : errorf _ ?c _ = Ok _ |- _ => apply (errorf_dn _ _ _ H); intros _; eofpos end
  | match goal with IH : forall _, _ , H : _ = Ok _ |- _ => solve [eapply IH; exact H] end ].

(* ---------- the loops that can end the scan ---------- *)
Lemma lex_text_loop_dn fuel : forall r0 l p, lex_text_loop inp ilen base fuel r0 l = Ok p -> dn p.
Proof. induction fuel as [|f IH]; intros r0 l p H; [discriminate|]. cbn [lex_text_loop] in H. cbv zeta in H. crack; fin_dn. Qed.

Lemma line_comment_loop_dn fuel : forall l p, line_comment_loop inp ilen base fuel l = Ok p -> dn p.
Proof. induction fuel as [|f IH]; intros l p H; [discriminate|]. cbn [line_comment_loop] in H. crack; fin_dn. Qed.

Lemma block_comment_loop_dn fuel : forall star l p, block_comment_loop inp ilen base fuel star l = Ok p -> dn p.
Proof. induction fuel as [|f IH]; intros star l p H; [discriminate|]. cbn [block_comment_loop] in H. crack; fin_dn. Qed.

Lemma string_loop_dn fuel : forall q l p, string_loop inp ilen base fuel q l = Ok p -> dn p.
Proof. induction fuel as [|f IH]; intros q l p H; [discriminate|]. cbn [string_loop] in H. crack; fin_dn. Qed.

Lemma soydoc_loop_dn fuel : forall star sol l p, soydoc_loop inp ilen base fuel star sol l = Ok p -> dn p.
Proof. induction fuel as [|f IH]; intros star sol l p H; [discriminate|]. cbn [soydoc_loop] in H. cbv zeta in H. crack; fin_dn. Qed.

Lemma header_type_loop_dn fuel : forall lns l e, header_type_loop inp ilen base fuel lns l = Ok (inl e) -> dn e.
Proof. induction fuel as [|f IH]; intros lns l e H; [discriminate|]. cbn [header_type_loop] in H. crack; fin_dn. Qed.

Lemma css_loop_dn fuel : forall l e, css_loop inp ilen base fuel l = Ok (inl e) -> dn e.
Proof. induction fuel as [|f IH]; intros l e H; [discriminate|]. cbn [css_loop] in H. crack; fin_dn. Qed.

Lemma double_close_dn l e : double_close inp ilen base l = Ok (inl e) -> dn e.
Proof. intros H. unfold double_close in H. crack; fin_dn. Qed.

(* ---------- the state functions ---------- *)
Ltac sub_dn :=
  match goal with
  | H : double_close _ _ _ _ = Ok (inl ?e) |- dn ?e => exact (double_close_dn _ _ H)
  | H : css_loop _ _ _ _ _ = Ok (inl ?e) |- dn ?e => exact (css_loop_dn _ _ _ H)
  | H : header_type_loop _ _ _ _ _ _ = Ok (inl ?e) |- dn ?e => exact (header_type_loop_dn _ _ _ _ H)
  end.

Lemma lex_left_delim_dn l p : lex_left_delim inp ilen base l = Ok p -> dn p.
Proof. intros H. unfold lex_left_delim in H. crack; fin_dn. Qed.
Lemma lex_right_delim_dn l p : lex_right_delim inp ilen base l = Ok p -> dn p.
Proof. intros H. unfold lex_right_delim in H. crack; first [sub_dn|fin_dn]. Qed.
Lemma lex_right_delim_end_dn l p : lex_right_delim_end inp ilen base l = Ok p -> dn p.
Proof. intros H. unfold lex_right_delim_end in H. crack; first [sub_dn|fin_dn]. Qed.
Lemma lex_begin_tag_dn l p : lex_begin_tag inp ilen l = Ok p -> dn p.
Proof. intros H. unfold lex_begin_tag in H. crack; fin_dn. Qed.
Lemma lex_negative_dn l p : lex_negative inp ilen base l = Ok p -> dn p.
Proof. intros H. unfold lex_negative in H. cbv zeta in H. crack; fin_dn. Qed.

(* lexInsideTag: "unclosed tag" is raised on the rune next() returned, which is then eof *)
Lemma lex_inside_tag_dn l p : lex_inside_tag inp ilen base l = Ok p -> dn p.
Proof.
  intros H. unfold lex_inside_tag in H.
  destruct (next inp ilen l) as [[r l1]| | | | |] eqn:En; cbn [bind] in H; try discriminate.
  destruct (gen_isSpaceEOL r); [inversion H; subst; live|].
  destruct (r =? eof) eqn:Ceof.
  - (* every test on the way to the eof case fails *)
    apply Z.eqb_eq in Ceof. subst r.
    repeat (match type of H with context [if ?c then _ else _] =>
              let v := eval vm_compute in c in change c with v in H; cbn iota in H end; cbn [bind] in H).
    apply (errorf_dn _ _ _ H). intros _. exact (next_eof_pos _ _ _ En eq_refl).
  - crack; try fin_dn; try (match goal with H : lex_negative _ _ _ _ = Ok _ |- _ => exact (lex_negative_dn _ _ H) end).
Qed.

Lemma lex_soydoc_dn l p : lex_soydoc inp ilen base l = Ok p -> dn p.
Proof. intros H. unfold lex_soydoc in H. crack. eapply soydoc_loop_dn; eassumption. Qed.
Lemma lex_ident_dn l p : lex_ident uni_letter uni_digit inp ilen base l = Ok p -> dn p.
Proof. intros H. unfold lex_ident in H. crack; fin_dn. Qed.
Lemma lex_header_param_dn l p : lex_header_param uni_letter uni_digit inp ilen base l = Ok p -> dn p.
Proof. intros H. unfold lex_header_param in H. cbv zeta in H. crack; first [sub_dn|fin_dn]. Qed.
Lemma lex_css_dn l p : lex_css inp ilen base l = Ok p -> dn p.
Proof. intros H. unfold lex_css in H. cbv zeta in H. crack; first [sub_dn|fin_dn]. Qed.
Lemma lex_literal_dn l p : lex_literal inp ilen base l = Ok p -> dn p.
Proof. intros H. unfold lex_literal in H. cbv zeta in H. crack; first [sub_dn|fin_dn]. Qed.
Lemma lex_number_dn l p : lex_number uni_letter uni_digit inp ilen base l = Ok p -> dn p.
Proof. intros H. unfold lex_number in H. crack; fin_dn. Qed.

Theorem step_dn st l p : st <> LDone -> step uni_letter uni_digit inp ilen base st l = Ok p -> dn p.
Proof.
  intros Hst H. destruct st; cbn [step] in H; try congruence.
  - eapply lex_text_loop_dn; exact H.
  - eapply lex_left_delim_dn; exact H.
  - eapply lex_right_delim_dn; exact H.
  - eapply lex_right_delim_end_dn; exact H.
  - eapply lex_begin_tag_dn; exact H.
  - eapply lex_inside_tag_dn; exact H.
  - eapply lex_soydoc_dn; exact H.
  - eapply line_comment_loop_dn; exact H.
  - eapply block_comment_loop_dn; exact H.
  - eapply string_loop_dn; exact H.
  - eapply lex_ident_dn; exact H.
  - eapply lex_header_param_dn; exact H.
  - eapply lex_css_dn; exact H.
  - eapply lex_literal_dn; exact H.
  - eapply lex_number_dn; exact H.
Qed.

Lemma run_S fuel st l : st <> LDone ->
  run uni_letter uni_digit inp ilen base (S fuel) st l =
  bind (step uni_letter uni_digit inp ilen base st l) (fun p => let '(st', l') := p in run uni_letter uni_digit inp ilen base fuel st' l').
Proof. intros H. destruct st; try reflexivity. congruence. Qed.
Lemma run_done fuel l : run uni_letter uni_digit inp ilen base fuel LDone l = Ok l.
Proof. destruct fuel; reflexivity. Qed.

Theorem run_at_cursor : forall fuel st l l', (st = LDone -> at_cursor l) ->
  run uni_letter uni_digit inp ilen base fuel st l = Ok l' -> at_cursor l'.
Proof.
  induction fuel as [|f IH]; intros st l l' H0 Hr.
  - destruct st; cbn in Hr; try discriminate. inversion Hr; subst. apply H0; reflexivity.
  - assert (Hd : st = LDone \/ st <> LDone) by (destruct st; auto; right; discriminate).
    destruct Hd as [->|Hn].
    + rewrite run_done in Hr. inversion Hr; subst. apply H0; reflexivity.
    + rewrite (run_S _ _ _ Hn) in Hr.
      destruct (step uni_letter uni_digit inp ilen base st l) as [[st' l1]| | | | |] eqn:Es; cbn [bind] in Hr; try discriminate.
      eapply IH; [|exact Hr]. exact (step_dn _ _ _ Hn Es).
Qed.
End Final.

(* the cursor of a run that returns is inside the input *)
Lemma run_wf (uni_letter uni_digit : Z -> bool) :
  uni_letter (-1) = false -> uni_digit (-1) = false ->
  forall inp base, 0 <= base -> forall fuel st l l', inv inp base st l ->
  run uni_letter uni_digit inp (Z.of_nat (length inp)) base fuel st l = Ok l' -> wf inp l'.
Proof.
  intros Hl Hd inp base Hb. induction fuel as [|f IH]; intros st l l' Hi Hr.
  - destruct st; cbn in Hr; try discriminate. injection Hr as <-. apply Hi.
  - destruct st;
      try (cbn [run] in Hr;
           pose proof (step_ok uni_letter uni_digit Hl Hd inp base Hb _ l Hi ltac:(discriminate)) as Hs;
           match type of Hr with bind ?x _ = _ => destruct x as [[st' l1]| | | | |] end; cbn in Hs, Hr; try discriminate; try contradiction;
           exact (IH _ _ _ (proj1 Hs) Hr)).
    cbn in Hr. injection Hr as <-. apply Hi.
Qed.

(* ANY scan that returns (file or expression mode, any base, any budget): the last item stands at the
   cursor where the scan stopped; the cursor is inside the input; an unterminated soydoc / block
   comment / string / tag is reported at the very end of the input *)
Theorem scan_final_item (uni_letter uni_digit : Z -> bool) :
  uni_letter (-1) = false -> uni_digit (-1) = false ->
  forall base, 0 <= base -> forall fuel expr_mode s l,
  lex_run_at uni_letter uni_digit base fuel expr_mode s = Ok l ->
  exists it rest, l_out l = it :: rest /\ t_pos it = Z.to_N (base + l_pos l) /\ 0 <= l_pos l <= Z.of_nat (length s) /\
    (t_typ it = itemError -> eof_class (t_val it) = true -> l_pos l = Z.of_nat (length s)).
Proof.
  intros Hl Hd base Hb fuel expr_mode s l Hr. unfold lex_run_at in Hr.
  pose proof (run_wf _ _ Hl Hd s base Hb fuel _ _ _ (init_inv s base expr_mode) Hr) as Hw.
  assert (Hc : at_cursor s base l).
  { eapply run_at_cursor; [|exact Hr]. destruct expr_mode; discriminate. }
  destruct Hc as (it & rest & Ho & Hp & He). exists it, rest. unfold wf in Hw.
  split; [exact Ho|]. split; [exact Hp|]. split; [lia|]. intros Ht Hc. specialize (He Ht Hc). lia.
Qed.
