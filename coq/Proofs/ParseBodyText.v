(* C15, parser half: itemList / textOrTag (Model/Parser.v) on the items the scanner sends for a stretch of
   template text cut by comments ([shape], Proofs/LexBodyTop.v): the nodes are raw-text nodes whose texts,
   concatenated, are the Spec's [norm_pieces] of the pieces. *)
From Soy Require Import Model.Bytes Model.Utf8 Model.Outcome Model.Num Model.Values Model.Ast Model.Token Model.RawText
  Model.ExprParser Model.Parser Model.Lexer Generated.Tables Spec.Text
  Proofs.RawTextProofs Proofs.ExprParserRules Proofs.BodyTextSpec Proofs.LexBodyText Proofs.LexBodyTop.
From Coq Require Import ZifyBool ZifyNat ZifyN Lia.
Open Scope N_scope.

Definition is_comment (t : tok) : Prop := t_typ t = pit_Comment.

Definition raw_text_of (n : node) : bstr := match n with NRawText _ v => v | _ => [] end.
Definition is_raw (n : node) : Prop := match n with NRawText _ _ => True | _ => False end.

Section P.
Variable inlen : N.
Variable lexq : bstr -> list tok.
Variable unq : bstr -> option bstr.
Variable pexpr : nat -> N -> pst -> presult node.
Variable efuel : list tok -> nat.
Variable pe : N -> cst -> cres node.
Variable w : list N -> cst -> cres node.
Variable lf : nat.
Notation loop := (item_list_loop inlen lexq unq pexpr efuel pe w lf).
Notation tot := (text_or_tag inlen lexq unq pexpr efuel pe w lf).

Lemma c_next_stream s t l : stream (c_p s) = t :: l -> inv (c_p s) ->
  exists s1, c_next s = COk t s1 /\ stream (c_p s1) = l /\ inv (c_p s1) /\
             stream (c_p (c_backup s1)) = t :: l /\ inv (c_p (c_backup s1)).
Proof.
  intros Hs Hi. destruct (next_spec _ _ _ Hs Hi) as (st1 & Hn & Hs1 & Hi1 & Hsb & Hib).
  exists (set_p s st1). unfold c_next. assert (E : (3 <=? p_peek (c_p s))%nat = false) by (unfold inv in Hi; apply Nat.leb_gt; lia).
  rewrite E, Hn. split; [reflexivity|]. cbn [c_p set_p c_backup]. auto.
Qed.

Lemma skip_non lf' token s : t_typ token <> pit_Comment -> skip_comments (S lf') token s = COk token s.
Proof. intros H. cbn [skip_comments]. unfold tis. apply N.eqb_neq in H. rewrite H. reflexivity. Qed.

Lemma skip_run : forall pre n c s t l, t_typ c = pit_Comment -> Forall is_comment pre -> t_typ t <> pit_Comment ->
  stream (c_p s) = pre ++ t :: l -> inv (c_p s) -> (length pre + 2 <= n)%nat ->
  exists s', skip_comments n c s = COk t s' /\ stream (c_p s') = l /\ inv (c_p s').
Proof.
  induction pre as [|c' pre IH]; intros n c s t l Hc Hpre Ht Hs Hi Hn; (destruct n as [|n]; [lia|]); cbn [skip_comments]; unfold tis at 1; rewrite Hc, N.eqb_refl.
  - cbn [app] in Hs. destruct (c_next_stream s t l Hs Hi) as (s1 & Hnx & Hs1 & Hi1 & _). rewrite Hnx. cbn [cbind].
    destruct n as [|n]; [cbn in Hn; lia|]. rewrite skip_non by exact Ht. eauto.
  - cbn [app] in Hs. destruct (c_next_stream s c' _ Hs Hi) as (s1 & Hnx & Hs1 & Hi1 & _). rewrite Hnx. cbn [cbind].
    inversion Hpre; subst. apply (IH n c' s1 t l); auto. cbn in Hn; lia.
Qed.

(* one iteration of itemList that ends at EOF *)
Lemma eof_iter pre e l f pos acc s : Forall is_comment pre -> t_typ e = pit_EOF ->
  stream (c_p s) = pre ++ e :: l -> inv (c_p s) -> (length pre + 2 <= lf)%nat ->
  exists pos1 s', loop (S f) u_eof pos acc s = COk (NList pos1 acc) s'.
Proof.
  intros Hpre He Hs Hi Hlf. cbn [item_list_loop].
  assert (Hne : t_typ e <> pit_Comment) by (rewrite He; discriminate).
  assert (Hu : one_of (t_typ e) u_eof = true) by (rewrite He; reflexivity).
  destruct pre as [|c pre].
  - cbn [app] in Hs. destruct (c_next_stream s e l Hs Hi) as (s1 & Hnx & Hs1 & Hi1 & _). rewrite Hnx. cbn [cbind].
    unfold text_or_tag. destruct lf as [|lf']; [lia|]. rewrite skip_non by exact Hne. cbn [cbind]. rewrite Hu. cbn [cbind snd].
    eauto.
  - cbn [app] in Hs. destruct (c_next_stream s c _ Hs Hi) as (s1 & Hnx & Hs1 & Hi1 & _). rewrite Hnx. cbn [cbind].
    inversion Hpre as [|? ? Hc Hpre']; subst.
    destruct (skip_run pre lf c s1 e l Hc Hpre' Hne Hs1 Hi1 ltac:(cbn in Hlf; lia)) as (s2 & Hsk & Hs2 & Hi2).
    unfold text_or_tag. rewrite Hsk. cbn [cbind]. rewrite Hu. cbn [cbind snd]. eauto.
Qed.

(* textOrTag on a text item followed by a comment or by EOF, once the comments before it are skipped *)
Lemma tot_text token0 s1 s2 t nx l : skip_comments lf token0 s1 = COk t s2 -> t_typ t = pit_Text ->
  t_typ nx <> pit_Text -> stream (c_p s2) = nx :: l -> inv (c_p s2) -> (1 <= lf)%nat ->
  exists s5, stream (c_p s5) = nx :: l /\ inv (c_p s5) /\
    forall rt, rawtext_run (t_val t) (tis token0 pit_Comment) (tis nx pit_Comment) = Ok rt ->
      tot token0 u_eof s1 = COk (match rt with [] => None | _ => Some (NRawText (t_pos t) rt) end, false) s5.
Proof.
  intros Hsk Ht Hnx Hs2 Hi2 Hlf.
  assert (Hu : one_of (t_typ t) u_eof = false) by (rewrite Ht; reflexivity).
  assert (Hnt : tis nx pit_Text = false) by (unfold tis; apply N.eqb_neq; exact Hnx).
  assert (Htt : tis t pit_Text = true) by (unfold tis; rewrite Ht; reflexivity).
  assert (Hld : tis t pit_LeftDelim = false) by (unfold tis; rewrite Ht; reflexivity).
  destruct (c_next_stream s2 nx l Hs2 Hi2) as (s2' & Hn2 & Hs2' & Hi2' & Hsb & Hib).
  destruct (c_next_stream (c_backup s2') nx l Hsb Hib) as (s4 & Hn4 & Hs4 & Hi4 & Hsb4 & Hib4).
  exists (c_backup s4). split; [exact Hsb4|]. split; [exact Hib4|]. intros rt Hrt.
  unfold text_or_tag. rewrite Hsk. cbn [cbind]. rewrite Hu, Hn2. cbn [cbind]. rewrite Hld. cbn [andb]. cbv zeta. rewrite Htt.
  destruct lf as [|lf']; [lia|]. cbn [text_run]. rewrite Hn4. cbn [cbind]. rewrite Hnt. cbn [cbind fst snd]. rewrite Hrt.
  destruct rt; reflexivity.
Qed.

(* one iteration of itemList on a text item followed by a comment or by EOF *)
Lemma text_iter pre t nx l f pos acc s : Forall is_comment pre -> t_typ t = pit_Text ->
  t_typ nx <> pit_Text ->
  stream (c_p s) = pre ++ t :: nx :: l -> inv (c_p s) -> (length pre + 2 <= lf)%nat ->
  exists pos1 s5, stream (c_p s5) = nx :: l /\ inv (c_p s5) /\
    forall rt, rawtext_run (t_val t) (match pre with [] => false | _ => true end) (tis nx pit_Comment) = Ok rt ->
      loop (S f) u_eof pos acc s =
      loop f u_eof (Some pos1) (match rt with [] => acc | _ => acc ++ [NRawText (t_pos t) rt] end) s5.
Proof.
  intros Hpre Ht Hnx Hs Hi Hlf.
  assert (Hne : t_typ t <> pit_Comment) by (rewrite Ht; discriminate).
  cbn [item_list_loop]. destruct pre as [|c pre].
  - cbn [app] in Hs. destruct (c_next_stream s t _ Hs Hi) as (s1 & Hnx1 & Hs1 & Hi1 & _).
    assert (Hsk : skip_comments lf t s1 = COk t s1) by (destruct lf as [|lf']; [lia|]; apply skip_non; exact Hne).
    destruct (tot_text t s1 s1 t nx l Hsk Ht Hnx Hs1 Hi1 ltac:(lia)) as (s5 & Hs5 & Hi5 & Hrun).
    exists (match pos with Some p => p | None => t_pos t end), s5.
    split; [exact Hs5|]. split; [exact Hi5|]. intros rt Hrt.
    assert (Hseen : tis t pit_Comment = false) by (unfold tis; rewrite Ht; reflexivity). rewrite Hseen in Hrun.
    rewrite Hnx1. cbn [cbind]. rewrite (Hrun rt Hrt). cbn [cbind snd fst]. destruct rt; reflexivity.
  - cbn [app] in Hs. destruct (c_next_stream s c _ Hs Hi) as (s1 & Hnx1 & Hs1 & Hi1 & _).
    inversion Hpre as [|? ? Hc Hpre']; subst.
    destruct (skip_run pre lf c s1 t (nx :: l) Hc Hpre' Hne Hs1 Hi1 ltac:(cbn in Hlf; lia)) as (s2 & Hsk & Hs2 & Hi2).
    destruct (tot_text c s1 s2 t nx l Hsk Ht Hnx Hs2 Hi2 ltac:(lia)) as (s5 & Hs5 & Hi5 & Hrun).
    exists (match pos with Some p => p | None => t_pos c end), s5.
    split; [exact Hs5|]. split; [exact Hi5|]. intros rt Hrt.
    assert (Hseen : tis c pit_Comment = true) by (unfold tis; rewrite Hc; reflexivity). rewrite Hseen in Hrun.
    rewrite Hnx1. cbn [cbind]. rewrite (Hrun rt Hrt). cbn [cbind snd fst]. destruct rt; reflexivity.
Qed.

Lemma shape_nonempty pcs items : shape pcs items -> pcs <> [].
Proof. intros H. destruct H; discriminate. Qed.

Lemma droppable_norm tb ta x : droppable x = true -> normalize tb ta x = [].
Proof.
  unfold droppable. destruct x as [|c x]; [reflexivity|]. intros H.
  destruct (droppable_all_ws _ H) as (A & B & C). apply normalize_all_ws_nl; assumption.
Qed.

Lemma norm_tail tb x x' : (x = x' \/ exists b, ws b = true /\ x = x' ++ [b]) -> normalize tb true x = normalize tb true x'.
Proof. intros [->|(b & Hb & ->)]; [reflexivity|]. apply normalize_snoc_ws. exact Hb. Qed.

Lemma no_nul_tail x x' : (x = x' \/ exists b, ws b = true /\ x = x' ++ [b]) -> no_nul x -> no_nul x'.
Proof. intros [->|(b & Hb & ->)] H; [exact H|]. unfold no_nul in *. apply Forall_app in H. tauto. Qed.

Definition flag (pre : list tok) : bool := match pre with [] => false | _ => true end.

(* itemList over the items of a text cut by comments *)
Lemma items_nodes : forall pcs items, shape pcs items -> Forall no_nul pcs ->
  forall pre, Forall is_comment pre -> forall f acc pos s,
  stream (c_p s) = pre ++ items -> inv (c_p s) -> (length (pre ++ items) + 2 <= lf)%nat -> (length items <= f)%nat ->
  exists pos' nodes s', loop f u_eof pos acc s = COk (NList pos' (acc ++ nodes)) s' /\ Forall is_raw nodes /\
     concat (map raw_text_of nodes) = norm_pieces (flag pre) pcs.
Proof.
  intros pcs items Hsh. induction Hsh as [x txt e Htx He|x x' txt c rest items' Htx Hx Hc Hsh IH];
    intros Hnn pre Hpre f acc pos s Hs Hi Hlf Hf.
  - (* the last piece *)
    inversion Hnn as [|? ? Hnx _]; subst. rewrite norm_pieces_one.
    assert (He' : t_typ e = pit_EOF) by exact He.
    unfold is_text_of in Htx. destruct (droppable x) eqn:Ed.
    + subst txt. cbn [app] in *. destruct f as [|f']; [cbn in Hf; lia|].
      destruct (eof_iter pre e [] f' pos acc s Hpre He' Hs Hi ltac:(rewrite app_length in Hlf; cbn in Hlf; lia)) as (pos1 & s' & Hrun).
      exists pos1, [], s'. rewrite app_nil_r. split; [exact Hrun|]. split; [constructor|]. cbn. symmetry. apply droppable_norm. exact Ed.
    + destruct Htx as (p & ->). set (t := {| t_typ := itemText; t_pos := p; t_val := x |}) in *. cbn [app] in *.
      destruct f as [|f']; [cbn in Hf; lia|].
      destruct (text_iter pre t e [] f' pos acc s Hpre eq_refl ltac:(rewrite He'; discriminate) Hs Hi ltac:(rewrite app_length in Hlf; cbn in Hlf; lia))
        as (pos1 & s5 & Hs5 & Hi5 & Hrun).
      assert (Hce : tis e pit_Comment = false) by (unfold tis; rewrite He'; reflexivity).
      specialize (Hrun (normalize (flag pre) false x)). rewrite Hce in Hrun. specialize (Hrun (rawtext_run_spec x (flag pre) false Hnx)).
      rewrite Hrun. destruct f' as [|f'']; [cbn in Hf; lia|].
      destruct (eof_iter [] e [] f'' (Some pos1) (match normalize (flag pre) false x with [] => acc | _ => acc ++ [NRawText (t_pos t) (normalize (flag pre) false x)] end)
                  s5 ltac:(constructor) He' Hs5 Hi5 ltac:(cbn; lia)) as (pos2 & s' & Hrun2).
      rewrite Hrun2. destruct (normalize (flag pre) false x) as [|a r] eqn:En.
      * exists pos2, [], s'. rewrite app_nil_r. split; [reflexivity|]. split; [constructor|reflexivity].
      * exists pos2, [NRawText (t_pos t) (a :: r)], s'. split; [reflexivity|]. split; [constructor; [exact I|constructor]|].
        cbn. rewrite app_nil_r. reflexivity.
  - (* a piece followed by a comment *)
    inversion Hnn as [|? ? Hnx Hnr]; subst.
    pose proof (shape_nonempty _ _ Hsh) as Hne. destruct rest as [|y rest']; [congruence|]. rewrite norm_pieces_cons.
    assert (Hc' : t_typ c = pit_Comment) by exact Hc.
    rewrite (norm_tail (flag pre) x x' Hx). pose proof (no_nul_tail x x' Hx Hnx) as Hnx'.
    unfold is_text_of in Htx. destruct (droppable x') eqn:Ed.
    + subst txt. cbn [app] in *.
      assert (Hs' : stream (c_p s) = (pre ++ [c]) ++ items') by (rewrite <- app_assoc; exact Hs).
      destruct (IH Hnr (pre ++ [c]) ltac:(apply Forall_app; split; [exact Hpre|constructor; [exact Hc'|constructor]]) f acc pos s Hs' Hi
                  ltac:(rewrite <- app_assoc; exact Hlf) ltac:(cbn in Hf; lia)) as (pos' & nodes & s' & Hrun & Hraw & Hcat).
      exists pos', nodes, s'. split; [exact Hrun|]. split; [exact Hraw|]. rewrite Hcat, (droppable_norm _ _ _ Ed).
      destruct pre; reflexivity.
    + destruct Htx as (p & ->). set (t := {| t_typ := itemText; t_pos := p; t_val := x' |}) in *. cbn [app] in *.
      destruct f as [|f']; [cbn in Hf; lia|].
      destruct (text_iter pre t c items' f' pos acc s Hpre eq_refl ltac:(rewrite Hc'; discriminate) Hs Hi ltac:(rewrite app_length in Hlf; cbn in Hlf; lia))
        as (pos1 & s5 & Hs5 & Hi5 & Hrun).
      assert (Hcc : tis c pit_Comment = true) by (unfold tis; rewrite Hc'; reflexivity).
      specialize (Hrun (normalize (flag pre) true x')). rewrite Hcc in Hrun. specialize (Hrun (rawtext_run_spec x' (flag pre) true Hnx')).
      rewrite Hrun.
      destruct (IH Hnr [c] ltac:(constructor; [exact Hc'|constructor]) f' (match normalize (flag pre) true x' with [] => acc | _ => acc ++ [NRawText (t_pos t) (normalize (flag pre) true x')] end)
                  (Some pos1) s5 Hs5 Hi5 ltac:(rewrite app_length in Hlf; cbn in Hlf |- *; lia) ltac:(cbn in Hf; lia))
        as (pos' & nodes & s' & Hrun2 & Hraw & Hcat).
      rewrite Hrun2. cbn [flag] in Hcat. destruct (normalize (flag pre) true x') as [|a r] eqn:En.
      * exists pos', nodes, s'. split; [reflexivity|]. split; [exact Hraw|exact Hcat].
      * exists pos', (NRawText (t_pos t) (a :: r) :: nodes), s'. split; [rewrite <- app_assoc; reflexivity|].
        split; [constructor; [exact I|exact Hraw]|]. cbn [map raw_text_of concat]. rewrite Hcat. reflexivity.
Qed.

End P.
