(* C17, scanner half for template bodies: a corollary of [lb17_lex_body_tbl] on item types,
   and a concrete body of the class (the class is inhabited by nested commands). *)
From Soy Require Import Model.Bytes Model.Utf8 Model.Num Model.Values Model.Outcome Model.Ast Model.Token
  Model.AstPrint Model.AstPrintCmd Generated.Tables Model.Lexer Spec.ExprSyntax Spec.CmdSyntax
  Proofs.LexTokens Proofs.LexExpr Proofs.LexPrint Proofs.LexPrintMain Proofs.LexBodyText Proofs.LexPrintCmd.
From Soy Require Import Proofs.LexBodyC17 Proofs.LexBodyC17Cmds Proofs.LexBodyC17Body.
From Coq Require Import Lia.
Open Scope N_scope.

(* the item TYPES alone *)
Theorem lb17_lex_body_types : forall q ns txt, lb17_okb ns -> print_tree (NList q ns) = Some txt ->
  exists its e, lex_items is_letter_tbl is_digit_tbl (lex_budget txt) false txt = Ok (its ++ [e]) /\ t_typ e = itemEOF /\
    map t_typ its = map t_typ (body_toks (NList q ns)).
Proof.
  intros q ns txt Hok Hp. destruct (lb17_lex_body_tbl q ns txt Hok Hp) as (its & e & H1 & H2 & H3).
  exists its, e. split; [exact H1|]. split; [exact H2|].
  apply (f_equal (map fst)) in H3. rewrite !map_map in H3. exact H3.
Qed.

(* a body of the class:  a{if $x}b{else}{debugger}{/if}{let $y}c{/let}  *)
Definition lb17_example : list node :=
  [NRawText 0 [97];
   NIf 1 [NIfCond 1 (Some (NDataRef 5 [120] [])) (NList 8 [NRawText 8 [98]]);
          NIfCond 1 None (NList 15 [NDebugger 16])];
   NLetContent 30 [121] (NList 38 [NRawText 38 [99]])].

Lemma lb17_example_text c : c <> 0 -> c <> 123 -> c <> 125 -> c <> 47 -> droppable [c] = false ->
  forall p r, lb17_okb r -> match r with NRawText _ _ :: _ => False | _ => True end -> lb17_okb (NRawText p [c] :: r).
Proof.
  intros H0 H1 H2 H3 Hd p r Hr Hh. apply lb17_ok_text; try assumption.
  - repeat constructor; assumption.
  - apply lb17_one_piece_noslash. repeat constructor; assumption.
Qed.

Lemma lb17_example_ok : lb17_okb lb17_example.
Proof.
  unfold lb17_example.
  apply lb17_example_text; try lia; try reflexivity.
  apply lb17_ok_cmd.
  { apply lb17_ok_if. apply lb17_ok_conds_cond.
    - exact I.
    - split; [reflexivity|exact I].
    - apply lb17_example_text; try lia; try reflexivity. apply lb17_ok_nil.
    - apply lb17_ok_conds_else. apply lb17_ok_cmd; [apply lb17_ok_debugger|apply lb17_ok_nil]. }
  apply lb17_ok_cmd; [|apply lb17_ok_nil].
  apply lb17_ok_letc; [reflexivity|]. apply lb17_example_text; try lia; try reflexivity. apply lb17_ok_nil.
Qed.

(* the theorem on the example: its text is  a{if $x}b{else}{debugger}{/if}{let $y}c{/let} *)
Example lb17_example_lex :
  exists its e, lex_items is_letter_tbl is_digit_tbl (lex_budget (b "a{if $x}b{else}{debugger}{/if}{let $y}c{/let}")) false
                  (b "a{if $x}b{else}{debugger}{/if}{let $y}c{/let}") = Ok (its ++ [e]) /\ t_typ e = itemEOF /\
    map tv its = map tv (body_toks (NList 0 lb17_example)).
Proof. apply lb17_lex_body_tbl; [exact lb17_example_ok|reflexivity]. Qed.
